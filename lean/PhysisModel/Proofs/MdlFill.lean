import PhysisModel.Proofs.MdlGrammar
import PhysisModel.Proofs.MdlLayout
import PhysisModel.Proofs.MdlGeometry
import PhysisModel.Proofs.MdlRuntimeSize
import PhysisModel.Spec.MdlFill
/-!
The reader ignores the bytes of a declaration block that carry no information
(`Spec/MdlFill.lean`): block level, runtime-block level, `encDeclF` generalises `encDecl`, and the
whole file: `encodeMdlF m fs` has the layout of `m` (`sameLayout_fill`), hence `parse_encodeF` is
an instance of `SameLayout.parse` (`Proofs/MdlGeometry.lean`).
-/
namespace Physis.Mdl
open Physis Physis.Spec.Mdl

theorem parseElement_encP (e : VertexElement) (h : elemValid e = true) (p : UInt8 × UInt8 × UInt8)
    (r : Bytes) : parseElement (encElementP e p ++ r) = .ok (e, r) := by
  simp only [elemValid, Bool.and_eq_true] at h
  simp only [parseElement, encElementP, List.cons_append, List.nil_append, u8_bind, h.1, h.2,
    Bool.not_true, Bool.false_eq_true, ↓reduceIte, skip_bind, List.drop_succ_cons, List.drop_zero]
  rfl

/-- the element the reader sees in the marker slot -/
def markerElement (f : DeclFill) : VertexElement := ⟨0xFF, f.mkOffset, f.mkType, f.mkUsage, f.mkIndex⟩

theorem parseElement_markerF (f : DeclFill) (ht : validType f.mkType = true)
    (hu : validUsage f.mkUsage = true) (r : Bytes) :
    parseElement (markerF f ++ r) = .ok (markerElement f, r) := by
  simp only [parseElement, markerF, List.cons_append, List.nil_append, u8_bind, ht, hu,
    Bool.not_true, Bool.false_eq_true, ↓reduceIte, skip_bind, List.drop_succ_cons, List.drop_zero]
  rfl

theorem declLoop_encF (f : DeclFill) (ht : validType f.mkType = true) (hu : validUsage f.mkUsage = true) :
    ∀ (es : List VertexElement) (ps : List (UInt8 × UInt8 × UInt8)) (fuel : Nat) (e : VertexElement)
      (acc : List VertexElement) (r : Bytes), ps.length = es.length → es.length < fuel →
      (∀ x ∈ es, elemValid x = true ∧ x.stream ≠ 0xFF) →
      declLoop fuel e acc (encElementsP es ps ++ (markerF f ++ r)) = .ok (acc ++ e :: es, r) := by
  intro es
  induction es with
  | nil =>
    intro ps fuel e acc r hp hf _
    obtain ⟨k, rfl⟩ : ∃ k, fuel = k + 1 := ⟨fuel - 1, by simp at hf; omega⟩
    have : ps = [] := List.eq_nil_of_length_eq_zero (by simpa using hp)
    subst this
    simp only [declLoop, encElementsP, List.nil_append]
    rw [P.bind_ok (parseElement_markerF f ht hu r)]
    rfl
  | cons x xs ih =>
    intro ps fuel e acc r hp hf hv
    obtain ⟨k, rfl⟩ : ∃ k, fuel = k + 1 := ⟨fuel - 1, by simp at hf; omega⟩
    match ps, hp with
    | p :: ps, hp =>
      have hx := hv x (by simp)
      simp only [declLoop, encElementsP, List.append_assoc]
      rw [P.bind_ok (parseElement_encP x hx.1 p _)]
      have hne : (x.stream == 0xFF) = false := by simpa using hx.2
      simp only [hne, Bool.false_eq_true, ↓reduceIte]
      rw [ih ps k x (acc ++ [e]) r (by simpa using hp) (by simp at hf; omega)
        (fun y hy => hv y (by simp [hy]))]
      simp

theorem length_encElementsP : ∀ (es : List VertexElement) (ps : List (UInt8 × UInt8 × UInt8)),
    ps.length = es.length → (encElementsP es ps).length = 8 * es.length
  | [], _, _ => by simp [encElementsP]
  | e :: es, p :: ps, h => by
    simp only [encElementsP, List.length_append, encElementP, List.length_cons, List.length_nil]
    rw [length_encElementsP es ps (by simpa using h)]; omega
  | _ :: _, [], h => by simp at h

theorem length_encDeclF (d : List VertexElement) (f : DeclFill) (h16 : d.length ≤ 16)
    (h : declFillOk d f = true) : (encDeclF d f).length = 136 := by
  simp only [declFillOk, Bool.and_eq_true, beq_iff_eq] at h
  obtain ⟨⟨⟨hp, _⟩, _⟩, htl⟩ := h
  simp only [encDeclF, List.length_append, length_encElementsP d f.pads hp, markerF, htl,
    List.length_cons, List.length_nil]
  omega

/-- **block level**: a declaration block is read back exactly whatever its unused bytes hold -/
theorem parseDecl_encF (d : List VertexElement) (h : declOk d = true) (f : DeclFill)
    (hf : declFillOk d f = true) (r : Bytes) : parseDecl (encDeclF d f ++ r) = .ok (d, r) := by
  have hlen136 := length_encDeclF d f (by
    simp only [declOk, Bool.and_eq_true, decide_eq_true_eq] at h; exact h.1.1.2) hf
  simp only [declOk, Bool.and_eq_true, decide_eq_true_eq, List.all_eq_true, bne_iff_ne] at h
  obtain ⟨⟨⟨h1, h16⟩, hv⟩, hs⟩ := h
  simp only [declFillOk, Bool.and_eq_true, beq_iff_eq] at hf
  obtain ⟨⟨⟨hp, ht⟩, hu⟩, htl⟩ := hf
  cases d with
  | nil => simp at h1
  | cons e es =>
  cases hfp : f.pads with
  | nil => rw [hfp] at hp; simp at hp
  | cons p ps =>
    rw [hfp] at hp
    simp only [List.length_cons] at h16 hp htl
    have hlen : (encDeclF (e :: es) f ++ r).length = 136 + r.length := by
      rw [List.length_append, hlen136]
    unfold parseDecl
    simp only [hlen]
    simp only [encDeclF, hfp, encElementsP, List.append_assoc]
    rw [P.bind_ok (parseElement_encP e (hv e (by simp)) p _)]
    rw [P.bind_ok (declLoop_encF f ht hu es ps _ e [] _ (by omega) (by omega)
      (fun x hx => ⟨hv x (by simp [hx]), hs x (by simpa using hx)⟩))]
    simp only [List.nil_append, List.length_cons]
    have : ¬ ((es.length + 1 + 1) * 8 > 17 * 8) := by omega
    simp only [this, ↓reduceIte, skip_bind]
    have hz : (f.tail ++ r).drop (17 * 8 - (es.length + 1 + 1) * 8) = r := by
      apply List.drop_left'
      rw [htl]; omega
    rw [hz]; rfl

theorem encElementsP_zero (d : List VertexElement) :
    encElementsP d (List.replicate d.length (0, 0, 0)) = d.flatMap encElement := by
  induction d with
  | nil => rfl
  | cons e es ih => simp only [List.length_cons, List.replicate_succ, encElementsP, ih,
      List.flatMap_cons, encElementP, encElement]

/-- `encDecl` is the zero-filled instance -/
theorem encDeclF_zero (d : List VertexElement) : encDeclF d (DeclFill.zero d) = encDecl d := by
  simp only [encDeclF, DeclFill.zero, encElementsP_zero, markerF, encDecl, endMarker]

theorem declFillOk_zero (d : List VertexElement) : declFillOk d (DeclFill.zero d) = true := by
  simp [declFillOk, DeclFill.zero, validType, validUsage, zeros]

/-- the declarations of a runtime block, read from filled blocks -/
theorem count_parseDecl_encF : ∀ (ds : List (List VertexElement)) (fs : List DeclFill),
    (∀ x ∈ ds, declOk x = true) → declFillsOk ds fs = true → ∀ (r : Bytes),
    count parseDecl ds.length (encDeclsF ds fs ++ r) = .ok (ds, r)
  | [], [], _, _, r => rfl
  | d :: ds, g :: gs, hd, hf, r => by
    simp only [declFillsOk, Bool.and_eq_true] at hf
    simp only [List.length_cons, count, encDeclsF, List.append_assoc]
    rw [P.bind_ok (parseDecl_encF d (hd d (by simp)) g hf.1 _),
      P.bind_ok (count_parseDecl_encF ds gs (fun x hx => hd x (by simp [hx])) hf.2 r)]
    rfl
  | [], _ :: _, _, hf, _ => by simp [declFillsOk] at hf
  | _ :: _, [], _, hf, _ => by simp [declFillsOk] at hf

theorem count_parseDecl_encF_bind (ds : List (List VertexElement)) (fs : List DeclFill) (n : Nat)
    (hn : ds.length = n) (hd : ∀ x ∈ ds, declOk x = true) (hf : declFillsOk ds fs = true)
    (r : Bytes) (f : List (List VertexElement) → P β) :
    (count parseDecl n >>= f) (encDeclsF ds fs ++ r) = f ds r := by
  subst hn; exact P.bind_ok (count_parseDecl_encF ds fs hd hf r)

/-- **runtime-block level**: the whole runtime block is read back field by field whatever the unused
bytes of its declaration blocks hold -/
theorem parseModelData_encF (fh : FileHeader) (d : ModelData) (h : modelDataOk fh d = true)
    (fs : List DeclFill) (hfs : declFillsOk d.decls fs = true)
    (r : Bytes) : parseModelData fh (encModelDataF fh.version d fs ++ r) = .ok (d, r) := by
  simp only [modelDataOk, Bool.and_eq_true, beq_iff_eq, List.all_eq_true, blocksOk_iff, and_assoc] at h
  obtain ⟨hdl, hdo, hh, he1, he2, hl1, hl2, hm, ha, ht1, ht2, hs, hts1, hts2, hmat, hbn, hver, hsh,
    hsm, hsv, hpad, hbb, hbb1, hbb2⟩ := h
  simp only [parseModelData, encModelDataF, encModelData, List.append_assoc, v5_eq, v6_eq,
    List.flatMap_nil, List.nil_append]
  rw [count_parseDecl_encF_bind d.decls fs _ hdl hdo hfs]
  rw [P.bind_ok (parseModelHeader_enc d.header hh _)]
  rw [count_blocks_bind 32 d.elementIds _ he1 he2]
  rw [count_bind parseMeshLod encMeshLod d.lods 3 hl1
    (fun x hx r => parseMeshLod_enc x (by simpa using hl2 x hx) r)]
  rw [count_bind parseMesh encMesh d.meshes _ hm (fun x _ r => parseMesh_enc x r)]
  rw [count_bind u32 putU32le d.attributeNameOffsets _ ha (fun x _ r => u32_put x r)]
  rw [count_blocks_bind 20 d.terrainShadowMeshes _ ht1 ht2]
  rw [count_bind parseSubmesh encSubmesh d.submeshes _ hs (fun x _ r => parseSubmesh_enc x r)]
  rw [count_blocks_bind 12 d.terrainShadowSubmeshes _ hts1 hts2]
  rw [count_bind u32 putU32le d.materialNameOffsets _ hmat (fun x _ r => u32_put x r)]
  rw [count_bind u32 putU32le d.boneNameOffsets _ hbn (fun x _ r => u32_put x r)]
  have hcases : isV5 fh.version = false ∨ isV5 fh.version = true := by
    cases isV5 fh.version <;> simp
  rcases hcases with hv | hv
  · -- version ≥ 6
    have hv6 := isV6_of_not_isV5 _ hv
    simp only [hv, Bool.false_eq_true, ↓reduceIte, Bool.and_eq_true, beq_iff_eq,
      List.all_eq_true, List.isEmpty_iff, and_assoc] at hver
    obtain ⟨hb1, hb2, hb3, hb4, hb5⟩ := hver
    simp only [hv, hv6, condP, Bool.false_eq_true, ↓reduceIte, List.nil_append, pureP_bind]
    rw [count_bind parseBoneTableV2 encBoneTableV2 d.boneTablesV2 _ hb1
      (fun x hx r => parseBoneTableV2_enc x (hb2 x hx) r)]
    rw [count_bind parseShape encShape d.shapes _ hsh (fun x _ r => parseShape_enc x r)]
    rw [count_bind parseShapeMesh encShapeMesh d.shapeMeshes _ hsm (fun x _ r => parseShapeMesh_enc x r)]
    rw [count_bind parseShapeValue encShapeValue d.shapeValues _ hsv (fun x _ r => parseShapeValue_enc x r)]
    simp only [u16_bind, pureP_bind]
    rw [count_bind u16 putU16le d.submeshBoneMap _ hb5 (fun x _ r => u16_put x r)]
    simp only [List.cons_append, List.nil_append, u8_bind]
    rw [takeN_bind _ _ _ hpad, takeN_bind _ _ _ hbb, count_blocks_bind 32 d.boneBoundingBoxes _ hbb1 hbb2]
    cases d; simp only at hb3 hb4; subst hb3 hb4; rfl
  · -- version ≤ 5
    have hv6 := not_isV6_of_isV5 _ hv
    simp only [hv, ↓reduceIte, Bool.and_eq_true, beq_iff_eq, List.all_eq_true,
      List.isEmpty_iff, and_assoc] at hver
    obtain ⟨hb1, hb2, hb3, hb4, hb5⟩ := hver
    simp only [hv, hv6, condP, Bool.false_eq_true, ↓reduceIte, List.nil_append, pureP_bind]
    rw [count_bind parseBoneTable encBoneTable d.boneTables _ hb1
      (fun x hx r => parseBoneTable_enc x (by simpa [boneTableOk] using hb2 x hx) r)]
    simp only [pureP_bind]
    rw [count_bind parseShape encShape d.shapes _ hsh (fun x _ r => parseShape_enc x r)]
    rw [count_bind parseShapeMesh encShapeMesh d.shapeMeshes _ hsm (fun x _ r => parseShapeMesh_enc x r)]
    rw [count_bind parseShapeValue encShapeValue d.shapeValues _ hsv (fun x _ r => parseShapeValue_enc x r)]
    simp only [u32_bind, pureP_bind]
    rw [count_bind u16 putU16le d.submeshBoneMap _ hb5 (fun x _ r => u16_put x r)]
    simp only [List.cons_append, List.nil_append, u8_bind]
    rw [takeN_bind _ _ _ hpad, takeN_bind _ _ _ hbb, count_blocks_bind 32 d.boneBoundingBoxes _ hbb1 hbb2]
    cases d; simp only at hb3 hb4; subst hb3 hb4; rfl



theorem length_encDeclsF : ∀ (ds : List (List VertexElement)) (fs : List DeclFill),
    (∀ x ∈ ds, declOk x = true) → declFillsOk ds fs = true → (encDeclsF ds fs).length = 136 * ds.length
  | [], [], _, _ => rfl
  | d :: ds, g :: gs, hd, hf => by
    simp only [declFillsOk, Bool.and_eq_true] at hf
    have h16 : d.length ≤ 16 := by
      have := hd d (by simp)
      simp only [declOk, Bool.and_eq_true, decide_eq_true_eq] at this; exact this.1.1.2
    simp only [encDeclsF, List.length_append, length_encDeclF d g h16 hf.1, List.length_cons,
      length_encDeclsF ds gs (fun x hx => hd x (by simp [hx])) hf.2]
    omega
  | [], _ :: _, _, hf => by simp [declFillsOk] at hf
  | _ :: _, [], _, hf => by simp [declFillsOk] at hf

theorem length_flatMap_encDecl (ds : List (List VertexElement)) (hd : ∀ x ∈ ds, declOk x = true) :
    (ds.flatMap encDecl).length = 136 * ds.length := by
  induction ds with
  | nil => rfl
  | cons d ds ih =>
    have h16 : d.length ≤ 16 := by
      have := hd d (by simp)
      simp only [declOk, Bool.and_eq_true, decide_eq_true_eq] at this; exact this.1.1.2
    simp only [List.flatMap_cons, List.length_append, length_encDecl d h16, List.length_cons,
      ih (fun x hx => hd x (by simp [hx]))]
    omega

theorem encModelData_split (v : UInt32) (d : ModelData) :
    encModelData v d = d.decls.flatMap encDecl ++ encModelData v { d with decls := [] } := by
  simp only [encModelData, List.flatMap_nil, List.nil_append]

/-- filling changes no length: the runtime block … -/
theorem length_encModelDataF (m : AbstractModel) (h : WF m = true) (fs : List DeclFill)
    (hfs : declFillsOk (modelData m).decls fs = true) :
    (encModelDataF m.version (modelData m) fs).length =
      (encModelData m.version (modelData m)).length := by
  have hok := wf_modelDataOk m h
  simp only [modelDataOk, Bool.and_eq_true, beq_iff_eq, List.all_eq_true, and_assoc] at hok
  obtain ⟨_, hdo, _⟩ := hok
  unfold encModelDataF
  rw [encModelData_split m.version (modelData m)]
  simp only [List.length_append, length_encDeclsF _ fs hdo hfs, length_flatMap_encDecl _ hdo]

/-- … and the file: every offset of the file stays where it was -/
theorem length_encodeMdlF (m : AbstractModel) (h : WF m = true) (fs : List DeclFill)
    (hfs : declFillsOk (modelData m).decls fs = true) :
    (encodeMdlF m fs).length = (encodeMdl m).length := by
  unfold encodeMdlF encodeMdl
  simp only [List.length_append, length_encModelDataF m h fs hfs]

/-! ### the whole file -/

/-- a file with filled declaration blocks has the layout of `m`: the header stage returns the same
two headers (`parseModelData_encF`) and the sections start at the same offset -/
theorem sameLayout_fill (m : AbstractModel) (h : WF m = true) (fs : List DeclFill)
    (hfs : declFillsOk (modelData m).decls fs = true) : SameLayout m (encodeMdlF m fs) := by
  refine ⟨⟨_, _, parseFileHeader_enc _ _,
    parseModelData_encF (fileHeader m) (modelData m) (wf_modelDataOk m h) fs hfs (sections m)⟩,
    encFileHeader (fileHeader m) ++ encModelDataF m.version (modelData m) fs, [], ?_, ?_⟩
  · simp [encodeMdlF]
  · rw [← length_headers m, List.length_append, List.length_append, length_encModelDataF m h fs hfs]

/-- … and so has that file followed by arbitrary bytes (the reader never looks behind the sections
it addresses): an instance of `SameLayout` that is neither `encodeMdl m` nor `encodeMdlF m fs` -/
theorem sameLayout_fill_append (m : AbstractModel) (h : WF m = true) (fs : List DeclFill)
    (hfs : declFillsOk (modelData m).decls fs = true) (t : Bytes) :
    SameLayout m (encodeMdlF m fs ++ t) := by
  have e : encodeMdlF m fs ++ t = encFileHeader (fileHeader m) ++
      (encModelDataF m.version (modelData m) fs ++ (sections m ++ t)) := by
    simp [encodeMdlF]
  refine ⟨⟨_, _, by rw [e]; exact parseFileHeader_enc _ _,
    parseModelData_encF (fileHeader m) (modelData m) (wf_modelDataOk m h) fs hfs (sections m ++ t)⟩,
    encFileHeader (fileHeader m) ++ encModelDataF m.version (modelData m) fs, t, ?_, ?_⟩
  · rw [e]; simp
  · rw [← length_headers m, List.length_append, List.length_append, length_encModelDataF m h fs hfs]

/-- **parse ∘ encode with arbitrary don't-care bytes in the declaration blocks**, outside the
recorded `(BlendWeights, Byte4)` class: the same result as on the zero-filled file -/
theorem parse_encodeF (m : AbstractModel) (h : WF m = true) (hw : noWeightsByte4 m = true)
    (fs : List DeclFill) (hfs : declFillsOk (modelData m).decls fs = true)
    (v : View) (hv : view m = some v) :
    fromExisting (encodeMdlF m fs) =
      .ok { fileHeader := fileHeader m, modelData := modelData m, lods := v.lods,
            affectedBoneNames := v.affectedBoneNames, materialNames := v.materialNames } :=
  (sameLayout_fill m h fs hfs).parse h hw v hv

theorem parse_encodeF_view (m : AbstractModel) (h : WF m = true) (hw : noWeightsByte4 m = true)
    (fs : List DeclFill) (hfs : declFillsOk (modelData m).decls fs = true)
    (v : View) (hv : view m = some v) :
    (fromExisting (encodeMdlF m fs)).map MDL.view = .ok v :=
  (sameLayout_fill m h fs hfs).parse_view h hw v hv

/-- the zero filler gives the file of `encodeMdl`: `parse_encode` is the instance
`fs = (modelData m).decls.map DeclFill.zero` of `parse_encodeF` -/
theorem encDeclsF_zero (ds : List (List VertexElement)) :
    encDeclsF ds (ds.map DeclFill.zero) = ds.flatMap encDecl ∧
      declFillsOk ds (ds.map DeclFill.zero) = true := by
  induction ds with
  | nil => exact ⟨rfl, rfl⟩
  | cons d ds ih =>
    simp only [List.map_cons, encDeclsF, declFillsOk, encDeclF_zero, declFillOk_zero, ih.1, ih.2,
      List.flatMap_cons, Bool.and_self, and_self]

theorem encodeMdlF_zero (m : AbstractModel) :
    encodeMdlF m ((modelData m).decls.map DeclFill.zero) = encodeMdl m ∧
      declFillsOk (modelData m).decls ((modelData m).decls.map DeclFill.zero) = true := by
  refine ⟨?_, (encDeclsF_zero _).2⟩
  unfold encodeMdlF encodeMdl encModelDataF
  rw [(encDeclsF_zero _).1, ← encModelData_split]

end Physis.Mdl
