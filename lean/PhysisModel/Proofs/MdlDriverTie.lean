import PhysisModel.Driver.C07
import PhysisModel.Proofs.MdlRep
/-!
# C07 — the calls the check's driver issues are the calls the theorem quantifies over

`Driver/C07.lean` builds the concrete API calls of a case with `concretize` / `concretizeAll` and
runs them with `applyCEdit`; `c07_edit_then_parse_partial` speaks about `cedit` / `cedits` /
`Mdl.applyEdit`.  On every history the specification gives a meaning (`applyEdits a es = some a'`)
they coincide.
-/
namespace Physis.Mdl
open Physis Physis.Spec.Mdl Physis.Driver.C07

/-- the driver's call record as an `Edit` -/
def toEdit : CEdit → Edit
  | .replace l p vs is subs => .replaceVertices l p vs is subs
  | .removeShapes => .removeShapeMeshes
  | .addShape l s smi p vals => .addShapeMesh l s smi p vals

theorem applyCEdit_eq (m : MDL) (c : CEdit) : applyCEdit m c = Mdl.applyEdit m (toEdit c) := by
  cases c <;> rfl

theorem meshAt_eq (a : AbstractModel) (lod part : Nat) :
    Driver.C07.meshAt a lod part = meshOfA a lod part := rfl

theorem concretize_eq (a : AbstractModel) (e : AEdit) :
    (concretize a e).map toEdit = cedit a e := by
  cases e with
  | replace lod part vc streams indices subs =>
    simp only [concretize, cedit, meshAt_eq]
    cases meshOfA a lod part <;> rfl
  | removeShapes => rfl
  | addShape lod shape smi part bases streams =>
    simp only [concretize, cedit, meshAt_eq]
    cases meshOfA a lod part <;> rfl

theorem concretizeAll_eq : ∀ (es : List AEdit) (a a' : AbstractModel), applyEdits a es = some a' →
    (concretizeAll a es).map (·.map toEdit) = cedits a es := by
  intro es
  induction es with
  | nil => intro a a' _; rfl
  | cons e rest ih =>
    intro a a' h
    simp only [applyEdits, List.foldlM_cons] at h
    cases h1 : Spec.Mdl.applyEdit a e with
    | none => rw [h1] at h; simp at h
    | some a1 =>
      rw [h1] at h
      have ih' := ih a1 a' h
      simp only [concretizeAll, cedits, h1, Option.getD_some, Option.bind_eq_bind, Option.bind_some]
      rw [← concretize_eq, ← ih']
      cases concretize a e with
      | none => rfl
      | some c =>
        cases concretizeAll a1 rest with
        | none => rfl
        | some cs => rfl

/-- running the driver's calls = folding `Mdl.applyEdit` over their `Edit`s -/
theorem foldlM_applyCEdit (cs : List CEdit) (m : MDL) :
    cs.foldlM applyCEdit m = (cs.map toEdit).foldlM Mdl.applyEdit m := by
  induction cs generalizing m with
  | nil => rfl
  | cons c rest ih =>
    simp only [List.foldlM_cons, List.map_cons, applyCEdit_eq]
    cases Mdl.applyEdit m (toEdit c) with
    | error e => rfl
    | ok m1 => exact ih m1

end Physis.Mdl
