import PhysisModel.Spec.ZiPatchSparse
import PhysisModel.Proofs.WriteAt
import PhysisModel.Proofs.Fs
/-! The sparse evaluation of the ZiPatch reference semantics (`Spec/ZiPatchSparse.lean`) agrees with
the dense one: contents (`dense`), lengths, FNV-1a, tree primitives, `effect`, `run`, `runChain`,
canonical text. -/
namespace Physis.Spec.ZiPatchSparse
open Physis Physis.Fs Physis.Spec.ZiPatch

/-! ### contents -/

theorem Seg.dense_length (s : Seg) : s.dense.length = s.len := by
  cases s <;> simp [Seg.dense, Seg.len, zeros]

theorem dense_length (f : SFile) : (dense f).length = len f := by
  induction f with
  | nil => rfl
  | cons s r ih => simp [dense, len, ih, Seg.dense_length]

theorem Seg.dense_take (k : Nat) (s : Seg) : (s.take k).dense = s.dense.take k := by
  cases s <;> simp [Seg.take, Seg.dense, zeros, List.take_replicate]

theorem Seg.dense_drop (k : Nat) (s : Seg) : (s.drop k).dense = s.dense.drop k := by
  cases s <;> simp [Seg.drop, Seg.dense, zeros, List.drop_replicate]

theorem dense_append (a b : SFile) : dense (a ++ b) = dense a ++ dense b := by
  induction a with
  | nil => rfl
  | cons s r ih => simp [dense, ih]

theorem len_append (a b : SFile) : len (a ++ b) = len a + len b := by
  rw [← dense_length, dense_append, List.length_append, dense_length, dense_length]

theorem dense_takeS (k : Nat) (f : SFile) : dense (takeS k f) = (dense f).take k := by
  induction f generalizing k with
  | nil => simp [takeS, dense]
  | cons s r ih =>
    simp only [takeS]
    split
    · rename_i h
      have : k - s.dense.length = 0 := by rw [Seg.dense_length]; omega
      simp [dense, Seg.dense_take, List.take_append, this]
    · rename_i h
      have : s.dense.length ≤ k := by rw [Seg.dense_length]; omega
      simp [dense, ih, List.take_append, List.take_of_length_le this, Seg.dense_length]

theorem dense_dropS (k : Nat) (f : SFile) : dense (dropS k f) = (dense f).drop k := by
  induction f generalizing k with
  | nil => simp [dropS, dense]
  | cons s r ih =>
    simp only [dropS]
    split
    · rename_i h
      have : k - s.dense.length = 0 := by rw [Seg.dense_length]; omega
      simp [dense, Seg.dense_drop, List.drop_append, this]
    · rename_i h
      have : s.dense.length ≤ k := by rw [Seg.dense_length]; omega
      simp [dense, ih, List.drop_append, List.drop_of_length_le this, Seg.dense_length]

theorem dense_eq_nil_iff (f : SFile) : dense f = [] ↔ len f = 0 := by
  rw [← dense_length]; exact List.length_eq_zero_iff.symm

/-- the sparse write is `Fs.writeAt` on the denotations -/
theorem dense_writeS (old : SFile) (off : Nat) (new : SFile) :
    dense (writeS old off new) = writeAt (dense old) off (dense new) := by
  unfold writeS writeAt
  by_cases h : len new = 0
  · have : dense new = [] := (dense_eq_nil_iff new).mpr h
    simp [h, this]
  · have : (dense new).isEmpty = false := by
      rw [List.isEmpty_eq_false_iff]; exact fun e => h ((dense_eq_nil_iff new).mp e)
    simp only [h, ↓reduceIte, this, Bool.false_eq_true]
    simp [dense_append, dense, dense_takeS, dense_dropS, Seg.dense, dense_length]

/-- … and therefore the specification's index-wise `overlay` -/
theorem dense_writeS_overlay (old : SFile) (off : Nat) (new : SFile) :
    dense (writeS old off new) = overlay (dense old) off (dense new) := by
  rw [dense_writeS, writeAt_eq_overlay]

theorem len_writeS (old : SFile) (off : Nat) (new : SFile) (h : len new ≠ 0) :
    len (writeS old off new) = max (len old) (off + len new) := by
  rw [← dense_length, dense_writeS, writeAt_length _ _ _ (fun e => h ((dense_eq_nil_iff new).mp e)),
    dense_length, dense_length]

theorem dense_setLenS (old : SFile) (n : Nat) :
    dense (setLenS old n) = (dense old).take n ++ zeros (n - (dense old).length) := by
  simp [setLenS, dense_append, dense_takeS, dense, Seg.dense, dense_length]

theorem len_setLenS (old : SFile) (n : Nat) : len (setLenS old n) = n := by
  rw [← dense_length, dense_setLenS, List.length_append, List.length_take, zeros_length']
  omega

/-! ### FNV-1a -/

theorem powSlow_mul (b c : UInt64) (n : Nat) : powSlow (b * c) n = powSlow b n * powSlow c n := by
  induction n with
  | zero => simp [powSlow]
  | succ n ih =>
    simp only [powSlow, ih]
    rw [UInt64.mul_assoc, UInt64.mul_assoc, ← UInt64.mul_assoc (powSlow c n) b c,
      UInt64.mul_comm (powSlow c n) b, UInt64.mul_assoc]

theorem powSlow_add (b : UInt64) (m n : Nat) : powSlow b (m + n) = powSlow b m * powSlow b n := by
  induction n with
  | zero => simp [powSlow]
  | succ n ih => rw [← Nat.add_assoc, powSlow, ih, powSlow, UInt64.mul_assoc]

theorem powSlow_sq (b : UInt64) (n : Nat) : powSlow (b * b) n = powSlow b (2 * n) := by
  rw [powSlow_mul, Nat.two_mul, powSlow_add]

theorem powAux_eq (fuel : Nat) (b : UInt64) (n : Nat) (h : n ≤ fuel) : powAux fuel b n = powSlow b n := by
  induction fuel generalizing b n with
  | zero =>
    have : n = 0 := by omega
    subst this; rfl
  | succ fuel ih =>
    unfold powAux
    by_cases h0 : n = 0
    · simp [h0, powSlow]
    · simp only [h0, ↓reduceIte]
      rw [ih (b * b) (n / 2) (by omega), powSlow_sq]
      by_cases h1 : n % 2 = 1
      · simp only [h1, ↓reduceIte]
        have : n = 2 * (n / 2) + 1 := by omega
        conv => rhs; rw [this, powSlow]
      · simp only [h1, ↓reduceIte]
        have : n = 2 * (n / 2) := by omega
        conv => rhs; rw [this]

theorem powFast_eq (b : UInt64) (n : Nat) : powFast b n = powSlow b n :=
  powAux_eq n b n (Nat.le_refl n)

theorem fnvStep_zero (h : UInt64) : fnvStep h 0 = h * fnvPrime := by
  simp [fnvStep]

theorem foldl_fnvStep_zeros (h : UInt64) (n : Nat) :
    (zeros n).foldl fnvStep h = h * powSlow fnvPrime n := by
  induction n generalizing h with
  | zero => simp [zeros, powSlow]
  | succ n ih =>
    have : zeros (n + 1) = 0 :: zeros n := by simp [zeros, List.replicate_succ]
    rw [this, List.foldl_cons, ih, fnvStep_zero, UInt64.mul_assoc]
    congr 1
    have := powSlow_add fnvPrime 1 n
    rw [Nat.add_comm] at this
    rw [this]; simp [powSlow]

theorem fnvSeg_eq (h : UInt64) (s : Seg) : fnvSeg h s = s.dense.foldl fnvStep h := by
  cases s with
  | z n => simp [fnvSeg, Seg.dense, foldl_fnvStep_zeros, powFast_eq]
  | d bs => rfl

theorem foldl_fnvSeg (h : UInt64) (f : SFile) : f.foldl fnvSeg h = (dense f).foldl fnvStep h := by
  induction f generalizing h with
  | nil => rfl
  | cons s r ih => simp [dense, List.foldl_append, ih, fnvSeg_eq]

/-- the arithmetic FNV-1a of a sparse file is the byte-wise FNV-1a of its denotation -/
theorem fnvS_eq (f : SFile) : fnvS f = FsText.fnv1a (dense f) := by
  unfold fnvS FsText.fnv1a
  rw [foldl_fnvSeg]
  rfl

theorem showContentS_eq (f : SFile) : showContentS f = FsText.showContent (dense f) := by
  unfold showContentS FsText.showContent
  rw [dense_length, fnvS_eq]

/-! ### trees -/

theorem get_denseTree (t : STree) (p : Path) : get (denseTree t) p = (getS t p).map SNode.dense := by
  induction t with
  | nil => rfl
  | cons e r ih =>
    obtain ⟨q, n⟩ := e
    simp only [denseTree, List.map_cons, Fs.get, getS]
    by_cases h : q = p
    · simp [h]
    · simp only [h, ↓reduceIte]; exact ih

theorem denseTree_filter (t : STree) (f : Path → Bool) :
    denseTree (t.filter fun e => f e.1) = (denseTree t).filter fun e => f e.1 := by
  simp [denseTree, List.filter_map, Function.comp_def]

theorem denseTree_erase (t : STree) (p : Path) : denseTree (eraseS t p) = erase (denseTree t) p :=
  denseTree_filter t (fun x => decide (x ≠ p))

theorem denseTree_eraseUnder (t : STree) (p : Path) : denseTree (eraseUnderS t p) = eraseUnder (denseTree t) p :=
  denseTree_filter t (fun x => decide (¬ p <+: x))

theorem denseTree_set (t : STree) (p : Path) (n : SNode) :
    denseTree (setS t p n) = set (denseTree t) p n.dense := by
  simp only [setS, Fs.set, ← denseTree_erase]; rfl

theorem isFile_denseTree (t : STree) (p : Path) : isFile (denseTree t) p = isFileS t p := by
  simp only [isFile, isFileS, get_denseTree]
  cases getS t p with
  | none => rfl
  | some n => cases n <;> rfl

theorem isDir_denseTree (t : STree) (p : Path) : isDir (denseTree t) p = isDirS t p := by
  cases p with
  | nil => rfl
  | cons c r =>
    simp only [isDir, isDirS, get_denseTree]
    cases getS t (c :: r) with
    | none => rfl
    | some n => cases n <;> rfl

theorem mkdirAll_denseTree (t : STree) (pre p : Path) :
    mkdirAll (denseTree t) pre p = (mkdirAllS t pre p).map denseTree := by
  induction p generalizing t pre with
  | nil => rfl
  | cons c rest ih =>
    simp only [mkdirAll, mkdirAllS, get_denseTree]
    cases h : getS t (pre ++ [c]) with
    | none =>
      simp only [Option.map_none]
      rw [← ih]; congr 1
      exact (denseTree_set t (pre ++ [c]) .dir).symm
    | some n =>
      cases n with
      | file f => rfl
      | dir => exact ih t (pre ++ [c])

theorem placeFile_denseTree (t : STree) (p : Path) (F : Bytes → Bytes) (G : SFile → SFile)
    (hFG : ∀ old, F (dense old) = dense (G old)) :
    placeFile (denseTree t) p F = (placeFileS t p G).map denseTree := by
  cases p with
  | nil => simp [placeFile, placeFileS]
  | cons c r =>
    simp only [placeFile, placeFileS, get_denseTree]
    cases h : getS t (c :: r) with
    | none =>
      have := hFG []
      simp only [dense] at this
      simp [denseTree_set, SNode.dense, this]
    | some n =>
      cases n with
      | file f => simp [denseTree_set, SNode.dense, hFG]
      | dir => rfl

theorem updateFile_denseTree (t : STree) (mk : Bool) (p : Path) (F : Bytes → Bytes) (G : SFile → SFile)
    (hFG : ∀ old, F (dense old) = dense (G old)) :
    updateFile (denseTree t) mk p F = (updateFileS t mk p G).map denseTree := by
  unfold updateFile updateFileS
  cases mk with
  | true =>
    simp only [↓reduceIte, mkdirAll_denseTree]
    cases mkdirAllS t [] p.dropLast with
    | none => rfl
    | some t1 => exact placeFile_denseTree t1 p F G hFG
  | false =>
    simp only [Bool.false_eq_true, ↓reduceIte, isDir_denseTree]
    split
    · exact placeFile_denseTree t p F G hFG
    · rfl

theorem dense_emptyBlockS (n : UInt32) : dense (emptyBlockS n) = emptyBlock n := by
  simp [emptyBlockS, emptyBlock, dense, Seg.dense]

/-! ### the semantics -/

private theorem map_map_tree (o : Option STree) (s : SSt) :
    (o.map denseTree).map (fun t => ({ denseSt s with tree := t } : St)) =
      (o.map fun t => ({ s with tree := t } : SSt)).map denseSt := by
  cases o <;> rfl

theorem effect_denseSt (s : SSt) (c : Cmd) : effect (denseSt s) c = (effectS s c).map denseSt := by
  cases c with
  | target pl rg dbg v del sk => rfl
  | addData m sub f off del data =>
    simp only [effect, effectS]
    show (s.plat.bind platformName).bind _ = _
    cases s.plat.bind platformName with
    | none => rfl
    | some pn =>
      simp only [Option.bind_some]
      show (updateFile (denseTree s.tree) _ _ _).map _ = _
      rw [updateFile_denseTree s.tree true _ _
        (fun old => writeS old (128 * off.toNat) [.d data, .z (128 * del.toNat)])
        (fun old => by simp [dense_writeS_overlay, dense, Seg.dense])]
      exact map_map_tree _ s
  | deleteData m sub f off num =>
    simp only [effect, effectS]
    show (s.plat.bind platformName).bind _ = _
    cases s.plat.bind platformName with
    | none => rfl
    | some pn =>
      simp only [Option.bind_some]
      show (updateFile (denseTree s.tree) _ _ _).map _ = _
      rw [updateFile_denseTree s.tree false _ _
        (fun old => writeS old (128 * off.toNat) (emptyBlockS num))
        (fun old => by simp [dense_writeS_overlay, dense_emptyBlockS])]
      exact map_map_tree _ s
  | expandData m sub f off num =>
    simp only [effect, effectS]
    show (s.plat.bind platformName).bind _ = _
    cases s.plat.bind platformName with
    | none => rfl
    | some pn =>
      simp only [Option.bind_some]
      show (updateFile (denseTree s.tree) _ _ _).map _ = _
      rw [updateFile_denseTree s.tree true _ _
        (fun old => writeS old (128 * off.toNat) (emptyBlockS num))
        (fun old => by simp [dense_writeS_overlay, dense_emptyBlockS])]
      exact map_map_tree _ s
  | header isIdx k m sub f data =>
    simp only [effect, effectS]
    show (s.plat.bind platformName).bind _ = _
    cases s.plat.bind platformName with
    | none => rfl
    | some pn =>
      simp only [Option.bind_some]
      show (updateFile (denseTree s.tree) _ _ _).map _ = _
      rw [updateFile_denseTree s.tree true _ _
        (fun old => writeS old (if k = .version then 0 else 1024) [.d data])
        (fun old => by simp [dense_writeS_overlay, dense, Seg.dense])]
      exact map_map_tree _ s
  | addFile off exp path blocks =>
    simp only [effect, effectS]
    show (updateFile (denseTree s.tree) _ _ _).map _ = _
    rw [updateFile_denseTree s.tree true _ _
      (fun old => if off = 0 then [.d (fileData blocks)] else writeS old off.toNat [.d (fileData blocks)])
      (fun old => by
        by_cases h : off = 0
        · simp [h, dense, Seg.dense]
        · simp [h, dense_writeS_overlay, dense, Seg.dense])]
    exact map_map_tree _ s
  | deleteFile exp path =>
    simp only [effect, effectS, Option.map_some, denseSt, isFile_denseTree]
    split <;> simp [denseTree_erase]
  | removeAll exp path =>
    simp only [effect, effectS, Option.map_some, denseSt, isDir_denseTree]
    split <;> simp [denseTree_eraseUnder]
  | mkDirTree exp path =>
    simp only [effect, effectS]
    show (mkdirAll (denseTree s.tree) _ _).map _ = _
    rw [mkdirAll_denseTree]
    exact map_map_tree _ s
  | fhdr2 _ _ => rfl
  | fhdr3 _ _ => rfl
  | aply _ _ => rfl
  | adir _ => rfl
  | deld _ => rfl
  | patchInfo _ _ _ => rfl
  | index _ _ _ _ _ => rfl

theorem run_denseSt (s : SSt) (cs : List Cmd) : run (denseSt s) cs = (runS s cs).map denseSt := by
  induction cs generalizing s with
  | nil => rfl
  | cons c cs ih =>
    simp only [run, runS, effect_denseSt]
    cases effectS s c with
    | none => rfl
    | some s1 => exact ih s1

theorem runChain_denseTree (pss : List (List Cmd)) (t : STree) :
    runChain pss (denseTree t) = (runChainS pss t).map denseTree := by
  induction pss generalizing t with
  | nil => rfl
  | cons cs rest ih =>
    simp only [runChain, runChainS]
    have := run_denseSt { plat := none, tree := t } cs
    simp only [denseSt] at this
    rw [this]
    cases runS { plat := none, tree := t } cs with
    | none => rfl
    | some s1 => exact ih s1.tree

theorem WFchain_denseTree (pss : List (List Cmd)) (t : STree) :
    WFchain pss (denseTree t) = WFchainS pss t := by
  simp only [WFchain, WFchainS, runChain_denseTree, Option.isSome_map]

theorem denseTree_liftTree (t : Tree) : denseTree (liftTree t) = t := by
  induction t with
  | nil => rfl
  | cons e r ih =>
    obtain ⟨p, n⟩ := e
    simp only [liftTree, denseTree, List.map_cons, List.map_map] at ih ⊢
    rw [ih]
    cases n <;> simp [SNode.dense, dense, Seg.dense]

/-! ### canonical text -/

theorem showGeneric (t : STree) (keepS : Path × SNode → Bool) (keepD : Path × Node → Bool)
    (le : Path → Path → Bool) (rS : Path × SNode → String) (rD : Path × Node → String)
    (hk : ∀ e, keepS e = keepD (e.1, e.2.dense)) (hr : ∀ e, rS e = rD (e.1, e.2.dense)) :
    (if ((t.filter keepS).mergeSort (fun a b => le a.1 b.1)).isEmpty then "-"
     else ";".intercalate (((t.filter keepS).mergeSort (fun a b => le a.1 b.1)).map rS)) =
    (if (((denseTree t).filter keepD).mergeSort (fun a b => le a.1 b.1)).isEmpty then "-"
     else ";".intercalate ((((denseTree t).filter keepD).mergeSort (fun a b => le a.1 b.1)).map rD)) := by
  have hf : (denseTree t).filter keepD = denseTree (t.filter keepS) := by
    simp only [denseTree, List.filter_map]
    congr 1
    apply List.filter_congr
    intro e _
    exact (hk e).symm
  rw [hf]
  generalize t.filter keepS = u
  have hs : (denseTree u).mergeSort (fun a b => le a.1 b.1) =
      denseTree (u.mergeSort (fun a b => le a.1 b.1)) := by
    simp only [denseTree]
    exact (List.map_mergeSort (r := fun a b => le a.1 b.1) (s := fun a b => le a.1 b.1)
      (f := fun (e : Path × SNode) => (e.1, e.2.dense)) (l := u) (fun a _ b _ => rfl)).symm
  rw [hs]
  generalize u.mergeSort (fun a b => le a.1 b.1) = v
  have he : (denseTree v).isEmpty = v.isEmpty := by simp [denseTree]
  rw [he]
  have hm : (denseTree v).map rD = v.map rS := by
    simp only [denseTree, List.map_map]
    apply List.map_congr_left
    intro e _
    exact (hr e).symm
  rw [hm]

theorem showTreeS_eq (t : STree) (wd : Bool) : showTreeS t wd = FsText.showTree (denseTree t) wd := by
  simp only [showTreeS, FsText.showTree]
  refine showGeneric t _ _ (fun a b => FsText.bytesLe (joinSlash a) (joinSlash b)) _ _ ?_ ?_
  · intro e
    obtain ⟨p, n⟩ := e
    cases n <;> rfl
  · intro e
    obtain ⟨p, n⟩ := e
    cases n with
    | file f => simp [SNode.dense, showContentS_eq]
    | dir => rfl

end Physis.Spec.ZiPatchSparse
