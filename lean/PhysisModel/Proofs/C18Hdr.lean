import PhysisModel.Base.ParserALemmas
import PhysisModel.Model.C18Hdr
/-! `PGood` for the header-only readers: assembled from the primitive lemmas by `pgood`. -/
namespace Physis.C18Hdr
open Physis Physis.A

theorem good_utf8Check (x : Bytes) (B : Nat) : Good B (utf8Check x) := by
  unfold utf8Check; split <;> simp

theorem ident_good {n : Nat} (hn : n ≤ 16777216) : PGood (ident n) := by
  unfold ident
  apply PGood.bind (PGood.countBytes hn)
  intro x; exact PGood.lift (fun B _ => good_utf8Check x B)

theorem u8Nat_good : PGood u8Nat := PGood.map PGood.u8
theorem u16leNat_good : PGood u16leNat := PGood.map PGood.u16le
theorem u16beNat_good : PGood u16beNat := PGood.map PGood.u16be
theorem u32leNat_good : PGood u32leNat := PGood.map PGood.u32le
theorem u32beNat_good : PGood u32beNat := PGood.map PGood.u32be

theorem uldHeader_good : PGood uldHeader := by
  have := ident_good (n := 4) (by omega)
  unfold uldHeader; pgood
theorem sgbHeader_good : PGood sgbHeader := by
  have := ident_good (n := 4) (by omega)
  unfold sgbHeader; pgood
theorem scdHeader_good : PGood scdHeader := by
  have := ident_good (n := 4) (by omega)
  unfold scdHeader; pgood
theorem hwcBody_good : PGood hwcBody := by
  unfold hwcBody
  apply PGood.bind
  · exact PGood.lift (fun B hB => good_alloc (by omega))
  · pgood
theorem iwcHeader_good : PGood iwcHeader := by unfold iwcHeader; pgood
theorem tmbHeader_good : PGood tmbHeader := by unfold tmbHeader; pgood
theorem skpHeader_good : PGood skpHeader := by
  have := ident_good (n := 4) (by omega)
  unfold skpHeader; pgood
theorem schdHeader_good : PGood schdHeader := by
  have := ident_good (n := 3) (by omega)
  have := u8Nat_good
  unfold schdHeader; pgood
theorem phybHeader_good : PGood phybHeader := by unfold phybHeader; pgood
theorem papHeader_good : PGood papHeader := by
  have := u8Nat_good
  unfold papHeader; pgood

theorem sqpackHeader_good : PGood sqpackHeader := by
  have := u8Nat_good; have := u16leNat_good; have := u32leNat_good
  unfold sqpackHeader; pgood

theorem sqdbEntry_good : PGood sqdbEntry := by
  have := PGood.countBytes (n := 240) (by omega)
  unfold sqdbEntry; pgood

theorem sqdbEntry_consumes : Consumes sqdbEntry := by
  unfold sqdbEntry
  apply Consumes.bind_right (NonInc.skip 4); intro _
  apply Consumes.bind_left Consumes.u32le; intro _
  apply NonInc.bind NonInc.u32le; intro _
  apply NonInc.bind (NonInc.skip 4); intro _
  apply NonInc.bind NonInc.u32le; intro _
  apply NonInc.bind NonInc.u32le; intro _
  apply NonInc.bind (NonInc.countBytes 240); intro _
  exact NonInc.pure _

theorem sqdbFile_good : PGood sqdbFile := by
  have := sqpackHeader_good
  have := PGood.untilEof sqdbEntry_good sqdbEntry_consumes
  unfold sqdbFile; pgood

theorem exhHeader_good : PGood exhHeader := by
  have := u16beNat_good; have := u32beNat_good
  unfold exhHeader; pgood
theorem columnDef_good : PGood columnDef := by
  have := u16beNat_good
  unfold columnDef; pgood
theorem pageDef_good : PGood pageDef := by unfold pageDef; pgood
theorem exhFile_good : PGood exhFile := by
  have := exhHeader_good; have := columnDef_good; have := pageDef_good; have := u8Nat_good
  unfold exhFile; pgood

theorem exdOffset_good : PGood exdOffset := by
  have := u32beNat_good
  unfold exdOffset; pgood
theorem exdFile_good : PGood exdFile := by
  have := exdOffset_good; have := u32beNat_good
  have := PGood.untilEof PGood.u8 Consumes.u8
  unfold exdFile; pgood

end Physis.C18Hdr
