import PhysisModel.Proofs.MdlEdit
import PhysisModel.Proofs.MdlFrame
import PhysisModel.Proofs.MdlRuntimeSize
import PhysisModel.Proofs.MdlHistory
import PhysisModel.Proofs.MdlRelayoutLemmas
/-!
# C07 — parse ∘ write ∘ edits ∘ parse reports the new geometry

Assembly of the pieces:

* `laid_write_parse` — an in-memory model with consistent headers (`HeaderOK`), mesh starts taken
  from the sub-mesh table (`StartsFromSubmesh`) that represents (`Rep`) a well-formed, canonical,
  `LaidOut` abstract model `a` is written and re-read as `view a`
  (`frame_hyps` + `write_parse_frame`);
* `edit_then_parse` — after a non-empty history of consistently supplied edits that return, the
  written file re-parses as `view a'`, `a' = applyEdits a es` (`rep_history`, `history_last`,
  `rep_relayout`, `view_relayout`, `canonical_relayout`, `laidOut_relayout`).
-/
namespace Physis.Mdl
open Physis Physis.Spec.Mdl

/-- the model `MDL::from_existing` returns on `encodeMdl a` (`parse_encode`) -/
def parsedOf (a : AbstractModel) (v : View) : MDL :=
  { fileHeader := fileHeader a, modelData := modelData a, lods := v.lods,
    affectedBoneNames := v.affectedBoneNames, materialNames := v.materialNames }

theorem runtimeSizeFact : RuntimeSizeFact :=
  fun fh md hv hok hts r hr => runtimeSize_eq_length fh md hv hok hts r hr

theorem wKey_eq_partKey :
    wKey = (fun (k : UInt16 × List Vertex × List UInt16 × List Nat) => (k.1, k.2.1, k.2.2.1)) ∘ partKey := by
  funext p; rfl

theorem wKeys_of_partKeys {l1 l2 : List (List Part)}
    (h : l1.map (·.map partKey) = l2.map (·.map partKey)) :
    l1.map (·.map wKey) = l2.map (·.map wKey) := by
  have := congrArg (List.map (List.map
    (fun (k : UInt16 × List Vertex × List UInt16 × List Nat) => (k.1, k.2.1, k.2.2.1)))) h
  simp only [List.map_map] at this
  rw [wKey_eq_partKey]
  simpa [Function.comp_def] using this

/-- the declared section ends of a file header -/
def sectionEnds (fh : FileHeader) : List Nat :=
  List.zipWith (fun (o s : UInt32) => o.toNat + s.toNat)
    (fh.vertexOffsets.toList ++ fh.indexOffsets.toList)
    (fh.vertexBufferSize.toList ++ fh.indexBufferSize.toList)

/-- **write ∘ parse in `update_headers`' layout** -/
theorem laid_write_parse (a : AbstractModel) (h : WF a = true) (hcan : Canonical a = true)
    (hlay : LaidOut a = true) (v : View) (hv : view a = some v) (m : MDL) (hrep : Rep a m)
    (hok : HeaderOK m) (hst : StartsFromSubmesh m) :
    ∃ buf m2, writeToBuffer m = .ok buf ∧ fromExisting buf = .ok m2 ∧
      m2.fileHeader = m.fileHeader ∧ m2.modelData = m.modelData ∧ m2.view = v ∧
      (∀ e ∈ sectionEnds m.fileHeader, e ≤ buf.length) := by
  obtain ⟨hfh, harr, hmd, hl3, hmid, hlods⟩ :=
    frame_hyps runtimeSizeFact a h hcan hlay m hrep hok hst
  have hparts : m.lods.map (·.map wKey) = v.lods.map (·.map wKey) := by
    apply wKeys_of_partKeys
    rw [hrep.parts]
    exact (rep_initial a h v hv).parts.symm
  exact write_parse_frame a h hcan v hv m hfh harr hmd hl3 hmid hlods hparts

theorem cedits_ne_nil : ∀ (es : List AEdit) (a : AbstractModel) (ces : List Edit), es ≠ [] →
    cedits a es = some ces → ces ≠ [] := by
  intro es a ces hne hc
  cases es with
  | nil => exact absurd rfl hne
  | cons e rest =>
    simp only [cedits] at hc
    cases h1 : cedit a e with
    | none => simp [h1] at hc
    | some c =>
      cases h2 : Spec.Mdl.applyEdit a e with
      | none => simp [h1, h2] at hc
      | some a1 =>
        cases h3 : cedits a1 rest with
        | none => simp [h1, h2, h3] at hc
        | some cs =>
          simp [h1, h2, h3] at hc
          rw [← hc]; exact List.cons_ne_nil _ _

theorem relayout_lods_length (a : AbstractModel) : (relayout a).lods.length = a.lods.length := by
  simp [relayout, relayoutPads]

theorem usedNonempty_iff (a : AbstractModel) (h : usedNonempty a = true) :
    ∀ i l, i < a.lodCount.toNat → a.lods[i]? = some l → l.meshes ≠ [] := by
  intro i l hi hl
  simp only [usedNonempty, List.all_eq_true] at h
  have : l ∈ a.lods.take a.lodCount.toNat := by
    rw [List.mem_iff_getElem?]
    exact ⟨i, by rw [List.getElem?_take_of_lt hi]; exact hl⟩
  have := h l this
  simpa using this

/-- the state after a history, in `update_headers`' layout, is written and re-read as `view a'` -/
theorem edit_then_parse_of_rep (a a' : AbstractModel) (hsm : Small a') (m m' : MDL) (ces : List Edit)
    (hne : ces ≠ []) (hd : RangesDisjoint m.modelData.lods m.fileHeader.lodCount.toNat)
    (hE : ces.foldlM Mdl.applyEdit m = .ok m') (hrep : Rep a' m')
    (h' : WF (relayout a') = true) (hcan' : Canonical a' = true) (hne' : usedNonempty a' = true)
    (v : View) (hv : view a' = some v) (_ha : a = a) :
    ∃ buf m1, writeToBuffer m' = .ok buf ∧ fromExisting buf = .ok m1 ∧
      m1.fileHeader = m'.fileHeader ∧ m1.modelData = m'.modelData ∧ m1.view = v ∧
      (∀ e ∈ sectionEnds m'.fileHeader, e ≤ buf.length) := by
  obtain ⟨hok, hst⟩ := history_last ces hne m m' hd hE
  have W := wf_facts (relayout a') h'
  have hrep' := rep_relayout a' m' hsm.2.2 hrep
  have hlay := laidOut_relayout a' (by rw [← relayout_lods_length]; exact W.lods3) W.lc3
    (usedNonempty_iff a' hne')
  exact laid_write_parse (relayout a') h' (canonical_relayout a' hcan') hlay v
    (by rw [view_relayout]; exact hv) m' hrep' hok hst

/-- **parse ∘ write ∘ edits ∘ parse** for histories of `replace_vertices` / `remove_shape_meshes` -/
theorem edit_then_parse (a : AbstractModel) (h : WF a = true) (hcan : Canonical a = true)
    (v0 : View) (hv0 : view a = some v0) (es : List AEdit) (hne : es ≠ [])
    (hes : editsOk a es = true) (a' : AbstractModel) (ha' : applyEdits a es = some a')
    (ces : List Edit) (hces : cedits a es = some ces)
    (h' : WF (relayout a') = true) (hcan' : Canonical a' = true) (hne' : usedNonempty a' = true)
    (v : View) (hv : view a' = some v) (mE : MDL)
    (hE : ces.foldlM Mdl.applyEdit (parsedOf a v0) = .ok mE) :
    fromExisting (encodeMdl a) = .ok (parsedOf a v0) ∧
    ∃ buf m1, writeToBuffer mE = .ok buf ∧ fromExisting buf = .ok m1 ∧
      m1.fileHeader = mE.fileHeader ∧ m1.modelData = mE.modelData ∧ m1.view = v ∧
      (∀ e ∈ sectionEnds mE.fileHeader, e ≤ buf.length) := by
  refine ⟨parse_encode a h (canonical_noWeightsByte4 a hcan) v0 hv0, ?_⟩
  have hrep0 : Rep a (parsedOf a v0) := rep_initial a h v0 hv0
  obtain ⟨hrep, hsm⟩ := rep_history (fun hu => updateHeaders_strip hu) es a a' (parsedOf a v0) mE ces
    (small_of_wf a h) hrep0 hes ha' hces hE
  exact edit_then_parse_of_rep a a' hsm (parsedOf a v0) mE ces (cedits_ne_nil es a ces hne hces)
    (rep_rangesDisjoint h hrep0) hE hrep h' hcan' hne' v hv rfl

end Physis.Mdl
