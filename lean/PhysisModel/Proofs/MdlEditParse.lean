import PhysisModel.Proofs.MdlEdit
import PhysisModel.Proofs.MdlFrame
import PhysisModel.Proofs.MdlRuntimeSize
import PhysisModel.Proofs.MdlHistory2
import PhysisModel.Proofs.MdlRelayoutLemmas
import PhysisModel.Proofs.MdlRelayoutWF
import PhysisModel.Proofs.MdlFlags
import PhysisModel.Proofs.MdlReturns
/-!
# C07 — parse ∘ write ∘ edits ∘ parse reports the new geometry

Assembly of the pieces:

* `laid_write_parse` — an in-memory model with consistent headers (`HeaderOK`), mesh starts taken
  from the sub-mesh table (`StartsFromSubmesh`) that represents (`Rep`) a well-formed, canonical,
  `LaidOut` abstract model `a` is written and re-read as `view a`
  (`frame_hyps` + `write_parse_frame`);
* `edit_then_parse` — after a non-empty history of consistently supplied edits that return, the
  written file re-parses as `view a'`, `a' = applyEdits a es` (`rep_history2`, `history_last`,
  `rep_relayout`, `view_relayout`, `canonical_relayout`, `laidOut_relayout`).
-/
namespace Physis.Mdl
open Physis Physis.Spec.Mdl

/-- the model `MDL::from_existing` returns on `encodeMdl a` (`parse_encode`) -/
def parsedOf (a : AbstractModel) (v : View) : MDL :=
  { fileHeader := fileHeader a, modelData := modelData a, lods := v.lods,
    affectedBoneNames := v.affectedBoneNames, materialNames := v.materialNames }

theorem runtimeSizeFact : RuntimeSizeFact :=
  fun fh md hv hok hts r hr => runtimeSize_eq_length fh md hv hok hts r hr

theorem wKey_eq_partKey :
    wKey = (fun (k : UInt16 × List Vertex × List UInt16 × List Nat) => (k.1, k.2.1, k.2.2.1)) ∘ partKey := by
  funext p; rfl

theorem wKeys_of_partKeys {l1 l2 : List (List Part)}
    (h : l1.map (·.map partKey) = l2.map (·.map partKey)) :
    l1.map (·.map wKey) = l2.map (·.map wKey) := by
  have := congrArg (List.map (List.map
    (fun (k : UInt16 × List Vertex × List UInt16 × List Nat) => (k.1, k.2.1, k.2.2.1)))) h
  simp only [List.map_map] at this
  rw [wKey_eq_partKey]
  simpa [Function.comp_def] using this

/-- the declared section ends of a file header -/
def sectionEnds (fh : FileHeader) : List Nat :=
  List.zipWith (fun (o s : UInt32) => o.toNat + s.toNat)
    (fh.vertexOffsets.toList ++ fh.indexOffsets.toList)
    (fh.vertexBufferSize.toList ++ fh.indexBufferSize.toList)

/-- the size slots of the LODs not in use are 0 -/
def UnusedEmpty (n : Nat) (fh : FileHeader) : Prop :=
  ∀ i, n ≤ i → i < 3 →
    fh.vertexBufferSize.get? i = some 0 ∧ fh.indexBufferSize.get? i = some 0

/-- **write ∘ parse in `update_headers`' layout** -/
theorem laid_write_parse (a : AbstractModel) (h : WF a = true) (hcan : Canonical a = true)
    (hlay : LaidOut a = true) (v : View) (hv : view a = some v) (m : MDL) (hrep : Rep a m)
    (hok : HeaderOK m) (hst : StartsFromSubmesh m) (hun : UnusedEmpty a.lodCount.toNat m.fileHeader) :
    ∃ buf m2, writeToBuffer m = .ok buf ∧ fromExisting buf = .ok m2 ∧
      m2.fileHeader = m.fileHeader ∧ m2.modelData = m.modelData ∧ m2.view = v ∧
      headerFlags m2.fileHeader buf.length m2.lods = HeaderFlags.allOk := by
  obtain ⟨hfh, harr, hmd, hl3, hmid, hlods⟩ :=
    frame_hyps runtimeSizeFact a h hcan hlay m hrep hok hst
  have hparts : m.lods.map (·.map wKey) = v.lods.map (·.map wKey) := by
    apply wKeys_of_partKeys
    rw [hrep.parts]
    exact (rep_initial a h v hv).parts.symm
  obtain ⟨buf, m2, h1, h2, h3, h4, h5, h6⟩ :=
    write_parse_frame a h hcan v hv m hfh harr hmd hl3 hmid hlods hparts
  refine ⟨buf, m2, h1, h2, h3, h4, h5, ?_⟩
  have hl : m2.lods = v.lods := by rw [← h5]; rfl
  rw [h3, hl]
  refine headerFlags_allOk a h hcan hlay v hv m.fileHeader ?_ ?_ harr hun buf.length h6
  · rw [hfh]
  · rw [hfh]

theorem cedits_ne_nil : ∀ (es : List AEdit) (a : AbstractModel) (ces : List Edit), es ≠ [] →
    cedits a es = some ces → ces ≠ [] := by
  intro es a ces hne hc
  cases es with
  | nil => exact absurd rfl hne
  | cons e rest =>
    simp only [cedits] at hc
    cases h1 : cedit a e with
    | none => simp [h1] at hc
    | some c =>
      cases h2 : Spec.Mdl.applyEdit a e with
      | none => simp [h1, h2] at hc
      | some a1 =>
        cases h3 : cedits a1 rest with
        | none => simp [h1, h2, h3] at hc
        | some cs =>
          simp [h1, h2, h3] at hc
          rw [← hc]; exact List.cons_ne_nil _ _

theorem relayout_lods_length (a : AbstractModel) : (relayout a).lods.length = a.lods.length := by
  simp [relayout, relayoutPads]

theorem usedNonempty_iff (a : AbstractModel) (h : usedNonempty a = true) :
    ∀ i l, i < a.lodCount.toNat → a.lods[i]? = some l → l.meshes ≠ [] := by
  intro i l hi hl
  simp only [usedNonempty, List.all_eq_true] at h
  have : l ∈ a.lods.take a.lodCount.toNat := by
    rw [List.mem_iff_getElem?]
    exact ⟨i, by rw [List.getElem?_take_of_lt hi]; exact hl⟩
  have := h l this
  simpa using this

/-- the state after a history, in `update_headers`' layout, is written and re-read as `view a'` -/
theorem edit_then_parse_of_rep (a' : AbstractModel) (hsm : Small a') (m m' : MDL) (ces : List Edit)
    (hne : ces ≠ []) (hd : RangesDisjoint m.modelData.lods m.lods.length)
    (hE : ces.foldlM Mdl.applyEdit m = .ok m') (hrep : Rep a' m')
    (h' : WF (relayout a') = true) (hcan' : Canonical a' = true) (hne' : usedNonempty a' = true)
    (v : View) (hv : view a' = some v) (hun : UnusedEmpty a'.lodCount.toNat m'.fileHeader) :
    ∃ buf m1, writeToBuffer m' = .ok buf ∧ fromExisting buf = .ok m1 ∧
      m1.fileHeader = m'.fileHeader ∧ m1.modelData = m'.modelData ∧ m1.view = v ∧
      headerFlags m1.fileHeader buf.length m1.lods = HeaderFlags.allOk := by
  obtain ⟨hok, hst⟩ := history_last ces hne m m' hd hE
  have W := wf_facts (relayout a') h'
  have hrep' := rep_relayout a' m' hsm.2.2 hrep
  have hlay := laidOut_relayout a' (by rw [← relayout_lods_length]; exact W.lods3) W.lc3
    (usedNonempty_iff a' hne')
  exact laid_write_parse (relayout a') h' (canonical_relayout a' hcan') hlay v
    (by rw [view_relayout]; exact hv) m' hrep' hok hst hun

/-- in a canonical file the size slots of the LODs not in use are 0 -/
theorem unusedEmpty_initial (a : AbstractModel) (h : WF a = true) (hcan : Canonical a = true) :
    UnusedEmpty a.lodCount.toNat (fileHeader a) := by
  intro i hi hi3
  have W := wf_facts a h
  have hi3' : i < a.lods.length := by rw [W.lods3]; exact hi3
  obtain ⟨l, hl⟩ : ∃ l, a.lods[i]? = some l := ⟨a.lods[i], List.getElem?_eq_getElem hi3'⟩
  have hnil : l.meshes = [] := by
    simp only [Canonical, Bool.and_eq_true, List.all_eq_true, and_assoc] at hcan
    obtain ⟨_, _, _, hdrop, _⟩ := hcan
    have : l ∈ a.lods.drop a.lodCount.toNat := by
      rw [List.mem_iff_getElem?]
      refine ⟨i - a.lodCount.toNat, ?_⟩
      rw [List.getElem?_drop, ← hl]; congr 1; omega
    simpa using hdrop l this
  rw [header_vertexSize a h i l hl, header_indexSize a h i l hl]
  simp [lodVertexSize, lodIndexSize, hnil]

/-- after any history the size slots of the LODs that were not parsed are what they were -/
theorem unusedEmpty_history (ces : List Edit) (m m' : MDL) (hE : ces.foldlM Mdl.applyEdit m = .ok m')
    (n : Nat) (hn : m.lods.length ≤ n) (hun : UnusedEmpty n m.fileHeader) :
    UnusedEmpty n m'.fileHeader := by
  intro i hi hi3
  have := (history_unused ces m m' hE).2 i (by omega)
  simp only [fhSlots, Prod.mk.injEq] at this
  rw [this.2.2.1, this.2.2.2]
  exact hun i hi hi3

theorem parsedOf_lods_length (a : AbstractModel) (h : WF a = true) (v : View)
    (hv : view a = some v) : v.lods.length = a.lodCount.toNat := by
  have W := wf_facts a h
  have := congrArg List.length (rep_initial a h v hv).parts
  rw [List.length_map, length_specKeys] at this
  have this : v.lods.length = min a.lodCount.toNat a.lods.length := this
  have h3 := W.lc3; have := W.lods3
  omega

/-- in the model parsed from a canonical file every mesh starts at its first sub-mesh's offset -/
theorem starts_initial (a : AbstractModel) (h : WF a = true) (hcan : Canonical a = true) (v : View)
    (hv : view a = some v) : StartsFromSubmesh (parsedOf a v) := by
  have W := wf_facts a h
  have hrep : Rep a (parsedOf a v) := rep_initial a h v hv
  intro i hi d hd
  have hi' : i < a.lodCount.toNat := by rw [← parsedOf_lods_length a h v hv]; exact hi
  have hi3 : i < a.lods.length := by have := W.lc3; have := W.lods3; omega
  obtain ⟨l, hl⟩ : ∃ l, a.lods[i]? = some l := ⟨a.lods[i], List.getElem?_eq_getElem hi3⟩
  have hrow : (parsedOf a v).modelData.lods[i]? = some (lodRowOf a i l) := lods_row a i l hl
  obtain ⟨e1, e2, e3⟩ := rep_lod_range h hrep hl hrow rfl
  rw [e1] at hd ⊢
  rw [e3] at hd
  rw [e2]
  obtain ⟨mesh, hm⟩ : ∃ mesh, l.meshes[d]? = some mesh := ⟨l.meshes[d], List.getElem?_eq_getElem hd⟩
  have hmr : (parsedOf a v).modelData.meshes[psum meshCountOf a.lods i + d]? =
      some (meshRowOf a i l d mesh) := meshes_row a i l hl d mesh hm
  have hat : meshAt (parsedOf a v).modelData.meshes (psum meshCountOf a.lods i + d) =
      meshRowOf a i l d mesh := by simp only [meshAt, hmr, Option.getD_some]
  rw [hat]
  have hle := subBase_le a i l hl d mesh hm
  have hsi : (meshRowOf a i l d mesh).submeshIndex.toNat = subBase a i l d :=
    toUInt16_toNat _ (by have := W.nSub; unfold subBase at hle; omega)
  have hso : (a.lods.all fun l => startsOk 0 l.meshes) = true := by
    simp only [Canonical, Bool.and_eq_true, and_assoc] at hcan
    exact hcan.2.2.2.2.2.1
  have hsl := List.all_eq_true.mp hso l (mem_of_getElem? hl)
  obtain ⟨s, rest, hs1, hs2⟩ := startsOk_getElem? l.meshes 0 d mesh hsl hm
  have hget := submeshes_getElem? a i l hl d mesh hm 0 (by rw [hs1]; simp)
  rw [Nat.add_zero, hs1] at hget
  simp only [List.getElem?_cons_zero] at hget
  have hsub : (parsedOf a v).modelData.submeshes = (modelData a).submeshes := rfl
  simp only [firstSub, hsub, hsi, hget, Option.getD_some]
  apply UInt32.toNat_inj.mp
  rw [hs2, Nat.zero_add]
  have hsl' := index_slice a i l hl d mesh hm
  have hlen := hsl'.length_le
  have hfl := W.fileLen
  exact toUInt32_toNat _ (by omega)

/-- **parse ∘ write ∘ edits ∘ parse** for histories of `replace_vertices` / `remove_shape_meshes` /
`add_shape_mesh` calls -/
theorem edit_then_parse (a : AbstractModel) (h : WF a = true) (hcan : Canonical a = true)
    (v0 : View) (hv0 : view a = some v0) (es : List AEdit) (hne : es ≠ [])
    (hes : editsOk2 a es = true) (a' : AbstractModel) (ha' : applyEdits a es = some a')
    (ces : List Edit) (hces : cedits a es = some ces)
    (h' : WF a' = true) (hlen' : (encodeMdl (relayout a')).length < 4294967296)
    (hcan' : Canonical a' = true) (hne' : usedNonempty a' = true)
    (v : View) (hv : view a' = some v) (mE : MDL)
    (hE : ces.foldlM Mdl.applyEdit (parsedOf a v0) = .ok mE) :
    ∃ buf m1, writeToBuffer mE = .ok buf ∧ fromExisting buf = .ok m1 ∧
      m1.fileHeader = mE.fileHeader ∧ m1.modelData = mE.modelData ∧ m1.view = v ∧
      headerFlags m1.fileHeader buf.length m1.lods = HeaderFlags.allOk := by
  have hrep0 : Rep a (parsedOf a v0) := rep_initial a h v0 hv0
  obtain ⟨hrep, hsm⟩ := rep_history2 es a a' (parsedOf a v0) mE ces
    (small_of_wf a h) hrep0 (starts_initial a h hcan v0 hv0) (rep_rangesDisjoint' h hrep0) hes ha' hces hE
  have hlc : a'.lodCount = a.lodCount := by
    apply UInt8.toNat_inj.mp
    have e1 := rep_parts_length h' hrep
    have e2 := (history_frame ces (parsedOf a v0) mE hE).partsLen
    have e3 : (parsedOf a v0).lods.length = a.lodCount.toNat := parsedOf_lods_length a h v0 hv0
    omega
  have hun : UnusedEmpty a'.lodCount.toNat mE.fileHeader := by
    rw [hlc]
    exact unusedEmpty_history ces (parsedOf a v0) mE hE _
      (by show v0.lods.length ≤ _; rw [parsedOf_lods_length a h v0 hv0]; exact Nat.le_refl _)
      (unusedEmpty_initial a h hcan)
  exact edit_then_parse_of_rep a' hsm (parsedOf a v0) mE ces (cedits_ne_nil es a ces hne hces)
    (rep_rangesDisjoint' h hrep0) hE hrep (wf_relayout a' h' hlen') hcan' hne' v hv hun

/-- under `editsFit` (every intermediate state is small enough for `update_headers`, every shape-mesh
count can be incremented) the edit calls on the parsed model return -/
theorem edits_return_initial (a : AbstractModel) (h : WF a = true) (hcan : Canonical a = true)
    (v0 : View) (hv0 : view a = some v0) (es : List AEdit) (hes : editsOk2 a es = true)
    (hfit : editsFit a es = true) (a' : AbstractModel) (ha' : applyEdits a es = some a')
    (ces : List Edit) (hces : cedits a es = some ces) :
    ∃ mE, ces.foldlM Mdl.applyEdit (parsedOf a v0) = .ok mE := by
  have hrep0 : Rep a (parsedOf a v0) := rep_initial a h v0 hv0
  exact edits_return es a a' (parsedOf a v0) ces (small_of_wf a h) (wf_facts a h).lods3 hrep0
    (starts_initial a h hcan v0 hv0) (rep_rangesDisjoint' h hrep0) hes hfit ha' hces

end Physis.Mdl
