import PhysisModel.Proofs.PatchApply
import PhysisModel.Proofs.WriteAt
/-! C03, part 2: one chunk of the model does what the reference semantics says. -/
set_option linter.unusedSimpArgs false
namespace Physis.Patch
open Physis Physis.Fs Physis.Spec.ZiPatch

/-! ### names -/

theorem nibble_shift1 (s : UInt16) : Patch.nibble ((s >>> 8) >>> 4) = Patch.nibble (s >>> 12) := by
  simp only [Patch.nibble]; bv_decide (timeout := 300)
theorem nibble_shift2 (s : UInt16) : Patch.nibble ((s &&& 0xff) >>> 4) = Patch.nibble (s >>> 4) := by
  simp only [Patch.nibble]; bv_decide (timeout := 300)
theorem nibble_mask (s : UInt16) : Patch.nibble (s &&& 0xff) = Patch.nibble s := by
  simp only [Patch.nibble]; bv_decide (timeout := 300)

theorem fmt02x_eq (m : UInt16) : fmt02x m = hexMin2 m := rfl

theorem fmt04x_eq (s : UInt16) : fmt04x s = hex2 (s >>> 8) ++ hex2 (s &&& 0xff) := by
  show _ = [Patch.nibble ((s >>> 8) >>> 4), Patch.nibble (s >>> 8)] ++
    [Patch.nibble ((s &&& 0xff) >>> 4), Patch.nibble (s &&& 0xff)]
  rw [nibble_shift1, nibble_shift2, nibble_mask]; rfl

theorem expansionFolder_eq (e : UInt16) : Patch.expansionFolder e = Spec.ZiPatch.expansionFolder e := rfl

theorem repoDir_eq (sub : UInt16) : Patch.repoDir sub = Spec.ZiPatch.repoDir sub := rfl

theorem platformString_eq (p : UInt16) (pn : Bytes) (h : platformName p = some pn) :
    platformString p.toUInt8 = pn := by
  simp only [platformName] at h
  by_cases h0 : p = 0
  · subst h0; simp at h; subst h; rfl
  by_cases h1 : p = 1
  · subst h1; simp at h; subst h; rfl
  by_cases h2 : p = 2
  · subst h2; simp at h; subst h; rfl
  by_cases h3 : p = 3
  · subst h3; simp at h; subst h; rfl
  by_cases h4 : p = 4
  · subst h4; simp at h; subst h; rfl
  simp [h0, h1, h2, h3, h4] at h

theorem datFile_eq (p : UInt16) (pn : Bytes) (h : platformName p = some pn) (m sub : UInt16) (f : UInt32) :
    Patch.repoDir sub ++ [datFile p.toUInt8 m sub f] = datPath pn m sub f := by
  simp only [datPath, stem, datFile, platformString_eq p pn h, fmt02x_eq, fmt04x_eq, repoDir_eq, sDat,
    List.append_assoc]
  rfl

theorem indexFile_eq (p : UInt16) (pn : Bytes) (h : platformName p = some pn) (m sub : UInt16) (f : UInt32) :
    Patch.repoDir sub ++ [indexFile p.toUInt8 m sub f] = indexPath pn m sub f := by
  simp only [indexPath, stem, indexFile, platformString_eq p pn h, fmt02x_eq, fmt04x_eq, repoDir_eq, sIndex,
    List.append_assoc]
  by_cases hf : f = 0 <;> simp [hf] <;> rfl

/-! ### creating / opening the target file -/

theorem mkdirAll_isDir (t : Tree) (d : Path) (t1 : Tree) (h : mkdirAll t [] d = some t1) : isDir t1 d = true := by
  cases hd : d with
  | nil => rfl
  | cons c r =>
    have := mkdirAll_made t [] d t1 h d.length (by rw [hd]; simp) (Nat.le_refl _)
    simp only [List.nil_append, List.take_length] at this
    rw [hd] at this; simp [isDir, this]

theorem placeFile_model (t1 : Tree) (p : Path) (f : Bytes → Bytes) (t' : Tree)
    (hpar : isDir t1 p.dropLast = true) (h : placeFile t1 p f = some t') :
    ∃ t2 old, openCreate t1 p = some t2 ∧ get t2 p = some (.file old) ∧ set t2 p (.file (f old)) = t' := by
  unfold placeFile at h
  cases p with
  | nil => simp at h
  | cons c r =>
    cases hg : get t1 (c :: r) with
    | none =>
      simp only [hg, Option.some.injEq] at h
      refine ⟨set t1 (c :: r) (.file []), [], ?_, by simp [get_set], by rw [set_set]; exact h⟩
      simp [openCreate, hg, hpar]
    | some n =>
      cases n with
      | dir => simp [hg] at h
      | file old =>
        simp only [hg, Option.some.injEq] at h
        exact ⟨t1, old, by simp [openCreate, hg], hg, h⟩

theorem updateFile_model (t : Tree) (mk : Bool) (p : Path) (f : Bytes → Bytes) (t' : Tree)
    (h : updateFile t mk p f = some t') :
    ∃ t1 t2 old, (if mk then mkdirAll t [] p.dropLast = some t1 else t1 = t) ∧
      openCreate t1 p = some t2 ∧ get t2 p = some (.file old) ∧ set t2 p (.file (f old)) = t' := by
  unfold updateFile at h
  cases mk with
  | true =>
    simp only [↓reduceIte] at h
    cases hmk : mkdirAll t [] p.dropLast with
    | none => simp [hmk] at h
    | some t1 =>
      simp only [hmk, Option.bind_some] at h
      obtain ⟨t2, old, h1, h2, h3⟩ := placeFile_model t1 p f t' (mkdirAll_isDir t _ t1 hmk) h
      exact ⟨t1, t2, old, by simp, h1, h2, h3⟩
  | false =>
    simp only [Bool.false_eq_true, ↓reduceIte] at h
    by_cases hd : isDir t p.dropLast = true
    · simp only [hd, ↓reduceIte] at h
      obtain ⟨t2, old, h1, h2, h3⟩ := placeFile_model t p f t' hd h
      exact ⟨t, t2, old, by simp, h1, h2, h3⟩
    · simp [hd] at h

theorem modifyFile_of_get (t : Tree) (p : Path) (g : Bytes → Bytes) (old : Bytes) (h : get t p = some (.file old)) :
    modifyFile t p g = set t p (.file (g old)) := by
  simp [modifyFile, h]

/-! ### bytes -/

theorem shl7_u32 (x : UInt32) : (x.toUInt64 <<< 7).toNat = 128 * x.toNat := by
  have h : x.toUInt64.toNat = x.toNat := by simp
  have hx : x.toNat < 2 ^ 32 := x.toNat_lt
  rw [UInt64.toNat_shiftLeft, h]
  simp only [UInt64.toNat_ofNat, Nat.reducePow, Nat.reduceMod, Nat.shiftLeft_eq]
  omega

theorem emptyBlockWrite_eq (old : Bytes) (off : Nat) (n : UInt32) (h1 : 1 ≤ n) (h2 : n.toNat ≤ 2 ^ 31) :
    emptyBlockWrite old off n = some (overlay old off (emptyBlock n)) := by
  have hn0 : ¬ (n = 0 ∨ 2 ^ 31 < n.toNat) := by
    intro h
    rcases h with h | h
    · subst h; exact absurd h1 (by decide)
    · omega
  have hn1 : 1 ≤ n.toNat := by
    have := UInt32.le_iff_toNat_le.mp h1; simpa using this
  simp only [emptyBlockWrite, hn0, ↓reduceIte, shl7_u32, Option.some.injEq]
  have e1 : off + 4 = off + (putU32le 128).length := by simp
  have e2 : off + 8 = off + (putU32le 128 ++ putU32le 0).length := by simp
  have e3 : off + 12 = off + (putU32le 128 ++ putU32le 0 ++ putU32le 0).length := by simp
  have e4 : off + 16 = off + (putU32le 128 ++ putU32le 0 ++ putU32le 0 ++ putU32le (n - 1)).length := by simp
  rw [e1, writeAt_seq, e2, writeAt_seq, e3, writeAt_seq, e4, writeAt_seq,
    writeAt_over _ _ _ _ (by simp [putU32le]) (by simp [zeros]; omega), ← writeAt_eq_overlay]
  congr 1
  simp [emptyBlock, zeros, List.drop_replicate]

theorem pathComps_ok (path : Bytes) (h : Spec.ZiPatch.pathOk path = true) :
    pathComps path = ((splitSlash path).dropLast, splitSlash path) := by
  simp only [Spec.ZiPatch.pathOk, Bool.and_eq_true, List.all_eq_true] at h
  have hf : ∀ l : Path, (∀ c ∈ l, c ∈ splitSlash path) →
      l.filter (fun c => !c.isEmpty && decide (c ≠ [0x2e])) = l := by
    intro l hl
    apply List.filter_eq_self.mpr
    intro c hc
    have := h.2 c (hl c hc)
    simp only [Bool.and_eq_true, Bool.not_eq_true', decide_eq_true_eq, sDot, ne_eq] at this
    have h2 : ¬ c = [46] := of_decide_eq_true this.1.2
    simp [this.1.1, h2]
  simp only [pathComps]
  rw [hf _ (fun _ h => h), hf _ (fun c hc => (List.dropLast_sublist _).subset hc)]

/-! ### one chunk -/

def tiOf (plat : Option UInt16) : Option UInt8 := plat.map UInt16.toUInt8

theorem bind_plat {α : Type} (plat : Option UInt16) (k : Bytes → Option α) (r : α)
    (h : (plat.bind platformName).bind k = some r) : ∃ p pn, plat = some p ∧ platformName p = some pn ∧ k pn = some r := by
  cases plat with
  | none => simp at h
  | some p =>
    cases hpn : platformName p with
    | none => simp [hpn] at h
    | some pn => exact ⟨p, pn, rfl, hpn, by simpa [hpn] using h⟩

theorem applyChunk_refines (s s' : St) (c : Cmd) (hwf : c.wf = true) (he : effect s c = some s') :
    applyChunk (tiOf s.plat) s.tree (payload c) (toChunk c) = (tiOf s'.plat, s'.tree, none) := by
  cases c with
  | target pl rg dbg v del sk =>
    simp only [effect, Option.some.injEq] at he; subst he; rfl
  | addData m sub f off del data =>
    simp only [effect] at he
    obtain ⟨p, pn, hp, hpn, hk⟩ := bind_plat _ _ _ he
    simp only [Option.map_eq_some_iff] at hk
    obtain ⟨t', hu, rfl⟩ := hk
    obtain ⟨t1, t2, old, hmk, hoc, hg, hset⟩ := updateFile_model _ _ _ _ _ hu
    simp only [↓reduceIte, datPath, List.dropLast_concat] at hmk
    rw [← datFile_eq p pn hpn] at hoc hg hset
    simp only [toChunk, applyChunk, tiOf, hp, Option.map_some, repoDir_eq, hmk]
    rw [repoDir_eq] at hoc hg hset
    simp only [hoc, modifyFile_of_get _ _ _ _ hg, writeAt_seq, shl7_u32]
    simp only [writeAt_eq_overlay, ← hset, zeros]
  | deleteData m sub f off num =>
    simp only [Cmd.wf, Bool.and_eq_true, decide_eq_true_eq] at hwf
    simp only [effect] at he
    obtain ⟨p, pn, hp, hpn, hk⟩ := bind_plat _ _ _ he
    simp only [Option.map_eq_some_iff] at hk
    obtain ⟨t', hu, rfl⟩ := hk
    obtain ⟨t1, t2, old, hmk, hoc, hg, hset⟩ := updateFile_model _ _ _ _ _ hu
    simp only [Bool.false_eq_true, ↓reduceIte] at hmk
    subst hmk
    rw [← datFile_eq p pn hpn, repoDir_eq] at hoc hg hset
    simp only [toChunk, applyChunk, tiOf, hp, Option.map_some, repoDir_eq, hoc, hg,
      emptyBlockWrite_eq _ _ _ hwf.1 hwf.2, shl7_u32, ← hset]
  | expandData m sub f off num =>
    simp only [Cmd.wf, Bool.and_eq_true, decide_eq_true_eq] at hwf
    simp only [effect] at he
    obtain ⟨p, pn, hp, hpn, hk⟩ := bind_plat _ _ _ he
    simp only [Option.map_eq_some_iff] at hk
    obtain ⟨t', hu, rfl⟩ := hk
    obtain ⟨t1, t2, old, hmk, hoc, hg, hset⟩ := updateFile_model _ _ _ _ _ hu
    simp only [↓reduceIte, datPath, List.dropLast_concat] at hmk
    rw [← datFile_eq p pn hpn, repoDir_eq] at hoc hg hset
    simp only [toChunk, applyChunk, tiOf, hp, Option.map_some, repoDir_eq, hmk, hoc, hg,
      emptyBlockWrite_eq _ _ _ hwf.1 hwf.2, shl7_u32, ← hset]
  | header isIdx k m sub f data =>
    simp only [effect] at he
    obtain ⟨p, pn, hp, hpn, hk⟩ := bind_plat _ _ _ he
    simp only [Option.map_eq_some_iff] at hk
    obtain ⟨t', hu, rfl⟩ := hk
    obtain ⟨t1, t2, old, hmk, hoc, hg, hset⟩ := updateFile_model _ _ _ _ _ hu
    have hoff : (if headerKindByte k ≠ 0x56 then 1024 else 0) = (if k = HeaderKind.version then 0 else 1024) := by
      cases k <;> simp [headerKindByte]
    cases isIdx with
    | true =>
      simp only [↓reduceIte, indexPath, List.dropLast_concat] at hmk
      simp only [↓reduceIte] at hoc hg hset
      rw [← indexFile_eq p pn hpn, repoDir_eq] at hoc hg hset
      simp only [toChunk, applyChunk, tiOf, hp, Option.map_some, repoDir_eq, hmk, ↓reduceIte, hoc,
        modifyFile_of_get _ _ _ _ hg, writeAt_eq_overlay, hoff, ← hset]
    | false =>
      simp only [↓reduceIte, Bool.false_eq_true, datPath, List.dropLast_concat] at hmk
      simp only [↓reduceIte, Bool.false_eq_true] at hoc hg hset
      rw [← datFile_eq p pn hpn, repoDir_eq] at hoc hg hset
      simp only [toChunk, applyChunk, tiOf, hp, Option.map_some, repoDir_eq, hmk, ↓reduceIte, Bool.false_eq_true,
        hoc, modifyFile_of_get _ _ _ _ hg, writeAt_eq_overlay, hoff, ← hset]
  | addFile off exp path blocks =>
    simp only [Cmd.wf, Bool.and_eq_true, decide_eq_true_eq] at hwf
    simp only [effect, Option.map_eq_some_iff] at he
    obtain ⟨t', hu, rfl⟩ := he
    obtain ⟨t1, t2, old, hmk, hoc, hg, hset⟩ := updateFile_model _ _ _ _ _ hu
    simp only [↓reduceIte] at hmk
    simp only [toChunk, applyChunk, payload, pathComps_ok path hwf.1.1.1, hmk, hoc, modifyFile_of_get _ _ _ _ hg,
      ← hset]
    by_cases h0 : off = 0
    · simp [h0, writeAt_nil_zero]
    · simp [h0, writeAt_eq_overlay]
  | deleteFile exp path =>
    simp only [Cmd.wf, Bool.and_eq_true, decide_eq_true_eq] at hwf
    simp only [effect, Option.some.injEq] at he; subst he
    simp only [toChunk, applyChunk, payload, pathComps_ok path hwf.1]
  | removeAll exp path =>
    simp only [effect, Option.some.injEq] at he; subst he
    simp only [toChunk, applyChunk, payload]
    rfl
  | mkDirTree exp path =>
    simp only [Cmd.wf, Bool.and_eq_true, decide_eq_true_eq] at hwf
    simp only [effect, Option.map_eq_some_iff] at he
    obtain ⟨t', hu, rfl⟩ := he
    simp only [toChunk, applyChunk, payload, pathComps_ok path hwf.1, hu]
  | _ => simp only [effect, Option.some.injEq] at he; subst he; rfl

end Physis.Patch
