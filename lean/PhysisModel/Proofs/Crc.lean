import PhysisModel.Model.Crc
import PhysisModel.Spec.Crc32
import Std.Tactic.BVDecide
namespace Physis.Crc
open Physis.Generated Physis.Spec

theorem tableStep_eq (c : UInt32) : tableStep c = Crc32.bitStep c := by
  simp only [tableStep, Crc32.bitStep, jamcrcPolynomial, Crc32.poly]; bv_decide (timeout := 300)

theorem tableEntry_eq (i : UInt32) :
    tableEntry i = Crc32.byteStep i 0 := by
  simp [tableEntry, Crc32.byteStep, tableStep_eq]

set_option maxRecDepth 20000 in
theorem table_get (i : Nat) (h : i < 256) : table[i]! = tableEntry i.toUInt32 := by
  have hs : table.size = 256 := Array.size_ofFn
  have : i < table.size := by rw [hs]; exact h
  exact (getElem!_pos table i this).trans (Array.getElem_ofFn ..)

/-- the table-driven update equals 8 bitwise steps on `c ^ byte` -/
theorem split8 (c : UInt32) (b : UInt8) :
    Crc32.byteStep ((c ^^^ b.toUInt32) &&& 0xFF) 0 ^^^ (c >>> 8) = Crc32.byteStep c b := by
  simp only [Crc32.byteStep, Crc32.bitStep, Crc32.poly]; bv_decide (timeout := 300)

theorem update_eq (c : UInt32) (b : UInt8) : update c b = Crc32.byteStep c b := by
  unfold update
  have hlt : ((c ^^^ b.toUInt32) &&& 0xFF).toNat < 256 := by
    have : ((c ^^^ b.toUInt32) &&& 0xFF) < 256 := by bv_decide (timeout := 300)
    exact this
  rw [table_get _ hlt, tableEntry_eq]
  have : (((c ^^^ b.toUInt32) &&& 0xFF).toNat).toUInt32 = ((c ^^^ b.toUInt32) &&& 0xFF) := by
    simp
  rw [this, split8]

theorem final_eq (c : UInt32) : ~~~(c ^^^ jamcrcFinalXor) = c ^^^ 0 := by
  simp only [jamcrcFinalXor]; bv_decide (timeout := 300)

theorem foldl_update_eq (s : Bytes) (c : UInt32) :
    s.foldl update c = s.foldl Crc32.byteStep c := by
  induction s generalizing c with
  | nil => rfl
  | cons b s ih => simp [List.foldl, update_eq, ih]

end Physis.Crc
