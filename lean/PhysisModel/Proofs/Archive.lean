import PhysisModel.Spec.Archive
/-!
Index file names are unambiguous on the slots lookup can name (expansions 0..9, chunks 0..254), so
every archive is realised by a disk (`diskOf`): the hypotheses of the C01 theorems are satisfiable
for every archive.
-/
namespace Physis.Spec.Archive
open Physis Physis.Str

theorem repoDir_inj : ∀ e ∈ List.range 10, ∀ e' ∈ List.range 10, repoDir e = repoDir e' → e = e' := by
  decide

theorem hex2_cat_length (c : Category) : (hex2 c.id).length = 2 := by cases c <;> decide

theorem hex2_cat_inj (c c' : Category) (h : hex2 c.id = hex2 c'.id) : c = c' := by
  cases c <;> cases c' <;> first | rfl | exact absurd h (by decide)

theorem dec2_small_length : ∀ e ∈ List.range 10, (dec2 e).length = 2 := by decide

/-- read a decimal number back -/
def undec (l : Bytes) : Nat := l.foldl (fun acc d => acc * 10 + (d.toNat - 48)) 0

theorem undec_dec2 : ∀ ch ∈ List.range 255, undec (dec2 ch) = ch := by decide +kernel

theorem dec2_no_dot : ∀ ch ∈ List.range 255, (dec2 ch).all (fun b => b != 46) = true := by decide +kernel

theorem takeWhile_stop (l r : Bytes) (h : l.all (fun b => b != 46) = true) :
    (l ++ 46 :: r).takeWhile (fun b => b != 46) = l := by
  induction l with
  | nil => simp [List.takeWhile]
  | cons x xs ih =>
    simp only [List.all_cons, Bool.and_eq_true] at h
    simp only [List.cons_append, List.takeWhile, h.1, ih h.2]

theorem indexName_inj (pl : Platform) (e : Nat) (c c' : Category) (ch ch' : Nat) (k k' : Kind)
    (he : e < 10) (hch : ch < 255) (hch' : ch' < 255)
    (h : indexName pl e c ch k = indexName pl e c' ch' k') : c = c' ∧ ch = ch' ∧ k = k' := by
  simp only [indexName, stem, List.append_assoc] at h
  have h1 := List.append_inj h (by rw [hex2_cat_length, hex2_cat_length])
  have hc := hex2_cat_inj c c' h1.1
  have h2 := List.append_cancel_left h1.2
  have hd := dec2_no_dot ch (List.mem_range.mpr hch)
  have hd' := dec2_no_dot ch' (List.mem_range.mpr hch')
  have h3 := congrArg (List.takeWhile (fun b => b != 46)) h2
  simp only [List.singleton_append] at h3
  rw [takeWhile_stop _ _ hd, takeWhile_stop _ _ hd'] at h3
  have hchEq : ch = ch' := by
    have := congrArg undec h3
    rwa [undec_dec2 ch (List.mem_range.mpr hch), undec_dec2 ch' (List.mem_range.mpr hch')] at this
  subst hchEq
  have h4 := List.append_cancel_left (List.append_cancel_left (List.append_cancel_left
    (List.append_cancel_left h2)))
  refine ⟨hc, rfl, ?_⟩
  cases k <;> cases k' <;> first | rfl | (simp at h4)

theorem mem_allSlots (e : Nat) (c : Category) (ch : Nat) (k : Kind) (he : e < 10) (hch : ch < 255) :
    (e, c, ch, k) ∈ allSlots := by
  simp only [allSlots, List.mem_flatMap, List.mem_range, List.mem_cons, Prod.mk.injEq,
    List.mem_nil_iff, or_false]
  refine ⟨e, he, c, ?_, ch, hch, ?_⟩
  · cases c <;> simp [allCategories]
  · cases k <;> simp

theorem allSlots_bound {x : Nat × Category × Nat × Kind} (h : x ∈ allSlots) : x.1 < 10 ∧ x.2.2.1 < 255 := by
  simp only [allSlots, List.mem_flatMap, List.mem_range, List.mem_cons, List.mem_nil_iff, or_false] at h
  obtain ⟨e, he, c, _, ch, hch, hx⟩ := h
  rcases hx with rfl | rfl <;> exact ⟨he, hch⟩

/-- every archive is realised by its canonical disk -/
theorem realises_diskOf (a : Archive) : Realises (diskOf a) a := by
  intro e c ch k he hch
  unfold diskOf
  cases hf : allSlots.find? (fun x => repoDir x.1 == repoDir e &&
      indexName a.platform x.1 x.2.1 x.2.2.1 x.2.2.2 == indexName a.platform e c ch k) with
  | none =>
    have := (List.find?_eq_none.mp hf) (e, c, ch, k) (mem_allSlots e c ch k he hch)
    simp at this
  | some x =>
    have hmem := List.mem_of_find?_eq_some hf
    have hp := List.find?_some hf
    simp only [Bool.and_eq_true, beq_iff_eq] at hp
    obtain ⟨hb1, hb2⟩ := allSlots_bound hmem
    have hx1 : x.1 = e := repoDir_inj x.1 (List.mem_range.mpr hb1) e (List.mem_range.mpr he) hp.1
    obtain ⟨x1, x2, x3, x4⟩ := x
    simp only [] at hx1 hp hb2
    subst hx1
    obtain ⟨h1, h2, h3⟩ := indexName_inj a.platform x1 x2 c x3 ch x4 k he hb2 hch hp.2
    subst h1 h2 h3
    rfl

end Physis.Spec.Archive
