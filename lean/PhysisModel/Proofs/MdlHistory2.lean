import PhysisModel.Proofs.MdlHistory
import PhysisModel.Proofs.MdlUpdate
import PhysisModel.Proofs.MdlEdit
/-!
# C07 — `Rep` is preserved by `add_shape_mesh` as well

`MdlHistory.lean` proves `rep_step` / `rep_history` for `replace_vertices` and
`remove_shape_meshes`.  This file adds the third call of the edit API:

* `verticesOf_append` — decoding the streams of a mesh with `n` records appended to every stream
  yields the old vertices followed by the decoding of the appended records;
* `shapeFold` — the loop of `add_shape_mesh` over the new values: the vertices are appended, the
  shape values are `start + base` / `start + (old vertex count + i)` (the checked `u16` additions
  agree with the wrapping ones when they succeed);
* `shapeRows_set`, `stripMD_shapes` — the shape table after the edit;
* `rep_addShape` — one `add_shape_mesh` step keeps `Rep` and `Small`;
* `editOk2`, `editsOk2`, `rep_step2`, `rep_history2` — all three edits, histories.
-/
namespace Physis.Mdl
open Physis Physis.Spec.Mdl

/-! ### small list facts -/

theorem setAt_inv' {l r : List α} {i : Nat} {f : α → α} (h : setAt l i f = .ok r) :
    ∃ a, l[i]? = some a ∧ r = l.set i (f a) := by
  unfold setAt at h
  split at h
  · cases h; exact ⟨_, by assumption, rfl⟩
  · cases h

theorem set_self' {l : List α} {i : Nat} {x : α} (h : l[i]? = some x) : l.set i x = l := by
  obtain ⟨hi, rfl⟩ := List.getElem?_eq_some_iff.mp h
  exact List.set_getElem_self hi

theorem map_set_same' (f : α → β) {l : List α} {i : Nat} {x x' : α} (h : l[i]? = some x)
    (hx : f x' = f x) : (l.set i x').map f = l.map f := by
  rw [List.map_set, hx, set_self' (by rw [List.getElem?_map, h]; rfl)]

theorem length_verticesOf' (x : AMesh) : (verticesOf x).length = x.vertexCount.toNat := by
  simp [verticesOf]

theorem foldl_congr_mem (f g : β → α → β) (l : List α) (h : ∀ e ∈ l, ∀ v, f v e = g v e) :
    ∀ init, l.foldl f init = l.foldl g init := by
  induction l with
  | nil => intro _; rfl
  | cons x xs ih =>
    intro init
    simp only [List.foldl_cons]
    rw [h x (by simp), ih (fun e he => h e (by simp [he]))]

theorem zip_set_map (F : α × β → γ) : ∀ (xs : List α) (ys : List β) (i : Nat) (x : α) (y' : β),
    xs[i]? = some x →
    (List.zip xs (ys.set i y')).map F = ((List.zip xs ys).map F).set i (F (x, y')) := by
  intro xs
  induction xs with
  | nil => intro ys i x y' h; simp at h
  | cons a as ih =>
    intro ys i x y' h
    cases ys with
    | nil => simp
    | cons b bs =>
      cases i with
      | zero =>
        simp only [List.getElem?_cons_zero, Option.some.injEq] at h
        subst h
        simp
      | succ i =>
        simp only [List.getElem?_cons_succ] at h
        simp only [List.set_cons_succ, List.zip_cons_cons, List.map_cons]
        rw [ih bs i x y' h]

/-! ### appending records to the streams of a mesh -/

/-- the mesh after `add_shape_mesh`: `n` more vertices, their records appended stream by stream -/
def appMesh (mesh : AMesh) (n : Nat) (streams : List AStream) : AMesh :=
  { mesh with
    vertexCount := (mesh.vertexCount.toNat + n).toUInt16
    streams := List.zipWith (fun (a b : AStream) => { a with data := a.data ++ b.data })
      mesh.streams streams }

theorem zipStreams_facts : ∀ (xs ys : List AStream), ys.map (·.stride) = xs.map (·.stride) →
    (List.zipWith (fun (a b : AStream) => ({ a with data := a.data ++ b.data } : AStream)) xs ys).map
        (·.stride) = xs.map (·.stride) ∧
    (List.zipWith (fun (a b : AStream) => ({ a with data := a.data ++ b.data } : AStream)) xs ys).length =
      xs.length := by
  intro xs
  induction xs with
  | nil => intro ys _; simp
  | cons x xs ih =>
    intro ys h
    cases ys with
    | nil => simp at h
    | cons y ys =>
      simp only [List.map_cons, List.cons.injEq] at h
      obtain ⟨i1, i2⟩ := ih ys h.2
      simp only [List.zipWith_cons_cons, List.map_cons, List.length_cons, i1, i2, and_self]

theorem zipStreams_getElem? (xs ys : List AStream) (i : Nat) (s : AStream)
    (hstr : ys.map (·.stride) = xs.map (·.stride)) (hs : xs[i]? = some s) :
    ∃ s2, ys[i]? = some s2 ∧ s2.stride = s.stride ∧
      (List.zipWith (fun (a b : AStream) => ({ a with data := a.data ++ b.data } : AStream)) xs ys)[i]? =
        some { s with data := s.data ++ s2.data } := by
  obtain ⟨s2, h2, h3⟩ := map_eq_getElem? hstr hs
  refine ⟨s2, h2, h3, ?_⟩
  rw [List.getElem?_zipWith, hs, h2]

/-- an old vertex is decoded from the old part of the streams -/
theorem vertexOf_old (mesh : AMesh) (n : Nat) (streams : List AStream) (hok : meshOk mesh = true)
    (hstr : streams.map (·.stride) = mesh.streams.map (·.stride)) (k : Nat)
    (hk : k < mesh.vertexCount.toNat) :
    vertexOf (appMesh mesh n streams) k = vertexOf mesh k := by
  have MF := mesh_facts mesh hok
  unfold vertexOf
  show mesh.decl.foldl _ _ = _
  apply foldl_congr_mem
  intro e he v
  obtain ⟨_, s, hs, hb⟩ := MF.elems e he
  obtain ⟨s2, _, _, hz⟩ := zipStreams_getElem? mesh.streams streams e.stream.toNat s hstr hs
  have hz' : (appMesh mesh n streams).streams[e.stream.toNat]? =
      some { s with data := s.data ++ s2.data } := hz
  simp only [hz', hs]
  have hd := MF.dataLen s (mem_of_getElem? hs)
  have hvc : ¬ mesh.vertexCount = 0 := by
    intro h0
    rw [h0] at hk
    exact Nat.not_lt_zero _ hk
  have hb' : e.offset.toNat + elemSize e ≤ s.stride.toNat := by
    rcases hb with hb | hb
    · exact hb
    · exact absurd hb hvc
  have hmul := mul_succ_le (st := s.stride.toNat) hk
  rw [Nat.mul_comm s.stride.toNat k] at hmul
  rw [List.drop_append_of_le_length (by omega),
    List.take_append_of_le_length (by rw [List.length_drop]; omega)]

/-- a new vertex is decoded from the appended part -/
theorem vertexOf_new (mesh : AMesh) (n : Nat) (streams : List AStream) (hok : meshOk mesh = true)
    (hstr : streams.map (·.stride) = mesh.streams.map (·.stride)) (j : Nat) :
    vertexOf (appMesh mesh n streams) (mesh.vertexCount.toNat + j) =
      vertexOf { mesh with vertexCount := n.toUInt16, streams := streams } j := by
  have MF := mesh_facts mesh hok
  unfold vertexOf
  show mesh.decl.foldl _ _ = mesh.decl.foldl _ _
  apply foldl_congr_mem
  intro e he v
  obtain ⟨_, s, hs, _⟩ := MF.elems e he
  obtain ⟨s2, h2, h3, hz⟩ := zipStreams_getElem? mesh.streams streams e.stream.toNat s hstr hs
  have hz' : (appMesh mesh n streams).streams[e.stream.toNat]? =
      some { s with data := s.data ++ s2.data } := hz
  simp only [hz', h2]
  have hd := MF.dataLen s (mem_of_getElem? hs)
  rw [h3, show (mesh.vertexCount.toNat + j) * s.stride.toNat + e.offset.toNat =
    s.data.length + (j * s.stride.toNat + e.offset.toNat) by rw [hd, Nat.add_mul]; omega,
    List.drop_length_add_append]

theorem verticesOf_append (mesh : AMesh) (n : Nat) (streams : List AStream)
    (hok : meshOk mesh = true) (hstr : streams.map (·.stride) = mesh.streams.map (·.stride))
    (hvc : mesh.vertexCount.toNat + n < 65536) :
    verticesOf (appMesh mesh n streams) =
      verticesOf mesh ++ verticesOf { mesh with vertexCount := n.toUInt16, streams := streams } := by
  unfold verticesOf
  show (List.range (mesh.vertexCount.toNat + n).toUInt16.toNat).map _ =
    _ ++ (List.range n.toUInt16.toNat).map _
  rw [toUInt16_toNat _ hvc, toUInt16_toNat n (by omega), List.range_add, List.map_append,
    List.map_map]
  congr 1
  · apply List.map_congr_left
    intro k hk
    exact vertexOf_old mesh n streams hok hstr k (by simpa using hk)
  · apply List.map_congr_left
    intro j _
    exact vertexOf_new mesh n streams hok hstr j

/-! ### the value loop of `add_shape_mesh` -/

theorem shapeFold (st : UInt16)
    (f : List Vertex × List ShapeValue → UInt32 × Vertex → R (List Vertex × List ShapeValue))
    (hf : ∀ acc b v, f acc (b, v) = (do
      let bi ← addU16 st b.toUInt16
      let ri ← addU16 st ((acc.1 ++ [v]).length - 1).toUInt16
      pure (acc.1 ++ [v], acc.2 ++ [{ baseIndicesIndex := bi, replacingVertexIndex := ri }]))) :
    ∀ (vals : List (UInt32 × Vertex)) (v0 : List Vertex) (s0 : List ShapeValue)
      (r : List Vertex × List ShapeValue), vals.foldlM f (v0, s0) = .ok r →
      r.1 = v0 ++ vals.map Prod.snd ∧
      r.2 = s0 ++ (List.zip (List.range' v0.length vals.length) (vals.map Prod.fst)).map
        (fun (p : Nat × UInt32) =>
          ({ baseIndicesIndex := st + p.2.toUInt16, replacingVertexIndex := st + p.1.toUInt16 } :
            ShapeValue)) := by
  intro vals
  induction vals with
  | nil =>
    intro v0 s0 r h
    cases h
    simp
  | cons x rest ih =>
    intro v0 s0 r h
    obtain ⟨b, v⟩ := x
    rw [List.foldlM_cons] at h
    obtain ⟨r1, h1, h⟩ := bind_ok h
    rw [hf] at h1
    obtain ⟨bi, hbi, h1⟩ := bind_ok h1
    obtain ⟨ri, hri, h1⟩ := bind_ok h1
    have e := pure_ok h1
    subst e
    obtain ⟨hbi', _⟩ := addU16_inv hbi
    obtain ⟨hri', _⟩ := addU16_inv hri
    obtain ⟨i1, i2⟩ := ih _ _ r h
    refine ⟨?_, ?_⟩
    · rw [i1]; simp
    · rw [i2, hbi', hri']
      simp only [List.length_append, List.length_cons, List.length_nil, Nat.zero_add,
        Nat.add_sub_cancel, List.map_cons, List.range'_succ, List.zip_cons_cons,
        List.append_assoc, List.cons_append, List.nil_append]

theorem shapeVals_eq (st : UInt16) (k n : Nat) (bs : List UInt32) :
    (List.zip (List.range' k n) bs).map
        (fun (p : Nat × UInt32) =>
          ({ baseIndicesIndex := st + p.2.toUInt16, replacingVertexIndex := st + p.1.toUInt16 } :
            ShapeValue)) =
      (List.zip (List.range n) bs).map fun (i, b) =>
        ({ baseIndicesIndex := st + b.toUInt16
           replacingVertexIndex := st + (k + i).toUInt16 } : ShapeValue) := by
  rw [List.range'_eq_map_range, List.zip_map_left, List.map_map]
  apply List.map_congr_left
  intro p _
  rfl

/-! ### the shape table -/

theorem shapeRows_set (b : AbstractModel) (i : Nat) (sh sh' : AShape) (SM : List ShapeMesh)
    (SV : List ShapeValue) (hsh : b.shapes[i]? = some sh) (hn : sh'.name = sh.name)
    (row : ShapeStruct) (hrow : (shapeRows b)[i]? = some row) :
    shapeRows { b with shapes := b.shapes.set i sh', shapeMeshes := SM, shapeValues := SV } =
      (shapeRows b).set i { row with shapeMeshStartIndex := sh'.shapeMeshStartIndex
                                     shapeMeshCount := sh'.shapeMeshCount } := by
  obtain ⟨o, ho, hy⟩ := shapeRows_getElem? b i sh row hsh hrow
  subst hy
  have hnames : (b.shapes.set i sh').map (·.name) = b.shapes.map (·.name) :=
    map_set_same' (·.name) hsh hn
  unfold shapeRows
  show (List.zip (nameOffsets (shapeBase b) ((b.shapes.set i sh').map (·.name)))
    (b.shapes.set i sh')).map _ = _
  rw [hnames, zip_set_map _ _ _ i o sh' ho]

theorem stripMD_shapes (b : AbstractModel) (S : List AShape) (SM : List ShapeMesh)
    (SV : List ShapeValue) (ds : Nat) (hn : S.map (·.name) = b.shapes.map (·.name)) :
    stripMD (modelDataAt { b with shapes := S, shapeMeshes := SM, shapeValues := SV } ds) =
      { stripMD (modelDataAt b ds) with
          shapes := shapeRows { b with shapes := S, shapeMeshes := SM, shapeValues := SV }
          shapeMeshes := SM, shapeValues := SV } := by
  simp only [stripMD, modelDataAt, stripHeader, allMeshes, allNames, stringTable, hn]
  rfl

/-! ### the abstract model after `add_shape_mesh` -/

/-- the shape record after the edit -/
def addShapeRec (a : AbstractModel) (lod smi : Nat) (sh : AShape) (c : UInt16) : AShape :=
  { sh with
    shapeMeshStartIndex :=
      if smi == 0 then sh.shapeMeshStartIndex.set lod a.shapeMeshes.length.toUInt16
      else sh.shapeMeshStartIndex
    shapeMeshCount := sh.shapeMeshCount.set lod (c + 1) }

/-- the new shape values -/
def addVals (start : UInt32) (vc : Nat) (bases : List UInt32) : List ShapeValue :=
  (List.zip (List.range bases.length) bases).map fun (i, b) =>
    ({ baseIndicesIndex := start.toUInt16 + b.toUInt16
       replacingVertexIndex := start.toUInt16 + (vc + i).toUInt16 } : ShapeValue)

/-- mesh `part` of LOD `lod` replaced, new shape tables -/
def addModel (a : AbstractModel) (lod : Nat) (l : ALod) (part : Nat) (x : AMesh)
    (S : List AShape) (SM : List ShapeMesh) (SV : List ShapeValue) : AbstractModel :=
  { replModel a lod l part x with shapes := S, shapeMeshes := SM, shapeValues := SV }

theorem allMeshes_add (a : AbstractModel) (lod : Nat) (l : ALod) (part : Nat) (x : AMesh)
    (S : List AShape) (SM : List ShapeMesh) (SV : List ShapeValue) :
    allMeshes (addModel a lod l part x S SM SV) =
      (a.lods.set lod (replLod l part x)).flatMap (·.meshes) := rfl

theorem sRow_appMesh (s : Nat) (mesh : AMesh) (n : Nat) (streams : List AStream)
    (hstr : streams.map (·.stride) = mesh.streams.map (·.stride)) :
    sRow s (appMesh mesh n streams) =
      { sRow s mesh with vertexCount := (mesh.vertexCount.toNat + n).toUInt16 } := by
  obtain ⟨h1, h2⟩ := zipStreams_facts mesh.streams streams hstr
  simp only [sRow, appMesh, h1, h2]

/-- the stripped header tables of the model after the edit -/
theorem stripMD_addModel (a : AbstractModel) (lod : Nat) (l : ALod) (part : Nat) (mesh x : AMesh)
    (S : List AShape) (SM : List ShapeMesh) (SV : List ShapeValue)
    (hl : a.lods[lod]? = some l) (hmesh : l.meshes[part]? = some mesh)
    (hs3 : ∀ y ∈ allMeshes a, y.streams.length ≤ 3) (hx3 : x.streams.length ≤ 3)
    (hxs : x.submeshes = mesh.submeshes) (hxd : x.decl = mesh.decl)
    (hn : S.map (·.name) = a.shapes.map (·.name)) :
    stripMD (modelData (addModel a lod l part x S SM SV)) =
      { stripMD (modelData a) with
          meshes := sRows 0 ((allMeshes a).set (psum meshCountOf a.lods lod + part) x)
          shapes := shapeRows (addModel a lod l part x S SM SV)
          shapeMeshes := SM, shapeValues := SV } := by
  have hj := allMeshes_getElem? a lod l hl part mesh hmesh
  have hpart : part < l.meshes.length := lt_of_getElem? hmesh
  have hsub' : x.submeshes.length = mesh.submeshes.length := by rw [hxs]
  have hflat : (a.lods.set lod (replLod l part x)).flatMap (·.meshes) =
      (allMeshes a).set (psum meshCountOf a.lods lod + part) x :=
    flat_set a.lods lod l part _ hl hpart
  have hlen : ((allMeshes a).set (psum meshCountOf a.lods lod + part) x).length =
      (allMeshes a).length := List.length_set
  have hsum := congrArg List.sum (map_set_same' (fun (x : AMesh) => x.submeshes.length) hj hsub')
  have hdecl := map_set_same' (fun (x : AMesh) => x.decl) hj hxd
  have hs3' : ∀ y ∈ (allMeshes a).set (psum meshCountOf a.lods lod + part) x,
      y.streams.length ≤ 3 := by
    intro y hy
    rcases List.mem_or_eq_of_mem_set hy with h | rfl
    · exact hs3 y h
    · exact hx3
  have hlk : (a.lods.set lod (replLod l part x)).map lodKey = a.lods.map lodKey :=
    map_set_same' lodKey hl (by simp [lodKey, replLod])
  obtain ⟨pre, post, hsplit, hsplit', _⟩ :=
    subTable_split (allMeshes a) (psum meshCountOf a.lods lod + part) mesh hj
  have htbl : ((allMeshes a).set (psum meshCountOf a.lods lod + part) x).flatMap
      (fun (x : AMesh) => x.submeshes) = (allMeshes a).flatMap (fun (x : AMesh) => x.submeshes) := by
    rw [hsplit' x, hsplit, hxs]
  show stripMD (modelDataAt (addModel a lod l part x S SM SV) _) = _
  unfold addModel
  rw [stripMD_shapes (replModel a lod l part x) S SM SV _ hn]
  unfold replModel
  rw [stripMD_set_lods a _ (dataStart a) _ (by rw [hflat]; exact hdecl) (by rw [hflat]; exact hlen)
    (by rw [hflat]; exact hsum) (strip_lodRows a.lods _ 0 _ _ hlk),
    strip_allMeshRows _ 0 (by rw [hflat]; exact hs3'), hflat, htbl]
  rfl

/-! ### the call -/

/-- `add_shape_mesh` after the shape's start index has been set -/
def addTail (m : MDL) (lodIndex shapeIndex partIndex : Nat) (vals : List (UInt32 × Vertex))
    (parts : List Part) (part : Part) (shapes : List ShapeStruct) : R MDL := do
  let mesh ← idx m.modelData.meshes part.meshIndex.toNat
  let shapeMeshes := m.modelData.shapeMeshes ++
    [{ meshIndexOffset := mesh.startIndex, shapeValueCount := vals.length.toUInt32,
       shapeValueOffset := m.modelData.shapeValues.length.toUInt32 }]
  let (verts, svals) ← vals.foldlM (fun (acc : List Vertex × List ShapeValue) (b, v) => do
    let verts := acc.1 ++ [v]
    let bi ← addU16 mesh.startIndex.toUInt16 b.toUInt16
    let ri ← addU16 mesh.startIndex.toUInt16 (verts.length - 1).toUInt16
    pure (verts, acc.2 ++ [{ baseIndicesIndex := bi, replacingVertexIndex := ri }]))
    (part.vertices, m.modelData.shapeValues)
  let sh ← idx shapes shapeIndex
  if lodIndex ≥ 3 then .error .panic else
  let c ← idx3 sh.shapeMeshCount lodIndex
  let c' ← addU16 c 1
  let shapes := shapes.set shapeIndex { sh with shapeMeshCount := sh.shapeMeshCount.set lodIndex c' }
  let meshes ← setAt m.modelData.meshes part.meshIndex.toNat (fun mesh =>
    { mesh with vertexCount := verts.length.toUInt16 })
  let md : ModelData := { m.modelData with
    shapes := shapes, shapeMeshes := shapeMeshes, shapeValues := svals, meshes := meshes }
  updateHeaders { m with
    lods := m.lods.set lodIndex (parts.set partIndex { part with vertices := verts }),
    modelData := md }

theorem addShapeMesh_inv {m m' : MDL} {lod shape smi part : Nat} {vals : List (UInt32 × Vertex)}
    (h : addShapeMesh m lod shape smi part vals = .ok m') :
    ∃ parts P shapes, m.lods[lod]? = some parts ∧ parts[part]? = some P ∧
      shapes.length = m.modelData.shapes.length ∧
      (∀ row, m.modelData.shapes[shape]? = some row →
        shapes = m.modelData.shapes.set shape
          { row with shapeMeshStartIndex :=
              if smi == 0 then row.shapeMeshStartIndex.set lod m.modelData.shapeMeshes.length.toUInt16
              else row.shapeMeshStartIndex }) ∧
      addTail m lod shape part vals parts P shapes = .ok m' := by
  unfold addShapeMesh at h
  obtain ⟨parts, hparts, h⟩ := bind_ok h
  obtain ⟨P, hP, h⟩ := bind_ok h
  dsimp only at h
  by_cases h0 : (smi == 0) = true
  · rw [if_pos h0] at h
    by_cases h3 : lod ≥ 3
    · rw [if_pos h3] at h
      obtain ⟨_, hx, _⟩ := bind_ok h
      cases hx
    · rw [if_neg h3] at h
      obtain ⟨shapes, hsh, h⟩ := bind_ok h
      obtain ⟨row0, hr0, hset⟩ := setAt_inv' hsh
      refine ⟨parts, P, shapes, idx_inv hparts, idx_inv hP, by rw [hset]; simp, ?_, h⟩
      intro row hr
      rw [hr0] at hr
      cases hr
      rw [hset, if_pos h0]
  · rw [if_neg h0] at h
    obtain ⟨shapes, hsh, h⟩ := bind_ok h
    have e := pure_ok hsh
    subst e
    refine ⟨parts, P, _, idx_inv hparts, idx_inv hP, rfl, ?_, h⟩
    intro row hr
    rw [if_neg h0]
    exact (set_self' hr).symm

/-! ### one step: `add_shape_mesh` -/

theorem rep_addShape (a : AbstractModel) (m m' : MDL) (lod shape smi part : Nat)
    (bases : List UInt32) (streams : List AStream) (l : ALod) (mesh : AMesh) (sh : AShape)
    (c : UInt16) (hl : a.lods[lod]? = some l) (hmesh : l.meshes[part]? = some mesh)
    (hsh : a.shapes[shape]? = some sh) (hcnt : sh.shapeMeshCount.get? lod = some c)
    (hlc : lod < a.lodCount.toNat) (hmok : meshOk mesh = true)
    (hstr : streams.map (·.stride) = mesh.streams.map (·.stride))
    (hvc : mesh.vertexCount.toNat + bases.length < 65536)
    (hsub : ∃ s rest, mesh.submeshes = s :: rest ∧ s.indexOffset = (meshStart l part).toUInt32)
    (hs : Small a) (hrep : Rep a m) (hst : StartsFromSubmesh m)
    (hm : addShapeMesh m lod shape smi part
      (List.zip bases
        (verticesOf { mesh with vertexCount := bases.length.toUInt16, streams := streams })) =
        .ok m') :
    Rep (addModel a lod l part (appMesh mesh bases.length streams)
        (a.shapes.set shape (addShapeRec a lod smi sh c))
        (a.shapeMeshes ++ [⟨(meshStart l part).toUInt32, bases.length.toUInt32,
          a.shapeValues.length.toUInt32⟩])
        (a.shapeValues ++ addVals (meshStart l part).toUInt32 mesh.vertexCount.toNat bases)) m' ∧
    Small (addModel a lod l part (appMesh mesh bases.length streams)
        (a.shapes.set shape (addShapeRec a lod smi sh c))
        (a.shapeMeshes ++ [⟨(meshStart l part).toUInt32, bases.length.toUInt32,
          a.shapeValues.length.toUInt32⟩])
        (a.shapeValues ++ addVals (meshStart l part).toUInt32 mesh.vertexCount.toNat bases)) := by
  obtain ⟨hnM, hnS, hs3⟩ := hs
  -- abstract side
  have hj := allMeshes_getElem? a lod l hl part mesh hmesh
  have hjlt := lt_of_getElem? hj
  have hpart : part < l.meshes.length := lt_of_getElem? hmesh
  obtain ⟨hzs, hzl⟩ := zipStreams_facts mesh.streams streams hstr
  have hsub' : (appMesh mesh bases.length streams).submeshes.length = mesh.submeshes.length := rfl
  have hx3 : (appMesh mesh bases.length streams).streams.length ≤ 3 := by
    show (List.zipWith _ mesh.streams streams).length ≤ 3
    rw [hzl]
    exact hs3 mesh (mem_of_getElem? hj)
  have hflat : (a.lods.set lod (replLod l part (appMesh mesh bases.length streams))).flatMap
      (·.meshes) =
      (allMeshes a).set (psum meshCountOf a.lods lod + part) (appMesh mesh bases.length streams) :=
    flat_set a.lods lod l part _ hl hpart
  have hlen : ((allMeshes a).set (psum meshCountOf a.lods lod + part)
      (appMesh mesh bases.length streams)).length = (allMeshes a).length := List.length_set
  have hsum := congrArg List.sum (map_set_same' (fun (x : AMesh) => x.submeshes.length) hj hsub')
  have hs3' : ∀ x ∈ (allMeshes a).set (psum meshCountOf a.lods lod + part)
      (appMesh mesh bases.length streams), x.streams.length ≤ 3 := by
    intro x hx
    rcases List.mem_or_eq_of_mem_set hx with h | rfl
    · exact hs3 x h
    · exact hx3
  refine ⟨?_, ⟨?_, ?_, ?_⟩⟩
  rotate_left
  · rw [allMeshes_add, hflat, hlen]; exact hnM
  · rw [allMeshes_add, hflat, hsum]; exact hnS
  · rw [allMeshes_add, hflat]; exact hs3'
  -- the call
  obtain ⟨parts, P, shapes, hparts, hP, hshl, hshapes, hm⟩ := addShapeMesh_inv hm
  unfold addTail at hm
  obtain ⟨row, hrow0, hm⟩ := bind_ok hm
  have hrow0 := idx_inv hrow0
  dsimp only at hm
  obtain ⟨⟨verts, svals⟩, hfold, hm⟩ := bind_ok hm
  dsimp only at hm
  obtain ⟨shc, hshc, hm⟩ := bind_ok hm
  have hshc := idx_inv hshc
  by_cases h3 : lod ≥ 3
  · rw [if_pos h3] at hm; cases hm
  rw [if_neg h3] at hm
  obtain ⟨cc, hcc, hm⟩ := bind_ok hm
  have hcc := idx3_inv hcc
  obtain ⟨c', hc', hm⟩ := bind_ok hm
  obtain ⟨hc', _⟩ := addU16_inv hc'
  obtain ⟨rows, hrows, hm⟩ := bind_ok hm
  obtain ⟨u1, u2, u3, u4, u5⟩ := updateHeaders_strip hm
  -- the key of the part
  have hk1 : (specKeys a.lodCount.toNat 0 0 a.lods)[lod]? = some (parts.map partKey) := by
    rw [← hrep.parts, List.getElem?_map, hparts]; rfl
  rw [specKeys_getElem? a.lods lod _ 0 0 l hl hlc] at hk1
  have hk1 := Option.some.inj hk1
  have hk2 : (parts.map partKey)[part]? = some (partKey P) := by
    rw [List.getElem?_map, hP]; rfl
  rw [← hk1, specKeysLod_getElem? l.meshes part _ _ mesh hmesh] at hk2
  have hk2 := Option.some.inj hk2
  simp only [Nat.zero_add] at hk1 hk2
  have hmi : P.meshIndex = (psum meshCountOf a.lods lod + part).toUInt16 :=
    (congrArg (·.1) hk2).symm
  have hPv : P.vertices = verticesOf mesh := (congrArg (·.2.1) hk2).symm
  have hPi : P.indices = mesh.indices := (congrArg (·.2.2.1) hk2).symm
  have hsi : P.submeshes.map (·.submeshIndex) = (List.range mesh.submeshes.length).map
      (psum lodSubCount a.lods lod + psum subLen l.meshes part + ·) := (congrArg (·.2.2.2) hk2).symm
  have hPj : P.meshIndex.toNat = psum meshCountOf a.lods lod + part := by
    rw [hmi, toUInt16_toNat _ (by omega)]
  rw [hPj] at hrow0 hrows
  obtain ⟨row', hrow', hrows⟩ := setAt_inv' hrows
  rw [hrow0] at hrow'
  cases hrow'
  -- the mesh row
  have hM : m.modelData.meshes.map stripMesh = sRows 0 (allMeshes a) :=
    (congrArg ModelData.meshes hrep.md).trans (strip_allMeshRows a.lods 0 hs3)
  have hrowS : stripMesh row =
      sRow (0 + psum subLen (allMeshes a) (psum meshCountOf a.lods lod + part)) mesh := by
    have h1 : (m.modelData.meshes.map stripMesh)[psum meshCountOf a.lods lod + part]? =
        some (stripMesh row) := by rw [List.getElem?_map, hrow0]; rfl
    rw [hM, sRows_getElem? _ _ 0 mesh hj] at h1
    exact (Option.some.inj h1).symm
  -- the start index of the mesh
  have hsbase : psum subLen (allMeshes a) (psum meshCountOf a.lods lod + part) =
      subBase a lod l part := psum_flat a.lods lod l part hl (Nat.le_of_lt hpart)
  have hsle := subBase_le a lod l hl part mesh hmesh
  have hrsi : row.submeshIndex.toNat = subBase a lod l part := by
    rw [show row.submeshIndex =
      (0 + psum subLen (allMeshes a) (psum meshCountOf a.lods lod + part)).toUInt16 from
      (congrArg Mesh.submeshIndex hrowS :), Nat.zero_add, hsbase]
    exact toUInt16_toNat _ (by omega)
  have hlcE : lod < m.lods.length := hrep.lod_lt hl hlc
  obtain ⟨lrow, hlrow, hsr⟩ := rep_lod_row hrep hl
  have hmle := meshBase_le a lod l hl
  have e1 : lodAt m.modelData.lods lod = lrow := by simp [lodAt, hlrow]
  have e2 : lrow.meshIndex.toNat = psum meshCountOf a.lods lod := by
    rw [show lrow.meshIndex = (lodRowOf a lod l).meshIndex from (congrArg MeshLod.meshIndex hsr :)]
    exact toUInt16_toNat _ (by omega)
  have e3 : lrow.meshCount.toNat = l.meshes.length := by
    rw [show lrow.meshCount = (lodRowOf a lod l).meshCount from (congrArg MeshLod.meshCount hsr :)]
    exact toUInt16_toNat _ (by omega)
  have hma : meshAt m.modelData.meshes (psum meshCountOf a.lods lod + part) = row := by
    simp [meshAt, hrow0]
  have hstart : row.startIndex = (meshStart l part).toUInt32 := by
    have h1 := hst lod hlcE part (by rw [e1, e3]; exact hpart)
    rw [e1, e2, hma] at h1
    obtain ⟨s, rest, hs1, hs2⟩ := hsub
    have hget := submeshes_getElem? a lod l hl part mesh hmesh 0 (by rw [hs1]; simp)
    rw [Nat.add_zero, hs1] at hget
    simp only [List.getElem?_cons_zero] at hget
    have hsubs : m.modelData.submeshes = (modelData a).submeshes :=
      (congrArg ModelData.submeshes hrep.md :)
    rw [h1]
    simp only [firstSub, hsubs, hrsi, hget, Option.getD_some]
    exact hs2
  -- the value loop
  have hvsl :
      (verticesOf { mesh with vertexCount := bases.length.toUInt16, streams := streams }).length =
        bases.length := by
    rw [length_verticesOf']; exact toUInt16_toNat _ (by omega)
  have hSV : m.modelData.shapeValues = a.shapeValues := (congrArg ModelData.shapeValues hrep.md :)
  have hSM : m.modelData.shapeMeshes = a.shapeMeshes := (congrArg ModelData.shapeMeshes hrep.md :)
  have hSh : m.modelData.shapes = shapeRows a := (congrArg ModelData.shapes hrep.md :)
  obtain ⟨hverts, hsvals⟩ := shapeFold row.startIndex.toUInt16 _ (by intro _ _ _; rfl) _ _ _ _ hfold
  simp only at hverts hsvals
  rw [List.map_snd_zip (by omega), hPv,
    ← verticesOf_append mesh bases.length streams hmok hstr hvc] at hverts
  rw [List.map_fst_zip (by omega), List.length_zip, hvsl, Nat.min_self, hPv, length_verticesOf',
    shapeVals_eq, hstart, hSV] at hsvals
  have hvl : verts.length.toUInt16 = (mesh.vertexCount.toNat + bases.length).toUInt16 := by
    rw [hverts, length_verticesOf']
    show ((mesh.vertexCount.toNat + bases.length).toUInt16.toNat).toUInt16 = _
    rw [toUInt16_toNat _ hvc]
  have hrowsS : rows.map stripMesh =
      sRows 0 ((allMeshes a).set (psum meshCountOf a.lods lod + part)
        (appMesh mesh bases.length streams)) := by
    rw [hrows, List.map_set, hM, sRows_set _ _ 0 mesh _ hj hsub']
    congr 1
    show ({ stripMesh row with vertexCount := verts.length.toUInt16 } : Mesh) = _
    rw [hrowS, hvl, sRow_appMesh _ mesh bases.length streams hstr]
  -- the shape table
  have hshape : shape < (shapeRows a).length := by
    have := lt_of_getElem? hshc
    rw [hshl, hSh] at this
    exact this
  have hrowSh : (shapeRows a)[shape]? = some (shapeRows a)[shape] := List.getElem?_eq_getElem hshape
  generalize (shapeRows a)[shape] = rowS at hrowSh
  have hshapes' := hshapes rowS (by rw [hSh]; exact hrowSh)
  rw [hSh, hSM] at hshapes'
  obtain ⟨o, ho, hy⟩ := shapeRows_getElem? a shape sh rowS hsh hrowSh
  rw [hshapes', List.getElem?_set, if_pos rfl, if_pos hshape] at hshc
  have hshc := (Option.some.inj hshc).symm
  have hccE : cc = c := by
    rw [hshc, hy] at hcc
    exact Option.some.inj (hcc.symm.trans hcnt)
  have hshapes2 : shapes.set shape { shc with shapeMeshCount := shc.shapeMeshCount.set lod c' } =
      shapeRows (addModel a lod l part (appMesh mesh bases.length streams)
        (a.shapes.set shape (addShapeRec a lod smi sh c))
        (a.shapeMeshes ++ [⟨(meshStart l part).toUInt32, bases.length.toUInt32,
          a.shapeValues.length.toUInt32⟩])
        (a.shapeValues ++ addVals (meshStart l part).toUInt32 mesh.vertexCount.toNat bases)) := by
    have hSR := shapeRows_set (replModel a lod l part (appMesh mesh bases.length streams)) shape sh
      (addShapeRec a lod smi sh c)
      (a.shapeMeshes ++ [⟨(meshStart l part).toUInt32, bases.length.toUInt32,
          a.shapeValues.length.toUInt32⟩])
      (a.shapeValues ++ addVals (meshStart l part).toUInt32 mesh.vertexCount.toNat bases)
      hsh rfl rowS hrowSh
    refine Eq.trans ?_ hSR.symm
    rw [hshapes', List.set_set, hshc, hc', hccE, hy]
    rfl
  have hnames : (a.shapes.set shape (addShapeRec a lod smi sh c)).map (·.name) =
      a.shapes.map (·.name) :=
    map_set_same' (·.name) (x' := addShapeRec a lod smi sh c) hsh rfl
  have hlsub : lodSubCount (replLod l part (appMesh mesh bases.length streams)) = lodSubCount l :=
    congrArg List.sum (map_set_same' subLen hmesh hsub')
  refine ⟨?_, ?_, ?_, ?_, ?_⟩
  · rw [u1, stripMD_addModel a lod l part mesh _ _ _ _ hl hmesh hs3 hx3 rfl rfl hnames]
    show ({ stripMD m.modelData with
      shapes := shapes.set shape { shc with shapeMeshCount := shc.shapeMeshCount.set lod c' }
      shapeMeshes := m.modelData.shapeMeshes ++ [⟨row.startIndex, (List.zip bases (verticesOf
        { mesh with vertexCount := bases.length.toUInt16, streams := streams })).length.toUInt32,
        m.modelData.shapeValues.length.toUInt32⟩]
      shapeValues := svals
      meshes := rows.map stripMesh } : ModelData) = _
    rw [hshapes2, hrowsS, hsvals, hSM, hSV, hstart, List.length_zip, hvsl, Nat.min_self, hrep.md]
    rfl
  · rw [u2]
    refine hrep.fh.trans ?_
    rw [stripFH_fileHeader, stripFH_fileHeader, allMeshes_add, hflat, hlen]
    rfl
  · rw [u3]
    show (m.lods.set lod (parts.set part _)).map (·.map partKey) =
      specKeys a.lodCount.toNat 0 0 (a.lods.set lod _)
    rw [List.map_set, List.map_set, hrep.parts,
      specKeys_set a.lods lod _ 0 0 l _ hl hlc List.length_set hlsub, ← hk1,
      replLod_meshes, specKeysLod_set l.meshes part _ _ mesh _ hmesh hsub']
    simp only [Nat.zero_add]
    congr 2
    simp only [partKey, keyOf, hmi, hsi, hverts, hPi]
    rfl
  · rw [u4]; exact hrep.bones
  · rw [u5]; exact hrep.mats

/-! ### all three edits -/

/-- side conditions on one edit (all decidable, on the abstract state the edit is applied to) -/
def editOk2 (m : AbstractModel) : AEdit → Bool
  | .replace lod part _ streams _ _ =>
    match meshOfA m lod part with
    | some mesh => streams.map (·.stride) == mesh.streams.map (·.stride)
    | none => false
  | .removeShapes => true
  | .addShape lod _ _ part bases streams =>
    match m.lods[lod]? with
    | none => false
    | some l =>
      match l.meshes[part]? with
      | none => false
      | some mesh =>
        meshOk mesh &&
        streams.map (·.stride) == mesh.streams.map (·.stride) &&
        streams.all (fun s => s.data.length == bases.length * s.stride.toNat) &&
        decide (mesh.vertexCount.toNat + bases.length < 65536) &&
        (match mesh.submeshes with
         | s :: _ => s.indexOffset == (meshStart l part).toUInt32
         | [] => false)

def editsOk2 : AbstractModel → List AEdit → Bool
  | _, [] => true
  | a, e :: rest =>
    editOk2 a e && match Spec.Mdl.applyEdit a e with
      | some a' => editsOk2 a' rest
      | none => false

/-- one edit step -/
theorem rep_step2 (a a' : AbstractModel) (m m' : MDL) (e : AEdit) (ce : Edit)
    (hs : Small a) (hrep : Rep a m) (hst : StartsFromSubmesh m) (hok : editOk2 a e = true)
    (ha : Spec.Mdl.applyEdit a e = some a') (hc : cedit a e = some ce)
    (hm : Mdl.applyEdit m ce = .ok m') : Rep a' m' ∧ Small a' := by
  cases e with
  | removeShapes =>
    exact rep_step (fun h => updateHeaders_strip h) a a' m m' .removeShapes ce hs hrep rfl ha hc hm
  | replace lod part vc streams indices subs =>
    exact rep_step (fun h => updateHeaders_strip h) a a' m m'
      (.replace lod part vc streams indices subs) ce hs hrep hok ha hc hm
  | addShape lod shape smi part bases streams =>
    cases hl : a.lods[lod]? with
    | none => simp [editOk2, hl] at hok
    | some l =>
      cases hmesh : l.meshes[part]? with
      | none => simp [editOk2, hl, hmesh] at hok
      | some mesh =>
        simp only [editOk2, hl, hmesh, Bool.and_eq_true, beq_iff_eq, decide_eq_true_eq] at hok
        obtain ⟨⟨⟨⟨hmok, hstr⟩, _⟩, hvc⟩, hsub⟩ := hok
        have hsub' : ∃ s rest, mesh.submeshes = s :: rest ∧
            s.indexOffset = (meshStart l part).toUInt32 := by
          cases hsm : mesh.submeshes with
          | nil => rw [hsm] at hsub; simp at hsub
          | cons s rest =>
            rw [hsm] at hsub
            exact ⟨s, rest, rfl, by simpa using hsub⟩
        have hmo : meshOfA a lod part = some mesh := by simp [meshOfA, hl, hmesh]
        simp only [cedit, hmo, Option.bind_eq_bind, Option.bind_some, Option.some.injEq] at hc
        subst hc
        cases hsh : a.shapes[shape]? with
        | none => simp [Spec.Mdl.applyEdit, hl, hsh] at ha
        | some sh =>
          cases hcnt : sh.shapeMeshCount.get? lod with
          | none => simp [Spec.Mdl.applyEdit, hl, hsh, hcnt] at ha
          | some c =>
            have hsub'' := hsub'
            obtain ⟨s0, rest0, hsm0, _⟩ := hsub''
            simp only [Spec.Mdl.applyEdit, hl, hmesh, hsh, hcnt, hsm0, Option.bind_eq_bind,
              Option.bind_some] at ha
            split at ha
            · cases ha
            · by_cases hlc : lod ≥ a.lodCount.toNat
              · simp [modifyMesh, hl, hlc] at ha
              · simp only [modifyMesh, hl, hmesh, hlc, Option.bind_eq_bind, Option.bind_some,
                  ↓reduceIte, Option.some.injEq] at ha
                subst ha
                exact rep_addShape a m m' lod shape smi part bases streams l mesh sh c hl hmesh hsh
                  hcnt (by omega) hmok hstr hvc hsub' hs hrep hst hm

/-- histories -/
theorem rep_history2 : ∀ (es : List AEdit) (a a' : AbstractModel) (m m' : MDL) (ces : List Edit),
    Small a → Rep a m → StartsFromSubmesh m →
    RangesDisjoint m.modelData.lods m.lods.length →
    editsOk2 a es = true → applyEdits a es = some a' → cedits a es = some ces →
    ces.foldlM Mdl.applyEdit m = .ok m' → Rep a' m' ∧ Small a' := by
  intro es
  induction es with
  | nil =>
    intro a a' m m' ces hs hrep _ _ _ ha hc hm
    simp only [applyEdits, List.foldlM_nil] at ha
    cases ha
    simp only [cedits, Option.some.injEq] at hc
    subst hc
    cases hm
    exact ⟨hrep, hs⟩
  | cons e rest ih =>
    intro a a' m m' ces hs hrep hst hrd hok ha hc hm
    cases h1 : Spec.Mdl.applyEdit a e with
    | none => simp [editsOk2, h1] at hok
    | some a1 =>
      cases h2 : cedit a e with
      | none => simp [cedits, h2] at hc
      | some c =>
        cases h3 : cedits a1 rest with
        | none => simp [cedits, h1, h2, h3] at hc
        | some cs =>
          simp only [cedits, h1, h2, h3, Option.bind_eq_bind, Option.bind_some,
            Option.some.injEq] at hc
          subst hc
          simp only [editsOk2, h1, Bool.and_eq_true] at hok
          rw [List.foldlM_cons] at hm
          obtain ⟨m1, hm1, hm⟩ := bind_ok hm
          have ha' : applyEdits a1 rest = some a' := by
            simpa [applyEdits, List.foldlM_cons, h1] using ha
          obtain ⟨hrep1, hs1⟩ := rep_step2 a a1 m m1 e c hs hrep hst hok.1 h1 h2 hm1
          obtain ⟨m0, hu, hl0, _, hp0⟩ := applyEdit_update hm1
          have hst1 : StartsFromSubmesh m1 := updateHeaders_starts hu (by rw [hl0, hp0]; exact hrd)
          have hrd1 : RangesDisjoint m1.modelData.lods m1.lods.length :=
            (applyEdit_core hm1).2.rangesDisjoint hrd
          exact ih a1 a' m1 m' cs hs1 hrep1 hst1 hrd1 hok.2 ha' h3 hm

end Physis.Mdl
