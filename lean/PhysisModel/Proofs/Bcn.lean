import PhysisModel.Model.Tex
import PhysisModel.Spec.Tex
import Std.Tactic.BVDecide
/-!
Per-block lemmas for C13, for **all** blocks, by arithmetic (no enumeration):
bit-vector facts (`bv_decide (timeout := 300)`) turn the Rust shifts / masks into `UIntN` arithmetic, `toNat`
lemmas + `omega` turn that into the natural-number formulas of `Spec/Bcn.lean`.
`BlockOK` is the interface to the whole-image induction in `Proofs/BcnImage.lean`.
-/
open Physis Physis.Bcn Physis.Spec.Bcn
namespace Physis.Proofs.Bcn

def pxOfWord (x : UInt32) : Px := ⟨(x >>> 16).toUInt8, (x >>> 8).toUInt8, x.toUInt8, (x >>> 24).toUInt8⟩

theorem pxOfWord_color (r g b a : UInt8) : pxOfWord (color r g b a) = ⟨r, g, b, a⟩ := by
  simp only [pxOfWord, color, Px.mk.injEq]
  refine ⟨?_, ?_, ?_, ?_⟩ <;> bv_decide (timeout := 300)

theorem mix21 (x y : UInt8) :
    ((x.toUInt16 * 2 + y.toUInt16) / 3).toUInt8.toNat = (2 * x.toNat + 1 * y.toNat) / (2 + 1) := by
  have := x.toNat_lt; have := y.toNat_lt
  simp only [UInt16.toNat_toUInt8, UInt16.toNat_div, UInt16.toNat_add, UInt16.toNat_mul,
    UInt8.toNat_toUInt16, UInt16.toNat_ofNat, Nat.reducePow, Nat.reduceMod]
  have h1 : x.toNat * 2 % 65536 = x.toNat * 2 := by omega
  have h2 : (x.toNat * 2 + y.toNat) % 65536 = x.toNat * 2 + y.toNat := by omega
  rw [h1, h2]
  omega

theorem mix12 (x y : UInt8) :
    ((x.toUInt16 + y.toUInt16 * 2) / 3).toUInt8.toNat = (1 * x.toNat + 2 * y.toNat) / (1 + 2) := by
  have := x.toNat_lt; have := y.toNat_lt
  simp only [UInt16.toNat_toUInt8, UInt16.toNat_div, UInt16.toNat_add, UInt16.toNat_mul,
    UInt8.toNat_toUInt16, UInt16.toNat_ofNat, Nat.reducePow, Nat.reduceMod]
  have h1 : y.toNat * 2 % 65536 = y.toNat * 2 := by omega
  have h2 : (x.toNat + y.toNat * 2) % 65536 = x.toNat + y.toNat * 2 := by omega
  rw [h1, h2]
  omega

theorem mix11 (x y : UInt8) :
    ((x.toUInt16 + y.toUInt16) / 2).toUInt8.toNat = (1 * x.toNat + 1 * y.toNat) / (1 + 1) := by
  have := x.toNat_lt; have := y.toNat_lt
  simp only [UInt16.toNat_toUInt8, UInt16.toNat_div, UInt16.toNat_add,
    UInt8.toNat_toUInt16, UInt16.toNat_ofNat, Nat.reducePow, Nat.reduceMod]
  omega

/-- `d` after `i` iterations of `d >>= s` -/
def shifted (s : UInt64) (d : UInt64) : Nat → UInt64
  | 0 => d
  | i + 1 => shifted s (d >>> s) i

theorem shifted2_toNat (d : UInt64) (i : Nat) : (shifted 2 d i).toNat = d.toNat / 4 ^ i := by
  induction i generalizing d with
  | zero => simp [shifted]
  | succ i ih =>
    simp only [shifted, ih, UInt64.toNat_shiftRight, UInt64.toNat_ofNat, Nat.reducePow,
      Nat.shiftRight_eq_div_pow, Nat.pow_succ, Nat.div_div_eq_div_mul]
    rw [Nat.mul_comm]

theorem shifted3_toNat (d : UInt64) (i : Nat) : (shifted 3 d i).toNat = d.toNat / 8 ^ i := by
  induction i generalizing d with
  | zero => simp [shifted]
  | succ i ih =>
    simp only [shifted, ih, UInt64.toNat_shiftRight, UInt64.toNat_ofNat, Nat.reducePow,
      Nat.shiftRight_eq_div_pow, Nat.pow_succ, Nat.div_div_eq_div_mul]
    rw [Nat.mul_comm]

theorem bc1Fill_length (c : UInt64 → UInt32) : ∀ (n : Nat) (d : UInt64) (out : List UInt32),
    (bc1Fill c n d out).length = out.length
  | 0, _, _ => rfl
  | _ + 1, _, [] => rfl
  | n + 1, d, _ :: ps => by simp [bc1Fill, bc1Fill_length c n]

theorem bc1Fill_getElem (c : UInt64 → UInt32) : ∀ (n : Nat) (d : UInt64) (out : List UInt32) (i : Nat),
    i < n → n ≤ out.length → (bc1Fill c n d out)[i]? = some (c (shifted 2 d i))
  | 0, _, _, _, h, _ => by omega
  | _ + 1, _, [], _, _, h => by simp at h
  | n + 1, d, _ :: ps, 0, _, _ => by simp [bc1Fill, shifted]
  | n + 1, d, _ :: ps, i + 1, hi, hn => by
    simp only [bc1Fill, List.getElem?_cons_succ, shifted]
    exact bc1Fill_getElem c n (d >>> 2) ps i (by omega) (by simpa using hn)

theorem alphaFill_length (a : UInt64 → UInt16) (mask shift : UInt32) : ∀ (d : UInt64) (out : List UInt32),
    (alphaFill a mask shift d out).length = out.length
  | _, [] => rfl
  | d, _ :: ps => by simp [alphaFill, alphaFill_length a mask shift]

theorem alphaFill_getElem (a : UInt64 → UInt16) (mask shift : UInt32) :
    ∀ (d : UInt64) (out : List UInt32) (i : Nat),
    (alphaFill a mask shift d out)[i]? =
      out[i]?.map (fun p => (p &&& mask) ||| ((a (shifted 3 d i)).toUInt32 <<< shift))
  | _, [], _ => by simp [alphaFill]
  | d, p :: ps, 0 => by simp [alphaFill, shifted]
  | d, p :: ps, i + 1 => by
    simp only [alphaFill, List.getElem?_cons_succ, shifted]
    exact alphaFill_getElem a mask shift (d >>> 3) ps i


theorem and3_toNat (d : UInt64) : (d &&& 3).toNat = d.toNat % 4 := by
  have : d &&& 3 = d % 4 := by bv_decide (timeout := 300)
  rw [this]; simp

theorem and7_toNat (d : UInt64) : (d &&& 7).toNat = d.toNat % 8 := by
  have : d &&& 7 = d % 8 := by bv_decide (timeout := 300)
  rw [this]; simp

/-- `pick4` by the value of the selector -/
def pick4n (c0 c1 c2 c3 : UInt32) : Nat → UInt32
  | 0 => c0 | 1 => c1 | 2 => c2 | _ => c3

theorem pick4_eq (c0 c1 c2 c3 : UInt32) (d : UInt64) :
    pick4 c0 c1 c2 c3 d = pick4n c0 c1 c2 c3 (d.toNat % 4) := by
  simp only [pick4, ← UInt64.toNat_inj, and3_toNat]
  have hk : d.toNat % 4 < 4 := Nat.mod_lt _ (by decide)
  generalize d.toNat % 4 = k at hk
  have : k = 0 ∨ k = 1 ∨ k = 2 ∨ k = 3 := by omega
  rcases this with h | h | h | h <;> subst h <;> simp [pick4n]

def pick8n (a0 a1 a2 a3 a4 a5 a6 a7 : UInt16) : Nat → UInt16
  | 0 => a0 | 1 => a1 | 2 => a2 | 3 => a3 | 4 => a4 | 5 => a5 | 6 => a6 | _ => a7

theorem pick8_eq (a0 a1 a2 a3 a4 a5 a6 a7 : UInt16) (d : UInt64) :
    pick8 a0 a1 a2 a3 a4 a5 a6 a7 d = pick8n a0 a1 a2 a3 a4 a5 a6 a7 (d.toNat % 8) := by
  simp only [pick8, ← UInt64.toNat_inj, and7_toNat]
  have hk : d.toNat % 8 < 8 := Nat.mod_lt _ (by decide)
  generalize d.toNat % 8 = k at hk
  have : k = 0 ∨ k = 1 ∨ k = 2 ∨ k = 3 ∨ k = 4 ∨ k = 5 ∨ k = 6 ∨ k = 7 := by omega
  rcases this with h | h | h | h | h | h | h | h <;> subst h <;> simp [pick8n]

theorem u16le_toNat (a b : UInt8) : (a.toUInt16 ||| (b.toUInt16 <<< 8)).toNat = leNat [a, b] := by
  have : a.toUInt16 ||| (b.toUInt16 <<< 8) = a.toUInt16 + b.toUInt16 * 256 := by bv_decide (timeout := 300)
  rw [this]
  have := a.toNat_lt; have := b.toNat_lt
  simp only [UInt16.toNat_add, UInt16.toNat_mul, UInt8.toNat_toUInt16, UInt16.toNat_ofNat, leNat,
    Nat.reducePow, Nat.reduceMod]
  omega

theorem u32le_toNat (a b c d : UInt8) :
    (a.toUInt32 ||| (b.toUInt32 <<< 8) ||| (c.toUInt32 <<< 16) ||| (d.toUInt32 <<< 24)).toUInt64.toNat
      = leNat [a, b, c, d] := by
  have : a.toUInt32 ||| (b.toUInt32 <<< 8) ||| (c.toUInt32 <<< 16) ||| (d.toUInt32 <<< 24)
      = a.toUInt32 + b.toUInt32 * 256 + c.toUInt32 * 65536 + d.toUInt32 * 16777216 := by bv_decide (timeout := 300)
  rw [this]
  have := a.toNat_lt; have := b.toNat_lt; have := c.toNat_lt; have := d.toNat_lt
  simp only [UInt32.toNat_toUInt64, UInt32.toNat_add, UInt32.toNat_mul, UInt8.toNat_toUInt32,
    UInt32.toNat_ofNat, leNat, Nat.reducePow, Nat.reduceMod]
  omega


theorem rgb565le_u16 (q : UInt16) :
    (rgb565le q).1.toUInt16 = (q / 2048 % 32) * 8 + (q / 2048 % 32) / 4 ∧
    (rgb565le q).2.1.toUInt16 = (q / 32 % 64) * 4 + (q / 32 % 64) / 16 ∧
    (rgb565le q).2.2.toUInt16 = (q % 32) * 8 + (q % 32) / 4 := by
  simp only [rgb565le]
  refine ⟨?_, ?_, ?_⟩ <;> bv_decide (timeout := 300)

theorem rgb565le_spec (q : UInt16) :
    (rgb565le q).1.toNat = (rgb565 q.toNat).r ∧
    (rgb565le q).2.1.toNat = (rgb565 q.toNat).g ∧
    (rgb565le q).2.2.toNat = (rgb565 q.toNat).b := by
  obtain ⟨h1, h2, h3⟩ := rgb565le_u16 q
  have e1 := congrArg UInt16.toNat h1
  have e2 := congrArg UInt16.toNat h2
  have e3 := congrArg UInt16.toNat h3
  simp only [UInt8.toNat_toUInt16, UInt16.toNat_add, UInt16.toNat_mul, UInt16.toNat_div,
    UInt16.toNat_mod, UInt16.toNat_ofNat, Nat.reducePow, Nat.reduceMod] at e1 e2 e3
  simp only [rgb565, expand5, expand6]
  have := q.toNat_lt
  refine ⟨?_, ?_, ?_⟩ <;> omega

/-- every entry of the palette the code builds is the entry the format defines, alpha 255 -/
theorem bc1Palette_ok (q0 q1 : UInt16) (k : Nat) :
    let c := bc1Palette q0 q1
    let w := pick4n c.1 c.2.1 c.2.2.1 c.2.2.2 k
    rgbOK (colourEntry false q0.toNat q1.toNat k).1 (pxOfWord w) ∧ (pxOfWord w).a = 255 := by
  obtain ⟨hr0, hg0, hb0⟩ := rgb565le_spec q0
  obtain ⟨hr1, hg1, hb1⟩ := rgb565le_spec q1
  simp only [bc1Palette, colourEntry, UInt16.lt_iff_toNat_lt, gt_iff_lt, Bool.false_eq_true, or_false]
  by_cases h : q1.toNat < q0.toNat
  · simp only [h, if_true]
    match k with
    | 0 => simp [pick4n, pxOfWord_color, rgbOK, hr0, hg0, hb0]
    | 1 => simp [pick4n, pxOfWord_color, rgbOK, hr1, hg1, hb1]
    | 2 => simp only [pick4n, pxOfWord_color, rgbOK, Rgb.mix, mix21, ← hr0, ← hg0, ← hb0, ← hr1, ← hg1, ← hb1, and_self]
    | k + 3 => simp only [pick4n, pxOfWord_color, rgbOK, Rgb.mix, mix12, ← hr0, ← hg0, ← hb0, ← hr1, ← hg1, ← hb1, and_self]
  · simp only [h, if_false]
    match k with
    | 0 => simp [pick4n, pxOfWord_color, rgbOK, hr0, hg0, hb0]
    | 1 => simp [pick4n, pxOfWord_color, rgbOK, hr1, hg1, hb1]
    | 2 => simp only [pick4n, pxOfWord_color, rgbOK, Rgb.mix, mix11, ← hr0, ← hg0, ← hb0, ← hr1, ← hg1, ← hb1, and_self]
    | k + 3 => simp [pick4n, pxOfWord_color, rgbOK]


theorem selector2 (f i : Nat) : selector 2 f i = f / 4 ^ i % 4 := by simp [selector]
theorem selector3 (f i : Nat) : selector 3 f i = f / 8 ^ i % 8 := by simp [selector]

/-- `decode_bc1_block` on a block of ≥ 8 bytes and a 16-entry buffer: never panics, and every
buffer entry is the palette entry the format assigns to that pixel, with alpha 255. -/
theorem decodeBc1Block_ok (d0 d1 d2 d3 d4 d5 d6 d7 : UInt8) (rest : Bytes) (out : List UInt32)
    (hout : out.length = 16) :
    ∃ out', decodeBc1Block (d0 :: d1 :: d2 :: d3 :: d4 :: d5 :: d6 :: d7 :: rest) out = .ok out' ∧
      out'.length = 16 ∧
      ∀ i, i < 16 → ∃ w e, out'[i]? = some w ∧
        colourAt false [d0, d1, d2, d3, d4, d5, d6, d7] i = some e ∧
        rgbOK e.1 (pxOfWord w) ∧ (pxOfWord w).a = 255 := by
  simp only [decodeBc1Block]
  rw [if_neg (by omega)]
  refine ⟨_, rfl, by simp [bc1Fill_length, hout], ?_⟩
  intro i hi
  rw [bc1Fill_getElem _ 16 _ out i hi (by omega)]
  refine ⟨_, _, rfl, rfl, ?_⟩
  rw [pick4_eq, shifted2_toNat, u32le_toNat, selector2, ← u16le_toNat, ← u16le_toNat]
  exact bc1Palette_ok _ _ _


theorem u48_toNat (d0 d1 d2 d3 d4 d5 d6 d7 : UInt8) :
    ((d0.toUInt64 ||| (d1.toUInt64 <<< 8) ||| (d2.toUInt64 <<< 16) ||| (d3.toUInt64 <<< 24) |||
      (d4.toUInt64 <<< 32) ||| (d5.toUInt64 <<< 40) ||| (d6.toUInt64 <<< 48) ||| (d7.toUInt64 <<< 56)) >>> 16).toNat
      = leNat [d2, d3, d4, d5, d6, d7] := by
  have : (d0.toUInt64 ||| (d1.toUInt64 <<< 8) ||| (d2.toUInt64 <<< 16) ||| (d3.toUInt64 <<< 24) |||
      (d4.toUInt64 <<< 32) ||| (d5.toUInt64 <<< 40) ||| (d6.toUInt64 <<< 48) ||| (d7.toUInt64 <<< 56)) >>> 16
      = d2.toUInt64 + d3.toUInt64 * 256 + d4.toUInt64 * 65536 + d5.toUInt64 * 16777216
        + d6.toUInt64 * 4294967296 + d7.toUInt64 * 1099511627776 := by bv_decide (timeout := 300)
  rw [this]
  have := d2.toNat_lt; have := d3.toNat_lt; have := d4.toNat_lt; have := d5.toNat_lt
  have := d6.toNat_lt; have := d7.toNat_lt
  simp only [UInt64.toNat_add, UInt64.toNat_mul, UInt8.toNat_toUInt64,
    UInt64.toNat_ofNat, leNat, Nat.reducePow, Nat.reduceMod]
  omega

/-- the palette of `decode_bc3_alpha` is the one the format defines; every entry fits a byte -/
theorem bc3AlphaPalette_ok (x y : UInt8) (d : UInt64) :
    (bc3AlphaPalette x.toUInt16 y.toUInt16 d).toNat = alphaEntry x.toNat y.toNat (d.toNat % 8) ∧
    bc3AlphaPalette x.toUInt16 y.toUInt16 d ≤ 255 := by
  have hx := x.toNat_lt; have hy := y.toNat_lt
  have hk : d.toNat % 8 < 8 := Nat.mod_lt _ (by decide)
  unfold bc3AlphaPalette
  by_cases h : x.toUInt16 > y.toUInt16
  · rw [if_pos h, pick8_eq]
    have h' : y.toNat < x.toNat := by simpa [UInt16.lt_iff_toNat_lt] using h
    simp only [alphaEntry, UInt16.le_iff_toNat_le, gt_iff_lt, h', if_true]
    generalize d.toNat % 8 = k at hk
    have hk' : k = 0 ∨ k = 1 ∨ k = 2 ∨ k = 3 ∨ k = 4 ∨ k = 5 ∨ k = 6 ∨ k = 7 := by omega
    rcases hk' with h | h | h | h | h | h | h | h <;> subst h <;>
      simp [pick8n, UInt16.toNat_div, UInt16.toNat_add, UInt16.toNat_mul, UInt8.toNat_toUInt16,
        UInt16.toNat_ofNat] <;> (try simp (disch := omega) only [Nat.mod_eq_of_lt]) <;> omega
  · rw [if_neg h, pick8_eq]
    have h' : ¬ y.toNat < x.toNat := by simpa [UInt16.lt_iff_toNat_lt] using h
    simp only [alphaEntry, UInt16.le_iff_toNat_le, gt_iff_lt, h', if_false]
    generalize d.toNat % 8 = k at hk
    have hk' : k = 0 ∨ k = 1 ∨ k = 2 ∨ k = 3 ∨ k = 4 ∨ k = 5 ∨ k = 6 ∨ k = 7 := by omega
    rcases hk' with h | h | h | h | h | h | h | h <;> subst h <;>
      simp [pick8n, UInt16.toNat_div, UInt16.toNat_add, UInt16.toNat_mul, UInt8.toNat_toUInt16,
        UInt16.toNat_ofNat] <;> (try simp (disch := omega) only [Nat.mod_eq_of_lt]) <;> omega


/-- `channel_mask` of `decode_bc3_alpha` -/
def chanMask (channel : UInt32) : UInt32 := (0xFFFFFFFF : UInt32) ^^^ ((0xFF : UInt32) <<< (channel * 8))

theorem decodeBc3Alpha_ok (d0 d1 d2 d3 d4 d5 d6 d7 : UInt8) (rest : Bytes) (out : List UInt32)
    (channel : UInt32) :
    ∃ out', decodeBc3Alpha (d0 :: d1 :: d2 :: d3 :: d4 :: d5 :: d6 :: d7 :: rest) out channel = .ok out' ∧
      out'.length = out.length ∧
      ∀ i p, out[i]? = some p → ∃ v : UInt16, v ≤ 255 ∧
        alphaAt [d0, d1, d2, d3, d4, d5, d6, d7] i = some v.toNat ∧
        out'[i]? = some ((p &&& chanMask channel) ||| (v.toUInt32 <<< (channel * 8))) := by
  simp only [decodeBc3Alpha]
  refine ⟨_, rfl, alphaFill_length _ _ _ _ _, ?_⟩
  intro i p hp
  rw [alphaFill_getElem, hp]
  refine ⟨_, (bc3AlphaPalette_ok d0 d1 _).2, ?_, rfl⟩
  simp only [alphaAt]
  rw [(bc3AlphaPalette_ok d0 d1 _).1, shifted3_toNat, u48_toNat, selector3]

theorem setChan3 (p : UInt32) (v : UInt16) (hv : v ≤ 255) :
    pxOfWord ((p &&& chanMask 3) ||| (v.toUInt32 <<< (3 * 8))) = { pxOfWord p with a := v.toUInt8 } := by
  simp only [pxOfWord, chanMask, Px.mk.injEq]
  refine ⟨?_, ?_, ?_, ?_⟩ <;> bv_decide (timeout := 300)

theorem setChan2 (p : UInt32) (v : UInt16) (hv : v ≤ 255) :
    pxOfWord ((p &&& chanMask 2) ||| (v.toUInt32 <<< (2 * 8))) = { pxOfWord p with r := v.toUInt8 } := by
  simp only [pxOfWord, chanMask, Px.mk.injEq]
  refine ⟨?_, ?_, ?_, ?_⟩ <;> bv_decide (timeout := 300)

theorem setChan1 (p : UInt32) (v : UInt16) (hv : v ≤ 255) :
    pxOfWord ((p &&& chanMask 1) ||| (v.toUInt32 <<< (1 * 8))) = { pxOfWord p with g := v.toUInt8 } := by
  simp only [pxOfWord, chanMask, Px.mk.injEq]
  refine ⟨?_, ?_, ?_, ?_⟩ <;> bv_decide (timeout := 300)

theorem toUInt8_ofNat_toNat (v : UInt16) (_hv : v ≤ 255) : UInt8.ofNat v.toNat = v.toUInt8 := by
  apply UInt8.toNat_inj.mp
  simp


theorem colourEntry_alpha (four : Bool) (q0 q1 k : Nat) : (colourEntry four q0 q1 k).2.getD 255 = 255 := by
  unfold colourEntry
  split <;> split <;> rfl

theorem colourEntry_alphaOK (four : Bool) (q0 q1 k : Nat) : optAlphaOK (colourEntry four q0 q1 k).2 255 := by
  unfold colourEntry
  split <;> split <;> simp [optAlphaOK]

theorem toUInt8_toNat_of_le (v : UInt16) (hv : v ≤ 255) : v.toUInt8.toNat = v.toNat := by
  have : v.toNat ≤ 255 := by simpa [UInt16.le_iff_toNat_le] using hv
  simp only [UInt16.toNat_toUInt8]
  omega

theorem canon_of_rgbOK (e : Rgb) (px : Px) (h : rgbOK e px) :
    (⟨UInt8.ofNat e.r, UInt8.ofNat e.g, UInt8.ofNat e.b, px.a⟩ : Px) = px := by
  obtain ⟨h1, h2, h3⟩ := h
  cases px
  simp only [← h1, ← h2, ← h3, UInt8.ofNat_toNat]

theorem exists_eight (data : Bytes) (h : 8 ≤ data.length) :
    ∃ d0 d1 d2 d3 d4 d5 d6 d7 rest, data = d0 :: d1 :: d2 :: d3 :: d4 :: d5 :: d6 :: d7 :: rest := by
  match data, h with
  | d0 :: d1 :: d2 :: d3 :: d4 :: d5 :: d6 :: d7 :: rest, _ => exact ⟨_, _, _, _, _, _, _, _, _, rfl⟩

/-- what a block decoder has to establish for the whole-image theorem: on a block of at least
`fmt.blockBytes` bytes and a 16-entry buffer satisfying `Inv` it does not panic, keeps `Inv`, and
every buffer entry is the canonical decoding (convention `conv`) of that pixel of the block -/
def BlockOK (conv : Bc3Colour) (fmt : Format) (blockFn : Bytes → List UInt32 → Except Err (List UInt32))
    (Inv : UInt32 → Prop) : Prop :=
  ∀ data buf, fmt.blockBytes ≤ data.length → buf.length = 16 → (∀ p ∈ buf, Inv p) →
    ∃ buf', blockFn data buf = .ok buf' ∧ buf'.length = 16 ∧ (∀ p ∈ buf', Inv p) ∧
      ∀ i, i < 16 → ∃ w, buf'[i]? = some w ∧
        canonPixel conv fmt (data.take fmt.blockBytes) i = some (pxOfWord w) ∧
        PixelOK conv fmt (data.take fmt.blockBytes) i (pxOfWord w)

theorem bc1_blockOK (conv : Bc3Colour) : BlockOK conv .bc1 decodeBc1Block (fun _ => True) := by
  intro data buf hd hb _
  obtain ⟨d0, d1, d2, d3, d4, d5, d6, d7, rest, rfl⟩ := exists_eight data hd
  obtain ⟨out', h1, h2, h3⟩ := decodeBc1Block_ok d0 d1 d2 d3 d4 d5 d6 d7 rest buf hb
  refine ⟨out', h1, h2, fun _ _ => trivial, ?_⟩
  intro i hi
  obtain ⟨w, e, hw, he, hrgb, ha⟩ := h3 i hi
  refine ⟨w, hw, ?_, ?_⟩
  · simp only [Format.blockBytes, List.take_succ_cons, List.take_zero, canonPixel, he]
    unfold colourAt at he
    simp only [Option.some.injEq] at he
    rw [← he, colourEntry_alpha, he, ← canon_of_rgbOK e.1 (pxOfWord w) hrgb, ha]
    rfl
  · simp only [Format.blockBytes, List.take_succ_cons, List.take_zero, PixelOK, he]
    refine ⟨hi, hrgb, ?_⟩
    unfold colourAt at he
    simp only [Option.some.injEq] at he
    rw [← he, ha]
    exact colourEntry_alphaOK _ _ _ _


theorem bc3_blockOK : BlockOK .bc1Modes .bc3 decodeBc3Block (fun _ => True) := by
  intro data buf hd hb _
  have hd' : 16 ≤ data.length := hd
  obtain ⟨d0, d1, d2, d3, d4, d5, d6, d7, rest, rfl⟩ := exists_eight data (by omega)
  obtain ⟨c0, c1, c2, c3, c4, c5, c6, c7, rest', rfl⟩ := exists_eight rest (by simp at hd'; omega)
  obtain ⟨out1, h1, hl1, hp1⟩ := decodeBc1Block_ok c0 c1 c2 c3 c4 c5 c6 c7 rest' buf hb
  obtain ⟨out2, h2, hl2, hp2⟩ := decodeBc3Alpha_ok d0 d1 d2 d3 d4 d5 d6 d7
    (c0 :: c1 :: c2 :: c3 :: c4 :: c5 :: c6 :: c7 :: rest') out1 3
  refine ⟨out2, ?_, by omega, fun _ _ => trivial, ?_⟩
  · simp only [decodeBc3Block, List.length_cons, List.drop_succ_cons, List.drop_zero, h1, h2]
    rw [if_neg (by omega)]
  · intro i hi
    obtain ⟨w, e, hw, he, hrgb, _⟩ := hp1 i hi
    obtain ⟨v, hv, hav, hw2⟩ := hp2 i w hw
    have hconv : decide (Bc3Colour.bc1Modes = Bc3Colour.always4) = false := by decide
    refine ⟨_, hw2, ?_, ?_⟩
    · rw [setChan3 _ _ hv]
      simp only [Format.blockBytes, List.take_succ_cons, List.take_zero, List.drop_succ_cons, List.drop_zero,
        canonPixel, hconv, he, hav, toUInt8_ofNat_toNat v hv, Option.some.injEq]
      have := canon_of_rgbOK e.1 (pxOfWord w) hrgb
      cases hpx : pxOfWord w
      rw [hpx] at this
      simp only [Px.mk.injEq] at this ⊢
      simp [this]
    · rw [setChan3 _ _ hv]
      simp only [Format.blockBytes, List.take_succ_cons, List.take_zero, List.drop_succ_cons, List.drop_zero,
        PixelOK, hconv, he, hav, toUInt8_toNat_of_le v hv]
      exact ⟨hi, trivial, hrgb⟩

theorem bc5_blockOK (conv : Bc3Colour) :
    BlockOK conv .bc5 decodeBc5Block (fun p => (pxOfWord p).b = 0 ∧ (pxOfWord p).a = 255) := by
  intro data buf hd hb hinv
  have hd' : 16 ≤ data.length := hd
  obtain ⟨d0, d1, d2, d3, d4, d5, d6, d7, rest, rfl⟩ := exists_eight data (by omega)
  obtain ⟨c0, c1, c2, c3, c4, c5, c6, c7, rest', rfl⟩ := exists_eight rest (by simp at hd'; omega)
  obtain ⟨out1, h1, hl1, hp1⟩ := decodeBc3Alpha_ok d0 d1 d2 d3 d4 d5 d6 d7
    (c0 :: c1 :: c2 :: c3 :: c4 :: c5 :: c6 :: c7 :: rest') buf 2
  obtain ⟨out2, h2, hl2, hp2⟩ := decodeBc3Alpha_ok c0 c1 c2 c3 c4 c5 c6 c7 rest' out1 1
  -- pixel-wise description of the result
  have key : ∀ i, i < 16 → ∃ (p : UInt32) (v1 v2 : UInt16), buf[i]? = some p ∧ v1 ≤ 255 ∧ v2 ≤ 255 ∧
      alphaAt [d0, d1, d2, d3, d4, d5, d6, d7] i = some v1.toNat ∧
      alphaAt [c0, c1, c2, c3, c4, c5, c6, c7] i = some v2.toNat ∧
      out2[i]? = some ((((p &&& chanMask 2) ||| (v1.toUInt32 <<< (2 * 8))) &&& chanMask 1) |||
        (v2.toUInt32 <<< (1 * 8))) := by
    intro i hi
    have hp : buf[i]? = some buf[i] := List.getElem?_eq_getElem (by omega)
    obtain ⟨v1, hv1, ha1, hw1⟩ := hp1 i _ hp
    obtain ⟨v2, hv2, ha2, hw2⟩ := hp2 i _ hw1
    exact ⟨_, v1, v2, hp, hv1, hv2, ha1, ha2, hw2⟩
  refine ⟨out2, ?_, by omega, ?_, ?_⟩
  · simp only [decodeBc5Block, h1, List.length_cons, List.drop_succ_cons, List.drop_zero, h2]
    rw [if_neg (by omega)]
  · intro q hq
    obtain ⟨i, hi, rfl⟩ := List.getElem_of_mem hq
    obtain ⟨p, v1, v2, hp, hv1, hv2, _, _, hw⟩ := key i (by omega)
    have hpm : p ∈ buf := List.mem_of_getElem? hp
    have := hinv p hpm
    rw [List.getElem?_eq_getElem hi, Option.some.injEq] at hw
    rw [hw, setChan1 _ _ hv2, setChan2 _ _ hv1]
    exact this
  · intro i hi
    obtain ⟨p, v1, v2, hp, hv1, hv2, ha1, ha2, hw⟩ := key i hi
    have hpm : p ∈ buf := List.mem_of_getElem? hp
    obtain ⟨hb0, ha255⟩ := hinv p hpm
    refine ⟨_, hw, ?_, ?_⟩
    · rw [setChan1 _ _ hv2, setChan2 _ _ hv1]
      simp only [Format.blockBytes, List.take_succ_cons, List.take_zero, List.drop_succ_cons, List.drop_zero,
        canonPixel, ha1, ha2, toUInt8_ofNat_toNat v1 hv1, toUInt8_ofNat_toNat v2 hv2, hb0, ha255]
    · rw [setChan1 _ _ hv2, setChan2 _ _ hv1]
      simp only [Format.blockBytes, List.take_succ_cons, List.take_zero, List.drop_succ_cons, List.drop_zero,
        PixelOK, ha1, ha2, toUInt8_toNat_of_le v1 hv1, toUInt8_toNat_of_le v2 hv2, hb0, ha255]
      exact ⟨hi, trivial, trivial, trivial, trivial⟩

end Physis.Proofs.Bcn
