import PhysisModel.Proofs.HavokStd
/-!
The skeleton extraction (`find_object_by_type`, `HavokAnimationContainer::new`, `HavokSkeleton::new`,
the bone loop of `Skeleton::from_existing`) on the objects read from the standard file.
-/
namespace Physis.Havok
open Physis.Spec.HavokTag

/-- the parsed bone of the model for a specified bone -/
def toBone (b : Spec.HavokTag.Bone) : Havok.Bone := ⟨b.name, b.parent, b.position, b.rotation, b.scale⟩

/-- the `HavokTransform` of a stored bone -/
def trOf (b : BoneRec) : Transform :=
  ⟨(b.bone.position.1, b.bone.position.2.1, b.bone.position.2.2, b.posW), b.bone.rotation,
   (b.bone.scale.1, b.bone.scale.2.1, b.bone.scale.2.2, b.scaleW)⟩

theorem mapM_range' {α : Type} (g : Nat → Option α) : ∀ (l : List α) (k : Nat),
    (∀ i (h : i < l.length), g (k + i) = some l[i]) → (List.range' k l.length).mapM g = some l := by
  intro l
  induction l with
  | nil => intro k _; simp
  | cons a t ih =>
    intro k h
    have h0 := h 0 (by simp)
    simp only [Nat.add_zero, List.getElem_cons_zero] at h0
    have ht := ih (k + 1) (fun i hi => by
      have := h (i + 1) (by simp; omega)
      simpa [Nat.add_assoc, Nat.add_comm 1 i] using this)
    simp only [List.length_cons, List.range'_succ, List.mapM_cons, h0, ht]
    rfl

theorem mapM_range {α : Type} (g : Nat → Option α) (l : List α)
    (h : ∀ i (hi : i < l.length), g i = some l[i]) : (List.range l.length).mapM g = some l := by
  rw [List.range_eq_range']
  exact mapM_range' g l 0 (fun i hi => by simpa using h i hi)

theorem mapM_int (l : List Int) : (l.map Value.int).mapM asInt = some l := by
  induction l with
  | nil => rfl
  | cons a t ih => simp [List.mapM_cons, asInt, ih]

theorem mapM_pose (bs : List BoneRec) :
    ((bs.map BoneRec.pose).map Value.vec).mapM (fun x => (asVec x).bind transformOf) = some (bs.map trOf) := by
  induction bs with
  | nil => rfl
  | cons a t ih =>
    simp only [List.map_cons, List.mapM_cons, ih]
    rfl

theorem bonesOf_eq (P : List Int) (T : List Transform) : ∀ (bs : List BoneRec) (k : Nat),
    (∀ i (h : i < bs.length), P[k + i]? = some bs[i].bone.parent ∧ T[k + i]? = some (trOf bs[i])) →
    bonesOf P T (bs.map (·.bone.name)) k = some (bs.map fun b => toBone b.bone) := by
  intro bs
  induction bs with
  | nil => intro k _; rfl
  | cons a t ih =>
    intro k h
    have h0 := h 0 (by simp)
    simp only [Nat.add_zero, List.getElem_cons_zero] at h0
    have ht := ih (k + 1) (fun i hi => by
      have := h (i + 1) (by simp; omega)
      simpa [Nat.add_assoc, Nat.add_comm 1 i] using this)
    simp only [List.map_cons, bonesOf, h0.1, h0.2, ht, Option.map_some]
    rfl

/-- element `i` of the bone array: both columns are present -/
theorem rowOf_bone (names : List Bytes) (locks : List UInt8) (i : Nat) (hn : i < names.length)
    (hl : i < locks.length) :
    rowOf [(0, names.map Value.str), (1, locks.map fun v => Value.int v.toNat)] i =
      [(0, .str names[i]), (1, .int locks[i].toNat)] := by
  simp [rowOf, hn, hl]

theorem getMember_idx (ty : HType) (data : List (Nat × Value)) (name : Bytes) (i : Nat)
    (h : ty.all.findIdx? (·.name == name) = some i) :
    getMember ty data name = (data.find? (·.1 == i)).map (·.2) := by
  simp [getMember, h]

theorem ix_root : hRoot.all.findIdx? (·.name == n_namedVariants) = some 0 := by decide
theorem ix_class : hNamedVariant.all.findIdx? (·.name == n_className) = some 1 := by decide
theorem ix_variant : hNamedVariant.all.findIdx? (·.name == n_variant) = some 2 := by decide
theorem ix_skeletons : hContainer.all.findIdx? (·.name == n_skeletons) = some 2 := by decide
theorem ix_bindings : hContainer.all.findIdx? (·.name == n_bindings) = some 4 := by decide
theorem ix_bones : hSkeleton.all.findIdx? (·.name == n_bones) = some 4 := by decide
theorem ix_parents : hSkeleton.all.findIdx? (·.name == n_parentIndices) = some 3 := by decide
theorem ix_pose : hSkeleton.all.findIdx? (·.name == n_referencePose) = some 5 := by decide
theorem ix_name : hBone.all.findIdx? (·.name == n_name) = some 0 := by decide

/-- `HavokSkeleton::new` on the skeleton object -/
theorem skeletonOf_std (objs : List Obj) (s : Skel) :
    skeletonOf objs (oSkeleton s.name (s.bones.map (·.bone.name)) (s.bones.map (·.bone.parent))
      (s.bones.map (·.lock)) (s.bones.map BoneRec.pose)) =
      some (s.bones.map (·.bone.name), s.bones.map (·.bone.parent), s.bones.map trOf) := by
  have hnames : ((List.range (s.bones.map (·.bone.name)).length).map fun i =>
      Value.obj hBone (rowOf [(0, (s.bones.map (·.bone.name)).map Value.str),
        (1, (s.bones.map (·.lock)).map fun v => Value.int v.toNat)] i)).mapM
      (fun x => (asObject objs x).bind fun bo => (bo.get n_name).bind asString) =
        some (s.bones.map (·.bone.name)) := by
    rw [List.mapM_map]
    apply mapM_range
    intro i hi
    simp only [Function.comp]
    rw [rowOf_bone _ _ i hi (by simpa using hi)]
    simp [asObject, Obj.get, getMember_idx _ _ _ _ ix_name, asString]
  simp only [skeletonOf, oSkeleton, Obj.get, getMember_idx _ _ _ _ ix_bones, getMember_idx _ _ _ _ ix_parents,
    getMember_idx _ _ _ _ ix_pose]
  simp only [List.find?_cons, Nat.reduceBEq, Option.map_some, Option.bind_some, asArray]
  simp only [Obj.get] at hnames
  rw [hnames]
  simp only [mapM_int, mapM_pose]

theorem extract_std (s : Skel) :
    extract [⟨objectType, []⟩, oRoot s.variantName, oContainer,
      oSkeleton s.name (s.bones.map (·.bone.name)) (s.bones.map (·.bone.parent)) (s.bones.map (·.lock))
        (s.bones.map BoneRec.pose)] = .bones (s.bones.map fun b => toBone b.bone) := by
  have hb := bonesOf_eq (s.bones.map (·.bone.parent)) (s.bones.map trOf) s.bones 0 (fun i hi => by
    simp [List.getElem?_map, List.getElem?_eq_getElem hi])
  have hcls : (Spec.HavokTag.n_hkaAnimationContainer == n_hkaAnimationContainer) = true := by decide
  simp only [extract, List.getElem?_cons_succ, List.getElem?_cons_zero, oRoot, oContainer, Obj.get,
    getMember_idx _ _ _ _ ix_root, getMember_idx _ _ _ _ ix_class, getMember_idx _ _ _ _ ix_variant,
    getMember_idx _ _ _ _ ix_skeletons, getMember_idx _ _ _ _ ix_bindings,
    List.find?_cons, Nat.reduceBEq, Option.map_some, Option.bind_some, asArray, findVariant, asObject, asString,
    hcls, if_true, List.mapM_cons, List.mapM_nil, skeletonOf_std]
  simp [hb]

/-! ### the specification's reading of the standard file -/

theorem zipBones_std (bs : List BoneRec) :
    zipBones (bs.map (·.bone.name)) (bs.map (·.bone.parent)) (bs.map BoneRec.pose) = some (bs.map (·.bone)) := by
  induction bs with
  | nil => rfl
  | cons a t ih =>
    simp only [List.map_cons, zipBones, ih]
    rfl

theorem bonesOf_std (s : Skel) : Spec.HavokTag.bonesOf (stdFile s) = some (s.bones.map (·.bone)) := by
  have ht : typesOf (stdFile s) = stdTypes := by simp [stdFile, stdTypes, typesOf]
  have ho : objectsOf (stdFile s) =
      [(1, [.structs 1 [.strs [s.variantName], .strs [Spec.HavokTag.n_hkaAnimationContainer], .refs [2]]]),
       (5, [.absent, .absent, .refs [3], .absent, .absent, .absent, .absent]),
       (6, [.absent, .absent, .str s.name, .ints s.intKind (s.bones.map (·.bone.parent)),
         .structs s.bones.length [.strs (s.bones.map (·.bone.name)), .bytes (s.bones.map (·.lock))],
         .vecs (s.bones.map BoneRec.pose), .absent, .absent, .absent, .absent])] := by
    simp [stdFile, stdTypes, objectsOf]
  have m1 : membersOf stdTypes 1 = tRoot.members := by decide
  have m5 : membersOf stdTypes 5 = tReferenced.members ++ tContainer.members := by decide
  have m6 : membersOf stdTypes 6 = tReferenced.members ++ tSkeleton.members := by decide
  have i1 : memberIndex tRoot.members Spec.HavokTag.n_namedVariants = some 0 := by decide
  have c1 : classMembers stdTypes n_hkRootLevelContainerNamedVariant = some tNamedVariant.members := by decide
  have i2 : memberIndex tNamedVariant.members Spec.HavokTag.n_className = some 1 := by decide
  have i3 : memberIndex tNamedVariant.members Spec.HavokTag.n_variant = some 2 := by decide
  have i4 : memberIndex (tReferenced.members ++ tContainer.members) Spec.HavokTag.n_skeletons = some 2 := by decide
  have i5 : memberIndex (tReferenced.members ++ tSkeleton.members) Spec.HavokTag.n_bones = some 4 := by decide
  have i6 : memberIndex (tReferenced.members ++ tSkeleton.members) Spec.HavokTag.n_parentIndices = some 3 := by
    decide
  have i7 : memberIndex (tReferenced.members ++ tSkeleton.members) Spec.HavokTag.n_referencePose = some 5 := by
    decide
  have c2 : classMembers stdTypes n_hkaBone = some tBone.members := by decide
  have i8 : memberIndex tBone.members Spec.HavokTag.n_name = some 0 := by decide
  have fv : Spec.HavokTag.findVariant [Spec.HavokTag.n_hkaAnimationContainer] [2] = some 2 := by decide
  have e1 : tRoot.members[0]? = some ⟨Spec.HavokTag.n_namedVariants, 0x19, 0, n_hkRootLevelContainerNamedVariant⟩ := rfl
  have e2 : (tReferenced.members ++ tSkeleton.members)[4]? = some ⟨Spec.HavokTag.n_bones, 0x19, 0, n_hkaBone⟩ := rfl
  unfold Spec.HavokTag.bonesOf
  rw [ht, ho]
  simp [m1, m5, m6, field, i1, c1, i2, i3, i4, i5, i6, i7, c2, i8, fv, e1, e2, skeletonBones, zipBones_std]

end Physis.Havok
