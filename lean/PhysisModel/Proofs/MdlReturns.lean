import PhysisModel.Proofs.MdlHistory2
/-!
# C07 — the edit calls return (no panic) under explicit size conditions

`MdlHistory2.lean` shows: *if* the calls of a consistently supplied edit history return, the
resulting in-memory model represents the abstract result.  This file adds the other half:

* `Fits b` — a decidable conjunction of numeric bounds on the abstract state `b` an edit produces
  (before the code's `update_headers` runs) under which every overflow check and every table access
  of `update_headers` passes;
* `editFits a e` — the one extra bound on the state an edit is applied to (`add_shape_mesh`
  increments a `u16` shape-mesh count with a checked addition);
* `updateHeaders_returns` — `update_headers` returns on every record whose stripped tables are
  those of a `Fits` state;
* `applyEdit_returns` — one consistently supplied edit call returns;
* `edits_return` — histories (`editsFit` threads the abstract state).

The first part is about the code model alone (`…_ok`: success of every loop of `update_headers`
from explicit bounds on the in-memory tables); the second part translates the bounds on the
abstract model into those.
-/
namespace Physis.Mdl
open Physis Physis.Spec.Mdl

/-! ### the result monad, forwards -/

/-- the computation returns a value (no panic, no failure) -/
def Returns (x : R α) : Prop := ∃ a, x = .ok a

theorem Returns.bind {x : R α} {f : α → R β} (a : α) (hx : x = .ok a) (hf : Returns (f a)) :
    Returns (x >>= f) := by
  obtain ⟨b, hb⟩ := hf
  exact ⟨b, by rw [hx]; exact hb⟩

theorem Returns.pure (a : α) : Returns (Pure.pure a : R α) := ⟨a, rfl⟩

theorem Returns.bind' {x : R α} {f : α → R β} (hx : Returns x) (hf : ∀ a, Returns (f a)) :
    Returns (x >>= f) := by
  obtain ⟨a, ha⟩ := hx
  exact Returns.bind a ha (hf a)

theorem Returns.bind'' {x : R α} {f : α → R β} (hx : Returns x)
    (hf : ∀ a, x = .ok a → Returns (f a)) : Returns (x >>= f) := by
  obtain ⟨a, ha⟩ := hx
  exact Returns.bind a ha (hf a ha)

theorem Returns.ite_neg {c : Prop} [Decidable c] {a b : R α} (hc : ¬ c) (h : Returns b) :
    Returns (if c then a else b) := by
  rw [if_neg hc]; exact h

theorem setAt_ok {l : List α} {i : Nat} {a : α} (f : α → α) (h : l[i]? = some a) :
    setAt l i f = .ok (l.set i (f a)) := by
  simp only [setAt, h]

theorem bind_eq_ok {x : R α} {f : α → R β} {a : α} {b : β} (hx : x = .ok a) (hf : f a = .ok b) :
    (x >>= f) = .ok b := by
  rw [hx]; exact hf

theorem ite_neg_eq_ok {c : Prop} [Decidable c] {a b : R α} {r : α} (hc : ¬ c) (h : b = .ok r) :
    (if c then a else b) = .ok r := by
  rw [if_neg hc]; exact h

/-- success rule for a `foldlM` over `List.range n`, with an invariant indexed by the step
(the forward counterpart of `foldlM_range_inv`) -/
theorem foldlM_range_ok (f : β → Nat → R β) (P : Nat → β → Prop) (b0 : β) (h0 : P 0 b0) :
    ∀ (n : Nat), (∀ i b, i < n → P i b → ∃ b', f b i = .ok b' ∧ P (i + 1) b') →
      ∃ b, (List.range n).foldlM f b0 = .ok b ∧ P n b := by
  intro n
  induction n with
  | zero => intro _; exact ⟨b0, rfl, h0⟩
  | succ n ih =>
    intro hs
    obtain ⟨b1, h1, p1⟩ := ih (fun i b hi => hs i b (by omega))
    obtain ⟨b2, h2, p2⟩ := hs n b1 (by omega) p1
    refine ⟨b2, ?_, p2⟩
    rw [List.range_succ, List.foldlM_append, h1, R.ok_bind, List.foldlM_cons, h2, R.ok_bind]
    rfl

theorem foldlM_range_returns (f : β → Nat → R β) (P : Nat → β → Prop) (b0 : β) (h0 : P 0 b0)
    (n : Nat) (hs : ∀ i b, i < n → P i b → ∃ b', f b i = .ok b' ∧ P (i + 1) b') :
    ∃ b, (List.range n).foldlM f b0 = .ok b := by
  obtain ⟨b, hb, _⟩ := foldlM_range_ok f P b0 h0 n hs
  exact ⟨b, hb⟩

theorem mapM_returns (f : α → R β) : ∀ (l : List α), (∀ x ∈ l, Returns (f x)) → Returns (l.mapM f)
  | [], _ => ⟨[], rfl⟩
  | x :: xs, h => by
    obtain ⟨y, hy⟩ := h x (by simp)
    obtain ⟨ys, hys⟩ := mapM_returns f xs (fun z hz => h z (by simp [hz]))
    exact ⟨y :: ys, by rw [List.mapM_cons, hy, R.ok_bind, hys, R.ok_bind]; rfl⟩

theorem arr3_get?_of_lt (a : Arr3 α) {k : Nat} (h : k < 3) : ∃ v, a.get? k = some v := by
  match k, h with
  | 0, _ => exact ⟨_, rfl⟩
  | 1, _ => exact ⟨_, rfl⟩
  | 2, _ => exact ⟨_, rfl⟩

theorem toNat_add16 (a b : UInt16) (h : a.toNat + b.toNat < 65536) :
    (a + b).toNat = a.toNat + b.toNat := by rw [UInt16.toNat_add]; omega

/-! ### rows with the same stripped image -/

theorem meshAt_strip {a b : List Mesh} (h : a.map stripMesh = b.map stripMesh) (j : Nat) :
    stripMesh (meshAt a j) = stripMesh (meshAt b j) := by
  have := congrArg (fun l => l[j]?) h
  simp only [List.getElem?_map] at this
  unfold meshAt
  cases ha : a[j]? with
  | none =>
    cases hb : b[j]? with
    | none => rfl
    | some y => rw [ha, hb] at this; cases this
  | some x =>
    cases hb : b[j]? with
    | none => rw [ha, hb] at this; cases this
    | some y =>
      rw [ha, hb] at this
      exact Option.some.inj this

theorem vertexBytes_strip (x : Mesh) : (stripMesh x).vertexBytes = x.vertexBytes := rfl

theorem vertexBytes_of_strip {x y : Mesh} (h : stripMesh x = stripMesh y) :
    x.vertexBytes = y.vertexBytes := by
  rw [← vertexBytes_strip x, h, vertexBytes_strip]

theorem vertexBytesTo_of_strip {a b : List Mesh} (h : a.map stripMesh = b.map stripMesh)
    (lo k : Nat) : vertexBytesTo a lo k = vertexBytesTo b lo k :=
  sumTo_congr k (fun d _ => vertexBytes_of_strip (meshAt_strip h (lo + d)))

theorem length_of_strip {a b : List Mesh} (h : a.map stripMesh = b.map stripMesh) :
    a.length = b.length := by
  simpa using congrArg List.length h

/-! ### the first loop of `update_headers` returns -/

theorem streamFold_ok (x0 : Mesh) (v0 : UInt32) (h3 : x0.vertexStreamCount.toNat ≤ 3)
    (hb : v0.toNat + x0.vertexBytes < 4294967296) :
    ∃ r, (List.range x0.vertexStreamCount.toNat).foldlM
      (fun (ms : Mesh × UInt32) s => do
        if s ≥ 3 then (Except.error Err.panic : R (Mesh × UInt32)) else
        let stride ← idx3 ms.1.vertexBufferStrides s
        let p ← mulU32 ms.1.vertexCount.toUInt32 stride.toUInt32
        let nv ← addU32 ms.2 p
        pure ({ ms.1 with vertexBufferOffsets := ms.1.vertexBufferOffsets.set s ms.2 }, nv))
      (x0, v0) = .ok r := by
  refine foldlM_range_returns _ (fun k (st : Mesh × UInt32) =>
    SameShape st.1 x0 ∧ st.2.toNat = v0.toNat + x0.vertexCount.toNat * sumTo x0.strideAt k) (x0, v0)
    ⟨SameShape.refl _, by simp [sumTo]⟩ x0.vertexStreamCount.toNat ?_
  · intro k st hk hP
    obtain ⟨p1, p2⟩ := hP
    have hk3 : ¬ k ≥ 3 := by omega
    obtain ⟨stride, hstride⟩ := arr3_get?_of_lt st.1.vertexBufferStrides (show k < 3 by omega)
    have hsk : x0.strideAt k = stride.toNat := by
      rw [← p1.strideAt]; simp [Mesh.strideAt, hstride]
    have hmono : sumTo x0.strideAt (k + 1) ≤ sumTo x0.strideAt x0.vertexStreamCount.toNat :=
      sumTo_mono _ _ _ (by omega)
    have hle : x0.vertexCount.toNat * sumTo x0.strideAt (k + 1) ≤ x0.vertexBytes :=
      Nat.mul_le_mul_left _ hmono
    have hsucc : x0.vertexCount.toNat * sumTo x0.strideAt (k + 1) =
        x0.vertexCount.toNat * sumTo x0.strideAt k + x0.vertexCount.toNat * stride.toNat := by
      show _ * (sumTo _ k + _) = _
      rw [Nat.mul_add, hsk]
    have hp : st.1.vertexCount.toUInt32.toNat * stride.toUInt32.toNat =
        x0.vertexCount.toNat * stride.toNat := by
      rw [UInt16.toNat_toUInt32, UInt8.toNat_toUInt32, p1.vc]
    have hpl : st.1.vertexCount.toUInt32.toNat * stride.toUInt32.toNat < 4294967296 := by
      rw [hp]; omega
    have hpn := toNat_mul32 _ _ hpl
    have hal : st.2.toNat + (st.1.vertexCount.toUInt32 * stride.toUInt32).toNat < 4294967296 := by
      rw [hpn, hp]; omega
    refine ⟨({ st.1 with vertexBufferOffsets := st.1.vertexBufferOffsets.set k st.2 },
      st.2 + st.1.vertexCount.toUInt32 * stride.toUInt32), ?_, ⟨p1.vc, p1.strides, p1.sc⟩, ?_⟩
    · refine ite_neg_eq_ok hk3 ?_
      refine bind_eq_ok (idx3_ok hstride) ?_
      refine bind_eq_ok (mulU32_ok _ _ hpl) ?_
      refine bind_eq_ok (addU32_ok _ _ hal) ?_
      rfl
    · show (st.2 + st.1.vertexCount.toUInt32 * stride.toUInt32).toNat = _
      rw [toNat_add32 _ _ hal, hpn, hp, p2, hsucc]
      omega

theorem meshFold_ok (subs : List Submesh) (ms : List Mesh) (lo cnt : Nat)
    (hlen : ∀ d, d < cnt → lo + d < ms.length)
    (hsub : ∀ d, d < cnt → (meshAt ms (lo + d)).submeshIndex.toNat < subs.length)
    (hsc : ∀ d, d < cnt → (meshAt ms (lo + d)).vertexStreamCount.toNat ≤ 3)
    (hvb : vertexBytesTo ms lo cnt < 4294967296) :
    ∃ r, (List.range cnt).foldlM
      (fun (st : List Mesh × UInt32) dj => do
        let j := lo + dj
        let mesh ← idx st.1 j
        let sub ← idx subs mesh.submeshIndex.toNat
        let mesh := { mesh with startIndex := sub.indexOffset }
        let r ← (List.range mesh.vertexStreamCount.toNat).foldlM
          (fun (ms : Mesh × UInt32) s => do
            if s ≥ 3 then (Except.error Err.panic : R (Mesh × UInt32)) else
            let stride ← idx3 ms.1.vertexBufferStrides s
            let p ← mulU32 ms.1.vertexCount.toUInt32 stride.toUInt32
            let nv ← addU32 ms.2 p
            pure ({ ms.1 with vertexBufferOffsets := ms.1.vertexBufferOffsets.set s ms.2 }, nv))
          (mesh, st.2)
        pure (st.1.set j r.1, r.2)) (ms, 0) = .ok r := by
  refine foldlM_range_returns _ (fun k (st : List Mesh × UInt32) =>
    st.1.map stripMesh = ms.map stripMesh ∧ st.2.toNat = vertexBytesTo ms lo k) (ms, 0)
    ⟨rfl, rfl⟩ cnt ?_
  · intro k st hk hP
    obtain ⟨p1, p2⟩ := hP
    have hl := length_of_strip p1
    have hlt : lo + k < st.1.length := by rw [hl]; exact hlen k hk
    have hmesh : st.1[lo + k]? = some st.1[lo + k] := List.getElem?_eq_getElem hlt
    generalize st.1[lo + k] = mesh at hmesh
    have hat : meshAt st.1 (lo + k) = mesh := by simp [meshAt, hmesh]
    have hstrip : stripMesh mesh = stripMesh (meshAt ms (lo + k)) := by
      rw [← hat]; exact meshAt_strip p1 _
    have hsi : mesh.submeshIndex = (meshAt ms (lo + k)).submeshIndex :=
      (congrArg Mesh.submeshIndex hstrip :)
    have hvsc : mesh.vertexStreamCount = (meshAt ms (lo + k)).vertexStreamCount :=
      (congrArg Mesh.vertexStreamCount hstrip :)
    have hslt : mesh.submeshIndex.toNat < subs.length := by rw [hsi]; exact hsub k hk
    have hsubE : subs[mesh.submeshIndex.toNat]? = some subs[mesh.submeshIndex.toNat] :=
      List.getElem?_eq_getElem hslt
    generalize subs[mesh.submeshIndex.toNat] = sub at hsubE
    have hvbE : ({ mesh with startIndex := sub.indexOffset } : Mesh).vertexBytes =
        (meshAt ms (lo + k)).vertexBytes := by
      show mesh.vertexBytes = _
      exact vertexBytes_of_strip hstrip
    have hmono : vertexBytesTo ms lo (k + 1) ≤ vertexBytesTo ms lo cnt :=
      vertexBytesTo_mono ms lo (by omega)
    rw [vertexBytesTo_succ] at hmono
    obtain ⟨r', hr'⟩ := streamFold_ok { mesh with startIndex := sub.indexOffset } st.2
      (by show mesh.vertexStreamCount.toNat ≤ 3; rw [hvsc]; exact hsc k hk)
      (by rw [hvbE]; omega)
    obtain ⟨_, q2, _⟩ := streamFold_inv { mesh with startIndex := sub.indexOffset } st.2 r' hr'
    obtain ⟨offs, er, hz⟩ := streamFold_strip { mesh with startIndex := sub.indexOffset } st.2 r' hr'
    have hz' : zeroBelow mesh.vertexStreamCount.toNat offs =
        zeroBelow mesh.vertexStreamCount.toNat mesh.vertexBufferOffsets := hz
    have hs : stripMesh r'.1 = stripMesh mesh := by
      rw [er]
      unfold stripMesh
      dsimp only
      rw [hz']
    refine ⟨(st.1.set (lo + k) r'.1, r'.2), ?_, ?_, ?_⟩
    · refine bind_eq_ok (idx_ok hmesh) ?_
      refine bind_eq_ok (idx_ok hsubE) ?_
      refine bind_eq_ok hr' ?_
      rfl
    · show (st.1.set (lo + k) r'.1).map stripMesh = ms.map stripMesh
      rw [map_set_eq stripMesh _ _ _ _ hmesh hs]
      exact p1
    · show r'.2.toNat = vertexBytesTo ms lo (k + 1)
      rw [q2, hvbE, p2, vertexBytesTo_succ]

theorem updateMeshOffsets_ok (md : ModelData) (n : Nat) (hl : n ≤ md.lods.length)
    (h16 : ∀ i, i < n →
      (lodAt md.lods i).meshIndex.toNat + (lodAt md.lods i).meshCount.toNat < 65536)
    (hrow : ∀ i, i < n → ∀ d, d < (lodAt md.lods i).meshCount.toNat →
      (lodAt md.lods i).meshIndex.toNat + d < md.meshes.length ∧
      (meshAt md.meshes ((lodAt md.lods i).meshIndex.toNat + d)).submeshIndex.toNat <
        md.submeshes.length ∧
      (meshAt md.meshes ((lodAt md.lods i).meshIndex.toNat + d)).vertexStreamCount.toNat ≤ 3)
    (hvb : ∀ i, i < n → vertexBytesTo md.meshes (lodAt md.lods i).meshIndex.toNat
      (lodAt md.lods i).meshCount.toNat < 4294967296) :
    ∃ out, updateMeshOffsets md n = .ok out := by
  unfold updateMeshOffsets
  refine foldlM_range_returns _ (fun _ (ms : List Mesh) =>
    ms.map stripMesh = md.meshes.map stripMesh) md.meshes rfl n ?_
  · intro k ms hk hP
    have hklt : k < md.lods.length := by omega
    have hlod : md.lods[k]? = some md.lods[k] := List.getElem?_eq_getElem hklt
    generalize md.lods[k] = lod at hlod
    have hat : lodAt md.lods k = lod := by simp [lodAt, hlod]
    have h16' := h16 k hk
    have hrow' := hrow k hk
    have hvb' := hvb k hk
    rw [hat] at h16' hrow' hvb'
    have hhi := toNat_add16 lod.meshIndex lod.meshCount h16'
    have hn : (lod.meshIndex + lod.meshCount).toNat - lod.meshIndex.toNat = lod.meshCount.toNat := by
      omega
    have hml := length_of_strip hP
    obtain ⟨r, hr⟩ := meshFold_ok md.submeshes ms lod.meshIndex.toNat lod.meshCount.toNat
      (fun d hd => by rw [hml]; exact (hrow' d hd).1)
      (fun d hd => by
        rw [show (meshAt ms (lod.meshIndex.toNat + d)).submeshIndex =
          (meshAt md.meshes (lod.meshIndex.toNat + d)).submeshIndex from
          (congrArg Mesh.submeshIndex (meshAt_strip hP _) :)]
        exact (hrow' d hd).2.1)
      (fun d hd => by
        rw [show (meshAt ms (lod.meshIndex.toNat + d)).vertexStreamCount =
          (meshAt md.meshes (lod.meshIndex.toNat + d)).vertexStreamCount from
          (congrArg Mesh.vertexStreamCount (meshAt_strip hP _) :)]
        exact (hrow' d hd).2.2)
      (by rw [vertexBytesTo_of_strip hP]; exact hvb')
    obtain ⟨q1, _, _⟩ := meshFold_strip md.submeshes ms lod.meshIndex.toNat lod.meshCount.toNat r hr
    refine ⟨r.1, ?_, q1.trans hP⟩
    refine bind_eq_ok (idx_ok hlod) ?_
    refine bind_eq_ok (addU16_ok _ _ h16') ?_
    rw [hn]
    refine bind_eq_ok hr ?_
    rfl

/-! ### the second loop (`updateLodSizes`) returns -/

theorem strideFold_ok (x : Mesh) (h3 : x.vertexStreamCount.toNat ≤ 3) :
    ∃ t, (List.range x.vertexStreamCount.toNat).foldlM (fun (t : UInt32) s => do
        let st ← idx3 x.vertexBufferStrides s
        addU32 t st.toUInt32) 0 = .ok t := by
  refine foldlM_range_returns _ (fun k (t : UInt32) => t.toNat ≤ 255 * k) 0 (Nat.le_refl _)
    x.vertexStreamCount.toNat ?_
  intro k t hk hP
  obtain ⟨st, hst⟩ := arr3_get?_of_lt x.vertexBufferStrides (show k < 3 by omega)
  have hs : st.toUInt32.toNat = st.toNat := UInt8.toNat_toUInt32 st
  have hlt := st.toNat_lt
  have hal : t.toNat + st.toUInt32.toNat < 4294967296 := by rw [hs]; omega
  refine ⟨t + st.toUInt32, ?_, ?_⟩
  · refine bind_eq_ok (idx3_ok hst) ?_
    exact addU32_ok _ _ hal
  · show (t + st.toUInt32).toNat ≤ 255 * (k + 1)
    rw [toNat_add32 _ _ hal, hs]; omega

theorem updateLodSizes_ok (ms : List Mesh) (l : MeshLod)
    (h16 : l.meshIndex.toNat + l.meshCount.toNat < 65536)
    (hrow : ∀ d, d < l.meshCount.toNat → l.meshIndex.toNat + d < ms.length ∧
      (meshAt ms (l.meshIndex.toNat + d)).vertexStreamCount.toNat ≤ 3)
    (hvb : vertexBytesTo ms l.meshIndex.toNat l.meshCount.toNat < 4294967296)
    (hext : ∀ d, d < l.meshCount.toNat →
      (meshAt ms (l.meshIndex.toNat + d)).indexExtent < 4294967296) :
    Returns (updateLodSizes ms l) := by
  unfold updateLodSizes
  have hn : (l.meshIndex + l.meshCount).toNat - l.meshIndex.toNat = l.meshCount.toNat := by
    rw [toNat_add16 _ _ h16]; omega
  refine Returns.bind _ (addU16_ok _ _ h16) ?_
  rw [hn]
  have hfold : ∃ r, (List.range l.meshCount.toNat).foldlM
      (fun (acc : UInt32 × UInt32) dj => do
        let mesh ← idx ms (l.meshIndex.toNat + dj)
        let stride ← (List.range mesh.vertexStreamCount.toNat).foldlM (fun (t : UInt32) s => do
          let st ← idx3 mesh.vertexBufferStrides s
          addU32 t st.toUInt32) 0
        let a ← mulU32 mesh.vertexCount.toUInt32 stride
        let tv ← addU32 acc.1 a
        let e ← addU32 mesh.startIndex mesh.indexCount
        let b ← mulU32 e 2
        let ti := if acc.2 < b then b else acc.2
        pure (tv, ti)) (0, 0) = .ok r := by
    refine foldlM_range_returns _ (fun k (acc : UInt32 × UInt32) =>
      acc.1.toNat = vertexBytesTo ms l.meshIndex.toNat k) (0, 0) rfl l.meshCount.toNat ?_
    intro k acc hk hP
    obtain ⟨hlt, hsc⟩ := hrow k hk
    have hmesh : ms[l.meshIndex.toNat + k]? = some ms[l.meshIndex.toNat + k] :=
      List.getElem?_eq_getElem hlt
    have hat : meshAt ms (l.meshIndex.toNat + k) = ms[l.meshIndex.toNat + k] := by
      simp [meshAt, hmesh]
    have hext' := hext k hk
    rw [hat] at hsc hext'
    have hmono : vertexBytesTo ms l.meshIndex.toNat (k + 1) ≤
        vertexBytesTo ms l.meshIndex.toNat l.meshCount.toNat := vertexBytesTo_mono ms _ (by omega)
    rw [vertexBytesTo_succ, hat] at hmono
    generalize ms[l.meshIndex.toNat + k] = mesh at hmesh hat hsc hext' hmono
    obtain ⟨stride, hstride⟩ := strideFold_ok mesh hsc
    obtain ⟨hs1, _⟩ := strideFold_inv mesh stride hstride
    have hvc : mesh.vertexCount.toUInt32.toNat = mesh.vertexCount.toNat := UInt16.toNat_toUInt32 _
    have hml : mesh.vertexCount.toUInt32.toNat * stride.toNat < 4294967296 := by
      rw [hvc, hs1]
      show mesh.vertexBytes < _
      omega
    have hmn := toNat_mul32 _ _ hml
    have hal : acc.1.toNat + (mesh.vertexCount.toUInt32 * stride).toNat < 4294967296 := by
      rw [hmn, hvc, hs1, hP]
      show _ + mesh.vertexBytes < _
      omega
    unfold Mesh.indexExtent at hext'
    have hel : mesh.startIndex.toNat + mesh.indexCount.toNat < 4294967296 := by omega
    have hen := toNat_add32 _ _ hel
    have h2 : (2 : UInt32).toNat = 2 := rfl
    have hbl : (mesh.startIndex + mesh.indexCount).toNat * (2 : UInt32).toNat < 4294967296 := by
      rw [hen, h2]; omega
    refine ⟨(acc.1 + mesh.vertexCount.toUInt32 * stride,
      if acc.2 < (mesh.startIndex + mesh.indexCount) * 2 then (mesh.startIndex + mesh.indexCount) * 2
      else acc.2), ?_, ?_⟩
    · refine bind_eq_ok (idx_ok hmesh) ?_
      refine bind_eq_ok hstride ?_
      refine bind_eq_ok (mulU32_ok _ _ hml) ?_
      refine bind_eq_ok (addU32_ok _ _ hal) ?_
      refine bind_eq_ok (addU32_ok _ _ hel) ?_
      refine bind_eq_ok (mulU32_ok _ _ hbl) ?_
      rfl
    · show (acc.1 + mesh.vertexCount.toUInt32 * stride).toNat = _
      rw [toNat_add32 _ _ hal, hmn, hvc, hs1, hP, vertexBytesTo_succ, hat]
      rfl
  obtain ⟨r, hr⟩ := hfold
  refine Returns.bind _ hr ?_
  obtain ⟨tv, ti⟩ := r
  exact ⟨_, rfl⟩

/-! ### `assignOffsets`, `copy3`, `calculateStackSize` return -/

theorem assignOffsets_ok (D : UInt32) : ∀ (rows : List MeshLod) (o : UInt32),
    D.toNat + o.toNat +
      (rows.map (fun r => r.vertexBufferSize.toNat + r.indexBufferSize.toNat)).sum < 4294967296 →
    Returns (assignOffsets D rows o) := by
  intro rows
  induction rows with
  | nil => intro o _; exact ⟨[], rfl⟩
  | cons l rest ih =>
    intro o h
    simp only [List.map_cons, List.sum_cons] at h
    unfold assignOffsets
    have h1 : D.toNat + o.toNat < 4294967296 := by omega
    have h2 : o.toNat + l.vertexBufferSize.toNat < 4294967296 := by omega
    have e2 := toNat_add32 _ _ h2
    have h3 : D.toNat + (o + l.vertexBufferSize).toNat < 4294967296 := by rw [e2]; omega
    have h4 : (o + l.vertexBufferSize).toNat + l.indexBufferSize.toNat < 4294967296 := by
      rw [e2]; omega
    have e4 := toNat_add32 _ _ h4
    refine Returns.bind _ (addU32_ok _ _ h1) ?_
    refine Returns.bind _ (addU32_ok _ _ h2) ?_
    refine Returns.bind _ (addU32_ok _ _ h3) ?_
    refine Returns.bind _ (addU32_ok _ _ h4) ?_
    obtain ⟨tail, htail⟩ := ih (o + l.vertexBufferSize + l.indexBufferSize) (by rw [e4, e2]; omega)
    refine Returns.bind _ htail ?_
    exact ⟨_, rfl⟩

theorem copy3_ok (n : Nat) (dst : Arr3 UInt32) (src : List UInt32) (h3 : n ≤ 3)
    (hs : n ≤ src.length) : Returns (copy3 n dst src) := by
  unfold copy3
  refine foldlM_range_returns _ (fun _ _ => True) dst trivial n ?_
  intro k a hk _
  have hk3 : ¬ k ≥ 3 := by omega
  have hv : src[k]? = some src[k] := List.getElem?_eq_getElem (by omega)
  refine ⟨a.set k src[k], ?_, trivial⟩
  refine ite_neg_eq_ok hk3 ?_
  refine bind_eq_ok (idx_ok hv) ?_
  rfl

theorem calculateStackSize_ok (fh : FileHeader) : Returns (calculateStackSize fh) := by
  unfold calculateStackSize
  have hc : fh.vertexDeclarationCount.toUInt32.toNat = fh.vertexDeclarationCount.toNat :=
    UInt16.toNat_toUInt32 _
  have hlt := fh.vertexDeclarationCount.toNat_lt
  have h17 : (17 : UInt32).toNat = 17 := rfl
  have h8 : (8 : UInt32).toNat = 8 := rfl
  have h1 : fh.vertexDeclarationCount.toUInt32.toNat * (17 : UInt32).toNat < 4294967296 := by
    rw [hc, h17]; omega
  have e1 := toNat_mul32 _ _ h1
  refine Returns.bind _ (mulU32_ok _ _ h1) ?_
  exact ⟨_, mulU32_ok _ _ (by rw [e1, hc, h17, h8]; omega)⟩

/-! ### `calculateRuntimeSize` returns -/

/-- the number `calculate_runtime_size` computes (table lengths not truncated) -/
def runtimeNat (d : ModelData) : Nat :=
  2 + 2 + 4 + d.header.stringSize.toNat + 56 + d.elementIds.length * 32 + 180 +
  d.meshes.length * 36 + d.attributeNameOffsets.length * 4 +
  d.header.terrainShadowMeshCount.toNat * 20 + d.header.submeshCount.toNat * 16 +
  d.header.terrainShadowSubmeshCount.toNat * 10 + d.materialNameOffsets.length * 4 +
  d.boneNameOffsets.length * 4 + d.boneTables.length * 132 + d.header.shapeCount.toNat * 16 +
  d.header.shapeMeshCount.toNat * 12 + d.header.shapeValueCount.toNat * 4 + 4 +
  d.submeshBoneMap.length * 2 + d.paddingAmount.toNat + 1 + 128 + d.header.boneCount.toNat * 32

theorem sumFold_ok : ∀ (xs : List UInt32) (a : UInt32),
    a.toNat + (xs.map UInt32.toNat).sum < 4294967296 →
    ∃ r, (xs.map (fun x => (Except.ok x : R UInt32))).foldlM
        (fun acc t => do let x ← t; addU32 acc x) a = .ok r ∧
      r.toNat = a.toNat + (xs.map UInt32.toNat).sum := by
  intro xs
  induction xs with
  | nil => intro a _; exact ⟨a, rfl, by simp⟩
  | cons x xs ih =>
    intro a h
    simp only [List.map_cons, List.sum_cons] at h ⊢
    have h1 : a.toNat + x.toNat < 4294967296 := by omega
    have e1 := toNat_add32 _ _ h1
    obtain ⟨r, hr, hn⟩ := ih (a + x) (by rw [e1]; omega)
    refine ⟨r, ?_, by rw [hn, e1]; omega⟩
    rw [List.foldlM_cons]
    refine bind_eq_ok (a := a + x) ?_ hr
    exact bind_eq_ok rfl (addU32_ok _ _ h1)

theorem lenTerm_ok (n : Nat) (k : UInt32) (kk : Nat) (hk : k.toNat = kk) (hp : 0 < kk)
    (h : n * kk < 4294967296) :
    mulU32 n.toUInt32 k = .ok (n.toUInt32 * k) ∧ (n.toUInt32 * k).toNat = n * kk := by
  subst hk
  have hn : n < 4294967296 := Nat.lt_of_le_of_lt (Nat.le_mul_of_pos_right n hp) h
  have e := toUInt32_toNat n hn
  exact ⟨mulU32_ok _ _ (by rw [e]; exact h), by rw [toNat_mul32 _ _ (by rw [e]; exact h), e]⟩

theorem cntTerm_ok (c : UInt16) (k : UInt32) (kk : Nat) (hk : k.toNat = kk)
    (h : c.toNat * kk < 4294967296) :
    mulU32 c.toUInt32 k = .ok (c.toUInt32 * k) ∧ (c.toUInt32 * k).toNat = c.toNat * kk := by
  subst hk
  have e : c.toUInt32.toNat = c.toNat := UInt16.toNat_toUInt32 c
  exact ⟨mulU32_ok _ _ (by rw [e]; exact h), by rw [toNat_mul32 _ _ (by rw [e]; exact h), e]⟩

theorem cnt8Term_ok (c : UInt8) (k : UInt32) (kk : Nat) (hk : k.toNat = kk)
    (h : c.toNat * kk < 4294967296) :
    mulU32 c.toUInt32 k = .ok (c.toUInt32 * k) ∧ (c.toUInt32 * k).toNat = c.toNat * kk := by
  subst hk
  have e : c.toUInt32.toNat = c.toNat := UInt8.toNat_toUInt32 c
  exact ⟨mulU32_ok _ _ (by rw [e]; exact h), by rw [toNat_mul32 _ _ (by rw [e]; exact h), e]⟩

theorem calculateRuntimeSize_ok (d : ModelData) (h : runtimeNat d < 4294967296) :
    ∃ r, calculateRuntimeSize d = .ok r ∧ r.toNat = runtimeNat d := by
  unfold runtimeNat at h
  have c16 : ∀ c : UInt16, c.toNat < 65536 := fun c => c.toNat_lt
  have c8 : ∀ c : UInt8, c.toNat < 256 := fun c => c.toNat_lt
  obtain ⟨e6, n6⟩ := lenTerm_ok d.elementIds.length 32 32 rfl (by omega) (by omega)
  obtain ⟨e8, n8⟩ := lenTerm_ok d.meshes.length 36 36 rfl (by omega) (by omega)
  obtain ⟨e9, n9⟩ := lenTerm_ok d.attributeNameOffsets.length 4 4 rfl (by omega) (by omega)
  obtain ⟨e10, n10⟩ := cnt8Term_ok d.header.terrainShadowMeshCount 20 20 rfl
    (by have := c8 d.header.terrainShadowMeshCount; omega)
  obtain ⟨e11, n11⟩ := cntTerm_ok d.header.submeshCount 16 16 rfl
    (by have := c16 d.header.submeshCount; omega)
  obtain ⟨e12, n12⟩ := cntTerm_ok d.header.terrainShadowSubmeshCount 10 10 rfl
    (by have := c16 d.header.terrainShadowSubmeshCount; omega)
  obtain ⟨e13, n13⟩ := lenTerm_ok d.materialNameOffsets.length 4 4 rfl (by omega) (by omega)
  obtain ⟨e14, n14⟩ := lenTerm_ok d.boneNameOffsets.length 4 4 rfl (by omega) (by omega)
  obtain ⟨e15, n15⟩ := lenTerm_ok d.boneTables.length 132 132 rfl (by omega) (by omega)
  obtain ⟨e16, n16⟩ := cntTerm_ok d.header.shapeCount 16 16 rfl
    (by have := c16 d.header.shapeCount; omega)
  obtain ⟨e17, n17⟩ := cntTerm_ok d.header.shapeMeshCount 12 12 rfl
    (by have := c16 d.header.shapeMeshCount; omega)
  obtain ⟨e18, n18⟩ := cntTerm_ok d.header.shapeValueCount 4 4 rfl
    (by have := c16 d.header.shapeValueCount; omega)
  obtain ⟨e20, n20⟩ := lenTerm_ok d.submeshBoneMap.length 2 2 rfl (by omega) (by omega)
  obtain ⟨e24, n24⟩ := cntTerm_ok d.header.boneCount 32 32 rfl
    (by have := c16 d.header.boneCount; omega)
  have n21 : d.paddingAmount.toUInt32.toNat = d.paddingAmount.toNat := UInt8.toNat_toUInt32 _
  have k0 : (0 : UInt32).toNat = 0 := rfl
  have k1 : (1 : UInt32).toNat = 1 := rfl
  have k2 : (2 : UInt32).toNat = 2 := rfl
  have k4 : (4 : UInt32).toNat = 4 := rfl
  have k56 : (56 : UInt32).toNat = 56 := rfl
  have k128 : (128 : UInt32).toNat = 128 := rfl
  have k180 : (180 : UInt32).toNat = 180 := rfl
  have hsum : ([2, 2, 4, d.header.stringSize, 56, d.elementIds.length.toUInt32 * 32, 180,
     d.meshes.length.toUInt32 * 36, d.attributeNameOffsets.length.toUInt32 * 4,
     d.header.terrainShadowMeshCount.toUInt32 * 20, d.header.submeshCount.toUInt32 * 16,
     d.header.terrainShadowSubmeshCount.toUInt32 * 10, d.materialNameOffsets.length.toUInt32 * 4,
     d.boneNameOffsets.length.toUInt32 * 4, d.boneTables.length.toUInt32 * 132,
     d.header.shapeCount.toUInt32 * 16, d.header.shapeMeshCount.toUInt32 * 12,
     d.header.shapeValueCount.toUInt32 * 4, 4, d.submeshBoneMap.length.toUInt32 * 2,
     d.paddingAmount.toUInt32, 1, 128, d.header.boneCount.toUInt32 * 32].map UInt32.toNat).sum =
     runtimeNat d := by
    simp only [List.map_cons, List.map_nil, List.sum_cons, List.sum_nil, n6, n8, n9, n10, n11,
      n12, n13, n14, n15, n16, n17, n18, n20, n21, n24, k1, k2, k4, k56, k128, k180]
    unfold runtimeNat
    clear e6 e8 e9 e10 e11 e12 e13 e14 e15 e16 e17 e18 e20 e24 n6 n8 n9 n10 n11 n12 n13 n14 n15 n16
      n17 n18 n20 n21 n24 h
    apply Nat.le_antisymm <;> omega
  obtain ⟨r, hr, hn⟩ := sumFold_ok _ 0 (by rw [hsum, k0]; unfold runtimeNat; omega)
  refine ⟨r, ?_, by rw [hn, hsum, k0]; omega⟩
  unfold calculateRuntimeSize
  simp only [e6, e8, e9, e10, e11, e12, e13, e14, e15, e16, e17, e18, e20, e24]
  exact hr

/-! ### the bounds on the abstract model -/

/-- bytes of one vertex over all streams of the mesh (the strides, not the data lengths) -/
def strideSum (x : AMesh) : Nat := (x.streams.map (·.stride.toNat)).sum
/-- vertex bytes of a mesh as `update_headers` counts them: `vertexCount · Σ stride` -/
def meshVB (x : AMesh) : Nat := x.vertexCount.toNat * strideSum x
/-- vertex section size of a LOD as `update_headers` computes it -/
def lodVB (l : ALod) : Nat := (l.meshes.map meshVB).sum
/-- end of the mesh's own index range in bytes: `2 · (first sub-mesh's index offset + index count)` -/
def meshExt (x : AMesh) : Nat :=
  2 * ((match x.submeshes with
        | s :: _ => s.indexOffset.toNat
        | [] => 0) + x.indices.length)
/-- the largest extent among the meshes of the LOD (0 without meshes) -/
def lodExt (l : ALod) : Nat := (l.meshes.map meshExt).foldl max 0
/-- index section size of a LOD as `update_headers` computes it: the largest extent rounded up to
the next multiple of 16 strictly above it -/
def lodIB (l : ALod) : Nat := (lodExt l / 16 + 1) * 16

/-- upper bound of what `calculate_runtime_size` adds up (the 24 terms, table lengths untruncated) -/
def runtimeBound (b : AbstractModel) : Nat :=
  2 + 2 + 4 + (stringTable b).length + 56 + b.elementIds.length * 32 + 180 +
  (allMeshes b).length * 36 + b.attributes.length * 4 + b.terrainShadowMeshes.length * 20 +
  ((allMeshes b).map (fun (x : AMesh) => x.submeshes.length)).sum * 16 +
  b.terrainShadowSubmeshes.length * 10 + b.materials.length * 4 + b.bones.length * 4 +
  (if isV5 b.version then b.boneTables.length else 0) * 132 + b.shapes.length * 16 +
  b.shapeMeshes.length * 12 + b.shapeValues.length * 4 + 4 + b.submeshBoneMap.length * 2 +
  b.padding.length + 1 + 128 + b.bones.length * 32

/-- a mesh of a LOD in use: it has a sub-mesh record (`update_headers` reads the first one), and
its index range ends below `2³² − 16` bytes (checked `start + count`, checked `· 2`, no wrap of the
16-byte padding) -/
def meshFits (x : AMesh) : Bool := !x.submeshes.isEmpty && decide (meshExt x < 4294967280)

/-- the state `b` (an abstract model as it is right after an edit, before the code's
`update_headers` runs) is small enough for `update_headers`: every overflow check passes -/
def Fits (b : AbstractModel) : Bool :=
  -- table indices stay exact in `u16` / `u8` (`Small`)
  decide ((allMeshes b).length < 65536) &&
  decide (((allMeshes b).map (fun (x : AMesh) => x.submeshes.length)).sum < 65536) &&
  (allMeshes b).all (fun x => decide (x.streams.length ≤ 3)) &&
  -- at most three LODs in use, the others without meshes
  decide (b.lodCount.toNat ≤ 3) &&
  (b.lods.drop b.lodCount.toNat).all (fun l => l.meshes.isEmpty) &&
  -- the meshes of the LODs in use
  (b.lods.take b.lodCount.toNat).all (fun l => l.meshes.all meshFits) &&
  -- header, runtime block, stack and all sections end below 4 GiB
  decide (68 + runtimeBound b + 136 * (allMeshes b).length +
    (b.lods.map (fun l => lodVB l + lodIB l)).sum < 4294967296)

structure FitsFacts (b : AbstractModel) : Prop where
  nMesh : (allMeshes b).length < 65536
  nSub : ((allMeshes b).map (fun (x : AMesh) => x.submeshes.length)).sum < 65536
  s3 : ∀ x ∈ allMeshes b, x.streams.length ≤ 3
  lc3 : b.lodCount.toNat ≤ 3
  unused : ∀ i l, b.lods[i]? = some l → b.lodCount.toNat ≤ i → l.meshes = []
  used : ∀ i l, b.lods[i]? = some l → i < b.lodCount.toNat → ∀ x ∈ l.meshes,
    x.submeshes ≠ [] ∧ meshExt x < 4294967280
  total : 68 + runtimeBound b + 136 * (allMeshes b).length +
    (b.lods.map (fun l => lodVB l + lodIB l)).sum < 4294967296

theorem fits_facts (b : AbstractModel) (h : Fits b = true) : FitsFacts b := by
  simp only [Fits, Bool.and_eq_true, decide_eq_true_eq, List.all_eq_true, List.isEmpty_iff] at h
  obtain ⟨⟨⟨⟨⟨⟨h1, h2⟩, h3⟩, h4⟩, h5⟩, h6⟩, h7⟩ := h
  refine ⟨h1, h2, h3, h4, ?_, ?_, h7⟩
  · intro i l hl hi
    apply h5 l
    have : (b.lods.drop b.lodCount.toNat)[i - b.lodCount.toNat]? = some l := by
      rw [List.getElem?_drop, show b.lodCount.toNat + (i - b.lodCount.toNat) = i by omega]
      exact hl
    exact mem_of_getElem? this
  · intro i l hl hi x hx
    have hm : l ∈ b.lods.take b.lodCount.toNat := by
      have : (b.lods.take b.lodCount.toNat)[i]? = some l := by
        rw [List.getElem?_take_of_lt hi]; exact hl
      exact mem_of_getElem? this
    have := h6 l hm x hx
    simp only [meshFits, Bool.and_eq_true, Bool.not_eq_true', decide_eq_true_eq] at this
    refine ⟨?_, this.2⟩
    intro he
    rw [he] at this
    simp at this

theorem fits_small (b : AbstractModel) (h : Fits b = true) : Small b :=
  ⟨(fits_facts b h).nMesh, (fits_facts b h).nSub, (fits_facts b h).s3⟩

/-! ### the in-memory tables in terms of the abstract model -/

theorem toUInt16_toNat_le (n : Nat) : n.toUInt16.toNat ≤ n := by
  by_cases h : n < 65536
  · rw [toUInt16_toNat n h]; exact Nat.le_refl _
  · have := n.toUInt16.toNat_lt; omega

theorem toUInt32_toNat_le (n : Nat) : n.toUInt32.toNat ≤ n := by
  by_cases h : n < 4294967296
  · rw [toUInt32_toNat n h]; exact Nat.le_refl _
  · have := n.toUInt32.toNat_lt; omega

theorem toUInt8_toNat_le (n : Nat) : n.toUInt8.toNat ≤ n := by
  by_cases h : n < 256
  · rw [toUInt8_toNat n h]; exact Nat.le_refl _
  · have := n.toUInt8.toNat_lt; omega

theorem sRow_vertexBytes (s : Nat) (x : AMesh) (h3 : x.streams.length ≤ 3) :
    (sRow s x).vertexBytes = meshVB x := by
  obtain ⟨decl, vc, streams, ind, pad, mi, bt, subs⟩ := x
  simp only at h3
  rcases streams with _ | ⟨a, _ | ⟨b, _ | ⟨c, _ | ⟨d, t⟩⟩⟩⟩
  · show vc.toNat * 0 = vc.toNat * 0
    rfl
  · show vc.toNat * (0 + a.stride.toNat) = vc.toNat * (a.stride.toNat + 0)
    rw [Nat.add_comm]
  · show vc.toNat * (0 + a.stride.toNat + b.stride.toNat) =
      vc.toNat * (a.stride.toNat + (b.stride.toNat + 0))
    congr 1; omega
  · show vc.toNat * (0 + a.stride.toNat + b.stride.toNat + c.stride.toNat) =
      vc.toNat * (a.stride.toNat + (b.stride.toNat + (c.stride.toNat + 0)))
    congr 1; omega
  · simp at h3

/-- what the stripped mesh table says about row `j` -/
structure MeshRowFacts (b : AbstractModel) (ms : List Mesh) (j : Nat) (x : AMesh) : Prop where
  lt : j < ms.length
  sc : (meshAt ms j).vertexStreamCount.toNat = x.streams.length
  si : (meshAt ms j).submeshIndex.toNat = psum subLen (allMeshes b) j
  ic : (meshAt ms j).indexCount.toNat ≤ x.indices.length
  vb : (meshAt ms j).vertexBytes = meshVB x

theorem mesh_row_facts (b : AbstractModel)
    (hnS : ((allMeshes b).map (fun (x : AMesh) => x.submeshes.length)).sum < 65536)
    (ms : List Mesh) (hms : ms.map stripMesh = sRows 0 (allMeshes b)) (j : Nat) (x : AMesh)
    (hj : (allMeshes b)[j]? = some x) (h3 : x.streams.length ≤ 3) : MeshRowFacts b ms j x := by
  have h1 : (ms.map stripMesh)[j]? = some (sRow (0 + psum subLen (allMeshes b) j) x) := by
    rw [hms]; exact sRows_getElem? _ j 0 x hj
  rw [List.getElem?_map, Nat.zero_add] at h1
  cases hr : ms[j]? with
  | none => rw [hr] at h1; cases h1
  | some r =>
    rw [hr] at h1
    have hs : stripMesh r = sRow (psum subLen (allMeshes b) j) x := Option.some.inj h1
    have hat : meshAt ms j = r := by simp [meshAt, hr]
    have hle := psum_add_le subLen (allMeshes b) j x hj
    have hsum : ((allMeshes b).map subLen).sum =
        ((allMeshes b).map (fun (x : AMesh) => x.submeshes.length)).sum := rfl
    refine ⟨lt_of_getElem? hr, ?_, ?_, ?_, ?_⟩ <;> rw [hat]
    · rw [show r.vertexStreamCount = (sRow (psum subLen (allMeshes b) j) x).vertexStreamCount from
        (congrArg Mesh.vertexStreamCount hs :)]
      exact toUInt8_toNat _ (by omega)
    · rw [show r.submeshIndex = (sRow (psum subLen (allMeshes b) j) x).submeshIndex from
        (congrArg Mesh.submeshIndex hs :)]
      exact toUInt16_toNat _ (by omega)
    · rw [show r.indexCount = (sRow (psum subLen (allMeshes b) j) x).indexCount from
        (congrArg Mesh.indexCount hs :)]
      exact toUInt32_toNat_le _
    · rw [← vertexBytes_strip r, hs]
      exact sRow_vertexBytes _ x h3

theorem psum_succ' (f : α → Nat) (l : List α) (i : Nat) (x : α) (h : l[i]? = some x) :
    psum f l (i + 1) = psum f l i + f x := by
  simp [psum, List.take_add_one, h]

/-- the vertex bytes of the first `k` meshes of LOD `i` -/
theorem lod_vertexBytesTo (b : AbstractModel)
    (hnS : ((allMeshes b).map (fun (x : AMesh) => x.submeshes.length)).sum < 65536)
    (hs3 : ∀ x ∈ allMeshes b, x.streams.length ≤ 3)
    (ms : List Mesh) (hms : ms.map stripMesh = sRows 0 (allMeshes b)) (i : Nat) (l : ALod)
    (hl : b.lods[i]? = some l) : ∀ k, k ≤ l.meshes.length →
    vertexBytesTo ms (psum meshCountOf b.lods i) k = psum meshVB l.meshes k := by
  intro k
  induction k with
  | zero => intro _; simp [vertexBytesTo, sumTo]
  | succ k ih =>
    intro hk
    have hlt : k < l.meshes.length := by omega
    have hx : l.meshes[k]? = some l.meshes[k] := List.getElem?_eq_getElem hlt
    have hj := allMeshes_getElem? b i l hl k _ hx
    have F := mesh_row_facts b hnS ms hms _ _ hj (hs3 _ (mem_of_getElem? hj))
    rw [vertexBytesTo_succ, ih (by omega), F.vb, psum_succ' meshVB _ k _ hx]

theorem lodVB_eq_psum (l : ALod) : lodVB l = psum meshVB l.meshes l.meshes.length := by
  rw [psum_length]; rfl

/-- the first sub-mesh record of mesh `j` in the flat sub-mesh table -/
theorem firstSub_getElem? (L : List AMesh) (j : Nat) (x : AMesh) (hj : L[j]? = some x)
    (s : Submesh) (rest : List Submesh) (hx : x.submeshes = s :: rest) :
    (L.flatMap (fun (x : AMesh) => x.submeshes))[psum subLen L j]? = some s := by
  have := flatMap_getElem? (fun (x : AMesh) => x.submeshes) subLen (fun _ => rfl) L j x 0 hj
    (by simp [subLen, hx])
  rw [Nat.add_zero] at this
  rw [this, hx]
  rfl

theorem length_flatSubs (L : List AMesh) :
    (L.flatMap (fun (x : AMesh) => x.submeshes)).length =
      (L.map (fun (x : AMesh) => x.submeshes.length)).sum :=
  length_flatMap' _ _ (fun _ => rfl) _

theorem maxTo_le (f : Nat → Nat) (B : Nat) : ∀ n, (∀ k, k < n → f k ≤ B) → maxTo f n ≤ B := by
  intro n
  induction n with
  | zero => intro _; exact Nat.zero_le _
  | succ n ih =>
    intro h
    show max (maxTo f n) (f n) ≤ B
    have := ih (fun k hk => h k (by omega))
    have := h n (by omega)
    omega

theorem le_foldl_max' (l : List Nat) : ∀ n, n ≤ l.foldl max n ∧ ∀ x ∈ l, x ≤ l.foldl max n := by
  induction l with
  | nil => intro n; simp
  | cons y ys ih =>
    intro n
    obtain ⟨h1, h2⟩ := ih (max n y)
    simp only [List.foldl_cons, List.mem_cons]
    refine ⟨by omega, ?_⟩
    rintro x (rfl | hx)
    · omega
    · exact h2 x hx

theorem foldl_max_lt (B : Nat) (l : List Nat) : ∀ n, n < B → (∀ x ∈ l, x < B) →
    l.foldl max n < B := by
  induction l with
  | nil => intro n hn _; exact hn
  | cons y ys ih =>
    intro n hn h
    simp only [List.foldl_cons]
    apply ih
    · have := h y (by simp); omega
    · intro x hx; exact h x (by simp [hx])

theorem meshExt_le_lodExt (l : ALod) (x : AMesh) (hx : x ∈ l.meshes) : meshExt x ≤ lodExt l :=
  (le_foldl_max' (l.meshes.map meshExt) 0).2 _ (List.mem_map_of_mem hx)

theorem sum_le_sum_getElem? (f : α → Nat) (g : β → Nat) : ∀ (xs : List α) (ys : List β),
    xs.length = ys.length →
    (∀ (i : Nat) x y, xs[i]? = some x → ys[i]? = some y → f x ≤ g y) →
    (xs.map f).sum ≤ (ys.map g).sum := by
  intro xs
  induction xs with
  | nil => intro ys _ _; simp
  | cons x xs ih =>
    intro ys hlen h
    cases ys with
    | nil => simp at hlen
    | cons y ys =>
      simp only [List.map_cons, List.sum_cons]
      have h0 := h 0 x y rfl rfl
      have := ih ys (by simpa using hlen) (fun i x' y' hx hy => h (i + 1) x' y' (by simpa using hx)
        (by simpa using hy))
      omega

theorem length_shapeRows (b : AbstractModel) : (shapeRows b).length = b.shapes.length := by
  simp [shapeRows, length_nameOffsets]

/-- the runtime size of the record `update_headers` builds is bounded by the abstract sum -/
theorem runtimeNat_le (b : AbstractModel) (d : ModelData)
    (hmd : stripMD d = stripMD (modelData b)) (ms : List Mesh)
    (hms : ms.length = (allMeshes b).length) (ls : List MeshLod) :
    runtimeNat { d with meshes := ms, lods := ls, header := { d.header with
      shapeCount := d.shapes.length.toUInt16,
      shapeMeshCount := d.shapeMeshes.length.toUInt16,
      shapeValueCount := d.shapeValues.length.toUInt16 } } ≤ runtimeBound b := by
  have hH : stripHeader d.header = stripHeader (modelData b).header :=
    (congrArg ModelData.header hmd :)
  have a1 : d.header.stringSize = (stringTable b).length.toUInt32 :=
    (congrArg ModelHeader.stringSize hH :)
  have a2 : d.header.terrainShadowMeshCount = b.terrainShadowMeshes.length.toUInt8 :=
    (congrArg ModelHeader.terrainShadowMeshCount hH :)
  have a3 : d.header.submeshCount =
      ((allMeshes b).map (fun (x : AMesh) => x.submeshes.length)).sum.toUInt16 :=
    (congrArg ModelHeader.submeshCount hH :)
  have a4 : d.header.terrainShadowSubmeshCount = b.terrainShadowSubmeshes.length.toUInt16 :=
    (congrArg ModelHeader.terrainShadowSubmeshCount hH :)
  have a5 : d.header.boneCount = b.bones.length.toUInt16 :=
    (congrArg ModelHeader.boneCount hH :)
  have b1 : d.elementIds = b.elementIds := (congrArg ModelData.elementIds hmd :)
  have b2 : d.attributeNameOffsets = (nameOffsets (attrBase b) b.attributes).map Nat.toUInt32 :=
    (congrArg ModelData.attributeNameOffsets hmd :)
  have b3 : d.materialNameOffsets = (nameOffsets (materialBase b) b.materials).map Nat.toUInt32 :=
    (congrArg ModelData.materialNameOffsets hmd :)
  have b4 : d.boneNameOffsets = (nameOffsets (boneBase b) b.bones).map Nat.toUInt32 :=
    (congrArg ModelData.boneNameOffsets hmd :)
  have b5 : d.boneTables = if isV5 b.version then b.boneTables else [] :=
    (congrArg ModelData.boneTables hmd :)
  have b6 : d.shapes = shapeRows b := (congrArg ModelData.shapes hmd :)
  have b7 : d.shapeMeshes = b.shapeMeshes := (congrArg ModelData.shapeMeshes hmd :)
  have b8 : d.shapeValues = b.shapeValues := (congrArg ModelData.shapeValues hmd :)
  have b9 : d.submeshBoneMap = b.submeshBoneMap := (congrArg ModelData.submeshBoneMap hmd :)
  have b10 : d.paddingAmount = b.padding.length.toUInt8 := (congrArg ModelData.paddingAmount hmd :)
  have c1 := toUInt32_toNat_le (stringTable b).length
  have c2 := toUInt8_toNat_le b.terrainShadowMeshes.length
  have c3 := toUInt16_toNat_le ((allMeshes b).map (fun (x : AMesh) => x.submeshes.length)).sum
  have c4 := toUInt16_toNat_le b.terrainShadowSubmeshes.length
  have c5 := toUInt16_toNat_le b.bones.length
  have c6 := toUInt16_toNat_le b.shapes.length
  have c7 := toUInt16_toNat_le b.shapeMeshes.length
  have c8 := toUInt16_toNat_le b.shapeValues.length
  have c9 := toUInt8_toNat_le b.padding.length
  have c10 : (if isV5 b.version then b.boneTables else []).length =
      if isV5 b.version then b.boneTables.length else 0 := by
    split <;> rfl
  unfold runtimeNat runtimeBound
  dsimp only
  rw [a1, a2, a3, a4, a5, b1, b2, b3, b4, b5, b6, b7, b8, b9, b10, hms, List.length_map,
    List.length_map, List.length_map, length_nameOffsets, length_nameOffsets, length_nameOffsets,
    length_shapeRows, c10]
  clear hH a1 a2 a3 a4 a5 b1 b2 b3 b4 b5 b6 b7 b8 b9 b10 hmd hms c10
  omega

/-! ### `update_headers` returns on the record of a `Fits` state -/

theorem length_sRows (l : List AMesh) : ∀ s, (sRows s l).length = l.length := by
  induction l with
  | nil => intro _; rfl
  | cons x xs ih => intro s; simp [sRows, ih]

/-- the numbers of LOD row `i` -/
theorem lod_row_facts (b : AbstractModel) (hnM : (allMeshes b).length < 65536) (lods : List MeshLod)
    (hL : lods.map stripLod = (modelData b).lods.map stripLod) (i : Nat) (l : ALod)
    (hl : b.lods[i]? = some l) :
    ∃ row, lods[i]? = some row ∧ lodAt lods i = row ∧
      row.meshIndex.toNat = psum meshCountOf b.lods i ∧ row.meshCount.toNat = l.meshes.length ∧
      psum meshCountOf b.lods i + l.meshes.length ≤ (allMeshes b).length := by
  obtain ⟨row, hrow, hs⟩ := map_eq_getElem? hL (lods_row b i l hl)
  have hle := meshBase_le b i l hl
  refine ⟨row, hrow, by simp [lodAt, hrow], ?_, ?_, hle⟩
  · rw [show row.meshIndex = (lodRowOf b i l).meshIndex from (congrArg MeshLod.meshIndex hs :)]
    exact toUInt16_toNat _ (by omega)
  · rw [show row.meshCount = (lodRowOf b i l).meshCount from (congrArg MeshLod.meshCount hs :)]
    exact toUInt16_toNat _ (by omega)

/-- the meshes of the range of LOD row `i` -/
theorem lod_mesh_facts (b : AbstractModel) (FF : FitsFacts b) (ms : List Mesh)
    (hms : ms.map stripMesh = sRows 0 (allMeshes b)) (i : Nat) (l : ALod)
    (hl : b.lods[i]? = some l) (d : Nat) (hd : d < l.meshes.length) :
    ∃ x, l.meshes[d]? = some x ∧ x ∈ l.meshes ∧ x.streams.length ≤ 3 ∧
      (allMeshes b)[psum meshCountOf b.lods i + d]? = some x ∧
      MeshRowFacts b ms (psum meshCountOf b.lods i + d) x := by
  have hx : l.meshes[d]? = some l.meshes[d] := List.getElem?_eq_getElem hd
  have hj := allMeshes_getElem? b i l hl d _ hx
  have h3 := FF.s3 _ (mem_of_getElem? hj)
  exact ⟨_, hx, mem_of_getElem? hx, h3, hj, mesh_row_facts b FF.nSub ms hms _ _ hj h3⟩

/-- a started mesh of a LOD in use: its index extent is the abstract one (at most) -/
theorem started_indexExtent (b : AbstractModel)
    (hnS : ((allMeshes b).map (fun (x : AMesh) => x.submeshes.length)).sum < 65536)
    (out : List Mesh) (hout : out.map stripMesh = sRows 0 (allMeshes b)) (tbl : List Submesh)
    (hT : tbl = (allMeshes b).flatMap (fun (x : AMesh) => x.submeshes)) (j : Nat) (x : AMesh)
    (hj : (allMeshes b)[j]? = some x) (h3 : x.streams.length ≤ 3) (hne : x.submeshes ≠ [])
    (hst : Started tbl (meshAt out j)) : (meshAt out j).indexExtent ≤ meshExt x := by
  have F := mesh_row_facts b hnS out hout j x hj h3
  cases hx : x.submeshes with
  | nil => exact absurd hx hne
  | cons s rest =>
    have hg := firstSub_getElem? (allMeshes b) j x hj s rest hx
    unfold Started firstSub at hst
    rw [F.si, hT, hg] at hst
    have hst' : (meshAt out j).startIndex = s.indexOffset := hst
    have hic := F.ic
    unfold Mesh.indexExtent
    simp only [meshExt, hx]
    rw [hst']
    omega

theorem lodExt_lt (l : ALod) (h : ∀ x ∈ l.meshes, meshExt x < 4294967280) :
    lodExt l < 4294967280 := by
  apply foldl_max_lt _ _ 0 (by omega)
  intro y hy
  obtain ⟨x, hx, rfl⟩ := List.mem_map.mp hy
  exact h x hx

/-- `update_headers` returns on every record whose stripped tables are those of a `Fits` state -/
theorem updateHeaders_returns (b : AbstractModel) (m : MDL) (h3 : b.lods.length = 3)
    (hmd : stripMD m.modelData = stripMD (modelData b))
    (hfh : stripFH m.fileHeader = stripFH (fileHeader b))
    (hpe : m.lods.length = min b.lodCount.toNat 3)
    (hfit : Fits b = true) : ∃ m', updateHeaders m = .ok m' := by
  have FF := fits_facts b hfit
  have hlc : m.lods.length = b.lodCount.toNat := by have := FF.lc3; omega
  have hpl : m.lods.length ≤ 3 := by have := FF.lc3; omega
  have hnM := FF.nMesh
  have hnS := FF.nSub
  have hL : m.modelData.lods.map stripLod = (modelData b).lods.map stripLod :=
    (congrArg ModelData.lods hmd :)
  have hM : m.modelData.meshes.map stripMesh = sRows 0 (allMeshes b) :=
    ((congrArg ModelData.meshes hmd :) :
      m.modelData.meshes.map stripMesh = (allMeshRows 0 b.lods).map stripMesh).trans
      (strip_allMeshRows b.lods 0 FF.s3)
  have hT : m.modelData.submeshes = (allMeshes b).flatMap (fun (x : AMesh) => x.submeshes) :=
    (congrArg ModelData.submeshes hmd :)
  have hTlen := length_flatSubs (allMeshes b)
  rw [← hT] at hTlen
  have hvdc : m.fileHeader.vertexDeclarationCount = (allMeshes b).length.toUInt16 :=
    (congrArg FileHeader.vertexDeclarationCount hfh :)
  have hlen3 : m.modelData.lods.length = 3 := by
    have := congrArg List.length hL
    rw [List.length_map, List.length_map] at this
    rw [this]
    show (lodRows 0 _ b.lods).length = 3
    rw [length_lodRows, h3]
  have hget : ∀ i, i < 3 → b.lods[i]? = some b.lods[i]! := by
    intro i hi
    rw [getElem!_pos b.lods i (by omega)]
    exact List.getElem?_eq_getElem (by omega)
  -- every row of the LOD table against a mesh table with the stripped rows of `b`
  have rows : ∀ (ms : List Mesh), ms.map stripMesh = sRows 0 (allMeshes b) →
      ∀ i l, b.lods[i]? = some l → ∃ row, m.modelData.lods[i]? = some row ∧
        lodAt m.modelData.lods i = row ∧
        row.meshIndex.toNat = psum meshCountOf b.lods i ∧ row.meshCount.toNat = l.meshes.length ∧
        row.meshIndex.toNat + row.meshCount.toNat < 65536 ∧
        (∀ d, d < row.meshCount.toNat → row.meshIndex.toNat + d < ms.length ∧
          (meshAt ms (row.meshIndex.toNat + d)).vertexStreamCount.toNat ≤ 3) ∧
        vertexBytesTo ms row.meshIndex.toNat row.meshCount.toNat = lodVB l ∧
        lodVB l + lodIB l ≤ (b.lods.map (fun l => lodVB l + lodIB l)).sum := by
    intro ms hms i l hl
    obtain ⟨row, hrow, hat, hmi, hmc, hle⟩ := lod_row_facts b hnM _ hL i l hl
    refine ⟨row, hrow, hat, hmi, hmc, by omega, ?_, ?_, ?_⟩
    · intro d hd
      rw [hmc] at hd
      obtain ⟨x, _, _, hx3, _, F⟩ := lod_mesh_facts b FF ms hms i l hl d hd
      rw [hmi]
      exact ⟨F.lt, by rw [F.sc]; exact hx3⟩
    · rw [hmi, hmc, lod_vertexBytesTo b hnS FF.s3 ms hms i l hl _ (Nat.le_refl _), lodVB_eq_psum]
    · have := psum_add_le (fun l => lodVB l + lodIB l) b.lods i l hl
      omega
  have htot := FF.total
  -- first loop
  have hn3 : m.lods.length ≤ 3 := by rw [hlc]; exact FF.lc3
  obtain ⟨out, hout⟩ := updateMeshOffsets_ok m.modelData m.lods.length
    (by rw [hlen3]; exact hn3)
    (fun i hi => by
      obtain ⟨row, _, hat, _, _, h16, _⟩ := rows _ hM i _ (hget i (by omega))
      rw [hat]; exact h16)
    (fun i hi d hd => by
      obtain ⟨row, _, hat, hmi, hmc, _, hr, _⟩ := rows _ hM i _ (hget i (by omega))
      rw [hat] at hd ⊢
      refine ⟨(hr d hd).1, ?_, (hr d hd).2⟩
      rw [hmc] at hd
      obtain ⟨x, _, hxm, hx3, hj, F⟩ := lod_mesh_facts b FF _ hM i _ (hget i (by omega)) d hd
      obtain ⟨hne, _⟩ := FF.used i _ (hget i (by omega)) (by rw [← hlc]; exact hi) x hxm
      rw [hmi, F.si]
      cases hx : x.submeshes with
      | nil => exact absurd hx hne
      | cons s rest =>
        have hg := firstSub_getElem? (allMeshes b) _ x hj s rest hx
        rw [← hT] at hg
        exact lt_of_getElem? hg)
    (fun i hi => by
      obtain ⟨row, _, hat, _, _, _, _, hvb, hle⟩ := rows _ hM i _ (hget i (by omega))
      rw [hat, hvb]; omega)
  obtain ⟨hstrip, hstarted⟩ := updateMeshOffsets_strip hout
  have hout' : out.map stripMesh = sRows 0 (allMeshes b) := hstrip.trans hM
  -- the mesh ranges of the LODs in use are disjoint
  have hRD : RangesDisjoint m.modelData.lods m.lods.length := by
    intro i hi k hk
    obtain ⟨ri, _, hati, hmii, _, _⟩ := lod_row_facts b hnM _ hL i _ (hget i (by omega))
    obtain ⟨rk, _, hatk, hmik, hmck, _⟩ := lod_row_facts b hnM _ hL k _ (hget k (by omega))
    rw [hati, hatk]
    have := psum_le_of_lt meshCountOf b.lods k i _ (hget k (by omega)) hk
    unfold meshCountOf at this
    right; right; left
    rw [hmik, hmck, hmii]
    exact this
  have hstarted := hstarted hRD
  -- the index extents of the meshes of a row
  have exts : ∀ i l, b.lods[i]? = some l → ∀ row, lodAt m.modelData.lods i = row →
      row.meshIndex.toNat = psum meshCountOf b.lods i → row.meshCount.toNat = l.meshes.length →
      lodExt l < 4294967280 ∧ ∀ d, d < row.meshCount.toNat →
        (meshAt out (row.meshIndex.toNat + d)).indexExtent ≤ lodExt l := by
    intro i l hl row hat hmi hmc
    by_cases hi : i < b.lodCount.toNat
    · refine ⟨lodExt_lt l (fun x hx => (FF.used i l hl hi x hx).2), ?_⟩
      intro d hd
      have hst := hstarted i (by rw [hlc]; exact hi) d (by rw [hat]; exact hd)
      rw [hat] at hst
      rw [hmc] at hd
      obtain ⟨x, _, hxm, hx3, hj, _⟩ := lod_mesh_facts b FF out hout' i l hl d hd
      rw [hmi] at hst ⊢
      exact Nat.le_trans
        (started_indexExtent b hnS out hout' _ hT _ x hj hx3 (FF.used i l hl hi x hxm).1 hst)
        (meshExt_le_lodExt l x hxm)
    · have he := FF.unused i l hl (by omega)
      refine ⟨lodExt_lt l (fun x hx => by rw [he] at hx; simp at hx), ?_⟩
      intro d hd
      rw [hmc, he] at hd
      simp at hd
  -- second loop
  have hmap : Returns (m.modelData.lods.mapM (updateLodSizes out)) := by
    apply mapM_returns
    intro row hrow
    obtain ⟨i, hi⟩ := List.getElem?_of_mem hrow
    have hi3 : i < 3 := by rw [← hlen3]; exact lt_of_getElem? hi
    obtain ⟨row', hrow', hat, hmi, hmc, h16, hr, hvb, hle⟩ := rows out hout' i _ (hget i hi3)
    rw [hi] at hrow'
    cases hrow'
    obtain ⟨hlt, hext⟩ := exts i _ (hget i hi3) row hat hmi hmc
    exact updateLodSizes_ok out row h16 hr (by rw [hvb]; omega)
      (fun d hd => by have := hext d hd; omega)
  obtain ⟨lods1, hlods1⟩ := hmap
  obtain ⟨hlen1, hrow1⟩ := mapM_inv _ _ _ hlods1
  -- the sizes of the new rows
  have hsizes : (lods1.map (fun r => r.vertexBufferSize.toNat + r.indexBufferSize.toNat)).sum ≤
      (b.lods.map (fun l => lodVB l + lodIB l)).sum := by
    apply sum_le_sum_getElem?
    · rw [hlen1, hlen3, h3]
    · intro i l' l hl' hl
      obtain ⟨row, hrow, hu⟩ := hrow1 i l' hl'
      obtain ⟨row', hrow', hat, hmi, hmc, h16, hr, hvb, hle⟩ := rows out hout' i l hl
      rw [hrow] at hrow'
      cases hrow'
      obtain ⟨hlt, hext⟩ := exts i l hl row hat hmi hmc
      obtain ⟨hok, tv, ib, e0⟩ := updateLodSizes_inv hu
      have e1 : l'.meshIndex = row.meshIndex := by rw [e0]
      have e2 : l'.meshCount = row.meshCount := by rw [e0]
      have hv := hok.vertexSize
      have hi := hok.indexSize
      rw [e1, e2] at hv hi
      rw [hvb] at hv
      have hE : indexExtentTo out row.meshIndex.toNat row.meshCount.toNat ≤ lodExt l :=
        maxTo_le _ _ _ hext
      unfold lodIB
      omega
  -- stack and runtime sizes
  obtain ⟨stack, hstack⟩ := calculateStackSize_ok m.fileHeader
  have hsn := calculateStackSize_inv hstack
  rw [hvdc, toUInt16_toNat _ hnM] at hsn
  have hrb := runtimeNat_le b m.modelData hmd out
    (by rw [← length_sRows (allMeshes b) 0, ← hout', List.length_map]) lods1
  obtain ⟨runtime, hrt, hrn⟩ := calculateRuntimeSize_ok _ (Nat.lt_of_le_of_lt hrb (by omega))
  rw [← hrn] at hrb
  have h68 : (68 : UInt32).toNat = 68 := rfl
  have hd0 : runtime.toNat + (68 : UInt32).toNat < 4294967296 := by rw [h68]; omega
  have ed0 := toNat_add32 _ _ hd0
  have hdo : (runtime + 68).toNat + stack.toNat < 4294967296 := by rw [ed0, h68]; omega
  have edo := toNat_add32 _ _ hdo
  obtain ⟨lods2, hlods2⟩ := assignOffsets_ok (runtime + 68 + stack) lods1 0 (by
    rw [edo, ed0, h68, show (0 : UInt32).toNat = 0 from rfl]; omega)
  obtain ⟨_, hlen2, _⟩ := assignOffsets_inv _ _ _ _ hlods2
  have hl2 : m.lods.length ≤ lods2.length := by rw [hlen2, hlen1, hlen3]; exact hpl
  -- assemble
  unfold updateHeaders
  refine Returns.bind _ hout ?_
  refine Returns.bind _ hlods1 ?_
  refine Returns.bind _ hstack ?_
  refine Returns.bind _ hrt ?_
  refine Returns.bind _ (addU32_ok _ _ hd0) ?_
  refine Returns.bind _ (addU32_ok _ _ hdo) ?_
  refine Returns.bind _ hlods2 ?_
  refine Returns.bind' (copy3_ok _ _ _ hpl (by rw [List.length_map]; exact hl2)) (fun vbs => ?_)
  refine Returns.bind' (copy3_ok _ _ _ hpl (by rw [List.length_map]; exact hl2)) (fun vo => ?_)
  refine Returns.bind' (copy3_ok _ _ _ hpl (by rw [List.length_map]; exact hl2)) (fun ibs => ?_)
  refine Returns.bind' (copy3_ok _ _ _ hpl (by rw [List.length_map]; exact hl2)) (fun io => ?_)
  exact ⟨_, rfl⟩

/-! ### the steps of the edit calls before `update_headers` -/

theorem rep_parts_le {a : AbstractModel} {m : MDL} (hrep : Rep a m) (h3 : a.lods.length = 3) :
    m.lods.length ≤ 3 := by
  have := congrArg List.length hrep.parts
  rw [List.length_map, length_specKeys] at this
  omega

theorem rep_parts_min {a : AbstractModel} {m : MDL} (hrep : Rep a m) (h3 : a.lods.length = 3) :
    m.lods.length = min a.lodCount.toNat 3 := by
  have := congrArg List.length hrep.parts
  rw [List.length_map, length_specKeys] at this
  omega

/-- the part an edit addresses, with its key -/
theorem rep_part {a : AbstractModel} {m : MDL} (hrep : Rep a m) {lod part : Nat} {l : ALod}
    {mesh : AMesh} (hl : a.lods[lod]? = some l) (hmesh : l.meshes[part]? = some mesh)
    (hlc : lod < a.lodCount.toNat) :
    ∃ parts P, m.lods[lod]? = some parts ∧ parts[part]? = some P ∧
      partKey P = keyOf (psum meshCountOf a.lods lod + part)
        (psum lodSubCount a.lods lod + psum subLen l.meshes part) mesh := by
  have h1 := specKeys_getElem? a.lods lod a.lodCount.toNat 0 0 l hl hlc
  rw [← hrep.parts, List.getElem?_map] at h1
  cases hparts : m.lods[lod]? with
  | none => rw [hparts] at h1; cases h1
  | some parts =>
    rw [hparts] at h1
    have hk1 : parts.map partKey = specKeysLod (0 + psum meshCountOf a.lods lod)
        (0 + psum lodSubCount a.lods lod) l.meshes := Option.some.inj h1
    have h2 := specKeysLod_getElem? l.meshes part (0 + psum meshCountOf a.lods lod)
      (0 + psum lodSubCount a.lods lod) mesh hmesh
    rw [← hk1, List.getElem?_map] at h2
    cases hP : parts[part]? with
    | none => rw [hP] at h2; cases h2
    | some P =>
      rw [hP] at h2
      have hk2 := Option.some.inj h2
      simp only [Nat.zero_add] at hk2
      exact ⟨parts, P, rfl, hP, hk2⟩

/-- the in-memory row of a mesh -/
theorem rep_row {a : AbstractModel} {m : MDL} (hrep : Rep a m)
    (hs3 : ∀ x ∈ allMeshes a, x.streams.length ≤ 3) {j : Nat} {mesh : AMesh}
    (hj : (allMeshes a)[j]? = some mesh) :
    ∃ row, m.modelData.meshes[j]? = some row ∧
      stripMesh row = sRow (0 + psum subLen (allMeshes a) j) mesh := by
  have hM : m.modelData.meshes.map stripMesh = sRows 0 (allMeshes a) :=
    (congrArg ModelData.meshes hrep.md).trans (strip_allMeshRows a.lods 0 hs3)
  have h1 := sRows_getElem? _ _ 0 mesh hj
  rw [← hM, List.getElem?_map] at h1
  cases hr : m.modelData.meshes[j]? with
  | none => rw [hr] at h1; cases h1
  | some row => rw [hr] at h1; exact ⟨row, rfl, Option.some.inj h1⟩

theorem removeShapes_returns (a : AbstractModel) (m : MDL) (h3 : a.lods.length = 3)
    (hrep : Rep a m)
    (hfit : Fits { a with shapeMeshes := [], shapeValues := [],
                          shapes := a.shapes.map clearA } = true) :
    ∃ m1, removeShapeMeshes m = .ok m1 := by
  unfold removeShapeMeshes
  refine updateHeaders_returns _ _ ?_ ?_ ?_ ?_ hfit
  · exact h3
  rotate_right
  · show m.lods.length = min a.lodCount.toNat 3
    exact rep_parts_min hrep h3
  · have hsh : m.modelData.shapes = shapeRows a := congrArg ModelData.shapes hrep.md
    show ({ stripMD m.modelData with
      shapeMeshes := [], shapeValues := [], shapes := m.modelData.shapes.map clearS } : ModelData) = _
    rw [hsh, hrep.md]
    exact (stripMD_clear a (dataStart a) _).symm
  · refine hrep.fh.trans ?_
    rw [stripFH_fileHeader, stripFH_fileHeader]
    rfl

/-- the sub-mesh loop of `replace_vertices` returns when every view points into the table -/
theorem subsFold_ok (subs : List (UInt32 × UInt32))
    (f : List Submesh → Nat × SubMeshView → R (List Submesh))
    (hf : ∀ tbl i sv, f tbl (i, sv) = match subs[i]? with
      | some (off, cnt) => setAt tbl sv.submeshIndex (fun s => { s with indexOffset := off, indexCount := cnt })
      | none => pure tbl) :
    ∀ (l : List (Nat × SubMeshView)) (tbl : List Submesh),
      (∀ p ∈ l, p.2.submeshIndex < tbl.length) → Returns (l.foldlM f tbl) := by
  intro l
  induction l with
  | nil => intro tbl _; exact ⟨tbl, rfl⟩
  | cons p rest ih =>
    intro tbl h
    obtain ⟨i, sv⟩ := p
    rw [List.foldlM_cons]
    have hlt : sv.submeshIndex < tbl.length := h (i, sv) (by simp)
    have hget : tbl[sv.submeshIndex]? = some tbl[sv.submeshIndex] := List.getElem?_eq_getElem hlt
    cases hsub : subs[i]? with
    | none =>
      refine Returns.bind tbl (by rw [hf, hsub]; rfl) ?_
      exact ih tbl (fun p hp => h p (by simp [hp]))
    | some oc =>
      obtain ⟨off, cnt⟩ := oc
      refine Returns.bind _ (by rw [hf, hsub]; exact setAt_ok _ hget) ?_
      exact ih _ (fun p hp => by rw [List.length_set]; exact h p (by simp [hp]))

theorem length_updSubs' (ss : List Submesh) : ∀ subs, (updSubs ss subs).length = ss.length := by
  induction ss with
  | nil => intro subs; cases subs <;> rfl
  | cons s ss ih =>
    intro subs
    cases subs with
    | nil => rfl
    | cons p rest => obtain ⟨o, c⟩ := p; simp [updSubs, ih]

theorem replace_returns (a : AbstractModel) (m : MDL) (lod part : Nat)
    (vc : UInt16) (streams : List AStream) (indices : List UInt16) (subs : List (UInt32 × UInt32))
    (l : ALod) (mesh : AMesh) (hl : a.lods[lod]? = some l) (hmesh : l.meshes[part]? = some mesh)
    (hlc : lod < a.lodCount.toNat)
    (hstr : streams.map (·.stride) = mesh.streams.map (·.stride))
    (hs : Small a) (h3 : a.lods.length = 3) (hrep : Rep a m)
    (hfit : Fits (replModel a lod l part (replMesh mesh vc streams indices subs)) = true) :
    ∃ m1, replaceVertices m lod part
      (verticesOf { mesh with vertexCount := vc, streams := streams }) indices subs = .ok m1 := by
  obtain ⟨hnM, hnS, hs3⟩ := hs
  -- abstract side
  have hj := allMeshes_getElem? a lod l hl part mesh hmesh
  have hjlt := lt_of_getElem? hj
  have hpart : part < l.meshes.length := lt_of_getElem? hmesh
  have hsub' : (replMesh mesh vc streams indices subs).submeshes.length = mesh.submeshes.length :=
    length_updSubs' _ _
  have hstrl : streams.length = mesh.streams.length := by
    simpa using congrArg List.length hstr
  have hflat : (a.lods.set lod (replLod l part (replMesh mesh vc streams indices subs))).flatMap
      (·.meshes) =
      (allMeshes a).set (psum meshCountOf a.lods lod + part) (replMesh mesh vc streams indices subs) :=
    flat_set a.lods lod l part _ hl hpart
  have hlen : ((allMeshes a).set (psum meshCountOf a.lods lod + part)
      (replMesh mesh vc streams indices subs)).length = (allMeshes a).length := List.length_set
  have hsum := congrArg List.sum (map_set_same' (fun (x : AMesh) => x.submeshes.length) hj hsub')
  have hdecl := map_set_same' (fun (x : AMesh) => x.decl) (x' := replMesh mesh vc streams indices subs)
    hj rfl
  have hs3' : ∀ x ∈ (allMeshes a).set (psum meshCountOf a.lods lod + part)
      (replMesh mesh vc streams indices subs), x.streams.length ≤ 3 := by
    intro x hx
    rcases List.mem_or_eq_of_mem_set hx with h | rfl
    · exact hs3 x h
    · have := hs3 mesh (mem_of_getElem? hj)
      show streams.length ≤ 3
      omega
  -- the part
  obtain ⟨parts, P, hparts, hP, hk2⟩ := rep_part hrep hl hmesh hlc
  have hmi : P.meshIndex = (psum meshCountOf a.lods lod + part).toUInt16 := (congrArg (·.1) hk2 :)
  have hsi : P.submeshes.map (·.submeshIndex) = (List.range mesh.submeshes.length).map
      (psum lodSubCount a.lods lod + psum subLen l.meshes part + ·) := (congrArg (·.2.2.2) hk2 :)
  have hPj : P.meshIndex.toNat = psum meshCountOf a.lods lod + part := by
    rw [hmi, toUInt16_toNat _ (by omega)]
  -- the sub-mesh table
  have hT : m.modelData.submeshes = (allMeshes a).flatMap (fun (x : AMesh) => x.submeshes) :=
    congrArg ModelData.submeshes hrep.md
  obtain ⟨pre, post, hsplit, hsplit', hprelen⟩ :=
    subTable_split (allMeshes a) (psum meshCountOf a.lods lod + part) mesh hj
  have hpre : pre.length = psum lodSubCount a.lods lod + psum subLen l.meshes part := by
    rw [hprelen]; exact psum_flat a.lods lod l part hl (Nat.le_of_lt hpart)
  have hlenP : P.submeshes.length = mesh.submeshes.length := by
    simpa using congrArg List.length hsi
  have hidxP : ∀ i sv, P.submeshes[i]? = some sv → sv.submeshIndex = pre.length + i := by
    intro i sv hi
    have h1 : (P.submeshes.map (·.submeshIndex))[i]? = some sv.submeshIndex := by
      rw [List.getElem?_map, hi]; rfl
    have hi' : i < mesh.submeshes.length := by have := lt_of_getElem? hi; omega
    rw [hsi, List.getElem?_map, List.getElem?_range hi'] at h1
    rw [hpre]
    exact (Option.some.inj h1).symm
  -- the mesh row
  obtain ⟨row, hrow, hrowS⟩ := rep_row hrep hs3 hj
  have hM : m.modelData.meshes.map stripMesh = sRows 0 (allMeshes a) :=
    (congrArg ModelData.meshes hrep.md).trans (strip_allMeshRows a.lods 0 hs3)
  have hvl : (verticesOf { mesh with vertexCount := vc, streams := streams }).length.toUInt16 = vc := by
    rw [length_verticesOf']; simp
  have hlk : (a.lods.set lod (replLod l part (replMesh mesh vc streams indices subs))).map lodKey =
      a.lods.map lodKey :=
    map_set_same' lodKey hl (by simp [lodKey, replLod])
  -- the call
  unfold replaceVertices
  refine Returns.bind _ (idx_ok hparts) ?_
  refine Returns.bind _ (idx_ok hP) ?_
  refine Returns.bind'' ?_ (fun tbl htbl => ?_)
  · refine subsFold_ok subs _ (fun _ _ _ => rfl) _ _ ?_
    intro p hp
    obtain ⟨i, sv⟩ := p
    have hsv := (List.of_mem_zip hp).2
    obtain ⟨k, hk⟩ := List.getElem?_of_mem hsv
    have hk' := lt_of_getElem? hk
    rw [hidxP k sv hk, hT, hsplit]
    simp only [List.length_append]
    omega
  rw [hPj]
  refine Returns.bind _ (setAt_ok _ hrow) ?_
  -- the tables of the record passed to `update_headers`
  unfold zipIdx' at htbl
  rw [hT, hsplit, List.range_eq_range'] at htbl
  have htbl' := subsFold subs _ (fun _ _ _ => rfl) mesh.submeshes P.submeshes 0 pre post tbl hlenP
    hidxP htbl
  rw [List.drop_zero] at htbl'
  have htbl'' : tbl = ((allMeshes a).set (psum meshCountOf a.lods lod + part)
      (replMesh mesh vc streams indices subs)).flatMap (fun (x : AMesh) => x.submeshes) := by
    rw [hsplit' (replMesh mesh vc streams indices subs)]; exact htbl'
  have hrowsS : (m.modelData.meshes.set (psum meshCountOf a.lods lod + part)
      { row with
        vertexCount :=
          (verticesOf { mesh with vertexCount := vc, streams := streams }).length.toUInt16
        indexCount := indices.length.toUInt32 }).map stripMesh =
      sRows 0 ((allMeshes a).set (psum meshCountOf a.lods lod + part)
        (replMesh mesh vc streams indices subs)) := by
    rw [List.map_set, hM, sRows_set _ _ 0 mesh _ hj hsub']
    congr 1
    show ({ stripMesh row with
      vertexCount := (verticesOf { mesh with vertexCount := vc, streams := streams }).length.toUInt16,
      indexCount := indices.length.toUInt32 } : Mesh) = _
    rw [hrowS, hvl]
    simp only [sRow, replMesh, hstr, hstrl, length_updSubs']
  refine updateHeaders_returns _ _ ?_ ?_ ?_ ?_ hfit
  · show (a.lods.set lod _).length = 3
    rw [List.length_set]; exact h3
  rotate_right
  · show (m.lods.set lod _).length = min a.lodCount.toNat 3
    rw [List.length_set]; exact rep_parts_min hrep h3
  · show ({ stripMD m.modelData with submeshes := tbl, meshes := _ } : ModelData) =
      stripMD (modelDataAt (replModel a lod l part (replMesh mesh vc streams indices subs)) _)
    rw [hrep.md, hrowsS, htbl'']
    unfold replModel
    rw [stripMD_set_lods a _ (dataStart a) _ (by rw [hflat]; exact hdecl) (by rw [hflat]; exact hlen)
      (by rw [hflat]; exact hsum) (strip_lodRows a.lods _ 0 _ _ hlk),
      strip_allMeshRows _ 0 (by rw [hflat]; exact hs3'), hflat]
    rfl
  · refine hrep.fh.trans ?_
    rw [stripFH_fileHeader, stripFH_fileHeader, allMeshes_repl, hflat, hlen]
    rfl

/-- the value loop of `add_shape_mesh` returns when no shape value leaves `u16` -/
theorem shapeFold_ok (st : UInt16)
    (f : List Vertex × List ShapeValue → UInt32 × Vertex → R (List Vertex × List ShapeValue))
    (hf : ∀ acc b v, f acc (b, v) = (do
      let bi ← addU16 st b.toUInt16
      let ri ← addU16 st ((acc.1 ++ [v]).length - 1).toUInt16
      pure (acc.1 ++ [v], acc.2 ++ [{ baseIndicesIndex := bi, replacingVertexIndex := ri }]))) :
    ∀ (vals : List (UInt32 × Vertex)) (v0 : List Vertex) (s0 : List ShapeValue),
      (∀ p ∈ vals, st.toNat + p.1.toNat < 65536) →
      st.toNat + v0.length + vals.length ≤ 65536 →
      Returns (vals.foldlM f (v0, s0)) := by
  intro vals
  induction vals with
  | nil => intro v0 s0 _ _; exact ⟨_, rfl⟩
  | cons x rest ih =>
    intro v0 s0 hb hlen
    obtain ⟨b, v⟩ := x
    rw [List.foldlM_cons, hf]
    dsimp only
    have h1 : b.toUInt16.toNat ≤ b.toNat := by
      rw [UInt32.toNat_toUInt16]; exact Nat.mod_le _ _
    have h2 : st.toNat + b.toNat < 65536 := hb (b, v) (by simp)
    simp only [List.length_cons] at hlen
    have h3 : ((v0 ++ [v]).length - 1).toUInt16.toNat ≤ v0.length := by
      simp only [List.length_append, List.length_cons, List.length_nil, Nat.zero_add,
        Nat.add_sub_cancel]
      exact toUInt16_toNat_le _
    refine Returns.bind (v0 ++ [v],
        s0 ++ [⟨st + b.toUInt16, st + ((v0 ++ [v]).length - 1).toUInt16⟩]) ?_
      (ih (v0 ++ [v]) _ (fun p hp => hb p (by simp [hp])) (by
        simp only [List.length_append, List.length_cons, List.length_nil]; omega))
    refine bind_eq_ok (addU16_ok _ _ (by omega)) ?_
    refine bind_eq_ok (addU16_ok _ _ (by omega)) ?_
    rfl

theorem addTail_returns (a : AbstractModel) (m : MDL) (lod shape smi part : Nat)
    (bases : List UInt32) (streams : List AStream) (l : ALod) (mesh : AMesh) (sh : AShape)
    (c : UInt16) (parts : List Part) (P : Part) (shapes : List ShapeStruct)
    (hl : a.lods[lod]? = some l) (hmesh : l.meshes[part]? = some mesh)
    (hsh : a.shapes[shape]? = some sh) (hcnt : sh.shapeMeshCount.get? lod = some c)
    (hlc : lod < a.lodCount.toNat)
    (hstr : streams.map (·.stride) = mesh.streams.map (·.stride))
    (hvc : mesh.vertexCount.toNat + bases.length < 65536)
    (hsub : ∃ s rest, mesh.submeshes = s :: rest ∧ s.indexOffset = (meshStart l part).toUInt32)
    (hg1 : meshStart l part + mesh.vertexCount.toNat + bases.length ≤ 65536)
    (hg2 : ∀ b ∈ bases, meshStart l part + b.toNat < 65536)
    (hc1 : c.toNat + 1 < 65536)
    (hs : Small a) (h3 : a.lods.length = 3) (hrep : Rep a m) (hst : StartsFromSubmesh m)
    (hfit : Fits (addModel a lod l part (appMesh mesh bases.length streams)
        (a.shapes.set shape (addShapeRec a lod smi sh c))
        (a.shapeMeshes ++ [⟨(meshStart l part).toUInt32, bases.length.toUInt32,
          a.shapeValues.length.toUInt32⟩])
        (a.shapeValues ++ addVals (meshStart l part).toUInt32 mesh.vertexCount.toNat bases)) = true)
    (hk2 : partKey P = keyOf (psum meshCountOf a.lods lod + part)
      (psum lodSubCount a.lods lod + psum subLen l.meshes part) mesh)
    (hshapes : ∀ row, m.modelData.shapes[shape]? = some row →
      shapes = m.modelData.shapes.set shape
        { row with
          shapeMeshStartIndex :=
            if smi == 0 then row.shapeMeshStartIndex.set lod m.modelData.shapeMeshes.length.toUInt16
            else row.shapeMeshStartIndex }) :
    Returns (addTail m lod shape part
      (List.zip bases
        (verticesOf { mesh with vertexCount := bases.length.toUInt16, streams := streams }))
      parts P shapes) := by
  obtain ⟨hnM, hnS, hs3⟩ := hs
  -- abstract side
  have hj := allMeshes_getElem? a lod l hl part mesh hmesh
  have hjlt := lt_of_getElem? hj
  have hpart : part < l.meshes.length := lt_of_getElem? hmesh
  have hlod3 : ¬ lod ≥ 3 := by have := lt_of_getElem? hl; omega
  obtain ⟨hzs, hzl⟩ := zipStreams_facts mesh.streams streams hstr
  have hsub' : (appMesh mesh bases.length streams).submeshes.length = mesh.submeshes.length := rfl
  have hx3 : (appMesh mesh bases.length streams).streams.length ≤ 3 := by
    show (List.zipWith _ mesh.streams streams).length ≤ 3
    rw [hzl]
    exact hs3 mesh (mem_of_getElem? hj)
  have hflat : (a.lods.set lod (replLod l part (appMesh mesh bases.length streams))).flatMap
      (·.meshes) =
      (allMeshes a).set (psum meshCountOf a.lods lod + part) (appMesh mesh bases.length streams) :=
    flat_set a.lods lod l part _ hl hpart
  have hlen : ((allMeshes a).set (psum meshCountOf a.lods lod + part)
      (appMesh mesh bases.length streams)).length = (allMeshes a).length := List.length_set
  -- the part
  have hmi : P.meshIndex = (psum meshCountOf a.lods lod + part).toUInt16 := (congrArg (·.1) hk2 :)
  have hPv : P.vertices = verticesOf mesh := (congrArg (·.2.1) hk2 :)
  have hPj : P.meshIndex.toNat = psum meshCountOf a.lods lod + part := by
    rw [hmi, toUInt16_toNat _ (by omega)]
  -- the mesh row
  obtain ⟨row, hrow0, hrowS⟩ := rep_row hrep hs3 hj
  have hM : m.modelData.meshes.map stripMesh = sRows 0 (allMeshes a) :=
    (congrArg ModelData.meshes hrep.md).trans (strip_allMeshRows a.lods 0 hs3)
  -- the start index of the mesh
  have hsbase : psum subLen (allMeshes a) (psum meshCountOf a.lods lod + part) =
      subBase a lod l part := psum_flat a.lods lod l part hl (Nat.le_of_lt hpart)
  have hsle := subBase_le a lod l hl part mesh hmesh
  have hrsi : row.submeshIndex.toNat = subBase a lod l part := by
    rw [show row.submeshIndex =
      (0 + psum subLen (allMeshes a) (psum meshCountOf a.lods lod + part)).toUInt16 from
      (congrArg Mesh.submeshIndex hrowS :), Nat.zero_add, hsbase]
    exact toUInt16_toNat _ (by omega)
  have hlcE : lod < m.lods.length := hrep.lod_lt hl hlc
  obtain ⟨lrow, hlrow, hsr⟩ := rep_lod_row hrep hl
  have hmle := meshBase_le a lod l hl
  have e1 : lodAt m.modelData.lods lod = lrow := by simp [lodAt, hlrow]
  have e2 : lrow.meshIndex.toNat = psum meshCountOf a.lods lod := by
    rw [show lrow.meshIndex = (lodRowOf a lod l).meshIndex from (congrArg MeshLod.meshIndex hsr :)]
    exact toUInt16_toNat _ (by omega)
  have e3 : lrow.meshCount.toNat = l.meshes.length := by
    rw [show lrow.meshCount = (lodRowOf a lod l).meshCount from (congrArg MeshLod.meshCount hsr :)]
    exact toUInt16_toNat _ (by omega)
  have hma : meshAt m.modelData.meshes (psum meshCountOf a.lods lod + part) = row := by
    simp [meshAt, hrow0]
  have hstart : row.startIndex = (meshStart l part).toUInt32 := by
    have h1 := hst lod hlcE part (by rw [e1, e3]; exact hpart)
    rw [e1, e2, hma] at h1
    obtain ⟨s, rest, hs1, hs2⟩ := hsub
    have hget := submeshes_getElem? a lod l hl part mesh hmesh 0 (by rw [hs1]; simp)
    rw [Nat.add_zero, hs1] at hget
    simp only [List.getElem?_cons_zero] at hget
    have hsubs : m.modelData.submeshes = (modelData a).submeshes :=
      (congrArg ModelData.submeshes hrep.md :)
    rw [h1]
    simp only [firstSub, hsubs, hrsi, hget, Option.getD_some]
    exact hs2
  have hvsl :
      (verticesOf { mesh with vertexCount := bases.length.toUInt16, streams := streams }).length =
        bases.length := by
    rw [length_verticesOf']; exact toUInt16_toNat _ (by omega)
  have hSV : m.modelData.shapeValues = a.shapeValues := (congrArg ModelData.shapeValues hrep.md :)
  have hSM : m.modelData.shapeMeshes = a.shapeMeshes := (congrArg ModelData.shapeMeshes hrep.md :)
  have hSh : m.modelData.shapes = shapeRows a := (congrArg ModelData.shapes hrep.md :)
  -- the shape row
  have hshape : shape < (shapeRows a).length := by
    rw [length_shapeRows]; exact lt_of_getElem? hsh
  have hrowSh : (shapeRows a)[shape]? = some (shapeRows a)[shape] := List.getElem?_eq_getElem hshape
  generalize (shapeRows a)[shape] = rowS at hrowSh
  obtain ⟨o, ho, hy⟩ := shapeRows_getElem? a shape sh rowS hsh hrowSh
  have hshapes' := hshapes rowS (by rw [hSh]; exact hrowSh)
  rw [hSh, hSM] at hshapes'
  have hshc : shapes[shape]? = some
      { rowS with
        shapeMeshStartIndex :=
          if smi == 0 then rowS.shapeMeshStartIndex.set lod a.shapeMeshes.length.toUInt16
          else rowS.shapeMeshStartIndex } := by
    rw [hshapes', List.getElem?_set, if_pos rfl, if_pos hshape]
  have hcc : ({ rowS with
      shapeMeshStartIndex :=
        if smi == 0 then rowS.shapeMeshStartIndex.set lod a.shapeMeshes.length.toUInt16
        else rowS.shapeMeshStartIndex } : ShapeStruct).shapeMeshCount.get? lod = some c := by
    show rowS.shapeMeshCount.get? lod = some c
    rw [hy]; exact hcnt
  have h1 : (1 : UInt16).toNat = 1 := rfl
  -- the call
  unfold addTail
  rw [hPj]
  refine Returns.bind _ (idx_ok hrow0) ?_
  refine Returns.bind'' ?_ (fun r hfold => ?_)
  · refine shapeFold_ok row.startIndex.toUInt16 _ (fun _ _ _ => rfl) _ _ _ ?_ ?_
    · intro p hp
      obtain ⟨b0, v0⟩ := p
      have hb := hg2 b0 (List.of_mem_zip hp).1
      have : row.startIndex.toUInt16.toNat ≤ meshStart l part := by
        rw [hstart, UInt32.toNat_toUInt16]
        exact Nat.le_trans (Nat.mod_le _ _) (toUInt32_toNat_le _)
      show _ + b0.toNat < _
      omega
    · have : row.startIndex.toUInt16.toNat ≤ meshStart l part := by
        rw [hstart, UInt32.toNat_toUInt16]
        exact Nat.le_trans (Nat.mod_le _ _) (toUInt32_toNat_le _)
      rw [hPv, length_verticesOf', List.length_zip, hvsl, Nat.min_self]
      omega
  obtain ⟨verts, svals⟩ := r
  refine Returns.bind _ (idx_ok hshc) ?_
  refine Returns.ite_neg hlod3 ?_
  refine Returns.bind _ (idx3_ok hcc) ?_
  refine Returns.bind _ (addU16_ok _ _ (by rw [h1]; exact hc1)) ?_
  refine Returns.bind _ (setAt_ok _ hrow0) ?_
  -- the tables of the record passed to `update_headers`
  obtain ⟨hverts, hsvals⟩ := shapeFold row.startIndex.toUInt16 _ (by intro _ _ _; rfl) _ _ _ _ hfold
  simp only at hverts hsvals
  rw [List.map_fst_zip (by omega), List.length_zip, hvsl, Nat.min_self, hPv, length_verticesOf',
    shapeVals_eq, hstart, hSV] at hsvals
  have hvl : verts.length.toUInt16 = (mesh.vertexCount.toNat + bases.length).toUInt16 := by
    rw [hverts, List.length_append, List.length_map, List.length_zip, hvsl, Nat.min_self, hPv,
      length_verticesOf']
  have hrowsS : (m.modelData.meshes.set (psum meshCountOf a.lods lod + part)
      { row with vertexCount := verts.length.toUInt16 }).map stripMesh =
      sRows 0 ((allMeshes a).set (psum meshCountOf a.lods lod + part)
        (appMesh mesh bases.length streams)) := by
    rw [List.map_set, hM, sRows_set _ _ 0 mesh _ hj hsub']
    congr 1
    show ({ stripMesh row with vertexCount := verts.length.toUInt16 } : Mesh) = _
    rw [hrowS, hvl, sRow_appMesh _ mesh bases.length streams hstr]
  have hshapes2 : shapes.set shape
      { rowS with
        shapeMeshStartIndex :=
          if smi == 0 then rowS.shapeMeshStartIndex.set lod a.shapeMeshes.length.toUInt16
          else rowS.shapeMeshStartIndex
        shapeMeshCount := rowS.shapeMeshCount.set lod (c + 1) } =
      shapeRows (addModel a lod l part (appMesh mesh bases.length streams)
        (a.shapes.set shape (addShapeRec a lod smi sh c))
        (a.shapeMeshes ++ [⟨(meshStart l part).toUInt32, bases.length.toUInt32,
          a.shapeValues.length.toUInt32⟩])
        (a.shapeValues ++ addVals (meshStart l part).toUInt32 mesh.vertexCount.toNat bases)) := by
    have hSR := shapeRows_set (replModel a lod l part (appMesh mesh bases.length streams)) shape sh
      (addShapeRec a lod smi sh c)
      (a.shapeMeshes ++ [⟨(meshStart l part).toUInt32, bases.length.toUInt32,
          a.shapeValues.length.toUInt32⟩])
      (a.shapeValues ++ addVals (meshStart l part).toUInt32 mesh.vertexCount.toNat bases)
      hsh rfl rowS hrowSh
    refine Eq.trans ?_ hSR.symm
    rw [hshapes', List.set_set, hy]
    rfl
  have hnames : (a.shapes.set shape (addShapeRec a lod smi sh c)).map (·.name) =
      a.shapes.map (·.name) :=
    map_set_same' (·.name) (x' := addShapeRec a lod smi sh c) hsh rfl
  refine updateHeaders_returns _ _ ?_ ?_ ?_ ?_ hfit
  · show (a.lods.set lod _).length = 3
    rw [List.length_set]; exact h3
  rotate_right
  · show (m.lods.set lod _).length = min a.lodCount.toNat 3
    rw [List.length_set]; exact rep_parts_min hrep h3
  · rw [stripMD_addModel a lod l part mesh _ _ _ _ hl hmesh hs3 hx3 rfl rfl hnames]
    show ({ stripMD m.modelData with
      shapes := shapes.set shape _
      shapeMeshes := m.modelData.shapeMeshes ++ [⟨row.startIndex, (List.zip bases (verticesOf
        { mesh with vertexCount := bases.length.toUInt16, streams := streams })).length.toUInt32,
        m.modelData.shapeValues.length.toUInt32⟩]
      shapeValues := svals
      meshes := _ } : ModelData) = _
    rw [hrowsS, hsvals, hSM, hSV, hstart, List.length_zip, hvsl, Nat.min_self, hrep.md]
    rw [← hshapes2]
    rfl
  · refine hrep.fh.trans ?_
    rw [stripFH_fileHeader, stripFH_fileHeader, allMeshes_add, hflat, hlen]
    rfl


theorem addShape_returns (a : AbstractModel) (m : MDL) (lod shape smi part : Nat)
    (bases : List UInt32) (streams : List AStream) (l : ALod) (mesh : AMesh) (sh : AShape)
    (c : UInt16) (hl : a.lods[lod]? = some l) (hmesh : l.meshes[part]? = some mesh)
    (hsh : a.shapes[shape]? = some sh) (hcnt : sh.shapeMeshCount.get? lod = some c)
    (hlc : lod < a.lodCount.toNat)
    (hstr : streams.map (·.stride) = mesh.streams.map (·.stride))
    (hvc : mesh.vertexCount.toNat + bases.length < 65536)
    (hsub : ∃ s rest, mesh.submeshes = s :: rest ∧ s.indexOffset = (meshStart l part).toUInt32)
    (hg1 : meshStart l part + mesh.vertexCount.toNat + bases.length ≤ 65536)
    (hg2 : ∀ b ∈ bases, meshStart l part + b.toNat < 65536)
    (hc1 : c.toNat + 1 < 65536)
    (hs : Small a) (h3 : a.lods.length = 3) (hrep : Rep a m) (hst : StartsFromSubmesh m)
    (hfit : Fits (addModel a lod l part (appMesh mesh bases.length streams)
        (a.shapes.set shape (addShapeRec a lod smi sh c))
        (a.shapeMeshes ++ [⟨(meshStart l part).toUInt32, bases.length.toUInt32,
          a.shapeValues.length.toUInt32⟩])
        (a.shapeValues ++ addVals (meshStart l part).toUInt32 mesh.vertexCount.toNat bases)) = true) :
    ∃ m1, addShapeMesh m lod shape smi part
      (List.zip bases
        (verticesOf { mesh with vertexCount := bases.length.toUInt16, streams := streams })) =
        .ok m1 := by
  obtain ⟨parts, P, hparts, hP, hk2⟩ := rep_part hrep hl hmesh hlc
  have hlod3 : ¬ lod ≥ 3 := by have := lt_of_getElem? hl; omega
  have hSh : m.modelData.shapes = shapeRows a := (congrArg ModelData.shapes hrep.md :)
  have hshape : shape < m.modelData.shapes.length := by
    rw [hSh, length_shapeRows]; exact lt_of_getElem? hsh
  have hrowSh : m.modelData.shapes[shape]? = some m.modelData.shapes[shape] :=
    List.getElem?_eq_getElem hshape
  generalize m.modelData.shapes[shape] = rowS at hrowSh
  have tail := fun shapes hshapes => addTail_returns a m lod shape smi part bases streams l mesh sh c
    parts P shapes hl hmesh hsh hcnt hlc hstr hvc hsub hg1 hg2 hc1 hs h3 hrep hst hfit hk2 hshapes
  unfold addShapeMesh
  refine Returns.bind _ (idx_ok hparts) ?_
  refine Returns.bind _ (idx_ok hP) ?_
  dsimp only
  by_cases h0 : (smi == 0) = true
  · rw [if_pos h0, if_neg hlod3]
    refine Returns.bind _ (setAt_ok _ hrowSh) ?_
    refine tail _ ?_
    intro row hr
    rw [hrowSh] at hr
    cases hr
    rw [if_pos h0]
  · rw [if_neg h0]
    refine Returns.bind _ (rfl : (pure m.modelData.shapes : R _) = .ok m.modelData.shapes) ?_
    refine tail _ ?_
    intro row hr
    rw [if_neg h0]
    exact (set_self' hr).symm

/-! ### one edit call, histories -/

/-- extra condition on the state an edit is applied to: `add_shape_mesh` increments the shape's
`u16` shape-mesh count of the LOD with a checked addition -/
def editFits (a : AbstractModel) : AEdit → Bool
  | .addShape lod shape _ _ _ _ =>
    match a.shapes[shape]? with
    | some sh =>
      match sh.shapeMeshCount.get? lod with
      | some c => decide (c.toNat + 1 < 65536)
      | none => false
    | none => false
  | _ => true

/-- **one consistently supplied edit call returns** when the state it produces `Fits` -/
theorem applyEdit_returns (a a1 : AbstractModel) (m : MDL) (e : AEdit) (ce : Edit)
    (hs : Small a) (h3 : a.lods.length = 3) (hrep : Rep a m) (hst : StartsFromSubmesh m)
    (hok : editOk2 a e = true) (hef : editFits a e = true)
    (ha : Spec.Mdl.applyEdit a e = some a1) (hc : cedit a e = some ce) (hfit : Fits a1 = true) :
    ∃ m1, Mdl.applyEdit m ce = .ok m1 := by
  cases e with
  | removeShapes =>
    simp only [cedit, Option.some.injEq] at hc
    subst hc
    simp only [Spec.Mdl.applyEdit, Option.some.injEq] at ha
    subst ha
    exact removeShapes_returns a m h3 hrep hfit
  | replace lod part vc streams indices subs =>
    cases hl : a.lods[lod]? with
    | none => simp [Spec.Mdl.applyEdit, modifyMesh, hl] at ha
    | some l =>
      cases hmesh : l.meshes[part]? with
      | none => simp [Spec.Mdl.applyEdit, modifyMesh, hl, hmesh] at ha
      | some mesh =>
        have hmo : meshOfA a lod part = some mesh := by simp [meshOfA, hl, hmesh]
        simp only [editOk2, hmo, beq_iff_eq] at hok
        simp only [cedit, hmo, Option.bind_eq_bind, Option.bind_some, Option.some.injEq] at hc
        subst hc
        by_cases hlc : lod ≥ a.lodCount.toNat
        · simp [Spec.Mdl.applyEdit, modifyMesh, hl, hlc] at ha
        · simp only [Spec.Mdl.applyEdit, modifyMesh, hl, hmesh, hlc, Option.bind_eq_bind,
            Option.bind_some, ↓reduceIte, Option.some.injEq] at ha
          subst ha
          exact replace_returns a m lod part vc streams indices subs l mesh hl hmesh (by omega)
            hok hs h3 hrep hfit
  | addShape lod shape smi part bases streams =>
    cases hl : a.lods[lod]? with
    | none => simp [editOk2, hl] at hok
    | some l =>
      cases hmesh : l.meshes[part]? with
      | none => simp [editOk2, hl, hmesh] at hok
      | some mesh =>
        simp only [editOk2, hl, hmesh, Bool.and_eq_true, beq_iff_eq, decide_eq_true_eq] at hok
        obtain ⟨⟨⟨⟨hmok, hstr⟩, _⟩, hvc⟩, hsub⟩ := hok
        have hsub' : ∃ s rest, mesh.submeshes = s :: rest ∧
            s.indexOffset = (meshStart l part).toUInt32 := by
          cases hsm : mesh.submeshes with
          | nil => rw [hsm] at hsub; simp at hsub
          | cons s rest =>
            rw [hsm] at hsub
            exact ⟨s, rest, rfl, by simpa using hsub⟩
        have hmo : meshOfA a lod part = some mesh := by simp [meshOfA, hl, hmesh]
        simp only [cedit, hmo, Option.bind_eq_bind, Option.bind_some, Option.some.injEq] at hc
        subst hc
        cases hsh : a.shapes[shape]? with
        | none => simp [Spec.Mdl.applyEdit, hl, hsh] at ha
        | some sh =>
          cases hcnt : sh.shapeMeshCount.get? lod with
          | none => simp [Spec.Mdl.applyEdit, hl, hsh, hcnt] at ha
          | some c =>
            simp only [editFits, hsh, hcnt, decide_eq_true_eq] at hef
            have hsub'' := hsub'
            obtain ⟨s0, rest0, hsm0, _⟩ := hsub''
            simp only [Spec.Mdl.applyEdit, hl, hmesh, hsh, hcnt, hsm0, Option.bind_eq_bind,
              Option.bind_some] at ha
            split at ha
            · cases ha
            · rename_i hg
              simp only [Bool.or_eq_true, decide_eq_true_eq, List.any_eq_true, not_or, not_exists,
                not_and, Nat.not_lt, Nat.not_le, ge_iff_le, gt_iff_lt] at hg
              obtain ⟨⟨hg1, hg2⟩, _⟩ := hg
              by_cases hlc : lod ≥ a.lodCount.toNat
              · simp [modifyMesh, hl, hlc] at ha
              · simp only [modifyMesh, hl, hmesh, hlc, Option.bind_eq_bind, Option.bind_some,
                  ↓reduceIte, Option.some.injEq] at ha
                subst ha
                exact addShape_returns a m lod shape smi part bases streams l mesh sh c hl hmesh
                  hsh hcnt (by omega) hstr hvc hsub' (by omega) (fun b hb => hg2 b hb) hef hs h3
                  hrep hst hfit


/-- the conditions of `applyEdit_returns` along a history (the abstract state is threaded) -/
def editsFit : AbstractModel → List AEdit → Bool
  | _, [] => true
  | a, e :: rest =>
    editFits a e && match Spec.Mdl.applyEdit a e with
      | some a1 => Fits a1 && editsFit a1 rest
      | none => false

theorem rep_lods_length {a : AbstractModel} {m : MDL} (hrep : Rep a m) :
    m.modelData.lods.length = a.lods.length := by
  have := congrArg List.length hrep.lodsMap
  rw [List.length_map, List.length_map] at this
  rw [this]
  show (lodRows 0 _ a.lods).length = _
  exact length_lodRows _ _ _

/-- **every call of a consistently supplied edit history returns** when every intermediate state
`Fits` -/
theorem edits_return : ∀ (es : List AEdit) (a a' : AbstractModel) (m : MDL) (ces : List Edit),
    Small a → a.lods.length = 3 → Rep a m → StartsFromSubmesh m →
    RangesDisjoint m.modelData.lods m.lods.length →
    editsOk2 a es = true → editsFit a es = true → applyEdits a es = some a' →
    cedits a es = some ces → ∃ m', ces.foldlM Mdl.applyEdit m = .ok m' := by
  intro es
  induction es with
  | nil =>
    intro a a' m ces _ _ _ _ _ _ _ _ hc
    simp only [cedits, Option.some.injEq] at hc
    subst hc
    exact ⟨m, rfl⟩
  | cons e rest ih =>
    intro a a' m ces hs h3 hrep hst hrd hok hfit ha hc
    cases h1 : Spec.Mdl.applyEdit a e with
    | none => simp [editsOk2, h1] at hok
    | some a1 =>
      cases h2 : cedit a e with
      | none => simp [cedits, h2] at hc
      | some c =>
        cases h4 : cedits a1 rest with
        | none => simp [cedits, h1, h2, h4] at hc
        | some cs =>
          simp only [cedits, h1, h2, h4, Option.bind_eq_bind, Option.bind_some,
            Option.some.injEq] at hc
          subst hc
          simp only [editsOk2, h1, Bool.and_eq_true] at hok
          simp only [editsFit, h1, Bool.and_eq_true] at hfit
          obtain ⟨hef, hf1, hfrest⟩ := hfit
          have ha' : applyEdits a1 rest = some a' := by
            simpa [applyEdits, List.foldlM_cons, h1] using ha
          obtain ⟨m1, hm1⟩ := applyEdit_returns a a1 m e c hs h3 hrep hst hok.1 hef h1 h2 hf1
          obtain ⟨hrep1, hs1⟩ := rep_step2 a a1 m m1 e c hs hrep hst hok.1 h1 h2 hm1
          obtain ⟨m0, hu, hl0, _, hp0⟩ := applyEdit_update hm1
          have hst1 : StartsFromSubmesh m1 := updateHeaders_starts hu (by rw [hl0, hp0]; exact hrd)
          have hfr := (applyEdit_core hm1).2
          have hrd1 : RangesDisjoint m1.modelData.lods m1.lods.length :=
            hfr.rangesDisjoint hrd
          have h31 : a1.lods.length = 3 := by
            rw [← rep_lods_length hrep1, hfr.lodsLen, rep_lods_length hrep, h3]
          obtain ⟨m', hm'⟩ := ih a1 a' m1 cs hs1 h31 hrep1 hst1 hrd1 hok.2 hfrest ha' h4
          exact ⟨m', by rw [List.foldlM_cons, hm1]; exact hm'⟩

/-! ### sanity: the conditions hold on a small concrete model -/

/-- one LOD with one two-stream mesh (2 vertices, 3 indices, one sub-mesh), one shape -/
def fitsSample : AbstractModel :=
  { version := 0x1000005, fileMaterialCount := 1, indexBufferStreamingEnabled := false,
    hasEdgeGeometry := false, lodCount := 1,
    lods := [
      { meshes := [
          { decl := [⟨0, 0, 14, 0, 0⟩, ⟨1, 0, 8, 7, 0⟩]
            vertexCount := 2
            streams := [⟨8, [0x00, 0x3C, 0x00, 0xC0, 0x01, 0x00, 0x00, 0x3C,
                             0x00, 0x38, 0xFF, 0x7B, 0x00, 0x80, 0x00, 0x3C]⟩,
                        ⟨4, [1, 128, 254, 255, 0, 1, 127, 255]⟩]
            indices := [0, 1, 0], indexPad := 5, materialIndex := 0, boneTableIndex := 0
            submeshes := [⟨0, 3, 0, 0, 1⟩] }],
        mid := List.replicate 28 0, edgeGeometryDataOffset := 0, polygonCount := 1 },
      { meshes := [], mid := List.replicate 28 0, edgeGeometryDataOffset := 0, polygonCount := 0 },
      { meshes := [], mid := List.replicate 28 0, edgeGeometryDataOffset := 0, polygonCount := 0 }],
    misc := ⟨0x3F800000, 0x08, 0, 0, 0, 0, 0, 0, 0, 0, 0, 0, 0⟩,
    attributes := [], bones := [[0x6A, 0x5F, 0x6B, 0x61, 0x6F]], materials := [[0x2F, 0x6D]],
    shapes := [⟨[0x73], Arr3.rep 0, Arr3.rep 0⟩], shapeMeshes := [], shapeValues := [],
    elementIds := [], terrainShadowMeshes := [], terrainShadowSubmeshes := [],
    boneTables := [⟨List.replicate 64 0, 1⟩], boneTablesV2 := [], submeshBoneMap := [0],
    padding := [0xAA, 0xBB], boundingBoxes := List.replicate 128 0,
    boneBoundingBoxes := [List.replicate 32 0] }

/-- `Fits` holds on the small model; a three-call history (replace the geometry by a same-layout
mesh, attach a shape mesh with one value, drop the shape meshes) satisfies `editsOk2` and
`editsFit` and has a meaning (`applyEdits`) and concrete calls (`cedits`) -/
example : Fits fitsSample = true ∧
    (let es : List AEdit :=
      [.replace 0 0 2 [⟨8, [0x00, 0x3C, 0x00, 0xC0, 0x01, 0x00, 0x00, 0x3C,
                            0x00, 0x38, 0xFF, 0x7B, 0x00, 0x80, 0x00, 0x3C]⟩,
                       ⟨4, [1, 128, 254, 255, 0, 1, 127, 255]⟩] [1, 0, 1] [(0, 3)],
       .addShape 0 0 0 0 [1] [⟨8, [0x00, 0x3C, 0x00, 0xC0, 0x01, 0x00, 0x00, 0x3C]⟩,
                              ⟨4, [1, 128, 254, 255]⟩],
       .removeShapes]
     editsOk2 fitsSample es && editsFit fitsSample es && (applyEdits fitsSample es).isSome &&
       (cedits fitsSample es).isSome) = true := by
  decide +kernel

end Physis.Mdl
