import PhysisModel.Model.Shpk
import PhysisModel.Spec.Shpk
import PhysisModel.Proofs.MsCommon
/-! Helper lemmas for C14, shader-package part: selectors and `find_node`. -/
namespace Physis.Shpk
open Physis.MsCommon Physis.Spec.Shpk

/-! ### `build_selector` -/

theorem loop_toNat (ks : List UInt32) (sel m : UInt32) (i : Nat)
    (hm : m.toNat = 31 ^ i % 4294967296) :
    (buildSelectorLoop ks sel m).toNat = (sel.toNat + polySum ks i) % 4294967296 := by
  induction ks generalizing sel m i with
  | nil => simp [buildSelectorLoop, polySum, Nat.mod_eq_of_lt sel.toNat_lt]
  | cons k r ih =>
    have hm' : (m * selectorMultiplier).toNat = 31 ^ (i + 1) % 4294967296 := by
      rw [UInt32.toNat_mul, hm, selectorMultiplier]
      show 31 ^ i % 4294967296 * 31 % 4294967296 = _
      rw [Nat.pow_succ, Nat.mod_mul_mod]
    rw [buildSelectorLoop, ih _ _ _ hm', polySum, UInt32.toNat_add, UInt32.toNat_mul, hm]
    have h1 : (k.toNat * (31 ^ i % 4294967296)) % 4294967296 = (k.toNat * 31 ^ i) % 4294967296 := by
      rw [Nat.mul_mod, Nat.mod_mod, ← Nat.mul_mod]
    generalize k.toNat * (31 ^ i % 4294967296) = y at h1 ⊢
    generalize k.toNat * 31 ^ i = z at h1 ⊢
    generalize polySum r (i + 1) = x
    show ((sel.toNat + y % 4294967296) % 4294967296 + x) % 4294967296 = _
    omega

theorem buildSelector_toNat (ks : List UInt32) :
    (buildSelector ks).toNat = polySum ks 0 % 4294967296 := by
  rw [buildSelector, loop_toNat ks 0 1 0 (by decide)]; simp

/-! ### `find_node` -/

theorem findEntry_append (sel : UInt32) (a b : List (UInt32 × UInt32)) :
    findEntry sel (a ++ b) = (findEntry sel a).or (findEntry sel b) := by
  induction a with
  | nil => simp [findEntry]
  | cons x r ih =>
    obtain ⟨s, n⟩ := x
    simp only [List.cons_append, findEntry]
    split <;> simp [ih]

theorem findEntry_pushNodes (sel : UInt32) (nodes : List Node) (i : Nat) :
    findEntry sel (pushNodes nodes i) =
      (nodes.findIdx? (·.selector == sel)).map (fun j => UInt32.ofNat (i + j)) := by
  induction nodes generalizing i with
  | nil => simp [pushNodes, findEntry]
  | cons n r ih =>
    simp only [pushNodes, findEntry, List.findIdx?_cons]
    split
    · simp
    · rw [ih]; simp [Option.map_map, Function.comp_def]; grind

theorem findEntry_aliases (sel : UInt32) (al : List NodeAlias) :
    findEntry sel (al.map (fun a => (a.selector, a.node))) =
      (al.find? (·.selector == sel)).map (·.node) := by
  induction al with
  | nil => simp [findEntry]
  | cons a r ih =>
    simp only [List.map_cons, findEntry, List.find?_cons]
    by_cases h : a.selector = sel
    · simp [h]
    · have hb : (a.selector == sel) = false := by simpa using h
      simp [h, hb, ih]

/-! ### round trip, record by record -/

theorem resourceParameter_rt (whole pre heap : Bytes) (so : UInt32) (hw : whole = pre ++ heap)
    (hso : so.toNat = pre.length) (p : ParamF) (hp : wfParam heap p = true) (t : Bytes) :
    resourceParameter whole so (encParam p ++ t) = .ok (viewParam heap p, t) := by
  simp only [Spec.Shpk.wfParam, Bool.and_eq_true, decide_eq_true_eq, region] at hp
  obtain ⟨⟨hin, hpad⟩, hascii⟩ := hp
  have hs := slice_append pre heap p.strOff.toNat p.strLen.toNat hin
  simp only [resourceParameter, encParam, List.append_assoc, bind_apply, u32_append, u16_append,
    hw, hso, hs, liftE_ok, nulTrimmedString_cstr _ hascii hpad, pure_apply, viewParam, region, cstr]

theorem params_rt (whole pre heap : Bytes) (so : UInt32) (hw : whole = pre ++ heap)
    (hso : so.toNat = pre.length) (ps : List ParamF) (hps : ps.all (wfParam heap) = true)
    (hlen : ps.length < 65536) (t : Bytes) :
    count (resourceParameter whole so) (u16len ps).toNat (ps.flatMap encParam ++ t) =
      .ok (ps.map (viewParam heap), t) :=
  count_flatMap' _ _ _ ps _ (toNat_ofNat16 _ hlen)
    (fun x hx t => resourceParameter_rt whole pre heap so hw hso x (List.all_eq_true.mp hps x hx) t) t

theorem shader_rt (f : PackageF) (whole pre : Bytes) (sdo so : UInt32)
    (hw : whole = pre ++ (f.blob ++ f.strings)) (hsdo : sdo.toNat = pre.length)
    (hso : so.toNat = pre.length + f.blob.length) (isV : Bool) (s : ShaderF)
    (hs : wfShader f isV s = true) (t : Bytes) :
    shader whole sdo so isV (encShader s ++ t) = .ok (viewShader f isV s, t) := by
  simp only [wfShader, Bool.and_eq_true, decide_eq_true_eq] at hs
  obtain ⟨⟨⟨⟨⟨⟨⟨⟨h1, h2⟩, h3⟩, h4⟩, w1⟩, w2⟩, w3⟩, w4⟩, hin⟩ := hs
  subst hw
  have hw' : pre ++ (f.blob ++ f.strings) = (pre ++ f.blob) ++ f.strings := (List.append_assoc ..).symm
  have hso' : so.toNat = (pre ++ f.blob).length := by rw [hso, List.length_append]
  have hlen : (f.blob ++ f.strings).length = f.blob.length + f.strings.length := List.length_append
  have ha := slice_append pre (f.blob ++ f.strings) s.dataOffset.toNat
    (if isV then vertexHeaderSize else 0) (by rw [hlen]; omega)
  have hb := slice_append pre (f.blob ++ f.strings)
    (s.dataOffset.toNat + (if isV then vertexHeaderSize else 0)) s.dataSize.toNat (by rw [hlen]; omega)
  rw [← Nat.add_assoc] at hb
  simp only [vertexHeaderSize] at ha hb
  simp only [shader, encShader, List.append_assoc, bind_apply, u32_append, u16_append,
    params_rt _ _ _ so hw' hso' _ w1 h1, params_rt _ _ _ so hw' hso' _ w2 h2,
    params_rt _ _ _ so hw' hso' _ w3 h3, params_rt _ _ _ so hw' hso' _ w4 h4,
    hsdo, ha, hb, liftE_ok, pure_apply, viewShader, region, vertexHeaderSize]

theorem materialParameter_rt (m : MaterialParameter) (t : Bytes) :
    materialParameter (encMatParam m ++ t) = .ok (m, t) := by
  simp only [materialParameter, encMatParam, List.append_assoc, bind_apply, u32_append, u16_append,
    pure_apply]

theorem key_rt (k : Key) (t : Bytes) : key (encKey k ++ t) = .ok (k, t) := by
  simp only [key, encKey, List.append_assoc, bind_apply, u32_append, pure_apply]

theorem pass_rt (k : Pass) (t : Bytes) : pass (encPass k ++ t) = .ok (k, t) := by
  simp only [pass, encPass, List.append_assoc, bind_apply, u32_append, pure_apply]

theorem nodeAlias_rt (k : NodeAlias) (t : Bytes) : nodeAlias (encAlias k ++ t) = .ok (k, t) := by
  simp only [nodeAlias, encAlias, List.append_assoc, bind_apply, u32_append, pure_apply]

theorem u32s_rt (l : List UInt32) (n : Nat) (hn : n = l.length) (t : Bytes) :
    count u32 n (l.flatMap putU32le ++ t) = .ok (l, t) :=
  count_flatMap_id _ _ l n hn (fun x _ t => u32_append x t) t

theorem node_rt (f : PackageF) (a b c : UInt32) (ha : a.toNat = f.systemKeys.length)
    (hb : b.toNat = f.sceneKeys.length) (hc : c.toNat = f.materialKeys.length)
    (n : NodeF) (hn : wfNode f n = true) (t : Bytes) :
    node a b c 2 (encNode n ++ t) = .ok (viewNode n, t) := by
  simp only [wfNode, Bool.and_eq_true, decide_eq_true_eq] at hn
  obtain ⟨⟨⟨⟨⟨h16, h1⟩, h2⟩, h3⟩, h4⟩, h5⟩ := hn
  have h2' : (2 : UInt32).toNat = n.subviewKeys.length := by rw [h4]; rfl
  simp only [node, encNode, List.append_assoc, bind_apply, u32_append, take_append _ _ 16 h16,
    u32s_rt _ _ (ha.trans h1.symm), u32s_rt _ _ (hb.trans h2.symm), u32s_rt _ _ (hc.trans h3.symm),
    u32s_rt _ _ h2',
    count_flatMap_id pass encPass n.passes _ (toNat_ofNat32 _ h5) (fun x _ t => pass_rt x t),
    u32len, pure_apply, viewNode]

theorem magic_rt (t : Bytes) : magic (Spec.Shpk.magic ++ t) = .ok ((), t) := by
  have := take_append Spec.Shpk.magic t 4 rfl
  simp only [magic, bind_apply, this]
  rfl

theorem defaultsCountP_rt (f : PackageF) (n : Nat) (h : defaultsCount f = some n) (t : Bytes) :
    defaultsCountP f.hasMatParamDefaults f.materialParametersSize t = .ok (n, t) := by
  unfold defaultsCount at h
  unfold defaultsCountP
  split at h
  · rename_i h1
    split at h
    · rename_i h2
      cases h
      simp only [h1, h2, if_true, pure_apply]
    · cases h
  · rename_i h1
    cases h
    simp only [h1, pure_apply]; rfl

theorem pushNodes_view (ns : List NodeF) (i : Nat) :
    pushNodes (ns.map viewNode) i = nodeEntries ns i := by
  induction ns generalizing i with
  | nil => rfl
  | cons n r ih => simp [pushNodes, nodeEntries, ih, viewNode]

theorem encSeq_length (f : PackageF) (a b : UInt32) : (encSeq f a b).length = seqLen f := by
  simp [encSeq, seqLen]

set_option maxRecDepth 4000 in
theorem shaderPackage_rt (f : PackageF) (h : WF f = true) (whole : Bytes) (sdo so : UInt32)
    (hw : whole = encSeq f sdo so ++ (f.blob ++ f.strings))
    (hsdo : sdo.toNat = (encSeq f sdo so).length)
    (hso : so.toNat = (encSeq f sdo so).length + f.blob.length) :
    shaderPackage whole (encSeq f sdo so ++ (f.blob ++ f.strings)) =
      .ok ({ view f with shaderDataOffset := sdo, stringsOffset := so, nodeSelectors := [] },
           f.blob ++ f.strings) := by
  simp only [WF, Bool.and_eq_true, decide_eq_true_eq, beq_iff_eq] at h
  obtain ⟨⟨⟨⟨⟨⟨⟨⟨⟨⟨⟨⟨⟨⟨⟨⟨⟨⟨⟨⟨⟨⟨hfmt, hfa⟩, _⟩, hvs⟩, hps⟩, hsk⟩, hck⟩, hmk⟩, hnn⟩, hal⟩, hmp⟩, hsc⟩, hsa⟩,
    htx⟩, hua⟩, wvs⟩, wps⟩, hdef⟩, wsc⟩, wsa⟩, wtx⟩, wua⟩, wn⟩ := h
  have hw' : whole = (encSeq f sdo so ++ f.blob) ++ f.strings := by rw [hw, List.append_assoc]
  have hso' : so.toNat = (encSeq f sdo so ++ f.blob).length := by rw [hso, List.length_append]
  have e1 := count_flatMap' (shader whole sdo so true) encShader (viewShader f true) f.vertexShaders _
    (toNat_ofNat32 _ hvs)
    (fun x hx t => shader_rt f whole _ sdo so hw hsdo hso true x (List.all_eq_true.mp wvs x hx) t)
  have e2 := count_flatMap' (shader whole sdo so false) encShader (viewShader f false) f.pixelShaders _
    (toNat_ofNat32 _ hps)
    (fun x hx t => shader_rt f whole _ sdo so hw hsdo hso false x (List.all_eq_true.mp wps x hx) t)
  have e3 := count_flatMap_id materialParameter encMatParam f.materialParameters _
    (toNat_ofNat16 _ hmp) (fun x _ t => materialParameter_rt x t)
  have e4 := fun t => defaultsCountP_rt f _ hdef t
  have e5 := u32s_rt f.matParamDefaults _ rfl
  have e6 := params_rt whole _ f.strings so hw' hso' f.scalars wsc hsc
  simp only [u16len] at e6
  have e7 := params_rt whole _ f.strings so hw' hso' f.samplers wsa hsa
  simp only [u16len] at e7
  have e8 := params_rt whole _ f.strings so hw' hso' f.textures wtx htx
  simp only [u16len] at e8
  have e9 := params_rt whole _ f.strings so hw' hso' f.uavs wua hua
  simp only [u16len] at e9
  have k1 := count_flatMap_id key encKey f.systemKeys _ (toNat_ofNat32 _ hsk) (fun x _ t => key_rt x t)
  have k2 := count_flatMap_id key encKey f.sceneKeys _ (toNat_ofNat32 _ hck) (fun x _ t => key_rt x t)
  have k3 := count_flatMap_id key encKey f.materialKeys _ (toNat_ofNat32 _ hmk) (fun x _ t => key_rt x t)
  have n1 := count_flatMap' (node (u32len f.systemKeys) (u32len f.sceneKeys) (u32len f.materialKeys) 2)
    encNode viewNode f.nodes _ (toNat_ofNat32 _ hnn)
    (fun x hx t => node_rt f _ _ _ (toNat_ofNat32 _ hsk) (toNat_ofNat32 _ hck) (toNat_ofNat32 _ hmk) x
      (List.all_eq_true.mp wn x hx) t)
  simp only [u32len] at n1
  have a1 := count_flatMap_id nodeAlias encAlias f.aliases _ (toNat_ofNat32 _ hal)
    (fun x _ t => nodeAlias_rt x t)
  simp only [shaderPackage, encSeq, List.append_assoc, bind_apply, magic_rt, u32_append, u16_append,
    take_append f.format _ 4 hfmt, nulTrimmedString_ascii _ hfa, liftE_ok,
    e1, e2, e3, e4, e5, e6, e7, e8, e9, k1, k2, k3, n1, a1, u32len, u16len, pure_apply, view, stripNul,
    trimNul]

theorem fromExisting_encode (f : PackageF) (h : WF f = true) :
    fromExisting (encode f) = .ok (view f) := by
  have hb : seqLen f + f.blob.length + f.strings.length < 4294967296 := by
    simp only [WF, Bool.and_eq_true, decide_eq_true_eq] at h
    exact h.1.1.1.1.1.1.1.1.1.1.1.1.1.1.1.1.1.1.1.1.2
  have hsdo : (shaderDataOffset f).toNat = (encSeq f (shaderDataOffset f) (stringsOffset f)).length := by
    rw [encSeq_length, shaderDataOffset, toNat_ofNat32 _ (by omega)]
  have hso : (stringsOffset f).toNat =
      (encSeq f (shaderDataOffset f) (stringsOffset f)).length + f.blob.length := by
    rw [encSeq_length, stringsOffset, toNat_ofNat32 _ (by omega)]
  have := shaderPackage_rt f h (encode f) _ _ rfl hsdo hso
  unfold fromExisting
  rw [show shaderPackage (encode f) (encode f) = _ from this]
  simp only [pushNodes_view, view, selectorTable]

end Physis.Shpk
