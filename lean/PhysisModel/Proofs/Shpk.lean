import PhysisModel.Model.Shpk
import PhysisModel.Spec.Shpk
/-! Helper lemmas for C14, shader-package part: selectors and `find_node`. -/
namespace Physis.Shpk
open Physis.MsCommon Physis.Spec.Shpk

/-! ### `build_selector` -/

theorem loop_toNat (ks : List UInt32) (sel m : UInt32) (i : Nat)
    (hm : m.toNat = 31 ^ i % 4294967296) :
    (buildSelectorLoop ks sel m).toNat = (sel.toNat + polySum ks i) % 4294967296 := by
  induction ks generalizing sel m i with
  | nil => simp [buildSelectorLoop, polySum, Nat.mod_eq_of_lt sel.toNat_lt]
  | cons k r ih =>
    have hm' : (m * selectorMultiplier).toNat = 31 ^ (i + 1) % 4294967296 := by
      rw [UInt32.toNat_mul, hm, selectorMultiplier]
      show 31 ^ i % 4294967296 * 31 % 4294967296 = _
      rw [Nat.pow_succ, Nat.mod_mul_mod]
    rw [buildSelectorLoop, ih _ _ _ hm', polySum, UInt32.toNat_add, UInt32.toNat_mul, hm]
    have h1 : (k.toNat * (31 ^ i % 4294967296)) % 4294967296 = (k.toNat * 31 ^ i) % 4294967296 := by
      rw [Nat.mul_mod, Nat.mod_mod, ← Nat.mul_mod]
    generalize k.toNat * (31 ^ i % 4294967296) = y at h1 ⊢
    generalize k.toNat * 31 ^ i = z at h1 ⊢
    generalize polySum r (i + 1) = x
    show ((sel.toNat + y % 4294967296) % 4294967296 + x) % 4294967296 = _
    omega

theorem buildSelector_toNat (ks : List UInt32) :
    (buildSelector ks).toNat = polySum ks 0 % 4294967296 := by
  rw [buildSelector, loop_toNat ks 0 1 0 (by decide)]; simp

/-! ### `find_node` -/

theorem findEntry_append (sel : UInt32) (a b : List (UInt32 × UInt32)) :
    findEntry sel (a ++ b) = (findEntry sel a).or (findEntry sel b) := by
  induction a with
  | nil => simp [findEntry]
  | cons x r ih =>
    obtain ⟨s, n⟩ := x
    simp only [List.cons_append, findEntry]
    split <;> simp [ih]

theorem findEntry_pushNodes (sel : UInt32) (nodes : List Node) (i : Nat) :
    findEntry sel (pushNodes nodes i) =
      (nodes.findIdx? (·.selector == sel)).map (fun j => UInt32.ofNat (i + j)) := by
  induction nodes generalizing i with
  | nil => simp [pushNodes, findEntry]
  | cons n r ih =>
    simp only [pushNodes, findEntry, List.findIdx?_cons]
    split
    · simp
    · rw [ih]; simp [Option.map_map, Function.comp_def]; grind

theorem findEntry_aliases (sel : UInt32) (al : List NodeAlias) :
    findEntry sel (al.map (fun a => (a.selector, a.node))) =
      (al.find? (·.selector == sel)).map (·.node) := by
  induction al with
  | nil => simp [findEntry]
  | cons a r ih =>
    simp only [List.map_cons, findEntry, List.find?_cons]
    by_cases h : a.selector = sel
    · simp [h]
    · have hb : (a.selector == sel) = false := by simpa using h
      simp [h, hb, ih]

end Physis.Shpk
