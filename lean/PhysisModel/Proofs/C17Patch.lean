import PhysisModel.Proofs.C17
import PhysisModel.Model.Fault.Patch
import PhysisModel.Model.Fault.Exec
/-!
# C17 helper lemmas for `ZiPatch::apply`, `extract_frontier_url`, `BootData::from_existing`
-/
namespace Physis.F
open Physis StrF

/-- one forward-only step followed by a forward-only continuation -/
theorem SafePD.step {B : Nat} {inp : Bytes} {k : Nat} {p : P α} {f : α → P β} {Q : α → Prop} {R : β → Prop}
    (hp : SafePD B inp k p Q) (hf : ∀ a, Q a → SafePD B inp 0 (f a) R) : SafePD B inp 0 (p >>= f) R :=
  SafePD.bind (SafePD.weaken hp (Nat.zero_le _)) hf

theorem safePD_readString {B : Nat} {inp : Bytes} (x : Bytes) :
    SafePD B inp 0 (readString true x) (fun _ => True) := by
  unfold readString decodeString
  simp only [if_true]
  exact SafePD.bind (SafePD.pure (Q := fun _ => True) trivial) (fun _ _ => SafePD.pure trivial)

namespace Patch

variable {inp : Bytes}

/-- the budget of the property: `64·|patch| + 2^24` -/
local notation "BB" => budget inp.length

theorem bb_const {c : Nat} (h : c ≤ 2 ^ 24) : c ≤ BB := by unfold budget; omega
theorem bb_inp : 2 * inp.length + 32 ≤ BB := by unfold budget; omega

theorem sp_fileHeader : SafePD BB inp 0 fileHeader (fun _ => True) := by
  unfold fileHeader
  refine SafePD.step SafePD.skip (fun _ _ => ?_)
  refine SafePD.step SafePD.u8 (fun ver _ => ?_)
  refine SafePD.step (SafePD.vecU8 (bb_const (by omega)) (by omega)) (fun raw _ => ?_)
  refine SafePD.step (safePD_readString raw) (fun _ _ => ?_)
  split
  · refine SafePD.step SafePD.skip (fun _ _ => ?_)
    refine SafePD.step SafePD.u32be (fun _ _ => ?_)
    refine SafePD.step SafePD.skip (fun _ _ => ?_)
    exact SafePD.pure trivial
  · split
    · refine SafePD.step SafePD.take (fun _ _ => ?_)
      refine SafePD.step SafePD.skip (fun _ _ => ?_)
      refine SafePD.step SafePD.skip (fun _ _ => ?_)
      exact SafePD.pure trivial
    · exact SafePD.fail

theorem sp_applyOption : SafePD BB inp 0 applyOption (fun _ => True) := by
  unfold applyOption
  refine SafePD.step SafePD.u32be (fun _ _ => ?_)
  refine SafePD.step SafePD.guard (fun _ _ => ?_)
  refine SafePD.step SafePD.skip (fun _ _ => ?_)
  refine SafePD.step SafePD.u32be (fun _ _ => ?_)
  exact SafePD.pure trivial

theorem sp_directory : SafePD BB inp 0 directory (fun _ => True) := by
  unfold directory
  refine SafePD.step SafePD.u32be (fun _ _ => ?_)
  refine SafePD.step (SafePD.vecU8Bounded bb_inp) (fun raw _ => ?_)
  refine SafePD.step (safePD_readString raw) (fun _ _ => ?_)
  exact SafePD.pure trivial

theorem sp_addData : SafePD BB inp 0 sqpkAddData (fun _ => True) := by
  unfold sqpkAddData
  refine SafePD.step SafePD.skip (fun _ _ => ?_)
  refine SafePD.step SafePD.u16be (fun _ _ => ?_)
  refine SafePD.step SafePD.u16be (fun _ _ => ?_)
  refine SafePD.step SafePD.u32be (fun _ _ => ?_)
  refine SafePD.step SafePD.u32be (fun _ _ => ?_)
  refine SafePD.step SafePD.u32be (fun _ _ => ?_)
  refine SafePD.step SafePD.u32be (fun _ _ => ?_)
  refine SafePD.step (SafePD.vecU8Bounded bb_inp) (fun _ _ => ?_)
  exact SafePD.pure trivial

theorem sp_deleteData (e : Bool) : SafePD BB inp 0 (sqpkDeleteData e) (fun _ => True) := by
  unfold sqpkDeleteData
  refine SafePD.step SafePD.skip (fun _ _ => ?_)
  refine SafePD.step SafePD.u16be (fun _ _ => ?_)
  refine SafePD.step SafePD.u16be (fun _ _ => ?_)
  refine SafePD.step SafePD.u32be (fun _ _ => ?_)
  refine SafePD.step SafePD.u32be (fun _ _ => ?_)
  refine SafePD.step SafePD.u32be (fun _ _ => ?_)
  refine SafePD.step SafePD.skip (fun _ _ => ?_)
  exact SafePD.pure trivial

theorem sp_fileOperation : SafePD BB inp 0 sqpkFileOperation (fun _ => True) := by
  unfold sqpkFileOperation
  refine SafePD.step SafePD.u8 (fun _ _ => ?_)
  refine SafePD.step (SafePD.ofOption (Q := fun _ => True) (fun _ _ => trivial)) (fun _ _ => ?_)
  refine SafePD.step SafePD.skip (fun _ _ => ?_)
  refine SafePD.step SafePD.u64be (fun _ _ => ?_)
  refine SafePD.step SafePD.u64be (fun _ _ => ?_)
  refine SafePD.step SafePD.u32be (fun _ _ => ?_)
  refine SafePD.step SafePD.u16be (fun _ _ => ?_)
  refine SafePD.step SafePD.skip (fun _ _ => ?_)
  refine SafePD.step (SafePD.vecU8Bounded bb_inp) (fun raw _ => ?_)
  refine SafePD.step (safePD_readString raw) (fun _ _ => ?_)
  exact SafePD.pure trivial

theorem sp_headerUpdate : SafePD BB inp 0 sqpkHeaderUpdate (fun _ => True) := by
  unfold sqpkHeaderUpdate
  refine SafePD.step SafePD.u8 (fun _ _ => ?_)
  refine SafePD.step SafePD.guard (fun _ _ => ?_)
  refine SafePD.step SafePD.u8 (fun _ _ => ?_)
  refine SafePD.step SafePD.guard (fun _ _ => ?_)
  refine SafePD.step SafePD.skip (fun _ _ => ?_)
  refine SafePD.step SafePD.u16be (fun _ _ => ?_)
  refine SafePD.step SafePD.u16be (fun _ _ => ?_)
  refine SafePD.step SafePD.u32be (fun _ _ => ?_)
  refine SafePD.step (SafePD.vecU8 (bb_const (by omega)) (by omega)) (fun _ _ => ?_)
  exact SafePD.pure trivial

theorem sp_patchInfo : SafePD BB inp 0 sqpkPatchInfo (fun _ => True) := by
  unfold sqpkPatchInfo
  refine SafePD.step SafePD.u8 (fun _ _ => ?_)
  refine SafePD.step SafePD.u8 (fun _ _ => ?_)
  refine SafePD.step SafePD.skip (fun _ _ => ?_)
  refine SafePD.step SafePD.u64be (fun _ _ => ?_)
  exact SafePD.pure trivial

theorem sp_platformField : SafePD BB inp 0 platformField (fun _ => True) := by
  unfold platformField
  refine SafePD.padSizeTo ?_
  refine SafePD.step SafePD.u8 (fun _ _ => ?_)
  refine SafePD.step SafePD.guard (fun _ _ => ?_)
  exact SafePD.pure trivial

theorem sp_targetInfo : SafePD BB inp 0 sqpkTargetInfo (fun _ => True) := by
  unfold sqpkTargetInfo
  refine SafePD.step SafePD.skip (fun _ _ => ?_)
  refine SafePD.step sp_platformField (fun _ _ => ?_)
  refine SafePD.step SafePD.u16be (fun _ _ => ?_)
  refine SafePD.step SafePD.guard (fun _ _ => ?_)
  refine SafePD.step SafePD.u16be (fun _ _ => ?_)
  refine SafePD.step SafePD.u16be (fun _ _ => ?_)
  refine SafePD.step SafePD.u64le (fun _ _ => ?_)
  refine SafePD.step SafePD.u64le (fun _ _ => ?_)
  refine SafePD.step SafePD.skip (fun _ _ => ?_)
  exact SafePD.pure trivial

theorem sp_index : SafePD BB inp 0 sqpkIndex (fun _ => True) := by
  unfold sqpkIndex
  refine SafePD.step SafePD.u8 (fun _ _ => ?_)
  refine SafePD.step SafePD.guard (fun _ _ => ?_)
  refine SafePD.step SafePD.u8 (fun _ _ => ?_)
  refine SafePD.step SafePD.skip (fun _ _ => ?_)
  refine SafePD.step SafePD.u64be (fun _ _ => ?_)
  refine SafePD.step SafePD.u32be (fun _ _ => ?_)
  refine SafePD.step SafePD.u32be (fun _ _ => ?_)
  refine SafePD.step SafePD.skip (fun _ _ => ?_)
  exact SafePD.pure trivial

theorem sp_sqpk : SafePD BB inp 0 sqpk (fun _ => True) := by
  unfold sqpk
  refine SafePD.step SafePD.u32be (fun _ _ => ?_)
  refine SafePD.step SafePD.u8 (fun op _ => ?_)
  repeat' split
  · exact sp_addData
  · exact sp_deleteData _
  · exact sp_deleteData _
  · exact sp_fileOperation
  · exact sp_headerUpdate
  · exact sp_patchInfo
  · exact sp_targetInfo
  · exact sp_index
  · exact SafePD.fail

theorem sp_chunkBody (m : Bytes) : SafePD BB inp 0 (chunkBody m) (fun _ => True) := by
  unfold chunkBody
  repeat' split
  · exact sp_fileHeader
  · exact sp_applyOption
  · exact sp_directory
  · exact sp_directory
  · exact sp_sqpk
  · exact SafePD.pure trivial
  · exact SafePD.fail

theorem sp_crc (c : Cmd) : SafePD BB inp 0 (crc c) (fun _ => True) := by
  unfold crc
  split
  · exact SafePD.pure trivial
  · exact SafePD.step (SafePD.restorePosition SafePD.u32le) (fun _ _ => SafePD.pure trivial)
  · exact SafePD.step SafePD.u32le (fun _ _ => SafePD.pure trivial)

/-- a chunk consumes at least its four-byte size field -/
theorem sp_chunk : SafePD BB inp 4 chunk (fun _ => True) := by
  unfold chunk
  refine SafePD.bindK SafePD.u32be (fun _ _ => ?_)
  refine SafePD.step SafePD.take (fun m _ => ?_)
  refine SafePD.step (sp_chunkBody m) (fun c _ => ?_)
  refine SafePD.step (sp_crc c) (fun _ _ => ?_)
  exact SafePD.pure trivial

theorem i32_nonneg_lt {v : UInt32} (h : 0 ≤ i32OfU32 v) : v.toNat < 2 ^ 31 := by
  unfold i32OfU32 at h
  split at h
  · assumption
  · have := v.toNat_lt; omega

theorem i32_lt_32000 {v : UInt32} (h0 : 0 ≤ i32OfU32 v) (h : i32OfU32 v < 32000) : v.toNat < 32000 := by
  unfold i32OfU32 at h h0
  split at h
  · omega
  · have := v.toNat_lt; omega

/-- a block (with the cap of fix C17-13) consumes at least four bytes and requests at most
`max (32000 + 143) 2^20` bytes of its own, whatever the header says -/
theorem sp_readDataBlock (inflate : Bytes → Nat → Bool) :
    SafePD BB inp 4 (readDataBlock true inflate) (fun _ => True) := by
  unfold readDataBlock
  refine SafePD.bindK SafePD.u32le (fun size _ => ?_)
  refine SafePD.step SafePD.skip (fun _ _ => ?_)
  refine SafePD.step SafePD.u32le (fun x _ => ?_)
  refine SafePD.step SafePD.u32le (fun y _ => ?_)
  refine SafePD.step (SafePD.restorePosition SafePD.take) (fun _ _ => ?_)
  split
  · next hx =>
    refine SafePD.step SafePD.guard (fun _ hx0 => ?_)
    refine SafePD.step SafePD.guard (fun _ _ => ?_)
    refine SafePD.step SafePD.guard (fun _ hcap => ?_)
    refine SafePD.step SafePD.guard (fun _ _ => ?_)
    have hx' : x.toNat < 32000 := i32_lt_32000 (of_decide_eq_true hx0) hx
    have hcap' : y.toNat ≤ 2 ^ 20 := by
      simp only [Bool.not_true, Bool.false_or, maxDecompressedBlockSize] at hcap; exact of_decide_eq_true hcap
    have hand : (x.toNat + 143) &&& 0xFFFFFF80 ≤ x.toNat + 143 := Nat.and_le_left
    refine SafePD.step (SafePD.alloc (bb_const (by omega))) (fun _ _ => ?_)
    refine SafePD.step SafePD.take (fun _ _ => ?_)
    refine SafePD.step (SafePD.alloc (bb_const (by omega))) (fun _ _ => ?_)
    refine SafePD.step SafePD.guard (fun _ _ => ?_)
    exact SafePD.pure trivial
  · refine SafePD.step SafePD.guard (fun _ _ => ?_)
    refine SafePD.step (SafePD.vecU8Bounded bb_inp) (fun data hd => ?_)
    refine SafePD.step SafePD.guard (fun _ _ => ?_)
    refine SafePD.step SafePD.skip (fun _ _ => ?_)
    exact SafePD.pure trivial

/-- the block loop never runs out of fuel: every block consumes input; and it keeps nothing
between blocks, so every request is one block's -/
theorem safe_streamBlocks (inflate : Bytes → Nat → Bool) (limit : Nat) :
    ∀ (fuel : Nat) (out : Option Nat) (remaining : Nat) (c : Cur), c.Within inp → c.rest.length < fuel →
      Safe BB (streamBlocks inflate limit fuel out remaining inp c)
        (fun r => True ∧ r.2.rest.length + 0 ≤ c.rest.length) := by
  intro fuel
  induction fuel with
  | zero => intro _ _ c _ h; omega
  | succ fuel ih =>
    intro out remaining c hc hf
    unfold streamBlocks
    split
    · refine Safe.bind' (sp_readDataBlock inflate c hc) (fun r hr => ?_)
      have hw : r.2.Within inp := by simp only [Cur.Within] at *; omega
      have hwr : SafePD BB inp 0 (writeBlock limit out r.1) (fun _ => True) := by
        unfold writeBlock
        split
        · exact SafePD.triv SafePD.guard
        · exact SafePD.pure trivial
      refine Safe.bind' (hwr r.2 hw) (fun r2 hr2 => ?_)
      have h2 : r2.2.rest.length ≤ r.2.rest.length := by omega
      refine Safe.mono (ih _ _ r2.2 (by simp only [Cur.Within] at *; omega) (by omega))
        (fun r3 hr3 => ⟨trivial, by omega⟩)
    · exact Safe.pure' ⟨trivial, Nat.le_refl _⟩

theorem sp_streamBlocks (inflate : Bytes → Nat → Bool) (limit : Nat) (out : Option Nat) (remaining : Nat) :
    SafePD BB inp 0 (streamBlocks inflate limit (inp.length + 1) out remaining) (fun _ => True) :=
  fun c hc => safe_streamBlocks inflate limit _ out remaining c hc (by simp only [Cur.Within] at hc; omega)

theorem sp_input : SafePD BB inp 0 P.input (fun r => r = inp) :=
  fun _ _ => Safe.pure' ⟨rfl, Nat.le_refl _⟩

theorem sp_io {o : Option α} : SafePD BB inp 0 (io o) (fun _ => True) :=
  SafePD.ofOption (fun _ _ => trivial)

theorem sp_exec (inflate : Bytes → Nat → Bool) (limit : Nat) (fs : Fs.FS) (ti : Option UInt8) (c : Cmd) :
    SafePD BB inp 0 (exec inflate limit fs ti c) (fun _ => True) := by
  unfold exec
  split
  · refine SafePD.step (SafePD.ofOption (Q := fun _ => True) (fun _ _ => trivial)) (fun _ _ => ?_)
    refine SafePD.step sp_io (fun _ _ => ?_)
    refine SafePD.step sp_io (fun _ _ => ?_)
    refine SafePD.step SafePD.guard (fun _ _ => ?_)
    refine SafePD.step SafePD.guard (fun _ _ => ?_)
    exact SafePD.pure trivial
  · refine SafePD.step (SafePD.ofOption (Q := fun _ => True) (fun _ _ => trivial)) (fun _ _ => ?_)
    refine SafePD.step sp_io (fun _ _ => ?_)
    refine SafePD.step SafePD.guard (fun _ _ => ?_)
    refine SafePD.step SafePD.guard (fun _ _ => ?_)
    exact SafePD.pure trivial
  · refine SafePD.step (SafePD.ofOption (Q := fun _ => True) (fun _ _ => trivial)) (fun _ _ => ?_)
    refine SafePD.step sp_io (fun _ _ => ?_)
    refine SafePD.step sp_io (fun _ _ => ?_)
    refine SafePD.step SafePD.guard (fun _ _ => ?_)
    refine SafePD.step SafePD.guard (fun _ _ => ?_)
    exact SafePD.pure trivial
  · refine SafePD.step (SafePD.ofOption (Q := fun _ => True) (fun _ _ => trivial)) (fun _ _ => ?_)
    refine SafePD.step sp_io (fun _ _ => ?_)
    refine SafePD.step sp_io (fun _ _ => ?_)
    exact SafePD.pure trivial
  · next op offset fileSize expansion path =>
    dsimp only
    split
    · refine SafePD.step sp_io (fun _ _ => ?_)
      refine SafePD.step sp_input (fun patch hp => ?_)
      subst hp
      split
      · refine SafePD.step SafePD.guard (fun _ _ => ?_)
        refine SafePD.step (sp_streamBlocks inflate limit _ _) (fun _ _ => ?_)
        refine SafePD.step SafePD.skip (fun _ _ => ?_)
        exact SafePD.pure trivial
      · refine SafePD.step (sp_streamBlocks inflate limit _ _) (fun _ _ => ?_)
        refine SafePD.step SafePD.skip (fun _ _ => ?_)
        exact SafePD.pure trivial
    · exact SafePD.pure trivial
    · exact SafePD.pure trivial
    · refine SafePD.step sp_io (fun _ _ => ?_)
      exact SafePD.pure trivial
  · exact SafePD.pure trivial
  · exact SafePD.pure trivial
  · exact SafePD.pure trivial

/-- the chunk loop never runs out of fuel, never faults; it returns only from the `EndOfFile` arm -/
theorem safe_loop (inflate : Bytes → Nat → Bool) (limit : Nat) :
    ∀ (fuel : Nat) (fs : Fs.FS) (ti : Option UInt8) (c : Cur), c.Within inp → c.rest.length < fuel →
      Safe BB (loop inflate limit fuel fs ti inp c) (fun r => r.1.1 = Cmd.eof) := by
  intro fuel
  induction fuel with
  | zero => intro _ _ c _ h; omega
  | succ fuel ih =>
    intro fs ti c hc hf
    unfold loop
    refine Safe.bind' (sp_chunk c hc) (fun r hr => ?_)
    have hw : r.2.Within inp := by simp only [Cur.Within] at *; omega
    obtain ⟨cmd, c'⟩ := r
    have hstep : Safe BB (P.bind' (exec inflate limit fs ti cmd) (fun st => loop inflate limit fuel st.1 st.2) inp c')
        (fun r => r.1.1 = Cmd.eof) := by
      refine Safe.bind' (sp_exec inflate limit fs ti cmd c' hw) (fun r2 hr2 => ?_)
      exact ih _ _ r2.2 (by simp only [Cur.Within] at *; omega) (by simp only [] at *; omega)
    cases cmd <;> first | exact hstep | exact Safe.pure' rfl

theorem sp_header : SafePD BB inp 0 header (fun _ => True) := by
  unfold header
  refine SafePD.step SafePD.skip (fun _ _ => ?_)
  refine SafePD.step SafePD.take (fun _ _ => ?_)
  refine SafePD.step SafePD.guard (fun _ _ => ?_)
  exact SafePD.skip

theorem safe_apply (inflate : Bytes → Nat → Bool) (limit : Nat) (fs : Fs.FS) (b : Bytes) :
    Safe (budget b.length) (apply inflate limit fs b) (fun r => r.1 = Cmd.eof) := by
  unfold apply P.run
  refine Safe.bind' (Q := fun r => r.1.1 = Cmd.eof) ?_ (fun r hr => Safe.pure' hr)
  have hc0 : (⟨b, 0⟩ : Cur).Within b := Nat.le_refl _
  refine Safe.bind' (sp_header (inp := b) ⟨b, 0⟩ hc0) (fun r hr => ?_)
  have hw : r.2.Within b := by simp only [Cur.Within] at *; omega
  exact safe_loop inflate limit _ fs none r.2 hw (by simp only [Cur.Within] at hw; omega)

end Patch
/-! ### execlookup / bootdata -/
namespace Exec

theorem safe_charAt {B : Nat} (file : Bytes) (pos : Nat) : Safe B (charAt true file pos) (fun _ => True) := by
  unfold charAt
  simp only [if_true]
  split <;> exact Safe.pure trivial

theorem safe_collect {B : Nat} (file : Bytes) : ∀ (fuel pos : Nat) (acc : Bytes),
    Safe B (collect true file fuel pos acc) (fun _ => True) := by
  intro fuel
  induction fuel with
  | zero => intro _ _; exact Safe.pure trivial
  | succ fuel ih =>
    intro pos acc
    unfold collect
    refine Safe.bind (safe_charAt file pos) (fun r _ => ?_)
    split
    · split
      · exact Safe.pure trivial
      · exact ih _ _
    · exact Safe.pure trivial

theorem safe_findNeedle {B : Nat} (file : Bytes) (needle : String) :
    Safe B (findNeedle true file needle) (fun _ => True) := by
  unfold findNeedle
  split
  · exact Safe.pure trivial
  · exact Safe.bind (safe_collect file _ _ _) (fun _ _ => Safe.pure trivial)

theorem safe_extract (file : Option Bytes) :
    Safe (budget (file.getD []).length) (extractFrontierUrl true file) (fun _ => True) := by
  unfold extractFrontierUrl
  simp only [if_true]
  refine Safe.bind (Q := fun f => file = some f) (Safe.ofOption (fun a h => h)) (fun f hf => ?_)
  subst hf
  refine Safe.bind (Safe.alloc (budget_ge _)) (fun _ _ => ?_)
  refine Safe.bind (safe_findNeedle f _) (fun r _ => ?_)
  split
  · exact Safe.pure trivial
  · refine Safe.bind (safe_findNeedle f _) (fun r2 _ => ?_)
    split
    · exact Safe.pure trivial
    · exact Safe.fail

theorem safe_bootData (d : Bool) (ver : Option Bytes) :
    Safe (budget (ver.getD []).length) (bootData d ver) (fun _ => True) := by
  unfold bootData
  split
  · split
    · split
      · exact Safe.bind (Safe.alloc (budget_ge _)) (fun _ _ => Safe.pure trivial)
      · exact Safe.fail
    · exact Safe.fail
  · exact Safe.fail

end Exec

end Physis.F
