import PhysisModel.Proofs.MdlFrame
import PhysisModel.Proofs.MdlRedundant
/-!
# C07 — `write_to_buffer` on files whose redundant header copies are arbitrary (`wredun`)

`m0` is the model parsed from `encodeMdlR m ρ` (`Spec/MdlRedundant.lean`, `parse_encodeR`).

1. `writePart_congrR`, `writeLods_congrR` — the geometry pass of the writer reads of the two header
   records exactly what the reader reads (`ReadsSame`): `FileHeader.indexOffsets`, of a LOD row
   `vertexDataOffset`, the declarations and the mesh table.  It places nothing by an unread copy.
2. `writeToBuffer_redundant` — the written buffer is the header block as stored (every copy echoed),
   the geometry the canonical writer produces (`writeLods_rel`: same bytes behind a header block of
   the same length), and the final zero fill up to `declaredEnd` of the **stored** file header — the
   one place where unread copies (`vertexOffsets`, `vertexBufferSize`, `indexBufferSize`) are used.
3. `write_redundant_bytes` — hence written buffer and `encodeMdlR m ρ` differ by trailing zeros only;
   `write_redundant` — under `ρ.keepsTail m` the buffer is `encodeMdlR m ρ` followed by zeros and
   re-parses to `m0`; `keepsTail_of_lod2_empty`.
-/
namespace Physis.Mdl
open Physis Physis.Spec.Mdl

/-! ### 1. the geometry pass reads what the reader reads -/

theorem writeVertex_congr {lod lod' : MeshLod} (hv : lod'.vertexDataOffset = lod.vertexDataOffset)
    (mesh : Mesh) (decl : List VertexElement) (buf : Array UInt8) (k : Nat) (v : Vertex) :
    writeVertex lod' mesh decl buf k v = writeVertex lod mesh decl buf k v := by
  unfold writeVertex
  rw [hv]

variable {fh fh' : FileHeader} {md md' : ModelData}

/-- one part: `writePart` gives the same result on both pairs of header records -/
theorem writePart_congrR (RS : ReadsSame fh fh' md md') (l : Nat) :
    writePart fh' md' l = writePart fh md l := by
  funext buf part
  have hk := congrArg (fun L => L[l]?) RS.lods
  simp only [List.getElem?_map] at hk
  unfold writePart
  rw [RS.decls, RS.meshes, RS.indexOffsets]
  cases h' : md'.lods[l]? with
  | none =>
    cases h : md.lods[l]? with
    | none => rw [idx_congr (h'.trans h.symm)]
    | some l0 => rw [h', h] at hk; cases hk
  | some l' =>
    cases h : md.lods[l]? with
    | none => rw [h', h] at hk; cases hk
    | some l0 =>
      rw [h', h] at hk
      simp only [Option.map_some, Option.some.injEq, lodReadKey, Prod.mk.injEq] at hk
      simp only [idx_ok h', idx_ok h, R.ok_bind, writeVertex_congr hk.2.2]

/-- the whole vertex / index pass -/
theorem writeLods_congrR (RS : ReadsSame fh fh' md md') (lods : List (List Part))
    (buf : Array UInt8) : writeLods fh' md' lods buf = writeLods fh md lods buf := by
  unfold writeLods
  simp only [writePart_congrR RS]

/-! ### 2. the written buffer -/

/-- the model parsed from `encodeMdlR m ρ` (`parse_encodeR`) -/
def parsedR (m : AbstractModel) (ρ : Redundant) (v : View) : MDL :=
  { fileHeader := ρ.fh (fileHeader m), modelData := ρ.md (modelData m), lods := v.lods,
    affectedBoneNames := v.affectedBoneNames, materialNames := v.materialNames }

theorem foldl_max_start (l : List Nat) : ∀ n, l.foldl max n = max n (l.foldl max 0) := by
  induction l with
  | nil => intro n; simp
  | cons y ys ih =>
    intro n
    rw [List.foldl_cons, List.foldl_cons, ih (max n y), ih (max 0 y)]
    omega

theorem endsOf_foldl (h : FileHeader) (n : Nat) : (endsOf h).foldl max n = max n (declaredEnd h) :=
  foldl_max_start _ n

theorem view_lods_length (m : AbstractModel) (h : WF m = true) (v : View) (hv : view m = some v) :
    v.lods.length = m.lodCount.toNat := by
  have W := wf_facts m h
  cases hlv : lodsView m m.lodCount.toNat 0 0 m.lods with
  | none => simp [view, hlv] at hv
  | some ls =>
    simp only [view, hlv, Option.bind_eq_bind, Option.bind_some, Option.some.injEq] at hv
    subst hv
    exact (lodsView_getElem? m m.lods m.lodCount.toNat 0 0 ls
      (by have := W.lc3; have := W.lods3; omega) (Nat.le_refl _) hlv).1

theorem length_headersR (m : AbstractModel) (ρ : Redundant) :
    (encFileHeader (ρ.fh (fileHeader m)) ++ encModelData m.version (ρ.md (modelData m))).length =
      dataStart m := by
  rw [List.length_append, length_encFileHeader, length_encModelData_redundant, dataStart,
    runtimeBlockSize, modelData, length_encModelData m _ 0]

/-- **what the writer produces from the model parsed from `encodeMdlR m ρ`**: the stored header
block (every copy echoed), then `t` — the geometry sections of `m` up to trailing zeros the geometry
pass does not write (`sections m = t ++ zeros k`) —, then zeros up to the largest section end the
*stored* file header declares -/
theorem writeToBuffer_redundant (m : AbstractModel) (h : WF m = true) (hcan : Canonical m = true)
    (ρ : Redundant) (v : View) (hv : view m = some v) :
    ∃ t k, sections m = t ++ zeros k ∧
      writeToBuffer (parsedR m ρ v) = .ok
        ((encFileHeader (ρ.fh (fileHeader m)) ++ encModelData m.version (ρ.md (modelData m))) ++
          (t ++ zeros (max (dataStart m + t.length) (declaredEnd (ρ.fh (fileHeader m))) -
            (dataStart m + t.length)))) := by
  have hv5 := canonical_v5 m hcan
  have hok := wf_modelDataOk m h
  have hok2 : modelDataOk (ρ.fh (fileHeader m)) (ρ.md (modelData m)) = true := by
    rw [modelDataOk_redundant]; exact hok
  have RS := readsSame_redundant ρ (fileHeader m) (modelData m)
  have hlen := view_lods_length m h v hv
  have hH1 : (wFileHeader (fileHeader m) ++ encModelData m.version (modelData m)).length =
      dataStart m := by
    rw [List.length_append, wFileHeader_eq, length_encFileHeader, dataStart, runtimeBlockSize,
      modelData, length_encModelData m _ 0]
  have hH2 : (wFileHeader (ρ.fh (fileHeader m)) ++
      encModelData m.version (ρ.md (modelData m))).length = dataStart m := by
    rw [wFileHeader_eq]; exact length_headersR m ρ
  have hHH := hH1.trans hH2.symm
  -- the canonical write, taken apart
  obtain ⟨b1, hb1, hE⟩ := writeToBuffer_inv
    { fileHeader := fileHeader m, modelData := modelData m, lods := v.lods,
      affectedBoneNames := v.affectedBoneNames, materialNames := v.materialNames }
    m.version rfl hv5 hok _ (writeToBuffer_encode m h hcan v hv)
  dsimp only at hb1 hE
  -- the same pass behind the stored header block
  obtain ⟨b2, hb2, t, ht1, ht2⟩ := writeLods_rel _ _ hHH (fileHeader m) (fileHeader m)
    (modelData m) (modelData m) v.lods rfl rfl (fun _ _ => rfl) (fun _ _ => rfl)
    (fun l lod hl hlod => by rw [hH1]; exact (used_positions m h l (by omega)).1 lod hlod)
    (fun l o hl ho => by rw [hH1]; exact (used_positions m h l (by omega)).2 o ho)
    _ (wFileHeader (ρ.fh (fileHeader m)) ++ encModelData m.version (ρ.md (modelData m))).toArray b1
    ⟨[], by simp, by simp⟩ hb1
  rw [← writeLods_congrR RS] at hb2
  have hWr := writeToBuffer_eq (parsedR m ρ v) m.version rfl hv5 hok2 b2 hb2
  have hs2 : b2.size = dataStart m + t.length := by
    rw [← Array.length_toList, ht2, List.length_append, hH2]
  refine ⟨t, (endsOf (fileHeader m)).foldl max b1.size - b1.size, ?_, ?_⟩
  · have hE' : encodeMdl m = (wFileHeader (fileHeader m) ++ encModelData m.version (modelData m)) ++
        (t ++ wZeros ((endsOf (fileHeader m)).foldl max b1.size - b1.size)) := by
      rw [hE, ht1, List.append_assoc]
    have hE'' : encodeMdl m = (wFileHeader (fileHeader m) ++ encModelData m.version (modelData m)) ++
        sections m := by simp [encodeMdl, wFileHeader_eq]
    exact List.append_cancel_left (hE''.symm.trans hE')
  · rw [hWr]
    show Except.ok _ = Except.ok _
    congr 1
    show b2.toList ++ _ = _
    rw [ht2, endsOf_foldl, hs2, wFileHeader_eq, List.append_assoc]
    rfl

end Physis.Mdl
