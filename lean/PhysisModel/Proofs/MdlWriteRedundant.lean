import PhysisModel.Proofs.MdlFrame
import PhysisModel.Proofs.MdlRedundant
/-!
# C07 — `write_to_buffer` on files whose redundant header copies are arbitrary (`wredun`)

`m0` is the model parsed from `encodeMdlR m ρ` (`Spec/MdlRedundant.lean`, `parse_encodeR`).

1. `writePart_congrR`, `writeLods_congrR` — the geometry pass of the writer reads of the two header
   records exactly what the reader reads (`ReadsSame`): `FileHeader.indexOffsets`, of a LOD row
   `vertexDataOffset`, the declarations and the mesh table.  It places nothing by an unread copy.
2. `writeToBuffer_redundant` — the written buffer is the header block as stored (every copy echoed),
   the geometry the canonical writer produces (`writeLods_rel`: same bytes behind a header block of
   the same length), and the final zero fill up to `declaredEnd` of the **stored** file header — the
   one place where unread copies (`vertexOffsets`, `vertexBufferSize`, `indexBufferSize`) are used.
3. `write_redundant_bytes` — hence written buffer and `encodeMdlR m ρ` differ by trailing zeros only;
   `write_redundant` — under `ρ.keepsTail m` the buffer is `encodeMdlR m ρ` followed by zeros and
   re-parses to `m0`; `keepsTail_of_lod2_empty`.
-/
namespace Physis.Mdl
open Physis Physis.Spec.Mdl

/-! ### 1. the geometry pass reads what the reader reads -/

theorem writeVertex_congr {lod lod' : MeshLod} (hv : lod'.vertexDataOffset = lod.vertexDataOffset)
    (mesh : Mesh) (decl : List VertexElement) (buf : Array UInt8) (k : Nat) (v : Vertex) :
    writeVertex lod' mesh decl buf k v = writeVertex lod mesh decl buf k v := by
  unfold writeVertex
  rw [hv]

variable {fh fh' : FileHeader} {md md' : ModelData}

/-- one part: `writePart` gives the same result on both pairs of header records -/
theorem writePart_congrR (RS : ReadsSame fh fh' md md') (l : Nat) :
    writePart fh' md' l = writePart fh md l := by
  funext buf part
  have hk := congrArg (fun L => L[l]?) RS.lods
  simp only [List.getElem?_map] at hk
  unfold writePart
  rw [RS.decls, RS.meshes, RS.indexOffsets]
  cases h' : md'.lods[l]? with
  | none =>
    cases h : md.lods[l]? with
    | none => rw [idx_congr (h'.trans h.symm)]
    | some l0 => rw [h', h] at hk; cases hk
  | some l' =>
    cases h : md.lods[l]? with
    | none => rw [h', h] at hk; cases hk
    | some l0 =>
      rw [h', h] at hk
      simp only [Option.map_some, Option.some.injEq, lodReadKey, Prod.mk.injEq] at hk
      simp only [idx_ok h', idx_ok h, R.ok_bind, writeVertex_congr hk.2.2]

/-- the whole vertex / index pass -/
theorem writeLods_congrR (RS : ReadsSame fh fh' md md') (lods : List (List Part))
    (buf : Array UInt8) : writeLods fh' md' lods buf = writeLods fh md lods buf := by
  unfold writeLods
  simp only [writePart_congrR RS]

/-! ### 2. the written buffer -/

/-- the model parsed from `encodeMdlR m ρ` (`parse_encodeR`) -/
def parsedR (m : AbstractModel) (ρ : Redundant) (v : View) : MDL :=
  { fileHeader := ρ.fh (fileHeader m), modelData := ρ.md (modelData m), lods := v.lods,
    affectedBoneNames := v.affectedBoneNames, materialNames := v.materialNames }

theorem foldl_max_start (l : List Nat) : ∀ n, l.foldl max n = max n (l.foldl max 0) := by
  induction l with
  | nil => intro n; simp
  | cons y ys ih =>
    intro n
    rw [List.foldl_cons, List.foldl_cons, ih (max n y), ih (max 0 y)]
    omega

theorem endsOf_foldl (h : FileHeader) (n : Nat) : (endsOf h).foldl max n = max n (declaredEnd h) :=
  foldl_max_start _ n

theorem view_lods_length (m : AbstractModel) (h : WF m = true) (v : View) (hv : view m = some v) :
    v.lods.length = m.lodCount.toNat := by
  have W := wf_facts m h
  cases hlv : lodsView m m.lodCount.toNat 0 0 m.lods with
  | none => simp [view, hlv] at hv
  | some ls =>
    simp only [view, hlv, Option.bind_eq_bind, Option.bind_some, Option.some.injEq] at hv
    subst hv
    exact (lodsView_getElem? m m.lods m.lodCount.toNat 0 0 ls
      (by have := W.lc3; have := W.lods3; omega) (Nat.le_refl _) hlv).1

theorem length_headersR (m : AbstractModel) (ρ : Redundant) :
    (encFileHeader (ρ.fh (fileHeader m)) ++ encModelData m.version (ρ.md (modelData m))).length =
      dataStart m := by
  rw [List.length_append, length_encFileHeader, length_encModelData_redundant, dataStart,
    runtimeBlockSize, modelData, length_encModelData m _ 0]

/-- **what the writer produces from the model parsed from `encodeMdlR m ρ`**: the stored header
block (every copy echoed), then `t` — the geometry sections of `m` up to trailing zeros the geometry
pass does not write (`sections m = t ++ zeros k`) —, then zeros up to the largest section end the
*stored* file header declares -/
theorem writeToBuffer_redundant (m : AbstractModel) (h : WF m = true) (hcan : Canonical m = true)
    (ρ : Redundant) (v : View) (hv : view m = some v) :
    ∃ t k, sections m = t ++ zeros k ∧
      writeToBuffer (parsedR m ρ v) = .ok
        ((encFileHeader (ρ.fh (fileHeader m)) ++ encModelData m.version (ρ.md (modelData m))) ++
          (t ++ zeros (max (dataStart m + t.length) (declaredEnd (ρ.fh (fileHeader m))) -
            (dataStart m + t.length)))) := by
  have hv5 := canonical_v5 m hcan
  have hok := wf_modelDataOk m h
  have hok2 : modelDataOk (ρ.fh (fileHeader m)) (ρ.md (modelData m)) = true := by
    rw [modelDataOk_redundant]; exact hok
  have RS := readsSame_redundant ρ (fileHeader m) (modelData m)
  have hlen := view_lods_length m h v hv
  have hH1 : (wFileHeader (fileHeader m) ++ encModelData m.version (modelData m)).length =
      dataStart m := by
    rw [List.length_append, wFileHeader_eq, length_encFileHeader, dataStart, runtimeBlockSize,
      modelData, length_encModelData m _ 0]
  have hH2 : (wFileHeader (ρ.fh (fileHeader m)) ++
      encModelData m.version (ρ.md (modelData m))).length = dataStart m := by
    rw [wFileHeader_eq]; exact length_headersR m ρ
  have hHH := hH1.trans hH2.symm
  -- the canonical write, taken apart
  obtain ⟨b1, hb1, hE⟩ := writeToBuffer_inv
    { fileHeader := fileHeader m, modelData := modelData m, lods := v.lods,
      affectedBoneNames := v.affectedBoneNames, materialNames := v.materialNames }
    m.version rfl hv5 hok _ (writeToBuffer_encode m h hcan v hv)
  dsimp only at hb1 hE
  -- the same pass behind the stored header block
  obtain ⟨b2, hb2, t, ht1, ht2⟩ := writeLods_rel _ _ hHH (fileHeader m) (fileHeader m)
    (modelData m) (modelData m) v.lods rfl rfl (fun _ _ => rfl) (fun _ _ => rfl)
    (fun l lod hl hlod => by rw [hH1]; exact (used_positions m h l (by omega)).1 lod hlod)
    (fun l o hl ho => by rw [hH1]; exact (used_positions m h l (by omega)).2 o ho)
    _ (wFileHeader (ρ.fh (fileHeader m)) ++ encModelData m.version (ρ.md (modelData m))).toArray b1
    ⟨[], by simp, by simp⟩ hb1
  rw [← writeLods_congrR RS] at hb2
  have hWr := writeToBuffer_eq (parsedR m ρ v) m.version rfl hv5 hok2 b2 hb2
  have hs2 : b2.size = dataStart m + t.length := by
    rw [← Array.length_toList, ht2, List.length_append, hH2]
  refine ⟨t, (endsOf (fileHeader m)).foldl max b1.size - b1.size, ?_, ?_⟩
  · have hE' : encodeMdl m = (wFileHeader (fileHeader m) ++ encModelData m.version (modelData m)) ++
        (t ++ wZeros ((endsOf (fileHeader m)).foldl max b1.size - b1.size)) := by
      rw [hE, ht1, List.append_assoc]
    have hE'' : encodeMdl m = (wFileHeader (fileHeader m) ++ encModelData m.version (modelData m)) ++
        sections m := by simp [encodeMdl, wFileHeader_eq]
    exact List.append_cancel_left (hE''.symm.trans hE')
  · rw [hWr]
    show Except.ok _ = Except.ok _
    congr 1
    show b2.toList ++ _ = _
    rw [ht2, endsOf_foldl, hs2, wFileHeader_eq, List.append_assoc]
    rfl

/-! ### 3. bytes of the written file; re-parse -/

theorem zeros_append (a b : Nat) : zeros a ++ zeros b = zeros (a + b) := by
  simp [zeros, List.replicate_append_replicate]

theorem length_encodeMdlR (m : AbstractModel) (ρ : Redundant) :
    (encodeMdlR m ρ).length = (encodeMdl m).length := by
  simp only [encodeMdlR, encodeMdl, List.length_append, length_encFileHeader,
    length_encModelData_redundant]

theorem length_encodeMdl_sections (m : AbstractModel) :
    (encodeMdl m).length = dataStart m + (sections m).length := by
  rw [length_encodeMdl, length_sections]

/-- **the writer echoes every stored copy and moves nothing**: the written buffer and the file it
was parsed from differ by trailing zeros only — the buffer is the file followed by zeros (up to the
declared end), or the file is the buffer followed by zeros (index padding behind the last mesh that
no declared section end covers any more) -/
theorem write_redundant_bytes (m : AbstractModel) (h : WF m = true) (hcan : Canonical m = true)
    (ρ : Redundant) (v : View) (hv : view m = some v) :
    ∃ buf k, writeToBuffer (parsedR m ρ v) = .ok buf ∧
      (buf = encodeMdlR m ρ ++ zeros k ∨ encodeMdlR m ρ = buf ++ zeros k) := by
  obtain ⟨t, k1, hsec, hw⟩ := writeToBuffer_redundant m h hcan ρ v hv
  generalize max (dataStart m + t.length) (declaredEnd (ρ.fh (fileHeader m))) -
    (dataStart m + t.length) = z at hw
  have hR : encodeMdlR m ρ = (encFileHeader (ρ.fh (fileHeader m)) ++
      encModelData m.version (ρ.md (modelData m))) ++ (t ++ zeros k1) := by
    rw [encodeMdlR, hsec, List.append_assoc]
  by_cases hz : k1 ≤ z
  · refine ⟨_, z - k1, hw, Or.inl ?_⟩
    rw [hR, show zeros z = zeros k1 ++ zeros (z - k1) by rw [zeros_append]; congr 1; omega]
    simp only [List.append_assoc]
  · refine ⟨_, k1 - z, hw, Or.inr ?_⟩
    rw [hR, show zeros k1 = zeros z ++ zeros (k1 - z) by rw [zeros_append]; congr 1; omega]
    simp only [List.append_assoc]

/-- a file `encodeMdlR m ρ` followed by arbitrary bytes parses like `encodeMdlR m ρ` -/
theorem parse_encodeR_append (m : AbstractModel) (h : WF m = true) (hw : noWeightsByte4 m = true)
    (ρ : Redundant) (v : View) (hv : view m = some v) (extra : Bytes) :
    fromExisting (encodeMdlR m ρ ++ extra) = .ok (parsedR m ρ v) := by
  have hS : HasSections m (encodeMdlR m ρ ++ extra) := by
    obtain ⟨pre, post, e, hl⟩ := (hasSections_redundant m ρ).sec
    exact ⟨pre, post ++ extra, by rw [e]; simp only [List.append_assoc], hl⟩
  have hok2 : modelDataOk (ρ.fh (fileHeader m)) (ρ.md (modelData m)) = true := by
    rw [modelDataOk_redundant]; exact wf_modelDataOk m h
  have e : encodeMdlR m ρ ++ extra = encFileHeader (ρ.fh (fileHeader m)) ++
      (encModelData (ρ.fh (fileHeader m)).version (ρ.md (modelData m)) ++ (sections m ++ extra)) := by
    simp only [encodeMdlR, List.append_assoc]; rfl
  exact hS.parse_readsSame (by rw [e]; exact parseFileHeader_enc _ _)
    (parseModelData_enc _ _ hok2 _) (readsSame_redundant ρ _ _) h hw v hv

/-- **write ∘ parse on files with arbitrary redundant copies**: when some declared section end
reaches the end of the file (`keepsTail`), the model parsed from `encodeMdlR m ρ` is written as that
very file followed by zeros up to the declared end, and the written buffer re-parses to the same
in-memory model -/
theorem write_redundant (m : AbstractModel) (h : WF m = true) (hcan : Canonical m = true)
    (ρ : Redundant) (hend : ρ.keepsTail m = true) (v : View) (hv : view m = some v) :
    ∃ buf, writeToBuffer (parsedR m ρ v) = .ok buf ∧
      buf = encodeMdlR m ρ ++
        zeros (declaredEnd (ρ.fh (fileHeader m)) - (encodeMdlR m ρ).length) ∧
      fromExisting buf = .ok (parsedR m ρ v) := by
  obtain ⟨t, k1, hsec, hw⟩ := writeToBuffer_redundant m h hcan ρ v hv
  have hend' : (encodeMdl m).length ≤ declaredEnd (ρ.fh (fileHeader m)) := by
    simpa [Redundant.keepsTail] using hend
  have hlen := length_encodeMdl_sections m
  rw [hsec, List.length_append] at hlen
  have hzl : (zeros k1).length = k1 := by simp [zeros]
  rw [hzl] at hlen
  have hR : encodeMdlR m ρ = (encFileHeader (ρ.fh (fileHeader m)) ++
      encModelData m.version (ρ.md (modelData m))) ++ (t ++ zeros k1) := by
    rw [encodeMdlR, hsec, List.append_assoc]
  have hbuf : (encFileHeader (ρ.fh (fileHeader m)) ++ encModelData m.version (ρ.md (modelData m))) ++
      (t ++ zeros (max (dataStart m + t.length) (declaredEnd (ρ.fh (fileHeader m))) -
        (dataStart m + t.length))) =
      encodeMdlR m ρ ++ zeros (declaredEnd (ρ.fh (fileHeader m)) - (encodeMdlR m ρ).length) := by
    have hzz : zeros (max (dataStart m + t.length) (declaredEnd (ρ.fh (fileHeader m))) -
        (dataStart m + t.length)) =
        zeros k1 ++ zeros (declaredEnd (ρ.fh (fileHeader m)) - (encodeMdl m).length) := by
      rw [zeros_append]; congr 1; omega
    rw [length_encodeMdlR, hR, hzz]
    simp only [List.append_assoc]
  refine ⟨_, hw, hbuf, ?_⟩
  rw [hbuf]
  exact parse_encodeR_append m h (canonical_noWeightsByte4 m hcan) ρ v hv _

/-- with fewer than three LODs in use every `ρ` keeps the tail: the third LOD of a canonical model
is empty, so its index offset — kept by `ρ` — is the length of the file -/
theorem keepsTail_of_lodCount (m : AbstractModel) (h : WF m = true) (hcan : Canonical m = true)
    (hc : m.lodCount.toNat < 3) (ρ : Redundant) : ρ.keepsTail m = true := by
  have W := wf_facts m h
  have h3 := W.lods3
  obtain ⟨al, hal⟩ : ∃ al, m.lods[2]? = some al :=
    ⟨m.lods[2]'(by omega), List.getElem?_eq_getElem _⟩
  have hempty : al.meshes = [] := by
    simp only [Canonical, Bool.and_eq_true, List.all_eq_true, and_assoc] at hcan
    obtain ⟨_, _, _, hdrop, _⟩ := hcan
    have : al ∈ m.lods.drop m.lodCount.toNat := by
      rw [List.mem_iff_getElem?]
      refine ⟨2 - m.lodCount.toNat, ?_⟩
      rw [List.getElem?_drop, ← hal]; congr 1; omega
    simpa using hdrop al this
  have hio := header_indexOffset m h 2 al hal
  have hsum : (m.lods.map lodSize).sum = psum lodSize m.lods 3 :=
    sum_eq_psum lodSize m.lods 3 (by rw [List.drop_eq_nil_of_le (by omega)]; intro x hx; simp at hx)
  have hps : psum lodSize m.lods 3 = psum lodSize m.lods 2 + lodSize al :=
    psum_succ lodSize m.lods 2 al hal
  have hlen := length_encodeMdl m
  have hfl := W.fileLen
  have hz : lodSize al = 0 := lodSize_of_nil al hempty
  have hvz : lodVertexSize al = 0 := by simp [lodVertexSize, hempty]
  have hmem := ends_mem (ρ.fh (fileHeader m)).vertexOffsets (ρ.fh (fileHeader m)).indexOffsets
    (ρ.fh (fileHeader m)).vertexBufferSize (ρ.fh (fileHeader m)).indexBufferSize 2 _
    (ρ.fh (fileHeader m)).indexBufferSize.c hio rfl
  have hle := (le_foldl_max _ 0).2 _ hmem
  simp only [Redundant.keepsTail, decide_eq_true_eq]
  rw [toUInt32_toNat _ (by omega)] at hle
  unfold declaredEnd
  omega

theorem getElem?_lods_redundant (ρ : Redundant) (L : List MeshLod) :
    ∀ (j i : Nat), (ρ.lods j L)[i]? = L[i]?.map (ρ.lod (j + i)) := by
  induction L with
  | nil => intro j i; simp [Redundant.lods]
  | cons x xs ih =>
    intro j i
    cases i with
    | zero => simp [Redundant.lods]
    | succ i =>
      simp only [Redundant.lods, List.getElem?_cons_succ, ih (j + 1) i]
      rw [show j + 1 + i = j + (i + 1) by omega]

/-! ### 4. without `keepsTail`: the re-parse cannot return anything else -/

/-- the stage after the header parses is monotone in the file: every read at or after `P` that
succeeds in `f1` gives the same bytes in `f2`, all sections of the LODs in use start at or after `P` -/
theorem afterHeaders_le {P : Nat} {f1 f2 : Array UInt8} (hr : ReadsLe P f1 f2) (fh : FileHeader)
    (md : ModelData)
    (hv : ∀ i lod, i < md.header.lodCount.toNat → md.lods[i]? = some lod →
      P ≤ lod.vertexDataOffset.toNat)
    (hio : ∀ i o, i < md.header.lodCount.toNat → fh.indexOffsets.get? i = some o → P ≤ o.toNat) :
    LeR (afterHeaders f1 fh md) (afterHeaders f2 fh md) := by
  unfold afterHeaders
  refine LeR.bind (LeR.refl _) (fun _ _ => LeR.bind (LeR.refl _) (fun _ _ =>
    LeR.bind ?_ (fun _ _ => LeR.refl _)))
  refine LeR.mapM _ (fun i hi => ?_)
  have hi' := List.mem_range.mp hi
  exact readLod_le hr fh fh md md.lods i rfl rfl (fun lod h => hv i lod hi' h)
    (fun o h => hio i o hi' h)

/-- **for every `ρ`**: the model parsed from `encodeMdlR m ρ` is written to a buffer whose re-parse,
if it returns at all, returns that very model — the stale copies cannot make the reader report
anything else.  (Under `keepsTail` the re-parse does return: `write_redundant`.  Otherwise the buffer
lacks trailing zero index padding of the file, and what is missing here is that no read reaches it.) -/
theorem write_redundant_reparse (m : AbstractModel) (h : WF m = true) (hcan : Canonical m = true)
    (ρ : Redundant) (v : View) (hv : view m = some v) :
    ∃ buf, writeToBuffer (parsedR m ρ v) = .ok buf ∧
      ∀ m1, fromExisting buf = .ok m1 → m1 = parsedR m ρ v := by
  obtain ⟨t, k1, hsec, hw⟩ := writeToBuffer_redundant m h hcan ρ v hv
  generalize max (dataStart m + t.length) (declaredEnd (ρ.fh (fileHeader m))) -
    (dataStart m + t.length) = z at hw
  have hnw := canonical_noWeightsByte4 m hcan
  have hR : encodeMdlR m ρ = (encFileHeader (ρ.fh (fileHeader m)) ++
      encModelData m.version (ρ.md (modelData m))) ++ (t ++ zeros k1) := by
    rw [encodeMdlR, hsec, List.append_assoc]
  refine ⟨_, hw, fun m1 h1 => ?_⟩
  by_cases hz : k1 ≤ z
  · -- the buffer is the file followed by zeros
    have e : (encFileHeader (ρ.fh (fileHeader m)) ++ encModelData m.version (ρ.md (modelData m))) ++
        (t ++ zeros z) = encodeMdlR m ρ ++ zeros (z - k1) := by
      rw [hR, show zeros z = zeros k1 ++ zeros (z - k1) by rw [zeros_append]; congr 1; omega]
      simp only [List.append_assoc]
    rw [e, parse_encodeR_append m h hnw ρ v hv] at h1
    injection h1 with h1; exact h1.symm
  · -- the file is the buffer followed by zeros
    have hok2 : modelDataOk (ρ.fh (fileHeader m)) (ρ.md (modelData m)) = true := by
      rw [modelDataOk_redundant]; exact wf_modelDataOk m h
    have hY : zeros k1 = zeros z ++ zeros (k1 - z) := by rw [zeros_append]; congr 1; omega
    -- both files: header stage
    have hfhB : parseFileHeader ((encFileHeader (ρ.fh (fileHeader m)) ++
        encModelData m.version (ρ.md (modelData m))) ++ (t ++ zeros z)) =
        .ok (ρ.fh (fileHeader m), encModelData (ρ.fh (fileHeader m)).version (ρ.md (modelData m)) ++
          (t ++ zeros z)) := by
      rw [List.append_assoc]; exact parseFileHeader_enc _ _
    have hfhF : parseFileHeader ((encFileHeader (ρ.fh (fileHeader m)) ++
        encModelData m.version (ρ.md (modelData m))) ++ ((t ++ zeros z) ++ zeros (k1 - z))) =
        .ok (ρ.fh (fileHeader m), encModelData (ρ.fh (fileHeader m)).version (ρ.md (modelData m)) ++
          ((t ++ zeros z) ++ zeros (k1 - z))) := by
      rw [List.append_assoc]; exact parseFileHeader_enc _ _
    have hF : encodeMdlR m ρ = (encFileHeader (ρ.fh (fileHeader m)) ++
        encModelData m.version (ρ.md (modelData m))) ++ ((t ++ zeros z) ++ zeros (k1 - z)) := by
      rw [hR, hY]; simp only [List.append_assoc]
    have hpF := parse_encodeR m h hnw ρ v hv
    rw [hF, fromExisting_of_headers hfhF (parseModelData_enc _ _ hok2 _)] at hpF
    rw [fromExisting_of_headers hfhB (parseModelData_enc _ _ hok2 _)] at h1
    have hRL := readsLe_append (encFileHeader (ρ.fh (fileHeader m)) ++
      encModelData m.version (ρ.md (modelData m))) (encFileHeader (ρ.fh (fileHeader m)) ++
      encModelData m.version (ρ.md (modelData m))) (t ++ zeros z) (zeros (k1 - z)) rfl
    rw [length_headersR] at hRL
    have hle := afterHeaders_le hRL (ρ.fh (fileHeader m)) (ρ.md (modelData m))
      (fun i lod hi hlod => by
        have hi' : i < m.lodCount.toNat := hi
        have hg := getElem?_lods_redundant ρ (modelData m).lods 0 i
        rw [show (ρ.md (modelData m)).lods = ρ.lods 0 (modelData m).lods from rfl, hg] at hlod
        cases h0 : (modelData m).lods[i]? with
        | none => rw [h0] at hlod; cases hlod
        | some lod0 =>
          rw [h0] at hlod
          simp only [Option.map_some, Option.some.injEq] at hlod
          subst hlod
          exact (used_positions m h i hi').1 lod0 h0)
      (fun i o hi ho => (used_positions m h i hi).2 o ho)
    cases hA : afterHeaders ((encFileHeader (ρ.fh (fileHeader m)) ++
        encModelData m.version (ρ.md (modelData m))) ++ (t ++ zeros z)).toArray
        (ρ.fh (fileHeader m)) (ρ.md (modelData m)) with
    | error e => rw [hA] at h1; cases h1
    | ok v1 =>
      rw [hA] at h1
      rw [hle v1 hA] at hpF
      injection h1 with h1
      injection hpF with hpF
      rw [← h1]; exact hpF

end Physis.Mdl
