import PhysisModel.Base.ParserAPbcLemmas
import PhysisModel.Model.C18Avfx
namespace Physis.C18Avfx
open Physis Physis.A

theorem skipPad_good (a b : Nat) : PGood (skipPad a b) := by unfold skipPad; pgood
theorem skipPad_nonInc (a b : Nat) : NonInc (skipPad a b) := by
  unfold skipPad; exact NonInc.ite NonInc.failP (NonInc.skip _)

theorem afterTag_good (t : UInt32) : PGood (afterTag t) := by
  unfold afterTag
  apply PGood.bind PGood.u32le
  intro size
  split
  · exact PGood.failP
  · exact PGood.failP
  · exact skipPad_good _ _
  · exact PGood.bind PGood.u8 (fun _ => skipPad_good _ _)
  · exact PGood.bind PGood.u32le (fun _ => skipPad_good _ _)

theorem afterTag_nonInc (t : UInt32) : NonInc (afterTag t) := by
  unfold afterTag
  apply NonInc.bind NonInc.u32le
  intro size
  split
  · exact NonInc.failP
  · exact NonInc.failP
  · exact skipPad_nonInc _ _
  · exact NonInc.bind NonInc.u8 (fun _ => skipPad_nonInc _ _)
  · exact NonInc.bind NonInc.u32le (fun _ => skipPad_nonInc _ _)

theorem block_good : PGood block := by
  have := afterTag_good
  unfold block; pgood

/-- a block that parses consumed its tag: the loop makes progress -/
theorem block_consumes : Consumes block := by
  unfold block
  exact Consumes.bind_left Consumes.u32be afterTag_nonInc

theorem reader_good : PGood reader := by
  unfold reader
  apply PGood.bind PGood.u32le; intro _
  apply PGood.bind PGood.u32le; intro size
  exact PGood.whileP block_good block_consumes

theorem fromExisting_good (b : Bytes) : Good (budget b.length) (fromExisting b) :=
  PGood.run reader_good b

end Physis.C18Avfx
