import PhysisModel.Model.Paths
import PhysisModel.Spec.Paths
namespace Physis.Paths
open Physis Physis.Spec.Paths

theorem digit_toNat (n : Nat) : (digit n).toNat = 48 + n % 10 := by
  unfold digit
  have : 48 + n % 10 < 256 := by omega
  simp [UInt8.toNat_ofNat, Nat.mod_eq_of_lt this]

theorem digit_inj {a b : Nat} (h : digit a = digit b) : a % 10 = b % 10 := by
  have := congrArg UInt8.toNat h
  rw [digit_toNat, digit_toNat] at this
  omega

theorem fmt04_length {n : Nat} (h : n < 10000) : (fmt04 n).length = 4 := by
  simp [fmt04, h]

theorem fmt04_inj {n m : Nat} (hn : n < 10000) (hm : m < 10000) (h : fmt04 n = fmt04 m) : n = m := by
  simp only [fmt04, hn, hm, if_true] at h
  injection h with h1 h; injection h with h2 h; injection h with h3 h; injection h with h4 _
  have := digit_inj h1; have := digit_inj h2; have := digit_inj h3; have := digit_inj h4
  omega

theorem parseDigits_fmt04 {n : Nat} (hn : n < 10000) : parseDigits (fmt04 n) = some n := by
  simp only [fmt04, hn, if_true, parseDigits, List.isEmpty_cons, Bool.false_eq_true, if_false,
    List.foldl_cons, List.foldl_nil, digit_toNat]
  have h1 : 48 ≤ 48 + n / 1000 % 10 ∧ 48 + n / 1000 % 10 ≤ 57 := by omega
  have h2 : 48 ≤ 48 + n / 100 % 10 ∧ 48 + n / 100 % 10 ≤ 57 := by omega
  have h3 : 48 ≤ 48 + n / 10 % 10 ∧ 48 + n / 10 % 10 ≤ 57 := by omega
  have h4 : 48 ≤ 48 + n % 10 ∧ 48 + n % 10 ≤ 57 := by omega
  simp only [h1, h2, h3, h4, and_self, if_true]
  congr 1
  omega

theorem slotFromAbbrev_slotAbbrev {s : Nat} {a : Bytes} (h : slotAbbrev s = some a) :
    slotFromAbbrev a = some s := by
  unfold slotAbbrev at h
  split at h <;> simp at h <;> subst h <;> decide

theorem slotAbbrev_length {s : Nat} {a : Bytes} (h : slotAbbrev s = some a) : a.length = 3 := by
  unfold slotAbbrev at h
  split at h <;> simp at h <;> subst h <;> rfl

theorem slotAbbrev_inj {s s' : Nat} {a : Bytes} (h : slotAbbrev s = some a) (h' : slotAbbrev s' = some a) :
    s = s' := by
  have := slotFromAbbrev_slotAbbrev h
  have := slotFromAbbrev_slotAbbrev h'
  simp_all

end Physis.Paths
