/-!
Exhaustive checking of a predicate on `2^n` consecutive naturals by a balanced binary split, so that
the kernel evaluates a tree of depth `n` (a linear `List.all` over 65 536 values exceeds its recursion
limit).  Used for the all-`i16` facts of the terrain plate arithmetic.
-/
namespace Physis

def allBits : (n : Nat) → (base : Nat) → (p : Nat → Bool) → Bool
  | 0, b, p => p b
  | n + 1, b, p => allBits n (2 * b) p && allBits n (2 * b + 1) p

theorem allBits_sound (n : Nat) : ∀ (b : Nat) (p : Nat → Bool), allBits n b p = true →
    ∀ k, k < 2 ^ n → p (b * 2 ^ n + k) = true := by
  induction n with
  | zero =>
    intro b p h k hk
    have : k = 0 := by omega
    subst this
    simpa [allBits] using h
  | succ n ih =>
    intro b p h k hk
    simp only [allBits, Bool.and_eq_true] at h
    by_cases hlt : k < 2 ^ n
    · have := ih (2 * b) p h.1 k hlt
      have e : 2 * b * 2 ^ n + k = b * 2 ^ (n + 1) + k := by rw [Nat.pow_succ]; 
                                                             rw [Nat.mul_comm 2 b, Nat.mul_assoc, Nat.mul_comm 2 (2^n)]
      rw [e] at this; exact this
    · have hk' : k - 2 ^ n < 2 ^ n := by rw [Nat.pow_succ] at hk; omega
      have := ih (2 * b + 1) p h.2 (k - 2 ^ n) hk'
      have e : (2 * b + 1) * 2 ^ n + (k - 2 ^ n) = b * 2 ^ (n + 1) + k := by
        rw [Nat.pow_succ, Nat.add_mul, Nat.mul_comm 2 b, Nat.mul_assoc, Nat.mul_comm 2 (2^n)]
        omega
      rw [e] at this; exact this

/-- every `UInt16` satisfies `p` when the 16-level split evaluates to `true` -/
theorem forall_u16 (p : UInt16 → Bool) (h : allBits 16 0 (fun k => p (UInt16.ofNat k)) = true) :
    ∀ c : UInt16, p c = true := by
  intro c
  have := allBits_sound 16 0 _ h c.toNat (by have := c.toNat_lt; simpa using this)
  simpa using this

end Physis
