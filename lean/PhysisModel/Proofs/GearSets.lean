import PhysisModel.Model.GearSets
import PhysisModel.Spec.GearSetLayout
import PhysisModel.Proofs.LeRead
import PhysisModel.Proofs.Utf8Lossy
/-! Helper lemmas for C09 (gear sets): the model of `src/gearsets.rs` / `src/dat.rs` against `Spec/GearSetLayout`. -/
namespace Physis.GearSets
open Physis.LeRead
open Physis.Spec.GearSet (Slot Table marker key encSlot encSome encSet encBody header encode emptySet optId
  IdOK SlotOK SetOK WF)

/-! ### the library value of an abstract table -/

def ofSlot (s : Slot) : GearSlot := ⟨s.id, s.glamour, s.unk1, s.unk2, s.unk3, s.unk4, s.unk5⟩
def ofSet (g : Spec.GearSet.GearSet) : GearSet :=
  ⟨g.index, g.name, g.unk, g.slots.map (Option.map ofSlot), g.facewear⟩
def ofTable (t : Table) : GearSets := ⟨t.unk1, t.current, t.unk3, t.sets.map (Option.map ofSet)⟩

def toSlot (s : GearSlot) : Slot := ⟨s.id, s.glamourId, s.unknown1, s.unknown2, s.unknown3, s.unknown4, s.unknown5⟩
def toSet (g : GearSet) : Spec.GearSet.GearSet :=
  ⟨g.index, g.name, g.unknown1, g.slots.map (Option.map toSlot), g.facewear⟩
def toTable (g : GearSets) : Table := ⟨g.unknown1, g.currentGearset, g.unknown3, g.gearsets.map (Option.map toSet)⟩

theorem toSlot_ofSlot (s : Slot) : toSlot (ofSlot s) = s := rfl
theorem toSet_ofSet (g : Spec.GearSet.GearSet) : toSet (ofSet g) = g := by
  obtain ⟨i, n, u, sl, f⟩ := g
  simp only [toSet, ofSet, List.map_map, Spec.GearSet.GearSet.mk.injEq, true_and, and_true]
  conv => rhs; rw [← List.map_id sl]
  apply List.map_congr_left; intro o _; cases o <;> rfl
theorem toTable_ofTable (t : Table) : toTable (ofTable t) = t := by
  obtain ⟨a, b, c, sets⟩ := t
  simp only [toTable, ofTable, List.map_map, Table.mk.injEq, true_and]
  conv => rhs; rw [← List.map_id sets]
  apply List.map_congr_left; intro o _; cases o
  · rfl
  · simp [toSet_ofSet]

/-! ### generic list facts -/

theorem range_map_getElem? {α β : Type} (l : List α) (n : Nat) (h : l.length = n) (f : Option α → β) :
    (List.range n).map (fun i => f l[i]?) = l.map (fun a => f (some a)) := by
  subst h
  apply List.ext_getElem?
  intro i
  simp only [List.getElem?_map, List.getElem?_range]
  by_cases hi : i < l.length
  · simp [hi]
  · simp [hi, List.getElem?_eq_none (Nat.le_of_not_lt hi)]

theorem flatMap_congr' {α : Type} (l : List α) (f g : α → Bytes) (h : ∀ x ∈ l, f x = g x) :
    l.flatMap f = l.flatMap g := by
  induction l with
  | nil => rfl
  | cons a t ih => rw [List.flatMap_cons, List.flatMap_cons, h a (by simp), ih (fun x hx => h x (by simp [hx]))]

theorem length_flatMap_const {α : Type} (l : List α) (f : α → Bytes) (k : Nat)
    (h : ∀ x ∈ l, (f x).length = k) : (l.flatMap f).length = l.length * k := by
  induction l with
  | nil => simp
  | cons a t ih =>
    rw [List.flatMap_cons, List.length_append, h a (by simp), ih (fun x hx => h x (by simp [hx])),
      List.length_cons, Nat.succ_mul, Nat.add_comm]

theorem readN_flatMap {α β : Type} (f : Bytes → Option (β × Bytes)) (enc : α → Bytes) (dec : α → β)
    (l : List α) (rest : Bytes) (h : ∀ x ∈ l, ∀ r, f (enc x ++ r) = some (dec x, r)) :
    readN f l.length (l.flatMap enc ++ rest) = some (l.map dec, rest) := by
  induction l with
  | nil => simp [readN]
  | cons a t ih =>
    simp only [List.flatMap_cons, List.append_assoc, List.length_cons, readN, h a (by simp),
      ih (fun x hx => h x (by simp [hx])), List.map_cons]

theorem xor_key_involutive (l : Bytes) : (l.map (· ^^^ key)).map (· ^^^ GEARSET_KEY) = l := by
  rw [List.map_map]
  conv => rhs; rw [← List.map_id l]
  apply List.map_congr_left; intro x _
  simp only [Function.comp, key, GEARSET_KEY, id]
  bv_decide (timeout := 300)

/-! ### writer = documented format -/

theorem writeSlot_default : writeSlot {} = encSlot none := by decide

theorem writeSlot_ofSlot (s : Slot) : writeSlot (ofSlot s) = encSlot (some s) := by
  cases hg : s.glamour <;> simp [writeSlot, ofSlot, encSlot, convertToGearId, UNKNOWN_FLAG, marker, convertOptId, optId, hg]

theorem convertToSlots_of (l : List (Option Slot)) (h : l.length = 14) :
    (convertToSlots (l.map (Option.map ofSlot))).flatMap writeSlot = l.flatMap encSlot := by
  unfold convertToSlots NUMBER_OF_GEARSLOTS
  have := range_map_getElem? (l.map (Option.map ofSlot)) 14 (by simp [h]) (entryOrDefault ({} : GearSlot))
  rw [this, List.map_map, List.flatMap_map]
  congr 1; funext o
  simp only [Function.comp]
  cases o with
  | none => exact writeSlot_default
  | some s => exact writeSlot_ofSlot s

theorem writeName_eq (name : Bytes) (h : name.length ≤ 46) :
    writeName name = name ++ List.replicate (47 - name.length) 0 := by
  unfold writeName
  have e : 47 - name.length = (46 - name.length) + 1 := by omega
  have e2 : 47 - (name.length + 1) = 46 - name.length := by omega
  rw [e, e2, List.replicate_succ]; simp

theorem writeSet_ofSet (g : Spec.GearSet.GearSet) (hn : g.name.length ≤ 46) (hs : g.slots.length = 14) :
    writeSet (ofSet g) = encSome g := by
  unfold writeSet encSome
  simp only [ofSet, writeName_eq _ hn, convertToSlots_of _ hs]
  cases hf : g.facewear <;> simp [convertOptId, optId]

theorem ofSet_emptySet : ofSet emptySet = {} := by decide

theorem writeSet_default : writeSet {} = encSet none := by
  rw [← ofSet_emptySet, writeSet_ofSet emptySet (by decide) (by decide)]; rfl

theorem writeGearSets_ofTable (t : Table) (hl : t.sets.length = 100)
    (h : ∀ s ∈ t.sets, ∀ g, s = some g → g.name.length ≤ 46 ∧ g.slots.length = 14) :
    writeGearSets (ofTable t) = encBody t := by
  unfold writeGearSets encBody convertToGearsets NUMBER_OF_GEARSETS
  have := range_map_getElem? (t.sets.map (Option.map ofSet)) 100 (by simp [hl]) (entryOrDefault ({} : GearSet))
  simp only [ofTable]
  rw [this, List.map_map, List.flatMap_map]
  congr 1
  apply flatMap_congr'
  intro o ho
  simp only [Function.comp]
  cases o with
  | none => exact writeSet_default
  | some g =>
    have := h (some g) ho g rfl
    exact writeSet_ofSet g this.1 this.2

theorem writeDatHeader_eq : writeDatHeader ⟨45205, 45205⟩ = header := by decide

theorem writeGear_ofTable (t : Table) (hl : t.sets.length = 100)
    (h : ∀ s ∈ t.sets, ∀ g, s = some g → g.name.length ≤ 46 ∧ g.slots.length = 14) :
    writeGear (ofTable t) = encode t := by
  unfold writeGear encode
  rw [writeDatHeader_eq, writeGearSets_ofTable t hl h]; rfl

/-! ### sizes -/

theorem encSlot_length (o : Option Slot) : (encSlot o).length = 28 := by
  cases o <;> simp [encSlot]

theorem encSome_length (g : Spec.GearSet.GearSet) (hn : g.name.length ≤ 46) (hs : g.slots.length = 14) :
    (encSome g).length = 452 := by
  unfold encSome
  simp only [List.length_append, List.length_cons, List.length_nil, List.length_replicate, putU64le_length,
    putU32le_length, length_flatMap_const g.slots encSlot 28 (fun x _ => encSlot_length x), hs]
  omega

theorem encSet_length (o : Option Spec.GearSet.GearSet)
    (h : ∀ g, o = some g → g.name.length ≤ 46 ∧ g.slots.length = 14) : (encSet o).length = 452 := by
  cases o with
  | none => exact encSome_length emptySet (by decide) (by decide)
  | some g => exact encSome_length g (h g rfl).1 (h g rfl).2

theorem encBody_length (t : Table) (hl : t.sets.length = 100)
    (h : ∀ s ∈ t.sets, ∀ g, s = some g → g.name.length ≤ 46 ∧ g.slots.length = 14) :
    (encBody t).length = 45204 := by
  unfold encBody
  simp only [List.length_append, List.length_cons, List.length_nil, putU16le_length,
    length_flatMap_const t.sets encSet 452 (fun x hx => encSet_length x (h x hx)), hl]

theorem encode_length (t : Table) (hl : t.sets.length = 100)
    (h : ∀ s ∈ t.sets, ∀ g, s = some g → g.name.length ≤ 46 ∧ g.slots.length = 14) :
    (encode t).length = 45221 := by
  unfold encode
  rw [List.length_append, List.length_map, encBody_length t hl h]; rfl

theorem wf_sizes (t : Table) (h : WF t) :
    ∀ s ∈ t.sets, ∀ g, s = some g → g.name.length ≤ 46 ∧ g.slots.length = 14 :=
  fun s hs g hg => ⟨(h.2 s hs g hg).2.1, (h.2 s hs g hg).2.2.2.1⟩

/-! ### reader -/

theorem strip_marker (id : UInt32) (h : id &&& marker = 0) : convertFromGearId (convertToGearId id) = id := by
  simp only [convertFromGearId, convertToGearId, UNKNOWN_FLAG, marker] at *
  bv_decide (timeout := 300)

theorem convertIdOpt_optId (o : Option UInt32) (h : o ≠ some 0) : convertIdOpt (optId o) = o := by
  cases o with
  | none => simp [convertIdOpt, optId]
  | some v =>
    have : v ≠ 0 := by intro e; apply h; rw [e]
    simp [convertIdOpt, optId, this]

/-- what the reader returns for a stored slot -/
def slotVal : Option Slot → GearSlot
  | none => {}
  | some s => ofSlot s

theorem encSlot_none_eq : encSlot none = putU32le marker ++ (putU32le 0 ++ (putU32le 0 ++ (putU32le 0 ++
    (putU32le 0 ++ (putU32le 0 ++ (putU32le 0 ++ [])))))) := by decide

theorem readSlot_encSlot (o : Option Slot) (rest : Bytes) (h : ∀ x, o = some x → SlotOK x) :
    readSlot (encSlot o ++ rest) = some (slotVal o, rest) := by
  cases o with
  | none =>
    rw [encSlot_none_eq]
    simp only [List.append_assoc, readSlot, takeU32_put, List.nil_append]
    rfl
  | some s =>
    obtain ⟨hid, hgl⟩ := h s rfl
    simp only [encSlot, List.append_assoc, readSlot, takeU32_put, slotVal, ofSlot]
    have e1 := strip_marker s.id hid.1
    simp only [convertToGearId, UNKNOWN_FLAG] at e1
    simp only [marker, e1, convertIdOpt_optId _ hgl]

theorem convertFromSlots_slotVal (l : List (Option Slot)) (h : ∀ s ∈ l, ∀ x, s = some x → SlotOK x) :
    convertFromSlots (l.map slotVal) = l.map (Option.map ofSlot) := by
  unfold convertFromSlots
  rw [List.map_map]
  apply List.map_congr_left
  intro o ho
  cases o with
  | none => rfl
  | some s =>
    have := (h (some s) ho s rfl).1.2
    simp [slotVal, ofSlot, this]

theorem readNullString_name (name rest : Bytes) (h : 0 ∉ name) :
    readNullString (name ++ 0 :: rest) = some (name, rest) := by
  induction name with
  | nil => simp [readNullString]
  | cons c t ih =>
    have hc : c ≠ 0 := by intro e; apply h; simp [e]
    have ht : 0 ∉ t := by intro e; apply h; simp [e]
    simp [readNullString, hc, ih ht]

theorem readSet_encSome (g : Spec.GearSet.GearSet) (rest : Bytes)
    (hlen : g.name.length ≤ 46) (hnul : 0 ∉ g.name) (hs : g.slots.length = 14)
    (hok : ∀ s ∈ g.slots, ∀ x, s = some x → SlotOK x) (hf : g.facewear ≠ some 0)
    (hutf : Spec.Fiin.utf8Valid g.name = true) :
    readSet (encSome g ++ rest) = some (ofSet g, rest) := by
  have e : 47 - g.name.length = (46 - g.name.length) + 1 := by omega
  have e2 : 47 - (g.name.length + 1) = 46 - g.name.length := by omega
  have hslots := readN_flatMap readSlot encSlot slotVal g.slots
  rw [hs] at hslots
  unfold encSome
  simp only [List.append_assoc, List.cons_append, List.nil_append, readSet, takeU8_cons, e,
    List.replicate_succ, readNullString_name _ _ hnul, e2, skip]
  rw [List.drop_left' (by simp)]
  simp only [takeU64_put, NUMBER_OF_GEARSLOTS,
    hslots _ (fun x hx r => readSlot_encSlot x r (hok x hx)), takeU32_put,
    convertFromSlots_slotVal _ hok, convertIdOpt_optId _ hf,
    Proofs.Utf8Lossy.fromUtf8Lossy_valid _ hutf]
  rfl

/-- what the reader returns for a stored set (before `convert_from_gearsets`) -/
def setVal : Option Spec.GearSet.GearSet → GearSet
  | none => ofSet emptySet
  | some g => ofSet g

theorem readSet_encSet (o : Option Spec.GearSet.GearSet) (rest : Bytes) (h : ∀ g, o = some g → SetOK g) :
    readSet (encSet o ++ rest) = some (setVal o, rest) := by
  cases o with
  | none =>
    exact readSet_encSome emptySet rest (by decide) (by decide) (by decide)
      (by intro s hs x hx; simp [emptySet] at hs; rw [hs] at hx; cases hx) (by decide) (by decide)
  | some g =>
    obtain ⟨_, hlen, hnul, hs, hok, hf, hutf⟩ := h g rfl
    exact readSet_encSome g rest hlen hnul hs hok hf hutf

theorem convertFromGearsets_setVal (l : List (Option Spec.GearSet.GearSet))
    (h : ∀ s ∈ l, ∀ g, s = some g → SetOK g) :
    convertFromGearsets (l.map setVal) = l.map (Option.map ofSet) := by
  unfold convertFromGearsets
  rw [List.map_map]
  apply List.map_congr_left
  intro o ho
  cases o with
  | none => rfl
  | some g =>
    have := (h (some g) ho g rfl).1
    simp [setVal, ofSet, this]

theorem readGearSets_encBody (t : Table) (h : WF t) : readGearSets (encBody t) = some (ofTable t) := by
  have hsets := readN_flatMap readSet encSet setVal t.sets []
    (fun x hx r => readSet_encSet x r (h.2 x hx))
  rw [h.1, List.append_nil] at hsets
  unfold encBody
  simp only [List.append_assoc, List.cons_append, List.nil_append, readGearSets, takeU8_cons, takeU16_put,
    NUMBER_OF_GEARSETS, hsets, convertFromGearsets_setVal _ h.2]
  rfl

theorem header_eq : header = [0x05, 0x00, 0x6d, 0x00, 0x95, 0xb0, 0, 0, 0x95, 0xb0, 0, 0, 0, 0, 0, 0, 0xFF] := by
  decide

theorem readDatHeader_header (rest : Bytes) : readDatHeader (header ++ rest) = some (⟨45205, 45205⟩, rest) := by
  rw [header_eq]
  simp only [readDatHeader, takeU32, List.cons_append, List.nil_append, skip, List.drop_succ_cons,
    List.drop_zero, takeU8]
  have e1 : (UInt8.toUInt32 5 ||| UInt8.toUInt32 0 <<< 8 ||| UInt8.toUInt32 109 <<< 16 ||| UInt8.toUInt32 0 <<< 24) = 7143429 := by decide
  have e2 : (UInt8.toUInt32 149 ||| UInt8.toUInt32 176 <<< 8 ||| UInt8.toUInt32 0 <<< 16 ||| UInt8.toUInt32 0 <<< 24) = 45205 := by decide
  rw [e1, e2]; simp

theorem parseGear_encode (t : Table) (h : WF t) : parseGear (encode t) = .ok (ofTable t) := by
  have hlen : ((encBody t).map (· ^^^ key)).length = 45204 := by
    rw [List.length_map, encBody_length t h.1 (wf_sizes t h)]
  have hn : (45205 : UInt32).toNat - 1 = 45204 := by decide
  have hz : ¬ ((45205 : UInt32) = 0) := by decide
  unfold parseGear encode
  simp only [readDatHeader_header, hz, if_false, hn]
  have := takeN_append ((encBody t).map (· ^^^ key)) [] 45204 hlen
  rw [List.append_nil] at this
  simp only [this, xor_key_involutive, readGearSets_encBody t h]

end Physis.GearSets
