import PhysisModel.Base.Fs
/-! Lemmas about the directory-tree model: `get` after each primitive. -/
namespace Physis.Fs

theorem get_filter (t : Tree) (f : Path → Bool) (q : Path) :
    get (t.filter (fun e => f e.1)) q = if f q then get t q else none := by
  induction t with
  | nil => simp [get]
  | cons e r ih =>
    obtain ⟨p, n⟩ := e
    by_cases hp : f p
    · simp only [List.filter_cons, hp, ↓reduceIte, get]
      by_cases hq : p = q
      · subst hq; simp [hp]
      · simp [hq, ih]
    · simp only [List.filter_cons, hp, get]
      by_cases hq : p = q
      · subst hq; simp [hp, ih]
      · simp [hq, ih]

theorem get_erase (t : Tree) (p q : Path) :
    get (erase t p) q = if q = p then none else get t q := by
  have := get_filter t (fun x => decide (x ≠ p)) q
  simp only [erase, this]
  by_cases h : q = p <;> simp [h]

theorem get_set (t : Tree) (p q : Path) (n : Node) :
    get (set t p n) q = if p = q then some n else get t q := by
  simp only [set, get, get_erase]
  by_cases h : p = q
  · simp [h]
  · have : ¬ q = p := fun e => h e.symm
    simp [h, this]

theorem get_eraseUnder (t : Tree) (p q : Path) :
    get (eraseUnder t p) q = if p <+: q then none else get t q := by
  have := get_filter t (fun x => decide (¬ p <+: x)) q
  simp only [eraseUnder, this]
  by_cases h : p <+: q <;> simp [h]

theorem set_set (t : Tree) (p : Path) (a b : Node) : set (set t p a) p b = set t p b := by
  simp [set, erase, List.filter_filter]

theorem erase_set (t : Tree) (p : Path) (a : Node) : erase (set t p a) p = erase t p := by
  simp [set, erase, List.filter_filter]

/-! ### `mkdirAll` -/

/-- `mkdirAll` only adds directories, and only where there was nothing -/
theorem mkdirAll_get (t : Tree) (pre p : Path) (t' : Tree) (h : mkdirAll t pre p = some t') (q : Path) :
    get t' q = get t q ∨ (get t q = none ∧ get t' q = some .dir) := by
  induction p generalizing t pre with
  | nil => simp [mkdirAll] at h; subst h; exact Or.inl rfl
  | cons c rest ih =>
    simp only [mkdirAll] at h
    split at h
    · cases h
    · exact ih _ _ h
    · rename_i hnone
      rcases ih _ _ h with h1 | ⟨h1, h2⟩
      · rw [h1, get_set]
        by_cases e : pre ++ [c] = q
        · subst e; right; simp [hnone]
        · left; simp [e]
      · rw [get_set] at h1
        by_cases e : pre ++ [c] = q
        · simp [e] at h1
        · simp [e] at h1; right; exact ⟨h1, h2⟩

theorem mkdirAll_fileAt (t : Tree) (pre p : Path) (t' : Tree) (h : mkdirAll t pre p = some t') (q : Path) :
    fileAt t' q = fileAt t q := by
  rcases mkdirAll_get t pre p t' h q with h1 | ⟨h1, h2⟩
  · simp [fileAt, h1]
  · simp [fileAt, h1, h2]

/-- paths that are not a directory on the way are untouched -/
theorem mkdirAll_frame (t : Tree) (pre p : Path) (t' : Tree) (h : mkdirAll t pre p = some t') (q : Path)
    (hq : ∀ k, 0 < k → k ≤ p.length → q ≠ pre ++ p.take k) : get t' q = get t q := by
  induction p generalizing t pre with
  | nil => simp [mkdirAll] at h; subst h; rfl
  | cons c rest ih =>
    simp only [mkdirAll] at h
    have hq' : ∀ k, 0 < k → k ≤ rest.length → q ≠ (pre ++ [c]) ++ rest.take k := by
      intro k hk hk2
      have := hq (k + 1) (by omega) (by simp; omega)
      simpa [List.take_succ_cons] using this
    have h0 : q ≠ pre ++ [c] := by
      have := hq 1 (by omega) (by simp)
      simpa using this
    split at h
    · cases h
    · exact ih _ _ h hq'
    · rw [ih _ _ h hq', get_set]
      have : ¬ pre ++ [c] = q := fun e => h0 e.symm
      simp [this]

/-- every directory on the way exists afterwards -/
theorem mkdirAll_made (t : Tree) (pre p : Path) (t' : Tree) (h : mkdirAll t pre p = some t')
    (k : Nat) (hk : 0 < k) (hk2 : k ≤ p.length) : get t' (pre ++ p.take k) = some .dir := by
  induction p generalizing t pre k with
  | nil => simp at hk2; omega
  | cons c rest ih =>
    simp only [mkdirAll] at h
    have key : ∀ u, mkdirAll u (pre ++ [c]) rest = some t' → get u (pre ++ [c]) = some .dir →
        get t' (pre ++ (c :: rest).take k) = some .dir := by
      intro u hu hd
      cases k with
      | zero => omega
      | succ k =>
        by_cases hk0 : k = 0
        · subst hk0
          rcases mkdirAll_get u _ _ t' hu (pre ++ [c]) with h1 | ⟨h1, _⟩
          · simpa [h1] using hd
          · rw [hd] at h1; cases h1
        · have := ih u (pre ++ [c]) hu k (by omega) (by simp at hk2; omega)
          simpa [List.take_succ_cons] using this
    split at h
    · cases h
    · rename_i hd; exact key t h hd
    · exact key _ h (by simp [get_set])

/-- it succeeds when no directory on the way is a regular file -/
theorem mkdirAll_ok (t : Tree) (pre p : Path)
    (hp : ∀ k, 0 < k → k ≤ p.length → isFile t (pre ++ p.take k) = false) :
    ∃ t', mkdirAll t pre p = some t' := by
  induction p generalizing t pre with
  | nil => exact ⟨t, rfl⟩
  | cons c rest ih =>
    simp only [mkdirAll]
    have h1 := hp 1 (by omega) (by simp)
    simp at h1
    have hrest : ∀ u, (∀ q, isFile u q = true → isFile t q = true) →
        ∀ k, 0 < k → k ≤ rest.length → isFile u ((pre ++ [c]) ++ rest.take k) = false := by
      intro u hu k hk hk2
      have := hp (k + 1) (by omega) (by simp; omega)
      simp [List.take_succ_cons] at this
      cases hh : isFile u (pre ++ [c] ++ List.take k rest) with
      | false => rfl
      | true => have := hu _ hh; simp_all
    split
    · rename_i d hd; simp [isFile, hd] at h1
    · exact ih t _ (hrest t (fun _ h => h))
    · apply ih
      apply hrest
      intro q hq
      simp only [isFile, get_set] at hq ⊢
      by_cases e : pre ++ [c] = q
      · simp [e] at hq
      · simpa [e] using hq

theorem get_mem (t : Tree) (p : Path) (n : Node) (h : get t p = some n) : (p, n) ∈ t := by
  induction t with
  | nil => simp [get] at h
  | cons e r ih =>
    obtain ⟨q, m⟩ := e
    simp only [get] at h
    by_cases e : q = p
    · simp [e] at h; simp [e, h]
    · simp [e] at h; exact List.mem_cons_of_mem _ (ih h)

theorem mem_files (t : Tree) (p : Path) (d : Bytes) (h : get t p = some (.file d)) : (p, d) ∈ files t := by
  simp only [files, List.mem_filterMap]
  exact ⟨(p, .file d), get_mem t p _ h, rfl⟩

theorem fileAt_iff (t : Tree) (p : Path) (d : Bytes) : fileAt t p = some d ↔ get t p = some (.file d) := by
  simp only [fileAt]; split <;> simp_all

end Physis.Fs
