import PhysisModel.Proofs.Excel
import Std.Tactic.BVDecide
/-!
C05 helper lemmas, part 2: reading one record (`readCols`) out of a fixed-size region produced by
`Spec.Excel.fixedRegion`, column by column.
-/
namespace Physis.Proofs.Excel
open Physis Physis.Spec.Excel Physis.Exh Physis.Exd

/-! ### positional reads -/

theorem readAt_mid (A M B : Bytes) (o n : Nat) (h : o + n ≤ M.length) :
    readAt (A ++ (M ++ B)) (A.length + o) n = some ((M.drop o).take n) := by
  have h1 : (A ++ (M ++ B)).drop (A.length + o) = M.drop o ++ B := by
    rw [List.drop_append, List.drop_of_length_le (by omega), List.nil_append,
      show A.length + o - A.length = o by omega, List.drop_append_of_le_length (by omega)]
  have h2 : ((A ++ (M ++ B)).drop (A.length + o)).take n = (M.drop o).take n := by
    rw [h1, List.take_append_of_le_length (by simp only [List.length_drop]; omega)]
  simp only [readAt, h2, List.length_take, List.length_drop]
  rw [if_pos (by omega)]

theorem readAt_exact (A w B : Bytes) : readAt (A ++ (w ++ B)) A.length w.length = some w := by
  have := readAt_mid A w B 0 w.length (by omega)
  simpa only [Nat.add_zero, List.drop_zero, List.take_length] using this

theorem readCStr_append (s rest : Bytes) (h : ∀ b ∈ s, b ≠ 0) :
    readCStr (s ++ 0 :: rest) = .ok s := by
  induction s with
  | nil => simp only [List.nil_append, readCStr, if_true]
  | cons b s ih =>
    have hb : b ≠ 0 := h b (List.mem_cons_self ..)
    have := ih (fun x hx => h x (List.mem_cons_of_mem _ hx))
    simp only [List.cons_append, readCStr, hb, if_false, this]

/-! ### bytes of the fixed-size region -/

theorem orAll_append (a b : List UInt8) : orAll (a ++ b) = orAll a ||| orAll b := by
  induction a with
  | nil => simp only [List.nil_append, orAll]; bv_decide (timeout := 300)
  | cons x a ih => simp only [List.cons_append, orAll, ih]; bv_decide (timeout := 300)

theorem orAll_mask_zero (l : List UInt8) (m : UInt8) (h : ∀ x ∈ l, x &&& m = 0) :
    orAll l &&& m = 0 := by
  induction l with
  | nil => simp only [orAll]; bv_decide (timeout := 300)
  | cons x l ih =>
    have h1 := h x (List.mem_cons_self ..)
    have h2 := ih (fun y hy => h y (List.mem_cons_of_mem _ hy))
    simp only [orAll]
    generalize orAll l = r at h2 ⊢
    bv_decide (timeout := 300)

/-- only one item contributes (under mask `m`) -/
theorem orAll_single (pre post : List UInt8) (x m : UInt8)
    (h1 : ∀ y ∈ pre, y &&& m = 0) (h2 : ∀ y ∈ post, y &&& m = 0) :
    orAll (pre ++ x :: post) &&& m = x &&& m := by
  have a := orAll_mask_zero pre m h1
  have b := orAll_mask_zero post m h2
  simp only [orAll_append, orAll]
  generalize orAll pre = p at a ⊢
  generalize orAll post = q at b ⊢
  bv_decide (timeout := 300)

theorem compat_symm {a b : Column} (h : compat a b) : compat b a := by
  rcases h with h | h | h
  · exact Or.inr (Or.inl h)
  · exact Or.inl h
  · refine Or.inr (Or.inr ?_)
    revert h
    cases a.ty <;> cases b.ty <;> simp [diffPacked]
    intro h; exact fun e => h e.symm

end Physis.Proofs.Excel

namespace Physis.Proofs.Excel
open Physis Physis.Spec.Excel Physis.Exh Physis.Exd

/-- an item whose cell has the type of its column -/
def ItemOK (it : Item) : Prop := it.cell.hasType it.col.ty = true

theorem cellBytes_length {c : Cell} {ty : ColType} (soff : UInt32) (h : c.hasType ty = true)
    (hp : isPacked ty = false) : (cellBytes c soff).length = ty.size := by
  cases c <;> cases ty <;> simp_all [Cell.hasType, cellBytes, ColType.size, isPacked]

/-- an item contributes nothing outside its own byte range -/
theorem contrib_outside (j : Item) (hj : ItemOK j) (k : Nat)
    (hd : j.col.offset.toNat + j.col.ty.size ≤ k ∨ k < j.col.offset.toNat) : contrib j k = 0 := by
  obtain ⟨⟨ty, off⟩, c, soff⟩ := j
  simp only [ItemOK] at hj
  simp only at hd
  by_cases hp : isPacked ty = true
  · cases ty <;> simp only [isPacked, Bool.false_eq_true] at hp
    simp only [contrib, ColType.size] at hd ⊢
    rw [if_neg (by omega)]
  · have hp' : isPacked ty = false := by simpa using hp
    have hl := cellBytes_length soff hj hp'
    have key : (if off.toNat ≤ k then
        (match (cellBytes c soff)[k - off.toNat]? with | some b => b | none => 0) else 0) = (0 : UInt8) := by
      split
      · rw [List.getElem?_eq_none (by omega)]
      · rfl
    cases ty <;> first | exact key | (exfalso; simp [isPacked] at hp')

theorem contrib_self (it : Item) (hj : ItemOK it) (hp : isPacked it.col.ty = false) (k : Nat)
    (hk : k < (cellBytes it.cell it.soff).length) :
    contrib it (it.col.offset.toNat + k) = (cellBytes it.cell it.soff)[k] := by
  obtain ⟨⟨ty, off⟩, c, soff⟩ := it
  simp only at hp hk ⊢
  have key : (if off.toNat ≤ off.toNat + k then
      (match (cellBytes c soff)[off.toNat + k - off.toNat]? with | some b => b | none => 0) else 0)
      = (cellBytes c soff)[k] := by
    rw [if_pos (by omega), show off.toNat + k - off.toNat = k by omega, List.getElem?_eq_getElem hk]
  cases ty <;> first | exact key | (exfalso; simp [isPacked] at hp)

theorem and_255 (x : UInt8) : x &&& 255 = x := by bv_decide (timeout := 300)
theorem zero_and (m : UInt8) : (0 : UInt8) &&& m = 0 := by bv_decide (timeout := 300)

/-- a non-packed column's bytes appear unchanged in the region -/
theorem regionByte_nonpacked (pre post : List Item) (it : Item)
    (hok : ∀ j ∈ pre ++ it :: post, ItemOK j)
    (hc : ∀ j ∈ pre ++ post, compat it.col j.col)
    (hp : isPacked it.col.ty = false) (k : Nat) (hk : k < (cellBytes it.cell it.soff).length) :
    regionByte (pre ++ it :: post) (it.col.offset.toNat + k) = (cellBytes it.cell it.soff)[k] := by
  have hit : ItemOK it := hok it (by simp)
  have hl := cellBytes_length it.soff hit hp
  have other : ∀ j ∈ pre ++ post, contrib j (it.col.offset.toNat + k) &&& 255 = 0 := by
    intro j hj
    have hjok : ItemOK j := hok j (by
      rcases List.mem_append.mp hj with h | h
      · exact List.mem_append_left _ h
      · exact List.mem_append_right _ (List.mem_cons_of_mem _ h))
    rw [and_255]
    apply contrib_outside j hjok
    rcases hc j hj with h | h | h
    · right; omega
    · left; omega
    · exfalso; revert h hp; cases it.col.ty <;> simp [diffPacked, isPacked]
  have := orAll_single (pre.map (contrib · (it.col.offset.toNat + k)))
    (post.map (contrib · (it.col.offset.toNat + k))) (contrib it (it.col.offset.toNat + k)) 255
    (by intro y hy; obtain ⟨j, hj, rfl⟩ := List.mem_map.mp hy; exact other j (List.mem_append_left _ hj))
    (by intro y hy; obtain ⟨j, hj, rfl⟩ := List.mem_map.mp hy; exact other j (List.mem_append_right _ hj))
  simp only [and_255] at this
  simp only [regionByte, List.map_append, List.map_cons, this]
  exact contrib_self it hit hp k hk

end Physis.Proofs.Excel

namespace Physis.Proofs.Excel
open Physis Physis.Spec.Excel Physis.Exh Physis.Exd

def bitOf (b : Fin 8) : UInt8 := (1 : UInt8) <<< UInt8.ofNat b.val

theorem bitOf_disjoint : ∀ b b' : Fin 8, b ≠ b' → bitOf b' &&& bitOf b = 0 := by decide
theorem bitOf_test : ∀ b : Fin 8, ∀ v : Bool, (((if v then bitOf b else 0) &&& bitOf b) == bitOf b) = v := by
  decide

theorem contrib_packed (col : Column) (b : Fin 8) (h : col.ty = .packedBool b) (c : Cell) (soff : UInt32)
    (k : Nat) : contrib ⟨col, c, soff⟩ k = if k = col.offset.toNat ∧ c = .bool true then bitOf b else 0 := by
  obtain ⟨ty, off⟩ := col
  simp only at h
  subst h
  rfl

/-- a packed-bool column's bit appears unchanged in the byte at its offset -/
theorem regionByte_packed (pre post : List Item) (it : Item) (b : Fin 8) (v : Bool)
    (hok : ∀ j ∈ pre ++ it :: post, ItemOK j)
    (hc : ∀ j ∈ pre ++ post, compat it.col j.col)
    (hty : it.col.ty = .packedBool b) (hv : it.cell = .bool v) :
    regionByte (pre ++ it :: post) it.col.offset.toNat &&& bitOf b = (if v then bitOf b else 0) &&& bitOf b := by
  have other : ∀ j ∈ pre ++ post, contrib j it.col.offset.toNat &&& bitOf b = 0 := by
    intro j hj
    have hjok : ItemOK j := hok j (by
      rcases List.mem_append.mp hj with h | h
      · exact List.mem_append_left _ h
      · exact List.mem_append_right _ (List.mem_cons_of_mem _ h))
    rcases hc j hj with h | h | h
    · rw [contrib_outside j hjok _ (by right; rw [hty] at h; simp only [ColType.size] at h; omega), zero_and]
    · rw [contrib_outside j hjok _ (by left; omega), zero_and]
    · rw [hty] at h
      obtain ⟨jcol, jc, js⟩ := j
      cases hjt : jcol.ty with
      | packedBool b' =>
        simp only [hjt, diffPacked, bne_iff_ne, ne_eq] at h
        rw [contrib_packed jcol b' hjt]
        split
        · exact bitOf_disjoint b b' h
        · exact zero_and _
      | _ => simp [hjt, diffPacked] at h
  have := orAll_single (pre.map (contrib · it.col.offset.toNat))
    (post.map (contrib · it.col.offset.toNat)) (contrib it it.col.offset.toNat) (bitOf b)
    (by intro y hy; obtain ⟨j, hj, rfl⟩ := List.mem_map.mp hy; exact other j (List.mem_append_left _ hj))
    (by intro y hy; obtain ⟨j, hj, rfl⟩ := List.mem_map.mp hy; exact other j (List.mem_append_right _ hj))
  simp only [regionByte, List.map_append, List.map_cons, this]
  obtain ⟨col, c, soff⟩ := it
  simp only at hty hv ⊢
  rw [contrib_packed col b hty, hv]
  cases v <;> simp

theorem fixedRegion_slice (D : Nat) (items : List Item) (o : Nat) (w : Bytes) (h : o + w.length ≤ D)
    (hb : ∀ k (hk : k < w.length), regionByte items (o + k) = w[k]) :
    ((fixedRegion D items).drop o).take w.length = w := by
  apply List.ext_getElem
  · simp only [fixedRegion, List.length_take, List.length_drop, List.length_map, List.length_range]
    omega
  · intro k h1 h2
    simp only [fixedRegion, List.getElem_take, List.getElem_drop, List.getElem_map, List.getElem_range]
    exact hb k h2

theorem fixedRegion_length (D : Nat) (items : List Item) : (fixedRegion D items).length = D := by
  simp only [fixedRegion, List.length_map, List.length_range]

end Physis.Proofs.Excel
