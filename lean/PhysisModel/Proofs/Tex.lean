import PhysisModel.Proofs.BcnImage
/-!
Helper lemmas for `Properties/C13.lean`: `Texture::decode`, the BGRA loop, the header round trip
through the Spec encoder, and the bridge from the decoder's addressing (`h·d` stacked rows) to the
specification's (slice, row, column).
-/
open Physis Physis.Bcn Physis.Spec.Bcn
namespace Physis.Proofs.Tex
open Physis.Proofs.Bcn Physis.Tex

theorem flatMap_shuffle_length (l : List UInt32) : (l.flatMap shuffle).length = 4 * l.length := by
  induction l with
  | nil => rfl
  | cons x xs ih => simp only [List.flatMap_cons, List.length_append, ih, shuffle, List.length_cons,
      List.length_nil]; omega

theorem flatMap_shuffle_getElem? (l : List UInt32) : ∀ (k j : Nat), j < 4 →
    (l.flatMap shuffle)[4 * k + j]? = l[k]?.bind (fun x => (shuffle x)[j]?) := by
  induction l with
  | nil => intro k j _; simp
  | cons x xs ih =>
    intro k j hj
    rw [List.flatMap_cons]
    cases k with
    | zero =>
      rw [List.getElem?_append_left (by simp [shuffle]; omega)]
      simp
    | succ k =>
      rw [List.getElem?_append_right (by simp [shuffle]; omega)]
      have : 4 * (k + 1) + j - (shuffle x).length = 4 * k + j := by simp [shuffle]; omega
      rw [this, ih k j hj]
      simp

/-- pixel `k` of the byte image produced by `Texture::decode` from the word image -/
theorem pxAt_flatMap_shuffle (l : List UInt32) (k : Nat) (wd : UInt32) (h : l[k]? = some wd) :
    pxAt (l.flatMap shuffle).toArray k = some (pxOfWord wd) := by
  have h0 := flatMap_shuffle_getElem? l k 0 (by omega)
  have h1 := flatMap_shuffle_getElem? l k 1 (by omega)
  have h2 := flatMap_shuffle_getElem? l k 2 (by omega)
  have h3 := flatMap_shuffle_getElem? l k 3 (by omega)
  simp only [h, Option.bind_some, shuffle, Nat.add_zero] at h0 h1 h2 h3
  simp only [pxAt, List.getElem?_toArray, h0, h1, h2, h3]
  simp [pxOfWord]


theorem pxAt_cons4 (r g b a : UInt8) (out : Bytes) (k : Nat) :
    pxAt (r :: g :: b :: a :: out).toArray (k + 1) = pxAt out.toArray k := by
  have g (j : Nat) : (r :: g :: b :: a :: out)[4 * (k + 1) + j]? = out[4 * k + j]? := by
    have e : 4 * (k + 1) + j = 4 * k + j + 1 + 1 + 1 + 1 := by omega
    rw [e]; simp only [List.getElem?_cons_succ]
  have g0 := g 0
  simp only [Nat.add_zero] at g0
  simp only [pxAt, List.getElem?_toArray, g0, g 1, g 2, g 3]

theorem bgraLoop_ok (conv : Bc3Colour) : ∀ (n : Nat) (src : Bytes), 4 * n ≤ src.length →
    ∃ out, bgraLoop n src = .ok out ∧ out.length = 4 * n ∧
      ∀ k, k < n → ∃ px, pxAt out.toArray k = some px ∧
        canonPixel conv .bgra (blockN .bgra src k) 0 = some px ∧
        PixelOK conv .bgra (blockN .bgra src k) 0 px := by
  intro n
  induction n with
  | zero => intro src _; exact ⟨[], rfl, rfl, fun k hk => by omega⟩
  | succ n ih =>
    intro src h
    match src, h with
    | b :: g :: r :: a :: rest, h =>
      obtain ⟨out, e, hl, hp⟩ := ih rest (by simp at h; omega)
      refine ⟨r :: g :: b :: a :: out, by simp [bgraLoop, e], by simp [hl]; omega, ?_⟩
      intro k hk
      cases k with
      | zero =>
        refine ⟨⟨r, g, b, a⟩, by simp [pxAt], ?_, ?_⟩
        · simp [blockN, Format.blockBytes, canonPixel]
        · simp [blockN, Format.blockBytes, PixelOK]
      | succ k =>
        obtain ⟨px, h1, h2, h3⟩ := hp k (by omega)
        refine ⟨px, by rw [pxAt_cons4]; exact h1, ?_, ?_⟩
        · have : blockN .bgra (b :: g :: r :: a :: rest) (k + 1) = blockN .bgra rest k := by
            simp [blockN, Format.blockBytes, Nat.add_mul]
          rw [this]; exact h2
        · have : blockN .bgra (b :: g :: r :: a :: rest) (k + 1) = blockN .bgra rest k := by
            simp [blockN, Format.blockBytes, Nat.add_mul]
          rw [this]; exact h3


theorem u32le_put (v : UInt32) :
    u32le v.toUInt8 (v >>> 8).toUInt8 (v >>> 16).toUInt8 (v >>> 24).toUInt8 = v := by
  simp only [u32le]; bv_decide (timeout := 300)

theorem u16le_put (v : UInt16) : u16le v.toUInt8 (v >>> 8).toUInt8 = v := by
  simp only [u16le]; bv_decide (timeout := 300)

theorem readU32s_put (vs : List UInt32) (rest : Bytes) :
    readU32s vs.length (vs.flatMap putU32le ++ rest) = some (vs, rest) := by
  induction vs with
  | nil => rfl
  | cons v vs ih =>
    simp only [List.length_cons, List.flatMap_cons, putU32le, List.cons_append, List.nil_append,
      readU32s, ih, u32le_put]

theorem flatMap_put_length (vs : List UInt32) : (vs.flatMap putU32le).length = 4 * vs.length := by
  induction vs with
  | nil => rfl
  | cons v vs ih => simp only [List.flatMap_cons, List.length_append, ih, putU32le_length, List.length_cons]; omega

theorem encodeHeader_length (hd : Spec.Tex.Header) (hwf : hd.WF) : (Spec.Tex.encodeHeader hd).length = 80 := by
  simp only [Spec.Tex.encodeHeader, List.length_append, putU32le_length, putU16le_length,
    flatMap_put_length, hwf.1, hwf.2]

theorem readHeader_encode (hd : Spec.Tex.Header) (hwf : hd.WF) (fmt : TextureFormat)
    (hf : TextureFormat.ofU32 hd.formatCode = some fmt) (payload : Bytes) :
    readHeader (Spec.Tex.encode hd payload) =
      some (⟨hd.attrs, fmt, hd.width, hd.height, hd.depth, hd.mipLevels, hd.lodOffsets, hd.offsetToSurface⟩,
        payload) := by
  have h3 := readU32s_put hd.lodOffsets (hd.offsetToSurface.flatMap putU32le ++ payload)
  have h13 := readU32s_put hd.offsetToSurface payload
  rw [hwf.1] at h3
  rw [hwf.2] at h13
  simp only [Spec.Tex.encode, Spec.Tex.encodeHeader, putU32le, putU16le, List.cons_append, List.nil_append,
    List.append_assoc, readHeader, u32le_put, u16le_put, hf, h3, h13]

theorem drop_encode (hd : Spec.Tex.Header) (hwf : hd.WF) (payload : Bytes) :
    (Spec.Tex.encode hd payload).drop 80 = payload := by
  rw [Spec.Tex.encode, List.drop_append_of_le_length (by rw [encodeHeader_length hd hwf]; exact Nat.le_refl _),
    List.drop_of_length_le (by rw [encodeHeader_length hd hwf]; exact Nat.le_refl _)]
  rfl


theorem blocks_mul (h d : Nat) (ha : d ≤ 1 ∨ h % 4 = 0) : (h * d + 4 - 1) / 4 = d * ((h + 4 - 1) / 4) := by
  rcases ha with ha | ha
  · have : d = 0 ∨ d = 1 := by omega
    rcases this with rfl | rfl <;> simp
  · obtain ⟨h', rfl⟩ : ∃ h', h = 4 * h' := ⟨h / 4, by omega⟩
    have e1 : (4 * h' + 4 - 1) / 4 = h' := by omega
    have e2 : (4 * h' * d + 4 - 1) / 4 = h' * d := by
      rw [Nat.mul_assoc]; omega
    rw [e1, e2, Nat.mul_comm]

/-- row `z·h + y` of the stacked image -/
theorem row_lt (h d y z : Nat) (hy : y < h) (hz : z < d) : z * h + y < h * d := by
  have := Nat.mul_le_mul_right h (show z + 1 ≤ d from hz)
  rw [Nat.add_mul, Nat.one_mul, Nat.mul_comm d h] at this
  omega

theorem row_div (h y z : Nat) (d : Nat) (hy : y < h) (hz : z < d) (ha : d ≤ 1 ∨ h % 4 = 0) :
    (z * h + y) / 4 = z * ((h + 4 - 1) / 4) + y / 4 ∧ (z * h + y) % 4 = y % 4 := by
  rcases ha with ha | ha
  · have : z = 0 := by omega
    subst this; simp
  · obtain ⟨h', rfl⟩ : ∃ h', h = 4 * h' := ⟨h / 4, by omega⟩
    have e1 : (4 * h' + 4 - 1) / 4 = h' := by omega
    have e2 : z * (4 * h') = 4 * (z * h') := by
      rw [Nat.mul_left_comm]
    rw [e1, e2]
    omega

theorem blockAt_eq_blockN (fmt : Format) (data : Bytes) (n : Nat) :
    blockAt fmt data.toArray n = blockN fmt data n := by
  simp [blockAt, blockN]


/-- the decoded byte image `rgba` of a `w × h × d` texture is, pixel by pixel, the canonical
decoding (convention `conv`) of the payload — which in particular is a permitted one -/
def CanonPixels (conv : Bc3Colour) (fmt : Format) (w h d : Nat) (payload rgba : Bytes) : Prop :=
  rgba.length = 4 * (w * h * d) ∧
  ∀ z, z < d → ∀ y, y < h → ∀ x, x < w → ∃ px, pxAt rgba.toArray ((z * h + y) * w + x) = some px ∧
    canonPixel conv fmt (blockAt fmt payload.toArray (blockIndex fmt w h x y z)) (within fmt x y) = some px ∧
    PixelOK conv fmt (blockAt fmt payload.toArray (blockIndex fmt w h x y z)) (within fmt x y) px

theorem CanonPixels.imageOK {conv fmt w h d payload rgba} (hc : CanonPixels conv fmt w h d payload rgba) :
    ImageOK conv fmt w h d payload.toArray rgba.toArray := by
  refine ⟨by simpa using hc.1, ?_⟩
  intro z hz y hy x hx
  obtain ⟨px, h1, _, h3⟩ := hc.2 z hz y hy x hx
  simp only [PixelAtOK, h1]
  exact h3

theorem decode_bcn_ok (conv : Bc3Colour) (fmt : Format) (fn : Bytes → List UInt32 → Except Err (List UInt32))
    (InvP : UInt32 → Prop) (hdim : fmt.dim = 4) (hB : BlockOK conv fmt fn InvP)
    (hinit : ∀ p ∈ List.replicate 16 (color 0 0 0 255), InvP p)
    (w h d : Nat) (payload : Bytes) (ha : SliceAligned fmt h d) (hen : needed fmt w h d ≤ payload.length) :
    ∃ rgba, Tex.decode payload w (h * d) fmt.blockBytes (blockDecoder fmt.blockBytes fn) = .ok (some rgba) ∧
      CanonPixels conv fmt w h d payload rgba := by
  have ha' : d ≤ 1 ∨ h % 4 = 0 := by simpa [SliceAligned, hdim] using ha
  have hdata : (w + 4 - 1) / 4 * ((h * d + 4 - 1) / 4) * fmt.blockBytes ≤ payload.length := by
    rw [blocks_mul h d ha', Nat.mul_left_comm]
    simpa [needed, sliceBlocks, Format.blocks, hdim] using hen
  obtain ⟨img', e, hs, hp⟩ := blockDecoder_ok conv fmt fn InvP hB hinit payload w (h * d)
    (Array.replicate (w * (h * d)) 0) hdata (by simp)
  refine ⟨img'.toList.flatMap shuffle, by simp only [Tex.decode, e, if_neg (Nat.not_lt.mpr hdata)], ?_, ?_⟩
  · rw [flatMap_shuffle_length, Array.length_toList, hs, Nat.mul_assoc]
  · intro z hz y hy x hx
    obtain ⟨wd, h1, h2, h3⟩ := hp x (z * h + y) hx (row_lt h d y z hy hz)
    obtain ⟨r1, r2⟩ := row_div h y z d hy hz ha'
    have hidx : blockIndex fmt w h x y z = (z * h + y) / 4 * ((w + 4 - 1) / 4) + x / 4 := by
      simp only [blockIndex, sliceBlocks, Format.blocks, hdim, r1, Nat.add_mul, Nat.mul_assoc,
        Nat.mul_comm ((h + 4 - 1) / 4) ((w + 4 - 1) / 4)]
    have hwi : within fmt x y = (z * h + y) % 4 * 4 + x % 4 := by
      simp only [within, hdim, r2]
    rw [blockAt_eq_blockN, hidx, hwi]
    exact ⟨pxOfWord wd, pxAt_flatMap_shuffle _ _ wd (by simpa using h1), h2, h3⟩


theorem bgra_ok (conv : Bc3Colour) (w h d : Nat) (payload : Bytes)
    (hen : needed .bgra w h d ≤ payload.length) :
    ∃ rgba, bgraLoop (w * h * d) payload = .ok rgba ∧ CanonPixels conv .bgra w h d payload rgba := by
  have hlen : 4 * (w * h * d) ≤ payload.length := by
    have : needed .bgra w h d = 4 * (w * h * d) := by
      simp only [needed, sliceBlocks, Format.blocks, Format.dim, Format.blockBytes, Nat.add_sub_cancel, Nat.div_one]
      rw [Nat.mul_comm d, Nat.mul_comm _ 4]
    omega
  obtain ⟨rgba, e, hl, hp⟩ := bgraLoop_ok conv (w * h * d) payload hlen
  refine ⟨rgba, e, hl, ?_⟩
  intro z hz y hy x hx
  have hk : (z * h + y) * w + x < w * h * d := by
    have h1 := row_lt h d y z hy hz
    have h2 := Nat.mul_le_mul_right w (show z * h + y + 1 ≤ h * d from h1)
    rw [Nat.add_mul, Nat.one_mul] at h2
    have : h * d * w = w * h * d := by rw [Nat.mul_comm (h * d) w, Nat.mul_assoc]
    omega
  obtain ⟨px, h1, h2, h3⟩ := hp _ hk
  have hidx : blockIndex .bgra w h x y z = (z * h + y) * w + x := by
    simp only [blockIndex, sliceBlocks, Format.blocks, Format.dim, Nat.add_sub_cancel, Nat.div_one, Nat.add_mul,
      Nat.mul_assoc, Nat.mul_comm w h]
  have hwi : within .bgra x y = 0 := by simp [within, Format.dim, Nat.mod_one]
  rw [blockAt_eq_blockN, hidx, hwi]
  exact ⟨px, h1, h2, h3⟩


/-- the format enum value the code uses for a format of the property -/
def modelFormat : Format → TextureFormat
  | .bgra => .B8G8R8A8 | .bc1 => .BC1 | .bc3 => .BC3 | .bc5 => .BC5

theorem ofU32_of_formatOfCode (c : UInt32) (fmt : Format) (h : Spec.Tex.formatOfCode c = some fmt) :
    TextureFormat.ofU32 c = some (modelFormat fmt) := by
  unfold Spec.Tex.formatOfCode at h
  split at h
  · cases h; subst c; rfl
  · split at h
    · cases h; subst c; rfl
    · split at h
      · cases h; subst c; rfl
      · split at h
        · cases h; subst c; rfl
        · cases h

theorem is3D_iff (a : UInt32) : (a &&& TEXTURE_TYPE3_D = TEXTURE_TYPE3_D) ↔ Spec.Tex.is3D a = true := by
  have h1 : (a &&& 0x1000000 = 0x1000000) ↔ (a / 16777216 % 2 = 1) := by
    constructor <;> intro h <;> bv_decide (timeout := 300)
  simp only [TEXTURE_TYPE3_D, Spec.Tex.is3D, h1, ← UInt32.toNat_inj, UInt32.toNat_mod, UInt32.toNat_div,
    UInt32.toNat_ofNat, decide_eq_true_eq]

/-- **`Texture::from_existing` on an encoded texture of the property's quantifier**: it returns a
texture (no `None`, no panic) reporting the header's dimensions and 3-D flag, whose pixels are the
canonical decoding under the convention the code uses for BC3 colour. -/
theorem fromExisting_ok (hd : Spec.Tex.Header) (hwf : hd.WF) (fmt : Format)
    (hfmt : Spec.Tex.formatOfCode hd.formatCode = some fmt) (payload : Bytes)
    (ha : SliceAligned fmt hd.height.toNat hd.depth.toNat)
    (hen : needed fmt hd.width.toNat hd.height.toNat hd.depth.toNat ≤ payload.length) :
    ∃ rgba, Tex.fromExisting (Spec.Tex.encode hd payload) = .ok (some
        ⟨if Spec.Tex.is3D hd.attrs then .ThreeDimensional else .TwoDimensional,
         hd.width.toUInt32, hd.height.toUInt32, hd.depth.toUInt32, rgba⟩) ∧
      CanonPixels .bc1Modes fmt hd.width.toNat hd.height.toNat hd.depth.toNat payload rgba := by
  have hty : (if hd.attrs &&& TEXTURE_TYPE3_D = TEXTURE_TYPE3_D then TextureType.ThreeDimensional
      else TextureType.TwoDimensional) =
      (if Spec.Tex.is3D hd.attrs then .ThreeDimensional else .TwoDimensional) := by
    by_cases h : hd.attrs &&& TEXTURE_TYPE3_D = TEXTURE_TYPE3_D
    · rw [if_pos h, if_pos ((is3D_iff _).mp h)]
    · rw [if_neg h, if_neg (fun h' => h ((is3D_iff _).mpr h'))]
  simp only [Tex.fromExisting, readHeader_encode hd hwf _ (ofU32_of_formatOfCode _ _ hfmt), drop_encode hd hwf, hty]
  cases fmt with
  | bgra =>
    obtain ⟨rgba, e, hc⟩ := bgra_ok .bc1Modes _ _ _ payload hen
    have hlen : ¬ payload.length < hd.width.toNat * hd.height.toNat * hd.depth.toNat * 4 := by
      have : needed .bgra hd.width.toNat hd.height.toNat hd.depth.toNat =
          hd.width.toNat * hd.height.toNat * hd.depth.toNat * 4 := by
        simp only [needed, sliceBlocks, Format.blocks, Format.dim, Format.blockBytes, Nat.add_sub_cancel, Nat.div_one]
        rw [Nat.mul_comm hd.depth.toNat]
      omega
    exact ⟨rgba, by simp only [modelFormat, if_neg hlen, e], hc⟩
  | bc1 =>
    obtain ⟨rgba, e, hc⟩ := decode_bcn_ok .bc1Modes .bc1 decodeBc1Block _ rfl (bc1_blockOK _)
      (fun _ _ => trivial) _ _ _ payload ha hen
    exact ⟨rgba, by simp only [modelFormat, decodeBc1]; rw [show (8 : Nat) = Format.bc1.blockBytes from rfl, e], hc⟩
  | bc3 =>
    obtain ⟨rgba, e, hc⟩ := decode_bcn_ok .bc1Modes .bc3 decodeBc3Block _ rfl bc3_blockOK
      (fun _ _ => trivial) _ _ _ payload ha hen
    exact ⟨rgba, by simp only [modelFormat, decodeBc3]; rw [show (16 : Nat) = Format.bc3.blockBytes from rfl, e], hc⟩
  | bc5 =>
    obtain ⟨rgba, e, hc⟩ := decode_bcn_ok .bc1Modes .bc5 decodeBc5Block _ rfl (bc5_blockOK _)
      (by decide) _ _ _ payload ha hen
    exact ⟨rgba, by simp only [modelFormat, decodeBc5]; rw [show (16 : Nat) = Format.bc5.blockBytes from rfl, e], hc⟩


/-- outside BC3 the convention parameter is irrelevant -/
theorem pixelOK_conv_irrel (c1 c2 : Bc3Colour) (fmt : Format) (hf : fmt ≠ .bc3) (blk : Bytes) (i : Nat) (px : Px) :
    PixelOK c1 fmt blk i px ↔ PixelOK c2 fmt blk i px := by
  cases fmt <;> simp_all [PixelOK]

theorem canonPixel_conv_irrel (c1 c2 : Bc3Colour) (fmt : Format) (hf : fmt ≠ .bc3) (blk : Bytes) (i : Nat) :
    canonPixel c1 fmt blk i = canonPixel c2 fmt blk i := by
  cases fmt <;> simp_all [canonPixel]

/-- on a BC3 block whose selected colour entry is the same under both readings, the two
conventions permit the same pixels and have the same canonical pixel -/
theorem bc3_conv_agree (blk : Bytes) (i : Nat)
    (h : (colourAt true (blk.drop 8) i).map (·.1) = (colourAt false (blk.drop 8) i).map (·.1)) (px : Px) :
    (PixelOK .bc1Modes .bc3 blk i px → PixelOK .always4 .bc3 blk i px) ∧
    (canonPixel .bc1Modes .bc3 blk i = canonPixel .always4 .bc3 blk i) := by
  have h1 : decide (Bc3Colour.bc1Modes = Bc3Colour.always4) = false := by decide
  have h2 : decide (Bc3Colour.always4 = Bc3Colour.always4) = true := by decide
  have h3 : decide True = true := by decide
  simp only [PixelOK, canonPixel, h1, eq_self, h3]
  cases ht : colourAt true (blk.drop 8) i <;> cases hf : colourAt false (blk.drop 8) i <;>
    simp only [ht, hf, Option.map_some, Option.map_none, Option.some.injEq, reduceCtorEq] at h
  · simp
  · simp only [h]
    exact ⟨fun h => h, by cases alphaAt (blk.take 8) i <;> simp only [h]⟩

theorem CanonPixels.always4 {fmt w h d payload rgba}
    (hc : CanonPixels .bc1Modes fmt w h d payload rgba)
    (hk : ¬ Bc3ConventionsDiffer fmt w h d payload.toArray) :
    CanonPixels .always4 fmt w h d payload rgba := by
  refine ⟨hc.1, ?_⟩
  intro z hz y hy x hx
  obtain ⟨px, h1, h2, h3⟩ := hc.2 z hz y hy x hx
  refine ⟨px, h1, ?_, ?_⟩
  · by_cases hf : fmt = .bc3
    · subst hf
      have : (colourAt true ((blockAt .bc3 payload.toArray (blockIndex .bc3 w h x y z)).drop 8) (within .bc3 x y)).map (·.1)
          = (colourAt false ((blockAt .bc3 payload.toArray (blockIndex .bc3 w h x y z)).drop 8) (within .bc3 x y)).map (·.1) := by
        apply Classical.byContradiction
        intro hne
        exact hk ⟨rfl, z, hz, y, hy, x, hx, hne⟩
      rw [← (bc3_conv_agree _ _ this px).2]; exact h2
    · rw [canonPixel_conv_irrel .always4 .bc1Modes fmt hf]; exact h2
  · by_cases hf : fmt = .bc3
    · subst hf
      have : (colourAt true ((blockAt .bc3 payload.toArray (blockIndex .bc3 w h x y z)).drop 8) (within .bc3 x y)).map (·.1)
          = (colourAt false ((blockAt .bc3 payload.toArray (blockIndex .bc3 w h x y z)).drop 8) (within .bc3 x y)).map (·.1) := by
        apply Classical.byContradiction
        intro hne
        exact hk ⟨rfl, z, hz, y, hy, x, hx, hne⟩
      exact (bc3_conv_agree _ _ this px).1 h3
    · exact (pixelOK_conv_irrel .always4 .bc1Modes fmt hf _ _ _).mpr h3


theorem drop_of_pxAt (rgba : Bytes) (s : Nat) (px : Px) (h : pxAt rgba.toArray s = some px) :
    rgba.drop (4 * s) = px.bytes ++ rgba.drop (4 * (s + 1)) := by
  simp only [pxAt, List.getElem?_toArray] at h
  split at h
  · rename_i r g b a h0 h1 h2 h3
    cases h
    obtain ⟨l0, e0⟩ := List.getElem?_eq_some_iff.mp h0
    obtain ⟨l1, e1⟩ := List.getElem?_eq_some_iff.mp h1
    obtain ⟨l2, e2⟩ := List.getElem?_eq_some_iff.mp h2
    obtain ⟨l3, e3⟩ := List.getElem?_eq_some_iff.mp h3
    rw [List.drop_eq_getElem_cons l0, List.drop_eq_getElem_cons l1, List.drop_eq_getElem_cons l2,
      List.drop_eq_getElem_cons l3, e0, e1, e2, e3]
    simp only [Px.bytes, List.cons_append, List.nil_append]
    congr 5
  · cases h

theorem build_eq (f : Nat → Option Px) (rgba : Bytes) : ∀ (n s : Nat), rgba.length = 4 * (s + n) →
    (∀ k, s ≤ k → k < s + n → ∃ px, f k = some px ∧ pxAt rgba.toArray k = some px) →
    (List.range' s n).foldr (fun k acc => match f k, acc with
      | some p, some bs => some (p.bytes ++ bs)
      | _, _ => none) (some []) = some (rgba.drop (4 * s)) := by
  intro n
  induction n with
  | zero =>
    intro s hl _
    simp only [List.range'_zero, List.foldr_nil, Option.some.injEq]
    rw [List.drop_of_length_le (by omega)]
  | succ n ih =>
    intro s hl hf
    obtain ⟨px, e1, e2⟩ := hf s (Nat.le_refl _) (by omega)
    rw [List.range'_succ, List.foldr_cons, ih (s + 1) (by omega) (fun k h1 h2 => hf k (by omega) (by omega)), e1]
    simp only [Option.some.injEq]
    exact (drop_of_pxAt rgba s px e2).symm

theorem canonImage_eq (conv : Bc3Colour) (fmt : Format) (w h d : Nat) (payload rgba : Bytes)
    (hc : CanonPixels conv fmt w h d payload rgba) (hen : needed fmt w h d ≤ payload.length) :
    canonImage conv fmt w h d payload.toArray = some rgba := by
  unfold canonImage
  rw [if_neg (by simpa using hen), List.range_eq_range']
  have := build_eq (canonPixelAt conv fmt w h payload.toArray) rgba (w * h * d) 0 (by simpa using hc.1) ?_
  · simp only [Nat.mul_zero, List.drop_zero] at this
    exact this
  · intro k _ hk
    simp only [Nat.zero_add] at hk
    have hw : 0 < w := by
      rcases Nat.eq_zero_or_pos w with h0 | h0
      · subst h0; simp at hk
      · exact h0
    have hh : 0 < h := by
      rcases Nat.eq_zero_or_pos h with h0 | h0
      · subst h0; simp at hk
      · exact h0
    have hY : k / w < h * d := by
      apply Nat.div_lt_of_lt_mul
      rw [← Nat.mul_assoc]; exact hk
    have hz : k / w / h < d := Nat.div_lt_of_lt_mul hY
    have hy : k / w % h < h := Nat.mod_lt _ hh
    have hx : k % w < w := Nat.mod_lt _ hw
    obtain ⟨px, h1, h2, _⟩ := hc.2 _ hz _ hy _ hx
    have hk' : (k / w / h * h + k / w % h) * w + k % w = k := by
      rw [Nat.mul_comm (k / w / h) h, Nat.div_add_mod, Nat.mul_comm (k / w) w, Nat.div_add_mod]
    rw [hk'] at h1
    exact ⟨px, h2, h1⟩


theorem put_u32le (a b c d : UInt8) : putU32le (u32le a b c d) = [a, b, c, d] := by
  simp only [putU32le, u32le, List.cons.injEq, and_true]
  refine ⟨?_, ?_, ?_, ?_⟩ <;> bv_decide (timeout := 300)

theorem put_u16le (a b : UInt8) : putU16le (u16le a b) = [a, b] := by
  simp only [putU16le, u16le, List.cons.injEq, and_true]
  refine ⟨?_, ?_⟩ <;> bv_decide (timeout := 300)

theorem exists_u32s : ∀ (n : Nat) (bs : Bytes), 4 * n ≤ bs.length →
    ∃ (vs : List UInt32) (rest : Bytes), vs.length = n ∧ bs = vs.flatMap putU32le ++ rest := by
  intro n
  induction n with
  | zero => intro bs _; exact ⟨[], bs, rfl, rfl⟩
  | succ n ih =>
    intro bs h
    match bs, h with
    | a :: b :: c :: d :: bs', h =>
      obtain ⟨vs, rest, hl, e⟩ := ih bs' (by simp at h; omega)
      refine ⟨u32le a b c d :: vs, rest, by simp [hl], ?_⟩
      rw [List.flatMap_cons, put_u32le, e]
      rfl

/-- every byte string of at least 80 bytes is the encoding of some well-formed header followed by
a payload: the theorems about `encode hd payload` therefore cover every file the code can parse -/
theorem exists_encode (buffer : Bytes) (h : 80 ≤ buffer.length) :
    ∃ hd payload, hd.WF ∧ buffer = Spec.Tex.encode hd payload := by
  match buffer, h with
  | a0 :: a1 :: a2 :: a3 :: f0 :: f1 :: f2 :: f3 :: w0 :: w1 :: h0 :: h1 :: d0 :: d1 :: m0 :: m1 :: rest, h =>
    obtain ⟨lods, r1, hl1, e1⟩ := exists_u32s 3 rest (by simp at h; omega)
    obtain ⟨surf, r2, hl2, e2⟩ := exists_u32s 13 r1 (by
      have := congrArg List.length e1
      rw [List.length_append, flatMap_put_length, hl1] at this
      simp only [List.length_cons] at h
      omega)
    refine ⟨⟨u32le a0 a1 a2 a3, u32le f0 f1 f2 f3, u16le w0 w1, u16le h0 h1, u16le d0 d1, u16le m0 m1, lods, surf⟩,
      r2, ⟨hl1, hl2⟩, ?_⟩
    simp only [Spec.Tex.encode, Spec.Tex.encodeHeader, put_u32le, put_u16le, e1, e2, List.cons_append,
      List.nil_append, List.append_assoc]

/-- the observable result of `Texture::from_existing`, in the specification's vocabulary (this is
what the driver prints for the model and what the harness prints for the real code) -/
def toDecoded (t : Tex.Texture) : Spec.Tex.Decoded :=
  ⟨t.textureType = .ThreeDimensional, t.width.toNat, t.height.toNat, t.depth.toNat, t.rgba⟩

end Physis.Proofs.Tex
