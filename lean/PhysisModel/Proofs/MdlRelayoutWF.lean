import PhysisModel.Proofs.MdlRelayoutLemmas
/-!
# C07 — `relayout` keeps a model well formed

`relayout a` changes only the `indexPad` of the last mesh of every LOD and every LOD's
`edgeGeometryDataOffset`.  `WF` reads neither of them, except through the total length of the
encoded file — which is the one hypothesis that has to be supplied again.
-/
namespace Physis.Mdl
open Physis Physis.Spec.Mdl

theorem length_sim {ls L : List ALod} (h : LodsSim ls L) : L.length = ls.length := by
  induction h with
  | nil => rfl
  | cons l e _ ih => simp only [List.length_cons, ih]

theorem meshOk_pad (x : AMesh) (p : Nat) : meshOk { x with indexPad := p } = meshOk x := rfl

theorem all_meshOk_padLast (l : List AMesh) (ib : Nat) :
    (padLast ib l).all meshOk = l.all meshOk :=
  all_eq_of_map_eq (map_padLast meshOk meshOk_pad l ib)

/-- `WF` of `a` with a `LodsSim`-related list of LODs: everything but the file length carries over -/
theorem wf_sim (a : AbstractModel) {L : List ALod} (hs : LodsSim a.lods L) (h : WF a = true)
    (hlen : (encodeMdl (withLods a L)).length < 4294967296) : WF (withLods a L) = true := by
  simp only [WF, Bool.and_eq_true, and_assoc] at h ⊢
  obtain ⟨c1, c2, c3, c4, c5, c6, c7, c8, c9, c10, c11, c12, c13, c14, c15, c16, c17, c18, c19,
    c20, c21, c22, c23, c24, c25, c26, c27, c28, _⟩ := h
  refine ⟨?_, c2, c3, ?_, c5, c6, c7, ?_, c9, ?_, c11, c12, c13, c14, c15, c16, c17, c18, c19,
    c20, c21, c22, c23, c24, c25, c26, c27, c28, ?_⟩
  · rw [← c1]
    show (L.length == 3) = (a.lods.length == 3)
    rw [length_sim hs]
  · rw [← c4]
    refine sim_all (fun l => l.mid.length == 28 && l.meshes.all meshOk) (fun l _ => ?_) hs
    show (l.mid.length == 28 && (padLast 0 l.meshes).all meshOk) = _
    rw [all_meshOk_padLast]
  · rw [← c8, allMeshes_withLods, length_allMeshes_sim hs]
    rfl
  · rw [← c10, allMeshes_withLods,
      sim_map_meshes (fun (x : AMesh) => x.submeshes.length) (fun _ _ => rfl) hs]
    rfl
  · exact decide_eq_true hlen

/-- `relayout` keeps a well-formed model well formed, provided the re-padded file still fits in
the 32-bit offsets of the format -/
theorem wf_relayout (a : AbstractModel) (h : WF a = true)
    (hlen : (encodeMdl (relayout a)).length < 4294967296) : WF (relayout a) = true := by
  rw [relayout_eq]
  exact wf_sim a (relayout_sim a) h hlen

end Physis.Mdl
