import PhysisModel.Proofs.ExcelRegion
/-!
C05 helper lemmas, part 3: `readCols` on a record laid out by the spec returns its cells.
-/
namespace Physis.Proofs.Excel
open Physis Physis.Spec.Excel Physis.Exh Physis.Exd

theorem addU32_ok (a b : UInt32) (h : a.toNat + b.toNat < 4294967296) :
    addU32 a b = .ok (a + b) ∧ (a + b).toNat = a.toNat + b.toNat := by
  refine ⟨by simp only [addU32, h, if_true], ?_⟩
  rw [UInt32.toNat_add]
  exact Nat.mod_eq_of_lt h

/-- the fixed-size region of `items` lies at `rowOff` in `file`, and every string cell's stored
offset points at its NUL-terminated bytes -/
structure RecordAt (file : Bytes) (D : UInt16) (rowOff : UInt32) (items : List Item) : Prop where
  layout : ∃ A B, file = A ++ (fixedRegion D.toNat items ++ B) ∧ A.length = rowOff.toNat
  small : file.length < 4294967296
  ok : ∀ j ∈ items, ItemOK j
  fit : ∀ j ∈ items, j.col.offset.toNat + j.col.ty.size ≤ D.toNat
  pw : (items.map (·.col)).Pairwise compat
  strs : ∀ j ∈ items, ∀ str, j.cell = .str str →
    (∀ b ∈ str, b ≠ 0) ∧ rowOff.toNat + D.toNat + j.soff.toNat < 4294967296 ∧
    ∃ rest, file.drop (rowOff.toNat + D.toNat + j.soff.toNat) = str ++ 0 :: rest

theorem readColumn_packed (data : Bytes) (D : UInt16) (rowOff : UInt32) (pos : Nat) (off : UInt16) :
    ∀ b : Fin 8, readColumn data D rowOff pos ⟨toModelType (.packedBool b), off⟩
      = .ok (.bool ((((rawU8 data pos).getD 0) &&& bitOf b) == bitOf b))
  | ⟨0, _⟩ => rfl | ⟨1, _⟩ => rfl | ⟨2, _⟩ => rfl | ⟨3, _⟩ => rfl
  | ⟨4, _⟩ => rfl | ⟨5, _⟩ => rfl | ⟨6, _⟩ => rfl | ⟨7, _⟩ => rfl

theorem rawU8_of (data : Bytes) (pos : Nat) (b : UInt8) (h : readAt data pos 1 = some [b]) :
    rawU8 data pos = some b := by simp only [rawU8, h]

theorem readCol_item {file : Bytes} {D : UInt16} {rowOff : UInt32} {items : List Item}
    (h : RecordAt file D rowOff items) (it : Item) (hit : it ∈ items) :
    (addU32 rowOff it.col.offset.toUInt32 >>= fun pos =>
      readColumn file D rowOff pos.toNat (toModelCol it.col)) = .ok (toData it.cell) := by
  obtain ⟨A, B, hfile, hA⟩ := h.layout
  have hok := h.ok it hit
  have hfit := h.fit it hit
  have hstr := h.strs it hit
  have hsmall := h.small
  obtain ⟨pre, post, hitems⟩ := List.append_of_mem hit
  have hpw := h.pw
  rw [hitems, List.map_append, List.map_cons, List.pairwise_append, List.pairwise_cons] at hpw
  have hc : ∀ j ∈ pre ++ post, compat it.col j.col := by
    intro j hj
    rcases List.mem_append.mp hj with hj | hj
    · exact compat_symm (hpw.2.2 j.col (List.mem_map_of_mem hj) it.col (List.mem_cons_self ..))
    · exact hpw.2.1.1 j.col (List.mem_map_of_mem hj)
  have hokall : ∀ j ∈ pre ++ it :: post, ItemOK j := by rw [← hitems]; exact h.ok
  have hflen : file.length = A.length + (D.toNat + B.length) := by
    rw [hfile]; simp only [List.length_append, fixedRegion_length]
  have hsz : 1 ≤ it.col.ty.size := by cases it.col.ty <;> simp [ColType.size]
  have hadd := addU32_ok rowOff it.col.offset.toUInt32 (by
    simp only [UInt16.toNat_toUInt32]; omega)
  simp only [UInt16.toNat_toUInt32] at hadd
  simp only [bind, Except.bind, hadd.1, hadd.2]
  by_cases hp : isPacked it.col.ty = true
  · -- packed bool
    obtain ⟨⟨ty, off⟩, c, soff⟩ := it
    cases ty <;> simp only [isPacked, Bool.false_eq_true] at hp
    rename_i b
    cases c <;> simp only [ItemOK, Cell.hasType, Bool.false_eq_true] at hok
    rename_i v
    have hbyte : readAt file (rowOff.toNat + off.toNat) 1 = some [regionByte items off.toNat] := by
      have := readAt_mid A (fixedRegion D.toNat items) B off.toNat 1 (by
        rw [fixedRegion_length]; simp only [ColType.size] at hfit; omega)
      rw [← hfile, hA] at this
      rw [this]
      have := fixedRegion_slice D.toNat items off.toNat [regionByte items off.toNat]
        (by simp only [ColType.size] at hfit; simp only [List.length_singleton]; omega)
        (by intro k hk; simp only [List.length_singleton] at hk; have : k = 0 := by omega
            subst this; rfl)
      simpa only [List.length_singleton] using congrArg some this
    have hbit := regionByte_packed pre post ⟨⟨.packedBool b, off⟩, .bool v, soff⟩ b v hokall hc rfl rfl
    simp only [toModelCol, readColumn_packed, rawU8_of _ _ _ hbyte, Option.getD_some, toData]
    rw [hitems, hbit, bitOf_test]
  · -- a cell with its own bytes
    have hp' : isPacked it.col.ty = false := by simpa using hp
    have hl := cellBytes_length it.soff hok hp'
    have hread : readAt file (rowOff.toNat + it.col.offset.toNat) (cellBytes it.cell it.soff).length
        = some (cellBytes it.cell it.soff) := by
      have := readAt_mid A (fixedRegion D.toNat items) B it.col.offset.toNat
        (cellBytes it.cell it.soff).length (by rw [fixedRegion_length]; omega)
      rw [← hfile, hA] at this
      rw [this, hitems]
      exact congrArg some (fixedRegion_slice D.toNat _ it.col.offset.toNat _ (by omega)
        (fun k hk => regionByte_nonpacked pre post it hokall hc hp' k hk))
    obtain ⟨⟨ty, off⟩, c, soff⟩ := it
    cases c <;> cases ty <;> (try (exfalso; simp [ItemOK, Cell.hasType, isPacked] at hok hp'; done))
    all_goals simp only [cellBytes, putU16be_length, putU32be_length, putU64be_length,
      List.length_singleton] at hread
    all_goals simp only [toModelCol, toModelType, readColumn, bind, Except.bind, pure, Except.pure,
      rawU16, rawU32, rawU64, rawU8, hread, Option.bind, getU16be_put, getU32be_put,
      getU64be_put, unwrap, toData]
    · -- string
      rename_i str
      obtain ⟨hnul, hlt, rest, hdrop⟩ := hstr str rfl
      simp only at hlt hdrop
      have a1 := addU32_ok rowOff D.toUInt32 (by simp only [UInt16.toNat_toUInt32]; omega)
      simp only [UInt16.toNat_toUInt32] at a1
      have a2 := addU32_ok (rowOff + D.toUInt32) soff (by rw [a1.2]; omega)
      rw [a1.2] at a2
      simp only [a1.1, a2.1, a2.2, hdrop, readCStr_append str rest hnul]
    · -- bool
      rename_i v
      cases v <;> simp

theorem readCol_item' {file : Bytes} {D : UInt16} {rowOff : UInt32} {items : List Item}
    (h : RecordAt file D rowOff items) (it : Item) (hit : it ∈ items) :
    ∃ pos, addU32 rowOff it.col.offset.toUInt32 = .ok pos ∧
      readColumn file D rowOff pos.toNat (toModelCol it.col) = .ok (toData it.cell) := by
  have := readCol_item h it hit
  cases hadd : addU32 rowOff it.col.offset.toUInt32 with
  | error e => simp [hadd, bind, Except.bind] at this
  | ok pos =>
    refine ⟨pos, rfl, ?_⟩
    simpa only [hadd, bind, Except.bind] using this

theorem readCols_items {file : Bytes} {D : UInt16} {rowOff : UInt32} {items : List Item}
    (h : RecordAt file D rowOff items) :
    ∀ l : List Item, (∀ it ∈ l, it ∈ items) →
      readCols file D rowOff (l.map (fun it => toModelCol it.col)) = .ok (l.map (fun it => toData it.cell))
  | [], _ => rfl
  | it :: l, hl => by
    obtain ⟨pos, h1, h2⟩ := readCol_item' h it (hl it (List.mem_cons_self ..))
    have ih := readCols_items h l (fun x hx => hl x (List.mem_cons_of_mem _ hx))
    have e : (toModelCol it.col).offset = it.col.offset := rfl
    simp only [List.map_cons, readCols, bind, Except.bind, e, h1, h2, ih, pure, Except.pure]

/-! ### items of a record -/

theorem mkItems_cols : ∀ (cols : List Column) (cells : List Cell) (base : Nat),
    typed cols cells = true → (mkItems cols cells base).map (·.col) = cols
  | [], [], _, _ => rfl
  | [], _ :: _, _, h => by simp [typed] at h
  | _ :: _, [], _, h => by simp [typed] at h
  | col :: cols, c :: cs, base, h => by
    simp only [typed, Bool.and_eq_true] at h
    simp only [mkItems, List.map_cons, mkItems_cols cols cs _ h.2]

theorem mkItems_cells : ∀ (cols : List Column) (cells : List Cell) (base : Nat),
    typed cols cells = true → (mkItems cols cells base).map (·.cell) = cells
  | [], [], _, _ => rfl
  | [], _ :: _, _, h => by simp [typed] at h
  | _ :: _, [], _, h => by simp [typed] at h
  | col :: cols, c :: cs, base, h => by
    simp only [typed, Bool.and_eq_true] at h
    simp only [mkItems, List.map_cons, mkItems_cells cols cs _ h.2]

theorem mkItems_ok : ∀ (cols : List Column) (cells : List Cell) (base : Nat),
    typed cols cells = true → ∀ j ∈ mkItems cols cells base, ItemOK j
  | [], [], _, _ => by simp [mkItems]
  | [], _ :: _, _, h => by simp [typed] at h
  | _ :: _, [], _, h => by simp [typed] at h
  | col :: cols, c :: cs, base, h => by
    simp only [typed, Bool.and_eq_true] at h
    intro j hj
    simp only [mkItems, List.mem_cons] at hj
    rcases hj with rfl | hj
    · exact h.1
    · exact mkItems_ok cols cs _ h.2 j hj

theorem mkItems_mem_cell : ∀ (cols : List Column) (cells : List Cell) (base : Nat),
    ∀ j ∈ mkItems cols cells base, j.cell ∈ cells
  | [], _, _ => by simp [mkItems]
  | _ :: _, [], _ => by simp [mkItems]
  | col :: cols, c :: cs, base => by
    intro j hj
    simp only [mkItems, List.mem_cons] at hj
    rcases hj with rfl | hj
    · exact List.mem_cons_self ..
    · exact List.mem_cons_of_mem _ (mkItems_mem_cell cols cs _ j hj)

/-- a string item's stored offset is `base +` the heap bytes of the cells before it -/
theorem mkItems_str : ∀ (cols : List Column) (cells : List Cell) (base : Nat),
    ∀ j ∈ mkItems cols cells base, ∀ str, j.cell = .str str →
      ∃ h1 h2, heapOf cells = h1 ++ (str ++ 0 :: h2) ∧ j.soff = UInt32.ofNat (base + h1.length)
  | [], _, _ => by simp [mkItems]
  | _ :: _, [], _ => by simp [mkItems]
  | col :: cols, c :: cs, base => by
    intro j hj str hstr
    simp only [mkItems, List.mem_cons] at hj
    rcases hj with rfl | hj
    · simp only at hstr
      subst hstr
      exact ⟨[], heapOf cs, by simp [heapOf, cellHeap], by simp⟩
    · obtain ⟨h1, h2, e1, e2⟩ := mkItems_str cols cs _ j hj str hstr
      refine ⟨cellHeap c ++ h1, h2, ?_, ?_⟩
      · simp only [heapOf, e1, List.append_assoc]
      · rw [e2, List.length_append, Nat.add_assoc]

theorem heapOf_append (a b : List Cell) : heapOf (a ++ b) = heapOf a ++ heapOf b := by
  induction a with
  | nil => rfl
  | cons c a ih => simp only [List.cons_append, heapOf, ih, List.append_assoc]

/-- the record of `cells` laid out at `rowOff`, followed by `Bmid` (later records) and the heap
`H0 ++ heapOf cells ++ …`, satisfies `RecordAt` -/
theorem recordAt_of_layout (s : Schema) (hs : WFschema s) (file : Bytes)
    (hsmall : file.length < 4294967296) (cells : List Cell) (htyped : typed s.columns cells = true)
    (hnul : ∀ c ∈ cells, nulFree c = true) (A Bmid H0 Hrest : Bytes) (base : Nat) (rowOff : UInt32)
    (hfile : file = A ++ (fixedRegion s.dataOffset.toNat (mkItems s.columns cells base)
      ++ (Bmid ++ (H0 ++ (heapOf cells ++ Hrest)))))
    (hA : A.length = rowOff.toNat) (hbase : base = Bmid.length + H0.length) :
    RecordAt file s.dataOffset rowOff (mkItems s.columns cells base) := by
  obtain ⟨_, _, _, hfit, hpw⟩ := hs
  have hcols := mkItems_cols s.columns cells base htyped
  refine ⟨⟨A, _, hfile, hA⟩, hsmall, mkItems_ok _ _ _ htyped, ?_, by rw [hcols]; exact hpw, ?_⟩
  · intro j hj
    exact hfit j.col (by rw [← hcols]; exact List.mem_map_of_mem hj)
  · intro j hj str hstr
    obtain ⟨h1, h2, e1, e2⟩ := mkItems_str _ _ _ j hj str hstr
    have hn : nulFree (.str str) = true := hnul _ (by rw [← hstr]; exact mkItems_mem_cell _ _ _ j hj)
    have hflen := congrArg List.length hfile
    simp only [List.length_append, fixedRegion_length, e1, List.length_cons] at hflen
    have hso : j.soff.toNat = base + h1.length := by
      rw [e2, UInt32.toNat_ofNat']
      exact Nat.mod_eq_of_lt (by omega)
    refine ⟨?_, by omega, h2 ++ Hrest, ?_⟩
    · intro b hb
      simp only [nulFree, List.all_eq_true, decide_eq_true_eq] at hn
      exact hn b hb
    · have : file = (A ++ fixedRegion s.dataOffset.toNat (mkItems s.columns cells base) ++ Bmid ++ H0 ++ h1)
          ++ (str ++ 0 :: (h2 ++ Hrest)) := by
        rw [hfile, e1]; simp only [List.append_assoc, List.cons_append]
      rw [this]
      apply List.drop_left'
      simp only [List.length_append, fixedRegion_length]
      omega

theorem readCols_of_layout (s : Schema) (hs : WFschema s) (file : Bytes)
    (hsmall : file.length < 4294967296) (cells : List Cell) (htyped : typed s.columns cells = true)
    (hnul : ∀ c ∈ cells, nulFree c = true) (A Bmid H0 Hrest : Bytes) (base : Nat) (rowOff : UInt32)
    (hfile : file = A ++ (fixedRegion s.dataOffset.toNat (mkItems s.columns cells base)
      ++ (Bmid ++ (H0 ++ (heapOf cells ++ Hrest)))))
    (hA : A.length = rowOff.toNat) (hbase : base = Bmid.length + H0.length) :
    readCols file s.dataOffset rowOff (s.columns.map toModelCol) = .ok (cells.map toData) := by
  have h := recordAt_of_layout s hs file hsmall cells htyped hnul A Bmid H0 Hrest base rowOff hfile hA hbase
  have := readCols_items h (mkItems s.columns cells base) (fun _ h => h)
  have e1 := congrArg (List.map toModelCol) (mkItems_cols s.columns cells base htyped)
  have e2 := congrArg (List.map toData) (mkItems_cells s.columns cells base htyped)
  simp only [List.map_map] at e1 e2
  rw [← e1, ← e2]
  exact this

end Physis.Proofs.Excel
