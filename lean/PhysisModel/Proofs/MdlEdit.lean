import PhysisModel.Proofs.MdlLaidOut
/-!
# C07 — every edit ends in `update_headers`

`applyEdit_update`: the model an edit call returns is the result of `update_headers` on a model
with the LOD rows and the file header of the model the call started from; hence
(`history_last`) after a non-empty history the final model has consistent headers and every mesh
of a used LOD starts at its first sub-mesh's offset — whatever the arguments were.
-/
namespace Physis.Mdl
open Physis Physis.Spec.Mdl

theorem applyEdit_update {m m' : MDL} {e : Edit} (h : Mdl.applyEdit m e = .ok m') :
    ∃ m1, updateHeaders m1 = .ok m' ∧ m1.modelData.lods = m.modelData.lods ∧
      m1.fileHeader = m.fileHeader ∧ m1.lods.length = m.lods.length := by
  cases e with
  | replaceVertices l p vs is subs =>
    simp only [Mdl.applyEdit] at h
    unfold replaceVertices at h
    obtain ⟨parts, _, h⟩ := bind_ok h
    obtain ⟨part, _, h⟩ := bind_ok h
    obtain ⟨submeshes, _, h⟩ := bind_ok h
    obtain ⟨meshes, _, h⟩ := bind_ok h
    exact ⟨_, h, rfl, rfl, by simp⟩
  | removeShapeMeshes =>
    simp only [Mdl.applyEdit] at h
    unfold removeShapeMeshes at h
    exact ⟨_, h, rfl, rfl, rfl⟩
  | addShapeMesh l s sm p vals =>
    simp only [Mdl.applyEdit] at h
    unfold addShapeMesh at h
    obtain ⟨parts, _, h⟩ := bind_ok h
    obtain ⟨part, _, h⟩ := bind_ok h
    dsimp only at h
    have two : ∀ {p q : Prop} [Decidable p] [Decidable q] {a b c : R MDL},
        (if p then (if q then a else b) else c) = .ok m' → a = .ok m' ∨ b = .ok m' ∨ c = .ok m' := by
      intro p q _ _ a b c h
      split at h
      · split at h
        · exact .inl h
        · exact .inr (.inl h)
      · exact .inr (.inr h)
    rcases two h with h | h | h
    all_goals
      obtain ⟨shapes, _, h⟩ := bind_ok h
      obtain ⟨mesh, _, h⟩ := bind_ok h
      obtain ⟨⟨verts, svals⟩, _, h⟩ := bind_ok h
      obtain ⟨sh, _, h⟩ := bind_ok h
      split at h
      · cases h
      · obtain ⟨c, _, h⟩ := bind_ok h
        obtain ⟨c', _, h⟩ := bind_ok h
        obtain ⟨meshes, _, h⟩ := bind_ok h
        exact ⟨_, h, rfl, rfl, by simp⟩

/-- after a non-empty history that started from a model whose used LODs own disjoint mesh ranges:
consistent headers, and mesh starts = first sub-mesh offsets -/
theorem history_last (es : List Edit) (hne : es ≠ []) (m m' : MDL)
    (hd : RangesDisjoint m.modelData.lods m.lods.length)
    (h : es.foldlM Mdl.applyEdit m = .ok m') : HeaderOK m' ∧ StartsFromSubmesh m' := by
  obtain ⟨init, last, rfl⟩ : ∃ init last, es = init ++ [last] :=
    ⟨es.dropLast, es.getLast hne, (List.dropLast_concat_getLast hne).symm⟩
  rw [List.foldlM_append] at h
  obtain ⟨mp, hmp, h⟩ := bind_ok h
  rw [List.foldlM_cons] at h
  obtain ⟨m2, hm2, h⟩ := bind_ok h
  have e : m2 = m' := pure_ok h
  subst e
  have hfr := history_frame init m mp hmp
  have hdp := hfr.rangesDisjoint hd
  obtain ⟨m1, hu, hl, _, hpl⟩ := applyEdit_update hm2
  refine ⟨updateHeaders_ok m1 m2 hu, updateHeaders_starts hu ?_⟩
  rw [hl, hpl]
  exact hdp

/-! ### the header-array slots of the LODs that were not parsed are never written -/

theorem copy3_frame {n : Nat} {dst r : Arr3 UInt32} {src : List UInt32}
    (h : copy3 n dst src = .ok r) : ∀ i, n ≤ i → r.get? i = dst.get? i := by
  unfold copy3 at h
  refine foldlM_range_inv _ (fun k (a : Arr3 UInt32) => ∀ i, k ≤ i → a.get? i = dst.get? i) dst
    (fun _ _ => rfl) n r ?_ h
  intro k a a' _ hP hf
  split at hf
  · cases hf
  · obtain ⟨v, _, hf⟩ := bind_ok hf
    have e := pure_ok hf
    subst e
    intro i hi
    rw [Arr3.get?_set, if_neg (by omega)]
    exact hP i (by omega)

/-- the four per-LOD arrays of the file header, slot `i` -/
def fhSlots (fh : FileHeader) (i : Nat) :
    Option UInt32 × Option UInt32 × Option UInt32 × Option UInt32 :=
  (fh.vertexOffsets.get? i, fh.indexOffsets.get? i, fh.vertexBufferSize.get? i,
    fh.indexBufferSize.get? i)

theorem updateHeaders_unused {m m' : MDL} (h : updateHeaders m = .ok m') :
    ∀ i, m.lods.length ≤ i → fhSlots m'.fileHeader i = fhSlots m.fileHeader i := by
  unfold updateHeaders at h
  obtain ⟨meshes, _, h⟩ := bind_ok h
  obtain ⟨lods1, _, h⟩ := bind_ok h
  obtain ⟨stack, _, h⟩ := bind_ok h
  obtain ⟨runtime, _, h⟩ := bind_ok h
  obtain ⟨d0, _, h⟩ := bind_ok h
  obtain ⟨dataOffset, _, h⟩ := bind_ok h
  obtain ⟨lods2, _, h⟩ := bind_ok h
  obtain ⟨vbs, hvbs, h⟩ := bind_ok h
  obtain ⟨vo, hvo, h⟩ := bind_ok h
  obtain ⟨ibs, hibs, h⟩ := bind_ok h
  obtain ⟨io, hio, h⟩ := bind_ok h
  have e := pure_ok h
  subst e
  intro i hi
  simp only [fhSlots, copy3_frame hvbs i hi, copy3_frame hvo i hi, copy3_frame hibs i hi,
    copy3_frame hio i hi]

theorem history_unused (es : List Edit) (m m' : MDL) (h : es.foldlM Mdl.applyEdit m = .ok m') :
    m'.lods.length = m.lods.length ∧
    ∀ i, m.lods.length ≤ i → fhSlots m'.fileHeader i = fhSlots m.fileHeader i := by
  refine foldlM_inv Mdl.applyEdit (fun x => x.lods.length = m.lods.length ∧
    ∀ i, m.lods.length ≤ i → fhSlots x.fileHeader i = fhSlots m.fileHeader i) es m m'
    ⟨rfl, fun _ _ => rfl⟩ ?_ h
  intro e _ b b' hb hf
  obtain ⟨m1, hu, _, hfh, hlen⟩ := applyEdit_update hf
  refine ⟨?_, fun i hi => ?_⟩
  · rw [(updateHeaders_frame m1 b' hu).partsLen, hlen]; exact hb.1
  · rw [updateHeaders_unused hu i (by rw [hlen, hb.1]; exact hi), hfh]
    exact hb.2 i hi

end Physis.Mdl
