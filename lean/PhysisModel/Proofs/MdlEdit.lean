import PhysisModel.Proofs.MdlLaidOut
/-!
# C07 — every edit ends in `update_headers`

`applyEdit_update`: the model an edit call returns is the result of `update_headers` on a model
with the LOD rows and the file header of the model the call started from; hence
(`history_last`) after a non-empty history the final model has consistent headers and every mesh
of a used LOD starts at its first sub-mesh's offset — whatever the arguments were.
-/
namespace Physis.Mdl
open Physis Physis.Spec.Mdl

theorem applyEdit_update {m m' : MDL} {e : Edit} (h : Mdl.applyEdit m e = .ok m') :
    ∃ m1, updateHeaders m1 = .ok m' ∧ m1.modelData.lods = m.modelData.lods ∧
      m1.fileHeader = m.fileHeader := by
  cases e with
  | replaceVertices l p vs is subs =>
    simp only [Mdl.applyEdit] at h
    unfold replaceVertices at h
    obtain ⟨parts, _, h⟩ := bind_ok h
    obtain ⟨part, _, h⟩ := bind_ok h
    obtain ⟨submeshes, _, h⟩ := bind_ok h
    obtain ⟨meshes, _, h⟩ := bind_ok h
    exact ⟨_, h, rfl, rfl⟩
  | removeShapeMeshes =>
    simp only [Mdl.applyEdit] at h
    unfold removeShapeMeshes at h
    exact ⟨_, h, rfl, rfl⟩
  | addShapeMesh l s sm p vals =>
    simp only [Mdl.applyEdit] at h
    unfold addShapeMesh at h
    obtain ⟨parts, _, h⟩ := bind_ok h
    obtain ⟨part, _, h⟩ := bind_ok h
    dsimp only at h
    have two : ∀ {p q : Prop} [Decidable p] [Decidable q] {a b c : R MDL},
        (if p then (if q then a else b) else c) = .ok m' → a = .ok m' ∨ b = .ok m' ∨ c = .ok m' := by
      intro p q _ _ a b c h
      split at h
      · split at h
        · exact .inl h
        · exact .inr (.inl h)
      · exact .inr (.inr h)
    rcases two h with h | h | h
    all_goals
      obtain ⟨shapes, _, h⟩ := bind_ok h
      obtain ⟨mesh, _, h⟩ := bind_ok h
      obtain ⟨⟨verts, svals⟩, _, h⟩ := bind_ok h
      obtain ⟨sh, _, h⟩ := bind_ok h
      split at h
      · cases h
      · obtain ⟨c, _, h⟩ := bind_ok h
        obtain ⟨c', _, h⟩ := bind_ok h
        obtain ⟨meshes, _, h⟩ := bind_ok h
        exact ⟨_, h, rfl, rfl⟩

/-- after a non-empty history that started from a model whose used LODs own disjoint mesh ranges:
consistent headers, and mesh starts = first sub-mesh offsets -/
theorem history_last (es : List Edit) (hne : es ≠ []) (m m' : MDL)
    (hd : RangesDisjoint m.modelData.lods m.fileHeader.lodCount.toNat)
    (h : es.foldlM Mdl.applyEdit m = .ok m') : HeaderOK m' ∧ StartsFromSubmesh m' := by
  obtain ⟨init, last, rfl⟩ : ∃ init last, es = init ++ [last] :=
    ⟨es.dropLast, es.getLast hne, (List.dropLast_concat_getLast hne).symm⟩
  rw [List.foldlM_append] at h
  obtain ⟨mp, hmp, h⟩ := bind_ok h
  rw [List.foldlM_cons] at h
  obtain ⟨m2, hm2, h⟩ := bind_ok h
  have e : m2 = m' := pure_ok h
  subst e
  have hfr := history_frame init m mp hmp
  have hdp := hfr.rangesDisjoint hd
  obtain ⟨m1, hu, hl, hf⟩ := applyEdit_update hm2
  refine ⟨updateHeaders_ok m1 m2 hu, updateHeaders_starts hu ?_⟩
  rw [hl, hf]
  exact hdp

end Physis.Mdl
