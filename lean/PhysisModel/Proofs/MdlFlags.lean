import PhysisModel.Proofs.MdlFrame
import PhysisModel.Proofs.MdlLaidOut
import PhysisModel.Proofs.MdlRuntimeSize
/-!
# C07 — the header self-consistency flags of a written file

`headerFlags_allOk`: a file header that agrees with `fileHeader a` (for a well-formed, canonical,
laid-out abstract model `a`) on the array slots of the LODs in use and declares empty sections in
the other slots (whose offsets may be arbitrary stale values) satisfies `HeaderFlags.allOk` against
the parts of `view a` and any file length that is at least every declared section end.
-/
namespace Physis.Mdl
open Physis Physis.Spec.Mdl

/-! ### the pieces of `headerFlags` -/

/-- `g` of `headerFlags` -/
def gA (x : Arr3 UInt32) (i : Nat) : Nat := ((x.get? i).getD 0).toNat

def vsumOf (lods : List (List Part)) (i : Nat) : Nat :=
  ((lods.getD i []).map fun p =>
    (p.vertexStreamStrides.map fun st => p.vertices.length * st).sum).sum

def isumOf (lods : List (List Part)) (i : Nat) : Nat :=
  2 * ((lods.getD i []).map fun p => p.indices.length).sum

def secsOf (fh : FileHeader) : List (Nat × Nat) :=
  [0, 1, 2].map (fun i => (gA fh.vertexOffsets i, gA fh.vertexBufferSize i)) ++
  [0, 1, 2].map (fun i => (gA fh.indexOffsets i, gA fh.indexBufferSize i))

/-- the double loop of the `disjoint` flag -/
def pairLoop (ne : List (Nat × Nat)) : Bool :=
  (List.range ne.length).all fun a => (List.range ne.length).all fun b =>
    a ≥ b || match ne[a]?, ne[b]? with
      | some x, some y => x.1 + x.2 ≤ y.1 || y.1 + y.2 ≤ x.1
      | _, _ => true

theorem flags_sized (fh : FileHeader) (n : Nat) (lods : List (List Part)) :
    (headerFlags fh n lods).sized =
      [0, 1, 2].all fun i => gA fh.vertexBufferSize i == vsumOf lods i := rfl

theorem flags_padded (fh : FileHeader) (n : Nat) (lods : List (List Part)) :
    (headerFlags fh n lods).padded =
      [0, 1, 2].all fun i =>
        gA fh.indexBufferSize i % 16 == 0 && isumOf lods i ≤ gA fh.indexBufferSize i := rfl

theorem flags_disjoint (fh : FileHeader) (n : Nat) (lods : List (List Part)) :
    (headerFlags fh n lods).disjoint =
      ((((secsOf fh).filter fun s => s.2 != 0).all fun s =>
          68 + fh.stackSize.toNat + fh.runtimeSize.toNat ≤ s.1) &&
        pairLoop ((secsOf fh).filter fun s => s.2 != 0)) := rfl

theorem flags_inBounds (fh : FileHeader) (n : Nat) (lods : List (List Part)) :
    (headerFlags fh n lods).inBounds = (secsOf fh).all fun s => s.1 + s.2 ≤ n := rfl

theorem flags_allOk_of (x : HeaderFlags) (h1 : x.sized = true) (h2 : x.padded = true)
    (h3 : x.disjoint = true) (h4 : x.inBounds = true) : x = HeaderFlags.allOk := by
  cases x
  simp only at h1 h2 h3 h4
  subst h1 h2 h3 h4
  rfl

/-! ### the numbers of `fileHeader a` -/

theorem header_vertexOffset (m : AbstractModel) (h : WF m = true) (i : Nat) (l : ALod)
    (hl : m.lods[i]? = some l) :
    (fileHeader m).vertexOffsets.get? i = some (dataStart m + psum lodSize m.lods i).toUInt32 := by
  have hi : i < 3 := by have := lt_of_getElem? hl; have := (wf_facts m h).lods3; omega
  show (Arr3.ofList 0 ((modelData m).lods.map (·.vertexDataOffset))).get? i = _
  rw [Arr3.get?_ofList _ _ i (by rw [List.length_map, lods_rows_length m h]; exact hi) hi,
    List.getElem?_map, lods_row m i l hl]
  rfl

theorem header_vertexSize (m : AbstractModel) (h : WF m = true) (i : Nat) (l : ALod)
    (hl : m.lods[i]? = some l) :
    (fileHeader m).vertexBufferSize.get? i = some (lodVertexSize l).toUInt32 := by
  have hi : i < 3 := by have := lt_of_getElem? hl; have := (wf_facts m h).lods3; omega
  show (Arr3.ofList 0 ((modelData m).lods.map (·.vertexBufferSize))).get? i = _
  rw [Arr3.get?_ofList _ _ i (by rw [List.length_map, lods_rows_length m h]; exact hi) hi,
    List.getElem?_map, lods_row m i l hl]
  rfl

theorem gA_of_get? {x : Arr3 UInt32} {i n : Nat} (h : x.get? i = some n.toUInt32)
    (hn : n < 4294967296) : gA x i = n := by
  unfold gA
  rw [h]
  exact toUInt32_toNat n hn

/-- the header agrees with `fileHeader a` on the slots of the LODs in use -/
def AgreesUsed (a : AbstractModel) (fh : FileHeader) : Prop :=
  ∀ i, i < a.lodCount.toNat →
    fh.vertexOffsets.get? i = (fileHeader a).vertexOffsets.get? i ∧
    fh.indexOffsets.get? i = (fileHeader a).indexOffsets.get? i ∧
    fh.vertexBufferSize.get? i = (fileHeader a).vertexBufferSize.get? i ∧
    fh.indexBufferSize.get? i = (fileHeader a).indexBufferSize.get? i

/-- the header declares empty sections in the slots of the unused LODs -/
def EmptyUnused (a : AbstractModel) (fh : FileHeader) : Prop :=
  ∀ i, a.lodCount.toNat ≤ i → i < 3 →
    fh.vertexBufferSize.get? i = some 0 ∧ fh.indexBufferSize.get? i = some 0

theorem slot_used (a : AbstractModel) (h : WF a = true) (fh : FileHeader) (harr : AgreesUsed a fh)
    (i : Nat) (hi : i < a.lodCount.toNat) :
    ∃ l, a.lods[i]? = some l ∧
      gA fh.vertexOffsets i = dataStart a + psum lodSize a.lods i ∧
      gA fh.vertexBufferSize i = lodVertexSize l ∧
      gA fh.indexOffsets i = dataStart a + psum lodSize a.lods i + lodVertexSize l ∧
      gA fh.indexBufferSize i = lodIndexSize l ∧
      psum lodSize a.lods (i + 1) = psum lodSize a.lods i + lodVertexSize l + lodIndexSize l := by
  obtain ⟨l, hl⟩ := used_lod a h i hi
  obtain ⟨h1, h2, h3, h4⟩ := harr i hi
  have hle := psum_add_le lodSize a.lods i l hl
  have hlen := length_encodeMdl a
  have hfl := (wf_facts a h).fileLen
  have hls : lodSize l = lodVertexSize l + lodIndexSize l := rfl
  refine ⟨l, hl, ?_, ?_, ?_, ?_, ?_⟩
  · exact gA_of_get? (h1.trans (header_vertexOffset a h i l hl)) (by omega)
  · exact gA_of_get? (h3.trans (header_vertexSize a h i l hl)) (by omega)
  · exact gA_of_get? (h2.trans (header_indexOffset a h i l hl)) (by omega)
  · exact gA_of_get? (h4.trans (header_indexSize a h i l hl)) (by omega)
  · rw [psum_succ lodSize a.lods i l hl, hls]; omega

theorem slot_unused (a : AbstractModel) (fh : FileHeader) (hun : EmptyUnused a fh)
    (i : Nat) (hi : a.lodCount.toNat ≤ i) (hi3 : i < 3) :
    gA fh.vertexBufferSize i = 0 ∧ gA fh.indexBufferSize i = 0 := by
  obtain ⟨h1, h2⟩ := hun i hi hi3
  unfold gA
  rw [h1, h2]
  exact ⟨rfl, rfl⟩

/-- the purely numeric description of slot `i` -/
theorem slot_num (a : AbstractModel) (h : WF a = true) (fh : FileHeader) (harr : AgreesUsed a fh)
    (hun : EmptyUnused a fh) (i : Nat) (hi3 : i < 3) :
    (i < a.lodCount.toNat ∧
      gA fh.vertexOffsets i = dataStart a + psum lodSize a.lods i ∧
      gA fh.indexOffsets i = dataStart a + psum lodSize a.lods i + gA fh.vertexBufferSize i ∧
      psum lodSize a.lods (i + 1) =
        psum lodSize a.lods i + gA fh.vertexBufferSize i + gA fh.indexBufferSize i) ∨
    (a.lodCount.toNat ≤ i ∧ gA fh.vertexBufferSize i = 0 ∧ gA fh.indexBufferSize i = 0) := by
  by_cases hi : i < a.lodCount.toNat
  · obtain ⟨l, _, h1, h2, h3, h4, h5⟩ := slot_used a h fh harr i hi
    exact Or.inl ⟨hi, h1, by rw [h3, h2], by rw [h5, h2, h4]⟩
  · exact Or.inr ⟨by omega, slot_unused a fh hun i (by omega) hi3⟩

/-! ### the start of the sections -/

theorem length_flatMap_const' (f : α → List β) (c : Nat) (l : List α)
    (h : ∀ x ∈ l, (f x).length = c) : (l.flatMap f).length = l.length * c := by
  induction l with
  | nil => simp
  | cons x xs ih =>
    rw [List.flatMap_cons, List.length_append, h x (by simp),
      ih (fun y hy => h y (by simp [hy])), List.length_cons, Nat.succ_mul]
    omega

theorem decls_le_encModelData (ver : UInt32) (d : ModelData) :
    (d.decls.flatMap encDecl).length ≤ (encModelData ver d).length := by
  unfold encModelData
  rw [List.length_append]
  omega

theorem stackSize_le (a : AbstractModel) (h : WF a = true) : stackSizeOf a ≤ runtimeBlockSize a := by
  have W := wf_facts a h
  have h1 := decls_le_encModelData a.version (modelDataAt a 0)
  have h2 : ((modelDataAt a 0).decls.flatMap encDecl).length = (allMeshes a).length * 136 := by
    show (((allMeshes a).map (fun (x : AMesh) => x.decl)).flatMap encDecl).length = _
    rw [length_flatMap_const' encDecl 136, List.length_map]
    intro d hd
    obtain ⟨x, hx, rfl⟩ := List.mem_map.mp hd
    obtain ⟨l, hl, hxl⟩ := List.mem_flatMap.mp hx
    have hok := W.meshOk l hl x hxl
    simp only [meshOk, Bool.and_eq_true, decide_eq_true_eq, and_assoc] at hok
    exact length_encDecl _ hok.2.1
  unfold stackSizeOf runtimeBlockSize
  omega

theorem dataStart_eq (a : AbstractModel) (h : WF a = true) (fh : FileHeader)
    (hstack : fh.stackSize = (fileHeader a).stackSize)
    (hrt : fh.runtimeSize = (fileHeader a).runtimeSize) :
    68 + fh.stackSize.toNat + fh.runtimeSize.toNat = dataStart a := by
  have hle := stackSize_le a h
  have hlen := length_encodeMdl a
  have hfl := (wf_facts a h).fileLen
  have hds : dataStart a = 68 + runtimeBlockSize a := rfl
  rw [hstack, hrt]
  show 68 + (stackSizeOf a).toUInt32.toNat + (runtimeBlockSize a - stackSizeOf a).toUInt32.toNat = _
  rw [toUInt32_toNat _ (by omega), toUInt32_toNat _ (by omega)]
  omega

/-! ### the reported parts -/

/-- what `view a` reports, entry by entry (the mesh / sub-mesh numbering is irrelevant here) -/
theorem view_lods (a : AbstractModel) (h : WF a = true) (v : View) (hv : view a = some v) :
    v.lods.length = a.lodCount.toNat ∧
    ∀ (t : Nat) (ps : List Part), v.lods[t]? = some ps →
      ∃ l : ALod, a.lods[t]? = some l ∧ ps.length = l.meshes.length ∧
      ∀ (d : Nat) (part : Part), ps[d]? = some part →
        ∃ mesh mb sb sh, l.meshes[d]? = some mesh ∧ part = partOf mb sb mesh sh := by
  have W := wf_facts a h
  cases hlv : lodsView a a.lodCount.toNat 0 0 a.lods with
  | none => simp [view, hlv] at hv
  | some ls =>
    simp only [view, hlv, Option.bind_eq_bind, Option.bind_some, Option.some.injEq] at hv
    subst hv
    obtain ⟨hlen, hl⟩ := lodsView_getElem? a a.lods a.lodCount.toNat 0 0 ls
      (by have := W.lc3; have := W.lods3; omega) (Nat.le_refl _) hlv
    refine ⟨hlen, fun t ps ht => ?_⟩
    obtain ⟨l, hlt, hp⟩ := hl t ps ht
    obtain ⟨hplen, hparts⟩ := partsOf_getElem? a _ l.meshes _ _ _ ps hp
    refine ⟨l, hlt, hplen, fun d part hd => ?_⟩
    obtain ⟨mesh, sh, hm, he⟩ := hparts d part hd
    exact ⟨mesh, _, _, sh, hm, he⟩

theorem parts_map_eq {ps : List Part} {ms : List AMesh} (F : Part → Nat) (G : AMesh → Nat)
    (hlen : ps.length = ms.length)
    (hpt : ∀ (d : Nat) (part : Part), ps[d]? = some part →
      ∃ mesh mb sb sh, ms[d]? = some mesh ∧ part = partOf mb sb mesh sh)
    (hFG : ∀ mb sb mesh sh, mesh ∈ ms → F (partOf mb sb mesh sh) = G mesh) :
    ps.map F = ms.map G := by
  apply List.ext_getElem?
  intro d
  rw [List.getElem?_map, List.getElem?_map]
  cases hp : ps[d]? with
  | none =>
    have : ms[d]? = none := by
      rw [List.getElem?_eq_none_iff] at hp ⊢
      omega
    rw [this]; rfl
  | some part =>
    obtain ⟨mesh, mb, sb, sh, hm, he⟩ := hpt d part hp
    rw [hm, he]
    show some _ = some _
    rw [hFG mb sb mesh sh (mem_of_getElem? hm)]

theorem part_vertexBytes (mb sb : Nat) (mesh : AMesh) (sh : List Shape) (MF : MeshFacts mesh) :
    ((partOf mb sb mesh sh).vertexStreamStrides.map
      fun st => (partOf mb sb mesh sh).vertices.length * st).sum = streamSize mesh := by
  show ((mesh.streams.map (·.stride.toNat)).map fun st => (verticesOf mesh).length * st).sum = _
  have hvl : (verticesOf mesh).length = mesh.vertexCount.toNat := by
    simp [verticesOf]
  rw [hvl, List.map_map]
  unfold streamSize
  congr 1
  apply List.map_congr_left
  intro s hs
  exact (MF.dataLen s hs).symm

theorem sum_map_le (f g : α → Nat) (l : List α) (h : ∀ x ∈ l, f x ≤ g x) :
    (l.map f).sum ≤ (l.map g).sum := by
  induction l with
  | nil => simp
  | cons x xs ih =>
    have := h x (by simp)
    have := ih (fun y hy => h y (by simp [hy]))
    simp only [List.map_cons, List.sum_cons]
    omega

theorem getD_lods (lods : List (List Part)) (i : Nat) : lods.getD i [] = (lods[i]?).getD [] := by
  simp [List.getD_eq_getElem?_getD]

theorem vsum_used (a : AbstractModel) (h : WF a = true) (v : View) (hv : view a = some v) (i : Nat)
    (hi : i < a.lodCount.toNat) (l : ALod) (hl : a.lods[i]? = some l) :
    vsumOf v.lods i = lodVertexSize l ∧ isumOf v.lods i ≤ lodIndexSize l := by
  obtain ⟨hlen, hlods⟩ := view_lods a h v hv
  have hps : v.lods[i]? = some (v.lods[i]'(by omega)) := List.getElem?_eq_getElem _
  obtain ⟨l', hl', hplen, hparts⟩ := hlods i _ hps
  rw [hl] at hl'; cases hl'
  unfold vsumOf isumOf lodVertexSize lodIndexSize
  rw [getD_lods, hps]
  show ((v.lods[i]'(by omega)).map _).sum = _ ∧ 2 * ((v.lods[i]'(by omega)).map _).sum ≤ _
  rw [parts_map_eq _ streamSize hplen hparts
      (fun mb sb mesh sh hm => by
        obtain ⟨d, hd⟩ := List.getElem?_of_mem hm
        exact part_vertexBytes mb sb mesh sh (wf_mesh a h hl hd)),
    parts_map_eq (fun p => p.indices.length) (fun (m : AMesh) => m.indices.length) hplen hparts
      (fun _ _ _ _ _ => rfl)]
  refine ⟨rfl, ?_⟩
  have := sum_map_le (fun (m : AMesh) => m.indices.length) meshIndexWords l.meshes
    (fun x _ => by unfold meshIndexWords; omega)
  omega

theorem vsum_unused (a : AbstractModel) (h : WF a = true) (v : View) (hv : view a = some v) (i : Nat)
    (hi : a.lodCount.toNat ≤ i) : vsumOf v.lods i = 0 ∧ isumOf v.lods i = 0 := by
  obtain ⟨hlen, _⟩ := view_lods a h v hv
  unfold vsumOf isumOf
  rw [getD_lods, List.getElem?_eq_none (by omega)]
  exact ⟨rfl, rfl⟩

/-! ### the double loop -/

theorem pairLoop_of_pairwise (ne : List (Nat × Nat))
    (hp : ne.Pairwise fun x y => x.1 + x.2 ≤ y.1 ∨ y.1 + y.2 ≤ x.1) : pairLoop ne = true := by
  unfold pairLoop
  simp only [List.all_eq_true, List.mem_range]
  intro i hi j hj
  by_cases hij : i ≥ j
  · simp [hij]
  · rw [List.getElem?_eq_getElem hi, List.getElem?_eq_getElem hj]
    have := (List.pairwise_iff_getElem.mp hp) i j hi hj (by omega)
    simp only [Bool.or_eq_true, decide_eq_true_eq]
    right
    exact this

/-- sections of non-zero size that are pairwise disjoint as far as both sizes are non-zero pass
the double loop -/
theorem pairLoop_filter (secs : List (Nat × Nat))
    (hp : secs.Pairwise fun x y => x.2 = 0 ∨ y.2 = 0 ∨ x.1 + x.2 ≤ y.1 ∨ y.1 + y.2 ≤ x.1) :
    pairLoop (secs.filter fun s => s.2 != 0) = true := by
  apply pairLoop_of_pairwise
  have := hp.filter (fun s => s.2 != 0)
  refine this.imp_of_mem ?_
  intro x y hx hy hr
  have hx2 : x.2 ≠ 0 := by simpa using (List.mem_filter.mp hx).2
  have hy2 : y.2 ≠ 0 := by simpa using (List.mem_filter.mp hy).2
  rcases hr with hr | hr | hr
  · exact absurd hr hx2
  · exact absurd hr hy2
  · exact hr

/-! ### the four flags -/

theorem headerFlags_sized (a : AbstractModel) (h : WF a = true)
    (v : View) (hv : view a = some v) (fh : FileHeader) (harr : AgreesUsed a fh)
    (hun : EmptyUnused a fh) (n : Nat) : (headerFlags fh n v.lods).sized = true := by
  rw [flags_sized]
  simp only [List.all_eq_true, beq_iff_eq]
  intro i hi
  have hi3 : i < 3 := by
    simp only [List.mem_cons, List.not_mem_nil, or_false] at hi
    omega
  by_cases hu : i < a.lodCount.toNat
  · obtain ⟨l, hl, _, h2, _⟩ := slot_used a h fh harr i hu
    rw [h2, (vsum_used a h v hv i hu l hl).1]
  · rw [(slot_unused a fh hun i (by omega) hi3).1, (vsum_unused a h v hv i (by omega)).1]

theorem headerFlags_padded (a : AbstractModel) (h : WF a = true) (hlay : LaidOut a = true)
    (v : View) (hv : view a = some v) (fh : FileHeader) (harr : AgreesUsed a fh)
    (hun : EmptyUnused a fh) (n : Nat) : (headerFlags fh n v.lods).padded = true := by
  rw [flags_padded]
  simp only [List.all_eq_true, Bool.and_eq_true, beq_iff_eq, decide_eq_true_eq]
  intro i hi
  have hi3 : i < 3 := by
    simp only [List.mem_cons, List.not_mem_nil, or_false] at hi
    omega
  by_cases hu : i < a.lodCount.toNat
  · obtain ⟨l, hl, _, _, _, h4, _⟩ := slot_used a h fh harr i hu
    rw [h4]
    refine ⟨?_, (vsum_used a h v hv i hu l hl).2⟩
    rw [(laid_facts hlay hl hu).pad]
    unfold paddedIndexSize
    exact Nat.mul_mod_left _ _
  · rw [(slot_unused a fh hun i (by omega) hi3).2, (vsum_unused a h v hv i (by omega)).2]
    exact ⟨rfl, Nat.le_refl _⟩

theorem secsOf_eq (fh : FileHeader) :
    secsOf fh =
      [(gA fh.vertexOffsets 0, gA fh.vertexBufferSize 0),
       (gA fh.vertexOffsets 1, gA fh.vertexBufferSize 1),
       (gA fh.vertexOffsets 2, gA fh.vertexBufferSize 2),
       (gA fh.indexOffsets 0, gA fh.indexBufferSize 0),
       (gA fh.indexOffsets 1, gA fh.indexBufferSize 1),
       (gA fh.indexOffsets 2, gA fh.indexBufferSize 2)] := rfl

theorem headerFlags_inBounds (fh : FileHeader) (n : Nat) (lods : List (List Part))
    (hends : ∀ e ∈ List.zipWith (fun (o s : UInt32) => o.toNat + s.toNat)
        (fh.vertexOffsets.toList ++ fh.indexOffsets.toList)
        (fh.vertexBufferSize.toList ++ fh.indexBufferSize.toList), e ≤ n) :
    (headerFlags fh n lods).inBounds = true := by
  rw [flags_inBounds, secsOf_eq]
  simp only [Arr3.toList, List.cons_append, List.nil_append, List.zipWith_cons_cons,
    List.zipWith_nil_left, List.mem_cons, List.not_mem_nil, or_false, forall_eq_or_imp,
    forall_eq] at hends
  obtain ⟨e1, e2, e3, e4, e5, e6⟩ := hends
  simp only [List.all_cons, List.all_nil, Bool.and_true, Bool.and_eq_true, decide_eq_true_eq]
  exact ⟨e1, e2, e3, e4, e5, e6⟩

theorem headerFlags_disjoint (a : AbstractModel) (h : WF a = true) (fh : FileHeader)
    (hstack : fh.stackSize = (fileHeader a).stackSize)
    (hrt : fh.runtimeSize = (fileHeader a).runtimeSize)
    (harr : AgreesUsed a fh) (hun : EmptyUnused a fh) (n : Nat) (lods : List (List Part)) :
    (headerFlags fh n lods).disjoint = true := by
  rw [flags_disjoint, dataStart_eq a h fh hstack hrt, secsOf_eq]
  have W := wf_facts a h
  have c1 := W.lc1
  have c3 := W.lc3
  have s0 := slot_num a h fh harr hun 0 (by omega)
  have s1 := slot_num a h fh harr hun 1 (by omega)
  have s2 := slot_num a h fh harr hun 2 (by omega)
  simp only [Nat.zero_add, Nat.reduceAdd] at s0 s1 s2
  generalize gA fh.vertexOffsets 0 = vo0 at *
  generalize gA fh.vertexOffsets 1 = vo1 at *
  generalize gA fh.vertexOffsets 2 = vo2 at *
  generalize gA fh.indexOffsets 0 = io0 at *
  generalize gA fh.indexOffsets 1 = io1 at *
  generalize gA fh.indexOffsets 2 = io2 at *
  generalize gA fh.vertexBufferSize 0 = vs0 at *
  generalize gA fh.vertexBufferSize 1 = vs1 at *
  generalize gA fh.vertexBufferSize 2 = vs2 at *
  generalize gA fh.indexBufferSize 0 = is0 at *
  generalize gA fh.indexBufferSize 1 = is1 at *
  generalize gA fh.indexBufferSize 2 = is2 at *
  generalize psum lodSize a.lods 0 = p0 at *
  generalize psum lodSize a.lods 1 = p1 at *
  generalize psum lodSize a.lods 2 = p2 at *
  generalize psum lodSize a.lods 3 = p3 at *
  generalize dataStart a = D at *
  generalize a.lodCount.toNat = c at *
  clear W hun harr hrt hstack h
  rw [Bool.and_eq_true]
  constructor
  · simp only [List.all_eq_true, List.mem_filter, List.mem_cons, List.not_mem_nil, or_false,
      decide_eq_true_eq, bne_iff_ne, ne_eq]
    rintro s ⟨hs | hs | hs | hs | hs | hs, hne⟩ <;> subst hs <;> simp only at hne ⊢ <;> omega
  · apply pairLoop_filter
    simp only [List.pairwise_cons, List.mem_cons, List.not_mem_nil, or_false, forall_eq_or_imp,
      forall_eq, List.Pairwise.nil, and_true, false_imp_iff, implies_true, and_assoc]
    refine ⟨?_, ?_, ?_, ?_, ?_, ?_, ?_, ?_, ?_, ?_, ?_, ?_, ?_, ?_, ?_⟩ <;> omega

/-! ### the theorem -/

-- `hcan` is part of the agreed statement; the proof does not need it (the parts come from `view a`,
-- whose LOD list has exactly `lodCount` entries, and the unused slots are pinned by `hun`)
set_option linter.unusedVariables false in
theorem headerFlags_allOk (a : AbstractModel) (h : WF a = true) (hcan : Canonical a = true)
    (hlay : LaidOut a = true) (v : View) (hv : view a = some v) (fh : FileHeader)
    (hstack : fh.stackSize = (fileHeader a).stackSize)
    (hrt : fh.runtimeSize = (fileHeader a).runtimeSize)
    (harr : ∀ i, i < a.lodCount.toNat →
      fh.vertexOffsets.get? i = (fileHeader a).vertexOffsets.get? i ∧
      fh.indexOffsets.get? i = (fileHeader a).indexOffsets.get? i ∧
      fh.vertexBufferSize.get? i = (fileHeader a).vertexBufferSize.get? i ∧
      fh.indexBufferSize.get? i = (fileHeader a).indexBufferSize.get? i)
    (hun : ∀ i, a.lodCount.toNat ≤ i → i < 3 →
      fh.vertexBufferSize.get? i = some 0 ∧ fh.indexBufferSize.get? i = some 0)
    (n : Nat)
    (hends : ∀ e ∈ List.zipWith (fun (o s : UInt32) => o.toNat + s.toNat)
        (fh.vertexOffsets.toList ++ fh.indexOffsets.toList)
        (fh.vertexBufferSize.toList ++ fh.indexBufferSize.toList), e ≤ n) :
    headerFlags fh n v.lods = HeaderFlags.allOk :=
  flags_allOk_of _ (headerFlags_sized a h v hv fh harr hun n)
    (headerFlags_padded a h hlay v hv fh harr hun n)
    (headerFlags_disjoint a h fh hstack hrt harr hun n v.lods)
    (headerFlags_inBounds fh n v.lods hends)

end Physis.Mdl
