import PhysisModel.Base.ParserAPbcLemmas
import PhysisModel.Model.C18Lgb
namespace Physis.C18Lgb
open Physis Physis.A

theorem withSome_good {α β} {o : Option α} {f : α → P β} (hf : ∀ a, PGood (f a)) : PGood (withSome o f) := by
  unfold withSome
  split
  · exact PGood.failP
  · exact hf _

theorem heapString_good (n : Nat) : PGood (heapString n) := by
  intro w s hs
  unfold heapString
  split
  · exact ⟨⟨not_faults_ok _ _, Nat.zero_le _⟩, by intro a s' he; cases he; exact hs⟩
  · exact ⟨⟨not_faults_fail _ _, Nat.zero_le _⟩, by intro a s' he; cases he⟩

/-- the offset tables are requested only after the count was checked against the remaining input -/
theorem vecGuard_good (n sz : Nat) : PGood (vecGuard n sz) := by
  intro w s hs
  unfold vecGuard
  split
  · exact ⟨⟨not_faults_fail _ _, Nat.zero_le _⟩, by intro a s' he; cases he⟩
  · next h =>
    refine ⟨⟨not_faults_ok _ _, ?_⟩, by intro a s' he; cases he; exact hs⟩
    show n * sz ≤ budget w.length
    unfold budget; omega

macro "pg" : tactic => `(tactic| repeat (first
  | apply withSome_good
  | exact heapString_good _
  | exact vecGuard_good _ _
  | apply PGood.each
  | pgood_step))

theorem i32Enum_good (ok : Nat → Bool) : PGood (i32Enum ok) := by unfold i32Enum; pgood

theorem item_good (i : Item) : PGood (item i) := by
  have := i32Enum_good
  cases i <;> (unfold item; pgood)

theorem instanceObject_good (l : Nat) (a b : UInt32) : PGood (instanceObject l a b) := by
  have := i32Enum_good
  have := item_good
  unfold instanceObject; pg

theorem layerSetList_good : PGood layerSetList := by
  have := i32Enum_good
  unfold layerSetList; pg

theorem offsetTable_good (c : UInt32) : PGood (offsetTable c) := by unfold offsetTable; pg

theorem obSetRef_good : PGood obSetRef := by have := i32Enum_good; unfold obSetRef; pg
theorem obSetEnableRef_good : PGood obSetEnableRef := by have := i32Enum_good; unfold obSetEnableRef; pg

theorem layerHead_good (ls : Nat) : PGood (layerHead ls) := by
  have := layerSetList_good
  unfold layerHead; pg

theorem layerRefs_good : PGood layerRefs := by unfold layerRefs; pg

theorem refList_good (ls : Nat) (r : UInt32 × UInt32) {p : P Unit} (hp : PGood p) : PGood (refList ls r p) := by
  unfold refList; pg

theorem layer_good (off : UInt32) : PGood (layer off) := by
  unfold layer
  apply withSome_good; intro ls
  apply PGood.bind (PGood.seekStart _); intro _
  apply PGood.bind (layerHead_good _); intro h
  apply PGood.bind layerRefs_good; intro r
  apply PGood.bind (offsetTable_good _); intro offs
  apply PGood.bind (PGood.each _ (fun o => instanceObject_good _ _ o)); intro _
  apply PGood.bind (refList_good _ _ obSetRef_good); intro _
  exact refList_good _ _ obSetEnableRef_good

theorem reader_good : PGood reader := by
  unfold reader
  apply PGood.bind PGood.u32le; intro _
  apply PGood.bind PGood.u32le; intro fileSize
  apply PGood.bind PGood.u32le; intro chunkCount
  apply PGood.ite PGood.failP
  apply PGood.bind PGood.u32le; intro _
  apply PGood.bind PGood.u32le; intro chunkSize
  apply PGood.bind PGood.u32le; intro _
  apply PGood.bind PGood.u32le; intro nameOff
  apply PGood.bind (heapString_good _); intro _
  apply PGood.bind PGood.u32le; intro _
  apply PGood.bind PGood.u32le; intro layerCount
  apply PGood.ite PGood.failP
  apply PGood.bind (offsetTable_good _); intro offs
  exact PGood.each _ layer_good

theorem fromExisting_good (b : Bytes) : Good (budget b.length) (fromExisting b) :=
  PGood.run reader_good b

end Physis.C18Lgb
