import PhysisModel.Model.Layer
import PhysisModel.Spec.Layer
import PhysisModel.Proofs.ReaderC16
namespace Physis.Layer
open Physis.Spec.Layer

theorem writeAt_nil (n : Nat) (d : Bytes) : writeAt [] n d = List.replicate n 0 ++ d := by
  simp [writeAt]

theorem writeAt_end (buf d : Bytes) (n : Nat) (h : n = buf.length) : writeAt buf n d = buf ++ d := by
  subst h; simp [writeAt]

theorem writeAt_front (a b d : Bytes) (h : a.length = d.length) : writeAt (a ++ b) 0 d = d ++ b := by
  simp [writeAt, ← h]

theorem latin1_ascii (s : Bytes) (h : ∀ c ∈ s, c < 128) : latin1ToUtf8 s = s := by
  induction s with
  | nil => rfl
  | cons a t ih =>
    have ha : a < 128 := h a (by simp)
    have ht : ∀ c ∈ t, c < 128 := fun c hc => h c (by simp [hc])
    simp [latin1ToUtf8, ha, ih ht]

theorem contains_zero_false (s : Bytes) (h : ∀ c ∈ s, c ≠ 0) : s.contains 0 = false := by
  induction s with
  | nil => rfl
  | cons a t ih =>
    have ha : a ≠ 0 := h a (by simp)
    have ht : ∀ c ∈ t, c ≠ 0 := fun c hc => h c (by simp [hc])
    simp only [List.contains_cons, ih ht, Bool.or_false]; exact beq_false_of_ne (Ne.symm ha)

theorem i32NonPos_ofNat (n : Nat) (h0 : 0 < n) (h : n < 2 ^ 31) : i32NonPos (UInt32.ofNat n) = false := by
  have hn : (UInt32.ofNat n).toNat = n := by
    simp only [UInt32.toNat_ofNat']; omega
  have h1 : (UInt32.ofNat n == 0) = false := by
    apply beq_false_of_ne
    intro hc
    have := congrArg UInt32.toNat hc
    rw [hn] at this; simp at this; omega
  have h2 : ¬ (UInt32.ofNat n ≥ 0x80000000) := by
    rw [ge_iff_le, UInt32.le_iff_toNat_le, hn]; simp; omega
  simp [i32NonPos, h1, h2]

/-- the writer produces the documented layout -/
theorem write_eq_encode (g : EmptyGroup) (h : ∀ c ∈ g.name, c ≠ 0) :
    writeToBuffer ⟨g.fileId, g.chunkId, g.layerGroupId, g.name⟩ = .ok (encode g) := by
  simp only [writeToBuffer, contains_zero_false _ h, writeAt_nil]
  rw [writeAt_end _ _ 36 (by simp)]
  have hl : (List.replicate 12 (0:UInt8) ++ (putU32le g.chunkId ++ putU32le 24 ++ putU32le g.layerGroupId ++
      putU32le (UInt32.ofNat (12 + 4 + 0)) ++ putU32le 16 ++ putU32le 0) ++ (g.name ++ [0])).length
      = g.name.length + 37 := by simp; omega
  rw [hl]
  simp only [List.append_assoc]
  rw [writeAt_front _ _ _ (by simp)]
  simp [encode]

theorem readAt_encode (g : EmptyGroup) (h : WF g) (file : Bytes)
    (hseek : Rd.seekTo file 36 = g.name ++ [0]) :
    fromExistingAt file (encode g) = .ok ⟨g.fileId, g.chunkId, g.layerGroupId, g.name⟩ := by
  obtain ⟨hc, hl⟩ := h
  have hname : ∀ c ∈ g.name, c ≠ 0 := fun c m => (hc c m).1
  have hascii : ∀ c ∈ g.name, c < 128 := fun c m => (hc c m).2
  have hcstr : Rd.cstr (g.name ++ [0]) = some g.name := Rd.cstr_put g.name [] hname
  have hfs : i32NonPos (UInt32.ofNat (g.name.length + 37)) = false := i32NonPos_ofNat _ (by omega) hl
  have h1 : i32NonPos 1 = false := by decide
  have h24 : i32NonPos 24 = false := by decide
  have h16 : 12 + 8 + (16 : UInt32).toNat = 36 := by decide
  simp only [fromExistingAt, encode, Rd.u32le_put, hfs, h1, h24, h16, hseek, hcstr, latin1_ascii _ hascii]
  simp

/-- the reader returns the stored ids and name -/
theorem read_encode (g : EmptyGroup) (h : WF g) :
    fromExisting (encode g) = .ok ⟨g.fileId, g.chunkId, g.layerGroupId, g.name⟩ := by
  apply readAt_encode g h
  have := Rd.seekTo_append (putU32le g.fileId ++ putU32le (UInt32.ofNat (g.name.length + 37)) ++ putU32le 1 ++
    putU32le g.chunkId ++ putU32le 24 ++ putU32le g.layerGroupId ++ putU32le 16 ++ putU32le 16 ++ putU32le 0)
    (g.name ++ [0])
  simp only [List.append_assoc] at this
  simpa [encode] using this

end Physis.Layer
