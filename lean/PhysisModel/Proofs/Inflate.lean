import PhysisModel.Model.Inflate
import PhysisModel.Spec.Deflate
/-! The executable inflater inverts the stored-block compressor, for every content ≤ 65 535 bytes. -/
namespace Physis.Inflate
open Physis Physis.Spec.Deflate

theorem toNat_ofNat_lt (n : Nat) (h : n < 256) : (UInt8.ofNat n).toNat = n := by
  simp [Nat.mod_eq_of_lt h]

theorem inflate_stored (d : Bytes) (h : d.length ≤ 65535) : inflate (storedBlock d) = some d := by
  unfold inflate inflateArr
  have hsz : (storedBlock d).toArray.size = d.length + 5 := by simp [storedBlock]
  rw [hsz]
  have e : 8 * (d.length + 5) + 1 = (8 * (d.length + 5)) + 1 := rfl
  rw [e]
  simp only [blocks]
  have hb0 : Bits.bit { data := (storedBlock d).toArray, pos := 0 } = some (1, { data := (storedBlock d).toArray, pos := 1 }) := by
    simp [Bits.bit, storedBlock]
  rw [hb0]
  simp only []
  have hb1 : Bits.bits 2 { data := (storedBlock d).toArray, pos := 1 } = some (0, { data := (storedBlock d).toArray, pos := 3 }) := by
    simp [Bits.bits, Bits.bit, storedBlock]
  rw [hb1]
  simp only [if_true]
  have hl1 : d.length % 256 < 256 := Nat.mod_lt _ (by omega)
  have hl2 : d.length / 256 < 256 := by omega
  have hn1 : (65535 - d.length) % 256 < 256 := Nat.mod_lt _ (by omega)
  have hn2 : (65535 - d.length) / 256 < 256 := by omega
  have hs : stored { data := (storedBlock d).toArray, pos := 3 } #[] =
      some ({ data := (storedBlock d).toArray, pos := (1 + 4 + d.length) * 8 }, d.toArray) := by
    unfold stored Bits.align
    simp only [hsz]
    have hp : (3 + 7) / 8 * 8 / 8 = 1 := by decide
    simp only [hp]
    have g1 : (storedBlock d).toArray.getD 1 0 = UInt8.ofNat (d.length % 256) := by simp [storedBlock]
    have g2 : (storedBlock d).toArray.getD (1+1) 0 = UInt8.ofNat (d.length / 256) := by simp [storedBlock]
    have g3 : (storedBlock d).toArray.getD (1+2) 0 = UInt8.ofNat ((65535 - d.length) % 256) := by simp [storedBlock]
    have g4 : (storedBlock d).toArray.getD (1+3) 0 = UInt8.ofNat ((65535 - d.length) / 256) := by simp [storedBlock]
    rw [g1, g2, g3, g4]
    rw [toNat_ofNat_lt _ hl1, toNat_ofNat_lt _ hl2, toNat_ofNat_lt _ hn1, toNat_ofNat_lt _ hn2]
    have hlen : d.length % 256 + 256 * (d.length / 256) = d.length := by omega
    have hnlen : (65535 - d.length) % 256 + 256 * ((65535 - d.length) / 256) = 65535 - d.length := by omega
    rw [hlen, hnlen]
    have c1 : ¬ (1 + 4 > d.length + 5) := by omega
    have c2 : ¬ (d.length + (65535 - d.length) ≠ 65535) := by omega
    have c3 : ¬ (1 + 4 + d.length > d.length + 5) := by omega
    simp only [c1, c2, c3, if_false]
    congr 2
    simp [storedBlock]
  rw [hs]
  simp

theorem inflatesTo_stored (d : Bytes) (h : d.length ≤ 65535) :
    inflatesTo (storedBlock d) d.length = some d := by
  simp [inflatesTo, inflate_stored d h]

end Physis.Inflate
