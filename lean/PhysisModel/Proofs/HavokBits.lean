import PhysisModel.Model.Havok
import PhysisModel.Spec.HavokTag
import Std.Tactic.BVDecide
/-!
Bit fields: `read_bit_field(count)` consumes `ceil(count / 8)` bytes and returns bit `i mod 8` of byte
`i div 8` for `i < count`; it inverts `Spec.HavokTag.encodeBits`.
-/
namespace Physis.Havok
open Physis.Spec.HavokTag

/-! ### number of bytes -/

theorem bitFieldBytes_eq (count : Nat) (h : count + 7 < 2 ^ 32) : bitFieldBytes count = (count + 7) / 8 := by
  unfold bitFieldBytes
  have key : ∀ v : BitVec 32, (v &&& 0xFFFFFFF8#32) / 8#32 = v / 8#32 := by intro v; bv_decide (timeout := 300)
  have h1 := congrArg BitVec.toNat (key (BitVec.ofNat 32 (count + 7)))
  simp only [BitVec.toNat_udiv, BitVec.toNat_and, BitVec.toNat_ofNat] at h1
  rw [Nat.mod_eq_of_lt h] at h1
  simpa using h1

/-! ### the bit loop -/

/-- the low `k` bits of a byte, least significant first -/
def lsb : UInt8 → Nat → List Bool
  | _, 0 => []
  | byte, k + 1 => ((byte &&& 1) == 1) :: lsb (byte >>> 1) k

theorem lsb_length (byte : UInt8) (k : Nat) : (lsb byte k).length = k := by
  induction k generalizing byte with
  | zero => rfl
  | succ k ih => simp [lsb, ih]

theorem pushBits_eq (count : Nat) : ∀ (k : Nat) (byte : UInt8) (acc : List Bool), acc.length < count →
    pushBits count k byte acc = acc ++ (lsb byte k).take (count - acc.length) := by
  intro k
  induction k with
  | zero => intro byte acc _; simp [pushBits, lsb]
  | succ k ih =>
    intro byte acc h
    simp only [pushBits, lsb]
    by_cases hc : (acc ++ [(byte &&& 1) == 1]).length = count
    · have : count - acc.length = 1 := by simp at hc; omega
      simp [hc, this]
    · have hl : (acc ++ [(byte &&& 1) == 1]).length < count := by simp at hc ⊢; omega
      have hb : ((acc ++ [(byte &&& 1) == 1]).length == count) = false := by simpa using hc
      rw [hb]
      simp only [Bool.false_eq_true, if_false]
      rw [ih _ _ hl]
      have : count - acc.length = (count - (acc ++ [(byte &&& 1) == 1]).length) + 1 := by
        simp at hl ⊢; omega
      rw [this, List.take_succ_cons]
      simp

theorem foldl_pushBits (count : Nat) : ∀ (bytes : Bytes) (acc : List Bool),
    (bytes ≠ [] → acc.length + 8 * (bytes.length - 1) < count) →
    bytes.foldl (fun acc byte => pushBits count 8 byte acc) acc =
      acc ++ (bytes.flatMap (lsb · 8)).take (count - acc.length) := by
  intro bytes
  induction bytes with
  | nil => intro acc _; simp
  | cons b bs ih =>
    intro acc h
    have h0 := h (by simp)
    simp only [List.length_cons, Nat.add_sub_cancel] at h0
    have hlt : acc.length < count := by omega
    simp only [List.foldl_cons, List.flatMap_cons]
    rw [pushBits_eq count 8 b acc hlt]
    by_cases hbs : bs = []
    · subst hbs; simp
    · have hpos : 0 < bs.length := List.length_pos_iff.mpr hbs
      have hfull : (lsb b 8).take (count - acc.length) = lsb b 8 := by
        apply List.take_of_length_le; rw [lsb_length]; omega
      have hlen : (acc ++ lsb b 8).length = acc.length + 8 := by simp [lsb_length]
      rw [hfull, ih (acc ++ lsb b 8) (by intro _; rw [hlen]; omega), hlen, List.take_append, hfull,
        lsb_length, List.append_assoc, show count - (acc.length + 8) = count - acc.length - 8 by omega]

/-- what `read_bit_field` returns: the first `count` bits, least significant first, of the first
`ceil(count / 8)` bytes, and the input behind those bytes -/
theorem readBitField_eq (count : Nat) (b : Bytes) (hc : count + 7 < 2 ^ 32) (hb : (count + 7) / 8 ≤ b.length) :
    readBitField count b =
      some (((b.take ((count + 7) / 8)).flatMap (lsb · 8)).take count, b.drop ((count + 7) / 8)) := by
  unfold readBitField
  simp only [bitFieldBytes_eq count hc]
  rw [if_neg (by omega)]
  rw [foldl_pushBits]
  · simp
  · intro hne
    have hpos : count ≠ 0 := by
      intro h0; subst h0; simp at hne
    simp only [List.length_take, List.length_nil]
    omega

/-! ### the encoder -/

theorem lsb_byte (b0 b1 b2 b3 b4 b5 b6 b7 : Bool) :
    lsb (bit b0 0 ||| bit b1 1 ||| bit b2 2 ||| bit b3 3 ||| bit b4 4 ||| bit b5 5 ||| bit b6 6 ||| bit b7 7) 8 =
      [b0, b1, b2, b3, b4, b5, b6, b7] := by
  cases b0 <;> cases b1 <;> cases b2 <;> cases b3 <;> cases b4 <;> cases b5 <;> cases b6 <;> cases b7 <;> decide

theorem encodeBits_nil : encodeBits [] = [] := rfl

theorem encodeBitsAux_fuel : ∀ (n m : Nat) (bits : List Bool), bits.length ≤ n → bits.length ≤ m →
    encodeBitsAux n bits = encodeBitsAux m bits := by
  intro n
  induction n with
  | zero =>
    intro m bits hn _
    have : bits = [] := List.eq_nil_of_length_eq_zero (by omega)
    subst this
    cases m <;> rfl
  | succ n ih =>
    intro m bits hn hm
    cases bits with
    | nil => cases m <;> rfl
    | cons a l =>
      cases m with
      | zero => simp at hm
      | succ m =>
        simp only [encodeBitsAux, List.isEmpty_cons, Bool.false_eq_true, if_false]
        rw [ih m _ (by simp at hn ⊢; omega) (by simp at hm ⊢; omega)]

theorem encodeBits_cons (a : Bool) (l : List Bool) :
    encodeBits (a :: l) = byteOfBits (a :: l) :: encodeBits ((a :: l).drop 8) := by
  simp only [encodeBits, List.length_cons, encodeBitsAux, List.isEmpty_cons, Bool.false_eq_true, if_false]
  rw [encodeBitsAux_fuel l.length ((a :: l).drop 8).length _ (by simp) (Nat.le_refl _)]

theorem encodeBits_length : ∀ (n : Nat) (bits : List Bool), bits.length ≤ n →
    (encodeBits bits).length = (bits.length + 7) / 8 := by
  intro n
  induction n with
  | zero => intro bits h; cases bits <;> simp_all [encodeBits_nil]
  | succ n ih =>
    intro bits h
    cases bits with
    | nil => simp [encodeBits_nil]
    | cons a l =>
      rw [encodeBits_cons, List.length_cons, ih _ (by simp at h ⊢; omega)]
      simp only [List.length_drop, List.length_cons]
      omega

theorem flat_encodeBits : ∀ (n : Nat) (bits : List Bool), bits.length ≤ n →
    ((encodeBits bits).flatMap (lsb · 8)).take bits.length = bits := by
  intro n
  induction n with
  | zero => intro bits h; cases bits <;> simp_all [encodeBits_nil]
  | succ n ih =>
    intro bits h
    match bits, h with
    | [], _ => simp [encodeBits_nil]
    | [a0], _ => simp [encodeBits_cons, encodeBits_nil, byteOfBits, lsb_byte]
    | [a0, a1], _ => simp [encodeBits_cons, encodeBits_nil, byteOfBits, lsb_byte]
    | [a0, a1, a2], _ => simp [encodeBits_cons, encodeBits_nil, byteOfBits, lsb_byte]
    | [a0, a1, a2, a3], _ => simp [encodeBits_cons, encodeBits_nil, byteOfBits, lsb_byte]
    | [a0, a1, a2, a3, a4], _ => simp [encodeBits_cons, encodeBits_nil, byteOfBits, lsb_byte]
    | [a0, a1, a2, a3, a4, a5], _ => simp [encodeBits_cons, encodeBits_nil, byteOfBits, lsb_byte]
    | [a0, a1, a2, a3, a4, a5, a6], _ => simp [encodeBits_cons, encodeBits_nil, byteOfBits, lsb_byte]
    | a0 :: a1 :: a2 :: a3 :: a4 :: a5 :: a6 :: a7 :: t, h =>
      have ht : t.length ≤ n := by simp at h; omega
      rw [encodeBits_cons]
      simp only [List.flatMap_cons, byteOfBits, List.getD_cons_zero, List.getD_cons_succ, lsb_byte,
        List.drop_succ_cons, List.drop_zero, List.length_cons]
      have : t.length + 1 + 1 + 1 + 1 + 1 + 1 + 1 + 1 = 8 + t.length := by omega
      have e1 : List.take (8 + t.length) [a0, a1, a2, a3, a4, a5, a6, a7] = [a0, a1, a2, a3, a4, a5, a6, a7] :=
        List.take_of_length_le (by simp)
      rw [this, List.take_append, e1]
      simp [ih t ht]

/-- `c16_bitfield` (round trip): the field written for `bits` is read back, and the reader stops
exactly behind its `ceil(n / 8)` bytes -/
theorem readBitField_encode (bits : List Bool) (r : Bytes) (h : bits.length + 7 < 2 ^ 32) :
    readBitField bits.length (encodeBits bits ++ r) = some (bits, r) := by
  have hl := encodeBits_length bits.length bits (Nat.le_refl _)
  rw [readBitField_eq _ _ h (by simp [hl])]
  rw [← hl, List.take_left, List.drop_left, flat_encodeBits bits.length bits (Nat.le_refl _)]
