import PhysisModel.Proofs.BinrwLemmas
import PhysisModel.Generated.BinrwExcel
import PhysisModel.Model.Exd
/-!
T4 for `src/exh.rs` and `src/exd.rs` (C05, big-endian): `EXHHeader`, `ExcelDataPagination`,
`ExcelColumnDefinition`, `ExcelDataOffset`, and `EXDHeader` as the head of `pExdHead`.
The models are written in the `ParserBE.P` monad; the bridge lemmas below turn a `P` program applied
to its input into the `Option.bind` chain over the `Binrw` primitives.
Two steps per struct as in `Proofs/BinrwTieIndex.lean`.
-/
namespace Physis.BinrwTie.Excel
open Physis Physis.Binrw Physis.Generated

/-! ### bridge: `ParserBE` → `Reader`/`Binrw` primitives -/

theorem p_bind {α β : Type} (p : ParserBE.P α) (f : α → ParserBE.P β) (l : Bytes) :
    ParserBE.P.bind p f l = (p l).bind fun x => f x.1 x.2 := by
  unfold ParserBE.P.bind
  cases p l <;> rfl
theorem p_pure' {α : Type} (a : α) (l : Bytes) : ParserBE.P.pure a l = some (a, l) := rfl

theorem p_pure {α : Type} (a : α) (l : Bytes) : (pure a : ParserBE.P α) l = some (a, l) := rfl
theorem p_skip (n : Nat) (l : Bytes) : ParserBE.skip n l = some ((), l.drop n) := rfl

theorem p_u8 : ParserBE.u8 = Reader.u8 := by
  funext l; rcases l with _ | ⟨a, r⟩ <;> rfl
theorem p_u16be : ParserBE.u16be = Binrw.u16be := by
  funext l; rcases l with _ | ⟨a, _ | ⟨b, r⟩⟩ <;> rfl
theorem p_u32be : ParserBE.u32be = Binrw.u32be := by
  funext l; rcases l with _ | ⟨a, _ | ⟨b, _ | ⟨c, _ | ⟨d, r⟩⟩⟩⟩ <;> rfl

theorem p_magic (m l : Bytes) : ParserBE.magic m l = (Reader.magic m l).map fun r => ((), r) := by
  unfold ParserBE.magic Reader.magic Reader.bytes
  by_cases h : m.length ≤ l.length
  · simp only [h, if_true]
    by_cases e : List.take m.length l = m
    · simp [e]
    · simp [e]
  · have : List.take m.length l ≠ m := by
      intro e
      have := congrArg List.length e
      simp at this
      omega
    simp [h, this]

namespace Expected
def eXHHeader : Layout :=
  .mk (some .big) (.bytes [0x45, 0x58, 0x48, 0x46]) [
    .mk "version" none .none 0 (.prim .u16) 0 0,
    .mk "data_offset" none .none 0 (.prim .u16) 0 0,
    .mk "column_count" none .none 0 (.prim .u16) 0 0,
    .mk "page_count" none .none 0 (.prim .u16) 0 0,
    .mk "language_count" none .none 0 (.prim .u16) 0 0,
    .mk "row_count" none .none 6 (.prim .u32) 0 8] true
def excelDataPagination : Layout :=
  .mk (some .big) .none [
    .mk "start_id" none .none 0 (.prim .u32) 0 0,
    .mk "row_count" none .none 0 (.prim .u32) 0 0] true
def excelDataOffset : Layout :=
  .mk (some .big) .none [
    .mk "row_id" none .none 0 (.prim .u32) 0 0,
    .mk "offset" none .none 0 (.prim .u32) 0 0] true
def eXDHeader : Layout :=
  .mk (some .big) (.bytes [0x45, 0x58, 0x44, 0x46]) [
    .mk "version" none .none 0 (.prim .u16) 0 0,
    .mk "index_size" none .none 2 (.prim .u32) 0 20] true
end Expected

/-! ### step 2 (re-checked on every run).  The ambient endianness is the one of the enclosing
top-level structs `EXH` / `EXD` (`#[brw(big)]`, regenerated: `endian_generated`). -/
theorem endian_generated :
    BinrwExcel.eXH.endianOr .little = .big ∧ BinrwExcel.eXD.endianOr .little = .big := ⟨rfl, rfl⟩
theorem eXHHeader_generated :
    BinrwExcel.eXHHeader.normalizeAt .big = Expected.eXHHeader.normalizeAt .big := rfl
theorem excelDataPagination_generated :
    BinrwExcel.excelDataPagination.normalizeAt .big = Expected.excelDataPagination.normalizeAt .big := rfl
theorem excelDataOffset_generated :
    BinrwExcel.excelDataOffset.normalizeAt .big = Expected.excelDataOffset.normalizeAt .big := rfl
theorem eXDHeader_generated :
    BinrwExcel.eXDHeader.normalizeAt .big = Expected.eXDHeader.normalizeAt .big := rfl

/-! ### projections -/
def exhHeaderOf : List Value → Option Exh.EXHHeader
  | [.w16 .u16 v, .w16 .u16 d, .w16 .u16 c, .w16 .u16 p, .w16 .u16 lc, .w32 .u32 r] => some ⟨v, d, c, p, lc, r⟩
  | _ => none
def pageOf : List Value → Option Exh.ExcelDataPagination
  | [.w32 .u32 s, .w32 .u32 r] => some ⟨s, r⟩
  | _ => none
def dataOffsetOf : List Value → Option Exd.ExcelDataOffset
  | [.w32 .u32 i, .w32 .u32 o] => some ⟨i, o⟩
  | _ => none

/-! ### step 1 -/
theorem pHeader_eq_expected (l : Bytes) :
    Exh.pHeader l = via exhHeaderOf (Layout.read .big Expected.eXHHeader l) := by
  binrw_norm [Exh.pHeader, Exh.exhMagic, Expected.eXHHeader, p_bind, p_pure, p_pure', pure, p_skip, p_u16be, p_u32be, p_magic]
  rfl

theorem pPage_eq_expected (l : Bytes) :
    Exh.pPage l = via pageOf (Layout.read .big Expected.excelDataPagination l) := by
  binrw_norm [Exh.pPage, Expected.excelDataPagination, p_bind, p_pure, p_pure', pure, p_u32be]
  rfl

theorem pDataOffset_eq_expected (l : Bytes) :
    Exd.pDataOffset l = via dataOffsetOf (Layout.read .big Expected.excelDataOffset l) := by
  binrw_norm [Exd.pDataOffset, Expected.excelDataOffset, p_bind, p_pure, p_pure', pure, p_u32be]
  rfl

def pageOfV : Value → Option Exh.ExcelDataPagination
  | .struct vs => pageOf vs
  | _ => none
def dataOffsetOfV : Value → Option Exd.ExcelDataOffset
  | .struct vs => dataOffsetOf vs
  | _ => none

/-- `#[br(count = n)] Vec<ExcelDataPagination>` -/
theorem countPage_eq_expected (n : Nat) (l : Bytes) :
    ParserBE.count Exh.pPage n l =
      (repeatN (Kind.read .big [] (.struct Expected.excelDataPagination)) n l).bind fun vs =>
        (projAll pageOfV vs.1).map (·, vs.2) := by
  apply listReader_eq_repeatN Exh.pPage (ParserBE.count Exh.pPage)
  · intro l; rfl
  · intro n l; simp only [ParserBE.count, p_bind, p_pure']
  · intro l
    rw [pPage_eq_expected]
    binrw_norm [Expected.excelDataPagination]
    rfl

/-- `#[br(count = n)] Vec<ExcelDataOffset>` -/
theorem countDataOffset_eq_expected (n : Nat) (l : Bytes) :
    ParserBE.count Exd.pDataOffset n l =
      (repeatN (Kind.read .big [] (.struct Expected.excelDataOffset)) n l).bind fun vs =>
        (projAll dataOffsetOfV vs.1).map (·, vs.2) := by
  apply listReader_eq_repeatN Exd.pDataOffset (ParserBE.count Exd.pDataOffset)
  · intro l; rfl
  · intro n l; simp only [ParserBE.count, p_bind, p_pure']
  · intro l
    rw [pDataOffset_eq_expected]
    binrw_norm [Expected.excelDataOffset]
    rfl

/-- `EXD`: the `EXDHeader` layout (magic, version, pad 2, index_size, pad 20), then
`index_size / 8` offsets -/
theorem pExdHead_eq_expected (l : Bytes) :
    Exd.pExdHead l =
      (Layout.read .big Expected.eXDHeader l).bind fun x =>
        match x.1 with
        | [.w16 .u16 version, .w32 .u32 indexSize] =>
          (ParserBE.count Exd.pDataOffset (indexSize / 8).toNat x.2).map fun o => ((version, indexSize, o.1), o.2)
        | _ => none := by
  binrw_norm [Exd.pExdHead, Exd.exdMagic, Expected.eXDHeader, p_bind, p_pure, p_pure', pure, p_skip, p_u16be,
    p_u32be, p_magic, Option.map_eq_bind]

/-! ### `ExcelColumnDefinition` (repr-enum field) and the `Language` elements of `EXH.languages` -/

theorem p_tryMap {α β : Type} (p : ParserBE.P α) (f : α → Option β) (l : Bytes) :
    ParserBE.tryMap p f l = (p l).bind fun x => (f x.1).map fun b => (b, x.2) := by
  unfold ParserBE.tryMap
  rw [p_bind]
  cases p l with
  | none => rfl
  | some x => simp only [Option.bind_some]; cases f x.1 <;> rfl

def columnValid : List Nat := [0, 1, 2, 3, 4, 5, 6, 7, 9, 10, 11, 25, 26, 27, 28, 29, 30, 31, 32]
def languageValid : List Nat := [0, 1, 2, 3, 4, 5, 6, 7]

namespace Expected
def excelColumnDefinition : Layout :=
  .mk (some .big) .none [
    .mk "data_type" none .none 0 (.enum .u16 columnValid) 0 0,
    .mk "offset" none .none 0 (.prim .u16) 0 0] true
end Expected

theorem excelColumnDefinition_generated :
    BinrwExcel.excelColumnDefinition.normalizeAt .big = Expected.excelColumnDefinition.normalizeAt .big := rfl
theorem language_generated :
    (BinrwExcel.languageRepr, BinrwExcel.languageValid) = (.u8, languageValid) := rfl

/-- the regenerated discriminant list is the list of codes of the model's `ColumnDataType` -/
theorem column_valid (c : UInt16) : columnValid.contains c.toNat = (Exh.ColumnDataType.ofCode c).isSome := by
  have hv : columnValid = Exh.ColumnDataType.all.map (fun t => t.code.toNat) := by decide
  rw [hv, Bool.eq_iff_iff]
  simp only [List.contains_iff_mem, List.mem_map, Exh.ColumnDataType.ofCode, List.find?_isSome, beq_iff_eq,
    ← UInt16.toNat_inj]

theorem language_valid (c : UInt8) : languageValid.contains c.toNat = (Exh.Language.ofCode c).isSome := by
  have hv : languageValid = Exh.Language.all.map (fun t => t.code.toNat) := by decide
  rw [hv, Bool.eq_iff_iff]
  simp only [List.contains_iff_mem, List.mem_map, Exh.Language.ofCode, List.find?_isSome, beq_iff_eq,
    ← UInt8.toNat_inj]

def columnOf : List Value → Option Exh.ExcelColumnDefinition
  | [.w16 .u16 c, .w16 .u16 o] => (Exh.ColumnDataType.ofCode c).map fun t => ⟨t, o⟩
  | _ => none
def columnOfV : Value → Option Exh.ExcelColumnDefinition
  | .struct vs => columnOf vs
  | _ => none
def languageOfV : Value → Option Exh.Language
  | .w8 .u8 c => Exh.Language.ofCode c
  | _ => none

theorem pColumn_eq_expected (l : Bytes) :
    Exh.pColumn l = via columnOf (Layout.read .big Expected.excelColumnDefinition l) := by
  binrw_norm [Exh.pColumn, Expected.excelColumnDefinition, p_bind, p_pure, p_pure', pure, p_u16be, p_tryMap,
    column_valid, columnOf]
  cases u16be l with
  | none => rfl
  | some x =>
    simp only [Option.bind_some]
    cases h : Exh.ColumnDataType.ofCode x.1 with
    | none => simp
    | some t =>
      simp only [Option.isSome_some, if_true, Option.map_some, Option.bind_some]

/-- one `Language` of `#[br(count = header.language_count)] languages: Vec<Language>`: the
regenerated `repr` enum (`languageRepr`, `languageValid`) read big-endian -/
theorem pLanguage_eq_expected (l : Bytes) :
    Exh.pLanguage l =
      (Kind.read .big [] (.enum .u8 languageValid) l).bind fun v => (languageOfV v.1).map (·, v.2) := by
  binrw_norm [Exh.pLanguage, p_tryMap, p_u8, language_valid, languageOfV]
  cases Reader.u8 l with
  | none => rfl
  | some x =>
    simp only [Option.bind_some]
    cases h : Exh.Language.ofCode x.1 <;> simp

theorem countColumn_eq_expected (n : Nat) (l : Bytes) :
    ParserBE.count Exh.pColumn n l =
      (repeatN (Kind.read .big [] (.struct Expected.excelColumnDefinition)) n l).bind fun vs =>
        (projAll columnOfV vs.1).map (·, vs.2) := by
  apply listReader_eq_repeatN Exh.pColumn (ParserBE.count Exh.pColumn)
  · intro l; rfl
  · intro n l; simp only [ParserBE.count, p_bind, p_pure']
  · intro l
    rw [pColumn_eq_expected]
    binrw_norm [Expected.excelColumnDefinition]
    rfl

theorem countLanguage_eq_expected (n : Nat) (l : Bytes) :
    ParserBE.count Exh.pLanguage n l =
      (repeatN (Kind.read .big [] (.enum .u8 languageValid)) n l).bind fun vs =>
        (projAll languageOfV vs.1).map (·, vs.2) := by
  apply listReader_eq_repeatN Exh.pLanguage (ParserBE.count Exh.pLanguage)
  · intro l; rfl
  · intro n l; simp only [ParserBE.count, p_bind, p_pure']
  · intro l; exact pLanguage_eq_expected l

theorem pColumn_eq_generated (l : Bytes) :
    Exh.pColumn l = via columnOf (Layout.read .big BinrwExcel.excelColumnDefinition l) :=
  tie pColumn_eq_expected excelColumnDefinition_generated l
theorem countColumn_eq_generated (n : Nat) (l : Bytes) :
    ParserBE.count Exh.pColumn n l =
      (repeatN (Kind.read .big [] (.struct BinrwExcel.excelColumnDefinition)) n l).bind fun vs =>
        (projAll columnOfV vs.1).map (·, vs.2) := by
  rw [countColumn_eq_expected]; simp only [Kind.read, Layout.read_congr _ excelColumnDefinition_generated]
theorem countLanguage_eq_generated (n : Nat) (l : Bytes) :
    ParserBE.count Exh.pLanguage n l =
      (repeatN (Kind.read .big [] (.enum BinrwExcel.languageRepr BinrwExcel.languageValid)) n l).bind fun vs =>
        (projAll languageOfV vs.1).map (·, vs.2) := by
  have h := language_generated
  simp only [Prod.mk.injEq] at h
  rw [h.1, h.2]; exact countLanguage_eq_expected n l

/-! ### the tie -/
theorem pHeader_eq_generated (l : Bytes) :
    Exh.pHeader l = via exhHeaderOf (Layout.read .big BinrwExcel.eXHHeader l) :=
  tie pHeader_eq_expected eXHHeader_generated l
theorem pPage_eq_generated (l : Bytes) :
    Exh.pPage l = via pageOf (Layout.read .big BinrwExcel.excelDataPagination l) :=
  tie pPage_eq_expected excelDataPagination_generated l
theorem pDataOffset_eq_generated (l : Bytes) :
    Exd.pDataOffset l = via dataOffsetOf (Layout.read .big BinrwExcel.excelDataOffset l) :=
  tie pDataOffset_eq_expected excelDataOffset_generated l
theorem countPage_eq_generated (n : Nat) (l : Bytes) :
    ParserBE.count Exh.pPage n l =
      (repeatN (Kind.read .big [] (.struct BinrwExcel.excelDataPagination)) n l).bind fun vs =>
        (projAll pageOfV vs.1).map (·, vs.2) := by
  rw [countPage_eq_expected]; simp only [Kind.read, Layout.read_congr _ excelDataPagination_generated]
theorem countDataOffset_eq_generated (n : Nat) (l : Bytes) :
    ParserBE.count Exd.pDataOffset n l =
      (repeatN (Kind.read .big [] (.struct BinrwExcel.excelDataOffset)) n l).bind fun vs =>
        (projAll dataOffsetOfV vs.1).map (·, vs.2) := by
  rw [countDataOffset_eq_expected]; simp only [Kind.read, Layout.read_congr _ excelDataOffset_generated]
theorem pExdHead_eq_generated (l : Bytes) :
    Exd.pExdHead l =
      (Layout.read .big BinrwExcel.eXDHeader l).bind fun x =>
        match x.1 with
        | [.w16 .u16 version, .w32 .u32 indexSize] =>
          (ParserBE.count Exd.pDataOffset (indexSize / 8).toNat x.2).map fun o => ((version, indexSize, o.1), o.2)
        | _ => none := by
  rw [Layout.read_congr _ eXDHeader_generated]; exact pExdHead_eq_expected l

end Physis.BinrwTie.Excel
