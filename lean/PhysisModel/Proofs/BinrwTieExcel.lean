import PhysisModel.Proofs.BinrwLemmas
import PhysisModel.Generated.BinrwExcel
import PhysisModel.Model.Exd
/-!
T4 for `src/exh.rs` and `src/exd.rs` (C05, big-endian): `EXHHeader`, `ExcelDataPagination`,
`ExcelColumnDefinition`, `ExcelDataOffset`, and `EXDHeader` as the head of `pExdHead`.
The models are written in the `ParserBE.P` monad; the bridge lemmas below turn a `P` program applied
to its input into the `Option.bind` chain over the `Binrw` primitives.
Two steps per struct as in `Proofs/BinrwTieIndex.lean`.
-/
namespace Physis.BinrwTie.Excel
open Physis Physis.Binrw Physis.Generated

/-! ### bridge: `ParserBE` → `Reader`/`Binrw` primitives -/

theorem p_bind {α β : Type} (p : ParserBE.P α) (f : α → ParserBE.P β) (l : Bytes) :
    ParserBE.P.bind p f l = (p l).bind fun x => f x.1 x.2 := by
  unfold ParserBE.P.bind
  cases p l <;> rfl
theorem p_pure' {α : Type} (a : α) (l : Bytes) : ParserBE.P.pure a l = some (a, l) := rfl

theorem p_pure {α : Type} (a : α) (l : Bytes) : (pure a : ParserBE.P α) l = some (a, l) := rfl
theorem p_skip (n : Nat) (l : Bytes) : ParserBE.skip n l = some ((), l.drop n) := rfl

theorem p_u8 : ParserBE.u8 = Reader.u8 := by
  funext l; rcases l with _ | ⟨a, r⟩ <;> rfl
theorem p_u16be : ParserBE.u16be = Binrw.u16be := by
  funext l; rcases l with _ | ⟨a, _ | ⟨b, r⟩⟩ <;> rfl
theorem p_u32be : ParserBE.u32be = Binrw.u32be := by
  funext l; rcases l with _ | ⟨a, _ | ⟨b, _ | ⟨c, _ | ⟨d, r⟩⟩⟩⟩ <;> rfl

theorem p_magic (m l : Bytes) : ParserBE.magic m l = (Reader.magic m l).map fun r => ((), r) := by
  unfold ParserBE.magic Reader.magic Reader.bytes
  by_cases h : m.length ≤ l.length
  · simp only [h, if_true]
    by_cases e : List.take m.length l = m
    · simp [e]
    · simp [e]
  · have : List.take m.length l ≠ m := by
      intro e
      have := congrArg List.length e
      simp at this
      omega
    simp [h, this]

namespace Expected
def eXHHeader : Layout :=
  .mk (some .big) (.bytes [0x45, 0x58, 0x48, 0x46]) [
    .mk "version" none .none 0 (.prim .u16) 0 0,
    .mk "data_offset" none .none 0 (.prim .u16) 0 0,
    .mk "column_count" none .none 0 (.prim .u16) 0 0,
    .mk "page_count" none .none 0 (.prim .u16) 0 0,
    .mk "language_count" none .none 0 (.prim .u16) 0 0,
    .mk "row_count" none .none 6 (.prim .u32) 0 8] true
def excelDataPagination : Layout :=
  .mk (some .big) .none [
    .mk "start_id" none .none 0 (.prim .u32) 0 0,
    .mk "row_count" none .none 0 (.prim .u32) 0 0] true
def excelDataOffset : Layout :=
  .mk (some .big) .none [
    .mk "row_id" none .none 0 (.prim .u32) 0 0,
    .mk "offset" none .none 0 (.prim .u32) 0 0] true
def eXDHeader : Layout :=
  .mk (some .big) (.bytes [0x45, 0x58, 0x44, 0x46]) [
    .mk "version" none .none 0 (.prim .u16) 0 0,
    .mk "index_size" none .none 2 (.prim .u32) 0 20] true
end Expected

/-! ### step 2 (re-checked on every run; `.little` as the ambient endianness shows that the
structs' own `#[brw(big)]` decides) -/
theorem eXHHeader_generated :
    BinrwExcel.eXHHeader.normalizeAt .little = Expected.eXHHeader.normalizeAt .little := rfl
theorem excelDataPagination_generated :
    BinrwExcel.excelDataPagination.normalizeAt .little = Expected.excelDataPagination.normalizeAt .little := rfl
theorem excelDataOffset_generated :
    BinrwExcel.excelDataOffset.normalizeAt .little = Expected.excelDataOffset.normalizeAt .little := rfl
theorem eXDHeader_generated :
    BinrwExcel.eXDHeader.normalizeAt .little = Expected.eXDHeader.normalizeAt .little := rfl

/-! ### projections -/
def exhHeaderOf : List Value → Option Exh.EXHHeader
  | [.w16 .u16 v, .w16 .u16 d, .w16 .u16 c, .w16 .u16 p, .w16 .u16 lc, .w32 .u32 r] => some ⟨v, d, c, p, lc, r⟩
  | _ => none
def pageOf : List Value → Option Exh.ExcelDataPagination
  | [.w32 .u32 s, .w32 .u32 r] => some ⟨s, r⟩
  | _ => none
def dataOffsetOf : List Value → Option Exd.ExcelDataOffset
  | [.w32 .u32 i, .w32 .u32 o] => some ⟨i, o⟩
  | _ => none

/-! ### step 1 -/
theorem pHeader_eq_expected (l : Bytes) :
    Exh.pHeader l = via exhHeaderOf (Layout.read .little Expected.eXHHeader l) := by
  binrw_norm [Exh.pHeader, Exh.exhMagic, Expected.eXHHeader, p_bind, p_pure, p_pure', pure, p_skip, p_u16be, p_u32be, p_magic]
  rfl

theorem pPage_eq_expected (l : Bytes) :
    Exh.pPage l = via pageOf (Layout.read .little Expected.excelDataPagination l) := by
  binrw_norm [Exh.pPage, Expected.excelDataPagination, p_bind, p_pure, p_pure', pure, p_u32be]
  rfl

theorem pDataOffset_eq_expected (l : Bytes) :
    Exd.pDataOffset l = via dataOffsetOf (Layout.read .little Expected.excelDataOffset l) := by
  binrw_norm [Exd.pDataOffset, Expected.excelDataOffset, p_bind, p_pure, p_pure', pure, p_u32be]
  rfl

def pageOfV : Value → Option Exh.ExcelDataPagination
  | .struct vs => pageOf vs
  | _ => none
def dataOffsetOfV : Value → Option Exd.ExcelDataOffset
  | .struct vs => dataOffsetOf vs
  | _ => none

/-- `#[br(count = n)] Vec<ExcelDataPagination>` -/
theorem countPage_eq_expected (n : Nat) (l : Bytes) :
    ParserBE.count Exh.pPage n l =
      (repeatN (Kind.read .little [] (.struct Expected.excelDataPagination)) n l).bind fun vs =>
        (projAll pageOfV vs.1).map (·, vs.2) := by
  apply listReader_eq_repeatN Exh.pPage (ParserBE.count Exh.pPage)
  · intro l; rfl
  · intro n l; simp only [ParserBE.count, p_bind, p_pure']
  · intro l
    rw [pPage_eq_expected]
    binrw_norm [Expected.excelDataPagination]
    rfl

/-- `#[br(count = n)] Vec<ExcelDataOffset>` -/
theorem countDataOffset_eq_expected (n : Nat) (l : Bytes) :
    ParserBE.count Exd.pDataOffset n l =
      (repeatN (Kind.read .little [] (.struct Expected.excelDataOffset)) n l).bind fun vs =>
        (projAll dataOffsetOfV vs.1).map (·, vs.2) := by
  apply listReader_eq_repeatN Exd.pDataOffset (ParserBE.count Exd.pDataOffset)
  · intro l; rfl
  · intro n l; simp only [ParserBE.count, p_bind, p_pure']
  · intro l
    rw [pDataOffset_eq_expected]
    binrw_norm [Expected.excelDataOffset]
    rfl

/-- `EXD`: the `EXDHeader` layout (magic, version, pad 2, index_size, pad 20), then
`index_size / 8` offsets -/
theorem pExdHead_eq_expected (l : Bytes) :
    Exd.pExdHead l =
      (Layout.read .little Expected.eXDHeader l).bind fun x =>
        match x.1 with
        | [.w16 .u16 version, .w32 .u32 indexSize] =>
          (ParserBE.count Exd.pDataOffset (indexSize / 8).toNat x.2).map fun o => ((version, indexSize, o.1), o.2)
        | _ => none := by
  binrw_norm [Exd.pExdHead, Exd.exdMagic, Expected.eXDHeader, p_bind, p_pure, p_pure', pure, p_skip, p_u16be,
    p_u32be, p_magic, Option.map_eq_bind]

/-! ### the tie -/
theorem pHeader_eq_generated (l : Bytes) :
    Exh.pHeader l = via exhHeaderOf (Layout.read .little BinrwExcel.eXHHeader l) :=
  tie pHeader_eq_expected eXHHeader_generated l
theorem pPage_eq_generated (l : Bytes) :
    Exh.pPage l = via pageOf (Layout.read .little BinrwExcel.excelDataPagination l) :=
  tie pPage_eq_expected excelDataPagination_generated l
theorem pDataOffset_eq_generated (l : Bytes) :
    Exd.pDataOffset l = via dataOffsetOf (Layout.read .little BinrwExcel.excelDataOffset l) :=
  tie pDataOffset_eq_expected excelDataOffset_generated l
theorem countPage_eq_generated (n : Nat) (l : Bytes) :
    ParserBE.count Exh.pPage n l =
      (repeatN (Kind.read .little [] (.struct BinrwExcel.excelDataPagination)) n l).bind fun vs =>
        (projAll pageOfV vs.1).map (·, vs.2) := by
  rw [countPage_eq_expected]; simp only [Kind.read, Layout.read_congr _ excelDataPagination_generated]
theorem countDataOffset_eq_generated (n : Nat) (l : Bytes) :
    ParserBE.count Exd.pDataOffset n l =
      (repeatN (Kind.read .little [] (.struct BinrwExcel.excelDataOffset)) n l).bind fun vs =>
        (projAll dataOffsetOfV vs.1).map (·, vs.2) := by
  rw [countDataOffset_eq_expected]; simp only [Kind.read, Layout.read_congr _ excelDataOffset_generated]
theorem pExdHead_eq_generated (l : Bytes) :
    Exd.pExdHead l =
      (Layout.read .little BinrwExcel.eXDHeader l).bind fun x =>
        match x.1 with
        | [.w16 .u16 version, .w32 .u32 indexSize] =>
          (ParserBE.count Exd.pDataOffset (indexSize / 8).toNat x.2).map fun o => ((version, indexSize, o.1), o.2)
        | _ => none := by
  rw [Layout.read_congr _ eXDHeader_generated]; exact pExdHead_eq_expected l

end Physis.BinrwTie.Excel
