import PhysisModel.Proofs.Sha1Compress
/-!
Buffering (`Blocks::input`), length accounting and padding (`Sha1::digest`) of `src/sha1.rs`
produce exactly the FIPS 180-4 padded block sequence — for every message length and *whatever*
the compression function is (`cfm` on the model side, `cfs` on the spec side, related on 64-byte
blocks).  With `process_eq` this gives `Sha1.sha1 = Spec.Sha1.sha1`.
-/
namespace Physis.Sha1
open Physis.Spec.Sha1 (Vars hashBlocks)

/-- `k` zero bytes (kept opaque for `simp`) -/
def Z (k : Nat) : Bytes := List.replicate k 0

theorem Z_def (k : Nat) : List.replicate k (0 : UInt8) = Z k := rfl
@[simp] theorem Z_length (k : Nat) : (Z k).length = k := by simp [Z]
theorem Z_add (a b : Nat) : Z (a + b) = Z a ++ Z b := by simp [Z]
@[simp] theorem Z_drop (n k : Nat) : (Z n).drop k = Z (n - k) := by simp [Z]
@[simp] theorem Z_zero : Z 0 = [] := rfl

theorem take_block (A B : Bytes) (hA : A.length = 64) : (A ++ B).take 64 = A := by
  rw [← hA]; simp
theorem drop_block (A B : Bytes) (hA : A.length = 64) : (A ++ B).drop 64 = B := by
  rw [← hA]; simp

theorem writeAt_append (a b s : Bytes) (off : Nat) (ha : a.length = off) :
    writeAt (a ++ b) off s = a ++ s ++ b.drop s.length := by
  subst ha
  simp [writeAt, List.drop_append]

/-! ### the chunk loop -/

theorem hashBlocks_succ {σ} (cf : σ → Bytes → σ) (h : σ) (n : Nat) (bs : Bytes) :
    hashBlocks cf h (n + 1) bs = hashBlocks cf (cf h (bs.take 64)) n (bs.drop 64) := rfl

/-- result of the chunk loop: the first `⌊|input|/64⌋` blocks are compressed, `len` counts them,
the remainder (if any) is buffered -/
theorem chunksLoop_eq (cf : State → Bytes → State) (fuel : Nat) (h : Hasher) (input : Bytes)
    (hf : input.length / 64 + 1 ≤ fuel) :
    chunksLoop cf fuel h input =
      { state := hashBlocks cf h.state (input.length / 64) input,
        len := h.len + UInt64.ofNat (64 * (input.length / 64)),
        blocks := if input.length % 64 = 0 then h.blocks else
          ⟨(input.length % 64).toUInt32, writeAt h.blocks.block 0 (input.drop (64 * (input.length / 64)))⟩ } := by
  induction fuel generalizing h input with
  | zero => omega
  | succ fuel ih =>
    unfold chunksLoop
    by_cases he : input = []
    · subst he
      simp [hashBlocks]
    · have hne : input.isEmpty = false := by simpa using he
      simp only [hne, Bool.false_eq_true, ↓reduceIte]
      have hpos : 0 < input.length := List.length_pos_iff.mpr he
      by_cases h64 : 64 ≤ input.length
      · have htl : (input.take 64).length = 64 := by simp; omega
        have hq : input.length / 64 = (input.drop 64).length / 64 + 1 := by simp; omega
        have hr : input.length % 64 = (input.drop 64).length % 64 := by simp; omega
        simp only [htl, ↓reduceIte]
        rw [ih _ _ (by simp; omega)]
        rw [hq, hashBlocks_succ, hr]
        simp only [feed, List.drop_drop]
        have e1 : 64 * ((input.drop 64).length / 64 + 1) = 64 + 64 * ((input.drop 64).length / 64) := by omega
        rw [e1]
        congr 1
        rw [UInt64.add_assoc, UInt64.ofNat_add]; rfl
      · have hlt : input.length < 64 := by omega
        have htk : input.take 64 = input := List.take_of_length_le (by omega)
        have hdr : input.drop 64 = [] := List.drop_of_length_le (by omega)
        have hq : input.length / 64 = 0 := by omega
        have hr : input.length % 64 = input.length := by omega
        have hr0 : ¬ input.length % 64 = 0 := by omega
        simp only [htk, hdr, hq, hr]
        have hn64 : ¬ input.length = 64 := by omega
        simp only [hn64, ↓reduceIte]
        have hz : ¬ input.length = 0 := by omega
        cases fuel with
        | zero => simp [chunksLoop, hashBlocks, hz]
        | succ f => simp [chunksLoop, hashBlocks, hz]

/-! ### `digest` -/

theorem extra_eq (bits : UInt64) :
    Generated.sha1TrailerShifts.map (fun s => (bits >>> s).toUInt8) = putU64be bits := by
  simp [Generated.sha1TrailerShifts, putU64be]

theorem bits_eq (q r : Nat) :
    (UInt64.ofNat (64 * q) + (r.toUInt32).toUInt64) * 8 = UInt64.ofNat (8 * (64 * q + r % 2 ^ 32)) := by
  apply UInt64.toNat_inj.mp
  simp [UInt64.toNat_mul, UInt64.toNat_add, UInt64.toNat_ofNat']
  omega

/-- the one or two blocks `digest` feeds to the compression function -/
theorem digest_eq (cf : State → Bytes → State) (h : Hasher) (q r : Nat) (t : Bytes)
    (hr : r < 64) (ht : t.length = r) (hlen : h.len = UInt64.ofNat (64 * q))
    (hbl : h.blocks.len = r.toUInt32) (hblk : h.blocks.block.take r = t) :
    digest cf h =
      if r < 56 then
        cf h.state (t ++ 0x80 :: (Z (55 - r) ++ putU64be (UInt64.ofNat (8 * (64 * q + r)))))
      else
        cf (cf h.state (t ++ 0x80 :: Z (63 - r))) (Z 56 ++ putU64be (UInt64.ofNat (8 * (64 * q + r)))) := by
  have hrn : (r.toUInt32).toNat = r := by simp; omega
  have hmod : r % 2 ^ 32 = r := by omega
  unfold digest
  simp only [extra_eq, hlen, hbl, bits_eq, hrn, hblk, hmod, Generated.sha1PadThreshold,
    Generated.sha1PadMarker, Generated.sha1TrailerOffShort, Generated.sha1TrailerOffLong]
  have hex : (putU64be (UInt64.ofNat (8 * (64 * q + r)))).length = 8 := by simp
  generalize putU64be (UInt64.ofNat (8 * (64 * q + r))) = ex at hex ⊢
  rw [Z_def]
  have L1 : writeAt (Z 128) 0 t = t ++ Z (128 - r) := by
    have := writeAt_append [] (Z 128) t 0 rfl
    simpa [ht] using this
  have L2 : writeAt (t ++ Z (128 - r)) r [0x80] = t ++ 0x80 :: Z (127 - r) := by
    rw [writeAt_append _ _ _ _ ht]
    have : 128 - r - 1 = 127 - r := by omega
    simp only [List.length_singleton, Z_drop, this]
    simp
  rw [L1, L2]
  split
  · have e : t ++ 0x80 :: Z (127 - r) = (t ++ 0x80 :: Z (55 - r)) ++ Z 72 := by
      have : 127 - r = (55 - r) + 72 := by omega
      rw [this, Z_add]; simp
    have hl : (t ++ 0x80 :: Z (55 - r)).length = 56 := by simp [ht]; omega
    have e3 : writeAt (t ++ 0x80 :: Z (127 - r)) 56 ex = (t ++ 0x80 :: (Z (55 - r) ++ ex)) ++ Z 64 := by
      rw [e, writeAt_append _ _ _ _ hl, hex]; simp
    rw [e3, take_block _ _ (by simp [ht, hex]; omega)]
  · have e : t ++ 0x80 :: Z (127 - r) = (t ++ 0x80 :: Z (63 - r) ++ Z 56) ++ Z 8 := by
      have : 127 - r = (63 - r) + 56 + 8 := by omega
      rw [this, Z_add, Z_add]; simp
    have hl : (t ++ 0x80 :: Z (63 - r) ++ Z 56).length = 120 := by simp [ht]; omega
    have hl1 : (t ++ 0x80 :: Z (63 - r)).length = 64 := by simp [ht]; omega
    have e3 : writeAt (t ++ 0x80 :: Z (127 - r)) 120 ex = (t ++ 0x80 :: Z (63 - r)) ++ (Z 56 ++ ex) := by
      rw [e, writeAt_append _ _ _ _ hl, hex]; simp
    rw [e3, take_block _ _ hl1, drop_block _ _ hl1, List.take_of_length_le (by simp [hex])]

/-! ### `Sha1::from` -/

theorem from_props (cf : State → Bytes → State) (m : Bytes) :
    («from» cf m).state = hashBlocks cf defaultState (m.length / 64) m ∧
    («from» cf m).len = UInt64.ofNat (64 * (m.length / 64)) ∧
    («from» cf m).blocks.len = (m.length % 64).toUInt32 ∧
    («from» cf m).blocks.block.take (m.length % 64) = m.drop (64 * (m.length / 64)) := by
  have h0 : ¬ ((0 : UInt32) > 0) := by decide
  simp only [«from», update, new, h0, ↓reduceIte]
  rw [chunksLoop_eq _ _ _ _ (Nat.le_refl _)]
  refine ⟨rfl, by simp, ?_, ?_⟩
  · by_cases hr : m.length % 64 = 0
    · simp [hr]
    · simp [hr]
  · by_cases hr : m.length % 64 = 0
    · have : m.drop (64 * (m.length / 64)) = [] := List.drop_of_length_le (by omega)
      simp [hr, this]
    · have hl : (m.drop (64 * (m.length / 64))).length = m.length % 64 := by simp; omega
      simp only [hr, ↓reduceIte, Z_def]
      have := writeAt_append [] (Z 64) (m.drop (64 * (m.length / 64))) 0 rfl
      simp only [List.nil_append] at this
      rw [this, ← hl, List.take_left']
      rfl

/-! ### the specification's block sequence -/

theorem hashBlocks_add {σ} (cf : σ → Bytes → σ) (h : σ) (a b : Nat) (bs : Bytes) :
    hashBlocks cf h (a + b) bs = hashBlocks cf (hashBlocks cf h a bs) b (bs.drop (64 * a)) := by
  induction a generalizing h bs with
  | zero => simp [hashBlocks]
  | succ a ih =>
    have : a + 1 + b = (a + b) + 1 := by omega
    rw [this, hashBlocks_succ, ih, hashBlocks_succ, List.drop_drop]
    have : 64 + 64 * a = 64 * (a + 1) := by omega
    rw [this]

theorem hashBlocks_prefix {σ} (cf : σ → Bytes → σ) (h : σ) (a : Nat) (X Y : Bytes)
    (hX : 64 * a ≤ X.length) : hashBlocks cf h a (X ++ Y) = hashBlocks cf h a X := by
  induction a generalizing h X with
  | zero => rfl
  | succ a ih =>
    rw [hashBlocks_succ, hashBlocks_succ, List.take_append_of_le_length (by omega),
      List.drop_append_of_le_length (by omega), ih _ _ (by simp; omega)]

theorem hashBlocks_one {σ} (cf : σ → Bytes → σ) (h : σ) (B : Bytes) (hB : B.length = 64) :
    hashBlocks cf h 1 B = cf h B := by
  simp [hashBlocks, List.take_of_length_le (Nat.le_of_eq hB)]

theorem hashBlocks_two {σ} (cf : σ → Bytes → σ) (h : σ) (A B : Bytes) (hA : A.length = 64)
    (hB : B.length = 64) : hashBlocks cf h 2 (A ++ B) = cf (cf h A) B := by
  simp [hashBlocks, take_block _ _ hA, drop_block _ _ hA, List.take_of_length_le (Nat.le_of_eq hB)]

theorem spec_blocks {σ} (cf : σ → Bytes → σ) (h : σ) (m : Bytes) :
    hashBlocks cf h ((Spec.Sha1.pad m).length / 64) (Spec.Sha1.pad m) =
      if m.length % 64 < 56 then
        cf (hashBlocks cf h (m.length / 64) m)
          (m.drop (64 * (m.length / 64)) ++ 0x80 :: (Z (55 - m.length % 64) ++ putU64be (UInt64.ofNat (8 * m.length))))
      else
        cf (cf (hashBlocks cf h (m.length / 64) m) (m.drop (64 * (m.length / 64)) ++ 0x80 :: Z (63 - m.length % 64)))
          (Z 56 ++ putU64be (UInt64.ofNat (8 * m.length))) := by
  have hex : (putU64be (UInt64.ofNat (8 * m.length))).length = 8 := by simp
  simp only [Spec.Sha1.pad, Spec.Sha1.zeroPad, Z_def]
  generalize putU64be (UInt64.ofNat (8 * m.length)) = ex at hex ⊢
  have hdrop : ∀ S : Bytes, (m ++ S).drop (64 * (m.length / 64)) = m.drop (64 * (m.length / 64)) ++ S :=
    fun S => List.drop_append_of_le_length (by omega)
  have htl : (m.drop (64 * (m.length / 64))).length = m.length % 64 := by simp; omega
  split
  · rename_i hr
    have hz : (119 - m.length % 64) % 64 = 55 - m.length % 64 := by omega
    have hlen : (m ++ 0x80 :: (Z (55 - m.length % 64) ++ ex)).length / 64 = m.length / 64 + 1 := by
      simp [hex]; omega
    rw [hz, hlen, hashBlocks_add, hashBlocks_prefix _ _ _ _ _ (by omega), hdrop,
      hashBlocks_one _ _ _ (by simp [hex, htl]; omega)]
  · rename_i hr
    have hz : (119 - m.length % 64) % 64 = (63 - m.length % 64) + 56 := by omega
    have hlen : (m ++ 0x80 :: (Z ((63 - m.length % 64) + 56) ++ ex)).length / 64 = m.length / 64 + 2 := by
      simp [hex]; omega
    rw [hz, hlen, hashBlocks_add, hashBlocks_prefix _ _ _ _ _ (by omega), hdrop, Z_add]
    have e : m.drop (64 * (m.length / 64)) ++ 0x80 :: (Z (63 - m.length % 64) ++ Z 56 ++ ex) =
        (m.drop (64 * (m.length / 64)) ++ 0x80 :: Z (63 - m.length % 64)) ++ (Z 56 ++ ex) := by simp
    rw [e, hashBlocks_two _ _ _ _ (by simp [htl]; omega) (by simp [hex])]

/-! ### relating the two state types -/

theorem hashBlocks_rel (cfm : State → Bytes → State) (cfs : Vars → Bytes → Vars)
    (hcf : ∀ st blk, blk.length = 64 → toVars (cfm st blk) = cfs (toVars st) blk)
    (st : State) (a : Nat) (m : Bytes) (hm : 64 * a ≤ m.length) :
    toVars (hashBlocks cfm st a m) = hashBlocks cfs (toVars st) a m := by
  induction a generalizing st m with
  | zero => rfl
  | succ a ih =>
    rw [hashBlocks_succ, hashBlocks_succ, ih _ _ (by simp; omega), hcf _ _ (by simp; omega)]

theorem digestBytes_eq (s : State) : digestBytes s = Spec.Sha1.digestBytes (toVars s) := by
  simp [digestBytes, Spec.Sha1.digestBytes, putU32be, toVars]

theorem defaultState_eq : toVars defaultState = Spec.Sha1.h0 := rfl

/-- buffering + padding are right for every message and every compression function -/
theorem sha1With_eq (cfm : State → Bytes → State) (cfs : Vars → Bytes → Vars)
    (hcf : ∀ st blk, blk.length = 64 → toVars (cfm st blk) = cfs (toVars st) blk) (m : Bytes) :
    sha1With cfm m = Spec.Sha1.sha1With cfs m := by
  obtain ⟨hs, hl, hb, hk⟩ := from_props cfm m
  have hr : m.length % 64 < 64 := Nat.mod_lt _ (by omega)
  have htl : (m.drop (64 * (m.length / 64))).length = m.length % 64 := by simp; omega
  have hn : 64 * (m.length / 64) + m.length % 64 = m.length := by omega
  simp only [sha1With, Spec.Sha1.sha1With, digestBytes_eq]
  rw [digest_eq cfm _ (m.length / 64) (m.length % 64) _ hr htl hl hb hk, spec_blocks, hs, hn]
  have hq : 64 * (m.length / 64) ≤ m.length := by omega
  split
  · rw [hcf _ _ (by simp [htl]; omega), hashBlocks_rel cfm cfs hcf _ _ _ hq, defaultState_eq]
  · rw [hcf _ _ (by simp), hcf _ _ (by simp [htl]; omega), hashBlocks_rel cfm cfs hcf _ _ _ hq,
      defaultState_eq]

/-- `Sha1::from(m).digest().bytes()` is SHA-1 (FIPS 180-4) of `m`, for every byte string -/
theorem sha1_eq (m : Bytes) : sha1 m = Spec.Sha1.sha1 m :=
  sha1With_eq process Spec.Sha1.compress process_eq m

end Physis.Sha1
