import PhysisModel.Base.Reader
import PhysisModel.Base.BytesLemmas
/-! Lemmas about the cursor primitives: reading back what a `put…` wrote. -/
namespace Physis.Reader
open Physis

@[simp] theorem u8_cons (b : UInt8) (r : Bytes) : u8 (b :: r) = some (b, r) := rfl

theorem u16le_put (v : UInt16) (r : Bytes) : u16le (putU16le v ++ r) = some (v, r) := by
  have h := getU16le_put v
  simp only [putU16le, getU16le, Option.some.injEq] at h
  simp only [putU16le, u16le, List.cons_append, List.nil_append, h]

theorem u32le_put (v : UInt32) (r : Bytes) : u32le (putU32le v ++ r) = some (v, r) := by
  have h := getU32le_put v
  simp only [putU32le, getU32le, Option.some.injEq] at h
  simp only [putU32le, u32le, List.cons_append, List.nil_append, h]

theorem u32le_put' (v : UInt32) : u32le (putU32le v) = some (v, []) := by
  simpa using u32le_put v []

@[simp] theorem skip_replicate (n : Nat) (x : UInt8) (r : Bytes) :
    skip n (List.replicate n x ++ r) = r := by
  simp [skip]

theorem skip1_cons (a : UInt8) (r : Bytes) : skip 1 (a :: r) = r := rfl
theorem skip2_cons (a b : UInt8) (r : Bytes) : skip 2 (a :: b :: r) = r := rfl
theorem skip3_cons (a b c : UInt8) (r : Bytes) : skip 3 (a :: b :: c :: r) = r := rfl
theorem u16le_cons (a b : UInt8) (r : Bytes) : u16le (a :: b :: r) = some (a.toUInt16 ||| (b.toUInt16 <<< 8), r) := rfl

theorem skip_append (a r : Bytes) (n : Nat) (h : a.length = n) : skip n (a ++ r) = r := by
  subst h; simp [skip]

theorem bytes_append (a r : Bytes) (n : Nat) (h : a.length = n) : bytes n (a ++ r) = some (a, r) := by
  subst h; simp [bytes]

@[simp] theorem bytes_replicate (n : Nat) (x : UInt8) (r : Bytes) :
    bytes n (List.replicate n x ++ r) = some (List.replicate n x, r) :=
  bytes_append _ _ _ (by simp)

theorem bytes_of_le (n : Nat) (l : Bytes) (h : n ≤ l.length) :
    bytes n l = some (l.take n, l.drop n) := by
  simp [bytes, h]

theorem magic_append (m r : Bytes) : magic m (m ++ r) = some r := by
  simp [magic, bytes_append m r m.length rfl]

end Physis.Reader
