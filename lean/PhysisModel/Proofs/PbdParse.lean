import PhysisModel.Proofs.Pbd
import PhysisModel.Proofs.ReaderC16
/-!
Byte-level step of C16's deformer part: the model of `PreBoneDeformer::from_existing` run on
`Spec.Pbd.encode f` returns exactly the records of `f` (`toModel f`), for every file the layout can
hold (`Spec.Pbd.WFLayout`).  Pieces: the out-of-line block (`readDeformer_block`: bone count, name
offset table, `strings_parser` over the name heap, the odd-count padding, the matrices), the item
table (`readItems_encode`), the link table (`readLinks_encode`), and the whole file
(`fromExisting_encode`).
-/
namespace Physis.Pbd
open Physis.Spec.Pbd

/-! ### small arithmetic / list facts -/

theorem length_putU16le (v : UInt16) : (putU16le v).length = 2 := rfl
theorem length_putU32le (v : UInt32) : (putU32le v).length = 4 := rfl

theorem toNat_ofNat16 (n : Nat) (h : n < 2 ^ 16) : (UInt16.ofNat n).toNat = n := by
  simp [UInt16.toNat_ofNat']; omega

theorem toNat_ofNat32 (n : Nat) (h : n < 2 ^ 32) : (UInt32.ofNat n).toNat = n := by
  simp [UInt32.toNat_ofNat']; omega

theorem i32AsU64_ofNat (n : Nat) (h : n < 2 ^ 31) : i32AsU64 (UInt32.ofNat n) = n := by
  have h1 : (UInt32.ofNat n).toNat = n := toNat_ofNat32 n (by omega)
  have h2 : UInt32.ofNat n < 0x80000000 := by
    rw [UInt32.lt_iff_toNat_lt, h1]; exact h
  simp [i32AsU64, h2, h1]

theorem not_ge_ofNat (n : Nat) (h : n < 2 ^ 31) : ¬ (UInt32.ofNat n ≥ 0x80000000) := by
  have h1 : (UInt32.ofNat n).toNat = n := toNat_ofNat32 n (by omega)
  rw [ge_iff_le, UInt32.le_iff_toNat_le, h1]
  show ¬ (2147483648 ≤ n)
  omega

theorem drop_of_length (a b : Bytes) (n : Nat) (h : a.length = n) : (a ++ b).drop n = b := by
  subst h; exact List.drop_left

/-- `bone_count & 1 != 0` is "the count is odd" -/
theorem odd_test (n : Nat) (h : n < 2 ^ 32) :
    (UInt32.ofNat n &&& 1 != 0) = decide (n % 2 = 1) := by
  have h1 : (UInt32.ofNat n).toNat = n := toNat_ofNat32 n h
  have h2 : (UInt32.ofNat n &&& 1).toNat = n % 2 := by
    rw [UInt32.toNat_and, h1]; exact Nat.and_one_is_mod n
  by_cases hodd : n % 2 = 1
  · have : UInt32.ofNat n &&& 1 ≠ 0 := by
      intro hz; rw [hz] at h2; simp at h2; omega
    simp [hodd, this]
  · have : UInt32.ofNat n &&& 1 = 0 := by
      apply UInt32.toNat_inj.mp; rw [h2]; simp; omega
    simp [hodd, this]

/-! ### the out-of-line block -/

/-- what one block must satisfy: it fits a u16 name offset, 12 floats per matrix, NUL-free names -/
def WFBones (bones : List Spec.Pbd.Bone) : Prop :=
  (encodeBlock bones).length < 2 ^ 16 ∧ ∀ b ∈ bones, b.deform.length = 12 ∧ ∀ c ∈ b.name, c ≠ 0

/-- everything of a block before the name heap -/
def blockHead (bones : List Spec.Pbd.Bone) : Bytes :=
  putU32le (UInt32.ofNat bones.length) ++
    ((nameOffsets (blockHeaderLen bones.length) bones).flatMap putU16le ++
      ((if bones.length % 2 = 1 then [0, 0] else []) ++
        bones.flatMap (fun b => b.deform.flatMap putU32le)))

theorem encodeBlock_eq (bones : List Spec.Pbd.Bone) :
    encodeBlock bones = blockHead bones ++ nameHeap bones := by
  simp [encodeBlock, blockHead, List.append_assoc]

theorem length_nameOffsets (bones : List Spec.Pbd.Bone) : ∀ base, (nameOffsets base bones).length = bones.length := by
  induction bones with
  | nil => intro; rfl
  | cons b r ih => intro base; simp [nameOffsets, ih]

theorem length_flatMap_putU16le (l : List UInt16) : (l.flatMap putU16le).length = 2 * l.length := by
  induction l with
  | nil => rfl
  | cons a r ih => simp only [List.flatMap_cons, List.length_append, length_putU16le, ih, List.length_cons]; omega

theorem length_flatMap_putU32le (l : List UInt32) : (l.flatMap putU32le).length = 4 * l.length := by
  induction l with
  | nil => rfl
  | cons a r ih => simp only [List.flatMap_cons, List.length_append, length_putU32le, ih, List.length_cons]; omega

theorem length_matrices (bones : List Spec.Pbd.Bone) (h : ∀ b ∈ bones, b.deform.length = 12) :
    (bones.flatMap (fun b => b.deform.flatMap putU32le)).length = 48 * bones.length := by
  induction bones with
  | nil => rfl
  | cons b r ih =>
    have hb : b.deform.length = 12 := h b (by simp)
    have hr : ∀ b ∈ r, b.deform.length = 12 := fun x hx => h x (by simp [hx])
    simp only [List.flatMap_cons, List.length_append, length_flatMap_putU32le, hb, ih hr, List.length_cons]
    omega

theorem length_blockHead (bones : List Spec.Pbd.Bone) (h : ∀ b ∈ bones, b.deform.length = 12) :
    (blockHead bones).length = blockHeaderLen bones.length := by
  simp only [blockHead, List.length_append, length_putU32le, length_flatMap_putU16le, length_nameOffsets,
    length_matrices bones h, blockHeaderLen]
  split <;> simp <;> omega

/-- `strings_parser` over a name heap that starts `pre.length` bytes into the block -/
theorem stringsParser_heap (file : Bytes) (base : Nat) :
    ∀ (bones : List Spec.Pbd.Bone) (pre X : Bytes),
    (∀ b ∈ bones, ∀ c ∈ b.name, c ≠ 0) →
    pre.length + (nameHeap bones).length < 2 ^ 16 →
    file.drop base = pre ++ (nameHeap bones ++ X) →
    stringsParser file base (nameOffsets pre.length bones) = .ok (bones.map (·.name)) := by
  intro bones
  induction bones with
  | nil => intro pre X _ _ _; rfl
  | cons b r ih =>
    intro pre X hn hlen hdrop
    have hb : ∀ c ∈ b.name, c ≠ 0 := hn b (by simp)
    have hr : ∀ b ∈ r, ∀ c ∈ b.name, c ≠ 0 := fun x hx => hn x (by simp [hx])
    have hheap : nameHeap (b :: r) = b.name ++ [0] ++ nameHeap r := by
      simp [nameHeap]
    have hheaplen : (nameHeap (b :: r)).length = b.name.length + 1 + (nameHeap r).length := by
      rw [hheap]; simp; omega
    have hseek : Rd.seekTo file (base + (UInt16.ofNat pre.length).toNat) = b.name ++ 0 :: (nameHeap r ++ X) := by
      rw [toNat_ofNat16 _ (by omega)]
      show file.drop (base + pre.length) = _
      rw [← List.drop_drop, hdrop, List.drop_left, hheap]
      simp
    have hnext : stringsParser file base (nameOffsets (pre ++ b.name ++ [0]).length r) = .ok (r.map (·.name)) := by
      apply ih (pre ++ b.name ++ [0]) X hr
      · simp only [List.length_append, List.length_cons, List.length_nil]; omega
      · rw [hdrop, hheap]; simp
    have hlen' : (pre ++ b.name ++ [0]).length = pre.length + b.name.length + 1 := by simp; omega
    rw [hlen'] at hnext
    simp only [nameOffsets, stringsParser, hseek, Rd.cstr_put _ _ hb, hnext, List.map_cons]

theorem readMatrices_encode :
    ∀ (bones : List Spec.Pbd.Bone) (rest : Bytes), (∀ b ∈ bones, b.deform.length = 12) →
    readMatrices bones.length (bones.flatMap (fun b => b.deform.flatMap putU32le) ++ rest) =
      some (bones.map (·.deform)) := by
  intro bones
  induction bones with
  | nil => intro _ _; rfl
  | cons b r ih =>
    intro rest h
    have hb : b.deform.length = 12 := h b (by simp)
    have hr : ∀ b ∈ r, b.deform.length = 12 := fun x hx => h x (by simp [hx])
    have h12 := Rd.u32s_put b.deform (r.flatMap (fun b => b.deform.flatMap putU32le) ++ rest)
    rw [hb] at h12
    simp only [List.length_cons, List.flatMap_cons, List.append_assoc, readMatrices, h12, ih rest hr,
      Option.map_some, List.map_cons]

theorem zipBones_map (bones : List Spec.Pbd.Bone) :
    zipBones (bones.map (·.name)) (bones.map (·.deform)) = bones.map convBone := by
  induction bones with
  | nil => rfl
  | cons b r ih => simp [zipBones, ih, convBone]

/-- `RacialDeformer::read` on a block found at `off`: exactly the stored names and matrices -/
theorem readDeformer_block (file : Bytes) (off : Nat) (bones : List Spec.Pbd.Bone) (X : Bytes)
    (hoff : off < 2 ^ 31) (hwf : WFBones bones) (hdrop : file.drop off = encodeBlock bones ++ X) :
    readDeformer file (UInt32.ofNat off) = .ok (bones.map convBone) := by
  obtain ⟨hlen, hb⟩ := hwf
  have hdef : ∀ b ∈ bones, b.deform.length = 12 := fun b m => (hb b m).1
  have hnames : ∀ b ∈ bones, ∀ c ∈ b.name, c ≠ 0 := fun b m => (hb b m).2
  have hhead := length_blockHead bones hdef
  have htot : blockHeaderLen bones.length + (nameHeap bones).length < 2 ^ 16 := by
    rw [encodeBlock_eq, List.length_append, hhead] at hlen; exact hlen
  have hk : bones.length < 2 ^ 16 := by simp only [blockHeaderLen] at htot; omega
  have hbase : i32AsU64 (UInt32.ofNat off) = off := i32AsU64_ofNat off hoff
  have hcnt : (UInt32.ofNat bones.length).toNat = bones.length := toNat_ofNat32 _ (by omega)
  have hsp : stringsParser file off (nameOffsets (blockHeaderLen bones.length) bones) = .ok (bones.map (·.name)) := by
    have := stringsParser_heap file off bones (blockHead bones) X hnames (by rw [hhead]; exact htot)
      (by rw [hdrop, encodeBlock_eq, List.append_assoc])
    rw [hhead] at this; exact this
  have hoffs := Rd.u16s_put (nameOffsets (blockHeaderLen bones.length) bones)
    ((if bones.length % 2 = 1 then [0, 0] else []) ++
        bones.flatMap (fun b => b.deform.flatMap putU32le) ++ (nameHeap bones ++ X))
  rw [length_nameOffsets] at hoffs
  have hfile : Rd.seekTo file off = putU32le (UInt32.ofNat bones.length) ++
      ((nameOffsets (blockHeaderLen bones.length) bones).flatMap putU16le ++
        ((if bones.length % 2 = 1 then [0, 0] else []) ++
          bones.flatMap (fun b => b.deform.flatMap putU32le) ++ (nameHeap bones ++ X))) := by
    show file.drop off = _
    rw [hdrop, encodeBlock_eq, blockHead]; simp [List.append_assoc]
  simp only [readDeformer, hbase, hfile, Rd.u32le_put, not_ge_ofNat _ (show bones.length < 2 ^ 31 by omega),
    if_false, hcnt, hoffs, hsp, odd_test _ (show bones.length < 2 ^ 32 by omega)]
  by_cases hodd : bones.length % 2 = 1
  · have h00 : Rd.u16le ((0 : UInt8) :: 0 :: (bones.flatMap (fun b => b.deform.flatMap putU32le) ++ (nameHeap bones ++ X)))
        = some (0, bones.flatMap (fun b => b.deform.flatMap putU32le) ++ (nameHeap bones ++ X)) := by
      simp [Rd.u16le]
    simp [hodd, h00, readMatrices_encode bones _ hdef, zipBones_map]
  · simp [hodd, readMatrices_encode bones _ hdef, zipBones_map]

/-! ### item table, link table, whole file -/

def blocks (its : List Spec.Pbd.Item) : Bytes := its.flatMap (fun it => encodeBlock it.bones)

/-- the item table: every item's block is found at its recorded offset -/
theorem readItems_encode (file : Bytes) :
    ∀ (its : List Spec.Pbd.Item) (off : Nat) (rest X : Bytes),
    (∀ it ∈ its, WFBones it.bones) →
    off + (blocks its).length < 2 ^ 31 →
    file.drop off = blocks its ++ X →
    readItems file its.length (encodeItems off its ++ rest) = .ok (its.map convItem, rest) := by
  intro its
  induction its with
  | nil => intro off rest X _ _ _; rfl
  | cons it r ih =>
    intro off rest X hwf hlen hdrop
    have hit : WFBones it.bones := hwf it (by simp)
    have hr : ∀ it ∈ r, WFBones it.bones := fun x hx => hwf x (by simp [hx])
    have hb : blocks (it :: r) = encodeBlock it.bones ++ blocks r := by simp [blocks]
    rw [hb, List.length_append] at hlen
    have hdef := readDeformer_block file off it.bones (blocks r ++ X) (by omega) hit
      (by rw [hdrop, hb, List.append_assoc])
    have hnext := ih (off + (encodeBlock it.bones).length) rest X hr (by omega)
      (by rw [← List.drop_drop, hdrop, hb, List.append_assoc, List.drop_left])
    simp only [encodeItems, List.length_cons, List.append_assoc, readItems, Rd.u16le_put, Rd.u32le_put,
      hdef, Rd.skip, List.cons_append, List.nil_append, List.drop_succ_cons, List.drop_zero, hnext,
      List.map_cons, convItem]

theorem readLinks_encode :
    ∀ (links : List Spec.Pbd.Link) (rest : Bytes),
    readLinks links.length (links.flatMap encodeLink ++ rest) = some (links.map convLink) := by
  intro links
  induction links with
  | nil => intro _; rfl
  | cons l r ih =>
    intro rest
    simp only [List.length_cons, List.flatMap_cons, encodeLink, List.append_assoc, readLinks, Rd.u16s,
      Rd.u16le_put, ih, Option.map_some, List.map_cons, convLink]

theorem length_encodeItems : ∀ (its : List Spec.Pbd.Item) (off : Nat), (encodeItems off its).length = 12 * its.length := by
  intro its
  induction its with
  | nil => intro _; rfl
  | cons it r ih =>
    intro off
    simp only [encodeItems, List.length_append, length_putU16le, length_putU32le, ih, List.length_cons,
      List.length_nil]
    omega

theorem length_encodeLinks (links : List Spec.Pbd.Link) : (links.flatMap encodeLink).length = 8 * links.length := by
  induction links with
  | nil => rfl
  | cons l r ih =>
    simp only [List.flatMap_cons, encodeLink, List.length_append, length_putU16le, ih, List.length_cons]
    omega

/-- **the parser returns exactly the stored records**: `PreBoneDeformer::from_existing` on the encoding
of any file the layout can hold yields the header with the items (body id, link index, named matrices in
order) and the links of `f`. -/
theorem fromExisting_encode (f : File) (h : WFLayout f) : fromExisting (encode f) = .ok (toModel f) := by
  obtain ⟨hcount, hitems, hsize⟩ := h
  have hwf : ∀ it ∈ f.items, WFBones it.bones := fun it m =>
    ⟨(hitems it m).1, fun b mb => ⟨((hitems it m).2 b mb).1, fun c mc => (((hitems it m).2 b mb).2 c mc).1⟩⟩
  have henc : encode f = putU32le (UInt32.ofNat f.items.length) ++
      (encodeItems (4 + 12 * f.items.length + 8 * f.links.length) f.items ++
        (f.links.flatMap encodeLink ++ blocks f.items)) := by
    simp [encode, blocks, List.append_assoc]
  have hlen : (encode f).length =
      4 + 12 * f.items.length + 8 * f.links.length + (blocks f.items).length := by
    rw [henc]
    simp only [List.length_append, length_putU32le, length_encodeItems, length_encodeLinks]
    omega
  have hn : f.items.length < 2 ^ 31 := by omega
  have hdrop : (encode f).drop (4 + 12 * f.items.length + 8 * f.links.length) = blocks f.items ++ [] := by
    have hpre : (putU32le (UInt32.ofNat f.items.length) ++
        (encodeItems (4 + 12 * f.items.length + 8 * f.links.length) f.items ++
          f.links.flatMap encodeLink)).length = 4 + 12 * f.items.length + 8 * f.links.length := by
      simp only [List.length_append, length_putU32le, length_encodeItems, length_encodeLinks]
      omega
    rw [henc, List.append_nil]
    simp only [← List.append_assoc]
    exact drop_of_length _ _ _ hpre
  have hitemsRead := readItems_encode (encode f) f.items (4 + 12 * f.items.length + 8 * f.links.length)
    (f.links.flatMap encodeLink ++ blocks f.items) [] hwf (by omega) hdrop
  have hlinks := readLinks_encode f.links (blocks f.items)
  rw [hcount] at hlinks
  unfold fromExisting
  rw [show Rd.u32le (encode f) = some (UInt32.ofNat f.items.length, _) from by rw [henc]; exact Rd.u32le_put _ _]
  simp only [not_ge_ofNat _ hn, if_false, toNat_ofNat32 _ (show f.items.length < 2 ^ 32 by omega),
    hitemsRead, hlinks, toModel]

/-- what a user of the library runs: `PreBoneDeformer::from_existing(buffer)?.get_deform_matrices(a, b)` -/
def query (buffer : Bytes) (a b : UInt16) : Outcome (List Bone) :=
  match fromExisting buffer with
  | .ok h => getDeformMatrices h a b
  | .none => .none
  | .panic => .panic
  | .diverges => .diverges
  | .unmodelled => .unmodelled

theorem query_encode (f : File) (h : WFLayout f) (a b : UInt16) :
    query (encode f) a b = getDeformMatrices (toModel f) a b := by
  simp only [query, fromExisting_encode f h]

end Physis.Pbd
