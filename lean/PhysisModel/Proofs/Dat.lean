import PhysisModel.Model.Dat
import PhysisModel.Spec.SqPackData
import PhysisModel.Proofs.Reader
/-!
The dat-file reader of the model inverts the packers of `Spec/SqPackData`.
-/
namespace Physis.Dat
open Physis Physis.Reader Physis.Spec.SqPackData

/-- the compressed form of every deflated block inflates to the block's content -/
def Deflated (inflate : Inflate) (b : Block) : Prop :=
  ∀ c, b.compressed = some c → inflate c b.data.length = some b.data

theorem toUInt32_toNat (n : Nat) (h : n < 4294967296) : n.toUInt32.toNat = n :=
  UInt32.toNat_ofNat_of_lt' h

theorem toUInt32_lt (n : Nat) (h : n < 2147483648) : ¬ (n.toUInt32 ≥ 0x80000000) := by
  intro hge
  have : (0x80000000 : UInt32).toNat ≤ n.toUInt32.toNat := UInt32.le_iff_toNat_le.mp hge
  rw [toUInt32_toNat n (by omega)] at this
  have h2 : (0x80000000 : UInt32).toNat = 2147483648 := rfl
  omega

theorem zeros_length (n : Nat) : (zeros n).length = n := by simp [zeros]

theorem skip_zeros (n : Nat) (r : Bytes) : skip n (zeros n ++ r) = r := skip_replicate n 0 r

theorem u32le_isSome (l : Bytes) (h : 4 ≤ l.length) : ∃ v r, u32le l = some (v, r) := by
  match l, h with
  | a :: b :: c :: d :: r, _ => exact ⟨_, r, rfl⟩

/-! ### blocks -/

theorem pad128_spec (n : Nat) : (n + pad128 n) % 128 = 0 := by
  unfold pad128; omega

theorem pad128_lt (n : Nat) : pad128 n < 128 := by
  unfold pad128; omega

theorem align128_length (l : Bytes) : (align128 l).length = l.length + pad128 l.length := by
  simp [align128, zeros_length]

/-- unpadded length of a block -/
def rawLen (b : Block) : Nat := 16 + b.payload.length

theorem encodeBlock_eq (b : Block) :
    encodeBlock b = putU32le 16 ++ (putU32le 0 ++ (putU32le b.marker ++
      (putU32le b.data.length.toUInt32 ++ (b.payload ++ zeros (pad128 (rawLen b)))))) := by
  simp only [encodeBlock, align128, List.append_assoc, List.length_append, putU32le_length, rawLen]
  have : 4 + (4 + (4 + (4 + b.payload.length))) = 16 + b.payload.length := by omega
  rw [this]

theorem encodeBlock_length (b : Block) : (encodeBlock b).length = rawLen b + pad128 (rawLen b) := by
  rw [encodeBlock_eq]
  simp only [List.length_append, putU32le_length, zeros_length, rawLen]
  omega

theorem encodeBlock_length_pos (b : Block) : 128 ≤ (encodeBlock b).length := by
  rw [encodeBlock_length]
  have h1 := pad128_spec (rawLen b)
  have : 16 ≤ rawLen b := by simp [rawLen]
  omega

/-- `read_data_block` on an encoded block returns its content -/
theorem readDataBlock_encode (inflate : Inflate) (b : Block) (hwf : b.wf = true)
    (hd : Deflated inflate b) (whole rest : Bytes) (pos : Nat)
    (hw : whole.drop pos = encodeBlock b ++ rest) :
    readDataBlock inflate whole pos = some (some b.data) := by
  simp only [Block.wf, Bool.and_eq_true, decide_eq_true_eq] at hwf
  obtain ⟨⟨hlen, hc⟩, hpay⟩ := hwf
  have htail : 4 ≤ (b.payload ++ (zeros (pad128 (rawLen b)) ++ rest)).length := by
    have h1 := pad128_spec (rawLen b)
    simp only [List.length_append, zeros_length, rawLen] at h1 ⊢
    omega
  obtain ⟨v, r, hv⟩ := u32le_isSome _ htail
  have hhdr : readBlockHeader (whole.drop pos) =
      some ((16, b.marker, b.data.length.toUInt32), b.payload ++ (zeros (pad128 (rawLen b)) ++ rest)) := by
    rw [hw, encodeBlock_eq]
    simp only [readBlockHeader, List.append_assoc, u32le_put, Option.bind_eq_bind, Option.bind_some,
      skip_append _ _ 4 (putU32le_length 0), hv]
  simp only [readDataBlock, hhdr]
  have hy : ¬ (b.data.length.toUInt32 ≥ 0x80000000) := toUInt32_lt _ hlen
  simp only [hy, if_false]
  cases hcomp : b.compressed with
  | none =>
    have hm : b.marker = 32000 := by simp [Block.marker, hcomp]
    have hp : b.payload = b.data := by simp [Block.payload, hcomp]
    have h1 : ¬ ((32000 : UInt32) ≥ 0x80000000) := by decide
    have h2 : ¬ ((32000 : UInt32) < 32000) := by decide
    simp only [hm, h1, h2, if_false, hp, toUInt32_toNat _ (show b.data.length < 4294967296 by omega),
      bytes_append b.data _ _ rfl]
  | some c =>
    have hm : b.marker = c.length.toUInt32 := by simp [Block.marker, hcomp]
    have hp : b.payload = c := by simp [Block.payload, hcomp]
    have hcl2 : c.length < 32000 ∧ b.data.length ≤ 1048576 := by simpa [hcomp] using hc
    have hcl := hcl2.1
    have h1 : ¬ (c.length.toUInt32 ≥ 0x80000000) := toUInt32_lt _ (by omega)
    have h2 : c.length.toUInt32 < 32000 := by
      apply UInt32.lt_iff_toNat_lt.mpr
      rw [toUInt32_toNat _ (by omega)]; exact hcl
    have h3 : ¬ (b.data.length > 1048576) := by omega
    simp only [hm, h1, h2, if_false, if_true, hp, toUInt32_toNat _ (show c.length < 4294967296 by omega),
      bytes_append c _ _ rfl, toUInt32_toNat _ (show b.data.length < 4294967296 by omega), h3, hd c hcomp]

/-! ### standard entries -/

theorem encodeBlocks_cons (b : Block) (bs : List Block) :
    encodeBlocks (b :: bs) = encodeBlock b ++ encodeBlocks bs := by
  simp [encodeBlocks]

theorem contents_cons (b : Block) (bs : List Block) : contents (b :: bs) = b.data ++ contents bs := by
  simp [contents]

theorem encodeBlocks_append (xs ys : List Block) :
    encodeBlocks (xs ++ ys) = encodeBlocks xs ++ encodeBlocks ys := by
  simp [encodeBlocks]

theorem contents_append (xs ys : List Block) : contents (xs ++ ys) = contents xs ++ contents ys := by
  simp [contents]

/-- the block offsets a standard header stores -/
def offsetsFrom : Nat → List Block → List UInt32
  | _, [] => []
  | off, b :: bs => off.toUInt32 :: offsetsFrom (off + (encodeBlock b).length) bs

theorem skip4_u16 (a b : UInt16) (r : Bytes) : skip 4 (putU16le a ++ (putU16le b ++ r)) = r := rfl

theorem readBlocks_table (bs : List Block) (off : Nat) (rest : Bytes) :
    readBlocks bs.length (standardTable off bs ++ rest) = some (offsetsFrom off bs, rest) := by
  induction bs generalizing off with
  | nil => rfl
  | cons b bs ih =>
    simp only [List.length_cons, readBlocks, standardTable, List.append_assoc, u32le_put,
      Option.bind_eq_bind, Option.bind_some, skip4_u16, ih, offsetsFrom]

theorem standardTable_length (bs : List Block) (off : Nat) : (standardTable off bs).length = 8 * bs.length := by
  induction bs generalizing off with
  | nil => rfl
  | cons b bs ih =>
    simp only [standardTable, List.length_append, putU32le_length, putU16le_length, ih, List.length_cons]
    omega

theorem i32AsU64_small (n : Nat) (h : n < 2147483648) : i32AsU64 n.toUInt32 = n := by
  have hlt : n.toUInt32 < 0x80000000 := by
    apply UInt32.lt_iff_toNat_lt.mpr
    rw [toUInt32_toNat _ (by omega)]; exact h
  simp only [i32AsU64, hlt, if_true, toUInt32_toNat _ (show n < 4294967296 by omega)]

theorem drop_add_of_drop {whole x y : Bytes} {n : Nat} (h : whole.drop n = x ++ y) :
    whole.drop (n + x.length) = y := by
  rw [← List.drop_drop, h, List.drop_left]

theorem readStandardBlocks_ok (inflate : Inflate) (whole : Bytes) (start : Nat) :
    ∀ (bs : List Block) (off : Nat) (suf : Bytes),
      (∀ b ∈ bs, b.wf = true ∧ Deflated inflate b) →
      whole.drop (start + off) = encodeBlocks bs ++ suf →
      off + (encodeBlocks bs).length < 2147483648 →
      start + off + (encodeBlocks bs).length < 18446744073709551616 →
      readStandardBlocks inflate whole start (offsetsFrom off bs) = some (contents bs) := by
  intro bs
  induction bs with
  | nil => intros; rfl
  | cons b bs ih =>
    intro off suf hb hw h31 h64
    rw [encodeBlocks_cons, List.append_assoc] at hw
    rw [encodeBlocks_cons, List.length_append] at h31 h64
    have hblk := readDataBlock_encode inflate b (hb b (by simp)).1 (hb b (by simp)).2 whole _ _ hw
    have hnext := drop_add_of_drop hw
    rw [Nat.add_assoc] at hnext
    have ih' := ih (off + (encodeBlock b).length) suf (fun x hx => hb x (by simp [hx])) hnext
      (by omega) (by omega)
    simp only [offsetsFrom, readStandardBlocks, i32AsU64_small off (by omega), addU64,
      show start + off < 18446744073709551616 by omega, if_true, hblk, ih', contents_cons]

theorem standardHeader_eq (bs : List Block) (rest : Bytes) :
    standardHeader bs ++ rest =
      putU32le (standardHeaderLen bs.length + pad128 (standardHeaderLen bs.length)).toUInt32 ++
      (putU32le 2 ++ (putU32le (contents bs).length.toUInt32 ++ (putU32le 0 ++ (putU32le 0 ++
      (putU32le bs.length.toUInt32 ++ (standardTable 0 bs ++
        (zeros (pad128 (standardHeaderLen bs.length)) ++ rest))))))) := by
  simp only [standardHeader, align128, List.append_assoc, List.length_append, putU32le_length,
    standardTable_length, standardHeaderLen]
  have : 4 + (4 + (4 + (4 + (4 + (4 + 8 * bs.length))))) = 24 + 8 * bs.length := by omega
  rw [this]

theorem standardHeader_length (bs : List Block) :
    (standardHeader bs).length = standardHeaderLen bs.length + pad128 (standardHeaderLen bs.length) := by
  have := congrArg List.length (standardHeader_eq bs [])
  simp only [List.append_nil, List.length_append, putU32le_length, standardTable_length, zeros_length,
    standardHeaderLen] at this ⊢
  omega

theorem skip8_u32 (a b : UInt32) (r : Bytes) : skip 8 (putU32le a ++ (putU32le b ++ r)) = r := rfl

theorem readFromOffset_standard (inflate : Inflate) (bs : List Block) (hwf : standardWf bs = true)
    (hd : ∀ b ∈ bs, Deflated inflate b) (pre suf : Bytes)
    (hsz : pre.length + (packStandard bs).length < 18446744073709551616) :
    readFromOffset inflate (pre ++ packStandard bs ++ suf) pre.length = some (some (contents bs)) := by
  simp only [standardWf, Bool.and_eq_true, List.all_eq_true, decide_eq_true_eq] at hwf
  obtain ⟨hbs, hbound⟩ := hwf
  have hpad := pad128_lt (standardHeaderLen bs.length)
  have hhl := standardHeader_length bs
  have hdrop : (pre ++ packStandard bs ++ suf).drop pre.length = standardHeader bs ++ (encodeBlocks bs ++ suf) := by
    rw [List.append_assoc, List.drop_left, packStandard, List.append_assoc]
  have hfi : readFileInfo ((pre ++ packStandard bs ++ suf).drop pre.length) =
      some ({ size := (standardHeaderLen bs.length + pad128 (standardHeaderLen bs.length)).toUInt32,
              fileSize := (contents bs).length.toUInt32, info := .standard bs.length.toUInt32 },
            standardTable 0 bs ++ (zeros (pad128 (standardHeaderLen bs.length)) ++ (encodeBlocks bs ++ suf))) := by
    rw [hdrop, standardHeader_eq]
    have h21 : ((2 : UInt32) == 1) = false := by decide
    have h22 : ((2 : UInt32) == 2) = true := by decide
    simp only [readFileInfo, u32le_put, Option.bind_eq_bind, Option.bind_some, h21, h22,
      Bool.false_eq_true, if_false, if_true, skip8_u32]
  have hn : bs.length.toUInt32.toNat = bs.length := toUInt32_toNat _ (by simp [standardHeaderLen] at hbound; omega)
  have hs : (standardHeaderLen bs.length + pad128 (standardHeaderLen bs.length)).toUInt32.toNat =
      (standardHeader bs).length := by rw [toUInt32_toNat _ (by omega), hhl]
  have hstart : (pre ++ packStandard bs ++ suf).drop (pre.length + (standardHeader bs).length + 0) =
      encodeBlocks bs ++ suf := by
    rw [Nat.add_zero]
    exact drop_add_of_drop hdrop
  have hlen : (packStandard bs).length = (standardHeader bs).length + (encodeBlocks bs).length := by
    simp [packStandard]
  have hblocks := readStandardBlocks_ok inflate (pre ++ packStandard bs ++ suf)
    (pre.length + (standardHeader bs).length) bs 0 suf (fun b hb => ⟨hbs b hb, hd b hb⟩) hstart
    (by omega) (by omega)
  simp only [readFromOffset, hfi, readStandardFile, hn, readBlocks_table, hs, hblocks]

/-! ### texture entries -/

theorem toUInt16_toNat (n : Nat) (h : n < 65536) : n.toUInt16.toNat = n :=
  UInt16.toNat_ofNat_of_lt' h

theorem i16AsU64_small (n : Nat) (h : n < 32768) : i16AsU64 n.toUInt16 = n := by
  have hlt : n.toUInt16 < 0x8000 := by
    apply UInt16.lt_iff_toNat_lt.mpr
    rw [toUInt16_toNat _ (by omega)]; exact h
  simp only [i16AsU64, hlt, if_true, toUInt16_toNat _ (show n < 65536 by omega)]

theorem encodeBlock_length_lt (b : Block) (h : b.wf = true) : (encodeBlock b).length < 32768 := by
  simp only [Block.wf, Bool.and_eq_true, decide_eq_true_eq] at h
  rw [encodeBlock_length]
  have := pad128_lt (rawLen b)
  simp only [rawLen] at this ⊢
  omega

theorem sizeTable_cons (b : Block) (bs : List Block) :
    sizeTable (b :: bs) = putU16le (encodeBlock b).length.toUInt16 ++ sizeTable bs := by
  simp [sizeTable]

theorem sizeTable_append (xs ys : List Block) : sizeTable (xs ++ ys) = sizeTable xs ++ sizeTable ys := by
  simp [sizeTable]

theorem sizeTable_length (bs : List Block) : (sizeTable bs).length = 2 * bs.length := by
  induction bs with
  | nil => rfl
  | cons b bs ih => rw [sizeTable_cons, List.length_append, ih, putU16le_length, List.length_cons]; omega

theorem encLen_ge (bs : List Block) : 128 * bs.length ≤ (encodeBlocks bs).length := by
  induction bs with
  | nil => simp [encodeBlocks]
  | cons b bs ih =>
    rw [encodeBlocks_cons, List.length_append, List.length_cons]
    have := encodeBlock_length_pos b
    omega

theorem readLodBlocks_ok (inflate : Inflate) (whole : Bytes) :
    ∀ (bs : List Block) (running : Nat) (T X : Bytes),
      (∀ b ∈ bs, b.wf = true ∧ Deflated inflate b) →
      whole.drop running = encodeBlocks bs ++ X →
      running + (encodeBlocks bs).length < 18446744073709551616 →
      readLodBlocks inflate whole bs.length running (sizeTable bs ++ T) = some (some (contents bs, T)) := by
  intro bs
  induction bs with
  | nil => intros; rfl
  | cons b bs ih =>
    intro running T X hb hw h64
    rw [encodeBlocks_cons, List.append_assoc] at hw
    rw [encodeBlocks_cons, List.length_append] at h64
    have hwf := (hb b (by simp)).1
    have hblk := readDataBlock_encode inflate b hwf (hb b (by simp)).2 whole _ _ hw
    have hnext := drop_add_of_drop hw
    have ih' := ih (running + (encodeBlock b).length) T X (fun x hx => hb x (by simp [hx])) hnext (by omega)
    have hlt := encodeBlock_length_lt b hwf
    have hs : ¬ ((encodeBlock b).length.toUInt16 ≥ 0x8000) := by
      intro hge
      have := UInt16.le_iff_toNat_le.mp hge
      rw [toUInt16_toNat _ (show (encodeBlock b).length < 65536 by omega)] at this
      simp at this; omega
    simp only [List.length_cons, readLodBlocks, hblk, sizeTable_cons, List.append_assoc, u16le_put,
      hs, if_false, toUInt16_toNat _ (show (encodeBlock b).length < 65536 by omega), addU64,
      show running + (encodeBlock b).length < 18446744073709551616 by omega, if_true, ih', contents_cons]

/-- the LOD records a texture header stores -/
def lodsFrom : Nat → Nat → List (List Block) → List TextureLodBlock
  | _, _, [] => []
  | off, idx, m :: ms =>
    { compressedOffset := off.toUInt32, compressedSize := (encodeBlocks m).length.toUInt32,
      decompressedSize := (contents m).length.toUInt32, blockOffset := idx.toUInt32,
      blockCount := m.length.toUInt32 } :: lodsFrom (off + (encodeBlocks m).length) (idx + m.length) ms

theorem readLods_table (mips : List (List Block)) (off idx : Nat) (rest : Bytes) :
    readLods mips.length (lodTable off idx mips ++ rest) = some (lodsFrom off idx mips, rest) := by
  induction mips generalizing off idx with
  | nil => rfl
  | cons m ms ih =>
    simp only [List.length_cons, readLods, lodTable, List.append_assoc, readLod, u32le_put,
      Option.bind_eq_bind, Option.bind_some, ih, lodsFrom]

theorem lodTable_length (mips : List (List Block)) (off idx : Nat) :
    (lodTable off idx mips).length = 20 * mips.length := by
  induction mips generalizing off idx with
  | nil => rfl
  | cons m ms ih =>
    simp only [lodTable, List.length_append, putU32le_length, ih, List.length_cons]; omega

theorem readAllLods_ok (inflate : Inflate) (whole : Bytes) (start : Nat) :
    ∀ (mips : List (List Block)) (off idx : Nat) (T suf : Bytes),
      (∀ b ∈ mips.flatten, b.wf = true ∧ Deflated inflate b) →
      whole.drop (start + off) = encodeBlocks mips.flatten ++ suf →
      off + (encodeBlocks mips.flatten).length < 2147483648 →
      start + off + (encodeBlocks mips.flatten).length < 18446744073709551616 →
      readAllLods inflate whole start (lodsFrom off idx mips) (sizeTable mips.flatten ++ T) =
        some (some (contents mips.flatten)) := by
  intro mips
  induction mips with
  | nil => intros; rfl
  | cons m ms ih =>
    intro off idx T suf hb hw h31 h64
    simp only [List.flatten_cons] at hb hw h31 h64 ⊢
    rw [encodeBlocks_append, List.append_assoc] at hw
    rw [encodeBlocks_append, List.length_append] at h31 h64
    have hge := encLen_ge m
    have hcount : m.length.toUInt32.toNat = m.length := toUInt32_toNat _ (by omega)
    have hoff : off.toUInt32.toNat = off := toUInt32_toNat _ (by omega)
    have hw' : whole.drop (off + start) = encodeBlocks m ++ (encodeBlocks ms.flatten ++ suf) := by
      rw [Nat.add_comm]; exact hw
    have hlod := readLodBlocks_ok inflate whole m (off + start) (sizeTable ms.flatten ++ T) _
      (fun b hb' => hb b (by simp [hb'])) hw' (by omega)
    have hnext := drop_add_of_drop hw
    rw [Nat.add_assoc] at hnext
    have ih' := ih (off + (encodeBlocks m).length) (idx + m.length) T suf
      (fun b hb' => hb b (by simp [hb'])) hnext (by omega) (by omega)
    simp only [lodsFrom, readAllLods, hcount, hoff, sizeTable_append, List.append_assoc, hlod, ih',
      contents_append]

theorem readTextureFile_eq (inflate : Inflate) (whole : Bytes) (offset : Nat) (size : UInt32)
    (lods : List TextureLodBlock) (l : Bytes) (lod0 : TextureLodBlock) (rest : List TextureLodBlock)
    (h r d : Bytes) (hl : lods = lod0 :: rest) (hne : (lod0.compressedSize != 0) = true)
    (hh : bytes lod0.compressedOffset.toNat (whole.drop (offset + size.toNat)) = some (h, r))
    (hall : readAllLods inflate whole (offset + size.toNat) lods l = some (some d)) :
    readTextureFile inflate whole offset size lods l = some (some (h ++ d)) := by
  subst hl
  simp only [readTextureFile, hne, if_true, hh, hall]

theorem textureHeader_eq (hdr : Bytes) (mips : List (List Block)) (rest : Bytes) :
    textureHeader hdr mips ++ rest =
      putU32le (textureHeaderLen mips + pad128 (textureHeaderLen mips)).toUInt32 ++
      (putU32le 4 ++ (putU32le (hdr.length + (contents mips.flatten).length).toUInt32 ++
      (putU32le 0 ++ (putU32le 0 ++ (putU32le mips.length.toUInt32 ++ (lodTable hdr.length 0 mips ++
      (sizeTable mips.flatten ++ (zeros (pad128 (textureHeaderLen mips)) ++ rest)))))))) := by
  simp only [textureHeader, align128, List.append_assoc, List.length_append, putU32le_length,
    lodTable_length, sizeTable_length, textureHeaderLen]
  have : 4 + (4 + (4 + (4 + (4 + (4 + (20 * mips.length + 2 * mips.flatten.length)))))) =
      24 + 20 * mips.length + 2 * mips.flatten.length := by omega
  rw [this]

theorem textureHeader_length (hdr : Bytes) (mips : List (List Block)) :
    (textureHeader hdr mips).length = textureHeaderLen mips + pad128 (textureHeaderLen mips) := by
  have := congrArg List.length (textureHeader_eq hdr mips [])
  simp only [List.append_nil, List.length_append, putU32le_length, lodTable_length, sizeTable_length,
    zeros_length, textureHeaderLen] at this ⊢
  omega

theorem readFromOffset_texture (inflate : Inflate) (hdr : Bytes) (mips : List (List Block))
    (hwf : textureWf hdr mips = true) (hd : ∀ b ∈ mips.flatten, Deflated inflate b) (pre suf : Bytes)
    (hsz : pre.length + (packTexture hdr mips).length < 18446744073709551616) :
    readFromOffset inflate (pre ++ packTexture hdr mips ++ suf) pre.length =
      some (some (hdr ++ contents mips.flatten)) := by
  simp only [textureWf, Bool.and_eq_true, List.all_eq_true, decide_eq_true_eq] at hwf
  obtain ⟨⟨hbs, hne⟩, hbound⟩ := hwf
  have hpad := pad128_lt (textureHeaderLen mips)
  have hhl := textureHeader_length hdr mips
  generalize hW : pre ++ packTexture hdr mips ++ suf = whole
  have hdrop : whole.drop pre.length =
      textureHeader hdr mips ++ (hdr ++ (encodeBlocks mips.flatten ++ suf)) := by
    rw [← hW, List.append_assoc, List.drop_left, packTexture, List.append_assoc, List.append_assoc]
  have hmge := encLen_ge mips.flatten
  have hmips : mips.length ≤ textureHeaderLen mips := by simp [textureHeaderLen]; omega
  have hfi : readFileInfo (whole.drop pre.length) =
      some ({ size := (textureHeaderLen mips + pad128 (textureHeaderLen mips)).toUInt32,
              fileSize := (hdr.length + (contents mips.flatten).length).toUInt32,
              info := .texture mips.length.toUInt32 (lodsFrom hdr.length 0 mips) },
            sizeTable mips.flatten ++ (zeros (pad128 (textureHeaderLen mips)) ++
              (hdr ++ (encodeBlocks mips.flatten ++ suf)))) := by
    rw [hdrop, textureHeader_eq]
    have h41 : ((4 : UInt32) == 1) = false := by decide
    have h42 : ((4 : UInt32) == 2) = false := by decide
    have h43 : ((4 : UInt32) == 3) = false := by decide
    have h44 : ((4 : UInt32) == 4) = true := by decide
    simp only [readFileInfo, u32le_put, Option.bind_eq_bind, Option.bind_some, h41, h42, h43, h44,
      Bool.false_eq_true, if_false, if_true, skip8_u32,
      toUInt32_toNat mips.length (by omega), readLods_table]
  have hs : (textureHeaderLen mips + pad128 (textureHeaderLen mips)).toUInt32.toNat =
      (textureHeader hdr mips).length := by rw [toUInt32_toNat _ (by omega), hhl]
  have hstart : whole.drop (pre.length + (textureHeader hdr mips).length) =
      hdr ++ (encodeBlocks mips.flatten ++ suf) := drop_add_of_drop hdrop
  have hblocks0 : whole.drop (pre.length + (textureHeader hdr mips).length + hdr.length) =
      encodeBlocks mips.flatten ++ suf := drop_add_of_drop hstart
  have hlen : (packTexture hdr mips).length =
      (textureHeader hdr mips).length + hdr.length + (encodeBlocks mips.flatten).length := by
    simp only [packTexture, List.length_append]
  have hall := readAllLods_ok inflate whole (pre.length + (textureHeader hdr mips).length) mips hdr.length 0
    (zeros (pad128 (textureHeaderLen mips)) ++ (hdr ++ (encodeBlocks mips.flatten ++ suf))) suf
    (fun b hb => ⟨hbs b hb, hd b hb⟩) hblocks0 (by omega) (by omega)
  obtain ⟨b0, m0, ms, hm⟩ : ∃ b0 m0 ms, mips = (b0 :: m0) :: ms := by
    cases mips with
    | nil => simp at hne
    | cons m ms =>
      cases m with
      | nil => simp at hne
      | cons b0 m0 => exact ⟨_, _, _, rfl⟩
  have hlods : lodsFrom hdr.length 0 mips =
      { compressedOffset := hdr.length.toUInt32, compressedSize := (encodeBlocks (b0 :: m0)).length.toUInt32,
        decompressedSize := (contents (b0 :: m0)).length.toUInt32, blockOffset := (0 : Nat).toUInt32,
        blockCount := (b0 :: m0).length.toUInt32 } ::
      lodsFrom (hdr.length + (encodeBlocks (b0 :: m0)).length) (0 + (b0 :: m0).length) ms := by
    rw [hm]; rfl
  have hne0 : ((encodeBlocks (b0 :: m0)).length.toUInt32 != 0) = true := by
    have h1 := encLen_ge (b0 :: m0)
    have h2 : (encodeBlocks (b0 :: m0)).length ≤ (encodeBlocks mips.flatten).length := by
      rw [hm, List.flatten_cons, encodeBlocks_append, List.length_append]; omega
    have h3 : (encodeBlocks (b0 :: m0)).length < 4294967296 := by omega
    simp only [List.length_cons] at h1
    simp only [bne_iff_ne, ne_eq]
    intro h0
    have := congrArg UInt32.toNat h0
    rw [toUInt32_toNat _ h3] at this
    have h00 : (0 : UInt32).toNat = 0 := rfl
    omega
  have hhdr : bytes hdr.length.toUInt32.toNat
      (whole.drop (pre.length + (textureHeaderLen mips + pad128 (textureHeaderLen mips)).toUInt32.toNat)) =
      some (hdr, encodeBlocks mips.flatten ++ suf) := by
    rw [hs, hstart, toUInt32_toNat hdr.length (by omega)]
    exact bytes_append hdr _ _ rfl
  rw [← hs] at hall
  simp only [readFromOffset, hfi]
  exact readTextureFile_eq inflate whole pre.length _ _ _ _ _ _ _ _ hlods hne0 hhdr hall

/-! ### model entries -/

theorem readMMS32 (a b c d e f g h i j k : UInt32) (rest : Bytes) :
    readMMS u32le (putU32le a ++ (putU32le b ++ (putU32le c ++ (putU32le d ++ (putU32le e ++
      (putU32le f ++ (putU32le g ++ (putU32le h ++ (putU32le i ++ (putU32le j ++ (putU32le k ++ rest))))))))))) =
      some ({ stackSize := a, runtimeSize := b, vertexBufferSize := ⟨c, d, e⟩,
              edgeGeometryVertexBufferSize := ⟨f, g, h⟩, indexBufferSize := ⟨i, j, k⟩ }, rest) := by
  simp only [readMMS, readTri, u32le_put, Option.bind_eq_bind, Option.bind_some]

theorem readMMS16 (a b c d e f g h i j k : UInt16) (rest : Bytes) :
    readMMS u16le (putU16le a ++ (putU16le b ++ (putU16le c ++ (putU16le d ++ (putU16le e ++
      (putU16le f ++ (putU16le g ++ (putU16le h ++ (putU16le i ++ (putU16le j ++ (putU16le k ++ rest))))))))))) =
      some ({ stackSize := a, runtimeSize := b, vertexBufferSize := ⟨c, d, e⟩,
              edgeGeometryVertexBufferSize := ⟨f, g, h⟩, indexBufferSize := ⟨i, j, k⟩ }, rest) := by
  simp only [readMMS, readTri, u16le_put, Option.bind_eq_bind, Option.bind_some]

/-- the 16-bit sizes a model / texture header stores for a run of blocks -/
def sizesOf (bs : List Block) : List UInt16 := bs.map (fun b => (encodeBlock b).length.toUInt16)

theorem sizesOf_append (xs ys : List Block) : sizesOf (xs ++ ys) = sizesOf xs ++ sizesOf ys := by
  simp [sizesOf]

theorem decodeU16s_put (v : UInt16) (r : Bytes) : decodeU16s (putU16le v ++ r) = v :: decodeU16s r := by
  have h := u16le_put v r
  simp only [putU16le, List.cons_append, List.nil_append, u16le, Option.some.injEq, Prod.mk.injEq,
    and_true] at h ⊢
  simp only [decodeU16s, h]

theorem decodeU16s_sizeTable (bs : List Block) : decodeU16s (sizeTable bs) = sizesOf bs := by
  induction bs with
  | nil => rfl
  | cons b bs ih => rw [sizeTable_cons, decodeU16s_put, ih]; rfl

theorem readRun_ok (inflate : Inflate) (whole : Bytes) :
    ∀ (bs : List Block) (pos : Nat) (S : List UInt16) (X : Bytes),
      (∀ b ∈ bs, b.wf = true ∧ Deflated inflate b) →
      whole.drop pos = encodeBlocks bs ++ X →
      readRun inflate whole bs.length pos (sizesOf bs ++ S) = some (contents bs, S) := by
  intro bs
  induction bs with
  | nil => intros; rfl
  | cons b bs ih =>
    intro pos S X hb hw
    rw [encodeBlocks_cons, List.append_assoc] at hw
    have hwf := (hb b (by simp)).1
    have hblk := readDataBlock_encode inflate b hwf (hb b (by simp)).2 whole _ _ hw
    have hnext := drop_add_of_drop hw
    have ih' := ih (pos + (encodeBlock b).length) S X (fun x hx => hb x (by simp [hx])) hnext
    have hlt := encodeBlock_length_lt b hwf
    simp only [List.length_cons, readRun, hblk, sizesOf, List.map_cons, List.cons_append,
      toUInt16_toNat _ (show (encodeBlock b).length < 65536 by omega), contents_cons]
    simp only [sizesOf] at ih'
    rw [ih']

theorem secOffset_nil (pos : Nat) : secOffset [] pos = 0 := rfl
theorem secOffset_cons (b : Block) (bs : List Block) (pos : Nat) : secOffset (b :: bs) pos = pos := rfl

theorem processModelData_ok (inflate : Inflate) (whole : Bytes) (base : Nat) (prev : Option UInt32)
    (sec : List Block) (o : Nat) (buf : Bytes) (S : List UInt16) (X : Bytes)
    (hb : ∀ b ∈ sec, b.wf = true ∧ Deflated inflate b) (hlen : sec.length < 65536) (ho : o < 4294967296)
    (hw : whole.drop (base + o) = encodeBlocks sec ++ X)
    (hprev : sec ≠ [] → ∀ p, prev = some p → (0x44 + buf.length).toUInt32 ≠ p) :
    processModelData inflate whole base prev sec.length.toUInt16 o.toUInt32 ⟨buf, sizesOf sec ++ S⟩ =
      some ((secOffset sec (0x44 + buf.length)).toUInt32, (conLen sec).toUInt32,
            ⟨buf ++ contents sec, S⟩) := by
  cases sec with
  | nil =>
    simp only [processModelData, List.length_nil, secOffset_nil, conLen, contents, List.map_nil,
      List.flatten_nil, List.append_nil, sizesOf, List.nil_append]
    rfl
  | cons b bs =>
    have hne : ((b :: bs).length.toUInt16 != 0) = true := by
      simp only [bne_iff_ne, ne_eq]
      intro h0
      have := congrArg UInt16.toNat h0
      rw [toUInt16_toNat _ hlen] at this
      have h00 : (0 : UInt16).toNat = 0 := rfl
      simp only [List.length_cons] at this
      omega
    have hrun := readRun_ok inflate whole (b :: bs) (base + o) S X hb hw
    cases prev with
    | none =>
      simp only [processModelData, hne, if_true, toUInt16_toNat _ hlen, toUInt32_toNat _ ho, hrun,
        secOffset_cons, conLen]
    | some p =>
      have hp : ((0x44 + buf.length).toUInt32 != p) = true := by
        simp only [bne_iff_ne, ne_eq]; exact hprev (by simp) p rfl
      simp only [processModelData, hne, if_true, toUInt16_toNat _ hlen, toUInt32_toNat _ ho, hrun, hp,
        secOffset_cons, conLen]

/-- the `ModelFileBlock` a packed model header parses to -/
def mbOf (m : ModelMeta) (s : ModelSections) : ModelFileBlock :=
  let o1 := encLen s.stack
  let o2 := o1 + encLen s.runtime
  let o3 := o2 + encLen s.v0
  let o4 := o3 + encLen s.e0
  let o5 := o4 + encLen s.i0
  let o6 := o5 + encLen s.v1
  let o7 := o6 + encLen s.e1
  let o8 := o7 + encLen s.i1
  let o9 := o8 + encLen s.v2
  let o10 := o9 + encLen s.e2
  let n1 := s.stack.length
  let n2 := n1 + s.runtime.length
  let n3 := n2 + s.v0.length
  let n4 := n3 + s.e0.length
  let n5 := n4 + s.i0.length
  let n6 := n5 + s.v1.length
  let n7 := n6 + s.e1.length
  let n8 := n7 + s.i1.length
  let n9 := n8 + s.v2.length
  let n10 := n9 + s.e2.length
  { numBlocks := s.all.length.toUInt32, numUsedBlocks := s.all.length.toUInt32, version := m.version
    uncompressedSize := ⟨(conLen s.stack).toUInt32, (conLen s.runtime).toUInt32,
      ⟨(conLen s.v0).toUInt32, (conLen s.v1).toUInt32, (conLen s.v2).toUInt32⟩,
      ⟨(conLen s.e0).toUInt32, (conLen s.e1).toUInt32, (conLen s.e2).toUInt32⟩,
      ⟨(conLen s.i0).toUInt32, (conLen s.i1).toUInt32, (conLen s.i2).toUInt32⟩⟩
    compressedSize := ⟨(encLen s.stack).toUInt32, (encLen s.runtime).toUInt32,
      ⟨(encLen s.v0).toUInt32, (encLen s.v1).toUInt32, (encLen s.v2).toUInt32⟩,
      ⟨(encLen s.e0).toUInt32, (encLen s.e1).toUInt32, (encLen s.e2).toUInt32⟩,
      ⟨(encLen s.i0).toUInt32, (encLen s.i1).toUInt32, (encLen s.i2).toUInt32⟩⟩
    offset := ⟨(0 : Nat).toUInt32, o1.toUInt32, ⟨o2.toUInt32, o5.toUInt32, o8.toUInt32⟩,
      ⟨o3.toUInt32, o6.toUInt32, o9.toUInt32⟩,
      ⟨o4.toUInt32, o7.toUInt32, o10.toUInt32⟩⟩
    index := ⟨(0 : Nat).toUInt16, n1.toUInt16, ⟨n2.toUInt16, n5.toUInt16, n8.toUInt16⟩,
      ⟨n3.toUInt16, n6.toUInt16, n9.toUInt16⟩,
      ⟨n4.toUInt16, n7.toUInt16, n10.toUInt16⟩⟩
    num := ⟨s.stack.length.toUInt16, s.runtime.length.toUInt16,
      ⟨s.v0.length.toUInt16, s.v1.length.toUInt16, s.v2.length.toUInt16⟩,
      ⟨s.e0.length.toUInt16, s.e1.length.toUInt16, s.e2.length.toUInt16⟩,
      ⟨s.i0.length.toUInt16, s.i1.length.toUInt16, s.i2.length.toUInt16⟩⟩
    vertexDeclarationNum := m.vertexDeclarationNum, materialNum := m.materialNum, numLods := m.numLods
    indexBufferStreamingEnabled := m.indexBufferStreaming, edgeGeometryEnabled := m.edgeGeometry }

theorem boolByte_eq (b : Bool) : (Spec.SqPackData.boolByte b == 1) = b := by cases b <;> decide

/-- the part of a packed model header behind the three common words -/
def modelBody (m : ModelMeta) (s : ModelSections) : Bytes :=
  put32 s.all.length ++ put32 s.all.length ++ putU32le m.version ++
    mms put32 conLen s ++ mms put32 encLen s ++ modelOffsets s ++ modelIndices s ++
    mms put16 List.length s ++
    putU16le m.vertexDeclarationNum ++ putU16le m.materialNum ++
    [m.numLods, Spec.SqPackData.boolByte m.indexBufferStreaming, Spec.SqPackData.boolByte m.edgeGeometry, 0]

theorem readModelFileBlock_eq (m : ModelMeta) (s : ModelSections) (rest : Bytes) :
    readModelFileBlock (modelBody m s ++ rest) = some (mbOf m s, rest) := by
  simp only [modelBody, readModelFileBlock, mms, modelOffsets, modelIndices, put32, put16,
    List.append_assoc, u32le_put, readMMS32, readMMS16, u16le_put, List.cons_append, List.nil_append,
    u8_cons, skip1_cons, Option.bind_eq_bind, Option.bind_some, boolByte_eq, mbOf]

theorem modelBody_length (m : ModelMeta) (s : ModelSections) : (modelBody m s).length = 196 := by
  simp only [modelBody, mms, modelOffsets, modelIndices, put32, put16, List.length_append,
    putU32le_length, putU16le_length, List.length_cons, List.length_nil]

theorem modelHeader_eq (m : ModelMeta) (s : ModelSections) (rest : Bytes) :
    modelHeader m s ++ rest =
      putU32le (modelHeaderLen s + pad128 (modelHeaderLen s)).toUInt32 ++ (putU32le 3 ++
      (putU32le (68 + conLen s.all).toUInt32 ++ (modelBody m s ++ (sizeTable s.all ++
      (zeros (pad128 (modelHeaderLen s)) ++ rest))))) := by
  have hl : (putU32le (modelHeaderLen s + pad128 (modelHeaderLen s)).toUInt32 ++ putU32le 3 ++
      putU32le (68 + conLen s.all).toUInt32 ++ modelBody m s ++ sizeTable s.all).length = modelHeaderLen s := by
    simp only [List.length_append, putU32le_length, modelBody_length, sizeTable_length, modelHeaderLen]
  have : modelHeader m s = align128 (putU32le (modelHeaderLen s + pad128 (modelHeaderLen s)).toUInt32 ++
      putU32le 3 ++ putU32le (68 + conLen s.all).toUInt32 ++ modelBody m s ++ sizeTable s.all) := by
    simp only [modelHeader, modelBody, List.append_assoc]
  rw [this, align128, hl]
  simp only [List.append_assoc]

theorem modelHeader_length (m : ModelMeta) (s : ModelSections) :
    (modelHeader m s).length = modelHeaderLen s + pad128 (modelHeaderLen s) := by
  have := congrArg List.length (modelHeader_eq m s [])
  simp only [List.append_nil, List.length_append, putU32le_length, modelBody_length, sizeTable_length,
    zeros_length, modelHeaderLen] at this ⊢
  omega

theorem conLen_pos (sec : List Block) (hne : ∀ b ∈ sec, b.data ≠ []) (h : sec ≠ []) : 1 ≤ conLen sec := by
  cases sec with
  | nil => exact absurd rfl h
  | cons b bs =>
    have hb := hne b (by simp)
    simp only [conLen, contents_cons, List.length_append]
    cases hd : b.data with
    | nil => exact absurd hd hb
    | cons x xs => simp only [List.length_cons]; omega

theorem offset_ne (sec : List Block) (hne : ∀ b ∈ sec, b.data ≠ []) (p q : Nat) (hq : q < 4294967296)
    (hpq : p + conLen sec ≤ q) (hp : 68 ≤ p) : q.toUInt32 ≠ (secOffset sec p).toUInt32 := by
  intro h
  have h' := congrArg UInt32.toNat h
  rw [toUInt32_toNat _ hq] at h'
  cases sec with
  | nil =>
    rw [secOffset_nil] at h'
    have h0 : (0 : Nat).toUInt32.toNat = 0 := rfl
    omega
  | cons b bs =>
    rw [secOffset_cons, toUInt32_toNat _ (by omega)] at h'
    have := conLen_pos (b :: bs) hne (by simp)
    omega

theorem writeHeader_eq (m : ModelMeta) (s : ModelSections) :
    writeModelFileHeader
      { version := m.version
        stackSize := (mdlHeaderOf m s).stackSize.toUInt32
        runtimeSize := (mdlHeaderOf m s).runtimeSize.toUInt32
        vertexDeclarationCount := m.vertexDeclarationNum
        materialCount := m.materialNum
        vertexOffsets := ⟨(mdlHeaderOf m s).vertexOffsets.1.toUInt32, (mdlHeaderOf m s).vertexOffsets.2.1.toUInt32,
                          (mdlHeaderOf m s).vertexOffsets.2.2.toUInt32⟩
        indexOffsets := ⟨(mdlHeaderOf m s).indexOffsets.1.toUInt32, (mdlHeaderOf m s).indexOffsets.2.1.toUInt32,
                         (mdlHeaderOf m s).indexOffsets.2.2.toUInt32⟩
        vertexBufferSize := ⟨(mdlHeaderOf m s).vertexBufferSize.1.toUInt32, (mdlHeaderOf m s).vertexBufferSize.2.1.toUInt32,
                             (mdlHeaderOf m s).vertexBufferSize.2.2.toUInt32⟩
        indexBufferSize := ⟨(mdlHeaderOf m s).indexBufferSize.1.toUInt32, (mdlHeaderOf m s).indexBufferSize.2.1.toUInt32,
                            (mdlHeaderOf m s).indexBufferSize.2.2.toUInt32⟩
        lodCount := m.numLods
        indexBufferStreamingEnabled := m.indexBufferStreaming
        hasEdgeGeometry := m.edgeGeometry } = encodeMdlHeader (mdlHeaderOf m s) := by
  simp only [writeModelFileHeader, encodeMdlHeader, putTri, put3, put32, mdlHeaderOf]
  rfl

theorem totalU16_mbOf (m : ModelMeta) (s : ModelSections) (h : s.all.length < 65536) :
    totalU16 (mbOf m s).num = some s.all.length := by
  obtain ⟨st, rt, v0, e0, i0, v1, e1, i1, v2, e2, i2⟩ := s
  simp only [ModelSections.all, List.length_append] at h
  simp only [totalU16, mbOf, ModelSections.all, List.length_append,
    toUInt16_toNat st.length (by omega), toUInt16_toNat rt.length (by omega), toUInt16_toNat v0.length (by omega), toUInt16_toNat e0.length (by omega), toUInt16_toNat i0.length (by omega), toUInt16_toNat v1.length (by omega), toUInt16_toNat e1.length (by omega), toUInt16_toNat i1.length (by omega), toUInt16_toNat v2.length (by omega), toUInt16_toNat e2.length (by omega), toUInt16_toNat i2.length (by omega)]
  rw [if_pos h]

theorem readFromOffset_model (inflate : Inflate) (m : ModelMeta) (s : ModelSections)
    (hwf : modelWf s = true) (hd : ∀ b ∈ s.all, Deflated inflate b) (pre suf : Bytes)
    (hsz : pre.length + (packModel m s).length < 18446744073709551616) :
    readFromOffset inflate (pre ++ packModel m s ++ suf) pre.length = some (some (unpackedModel m s)) := by
  simp only [modelWf, Bool.and_eq_true, List.all_eq_true, decide_eq_true_eq, Bool.not_eq_eq_eq_not,
    Bool.not_true, List.isEmpty_eq_false_iff] at hwf
  obtain ⟨⟨⟨hbs, hcount⟩, hbound⟩, hcon⟩ := hwf
  have hpad := pad128_lt (modelHeaderLen s)
  have hhl := modelHeader_length m s
  have htot := totalU16_mbOf m s hcount
  generalize hW : pre ++ packModel m s ++ suf = whole
  have hdrop : whole.drop pre.length = modelHeader m s ++ (encodeBlocks s.all ++ suf) := by
    rw [← hW, List.append_assoc, List.drop_left, packModel, List.append_assoc]
  have hfi : readFileInfo (whole.drop pre.length) =
      some ({ size := (modelHeaderLen s + pad128 (modelHeaderLen s)).toUInt32,
              fileSize := (68 + conLen s.all).toUInt32, info := .model (mbOf m s) },
            sizeTable s.all ++ (zeros (pad128 (modelHeaderLen s)) ++ (encodeBlocks s.all ++ suf))) := by
    rw [hdrop, modelHeader_eq]
    have h31 : ((3 : UInt32) == 1) = false := by decide
    have h32 : ((3 : UInt32) == 2) = false := by decide
    have h33 : ((3 : UInt32) == 3) = true := by decide
    simp only [readFileInfo, u32le_put, Option.bind_eq_bind, Option.bind_some, h31, h32, h33,
      Bool.false_eq_true, if_false, if_true, readModelFileBlock_eq]
  have hs : (modelHeaderLen s + pad128 (modelHeaderLen s)).toUInt32.toNat = (modelHeader m s).length := by
    rw [toUInt32_toNat _ (by omega), hhl]
  have hstart : whole.drop (pre.length + (modelHeader m s).length) = encodeBlocks s.all ++ suf :=
    drop_add_of_drop hdrop
  have hbytes : bytes (2 * s.all.length)
      (sizeTable s.all ++ (zeros (pad128 (modelHeaderLen s)) ++ (encodeBlocks s.all ++ suf))) =
      some (sizeTable s.all, zeros (pad128 (modelHeaderLen s)) ++ (encodeBlocks s.all ++ suf)) :=
    bytes_append _ _ _ (sizeTable_length s.all)
  simp only [readFromOffset, hfi, readModelFile, htot, hbytes, decodeU16s_sizeTable, hs]
  generalize hB : pre.length + (modelHeader m s).length = base at hstart ⊢
  clear hfi hbytes hs hdrop hW hhl hsz hpad htot
  obtain ⟨st, rt, v0, e0, i0, v1, e1, i1, v2, e2, i2⟩ := s
  simp only [ModelSections.all] at hbs hd hcount hbound hcon hstart
  simp only [List.length_append, encodeBlocks_append, contents_append] at hcount hbound hcon
  simp only [encodeBlocks_append, List.append_assoc] at hstart
  have hsizes : sizesOf (ModelSections.all ⟨st, rt, v0, e0, i0, v1, e1, i1, v2, e2, i2⟩) =
      sizesOf st ++ (sizesOf rt ++ (sizesOf v0 ++ (sizesOf e0 ++ (sizesOf i0 ++ (sizesOf v1 ++ (sizesOf e1 ++ (sizesOf i1 ++ (sizesOf v2 ++ (sizesOf e2 ++ (sizesOf i2 ++ [])))))))))) := by
    simp only [ModelSections.all, sizesOf_append, List.append_assoc, List.append_nil]
  rw [hsizes]
  have mst : ∀ b ∈ st, b.wf = true ∧ Deflated inflate b := fun b h =>
    ⟨(hbs b (by simp [h])).1, hd b (by simp [h])⟩
  have mrt : ∀ b ∈ rt, b.wf = true ∧ Deflated inflate b := fun b h =>
    ⟨(hbs b (by simp [h])).1, hd b (by simp [h])⟩
  have mv0 : ∀ b ∈ v0, b.wf = true ∧ Deflated inflate b := fun b h =>
    ⟨(hbs b (by simp [h])).1, hd b (by simp [h])⟩
  have me0 : ∀ b ∈ e0, b.wf = true ∧ Deflated inflate b := fun b h =>
    ⟨(hbs b (by simp [h])).1, hd b (by simp [h])⟩
  have mi0 : ∀ b ∈ i0, b.wf = true ∧ Deflated inflate b := fun b h =>
    ⟨(hbs b (by simp [h])).1, hd b (by simp [h])⟩
  have mv1 : ∀ b ∈ v1, b.wf = true ∧ Deflated inflate b := fun b h =>
    ⟨(hbs b (by simp [h])).1, hd b (by simp [h])⟩
  have me1 : ∀ b ∈ e1, b.wf = true ∧ Deflated inflate b := fun b h =>
    ⟨(hbs b (by simp [h])).1, hd b (by simp [h])⟩
  have mi1 : ∀ b ∈ i1, b.wf = true ∧ Deflated inflate b := fun b h =>
    ⟨(hbs b (by simp [h])).1, hd b (by simp [h])⟩
  have mv2 : ∀ b ∈ v2, b.wf = true ∧ Deflated inflate b := fun b h =>
    ⟨(hbs b (by simp [h])).1, hd b (by simp [h])⟩
  have me2 : ∀ b ∈ e2, b.wf = true ∧ Deflated inflate b := fun b h =>
    ⟨(hbs b (by simp [h])).1, hd b (by simp [h])⟩
  have mi2 : ∀ b ∈ i2, b.wf = true ∧ Deflated inflate b := fun b h =>
    ⟨(hbs b (by simp [h])).1, hd b (by simp [h])⟩
  have nv0 : ∀ b ∈ v0, b.data ≠ [] := fun b h => (hbs b (by simp [h])).2
  have ne0 : ∀ b ∈ e0, b.data ≠ [] := fun b h => (hbs b (by simp [h])).2
  have ni0 : ∀ b ∈ i0, b.data ≠ [] := fun b h => (hbs b (by simp [h])).2
  have nv1 : ∀ b ∈ v1, b.data ≠ [] := fun b h => (hbs b (by simp [h])).2
  have ne1 : ∀ b ∈ e1, b.data ≠ [] := fun b h => (hbs b (by simp [h])).2
  have ni1 : ∀ b ∈ i1, b.data ≠ [] := fun b h => (hbs b (by simp [h])).2
  have d0 : whole.drop (base + 0) = encodeBlocks st ++ _ := hstart
  have d1 := drop_add_of_drop d0
  rw [Nat.add_assoc] at d1
  have d2 := drop_add_of_drop d1
  rw [Nat.add_assoc] at d2
  have d3 := drop_add_of_drop d2
  rw [Nat.add_assoc] at d3
  have d4 := drop_add_of_drop d3
  rw [Nat.add_assoc] at d4
  have d5 := drop_add_of_drop d4
  rw [Nat.add_assoc] at d5
  have d6 := drop_add_of_drop d5
  rw [Nat.add_assoc] at d6
  have d7 := drop_add_of_drop d6
  rw [Nat.add_assoc] at d7
  have d8 := drop_add_of_drop d7
  rw [Nat.add_assoc] at d8
  have d9 := drop_add_of_drop d8
  rw [Nat.add_assoc] at d9
  have d10 := drop_add_of_drop d9
  rw [Nat.add_assoc] at d10
  simp only [Nat.zero_add] at d1 d2 d3 d4 d5 d6 d7 d8 d9 d10
  have z32 : (0 : Nat).toUInt32.toNat = 0 := rfl
  have r0 := readRun_ok inflate whole st (base + 0) (sizesOf rt ++ (sizesOf v0 ++ (sizesOf e0 ++ (sizesOf i0 ++ (sizesOf v1 ++ (sizesOf e1 ++ (sizesOf i1 ++ (sizesOf v2 ++ (sizesOf e2 ++ (sizesOf i2 ++ [])))))))))) _ mst d0
  have r1 := readRun_ok inflate whole rt _ (sizesOf v0 ++ (sizesOf e0 ++ (sizesOf i0 ++ (sizesOf v1 ++ (sizesOf e1 ++ (sizesOf i1 ++ (sizesOf v2 ++ (sizesOf e2 ++ (sizesOf i2 ++ []))))))))) _ mrt d1
  simp only [mbOf, encLen, z32, toUInt16_toNat st.length (by omega), toUInt16_toNat rt.length (by omega),
    toUInt32_toNat (encodeBlocks st).length (by omega), r0, r1]
  have q2 := processModelData_ok inflate whole base none v0
    ((encodeBlocks st).length + (encodeBlocks rt).length) (contents st ++ contents rt)
    (sizesOf e0 ++ (sizesOf i0 ++ (sizesOf v1 ++ (sizesOf e1 ++ (sizesOf i1 ++ (sizesOf v2 ++ (sizesOf e2 ++ (sizesOf i2 ++ [])))))))) _ mv0 (by omega) (by omega) d2 (fun _ p h => by cases h)
  have q3 := processModelData_ok inflate whole base none e0
    ((encodeBlocks st).length + (encodeBlocks rt).length + (encodeBlocks v0).length) (contents st ++ contents rt ++ contents v0)
    (sizesOf i0 ++ (sizesOf v1 ++ (sizesOf e1 ++ (sizesOf i1 ++ (sizesOf v2 ++ (sizesOf e2 ++ (sizesOf i2 ++ []))))))) _ me0 (by omega) (by omega) d3 (fun _ p h => by cases h)
  have q4 := processModelData_ok inflate whole base none i0
    ((encodeBlocks st).length + (encodeBlocks rt).length + (encodeBlocks v0).length + (encodeBlocks e0).length) (contents st ++ contents rt ++ contents v0 ++ contents e0)
    (sizesOf v1 ++ (sizesOf e1 ++ (sizesOf i1 ++ (sizesOf v2 ++ (sizesOf e2 ++ (sizesOf i2 ++ [])))))) _ mi0 (by omega) (by omega) d4 (fun _ p h => by cases h)
  have q5 := processModelData_ok inflate whole base (some (secOffset v0 (0x44 + (contents st ++ contents rt).length)).toUInt32) v1
    ((encodeBlocks st).length + (encodeBlocks rt).length + (encodeBlocks v0).length + (encodeBlocks e0).length + (encodeBlocks i0).length) (contents st ++ contents rt ++ contents v0 ++ contents e0 ++ contents i0)
    (sizesOf e1 ++ (sizesOf i1 ++ (sizesOf v2 ++ (sizesOf e2 ++ (sizesOf i2 ++ []))))) _ mv1 (by omega) (by omega) d5 (fun _ p h => by
      cases h
      apply offset_ne v0 nv0
      · simp only [List.length_append]; omega
      · simp only [List.length_append, conLen]; omega
      · omega)
  have q6 := processModelData_ok inflate whole base (some (secOffset e0 (0x44 + (contents st ++ contents rt ++ contents v0).length)).toUInt32) e1
    ((encodeBlocks st).length + (encodeBlocks rt).length + (encodeBlocks v0).length + (encodeBlocks e0).length + (encodeBlocks i0).length + (encodeBlocks v1).length) (contents st ++ contents rt ++ contents v0 ++ contents e0 ++ contents i0 ++ contents v1)
    (sizesOf i1 ++ (sizesOf v2 ++ (sizesOf e2 ++ (sizesOf i2 ++ [])))) _ me1 (by omega) (by omega) d6 (fun _ p h => by
      cases h
      apply offset_ne e0 ne0
      · simp only [List.length_append]; omega
      · simp only [List.length_append, conLen]; omega
      · omega)
  have q7 := processModelData_ok inflate whole base (some (secOffset i0 (0x44 + (contents st ++ contents rt ++ contents v0 ++ contents e0).length)).toUInt32) i1
    ((encodeBlocks st).length + (encodeBlocks rt).length + (encodeBlocks v0).length + (encodeBlocks e0).length + (encodeBlocks i0).length + (encodeBlocks v1).length + (encodeBlocks e1).length) (contents st ++ contents rt ++ contents v0 ++ contents e0 ++ contents i0 ++ contents v1 ++ contents e1)
    (sizesOf v2 ++ (sizesOf e2 ++ (sizesOf i2 ++ []))) _ mi1 (by omega) (by omega) d7 (fun _ p h => by
      cases h
      apply offset_ne i0 ni0
      · simp only [List.length_append]; omega
      · simp only [List.length_append, conLen]; omega
      · omega)
  have q8 := processModelData_ok inflate whole base (some (secOffset v1 (0x44 + (contents st ++ contents rt ++ contents v0 ++ contents e0 ++ contents i0).length)).toUInt32) v2
    ((encodeBlocks st).length + (encodeBlocks rt).length + (encodeBlocks v0).length + (encodeBlocks e0).length + (encodeBlocks i0).length + (encodeBlocks v1).length + (encodeBlocks e1).length + (encodeBlocks i1).length) (contents st ++ contents rt ++ contents v0 ++ contents e0 ++ contents i0 ++ contents v1 ++ contents e1 ++ contents i1)
    (sizesOf e2 ++ (sizesOf i2 ++ [])) _ mv2 (by omega) (by omega) d8 (fun _ p h => by
      cases h
      apply offset_ne v1 nv1
      · simp only [List.length_append]; omega
      · simp only [List.length_append, conLen]; omega
      · omega)
  have q9 := processModelData_ok inflate whole base (some (secOffset e1 (0x44 + (contents st ++ contents rt ++ contents v0 ++ contents e0 ++ contents i0 ++ contents v1).length)).toUInt32) e2
    ((encodeBlocks st).length + (encodeBlocks rt).length + (encodeBlocks v0).length + (encodeBlocks e0).length + (encodeBlocks i0).length + (encodeBlocks v1).length + (encodeBlocks e1).length + (encodeBlocks i1).length + (encodeBlocks v2).length) (contents st ++ contents rt ++ contents v0 ++ contents e0 ++ contents i0 ++ contents v1 ++ contents e1 ++ contents i1 ++ contents v2)
    (sizesOf i2 ++ []) _ me2 (by omega) (by omega) d9 (fun _ p h => by
      cases h
      apply offset_ne e1 ne1
      · simp only [List.length_append]; omega
      · simp only [List.length_append, conLen]; omega
      · omega)
  have q10 := processModelData_ok inflate whole base (some (secOffset i1 (0x44 + (contents st ++ contents rt ++ contents v0 ++ contents e0 ++ contents i0 ++ contents v1 ++ contents e1).length)).toUInt32) i2
    ((encodeBlocks st).length + (encodeBlocks rt).length + (encodeBlocks v0).length + (encodeBlocks e0).length + (encodeBlocks i0).length + (encodeBlocks v1).length + (encodeBlocks e1).length + (encodeBlocks i1).length + (encodeBlocks v2).length + (encodeBlocks e2).length) (contents st ++ contents rt ++ contents v0 ++ contents e0 ++ contents i0 ++ contents v1 ++ contents e1 ++ contents i1 ++ contents v2 ++ contents e2)
    ([]) _ mi2 (by omega) (by omega) d10 (fun _ p h => by
      cases h
      apply offset_ne i1 ni1
      · simp only [List.length_append]; omega
      · simp only [List.length_append, conLen]; omega
      · omega)
  simp only [q2, q3, q4, q5, q6, q7, q8, q9, q10]
  simp only [unpackedModel]
  rw [← writeHeader_eq]
  simp only [mdlHeaderOf, ModelSections.all, contents_append, conLen, List.length_append,
    List.append_assoc, Nat.add_assoc]

theorem slice_mid (x y z : Bytes) : slice (x ++ y ++ z) x.length y.length = y := by
  simp [slice, List.append_assoc]

theorem encodeMdlHeader_length (h : MdlHeader) : (encodeMdlHeader h).length = 68 := by
  simp only [encodeMdlHeader, put3, put32, List.length_append, putU32le_length, putU16le_length,
    List.length_cons, List.length_nil]


end Physis.Dat
