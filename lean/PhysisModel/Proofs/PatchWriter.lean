import PhysisModel.Model.PatchWriter
import PhysisModel.Proofs.PatchCreate
/-! The seek-by-seek writer ends with the bytes `Patch.create` states. -/
set_option linter.unusedSimpArgs false
namespace Physis.Patch
open Physis Physis.Fs

theorem writeAt_end (X bs : Bytes) (k : Nat) (h : bs ≠ []) :
    writeAt X (X.length + k) bs = X ++ zeros k ++ bs := by
  have : bs.isEmpty = false := by simpa using h
  have h1 : X.take (X.length + k) = X := List.take_of_length_le (by omega)
  have h2 : X.drop (X.length + k + bs.length) = [] := List.drop_of_length_le (by omega)
  simp [writeAt, this, h1, h2]

theorem writeAt_mid (Y T bs : Bytes) (h : bs ≠ []) :
    writeAt (Y ++ T) Y.length bs = Y ++ bs ++ T.drop bs.length := by
  have : bs.isEmpty = false := by simpa using h
  simp [writeAt, this, zeros]

theorem Cursor.write_end (X bs : Bytes) (k : Nat) (h : bs ≠ []) :
    (Cursor.mk X (X.length + k)).write bs = ⟨X ++ zeros k ++ bs, (X ++ zeros k ++ bs).length⟩ := by
  have : bs.isEmpty = false := by simpa using h
  simp only [Cursor.write, this, Bool.false_eq_true, ↓reduceIte, writeAt_end X bs k h, Cursor.mk.injEq, true_and]
  simp [zeros]; omega

theorem Cursor.write_end0 (X bs : Bytes) (h : bs ≠ []) :
    (Cursor.mk X X.length).write bs = ⟨X ++ bs, (X ++ bs).length⟩ := by
  have := Cursor.write_end X bs 0 h
  simpa [zeros] using this

theorem Cursor.write_mid (Y T bs : Bytes) (h : bs ≠ []) :
    (Cursor.mk (Y ++ T) Y.length).write bs = ⟨Y ++ bs ++ T.drop bs.length, (Y ++ bs).length⟩ := by
  have : bs.isEmpty = false := by simpa using h
  simp only [Cursor.write, this, Bool.false_eq_true, ↓reduceIte, writeAt_mid Y T bs h, Cursor.mk.injEq, true_and]
  simp

/-- the buffer and the pending gap after one added file -/
theorem Cursor.addFile_rep (X : Bytes) (k : Nat) (e : Path × Bytes) (hd : 0 < e.2.length) :
    ∃ Z, (Cursor.mk X (X.length + k)).addFile e = some ⟨Z, Z.length + min e.2.length 4⟩ ∧
      Z ++ zeros (min e.2.length 4) = X ++ zeros k ++ encAdd e := by
  obtain ⟨p, d⟩ := e
  simp only at hd ⊢
  have hdne : d ≠ [] := by intro h; subst h; simp at hd
  generalize hC : fileOpChunk 0x41 d.length (joinSlash p) = C
  have hCne : C ++ [0, 0, 0, 0] ≠ [] := by simp
  generalize hY : X ++ zeros k ++ C = Y
  generalize hL : UInt64.ofNat d.length = L
  -- 1. the chunk with its crc
  have s1 : (Cursor.mk X (X.length + k)).write (C ++ [0, 0, 0, 0]) = ⟨Y ++ [0, 0, 0, 0], Y.length + 4⟩ := by
    rw [Cursor.write_end X _ k hCne, ← hY]; simp; omega
  -- 2. back over the crc
  have s2 : (Cursor.mk (Y ++ [0, 0, 0, 0]) (Y.length + 4)).back4 = some ⟨Y ++ [0, 0, 0, 0], Y.length⟩ := by
    simp [Cursor.back4]
  -- 3. the block
  have s3 : (Cursor.mk (Y ++ [0, 0, 0, 0]) Y.length).writeBlock d =
      ⟨Y ++ (putU32le (pad128 L - L).toUInt32 ++ putU32le 0 ++ putU32le 32000 ++ putU32le L.toUInt32) ++ d ++
        (putU32le L.toUInt32).drop d.length,
       (Y ++ (putU32le (pad128 L - L).toUInt32 ++ putU32le 0 ++ putU32le 32000 ++ putU32le L.toUInt32) ++ d).length⟩ := by
    simp only [Cursor.writeBlock, hL]
    rw [Cursor.write_mid Y [0, 0, 0, 0] _ (by simp [putU32le])]
    have e0 : Y ++ putU32le (pad128 L - L).toUInt32 ++ List.drop (putU32le (pad128 L - L).toUInt32).length [0, 0, 0, 0] =
        Y ++ putU32le (pad128 L - L).toUInt32 := by simp
    rw [e0, Cursor.write_end0 _ _ (by simp [putU32le]), Cursor.write_end0 _ _ (by simp [putU32le]),
      Cursor.write_end0 _ _ (by simp [putU32le]), Cursor.write_end0 _ _ (by simp [putU32le])]
    simp only
    have e1 : (Y ++ putU32le (pad128 L - L).toUInt32 ++ putU32le 0 ++ putU32le 32000 ++ putU32le L.toUInt32 ++
        putU32le L.toUInt32) =
        (Y ++ (putU32le (pad128 L - L).toUInt32 ++ putU32le 0 ++ putU32le 32000 ++ putU32le L.toUInt32)) ++
        putU32le L.toUInt32 := by simp
    have e2 : (Y ++ putU32le (pad128 L - L).toUInt32 ++ putU32le 0 ++ putU32le 32000 ++ putU32le L.toUInt32).length =
        (Y ++ (putU32le (pad128 L - L).toUInt32 ++ putU32le 0 ++ putU32le 32000 ++ putU32le L.toUInt32)).length := by
      simp
    rw [e1, e2, Cursor.write_mid _ _ d hdne]
  refine ⟨Y ++ (putU32le (pad128 L - L).toUInt32 ++ putU32le 0 ++ putU32le 32000 ++ putU32le L.toUInt32) ++ d ++
        (putU32le L.toUInt32).drop d.length, ?_, ?_⟩
  · simp only [Cursor.addFile, hC, s1, s2, Option.bind_eq_bind, Option.bind_some, s3, Cursor.fwd4, Option.pure_def,
      Option.some.injEq, Cursor.mk.injEq, true_and]
    simp only [List.length_append, List.length_drop, putU32le_length]
    omega
  · simp only [encAdd, hC, writeDataBlockPatch, hL, blockGap, ← hY, List.append_assoc]

theorem Cursor.addFiles_rep (l : List (Path × Bytes)) (hl : ∀ e ∈ l, 0 < e.2.length) (X : Bytes) (k : Nat) :
    ∃ Z k', Cursor.addFiles ⟨X, X.length + k⟩ l = some ⟨Z, Z.length + k'⟩ ∧
      Z ++ zeros k' = X ++ zeros k ++ (l.map encAdd).flatten := by
  induction l generalizing X k with
  | nil => exact ⟨X, k, rfl, by simp⟩
  | cons e r ih =>
    obtain ⟨Z1, h1, h2⟩ := Cursor.addFile_rep X k e (hl e (List.mem_cons_self ..))
    obtain ⟨Z, k', h3, h4⟩ := ih (fun x hx => hl x (List.mem_cons_of_mem _ hx)) Z1 (min e.2.length 4)
    refine ⟨Z, k', by simp [Cursor.addFiles, h1, h3], ?_⟩
    rw [h4, h2]; simp

theorem Cursor.delFiles_rep (l : List (Path × Bytes)) (X : Bytes) (k : Nat) :
    ∃ Z k', Cursor.delFiles ⟨X, X.length + k⟩ l = ⟨Z, Z.length + k'⟩ ∧
      Z ++ zeros k' = X ++ zeros k ++ (l.map encDel).flatten := by
  induction l generalizing X k with
  | nil => exact ⟨X, k, rfl, by simp⟩
  | cons e r ih =>
    have hne : fileOpChunk 0x44 0 (joinSlash e.1) ++ [0, 0, 0, 0] ≠ [] := by simp
    obtain ⟨Z, k', h3, h4⟩ := ih (X ++ zeros k ++ (fileOpChunk 0x44 0 (joinSlash e.1) ++ [0, 0, 0, 0])) 0
    refine ⟨Z, k', ?_, ?_⟩
    · simp only [Cursor.delFiles, Cursor.write_end X _ k hne]
      simpa using h3
    · rw [h4]; simp [encDel, zeros]

/-- **the seek-by-seek writer produces `Patch.create`** -/
theorem createSeek_eq (base new : List (Path × Bytes)) : createSeek base new = some (create base new) := by
  have hadd : ∀ e ∈ addedFiles base new, 0 < e.2.length := by
    intro e he
    simp only [addedFiles, List.mem_filter, Bool.and_eq_true, decide_eq_true_eq] at he
    exact he.2.2
  have s0 : (Cursor.mk [] 0).write patchHeader = ⟨patchHeader, patchHeader.length + 0⟩ := by
    have := Cursor.write_end0 [] patchHeader (by simp [patchHeader])
    simpa using this
  obtain ⟨Z1, k1, h1, h2⟩ := Cursor.addFiles_rep (addedFiles base new) hadd patchHeader 0
  obtain ⟨Z2, k2, h3, h4⟩ := Cursor.delFiles_rep (removedFiles base new) Z1 k1
  have s3 := Cursor.write_end Z2 eofChunk k2 (by simp [eofChunk, putU32be])
  have e1 : encAdd = fun e => fileOpChunk 0x41 e.2.length (joinSlash e.1) ++ writeDataBlockPatch e.2 ++ blockGap e.2 := rfl
  have e2 : encDel = fun e => fileOpChunk 0x44 0 (joinSlash e.1) ++ [0, 0, 0, 0] := rfl
  simp only [createSeek, s0, Option.bind_eq_bind, h1, Option.bind_some, h3, s3, Option.pure_def, Option.some.injEq]
  rw [h4, h2, e1, e2]
  simp [create, zeros]

end Physis.Patch
