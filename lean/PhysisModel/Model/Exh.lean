import PhysisModel.Base.ParserBE
/-!
Model of `src/exh.rs` (`EXHHeader`, `ColumnDataType`, `ExcelColumnDefinition`,
`ExcelDataPagination`, `EXH`, `EXH::from_existing`) and of `Language` / `get_language_code`
(`src/common.rs`).  Field order, widths and padding as in the binrw declarations (big-endian).
-/
namespace Physis.Exh
open Physis Physis.ParserBE

/-- `ColumnDataType` (`#[brw(repr(u16))]`) -/
inductive ColumnDataType
  | string | bool | int8 | uint8 | int16 | uint16 | int32 | uint32 | float32 | int64 | uint64
  | packedBool0 | packedBool1 | packedBool2 | packedBool3 | packedBool4 | packedBool5
  | packedBool6 | packedBool7
  deriving DecidableEq, Repr

def ColumnDataType.all : List ColumnDataType :=
  [.string, .bool, .int8, .uint8, .int16, .uint16, .int32, .uint32, .float32, .int64, .uint64,
   .packedBool0, .packedBool1, .packedBool2, .packedBool3, .packedBool4, .packedBool5,
   .packedBool6, .packedBool7]

/-- the discriminants written in the enum declaration -/
def ColumnDataType.code : ColumnDataType → UInt16
  | .string => 0x0 | .bool => 0x1 | .int8 => 0x2 | .uint8 => 0x3 | .int16 => 0x4 | .uint16 => 0x5
  | .int32 => 0x6 | .uint32 => 0x7 | .float32 => 0x9 | .int64 => 0xA | .uint64 => 0xB
  | .packedBool0 => 0x19 | .packedBool1 => 0x1A | .packedBool2 => 0x1B | .packedBool3 => 0x1C
  | .packedBool4 => 0x1D | .packedBool5 => 0x1E | .packedBool6 => 0x1F | .packedBool7 => 0x20

def ColumnDataType.name : ColumnDataType → String
  | .string => "String" | .bool => "Bool" | .int8 => "Int8" | .uint8 => "UInt8" | .int16 => "Int16"
  | .uint16 => "UInt16" | .int32 => "Int32" | .uint32 => "UInt32" | .float32 => "Float32"
  | .int64 => "Int64" | .uint64 => "UInt64"
  | .packedBool0 => "PackedBool0" | .packedBool1 => "PackedBool1" | .packedBool2 => "PackedBool2"
  | .packedBool3 => "PackedBool3" | .packedBool4 => "PackedBool4" | .packedBool5 => "PackedBool5"
  | .packedBool6 => "PackedBool6" | .packedBool7 => "PackedBool7"

/-- binrw `repr` read: first variant whose discriminant equals the raw value -/
def ColumnDataType.ofCode (c : UInt16) : Option ColumnDataType :=
  ColumnDataType.all.find? (fun t => t.code == c)

/-- `Language` (`#[brw(repr(u8))]`, discriminants 0..7 in declaration order) -/
inductive Language
  | None | Japanese | English | German | French | ChineseSimplified | ChineseTraditional | Korean
  deriving DecidableEq, Repr

def Language.all : List Language :=
  [.None, .Japanese, .English, .German, .French, .ChineseSimplified, .ChineseTraditional, .Korean]

def Language.code : Language → UInt8
  | .None => 0 | .Japanese => 1 | .English => 2 | .German => 3 | .French => 4
  | .ChineseSimplified => 5 | .ChineseTraditional => 6 | .Korean => 7

def Language.ofCode (c : UInt8) : Option Language := Language.all.find? (fun l => l.code == c)

/-- `get_language_code` (ASCII bytes) -/
def getLanguageCode : Language → Bytes
  | .None => [] | .Japanese => [0x6a, 0x61] | .English => [0x65, 0x6e] | .German => [0x64, 0x65]
  | .French => [0x66, 0x72] | .ChineseSimplified => [0x63, 0x68, 0x73]
  | .ChineseTraditional => [0x63, 0x68, 0x74] | .Korean => [0x6b, 0x6f]

structure EXHHeader where
  version : UInt16
  dataOffset : UInt16
  columnCount : UInt16
  pageCount : UInt16
  languageCount : UInt16
  rowCount : UInt32
  deriving DecidableEq, Repr

structure ExcelColumnDefinition where
  dataType : ColumnDataType
  offset : UInt16
  deriving DecidableEq, Repr

structure ExcelDataPagination where
  startId : UInt32
  rowCount : UInt32
  deriving DecidableEq, Repr

structure EXH where
  header : EXHHeader
  columnDefinitions : List ExcelColumnDefinition
  pages : List ExcelDataPagination
  languages : List Language
  deriving DecidableEq, Repr

def exhMagic : Bytes := [0x45, 0x58, 0x48, 0x46]   -- b"EXHF"

def pHeader : P EXHHeader := do
  magic exhMagic
  let version ← u16be
  let dataOffset ← u16be
  let columnCount ← u16be
  let pageCount ← u16be
  let languageCount ← u16be
  skip 6                      -- pad_before = 6
  let rowCount ← u32be
  skip 8                      -- pad_after = 8
  pure { version, dataOffset, columnCount, pageCount, languageCount, rowCount }

def pColumn : P ExcelColumnDefinition := do
  let dataType ← tryMap u16be ColumnDataType.ofCode
  let offset ← u16be
  pure { dataType, offset }

def pPage : P ExcelDataPagination := do
  let startId ← u32be
  let rowCount ← u32be
  pure { startId, rowCount }

def pLanguage : P Language := tryMap u8 Language.ofCode

def pExh : P EXH := do
  let header ← pHeader
  let columnDefinitions ← count pColumn header.columnCount.toNat
  let pages ← count pPage header.pageCount.toNat
  let languages ← count pLanguage header.languageCount.toNat
  pure { header, columnDefinitions, pages, languages }

/-- `EXH::from_existing` -/
def fromExisting (buffer : Bytes) : Option EXH := (pExh buffer).map (·.1)

end Physis.Exh
