import PhysisModel.Model.MsCommon
import PhysisModel.Spec.Mtrl
/-!
Model of `src/mtrl.rs`: the binrw grammar of `MaterialData` (read order, widths, the calculated
table flags, `parse_color_table` / `parse_color_dye_table`) and `Material::from_existing`
(sequential texture-path scan, shader-package name, constant slicing).  Result types are the
decoded structures of `Spec/Mtrl.lean` (plain data).
-/
namespace Physis.Mtrl
open Physis.MsCommon Physis.Generated
open Physis.Spec.Mtrl (ShaderKey Constant Sampler LegacyColorTableRow DawntrailColorTableRow ColorTable
  LegacyColorDyeTableRow DawntrailColorDyeTableRow ColorDyeTable Material)

structure MaterialFileHeader where
  version : UInt32
  fileSize : UInt16
  dataSetSize : UInt16
  stringTableSize : UInt16
  shaderPackageNameOffset : UInt16
  textureCount : UInt8
  uvSetCount : UInt8
  colorSetCount : UInt8
  additionalDataSize : UInt8

def materialFileHeader : P MaterialFileHeader := do
  let version ← u32
  let fileSize ← u16
  let dataSetSize ← u16
  let stringTableSize ← u16
  let shaderPackageNameOffset ← u16
  let textureCount ← u8
  let uvSetCount ← u8
  let colorSetCount ← u8
  let additionalDataSize ← u8
  pure { version, fileSize, dataSetSize, stringTableSize, shaderPackageNameOffset, textureCount,
         uvSetCount, colorSetCount, additionalDataSize }

structure MaterialHeader where
  shaderValueListSize : UInt16
  shaderKeyCount : UInt16
  constantCount : UInt16
  samplerCount : UInt16
  flags : UInt32

def materialHeader : P MaterialHeader := do
  let shaderValueListSize ← u16
  let shaderKeyCount ← u16
  let constantCount ← u16
  let samplerCount ← u16
  let flags ← u32
  pure { shaderValueListSize, shaderKeyCount, constantCount, samplerCount, flags }

structure ColorSet where
  nameOffset : UInt16
  index : UInt16

def colorSet : P ColorSet := do
  let nameOffset ← u16
  let index ← u16
  pure { nameOffset, index }

def legacyColorTableRow : P LegacyColorTableRow := do
  let diffuseColor ← half3
  let specularStrength ← half1
  let specularColor ← half3
  let glossStrength ← half1
  let emissiveColor ← half3
  let tileSet ← u16
  let materialRepeat ← half2
  let materialSkew ← half2
  pure { diffuseColor, specularStrength, specularColor, glossStrength, emissiveColor, tileSet,
         materialRepeat, materialSkew }

def dawntrailColorTableRow : P DawntrailColorTableRow := do
  let diffuseColor ← half3
  let unknown1 ← half1
  let specularColor ← half3
  let unknown2 ← half1
  let emissiveColor ← half3
  let unknown3 ← half1
  let sheenRate ← half1
  let sheenTint ← half1
  let sheenAperture ← half1
  let unknown4 ← half1
  let roughness ← half1
  let unknown5 ← half1
  let metalness ← half1
  let anisotropy ← half1
  let unknown6 ← half1
  let sphereMask ← half1
  let unknown7 ← half1
  let unknown8 ← half1
  let shaderIndex ← u16
  let tileSet ← u16
  let tileAlpha ← half1
  let sphereIndex ← u16
  let materialRepeat ← half2
  let materialSkew ← half2
  pure { diffuseColor, unknown1, specularColor, unknown2, emissiveColor, unknown3, sheenRate,
         sheenTint, sheenAperture, unknown4, roughness, unknown5, metalness, anisotropy, unknown6,
         sphereMask, unknown7, unknown8, shaderIndex, tileSet, tileAlpha, sphereIndex,
         materialRepeat, materialSkew }

def legacyColorDyeTableRow : P LegacyColorDyeTableRow := do
  let data ← u16
  pure { template := data >>> 5
         diffuse := (data &&& 0x01) != 0
         specular := (data &&& 0x02) != 0
         emissive := (data &&& 0x04) != 0
         gloss := (data &&& 0x08) != 0
         specularStrength := (data &&& 0x10) != 0 }

def dawntrailColorDyeTableRow : P DawntrailColorDyeTableRow := do
  let data ← u32
  pure { template := ((data >>> 16) &&& 0x7FF).toUInt16
         channel := ((data >>> 27) &&& 0x3).toUInt8
         diffuse := (data &&& 0x0001) != 0
         specular := (data &&& 0x0002) != 0
         emissive := (data &&& 0x0004) != 0
         scalar3 := (data &&& 0x0008) != 0
         metalness := (data &&& 0x0010) != 0
         roughness := (data &&& 0x0020) != 0
         sheenRate := (data &&& 0x0040) != 0
         sheenTintRate := (data &&& 0x0080) != 0
         sheenAperture := (data &&& 0x0100) != 0
         anisotropy := (data &&& 0x0200) != 0
         sphereMapIndex := (data &&& 0x0400) != 0
         sphereMapMask := (data &&& 0x0800) != 0 }

/-- `parse_color_table` -/
def parseColorTable (tableDimensionLogs : UInt8) : P (Option ColorTable) :=
  if tableDimensionLogs == 0 || tableDimensionLogs == 0x42 then do
    let rows ← count legacyColorTableRow 16
    pure (some (.legacy rows))
  else if tableDimensionLogs == 0x53 then do
    let rows ← count dawntrailColorTableRow 32
    pure (some (.dawntrail rows))
  else pure (some .opaque)

/-- `parse_color_dye_table` -/
def parseColorDyeTable (tableDimensionLogs : UInt8) : P (Option ColorDyeTable) :=
  if tableDimensionLogs == 0 then do
    let rows ← count legacyColorDyeTableRow 16
    pure (some (.legacy rows))
  else if 0x50 ≤ tableDimensionLogs && tableDimensionLogs ≤ 0x5F then do
    let rows ← count dawntrailColorDyeTableRow 32
    pure (some (.dawntrail rows))
  else pure (some .opaque)

/-- `#[br(if(has_table))] #[br(parse_with = parse_color_table)] #[br(args(table_dimension_logs))]` -/
def optColorTable (hasTable : Bool) (tableDimensionLogs : UInt8) : P (Option ColorTable) :=
  if hasTable then parseColorTable tableDimensionLogs else pure none

/-- `#[br(if(has_dye_table))] #[br(parse_with = parse_color_dye_table)]` -/
def optColorDyeTable (hasDyeTable : Bool) (tableDimensionLogs : UInt8) : P (Option ColorDyeTable) :=
  if hasDyeTable then parseColorDyeTable tableDimensionLogs else pure none

def shaderKey : P ShaderKey := do
  let category ← u32
  let value ← u32
  pure { category, value }

structure ConstantStruct where
  constantId : UInt32
  valueOffset : UInt16
  valueSize : UInt16

def constantStruct : P ConstantStruct := do
  let constantId ← u32
  let valueOffset ← u16
  let valueSize ← u16
  pure { constantId, valueOffset, valueSize }

/-- `TextureUsage::read`: the variants are tried in declaration order, each comparing the `u32`
magic; no match is an error -/
def textureUsage : P Nat := do
  let m ← u32
  match textureUsageMagics.idxOf? m with
  | some i => pure i
  | none => failP

def sampler : P Sampler := do
  let textureUsage ← textureUsage
  let flags ← u32
  let textureIndex ← u8
  let unknown1 ← u8
  let unknown2 ← u8
  let unknown3 ← u8
  pure { textureUsage, flags, textureIndex, unknown1, unknown2, unknown3 }

/-- `table_flags`: `count = additional_data_size`, `pad_size_to = 4`,
`map = |x| u32::from_le_bytes(x[0..4].try_into().unwrap())` — the slice panics below 4 bytes -/
def tableFlags (additionalDataSize : UInt8) : P UInt32 := do
  let x ← take additionalDataSize.toNat
  match x with
  | a :: b :: c :: d :: _ =>
    pure (a.toUInt32 ||| (b.toUInt32 <<< 8) ||| (c.toUInt32 <<< 16) ||| (d.toUInt32 <<< 24))
  | _ => panicP

structure MaterialData where
  fileHeader : MaterialFileHeader
  offsets : List UInt32
  uvColorSets : List ColorSet
  colorSets : List ColorSet
  strings : Bytes
  tableFlags : UInt32
  colorTable : Option ColorTable
  colorDyeTable : Option ColorDyeTable
  header : MaterialHeader
  shaderKeys : List ShaderKey
  constants : List ConstantStruct
  samplers : List Sampler
  shaderValues : List UInt32

/-- `MaterialData::read` -/
def materialData : P MaterialData := do
  let fileHeader ← materialFileHeader
  let offsets ← count u32 fileHeader.textureCount.toNat
  let uvColorSets ← count colorSet fileHeader.uvSetCount.toNat
  let colorSets ← count colorSet fileHeader.colorSetCount.toNat
  let strings ← take fileHeader.stringTableSize.toNat
  let tableFlags ← tableFlags fileHeader.additionalDataSize
  let hasTable := (tableFlags &&& 0x4) != 0
  let hasDyeTable := (tableFlags &&& 0x8) != 0
  let tableDimensionLogs := (tableFlags >>> 4).toUInt8
  let colorTable ← optColorTable hasTable tableDimensionLogs
  let colorDyeTable ← optColorDyeTable hasDyeTable tableDimensionLogs
  let header ← materialHeader
  let shaderKeys ← count shaderKey header.shaderKeyCount.toNat
  let constants ← count constantStruct header.constantCount.toNat
  let samplers ← count sampler header.samplerCount.toNat
  let shaderValues ← count u32 (header.shaderValueListSize / 4).toNat
  pure { fileHeader, offsets, uvColorSets, colorSets, strings, tableFlags, colorTable, colorDyeTable,
         header, shaderKeys, constants, samplers, shaderValues }

/-- `let mut next_char = strings[offset] as char; while next_char != '\0' { string.push(next_char);
offset += 1; next_char = strings[offset] as char; }` on `strings[offset..]`: the string and the
number of bytes before the NUL; indexing past the end panics -/
def scanString : Bytes → Except Err (Bytes × Nat)
  | [] => .error .panic
  | b :: r =>
    if b == 0 then .ok ([], 0) else
    match scanString r with
    | .ok (s, n) => .ok (latin1Push b ++ s, n + 1)
    | .error e => .error e

/-- the `for _ in 0..texture_count` loop, on `strings[offset..]` -/
def texturePaths : Nat → Bytes → Except Err (List Bytes)
  | 0, _ => .ok []
  | n + 1, rest =>
    match scanString rest with
    | .error e => .error e
    | .ok (s, k) =>
      match texturePaths n (rest.drop (k + 1)) with
      | .ok l => .ok (s :: l)
      | .error e => .error e

/-- one iteration of `for constant in mat_data.constants`: `values[i] = shader_values[off/4 + i]`
for `i < value_size / 4`; both indexings panic when out of range -/
def constantOf (shaderValues : List UInt32) (c : ConstantStruct) : Except Err Constant :=
  let numFloats := c.valueSize / 4
  let got := (shaderValues.drop (c.valueOffset.toNat / 4)).take numFloats.toNat
  if numFloats.toNat > 4 || got.length < numFloats.toNat then .error .panic
  else .ok { id := c.constantId, numValues := numFloats.toUInt32
             values := got ++ List.replicate (4 - numFloats.toNat) 0 }

def constantsOf (shaderValues : List UInt32) : List ConstantStruct → Except Err (List Constant)
  | [] => .ok []
  | c :: r =>
    match constantOf shaderValues c with
    | .error e => .error e
    | .ok k =>
      match constantsOf shaderValues r with
      | .ok l => .ok (k :: l)
      | .error e => .error e

/-- `Material::from_existing` -/
def fromExisting (buffer : Bytes) : Except Err Material :=
  match materialData buffer with
  | .error e => .error e
  | .ok (matData, _) =>
    match texturePaths matData.fileHeader.textureCount.toNat matData.strings with
    | .error e => .error e
    | .ok texturePaths =>
      match scanString (matData.strings.drop matData.fileHeader.shaderPackageNameOffset.toNat) with
      | .error e => .error e
      | .ok (shaderPackageName, _) =>
        match constantsOf matData.shaderValues matData.constants with
        | .error e => .error e
        | .ok constants =>
          .ok { shaderPackageName, texturePaths, shaderKeys := matData.shaderKeys, constants,
                samplers := matData.samplers, colorTable := matData.colorTable,
                colorDyeTable := matData.colorDyeTable }

end Physis.Mtrl
