import PhysisModel.Base.ParserA
import PhysisModel.Base.ParserAPbc
/-!
# `LayerGroup::from_existing` (`src/layer/mod.rs` + `src/layer/*.rs`, as repaired by `fixes/C18-65`,
`C18-68`, `C18-69`)

```
LgbHeader { file_id: u32, file_size: i32, total_chunk_count: i32 }      file_size, count > 0 or None
chunk_string_heap = StringHeap::from(position + 8)                      // = 20
LayerChunkHeader { chunk_id, chunk_size: i32, layer_group_id, name: HeapString, layer_offset, layer_count: i32 }
chunk_size > 0 or None;  old_pos = 36
layer_count validated against the remaining input, vec![0i32; layer_count], the offsets
for each layer: seek(old_pos.checked_add_signed(off)?), LayerHeader (name: HeapString at layer start,
   layer_set_referenced_list: read through the data heap at layer start + offset, position restored),
   instance count validated, vec![0i32; n], offsets, every InstanceObject at
   layer + instance_object_offset + offsets[i], then the two ob-set lists.
```
`HeapString`: `offset: u32`, then `try_calc = heap.read_string(r, offset)`: seek to `heap.pos + offset`,
bytes up to a NUL, seek back — it succeeds iff there is a NUL at or behind that position, and leaves
the cursor where it was (`heapString`).  `string_from_offset(start)` (instance object names) reads
its u32, seeks to `start + offset` and back to `start` (sic), and reads to a NUL from `start`: same shape.
Strings grow a character at a time and are not input-sized requests.

Every instance object variant is a fixed sequence of plain fields and `repr = i32` enums (`Item`).
A data enum with `pre_assert`s tries the variants in order; a failing selected variant ends in an
error just as "no variant selected" does.
-/
namespace Physis.C18Lgb
open Physis Physis.A

/-- `u64.checked_add_signed(off as i64)` for a base below 2^63 -/
def addSigned (base : Nat) (off : UInt32) : Option Nat :=
  let v : Int := (base : Int) + i32Val off
  if v < 0 then none else if v.toNat > U64MAX then none else some v.toNat

/-- `(pos as i64 + off as i64) as u64` -/
def wrapSigned (base : Nat) (off : UInt32) : Nat :=
  let v : Int := (base : Int) + i32Val off
  if v < 0 then (v + 18446744073709551616).toNat else v.toNat

@[inline] def withSome {α β : Type} (o : Option α) (f : α → P β) : P β :=
  match o with
  | none => P.failP
  | some a => f a

/-- a NUL-terminated string read at an absolute position with the cursor restored -/
@[inline] def heapString (at_ : Nat) : P Unit := fun w s =>
  if (w.drop at_).contains 0 then .ok ((), s) else .eof

/-- `remaining = len.saturating_sub(position); if n * sz > remaining { return None }; vec![0; n]` -/
@[inline] def vecGuard (n sz : Nat) : P Unit := fun w s =>
  if n * sz > w.length - s.pos then .fail else ⟨.ok ((), s), n * sz⟩

/-- `#[brw(repr = i32)]` enum -/
def i32Enum (ok : Nat → Bool) : P Nat := do
  let v ← P.u32le
  if ok v.toNat then pure v.toNat else P.failP

/-- `LayerEntryType`: 0..=0x50 and 90 -/
def entryTypeOk (v : Nat) : Bool := v ≤ 0x50 || v == 90

inductive Item
  | raw (n : Nat)              -- plain fields, `n` bytes in all
  | enum (vals : List Nat)     -- a `repr = i32` enum

def item : Item → P Unit
  | .raw n => do let _ ← P.bytes n; pure ()
  | .enum vals => do let _ ← i32Enum (fun v => vals.contains v); pure ()

/-- the fields of `LayerEntryData`'s variant selected by the asset type; `none`: no variant -/
def variant (t : Nat) : Option (List Item) :=
  if t == 0x1 then some [.raw 8, .enum [0, 1, 2], .raw 20]                                      -- BG
  else if t == 0x3 then some [.enum [0, 1, 2, 3, 4, 5, 6], .raw 8, .enum [0, 1], .raw 43]        -- LayLight
  else if t == 0x4 then some [.raw 40]                                                           -- Vfx
  else if t == 0x5 then some [.enum [1, 2, 3, 4], .raw 8]                                        -- PositionMarker
  else if t == 0x6 then
    some [.raw 4, .enum [1, 2, 3], .raw 8, .enum [1, 2], .raw 16, .enum [0, 1, 2, 3], .enum [0, 1, 2, 3]]
  else if t == 0x7 then some [.raw 8]                                                            -- Sound
  else if t == 0x8 then some [.raw 40]                                                           -- EventNPC
  else if t == 0x9 then some [.raw 104]                                                          -- BattleNPC
  else if t == 0xC then some [.raw 12]                                                           -- Aetheryte
  else if t == 0xD then some [.raw 8, .enum [1, 2, 3], .raw 24]                                  -- EnvSet
  else if t == 0xE then some [.raw 8]                                                            -- Gathering
  else if t == 0x10 then some [.raw 12]                                                          -- Treasure
  else if t == 0x28 then some [.enum [1, 2, 3], .raw 20]                                         -- PopRange
  else if t == 0x29 then some [.enum [1, 2, 3, 4, 5, 6], .raw 8, .enum [1], .raw 24]             -- ExitRange
  else if [0x2B, 0x2D, 0x2F, 0x31, 0x33, 0x39, 0x3B, 0x41, 0x42, 0x43, 0x44, 0x45, 0x47, 0x48, 90].contains t then
    some []                                                                                      -- empty structs, Unk1
  else none

def instanceObject (layer : Nat) (instOff : UInt32) (off : UInt32) : P Unit :=
  withSome ((addSigned layer instOff).bind (fun p => addSigned p off)) fun start => do
    P.seekStart start
    let t ← i32Enum entryTypeOk
    let _id ← P.u32le
    let _nameOff ← P.u32le
    heapString start                      -- `string_from_offset(start)`
    let _transform ← P.bytes 36
    withSome (variant t) fun items => P.each items item

/-- `LayerSetReferencedList` read through the data heap -/
def layerSetList : P Unit := do
  let _ ← i32Enum (fun v => v ≤ 3)
  let _off ← P.u32le
  let n ← P.u32le
  if n.toNat ≥ 2147483648 then P.failP else do   -- `count = layer_set_count`: negative → AssertFail
  let _ ← P.count n.toNat P.u32le
  pure ()

/-- `count` validated, the table allocated, `count` i32 offsets read -/
def offsetTable (count : UInt32) : P (List UInt32) := do
  if count.toNat ≥ 2147483648 then P.failP else do
  vecGuard count.toNat 4
  P.count count.toNat P.u32le

/-- `for _ in 0..n` over an i32 -/
def loopCount (n : UInt32) : Nat := if n.toNat ≥ 2147483648 then 0 else n.toNat

def obSetRef : P Unit := do
  let _ ← i32Enum entryTypeOk
  let _ ← P.bytes 8
  pure ()

def obSetEnableRef : P Unit := do
  let _ ← i32Enum entryTypeOk
  let _ ← P.bytes 8
  pure ()

/-- `LayerHeader` up to `version_mask`; returns (instance_object_offset, instance_object_count) -/
def layerHead (ls : Nat) : P (UInt32 × UInt32) := do
  let _id ← P.u32le
  let nameOff ← P.u32le
  heapString (ls + nameOff.toNat)
  let instOff ← P.u32le
  let instCount ← P.u32le
  let _bools ← P.bytes 4
  let lsrOff ← P.u32le
  P.restorePosition (do P.seekStart (wrapSigned ls lsrOff); layerSetList)
  let _festival ← P.bytes 8
  pure (instOff, instCount)

/-- the rest of `LayerHeader`: `pad_before = 4`, the two ob-set lists (offset, count) -/
def layerRefs : P ((UInt32 × UInt32) × (UInt32 × UInt32)) := do
  P.skip 4
  let obSet ← P.u32le
  let obSetCount ← P.u32le
  let obEn ← P.u32le
  let obEnCount ← P.u32le
  pure ((obSet, obSetCount), (obEn, obEnCount))

def refList (ls : Nat) (r : UInt32 × UInt32) (p : P Unit) : P Unit :=
  withSome (addSigned ls r.1) fun q => do
    P.seekStart q
    let _ ← P.count (loopCount r.2) p
    pure ()

def layer (off : UInt32) : P Unit :=
  withSome (addSigned 36 off) fun ls => do
    P.seekStart ls
    let h ← layerHead ls
    let r ← layerRefs
    let offs ← offsetTable h.2
    P.each offs (instanceObject ls h.1)
    refList ls r.1 obSetRef
    refList ls r.2 obSetEnableRef

def reader : P Unit := do
  let _fileId ← P.u32le
  let fileSize ← P.u32le
  let chunkCount ← P.u32le
  if i32Val fileSize ≤ 0 || i32Val chunkCount ≤ 0 then P.failP else do
  let _chunkId ← P.u32le
  let chunkSize ← P.u32le
  let _groupId ← P.u32le
  let nameOff ← P.u32le
  heapString (20 + nameOff.toNat)
  let _layerOffset ← P.u32le
  let layerCount ← P.u32le
  if i32Val chunkSize ≤ 0 then P.failP else do
  let offs ← offsetTable layerCount
  P.each offs layer

def fromExisting (b : Bytes) : Res Unit := P.run reader b

end Physis.C18Lgb
