import PhysisModel.Base.ReaderC16
/-!
Model of `src/cmp.rs` `CMP::from_existing`: seek to 0x2a800, `rem = len - pos` (usize subtraction:
panics on a shorter buffer in the checked profile), `entries = rem / 56`, then `entries` reads of
`RacialScalingParameters` (14 × f32, little endian); a failed read returns `None`.
-/
namespace Physis.Cmp

/-- `size_of::<RacialScalingParameters>()` : 14 f32, repr(C) -/
def rowSize : Nat := 56

/-- one `RacialScalingParameters::read` -/
def readRow (b : Bytes) : Option (List UInt32 × Bytes) := Rd.u32s 14 b

/-- `for _ in 0..entries { parameters.push(read(&mut cursor).ok()?) }` -/
def readRows : Nat → Bytes → Option (List (List UInt32))
  | 0, _ => some []
  | n + 1, b =>
    match readRow b with
    | some (row, r) => (readRows n r).map (row :: ·)
    | none => none

def fromExisting (buffer : Bytes) : Outcome (List (List UInt32)) :=
  -- cursor.seek(SeekFrom::Start(0x2a800)) always succeeds on a Cursor
  let pos := 0x2a800
  -- let rem = buffer.len() - cursor.position() as usize;
  if buffer.length < pos then .panic else
  let rem := buffer.length - pos
  let entries := rem / rowSize
  match readRows entries (Rd.seekTo buffer pos) with
  | some rows => .ok rows
  | none => .none

end Physis.Cmp
