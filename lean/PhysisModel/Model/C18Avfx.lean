import PhysisModel.Base.ParserA
import PhysisModel.Base.ParserAPbc
/-!
# `Avfx::from_existing` (`src/avfx.rs`, as repaired by `fixes/C18-61` and `C18-62`)

```
let header = AvfxHeader::read(&mut cursor).ok()?;            // name: u32, size: u32
while cursor.position() < header.size as u64 {
    let block = AvfxBlock::read(&mut cursor).ok()?;          // tag (unit enum, 4-byte magics) + size
    match block.data { no payload | read_bool? | read_uint? / read_float? | unimplemented => return None }
    let read_bytes = (new_pos - last_pos) - 8;               // 0, 1 or 4
    let padding = (block.size as u64).checked_sub(read_bytes)?;
    cursor.seek(SeekFrom::Current(padding as i64)).ok()?;
}
```
`AvfxBlock` is `{ #[br(pad_before = 4)] size: u32, #[br(seek_before = Current(-8), pad_after = 4)] data }`:
it skips the tag, reads the size, seeks back 8 bytes, reads the tag and skips the size again — the
same 8-byte window read as `tag, size`; it fails when fewer than 8 bytes remain or no variant's
magic matches, and leaves the cursor 8 bytes further.  The model reads the window front to back.

At the pinned commit every read was `unwrap()`ed, `block.size - read_bytes` was unchecked and 16
block kinds ended in `todo!()` (`fromExistingUnfixed`).
-/
namespace Physis.C18Avfx
open Physis Physis.A

inductive Kind
  | unit   -- `AvfxBase`: no payload
  | bool   -- one byte
  | word   -- u32 / f32
  | todo   -- unimplemented block kinds
  deriving DecidableEq, Repr

/-- the 71 tags of `AvfxData` (as big-endian numbers of their four bytes) with the payload kind the
`match` of `from_existing` reads; extracted from `src/avfx.rs` -/
def table : List (Nat × Kind) :=
  [(0x58465641, .unit), (0x72655600, .word), (0x50464462, .bool), (0x47466200, .bool), (0x53546200, .bool),
   (0x48534162, .bool), (0x43424362, .bool), (0x6C754362, .bool), (0x78504243, .word), (0x79504243, .word),
   (0x7A504243, .word), (0x78534243, .word), (0x79534243, .word), (0x7A534243, .word), (0x734D425A, .word),
   (0x644D425A, .word), (0x536D4362, .bool), (0x4C454662, .bool), (0x74534F62, .bool), (0x42434E00, .word),
   (0x45434E00, .word), (0x42434600, .word), (0x45434600, .word), (0x52465053, .word), (0x4F4B5300, .word),
   (0x794C7744, .word), (0x544F7744, .word), (0x54534C44, .word), (0x53314C50, .word), (0x53324C50, .word),
   (0x78507652, .word), (0x79507652, .word), (0x7A507652, .word), (0x78527652, .word), (0x79527652, .word),
   (0x7A527652, .word), (0x78537652, .word), (0x79537652, .word), (0x7A537652, .word), (0x52765200, .word),
   (0x47765200, .word), (0x42765200, .word), (0x65584641, .bool), (0x69584641, .word), (0x6F584641, .word),
   (0x65594641, .bool), (0x69594641, .word), (0x6F594641, .word), (0x655A4641, .bool), (0x695A4641, .word),
   (0x6F5A4641, .word), (0x45464762, .bool), (0x4D494647, .word), (0x53474162, .bool), (0x53544C62, .bool),
   (0x6E436353, .todo), (0x6E436C54, .todo), (0x6E436D45, .todo), (0x6E437250, .todo), (0x6E436645, .todo),
   (0x6E436442, .todo), (0x6E437854, .todo), (0x6E43644D, .todo), (0x64686353, .todo), (0x6E4C6D54, .todo),
   (0x74696D45, .todo), (0x6C637450, .todo), (0x74636645, .todo), (0x646E6942, .todo), (0x78655400, .todo),
   (0x6C646F4D, .todo)]

def kindOf (tag : Nat) : Option Kind := (table.find? (fun e => e.1 == tag)).map (·.2)

/-- `padding = block.size.checked_sub(read_bytes)?; seek(Current(padding))` -/
def skipPad (size read : Nat) : P Unit := if size < read then P.failP else P.skip (size - read)

/-- what follows the tag: the size, the payload, the padding -/
def afterTag (tag : UInt32) : P Unit := do
  let size ← P.u32le
  match kindOf tag.toNat with
  | none => P.failP                       -- no variant matches: `AvfxBlock::read` fails
  | some .todo => P.failP                 -- `return None`
  | some .unit => skipPad size.toNat 0
  | some .bool => do let _ ← P.u8; skipPad size.toNat 1
  | some .word => do let _ ← P.u32le; skipPad size.toNat 4

/-- one iteration of the loop -/
def block : P Unit := do
  let tag ← P.u32be
  afterTag tag

def reader : P Unit := do
  let _name ← P.u32le
  let size ← P.u32le
  P.whileP (fun pos => pos < size.toNat) block

def fromExisting (b : Bytes) : Res Unit := P.run reader b

/-! the pinned commit, for the witness theorem -/

/-- `x.unwrap()` on a read -/
def unwrapP {α : Type} (p : P α) : P α := fun w s =>
  match p w s with
  | ⟨.fail _, k⟩ => ⟨.fault .unwrap, k⟩
  | r => r

def blockUnfixed : P Unit := unwrapP (do
  let tag ← P.u32be
  let size ← P.u32le
  match kindOf tag.toNat with
  | none => P.failP
  | some .todo => P.lift (Res.panic .explicit)
  | some .unit => P.skip size.toNat
  | some .bool => do let _ ← P.u8; let p ← P.lift (subC size.toNat 1); P.skip p
  | some .word => do let _ ← P.u32le; let p ← P.lift (subC size.toNat 4); P.skip p)

def fromExistingUnfixed (b : Bytes) : Res Unit :=
  P.run (do let _ ← P.u32le; let size ← P.u32le; P.whileP (fun pos => pos < size.toNat) blockUnfixed) b

end Physis.C18Avfx
