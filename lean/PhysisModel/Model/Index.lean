import PhysisModel.Base.Str
import PhysisModel.Base.Reader
import PhysisModel.Model.Crc
/-!
Model of `src/sqpack/index.rs` (+ `SqPackHeader` from `src/sqpack/mod.rs`): the binrw readers of
an index file, `calculate_hash`, `find_entry`.

A reader takes the bytes from the current file position to the end (`rest`) and returns the value
and the new `rest`; an absolute seek (`seek_before = SeekFrom::Start(n)`) is `whole.drop n`; a
relative seek (`pad_before/after`, `pad_size_to`) is `skip` — on a `File` it never fails, reading
behind the end does.  `none` = `Err` (→ `from_existing` returns `None`).
The model mirrors the code **with fixes C01-01..03 applied** (see `fixes/`).
-/
namespace Physis.Index
open Physis Physis.Str Physis.Reader

/-! ### SqPackHeader -/

structure SqPackHeader where
  platformId : UInt8
  size : UInt32
  version : UInt32
  fileType : UInt8
deriving Repr

def sqpackMagic : Bytes := [83,113,80,97,99,107,0,0]

def readSqPackHeader (l : Bytes) : Option (SqPackHeader × Bytes) := do
  let l ← magic sqpackMagic l
  -- platform_id: Platform (repr u8, 0..=4), pad_size_to 4
  let (plat, l) ← u8 l
  require (plat ≤ 4)
  let l := skip 3 l
  let (size, l) ← u32le l
  let (version, l) ← u32le l
  -- file_type: SqPackFileType (repr u8, 0..=2), pad_size_to 4
  let (ft, l) ← u8 l
  require (ft ≤ 2)
  let l := skip 3 l
  let (_unk1, l) ← u32le l
  let (_unk2, l) ← u32le l
  -- region: Region (repr i16: -1 | 1), pad_size_to 4
  let (region, l) ← u16le l
  require (region == 0xFFFF || region == 1)
  let l := skip 2 l
  let l := skip 924 l
  let (_sha, l) ← bytes 20 l
  let l := skip 44 l
  some ({ platformId := plat, size := size, version := version, fileType := ft }, l)

/-! ### SqPackIndexHeader -/

structure Descriptor where
  count : UInt32
  offset : UInt32
  size : UInt32
deriving Repr

def readDescriptor (l : Bytes) : Option (Descriptor × Bytes) := do
  let (count, l) ← u32le l
  let (offset, l) ← u32le l
  let (size, l) ← u32le l
  let (_sha, l) ← bytes 20 l
  let l := skip 40 l
  some ({ count := count, offset := offset, size := size }, l)

inductive IndexType | index1 | index2
deriving DecidableEq, Repr

structure IndexHeader where
  size : UInt32
  fileDescriptor : Descriptor
  dataDescriptor : Descriptor
  unknownDescriptor : Descriptor
  folderDescriptor : Descriptor
  indexType : IndexType
deriving Repr

def readIndexHeader (l : Bytes) : Option (IndexHeader × Bytes) := do
  let (size, l) ← u32le l
  let (fd, l) ← readDescriptor l
  let l := skip 4 l
  let (dd, l) ← readDescriptor l
  let (ud, l) ← readDescriptor l
  let (fo, l) ← readDescriptor l
  -- index_type: IndexType (repr u8, 0 | 1), pad_size_to 4
  let (it, l) ← u8 l
  require (it ≤ 1)
  let l := skip 3 l
  let l := skip 656 l
  let (_sha, l) ← bytes 20 l
  let l := skip 44 l
  some ({ size := size, fileDescriptor := fd, dataDescriptor := dd, unknownDescriptor := ud,
          folderDescriptor := fo, indexType := if it == 0 then .index1 else .index2 }, l)

/-! ### entries -/

inductive Hash
  | splitPath (name path : UInt32)
  | fullPath (h : UInt32)
deriving DecidableEq, Repr

structure FileEntryData where
  isSynonym : Bool
  dataFileId : UInt8
  offset : UInt64
deriving DecidableEq, Repr

/-- `FileEntryData::read_options` -/
def decodeEntryData (data : UInt32) : FileEntryData :=
  { isSynonym := (data &&& 0b1) == 0b1
    dataFileId := ((data &&& 0b1110) >>> 1).toUInt8
    offset := (data &&& ~~~0xF).toUInt64 * 0x08 }

structure FileEntry where
  hash : Hash
  data : FileEntryData
deriving DecidableEq, Repr

def readFileEntry (t : IndexType) (l : Bytes) : Option (FileEntry × Bytes) :=
  match t with
  | .index1 => do
    let (name, l) ← u32le l
    let (path, l) ← u32le l
    let (data, l) ← u32le l
    let (_padding, l) ← u32le l
    some ({ hash := .splitPath name path, data := decodeEntryData data }, l)
  | .index2 => do
    let (h, l) ← u32le l
    let (data, l) ← u32le l
    some ({ hash := .fullPath h, data := decodeEntryData data }, l)

/-- `#[br(count = n)] Vec<FileEntry>` -/
def readEntries (t : IndexType) : Nat → Bytes → Option (List FileEntry × Bytes)
  | 0, l => some ([], l)
  | n + 1, l => do
    let (e, l) ← readFileEntry t l
    let (es, l) ← readEntries t n l
    some (e :: es, l)

/-- `count` records of `need` bytes each followed by a relative seek of `pad` (DataEntry: 256+0,
FolderEntry: 12+4); only readability matters, the records are not used by lookup -/
def readRecords (need pad : Nat) : Nat → Bytes → Option Bytes
  | 0, l => some l
  | n + 1, l => do
    let (_, l) ← bytes need l
    readRecords need pad n (skip pad l)

structure SqPackIndex where
  indexType : IndexType
  entries : List FileEntry
deriving Repr

/-- bytes per entry record (fix C01-02: the count is `size / 16` only for `Index1`) -/
def entrySize : IndexType → UInt32
  | .index1 => 16
  | .index2 => 8

/-- `SqPackIndex::read` on the whole file content -/
def parse (whole : Bytes) : Option SqPackIndex := do
  let (hdr, _) ← readSqPackHeader whole
  let (ih, _) ← readIndexHeader (whole.drop hdr.size.toNat)
  let count := ih.fileDescriptor.size / entrySize ih.indexType
  let (entries, _) ← readEntries ih.indexType count.toNat (whole.drop ih.fileDescriptor.offset.toNat)
  let _ ← readRecords 256 0 (ih.dataDescriptor.size / 256).toNat (whole.drop ih.dataDescriptor.offset.toNat)
  let _ ← readRecords 12 4 (ih.folderDescriptor.size / 16).toNat (whole.drop ih.folderDescriptor.offset.toNat)
  some { indexType := ih.indexType, entries := entries }

/-! ### hashing and lookup -/

/-- `calculate_hash`; `none` = the `panic!` for a path without `/` under `Index1` -/
def calculateHash (ix : SqPackIndex) (path : Bytes) : Option Hash :=
  let lowercase := lower path
  match ix.indexType with
  | .index1 =>
    match rsplitOnce slash lowercase with
    | some (directory, filename) => some (.splitPath (Crc.checksum filename) (Crc.checksum directory))
    | none => none
  | .index2 => some (.fullPath (Crc.checksum lowercase))

structure IndexEntry where
  dataFileId : UInt8
  offset : UInt64
deriving DecidableEq, Repr

/-- `SqPackIndex::find_entry`: outer `none` = panic, inner = not found -/
def findEntry (ix : SqPackIndex) (path : Bytes) : Option (Option IndexEntry) :=
  match calculateHash ix path with
  | none => none
  | some hash =>
    match ix.entries.find? (fun s => s.hash == hash) with
    | some entry => some (some { dataFileId := entry.data.dataFileId, offset := entry.data.offset })
    | none => some none

end Physis.Index
