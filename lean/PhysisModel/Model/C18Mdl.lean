import PhysisModel.Base.ParserA
/-!
Fault-tracking model of `MDL::from_existing` (`src/model.rs`, with the declaration reader of
`src/model_vertex_declarations.rs` and the vertex codec readers of `src/model_file_operations.rs`),
as repaired by `fixes/C18-50 … C18-59`.

Stage 1 (`modelFile : P Model`) is the binrw stage — `ModelFileHeader::read` followed by
`ModelData::read_args` — field by field in declaration order.  Fixed-layout structs without
enums / conditions whose values are never looked at again (`ElementId`, bounding boxes, terrain
shadow tables, `Submesh` …) are read as one `bytes n`: a sequence of fixed-width `read_exact`s
and one `read_exact` of the total width fail (with `UnexpectedEof`) on exactly the same inputs and
leave the cursor at the same place on success.

Stage 2 (`post`) is the hand-written part of `from_existing`: name scans, the level-of-detail /
mesh / vertex / index / sub-mesh / shape / stream loops.  Vertex payload values (floats, bone ids,
raw stream bytes) never influence control flow, so a `seek(Start(p))` followed by reads of `n`
bytes in total is modelled by its only observable effect: it succeeds iff `p + n ≤ |input|`
(`readable`).  Index values do influence control flow (shape values index through them) and are
decoded for real.
-/
namespace Physis.C18Mdl
open Physis Physis.A

def u8Nat : P Nat := P.map UInt8.toNat P.u8
def u16Nat : P Nat := P.map UInt16.toNat P.u16le
def u32Nat : P Nat := P.map UInt32.toNat P.u32le

/-! ## stage 1: binrw -/

structure FileHeader where
  version : Nat
  declCount : Nat
  /-- `index_offsets: [u32; 3]` -/
  io0 : Nat
  io1 : Nat
  io2 : Nat
  deriving Repr, Inhabited

def fileHeader : P FileHeader := do
  let version ← u32Nat
  let _ ← P.u32le; let _ ← P.u32le             -- stack_size, runtime_size
  let declCount ← u16Nat
  let _ ← P.u16le                               -- material_count
  let _ ← P.bytes 12                            -- vertex_offsets
  let io0 ← u32Nat; let io1 ← u32Nat; let io2 ← u32Nat
  let _ ← P.bytes 24                            -- vertex_buffer_size, index_buffer_size
  let _ ← P.u8; let _ ← P.u8; let _ ← P.u8      -- lod_count, two bools (`map`: any byte)
  P.skip 1
  pure ⟨version, declCount, io0, io1, io2⟩

structure Element where
  stream : Nat
  offset : Nat
  ty : Nat
  usage : Nat
  deriving Repr, Inhabited

/-- `VertexType` discriminants -/
def vertexTypes : List Nat := [0, 1, 2, 3, 5, 6, 7, 8, 9, 10, 13, 14, 16, 17]
/-- `VertexUsage` discriminants -/
def vertexUsages : List Nat := [0, 1, 2, 3, 4, 5, 6, 7]

def element : P Element := do
  let stream ← u8Nat
  let offset ← u8Nat
  let ty ← P.reprEnum u8Nat vertexTypes
  let usage ← P.reprEnum u8Nat vertexUsages
  let _ ← P.u8
  P.skip 3
  pure ⟨stream, offset, ty, usage⟩

/-- `loop { elements.push(element); element = read()?; if element.stream == 0xFF { break } }`
with fuel (every round consumes 8 bytes; `declElems` gives enough). -/
def declGo (w : Bytes) : Nat → St → Nat → List Element → Res (List Element × St)
  | 0, _, pk, _ => ⟨.fault .fuel, pk⟩
  | f + 1, s, pk, acc =>
    match element w s with
    | ⟨.ok (e, s'), k⟩ =>
      if e.stream = 255 then ⟨.ok (acc.reverse, s'), max pk k⟩ else declGo w f s' (max pk k) (e :: acc)
    | ⟨.fail e, k⟩ => ⟨.fail e, max pk k⟩
    | ⟨.fault x, k⟩ => ⟨.fault x, max pk k⟩

def declElems (first : Element) : P (List Element) := fun w s => declGo w (s.rest.length + 1) s 0 [first]

/-- one round of `vertex_element_parser` (repaired: an unterminated declaration is an error
instead of a subtraction overflow) -/
def declaration : P (List Element) := do
  let e0 ← element
  let els ← declElems e0
  if 17 < els.length + 1 then P.failP else do
    P.skip (17 * 8 - (els.length + 1) * 8)
    pure els

structure Header where
  decls : List (List Element)
  strings : Bytes
  meshCount : Nat
  attributeCount : Nat
  submeshCount : Nat
  materialCount : Nat
  boneCount : Nat
  boneTableCount : Nat
  shapeCount : Nat
  shapeMeshCount : Nat
  shapeValueCount : Nat
  lodCount : Nat
  elementIdCount : Nat
  tsmCount : Nat
  tssCount : Nat
  deriving Repr, Inhabited

/-- `ModelFlags1` has no zero variant -/
def flags1 : List Nat := [0x80, 0x40, 0x20, 0x10, 0x08, 0x04, 0x02, 0x01]
def flags2 : List Nat := [0, 0x80, 0x40, 0x20, 0x10, 0x08, 0x04, 0x02, 0x01]

def header (declCount : Nat) : P Header := do
  P.lift (vecAlloc declCount 24)                -- `vec![VertexDeclaration { .. }; count]`
  let decls ← P.count declCount declaration
  let _ ← P.u16le                               -- string_count
  P.skip 2
  let stringSize ← u32Nat
  let strings ← P.countBytesChecked stringSize  -- repaired: `take(size).read_to_end`
  let _ ← P.f32le
  let meshCount ← u16Nat
  let attributeCount ← u16Nat
  let submeshCount ← u16Nat
  let materialCount ← u16Nat
  let boneCount ← u16Nat
  let boneTableCount ← u16Nat
  let shapeCount ← u16Nat
  let shapeMeshCount ← u16Nat
  let shapeValueCount ← u16Nat
  let lodCount ← u8Nat
  let _ ← P.reprEnum u8Nat flags1
  let elementIdCount ← u16Nat
  let tsmCount ← u8Nat
  let _ ← P.reprEnum u8Nat flags2
  let _ ← P.f32le; let _ ← P.f32le
  let _ ← P.u16le
  let tssCount ← u16Nat
  let _ ← P.u8; let _ ← P.u8; let _ ← P.u8; let _ ← P.u8
  let _ ← P.u16le; let _ ← P.u16le; let _ ← P.u16le
  P.skip 6
  pure ⟨decls, strings, meshCount, attributeCount, submeshCount, materialCount, boneCount, boneTableCount,
    shapeCount, shapeMeshCount, shapeValueCount, lodCount, elementIdCount, tsmCount, tssCount⟩

structure MeshLod where
  meshIndex : Nat
  meshCount : Nat
  vertexDataOffset : Nat
  deriving Repr, Inhabited

def meshLod : P MeshLod := do
  let meshIndex ← u16Nat
  let meshCount ← u16Nat
  let _ ← P.bytes 8                             -- two lod ranges
  let _ ← P.bytes 16                            -- water / shadow / terrain shadow / fog ranges
  let _ ← P.bytes 12                            -- edge geometry, polygon_count
  P.skip 4
  let _ ← P.bytes 8                             -- buffer sizes
  let vertexDataOffset ← u32Nat
  let _ ← P.u32le                               -- index_data_offset
  pure ⟨meshIndex, meshCount, vertexDataOffset⟩

structure Mesh where
  /-- kept as `u16`: the sizes of the vertex / sub-mesh vectors are bounded by the type -/
  vertexCount : UInt16
  /-- kept as `u32` (`Vec::with_capacity(index_count as usize)` cannot overflow `isize`) -/
  indexCount : UInt32
  submeshIndex : Nat
  submeshCount : UInt16
  startIndex : Nat
  vb0 : Nat
  vb1 : Nat
  vb2 : Nat
  st0 : Nat
  st1 : Nat
  st2 : Nat
  streamCount : Nat
  deriving Repr, Inhabited

def mesh : P Mesh := do
  let vertexCount ← P.u16le
  P.skip 2
  let indexCount ← P.u32le
  let _ ← P.u16le                               -- material_index
  let submeshIndex ← u16Nat
  let submeshCount ← P.u16le
  let _ ← P.u16le                               -- bone_table_index
  let startIndex ← u32Nat
  let vb0 ← u32Nat; let vb1 ← u32Nat; let vb2 ← u32Nat
  let st0 ← u8Nat; let st1 ← u8Nat; let st2 ← u8Nat
  let streamCount ← u8Nat
  pure ⟨vertexCount, indexCount, submeshIndex, submeshCount, startIndex, vb0, vb1, vb2, st0, st1, st2, streamCount⟩

def boneTable : P Unit := do
  let _ ← P.bytes 128
  let _ ← P.u8
  P.skip 3

def boneTableV2 : P Unit := do
  P.skip 2
  let n ← u16Nat
  let _ ← P.countInts n 2
  let _ ← P.ifCond (n % 2 == 0) P.u16le 0
  pure ()

structure Shape where
  stringOffset : Nat
  s0 : Nat
  s1 : Nat
  s2 : Nat
  c0 : Nat
  c1 : Nat
  c2 : Nat
  deriving Repr, Inhabited

def shape : P Shape := do
  let stringOffset ← u32Nat
  let s0 ← u16Nat; let s1 ← u16Nat; let s2 ← u16Nat
  let c0 ← u16Nat; let c1 ← u16Nat; let c2 ← u16Nat
  pure ⟨stringOffset, s0, s1, s2, c0, c1, c2⟩

structure ShapeMesh where
  meshIndexOffset : Nat
  valueCount : Nat
  valueOffset : Nat
  deriving Repr, Inhabited

def shapeMesh : P ShapeMesh := do
  let a ← u32Nat; let b ← u32Nat; let c ← u32Nat
  pure ⟨a, b, c⟩

structure ShapeValue where
  baseIndicesIndex : Nat
  replacingVertexIndex : Nat
  deriving Repr, Inhabited

def shapeValue : P ShapeValue := do
  let a ← u16Nat; let b ← u16Nat
  pure ⟨a, b⟩

/-- `Vec<u8>` with a `u8` count -/
def padding : P Bytes := do
  let n ← P.u8
  P.countBytes n.toNat

/-- little-endian `u32`s of a `Vec<u32>` read as raw bytes by `countInts` -/
def leU32s : Bytes → List Nat
  | a :: b :: c :: d :: r => (a.toNat + 256 * b.toNat + 65536 * c.toNat + 16777216 * d.toNat) :: leU32s r
  | _ => []

/-- little-endian `u16`s -/
def leU16s : Bytes → List Nat
  | a :: b :: r => (a.toNat + 256 * b.toNat) :: leU16s r
  | _ => []

structure Model where
  fh : FileHeader
  hd : Header
  lod0 : MeshLod
  lod1 : MeshLod
  lod2 : MeshLod
  meshes : Array Mesh
  materialNameOffsets : List Nat
  boneNameOffsets : List Nat
  shapes : List Shape
  shapeMeshes : List ShapeMesh
  shapeValues : List ShapeValue
  deriving Inhabited

/-- element ids, lods (`count = 3`), meshes … bone name offsets -/
def tables (hd : Header) : P (MeshLod × MeshLod × MeshLod × List Mesh × Bytes × Bytes) := do
  let _ ← P.count hd.elementIdCount (P.bytes 32)
  let lod0 ← meshLod; let lod1 ← meshLod; let lod2 ← meshLod
  let meshes ← P.count hd.meshCount mesh
  let _ ← P.countInts hd.attributeCount 4
  let _ ← P.count hd.tsmCount (P.bytes 20)
  let _ ← P.count hd.submeshCount (P.bytes 16)
  let _ ← P.count hd.tssCount (P.bytes 12)
  let mats ← P.countInts hd.materialCount 4
  let bones ← P.countInts hd.boneCount 4
  pure (lod0, lod1, lod2, meshes, mats, bones)

def boneTables (version n : Nat) : P Unit := do
  let _ ← P.ifCond (decide (version ≤ 0x1000005)) (P.count n boneTable) []
  let _ ← P.ifCond (decide (version ≥ 0x1000006)) (P.count n boneTableV2) []
  pure ()

def shapeTables (hd : Header) : P (List Shape × List ShapeMesh × List ShapeValue) := do
  let shapes ← P.count hd.shapeCount shape
  let shapeMeshes ← P.count hd.shapeMeshCount shapeMesh
  let shapeValues ← P.count hd.shapeValueCount shapeValue
  pure (shapes, shapeMeshes, shapeValues)

/-- sub-mesh bone map, padding, bounding boxes -/
def trailer (version boneCount : Nat) : P Unit := do
  let mapSize ← P.ifCond (decide (version ≤ 0x1000005)) u32Nat 0
  let mapSize2 ← P.ifCond (decide (version ≥ 0x1000006)) u16Nat 0
  let _ ← P.countInts (if version ≥ 0x1000006 then mapSize2 / 2 else mapSize / 2) 2
  let _ ← padding
  let _ ← P.bytes 128                           -- four bounding boxes
  let _ ← P.count boneCount (P.bytes 32)
  pure ()

def modelData (fh : FileHeader) : P Model := do
  let hd ← header fh.declCount
  let (lod0, lod1, lod2, meshes, mats, bones) ← tables hd
  boneTables fh.version hd.boneTableCount
  let (shapes, shapeMeshes, shapeValues) ← shapeTables hd
  trailer fh.version hd.boneCount
  pure ⟨fh, hd, lod0, lod1, lod2, meshes.toArray, leU32s mats, leU32s bones, shapes, shapeMeshes, shapeValues⟩

/-- the binrw stage of `MDL::from_existing` -/
def modelFile : P Model := do
  let fh ← fileHeader
  modelData fh

/-- outcome of the binrw stage alone -/
def mdlHeader (b : Bytes) : Res Unit := P.run (do let _ ← modelFile; pure ()) b

/-! ## stage 2: the hand-written part of `from_existing` -/

/-- `MDL::read_name` (repaired name scan): `strings.get(offset..)?`, `position(|c| c == 0)?` -/
def readName (strings : Bytes) (offset : Nat) : Res Unit :=
  if offset ≤ strings.length then
    if (strings.drop offset).contains 0 then .ok () else .fail
  else .fail

/-- `for offset in offsets { names.push(read_name(strings, offset)?) }` -/
def names (strings : Bytes) : List Nat → Res Unit
  | [] => .ok ()
  | o :: r => do readName strings o; names strings r

/-- `model.lods.get(i)` — the vector holds exactly three entries (`count = 3`) -/
def lodAt (m : Model) : Nat → Option MeshLod
  | 0 => some m.lod0 | 1 => some m.lod1 | 2 => some m.lod2 | _ => none
/-- `index_offsets[i]` on the `[u32; 3]` (panics outside) -/
def indexOffsetAt (fh : FileHeader) : Nat → Res Nat
  | 0 => .ok fh.io0 | 1 => .ok fh.io1 | 2 => .ok fh.io2 | _ => .panic .index
/-- `shape.shape_mesh_start_index[i]` / `shape_mesh_count[i]` on `[u16; 3]` (panic outside) -/
def shapeStartAt (sh : Shape) : Nat → Res Nat
  | 0 => .ok sh.s0 | 1 => .ok sh.s1 | 2 => .ok sh.s2 | _ => .panic .index
def shapeCountAt (sh : Shape) : Nat → Res Nat
  | 0 => .ok sh.c0 | 1 => .ok sh.c1 | 2 => .ok sh.c2 | _ => .panic .index
/-- `vertex_buffer_offsets.get(s)` / `vertex_buffer_strides.get(s)` -/
def vbAt (me : Mesh) : Nat → Option Nat
  | 0 => some me.vb0 | 1 => some me.vb1 | 2 => some me.vb2 | _ => none
def strideAt (me : Mesh) : Nat → Option Nat
  | 0 => some me.st0 | 1 => some me.st1 | 2 => some me.st2 | _ => none
/-- `vertex_buffer_offsets[s]` (panics outside) -/
def vbAtF (me : Mesh) : Nat → Res Nat
  | 0 => .ok me.vb0 | 1 => .ok me.vb1 | 2 => .ok me.vb2 | _ => .panic .index

/-- bytes read for an element of (usage, type); `none` = the repaired `return None` (was `panic!`).
`Tangent`/`ByteFloat4` reads nothing. -/
def readSize (usage ty : Nat) : Option Nat :=
  match usage, ty with
  | 0, 3 => some 16 | 0, 14 => some 8 | 0, 2 => some 12
  | 1, 8 => some 4 | 1, 5 => some 4 | 1, 17 => some 8
  | 2, 5 => some 4 | 2, 17 => some 8
  | 3, 14 => some 8 | 3, 2 => some 12
  | 4, 8 => some 4 | 4, 14 => some 8 | 4, 3 => some 16 | 4, 13 => some 4
  | 5, 8 => some 0
  | 6, 8 => some 4
  | 7, 8 => some 4
  | _, _ => none

/-- `seek(Start(pos))` then reads of `n` bytes in total, each `?`-propagated -/
def readable (len pos n : Nat) : Res Unit := if n = 0 then .ok () else Res.guard (decide (pos + n ≤ len))

/-- one element of one vertex: 64-bit address, bounded stream number, typed read -/
def elementRead (len : Nat) (lod : MeshLod) (me : Mesh) (k : Nat) (e : Element) : Res Unit := do
  let off ← Res.ofOption (vbAt me e.stream)
  let stride ← Res.ofOption (strideAt me e.stream)
  let n ← Res.ofOption (readSize e.usage e.ty)
  readable len (lod.vertexDataOffset + off + e.offset + stride * k) n

def elementsLoop (len : Nat) (lod : MeshLod) (me : Mesh) (k : Nat) : List Element → Res Unit
  | [] => .ok ()
  | e :: r => do elementRead len lod me k e; elementsLoop len lod me k r

/-- `for k in 0..vertex_count` (`n` = rounds left) -/
def vertexLoop (len : Nat) (lod : MeshLod) (me : Mesh) (decl : List Element) : Nat → Nat → Res Unit
  | 0, _ => .ok ()
  | n + 1, k => do elementsLoop len lod me k decl; vertexLoop len lod me decl n (k + 1)

/-- `for shape_value in shape_values` -/
def shapeValuesLoop (indices : Array Nat) (vertexCount : Nat) : List ShapeValue → Res Unit
  | [] => .ok ()
  | v :: r => do
    let base ← Res.ofOption indices[v.baseIndicesIndex]?
    Res.guard (decide (base < vertexCount))                     -- `vertices.get(base_index)?`
    Res.guard (decide (v.replacingVertexIndex < vertexCount))   -- `vertices.get(replacing)?`
    Res.require (decide (base < vertexCount)) .index            -- `morphed_vertices[base_index]`
    shapeValuesLoop indices vertexCount r

/-- the shape values of `sh` that apply to mesh `me`: shape meshes `start .. start+cnt` with the
mesh's `start_index`, their value ranges, filtered to the mesh's index range (as `u16`) -/
def shapeValuesOf (m : Model) (start cnt : Nat) (me : Mesh) : List ShapeValue :=
  let affected := ((m.shapeMeshes.drop start).take cnt).filter (fun sm => sm.meshIndexOffset == me.startIndex)
  let lo := me.startIndex % 65536
  let hi := (me.startIndex + me.indexCount.toNat) % 65536      -- `wrapping_add(..) as u16`
  (affected.flatMap (fun sm => (m.shapeValues.drop sm.valueOffset).take sm.valueCount)).filter
    (fun v => decide (lo ≤ v.baseIndicesIndex) && decide (v.baseIndicesIndex < hi))

def shapeBody (m : Model) (i : Nat) (me : Mesh) (indices : Array Nat) (sh : Shape) : Res Unit := do
  let start ← shapeStartAt sh i
  let cnt ← shapeCountAt sh i
  vecAlloc me.vertexCount.toNat 92                         -- `vec![Vertex::default(); vertices.len()]`
  if (shapeValuesOf m start cnt me).isEmpty then .ok () else do
    shapeValuesLoop indices me.vertexCount.toNat (shapeValuesOf m start cnt me)
    readName m.hd.strings sh.stringOffset

def shapesLoop (m : Model) (i : Nat) (me : Mesh) (indices : Array Nat) : List Shape → Res Unit
  | [] => .ok ()
  | sh :: r => do shapeBody m i me indices sh; shapesLoop m i me indices r

/-- `for z in 0..vertex_count { seek; for _ in 0..stride { read u8 ? } }` -/
def streamRows (len base stride : Nat) : Nat → Nat → Res Unit
  | 0, _ => .ok ()
  | n + 1, z => do readable len (base + z * stride) stride; streamRows len base stride n (z + 1)

/-- `for stream in 0..mesh.vertex_stream_count` -/
def streamsLoop (len : Nat) (lod : MeshLod) (me : Mesh) : Nat → Nat → Res Unit
  | 0, _ => .ok ()
  | n + 1, st => do
    let stride ← Res.ofOption (strideAt me st)
    let vb ← vbAtF me st
    streamRows len (lod.vertexDataOffset + vb) stride me.vertexCount.toNat 0
    streamsLoop len lod me n (st + 1)

/-- one mesh of one level of detail (one `Part`) -/
def meshBody (w : Bytes) (len : Nat) (m : Model) (i : Nat) (lod : MeshLod) (j : Nat) : Res Unit := do
  let decl ← Res.ofOption m.hd.decls[j]?
  let me ← Res.ofOption m.meshes[j]?
  vecAlloc me.vertexCount.toNat 92                         -- `vec![Vertex::default(); vertex_count]`
  vertexLoop len lod me decl me.vertexCount.toNat 0
  let io ← indexOffsetAt m.fh i
  let ipos := io + me.startIndex * 2
  -- repaired: the indices must be in the file before the buffer is reserved
  Res.guard (decide (me.indexCount.toNat ≤ (len - ipos) / 2))
  vecAlloc me.indexCount.toNat 2
  let raw := (w.drop ipos).take (2 * me.indexCount.toNat)
  Res.guard (decide (raw.length = 2 * me.indexCount.toNat))
  let indices := (leU16s raw).toArray
  vecAlloc me.submeshCount.toNat 16                        -- `Vec::<SubMesh>::with_capacity`
  -- `for t in 0..submesh_count { model.submeshes.get(submesh_index + t)? }` in closed form
  Res.guard (decide (me.submeshCount.toNat = 0 ∨ me.submeshIndex + me.submeshCount.toNat ≤ m.hd.submeshCount))
  shapesLoop m i me indices m.shapes
  streamsLoop len lod me me.streamCount 0

/-- `for j in lod.mesh_index..hi` (`n` = rounds left) -/
def meshesLoop (w : Bytes) (len : Nat) (m : Model) (i : Nat) (lod : MeshLod) : Nat → Nat → Res Unit
  | 0, _ => .ok ()
  | n + 1, j => do meshBody w len m i lod j; meshesLoop w len m i lod n (j + 1)

/-- `for i in 0..model.header.lod_count` -/
def lodsLoop (w : Bytes) (len : Nat) (m : Model) : Nat → Nat → Res Unit
  | 0, _ => .ok ()
  | n + 1, i => do
    let lod ← Res.ofOption (lodAt m i)
    let hi ← addQ U16MAX lod.meshIndex lod.meshCount    -- `checked_add(..)?`
    meshesLoop w len m i lod (hi - lod.meshIndex) lod.meshIndex
    lodsLoop w len m n (i + 1)

def post (w : Bytes) (m : Model) : Res Unit := do
  names m.hd.strings m.boneNameOffsets
  names m.hd.strings m.materialNameOffsets
  lodsLoop w w.length m m.hd.lodCount 0

/-- `MDL::from_existing` -/
def mdl (b : Bytes) : Res Unit := do
  let m ← P.run modelFile b
  post b m

/-! ## the code at the pinned commit (for the witness theorems of the repaired defects) -/

/-- `vertex_element_parser` before `fixes/C18-50`: `NUM_VERTICES * 8 - (len + 1) * 8` unchecked -/
def declarationUnfixed : P (List Element) := do
  let e0 ← element
  let els ← declElems e0
  let n ← P.lift (subC (17 * 8) ((els.length + 1) * 8))
  P.skip n
  pure els

/-- the name scan before `fixes/C18-52`: `strings[offset]` until a NUL (`fuel` ≥ length + 1) -/
def nameScanUnfixed (strings : Bytes) : Nat → Nat → Res Unit
  | 0, _ => .panic .fuel
  | f + 1, o => do
    let c ← indexF strings o
    if c = 0 then .ok () else nameScanUnfixed strings f (o + 1)

/-! ## retained memory — the input class of the recorded finding `mdl-overlap-amplification`

Every single request of the reader is within the budget (`c18_mdl_alloc`), but nothing stops a file
from pointing many names / meshes / levels of detail / vertex streams at the **same** bytes
(stride 0, overlapping ranges, every lod naming the same mesh), and every shape that touches a mesh
keeps a dense copy of all its vertices: the memory *retained* by the result is not bounded by the
input size.  `retainedBound` is an upper bound of what the parts and names can retain (whether or
not the run completes); the driver tags an input `kf:mdl-overlap-amplification` when it exceeds
`2^24`.  Outside that class the retained memory is within the budget: the binrw stage holds a small
multiple of the input. -/

def nameLen (strings : Bytes) (offset : Nat) : Nat := ((strings.drop offset).takeWhile (· != 0)).length

def start3 (sh : Shape) : Nat → Nat | 0 => sh.s0 | 1 => sh.s1 | 2 => sh.s2 | _ => 0
def count3 (sh : Shape) : Nat → Nat | 0 => sh.c0 | 1 => sh.c1 | 2 => sh.c2 | _ => 0

/-- vertices + one kept morph copy per applicable shape (+ its name), indices,
sub-meshes, raw vertex streams (`Vec<u8>` grown by `push`: capacity ≤ 2 × length) -/
def partRetained (len : Nat) (m : Model) (i : Nat) (me : Mesh) : Nat :=
  let vc := me.vertexCount.toNat
  let morphs := m.shapes.filter (fun sh => !(shapeValuesOf m (start3 sh i) (count3 sh i) me).isEmpty)
  let names := morphs.foldl (fun a sh => a + 2 * nameLen m.hd.strings sh.stringOffset + 64) 0
  vc * 92 * (1 + morphs.length) + names
    + (if me.indexCount.toNat ≤ len / 2 then me.indexCount.toNat * 2 else 0)
    + me.submeshCount.toNat * 16
    + 2 * vc * ((if me.streamCount > 0 then me.st0 else 0) + (if me.streamCount > 1 then me.st1 else 0)
        + (if me.streamCount > 2 then me.st2 else 0))

def lodRetained (len : Nat) (m : Model) (i : Nat) : Nat :=
  match lodAt m i with
  | none => 0
  | some lod =>
    (List.range lod.meshCount).foldl (fun a t =>
      match m.meshes[lod.meshIndex + t]? with
      | some me => a + partRetained len m i me + 256
      | none => a) 0

def retainedBound (len : Nat) (m : Model) : Nat :=
  (m.boneNameOffsets ++ m.materialNameOffsets).foldl (fun a o => a + 2 * nameLen m.hd.strings o) 0
    + (List.range (min m.hd.lodCount 3)).foldl (fun a i => a + lodRetained len m i) 0

/-- membership in the class of the finding (false when the binrw stage fails) -/
def amplified (b : Bytes) : Bool :=
  match (P.run modelFile b).out with
  -- + one transient morph copy (at most 65535 vertices of 92 bytes)
  | .ok m => decide (retainedBound b.length m + 65535 * 92 > 16777216)
  | _ => false

end Physis.C18Mdl
