import PhysisModel.Base.Bytes
import PhysisModel.Generated.Sha1Consts
/-!
Model of `src/sha1.rs` (vendored sha1-smol): `Sha1::new`, `Sha1::from`, `Sha1::update`,
`Blocks::input`, `Sha1::digest`, `Digest::bytes`, and `Sha1State::process` in its
four-rounds-at-a-time formulation (`u32x4`, `sha1msg1/2`, `sha1rnds4c/p/m`, the `schedule!` /
`rounds4!` macros).  Written to read like the Rust: same buffering, same `len` accounting, same
128-byte `last` buffer in `digest`, same register rotation in `process`.
Round constants and the initial state come from `Generated/Sha1Consts.lean` (T1).
-/
namespace Physis.Sha1
open Physis.Generated

/-! ### `fake::u32x4` -/

structure U32x4 where
  x0 : UInt32
  x1 : UInt32
  x2 : UInt32
  x3 : UInt32

namespace U32x4
/-- `impl Add` (lane-wise `wrapping_add`) -/
def add (p q : U32x4) : U32x4 := ⟨p.x0 + q.x0, p.x1 + q.x1, p.x2 + q.x2, p.x3 + q.x3⟩
/-- `impl BitXor` -/
def xor (p q : U32x4) : U32x4 := ⟨p.x0 ^^^ q.x0, p.x1 ^^^ q.x1, p.x2 ^^^ q.x2, p.x3 ^^^ q.x3⟩
end U32x4

/-- `u32::rotate_left(1)`, `(5)`, `(30)` -/
def rotl1 (x : UInt32) : UInt32 := (x <<< 1) ||| (x >>> 31)
def rotl5 (x : UInt32) : UInt32 := (x <<< 5) ||| (x >>> 27)
def rotl30 (x : UInt32) : UInt32 := (x <<< 30) ||| (x >>> 2)

/-- `sha1_first` -/
def sha1First (w0 : U32x4) : UInt32 := w0.x0

/-- `sha1_first_add` -/
def sha1FirstAdd (e : UInt32) (w0 : U32x4) : U32x4 := ⟨e + w0.x0, w0.x1, w0.x2, w0.x3⟩

/-- `sha1msg1` -/
def sha1msg1 (a b : U32x4) : U32x4 := a.xor ⟨a.x2, a.x3, b.x0, b.x1⟩

/-- `sha1msg2` -/
def sha1msg2 (a b : U32x4) : U32x4 :=
  let w16 := rotl1 (a.x0 ^^^ b.x1)
  let w17 := rotl1 (a.x1 ^^^ b.x2)
  let w18 := rotl1 (a.x2 ^^^ b.x3)
  let w19 := rotl1 (a.x3 ^^^ w16)
  ⟨w16, w17, w18, w19⟩

/-- `sha1_first_half` (emulates `sha1nexte`) -/
def sha1FirstHalf (abcd msg : U32x4) : U32x4 := sha1FirstAdd (rotl30 (sha1First abcd)) msg

/-- `bool3ary_202!` (Choose) -/
def bool202 (a b c : UInt32) : UInt32 := c ^^^ (a &&& (b ^^^ c))
/-- `bool3ary_150!` (Parity) -/
def bool150 (a b c : UInt32) : UInt32 := a ^^^ b ^^^ c
/-- `bool3ary_232!` (Majority) -/
def bool232 (a b c : UInt32) : UInt32 := (a &&& b) ^^^ (a &&& c) ^^^ (b &&& c)

/-- the common body of `sha1rnds4c` / `sha1rnds4p` / `sha1rnds4m`, with the boolean function as
a parameter (the three Rust functions differ only in the macro they call) -/
def sha1rnds4 (fn : UInt32 → UInt32 → UInt32 → UInt32) (abcd msg : U32x4) : U32x4 :=
  let a := abcd.x0; let b := abcd.x1; let c := abcd.x2; let d := abcd.x3
  let t := msg.x0; let u := msg.x1; let v := msg.x2; let w := msg.x3
  let e : UInt32 := 0
  let e := e + rotl5 a + fn b c d + t
  let b := rotl30 b
  let d := d + rotl5 e + fn a b c + u
  let a := rotl30 a
  let c := c + rotl5 d + fn e a b + v
  let e := rotl30 e
  let b := b + rotl5 c + fn d e a + w
  let d := rotl30 d
  ⟨b, c, d, e⟩

def sha1rnds4c := sha1rnds4 bool202
def sha1rnds4p := sha1rnds4 bool150
def sha1rnds4m := sha1rnds4 bool232

/-- `sha1_digest_round_x4`; the Rust `match i` has a panicking default arm which no call site
reaches (`i` is a literal 0..3), hence `Fin 4`. -/
def sha1DigestRoundX4 (abcd work : U32x4) (i : Fin 4) : U32x4 :=
  match i with
  | 0 => sha1rnds4c abcd (work.add ⟨sha1K0, sha1K0, sha1K0, sha1K0⟩)
  | 1 => sha1rnds4p abcd (work.add ⟨sha1K1, sha1K1, sha1K1, sha1K1⟩)
  | 2 => sha1rnds4m abcd (work.add ⟨sha1K2, sha1K2, sha1K2, sha1K2⟩)
  | 3 => sha1rnds4p abcd (work.add ⟨sha1K3, sha1K3, sha1K3, sha1K3⟩)

/-- `schedule!` -/
def schedule (v0 v1 v2 v3 : U32x4) : U32x4 := sha1msg2 ((sha1msg1 v0 v1).xor v2) v3

/-- `rounds4!` -/
def rounds4 (h0 h1 wk : U32x4) (i : Fin 4) : U32x4 := sha1DigestRoundX4 h0 (sha1FirstHalf h1 wk) i

/-- `Sha1State` -/
structure State where
  s0 : UInt32
  s1 : UInt32
  s2 : UInt32
  s3 : UInt32
  s4 : UInt32

/-- the `for (i, word) in words.iter_mut().enumerate()` loop of `process`:
`word = block[off+3] | block[off+2] << 8 | block[off+1] << 16 | block[off] << 24` -/
def words : Bytes → List UInt32
  | b0 :: b1 :: b2 :: b3 :: rest =>
    (b3.toUInt32 ||| (b2.toUInt32 <<< 8) ||| (b1.toUInt32 <<< 16) ||| (b0.toUInt32 <<< 24)) :: words rest
  | _ => []

/-- body of `Sha1State::process` after the words have been read.  Rust re-uses the names
`w0..w4`, `h0`, `h1`; here every assignment gets a fresh name, the Rust name is in the comment. -/
def processWords (st : State)
    (m0 m1 m2 m3 m4 m5 m6 m7 m8 m9 m10 m11 m12 m13 m14 m15 : UInt32) : State :=
  -- Rounds 0..20
  let h0a : U32x4 := ⟨st.s0, st.s1, st.s2, st.s3⟩                 -- h0
  let w0 : U32x4 := ⟨m0, m1, m2, m3⟩                              -- w0
  let h1a := sha1DigestRoundX4 h0a (sha1FirstAdd st.s4 w0) 0       -- h1
  let w1 : U32x4 := ⟨m4, m5, m6, m7⟩                              -- w1
  let h0b := rounds4 h1a h0a w1 0                                  -- h0
  let w2 : U32x4 := ⟨m8, m9, m10, m11⟩                            -- w2
  let h1b := rounds4 h0b h1a w2 0                                  -- h1
  let w3 : U32x4 := ⟨m12, m13, m14, m15⟩                          -- w3
  let h0c := rounds4 h1b h0b w3 0                                  -- h0
  let w4 := schedule w0 w1 w2 w3                                   -- w4
  let h1c := rounds4 h0c h1b w4 0                                  -- h1
  -- Rounds 20..40
  let w5 := schedule w1 w2 w3 w4                                   -- w0
  let h0d := rounds4 h1c h0c w5 1                                  -- h0
  let w6 := schedule w2 w3 w4 w5                                   -- w1
  let h1d := rounds4 h0d h1c w6 1                                  -- h1
  let w7 := schedule w3 w4 w5 w6                                   -- w2
  let h0e := rounds4 h1d h0d w7 1                                  -- h0
  let w8 := schedule w4 w5 w6 w7                                   -- w3
  let h1e := rounds4 h0e h1d w8 1                                  -- h1
  let w9 := schedule w5 w6 w7 w8                                   -- w4
  let h0f := rounds4 h1e h0e w9 1                                  -- h0
  -- Rounds 40..60
  let w10 := schedule w6 w7 w8 w9                                  -- w0
  let h1f := rounds4 h0f h1e w10 2                                 -- h1
  let w11 := schedule w7 w8 w9 w10                                 -- w1
  let h0g := rounds4 h1f h0f w11 2                                 -- h0
  let w12 := schedule w8 w9 w10 w11                                -- w2
  let h1g := rounds4 h0g h1f w12 2                                 -- h1
  let w13 := schedule w9 w10 w11 w12                               -- w3
  let h0h := rounds4 h1g h0g w13 2                                 -- h0
  let w14 := schedule w10 w11 w12 w13                              -- w4
  let h1h := rounds4 h0h h1g w14 2                                 -- h1
  -- Rounds 60..80
  let w15 := schedule w11 w12 w13 w14                              -- w0
  let h0i := rounds4 h1h h0h w15 3                                 -- h0
  let w16 := schedule w12 w13 w14 w15                              -- w1
  let h1i := rounds4 h0i h1h w16 3                                 -- h1
  let w17 := schedule w13 w14 w15 w16                              -- w2
  let h0j := rounds4 h1i h0i w17 3                                 -- h0
  let w18 := schedule w14 w15 w16 w17                              -- w3
  let h1j := rounds4 h0j h1i w18 3                                 -- h1
  let w19 := schedule w15 w16 w17 w18                              -- w4
  let h0k := rounds4 h1j h0j w19 3                                 -- h0
  let e := rotl30 (sha1First h1j)
  ⟨st.s0 + h0k.x0, st.s1 + h0k.x1, st.s2 + h0k.x2, st.s3 + h0k.x3, st.s4 + e⟩

/-- `Sha1State::process(&mut self, block: &[u8; 64])`.  The Rust type guarantees 64 bytes
(`as_block` asserts it); for any other length the model leaves the state alone — unreachable,
and every theorem about `process` carries `block.length = 64`. -/
def process (st : State) (block : Bytes) : State :=
  match words block with
  | [m0, m1, m2, m3, m4, m5, m6, m7, m8, m9, m10, m11, m12, m13, m14, m15] =>
    processWords st m0 m1 m2 m3 m4 m5 m6 m7 m8 m9 m10 m11 m12 m13 m14 m15
  | _ => st

/-! ### buffering, padding, digest -/

/-- `Blocks { len, block: [u8; 64] }` -/
structure Blocks where
  len : UInt32
  block : Bytes

/-- `Sha1 { state, blocks, len }` -/
structure Hasher where
  state : State
  blocks : Blocks
  len : UInt64

def defaultState : State := ⟨sha1H0, sha1H1, sha1H2, sha1H3, sha1H4⟩

/-- `Sha1::new` -/
def new : Hasher := ⟨defaultState, ⟨0, List.replicate 64 0⟩, 0⟩

/-- `dst[off .. off + src.len()].clone_from_slice(src)` on a buffer held as a list -/
def writeAt (dst : Bytes) (off : Nat) (src : Bytes) : Bytes :=
  dst.take off ++ src ++ dst.drop (off + src.length)

/-- the closure passed to `Blocks::input` by `Sha1::update`: `len += 64; state.process(block)`;
`cf` stands for `Sha1State::process` -/
def feed (cf : State → Bytes → State) (h : Hasher) (block : Bytes) : Hasher :=
  { h with len := h.len + 64, state := cf h.state block }

/-- the `for chunk in input.chunks(64)` loop of `Blocks::input`; `fuel` bounds the number of
iterations (`input.length / 64 + 1` suffices) -/
def chunksLoop (cf : State → Bytes → State) : Nat → Hasher → Bytes → Hasher
  | 0, h, _ => h
  | fuel + 1, h, input =>
    if input.isEmpty then h else
    let chunk := input.take 64
    if chunk.length = 64 then chunksLoop cf fuel (feed cf h chunk) (input.drop 64)
    else chunksLoop cf fuel
      { h with blocks := ⟨chunk.length.toUInt32, writeAt h.blocks.block 0 chunk⟩ } (input.drop 64)

/-- `Sha1::update` = `Blocks::input` with the closure above -/
def update (cf : State → Bytes → State) (h : Hasher) (data : Bytes) : Hasher :=
  if h.blocks.len > 0 then
    let len := h.blocks.len.toNat
    let amt := min data.length (64 - len)
    let block := writeAt h.blocks.block len (data.take amt)
    if len + amt = 64 then
      let h := feed cf { h with blocks := ⟨0, block⟩ } block
      let input := data.drop amt
      chunksLoop cf (input.length / 64 + 1) h input
    else
      { h with blocks := ⟨h.blocks.len + amt.toUInt32, block⟩ }
  else
    chunksLoop cf (data.length / 64 + 1) h data

/-- `Sha1::from(data)` -/
def «from» (cf : State → Bytes → State) (data : Bytes) : Hasher := update cf new data

/-- `Sha1::digest` (the resulting `Digest.data`).  `bits` is computed in `u64`; in a build with
overflow checks the Rust panics for messages of 2^61 bytes or more (not realisable). -/
def digest (cf : State → Bytes → State) (h : Hasher) : State :=
  let state := h.state
  let bits : UInt64 := (h.len + h.blocks.len.toUInt64) * 8
  -- `[(bits >> 56) as u8, …, (bits >> 0) as u8]`; the shift amounts, the `blocklen < 56` threshold,
  -- the 0x80 marker and the two copy offsets are read from the source on every run (T1)
  let extra : Bytes := sha1TrailerShifts.map (fun s => (bits >>> s).toUInt8)
  let last : Bytes := List.replicate 128 0
  let blocklen := h.blocks.len.toNat
  let last := writeAt last 0 (h.blocks.block.take blocklen)
  let last := writeAt last blocklen [sha1PadMarker]
  if blocklen < sha1PadThreshold then
    let last := writeAt last sha1TrailerOffShort extra
    cf state (last.take 64)
  else
    let last := writeAt last sha1TrailerOffLong extra
    let state := cf state (last.take 64)
    cf state ((last.drop 64).take 64)

/-- `Digest::bytes` -/
def digestBytes (s : State) : Bytes :=
  [(s.s0 >>> 24).toUInt8, (s.s0 >>> 16).toUInt8, (s.s0 >>> 8).toUInt8, (s.s0 >>> 0).toUInt8,
   (s.s1 >>> 24).toUInt8, (s.s1 >>> 16).toUInt8, (s.s1 >>> 8).toUInt8, (s.s1 >>> 0).toUInt8,
   (s.s2 >>> 24).toUInt8, (s.s2 >>> 16).toUInt8, (s.s2 >>> 8).toUInt8, (s.s2 >>> 0).toUInt8,
   (s.s3 >>> 24).toUInt8, (s.s3 >>> 16).toUInt8, (s.s3 >>> 8).toUInt8, (s.s3 >>> 0).toUInt8,
   (s.s4 >>> 24).toUInt8, (s.s4 >>> 16).toUInt8, (s.s4 >>> 8).toUInt8, (s.s4 >>> 0).toUInt8]

/-- `Sha1::from(data).digest().bytes()` with the compression function as a parameter -/
def sha1With (cf : State → Bytes → State) (data : Bytes) : Bytes :=
  digestBytes (digest cf («from» cf data))

/-- `Sha1::from(data).digest().bytes().to_vec()` — what `FileInfo::new` stores -/
def sha1 (data : Bytes) : Bytes := sha1With process data

end Physis.Sha1
