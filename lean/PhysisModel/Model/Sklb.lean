import PhysisModel.Base.ReaderC16
import PhysisModel.Model.Havok
/-!
Model of `src/skeleton.rs`: the binrw `SKLB` container header (magic `blks`, version, version-dependent
header with the offset of the Havok data, `raw_data` = everything from that offset to the end of the
file) and `Skeleton::from_existing`.

A binrw read error (bad magic, short header, a version that is neither `0x31323030` nor
`0x3133303{0,1}`) is `None`, and so is everything that goes wrong inside the Havok reader and the
extraction (since the fixes `C18-70..76`; a panic before them).
-/
namespace Physis.Sklb
open Physis

/-- the `havok_offset` of the header, or the way the header read ends -/
def havokOffset (file : Bytes) : Outcome Nat :=
  match Rd.u32le file with
  | none => .none
  | some (magic, b) =>
    if magic != 0x736B6C62 then .none
    else
      match Rd.u32le b with
      | none => .none
      | some (version, b) =>
        if version == 0x31323030 then
          -- SklbV1: unk_offset u16, havok_offset u16, body_id + three mapper ids u32
          match Rd.u16le b with
          | none => .none
          | some (_, b) =>
            match Rd.u16le b with
            | none => .none
            | some (off, b) =>
              match Rd.u32s 4 b with
              | none => .none
              | some _ => .ok off.toNat
        else if version == 0x31333030 || version == 0x31333031 then
          -- SklbV2: unk_offset, havok_offset, unk, body_id, three mapper ids (all u32)
          match Rd.u32s 7 b with
          | some ([_, off, _, _, _, _, _], _) => .ok off.toNat
          | _ => .none
        -- `#[br(assert(version == ..))]`: any other version is a read error
        else .none

/-- `Skeleton::from_existing` over a tag-file reader `rd` -/
def fromExistingWith (rd : Bytes → Option (List Havok.Obj)) (file : Bytes) : Outcome (List Havok.Bone) :=
  match havokOffset file with
  | .ok off =>
    -- `seek_before(SeekFrom::Start(havok_offset))` + `until_eof`
    match rd (Rd.seekTo file off) with
    | none => .none
    | some objs =>
      match Havok.extract objs with
      | .bones l => .ok l
      | .reject => .none
      | .unmodelled => .unmodelled
  | .none => .none
  | .panic => .panic
  | .diverges => .diverges
  | .unmodelled => .unmodelled

/-- `Skeleton::from_existing` (the reader without the struct-element bound, see `Model/Havok.lean`) -/
def fromExisting (file : Bytes) : Outcome (List Havok.Bone) := fromExistingWith Havok.read file

/-- `Skeleton::from_existing` with the reader's bound on the number of struct-array elements -/
def fromExistingBounded (file : Bytes) : Outcome (List Havok.Bone) := fromExistingWith Havok.readBounded file

end Physis.Sklb
