import PhysisModel.Base.ParserA
/-!
Fault-tracking model of `ShaderPackage::from_existing` and `ShaderPackage::find_node`
(`src/shpk.rs`) — C18 part `mat`.

`fx = true` is the code with `fixes/C18-33…35` (the model the theorems are about); `fx = false` is
the pinned commit, kept for the witness theorems:

* `shpk.rs:147`, `shpk.rs:29` — `String::from_utf8(x).unwrap()` on the format tag / a parameter
  name (repaired: `try_map`, a parse error);
* `Shader.additional_data` (`count = shader_data_offset`) and `Shader.bytecode`
  (`count = data_size`): `Vec<u8>` whose count is a `u32` field — binrw reserves the whole count
  before reading (repaired: `parse_with = read_blob`, `take(count).read_to_end`, the buffer grows
  with the data that exists);
* `shpk.rs:238` — `&self.nodes[alias.node]` (repaired: `self.nodes.get(..)`).

`build_selector*` use wrapping arithmetic on slices and `crc` is C12's table walk: they cannot
panic and take no parsed input, so they are not modelled here.
-/
namespace Physis.C18Shpk
open Physis Physis.A

@[inline] def oob {α : Type} (fx : Bool) (f : Fault) : Res α := if fx then .fail else .panic f

def u16Nat : P Nat := P.map UInt16.toNat P.u16le
def u32Nat : P Nat := P.map UInt32.toNat P.u32le

/-- `String::from_utf8(x)`: repaired `try_map` (error), pinned `.unwrap()` (panic) -/
def utf8 (fx : Bool) (x : Bytes) : Res Unit := if Utf8.valid x then .ok () else oob fx .utf8

/-- a `Vec<u8>` whose count is a `u32` field of the file -/
def blob (fx : Bool) (n : Nat) : P Bytes := if fx then P.countBytesChecked n else P.countBytes n

/-- `ResourceParameter` (import `strings_offset`): 16 bytes, then the name read at
`strings_offset + local_string_offset` under `restore_position`.  The value is the number of
bytes read for the name (what the parameter keeps on the heap, see `Pkg.held`). -/
def resourceParameter (fx : Bool) (stringsOffset : Nat) : P Nat := do
  let _ ← P.u32le                                   -- id
  let localOff ← P.u32le
  let len ← P.u16le
  let _ ← P.u16le                                   -- unknown
  let _ ← P.u16le                                   -- slot
  let _ ← P.u16le                                   -- size
  P.restorePosition (do
    P.seekStart (stringsOffset + localOff.toNat)
    let x ← P.countBytes len.toNat                  -- count from a u16
    P.lift (utf8 fx x)
    pure len.toNat)

def sum (l : List Nat) : Nat := l.foldl (· + ·) 0

/-- `count` of a vertex shader's `additional_data`.  At the pinned commit (+ the C18 fixes) it is
`shader_data_offset`.  **C14's patch `C14-02` changes it to the constant 8**: when that patch is in
the tree under test, replace the body by `8` (nothing else in the model or the proofs depends on
the value — the blob reader is allocation-safe for every count). -/
def vertexAdditionalLen (_shaderDataOffset : Nat) : Nat := 8   -- C14-02 is in the tree under test

/-- `Shader` (imports `shader_data_offset`, `strings_offset`, `is_vertex`); the value is the number
of name and blob bytes the shader keeps -/
def shader (fx : Bool) (sdo so : Nat) (isVertex : Bool) : P Nat := do
  let dataOffset ← u32Nat
  let dataSize ← u32Nat
  let c1 ← u16Nat
  let c2 ← u16Nat
  let c3 ← u16Nat
  let c4 ← u16Nat
  let n1 ← P.count c1 (resourceParameter fx so)
  let n2 ← P.count c2 (resourceParameter fx so)
  let n3 ← P.count c3 (resourceParameter fx so)
  let n4 ← P.count c4 (resourceParameter fx so)
  let a ← P.restorePosition (do
    P.seekStart (sdo + dataOffset)
    blob fx (if isVertex then vertexAdditionalLen sdo else 0))
  let c ← P.restorePosition (do
    P.seekStart (sdo + dataOffset + (if isVertex then 8 else 0))
    blob fx dataSize)
  pure (sum n1 + sum n2 + sum n3 + sum n4 + a.length + c.length)

/-- `MaterialParameter { id: u32, byte_offset: u16, byte_size: u16 }` -/
def materialParameter : P Unit := do let _ ← P.u32le; let _ ← P.u16le; let _ ← P.u16le; pure ()
/-- `Key { id: u32, default_value: u32 }` -/
def key : P Unit := do let _ ← P.u32le; let _ ← P.u32le; pure ()
/-- `Pass { id, vertex_shader, pixel_shader: u32 }` -/
def pass : P Unit := do let _ ← P.u32le; let _ ← P.u32le; let _ ← P.u32le; pure ()

/-- `Node` (imports the four key counts) → its selector -/
def node (sysC sceneC matC subC : Nat) : P Nat := do
  let selector ← u32Nat
  let passCount ← u32Nat
  let _ ← P.bytes 16                                -- pass_indices: [u8; 16]
  let _ ← P.countInts sysC 4                        -- Vec<u32>: chunked reads
  let _ ← P.countInts sceneC 4
  let _ ← P.countInts matC 4
  let _ ← P.countInts subC 4
  let _ ← P.count passCount pass
  pure selector

/-- `NodeAlias { selector: u32, node: u32 }` -/
def nodeAlias : P (Nat × Nat) := do
  let s ← u32Nat
  let n ← u32Nat
  pure (s, n)

def shpkMagic : Bytes := [0x53, 0x68, 0x50, 0x6b]      -- "ShPk"

/-- the parsed package as far as `find_node` looks at it -/
structure Pkg where
  nodes : Nat                       -- `nodes.len()`
  selectors : List (Nat × Nat)      -- `node_selectors`
  /-- total number of bytes read into parameter names and shader blobs.  Every one of them is an
  allocation of its own and the regions they are read from may overlap, so this — not the input
  length — is what the parsed package keeps on the heap (finding `shpk.shared-region-amplification`). -/
  held : Nat
  deriving Repr, Inhabited

/-- `(node.selector, i as u32)` for every node, in order -/
def enumSelectors : List Nat → Nat → List (Nat × Nat) → List (Nat × Nat)
  | [], _, acc => acc.reverse
  | s :: r, i, acc => enumSelectors r (i + 1) ((s, i % 4294967296) :: acc)

/-- `ShaderPackage::read` followed by the two loops of `from_existing` -/
def shpkFile (fx : Bool) : P Pkg := do
  P.magic shpkMagic
  let _ ← P.u32le                                   -- version
  let fmt ← P.countBytes 4                          -- format
  P.lift (utf8 fx fmt)
  let _ ← P.u32le                                   -- file_length
  let sdo ← u32Nat
  let so ← u32Nat
  let vsCount ← u32Nat
  let psCount ← u32Nat
  let matParamsSize ← P.u32le
  let matParamCount ← u16Nat
  let hasDefaults ← P.u16le
  let scalarCount ← u16Nat
  let _ ← P.u16le                                   -- unknown1
  let samplerCount ← u16Nat
  let textureCount ← u16Nat
  let uavCount ← u16Nat
  let _ ← P.u16le                                   -- unknown2
  let sysC ← u32Nat
  let sceneC ← u32Nat
  let matC ← u32Nat
  let nodeCount ← u32Nat
  let aliasCount ← u32Nat
  let vs ← P.count vsCount (shader fx sdo so true)
  let ps ← P.count psCount (shader fx sdo so false)
  let _ ← P.count matParamCount materialParameter
  -- `count = if has_mat_param_defaults == 1 { (size as i32) >> 2 } else { 0 }`; binrw converts the
  -- count with `usize::try_from`, so a negative value is an (ordinary) error
  let _ ← (if hasDefaults == 1 then
      (if matParamsSize.toNat < 2147483648 then P.count (matParamsSize.toNat / 4) P.f32le else P.failP)
    else P.count 0 P.f32le)
  let p1 ← P.count scalarCount (resourceParameter fx so)
  let p2 ← P.count samplerCount (resourceParameter fx so)
  let p3 ← P.count textureCount (resourceParameter fx so)
  let p4 ← P.count uavCount (resourceParameter fx so)
  let _ ← P.count sysC key
  let _ ← P.count sceneC key
  let _ ← P.count matC key
  let _ ← P.u32le                                   -- sub_view_key1_default
  let _ ← P.u32le                                   -- sub_view_key2_default
  let nodes ← P.count nodeCount (node sysC sceneC matC 2)
  let aliases ← P.count aliasCount nodeAlias
  pure ⟨nodes.length, enumSelectors nodes 0 [] ++ aliases,
        sum vs + sum ps + sum p1 + sum p2 + sum p3 + sum p4⟩

def shpkAt (fx : Bool) (b : Bytes) : Res Pkg := P.run (shpkFile fx) b

/-- `find_node`: the first entry of `node_selectors` with the selector decides -/
def findNode (fx : Bool) (nodes : Nat) : List (Nat × Nat) → Nat → Res Unit
  | [], _ => .fail
  | (s, n) :: r, sel =>
    if s == sel then (if n < nodes then .ok () else oob fx .index)
    else findNode fx nodes r sel

def shpknodeAt (fx : Bool) (b : Bytes) (sel : Nat) : Res Unit := do
  let p ← shpkAt fx b
  findNode fx p.nodes p.selectors sel

/-- input class of the recorded finding `shpk.shared-region-amplification`: the package parses and
its names and blobs add up to more than the constant part of the allocation budget -/
def amplifies (b : Bytes) : Bool :=
  match (shpkAt true b).out with
  | .ok p => decide (p.held > 16777216)
  | _ => false

/-- `ShaderPackage::from_existing` with `fixes/C18-33…35` -/
def shpk (b : Bytes) : Res Pkg := shpkAt true b
/-- `from_existing(b).and_then(|p| p.find_node(sel))` with the fixes -/
def shpknode (b : Bytes) (sel : Nat) : Res Unit := shpknodeAt true b sel
/-- the same at the pinned commit -/
def shpkPinned (b : Bytes) : Res Pkg := shpkAt false b
def shpknodePinned (b : Bytes) (sel : Nat) : Res Unit := shpknodeAt false b sel

end Physis.C18Shpk
