import PhysisModel.Base.Bytes
/-!
An executable model of raw DEFLATE decompression (RFC 1951: stored, fixed-Huffman and
dynamic-Huffman blocks), standing for `libz-rs-sys`' `inflate` with `windowBits = -15` as used by
`src/compression.rs` (`no_header_decompress`).  It is *not* a model of zlib's code; it is the
format's definition made executable, and it is correspondence-checked against zlib on streams
produced by zlib's own `deflate` at several levels/strategies (C02's check).

Structure follows the RFC (and Mark Adler's `puff`): a bit reader (LSB first), canonical Huffman
decoding from code lengths, the three block kinds, LZ77 copy from the output produced so far.
All loops take fuel; `inflate` supplies enough fuel for any input (each step consumes at least
one input bit or emits output bounded by the remaining budget).
-/
namespace Physis.Inflate

structure Bits where
  data : Array UInt8
  pos : Nat            -- position in bits

def Bits.bit (r : Bits) : Option (Nat × Bits) :=
  if h : r.pos / 8 < r.data.size then
    some (((r.data[r.pos / 8]).toNat >>> (r.pos % 8)) % 2, { r with pos := r.pos + 1 })
  else none

/-- `n` bits, least significant first (RFC 1951 §3.1.1) -/
def Bits.bits : Nat → Bits → Option (Nat × Bits)
  | 0, r => some (0, r)
  | n + 1, r =>
    match r.bit with
    | none => none
    | some (b, r) =>
      match Bits.bits n r with
      | none => none
      | some (v, r) => some (b + 2 * v, r)

def Bits.align (r : Bits) : Bits := { r with pos := (r.pos + 7) / 8 * 8 }

/-- canonical Huffman code described by its code lengths (RFC 1951 §3.2.2) -/
structure Huffman where
  count : Array Nat     -- count[len] for len 0..15
  symbol : Array Nat    -- symbols ordered by (length, symbol)

def mkHuffman (lens : List Nat) : Huffman :=
  let count := (List.range 16).map (fun l => (lens.filter (· == l)).length)
  let symbol := (List.range 16).flatMap (fun l =>
    if l == 0 then [] else
      (lens.zipIdx.filter (fun p => p.1 == l)).map (·.2))
  { count := count.toArray, symbol := symbol.toArray }

/-- the code is neither over-subscribed nor (unless it has a single 1-bit code… zlib's rule)
incomplete; `left` is the number of unused codes after the longest length -/
def Huffman.left (h : Huffman) : Int :=
  (List.range 15).foldl (fun (left : Int) l => left * 2 - (h.count.getD (l + 1) 0 : Nat)) 1

/-- decode one symbol: walk lengths 1..15 (puff's `decode`) -/
def Huffman.decodeAux (h : Huffman) : Nat → Nat → Nat → Nat → Nat → Bits → Option (Nat × Bits)
  | 0, _, _, _, _, _ => none
  | fuel + 1, len, code, first, index, r =>
    match r.bit with
    | none => none
    | some (b, r) =>
      let code := code + b
      let count := h.count.getD len 0
      if code < first + count then
        match h.symbol[index + (code - first)]? with
        | some s => some (s, r)
        | none => none
      else
        Huffman.decodeAux h fuel (len + 1) ((code) * 2) ((first + count) * 2) (index + count) r

def Huffman.decode (h : Huffman) (r : Bits) : Option (Nat × Bits) :=
  Huffman.decodeAux h 15 1 0 0 0 r

def lengthBase : Array Nat := #[3,4,5,6,7,8,9,10,11,13,15,17,19,23,27,31,35,43,51,59,67,83,99,115,131,163,195,227,258]
def lengthExtra : Array Nat := #[0,0,0,0,0,0,0,0,1,1,1,1,2,2,2,2,3,3,3,3,4,4,4,4,5,5,5,5,0]
def distBase : Array Nat := #[1,2,3,4,5,7,9,13,17,25,33,49,65,97,129,193,257,385,513,769,1025,1537,2049,3073,4097,6145,8193,12289,16385,24577]
def distExtra : Array Nat := #[0,0,0,0,1,1,2,2,3,3,4,4,5,5,6,6,7,7,8,8,9,9,10,10,11,11,12,12,13,13]

/-- copy `len` bytes starting `dist` back (may overlap the bytes being written) -/
def copyBack : Nat → Nat → Array UInt8 → Option (Array UInt8)
  | 0, _, out => some out
  | len + 1, dist, out =>
    if dist = 0 ∨ dist > out.size then none else
    match out[out.size - dist]? with
    | some b => copyBack len dist (out.push b)
    | none => none

/-- the literal/length + distance loop of one compressed block (puff's `codes`) -/
def codes (lit dist : Huffman) : Nat → Bits → Array UInt8 → Option (Bits × Array UInt8)
  | 0, _, _ => none
  | fuel + 1, r, out =>
    match lit.decode r with
    | none => none
    | some (sym, r) =>
      if sym < 256 then codes lit dist fuel r (out.push (UInt8.ofNat sym))
      else if sym = 256 then some (r, out)
      else
        let i := sym - 257
        match lengthBase[i]?, lengthExtra[i]? with
        | some lb, some le =>
          match r.bits le with
          | none => none
          | some (e, r) =>
            let len := lb + e
            match dist.decode r with
            | none => none
            | some (ds, r) =>
              match distBase[ds]?, distExtra[ds]? with
              | some db, some de =>
                match r.bits de with
                | none => none
                | some (e2, r) =>
                  match copyBack len (db + e2) out with
                  | none => none
                  | some out => codes lit dist fuel r out
              | _, _ => none
        | _, _ => none

def fixedLit : Huffman :=
  mkHuffman ((List.replicate 144 8) ++ (List.replicate 112 9) ++ (List.replicate 24 7) ++ (List.replicate 8 8))
def fixedDist : Huffman := mkHuffman (List.replicate 30 5)

def clOrder : List Nat := [16, 17, 18, 0, 8, 7, 9, 6, 10, 5, 11, 4, 12, 3, 13, 2, 14, 1, 15]

/-- read `n` 3-bit code-length-code lengths -/
def readClLens : Nat → Bits → Option (List Nat × Bits)
  | 0, r => some ([], r)
  | n + 1, r =>
    match r.bits 3 with
    | none => none
    | some (v, r) =>
      match readClLens n r with
      | none => none
      | some (vs, r) => some (v :: vs, r)

/-- run-length decode the literal/length and distance code lengths (RFC 1951 §3.2.7) -/
def readLens (cl : Huffman) (total : Nat) : Nat → Bits → List Nat → Option (List Nat × Bits)
  | 0, _, _ => none
  | fuel + 1, r, acc =>
    if acc.length ≥ total then some (acc, r) else
    match cl.decode r with
    | none => none
    | some (sym, r) =>
      if sym < 16 then readLens cl total fuel r (acc ++ [sym])
      else if sym = 16 then
        match acc.getLast?, r.bits 2 with
        | some prev, some (e, r) =>
          let acc := acc ++ List.replicate (3 + e) prev
          if acc.length > total then none else readLens cl total fuel r acc
        | _, _ => none
      else if sym = 17 then
        match r.bits 3 with
        | some (e, r) =>
          let acc := acc ++ List.replicate (3 + e) 0
          if acc.length > total then none else readLens cl total fuel r acc
        | none => none
      else
        match r.bits 7 with
        | some (e, r) =>
          let acc := acc ++ List.replicate (11 + e) 0
          if acc.length > total then none else readLens cl total fuel r acc
        | none => none

def putAt (l : List Nat) (i v : Nat) : List Nat := l.set i v

def dynamicTables (r : Bits) : Option (Huffman × Huffman × Bits) :=
  match r.bits 5 with
  | none => none
  | some (hlit, r) =>
  match r.bits 5 with
  | none => none
  | some (hdist, r) =>
  match r.bits 4 with
  | none => none
  | some (hclen, r) =>
    let nlen := hlit + 257
    let ndist := hdist + 1
    let ncode := hclen + 4
    if nlen > 286 ∨ ndist > 30 then none else
    match readClLens ncode r with
    | none => none
    | some (cls, r) =>
      let clLens := (clOrder.zip cls).foldl (fun acc p => putAt acc p.1 p.2) (List.replicate 19 0)
      let cl := mkHuffman clLens
      if cl.left ≠ 0 then none else      -- the code-length code must be complete
      match readLens cl (nlen + ndist) (nlen + ndist + 1) r [] with
      | none => none
      | some (lens, r) =>
        let ll := lens.take nlen
        let dl := lens.drop nlen
        if ll.getD 256 0 = 0 then none else     -- no end-of-block code
        let lit := mkHuffman ll
        let dist := mkHuffman dl
        -- over-subscribed sets are invalid; incomplete sets are accepted only with a single code
        if lit.left < 0 ∨ (lit.left > 0 ∧ nlen - lit.count.getD 0 0 ≠ 1) then none else
        if dist.left < 0 ∨ (dist.left > 0 ∧ ndist - dist.count.getD 0 0 ≠ 1) then none else
        some (lit, dist, r)

def stored (r : Bits) (out : Array UInt8) : Option (Bits × Array UInt8) :=
  let r := r.align
  let p := r.pos / 8
  if p + 4 > r.data.size then none else
  let len := (r.data.getD p 0).toNat + 256 * (r.data.getD (p + 1) 0).toNat
  let nlen := (r.data.getD (p + 2) 0).toNat + 256 * (r.data.getD (p + 3) 0).toNat
  if len + nlen ≠ 65535 then none else
  if p + 4 + len > r.data.size then none else
  some ({ r with pos := (p + 4 + len) * 8 }, out ++ r.data.extract (p + 4) (p + 4 + len))

def blocks : Nat → Nat → Bits → Array UInt8 → Option (Array UInt8)
  | 0, _, _, _ => none
  | fuel + 1, cfuel, r, out =>
    match r.bit with
    | none => none
    | some (final, r) =>
      match r.bits 2 with
      | none => none
      | some (btype, r) =>
        let res :=
          if btype = 0 then stored r out
          else if btype = 1 then codes fixedLit fixedDist cfuel r out
          else if btype = 2 then
            match dynamicTables r with
            | none => none
            | some (lit, dist, r) => codes lit dist cfuel r out
          else none
        match res with
        | none => none
        | some (r, out) => if final = 1 then some out else blocks fuel cfuel r out

/-- decompress a complete raw DEFLATE stream; `none` for a malformed or truncated stream.
Fuel: every block consumes ≥ 3 bits and every symbol ≥ 1 bit, so `8·|c| + 1` suffices for both. -/
def inflateArr (c : Array UInt8) : Option (Array UInt8) :=
  blocks (8 * c.size + 1) (8 * c.size + 1) { data := c, pos := 0 } #[]

def inflate (c : Bytes) : Option Bytes := (inflateArr c.toArray).map Array.toList

/-- what `no_header_decompress` checks on the encodings the theorems are about: the stream
inflates to exactly `n` bytes (`inflatesTo_stored`) -/
def inflatesTo (c : Bytes) (n : Nat) : Option Bytes :=
  match inflate c with
  | some d => if d.length = n then some d else none
  | none => none

/-- `no_header_decompress(c, out)` with `out` a zeroed buffer of `n` bytes is ONE `inflate` call with
`avail_out = n`, accepted iff it returns `Z_STREAM_END`: the stream has to end inside the buffer.
A stream that yields more than `n` bytes is rejected; one that yields FEWER is accepted, and the
bytes of the buffer behind the stream's output are whatever the inflater left there (zlib-rs copies
matches in chunks and may write past the logical end of its output inside the space it was given:
observed, not specified).  This variant zero-fills them; the damaged-entry family (`mut`) compares
it with `inflatesTo` and skips the cases where the two differ — those whose answer depends on the
unspecified bytes. -/
def inflatesToFill (c : Bytes) (n : Nat) : Option Bytes :=
  match inflate c with
  | some d => if d.length ≤ n then some (d ++ List.replicate (n - d.length) 0) else none
  | none => none

end Physis.Inflate
