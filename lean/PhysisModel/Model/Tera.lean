import PhysisModel.Base.ReaderC16
import PhysisModel.Model.F32Arith
/-!
Model of `src/tera.rs`: `TerrainHeader` (binrw, little endian, `pad_before = 32` before the
positions, `count = plate_count`), `Terrain::from_existing` and `Terrain::write_to_buffer`.
-/
namespace Physis.Tera
open Physis.F32Arith

structure PlateModel where
  x : UInt32
  y : UInt32
  filename : Bytes
  deriving DecidableEq, Repr

/-- `#[br(count = plate_count)] positions: Vec<PlatePosition>` -/
def readPositions : Nat → Bytes → Option (List (UInt16 × UInt16))
  | 0, _ => some []
  | n + 1, b =>
    match Rd.u16le b with
    | some (x, r) =>
      match Rd.u16le r with
      | some (y, r') => (readPositions n r').map ((x, y) :: ·)
      | none => none
    | none => none

/-- `header.plate_size as f32 * (pos as f32 + 0.5)` -/
def centre (plateSize : UInt32) (c : UInt16) : UInt32 := mul (ofU32 plateSize) (add (ofI16 c) half)

/-- the `for i in 0..header.plate_count` loop -/
def platesFrom (plateSize : UInt32) (i : Nat) : List (UInt16 × UInt16) → List PlateModel
  | [] => []
  | p :: ps =>
    ⟨centre plateSize p.1, centre plateSize p.2, fmtDec04 i ++ [0x2e, 0x6d, 0x64, 0x6c]⟩ ::
      platesFrom plateSize (i + 1) ps

def fromExisting (buffer : Bytes) : Option (List PlateModel) :=
  match Rd.u32le buffer with
  | none => none
  | some (_version, r) =>
  match Rd.u32le r with
  | none => none
  | some (plateCount, r) =>
  match Rd.u32le r with
  | none => none
  | some (plateSize, r) =>
  match Rd.u32le r with
  | none => none
  | some (_clip, r) =>
  match Rd.u32le r with
  | none => none
  | some (_unknown, r) =>
  match readPositions plateCount.toNat (Rd.skip 32 r) with
  | none => none
  | some positions => some (platesFrom plateSize 0 positions)

/-- `((position / plate_size as f32) - 0.5) as i16` with the local `plate_size = 128` -/
def coord (p : UInt32) : UInt16 := toI16 (sub (divPow2 p 7) half)

/-- `Terrain::write_to_buffer` (always `Some`: writing into a `Vec` cannot fail) -/
def writeToBuffer (plates : List PlateModel) : Bytes :=
  putU32le 0x1000003 ++ (putU32le (UInt32.ofNat plates.length) ++ (putU32le 128 ++
    (putU32le 0 ++ (putU32le one ++ (List.replicate 32 0 ++
      plates.flatMap (fun m => putU16le (coord m.x) ++ putU16le (coord m.y)))))))

end Physis.Tera
