import PhysisModel.Base.ParserA
import PhysisModel.Base.ParserASkel
import PhysisModel.Model.C18Hdr
/-!
Fault-tracking models (C18, part `skel`) of

* `src/pbd.rs`   `PreBoneDeformer::from_existing` and `PreBoneDeformer::get_deform_matrices`
                 (name reads through `strings_parser` of `src/common_file_operations.rs`; link /
                 deformer indexing; the walk along parent links — termination),
* `src/tera.rs`  `Terrain::from_existing` (`positions[i]` for `i < plate_count`).

They mirror the **repaired** code (`fixes/C18-40…42`); the `…Unfixed` variants keep the behaviour of
the pinned commit for the witness theorems.

Two facts about the language are used (as in `C18Fmt.tex`): a slice is never longer than
`isize::MAX` bytes, so (1) a cursor position `≥ 2^63` (a negative `i32` offset cast to `u64`) is past
the end of every input and the next read reports end-of-input, and (2) a counter that stays below
the length of a `Vec` cannot overflow `usize`.
-/
namespace Physis.C18Skel
open Physis Physis.A Physis.C18Hdr

/-! ## pbd: parsing -/

/-- `RacialDeformer` as far as faults are concerned: the lengths of the three vectors -/
structure Deformer where
  boneCount : Nat          -- `bone_count` (an `i32 ≥ 0`: a negative count fails the parse)
  names : Nat              -- `bone_names.len()`
  transforms : Nat         -- `transform.len()`
  deriving Repr, Inhabited

structure Item where
  body : Nat               -- `body_id: u16`
  link : UInt16            -- `link_index: i16` (bit pattern)
  deformer : Deformer
  deriving Repr, Inhabited

structure Link where
  parent : UInt16          -- `parent_index: i16` (bit pattern; `-1` = 0xFFFF is the sentinel)
  sibling : UInt16         -- `next_sibling_index: i16`
  deformerIndex : Nat      -- `deformer_index: u16`
  deriving Repr, Inhabited

structure Header where
  items : Array Item
  links : Array Link
  deriving Repr, Inhabited

/-- one round of `strings_parser`: `base_offset + *offset as u64` (u64 arithmetic, checked in a debug
build), `seek(Start(..))`, then the byte loop (repaired: `read_le::<u8>()?`) -/
def nameAt (base : Nat) (off : UInt16) : P Unit := do
  let so ← P.lift (addC U64MAX base off.toNat)
  P.seekStart so
  P.cstr

/-- the byte loop at the pinned commit: `read_le::<u8>().unwrap()` -/
def nameAtUnfixed (base : Nat) (off : UInt16) : P Unit := do
  let so ← P.lift (addC U64MAX base off.toNat)
  P.seekStart so
  fun w s => match P.cstr w s with
    | ⟨.fail _, k⟩ => ⟨.fault .unwrap, k⟩
    | r => r

/-- `strings_parser(base_offset, &offsets)`: one `String` per offset -/
def stringsParser (base : Nat) (offs : List UInt16) : P Nat := P.forEach offs (nameAt base)
def stringsParserUnfixed (base : Nat) (offs : List UInt16) : P Nat := P.forEach offs (nameAtUnfixed base)

/-- `count = n` where `n: i32`: `usize::try_from(n)` fails for a negative value (`AssertFail`, an
ordinary non-EOF error) -/
def i32Count (v : UInt32) : P Nat := if v.toNat < 2147483648 then pure v.toNat else P.failP

/-- `RacialDeformer` read at `data_offset = base` (`0 ≤ base < 2^31`).
`Vec<u16>` is binrw's chunked integer read and `[f32; 12]` twelve float reads: both are
all-or-end-of-input without an up-front reservation, i.e. `count` of fixed-width reads. -/
def deformerWith (strings : Nat → List UInt16 → P Nat) (base : Nat) : P Deformer := do
  let bc ← P.u32le
  let n ← i32Count bc
  let offs ← P.count n P.u16le
  let names ← P.restorePosition (strings base offs)
  let _ ← P.ifCond (n % 2 != 0) P.u16le 0          -- `if((bone_count & 1) != 0)` padding
  let tr ← P.count n (P.bytes 48)
  pure ⟨n, names, tr.length⟩

/-- `seek_before = SeekFrom::Start(data_offset as u64)` with `data_offset: i32`, then the deformer -/
def deformerAtWith (strings : Nat → List UInt16 → P Nat) (dataOffset : UInt32) : P Deformer :=
  if dataOffset.toNat < 2147483648 then do
    P.seekStart dataOffset.toNat
    deformerWith strings dataOffset.toNat
  else
    -- position ≥ 2^63: beyond the end of every slice; reading `bone_count` reports end-of-input
    P.eofP

def itemWith (strings : Nat → List UInt16 → P Nat) : P Item := do
  let body ← u16leNat
  let link ← P.u16le
  let dataOffset ← P.u32le
  P.skip 4                                         -- pad_after = 4
  let d ← P.restorePosition (deformerAtWith strings dataOffset)
  pure ⟨body, link, d⟩

def link : P Link := do
  let parent ← P.u16le
  let _ ← P.u16le                                  -- first_child_index
  let sibling ← P.u16le
  let di ← u16leNat
  pure ⟨parent, sibling, di⟩

def headerWith (strings : Nat → List UInt16 → P Nat) : P Header := do
  let c ← P.u32le
  let n ← i32Count c
  let items ← P.count n (itemWith strings)
  let links ← P.count n link
  pure ⟨items.toArray, links.toArray⟩

def header : P Header := headerWith stringsParser
def headerUnfixed : P Header := headerWith stringsParserUnfixed

/-- `PreBoneDeformer::from_existing` (repaired) -/
def pbd (b : Bytes) : Res Header := P.run header b
/-- pinned commit -/
def pbdUnfixed (b : Bytes) : Res Header := P.run headerUnfixed b

/-! ## pbd: `get_deform_matrices` -/

/-- `for i in 0..bone_count { bone_names[i as usize] … transform[i as usize] }` (fuel `n`, index `i`) -/
def bonesLoop (d : Deformer) : Nat → Nat → Res Unit
  | 0, _ => .ok ()
  | n + 1, i => if i < d.names ∧ i < d.transforms then bonesLoop d n (i + 1) else .panic .index

def sentinel : UInt16 := 0xFFFF                    -- `-1i16`

/-- the `loop` of `get_deform_matrices` (repaired).  `fuel` bounds the number of rounds of the model;
`steps` is the Rust variable: the walk gives up (`None`) once it has taken as many steps as there are
links.  `Proofs/C18Skel.walk_good` shows that `links.len() + 1` rounds of fuel are never used up. -/
def walk (h : Header) (to : Nat) : Nat → Item → Link → Nat → Res Unit
  | 0, _, _, _ => .panic .fuel
  | fuel + 1, item, next, steps =>
    match bonesLoop item.deformer item.deformer.boneCount 0 with
    | ⟨.ok _, _⟩ =>
      if next.parent == sentinel then .ok ()
      else
        let steps := steps + 1                     -- `steps += 1` (stays ≤ links.len())
        if steps ≥ h.links.size then .fail         -- `if steps >= links.len() { return None }`
        else
          match h.links[i16AsU64 next.parent]? with      -- `.get(parent_index as usize)?`
          | none => .fail
          | some next' =>
            match h.items[next'.deformerIndex]? with      -- `.get(deformer_index as usize)?`
            | none => .fail
            | some item' =>
              if item'.body = to then .ok () else walk h to fuel item' next' steps
    | ⟨.fail e, k⟩ => ⟨.fail e, k⟩
    | ⟨.fault x, k⟩ => ⟨.fault x, k⟩

/-- `PreBoneDeformer::get_deform_matrices` (repaired) -/
def getDeformMatrices (h : Header) (frm to : Nat) : Res Unit :=
  if frm = to then .fail
  else
    match h.items.find? (fun x => x.body == frm) with
    | none => .fail
    | some item =>
      match h.links[i16AsU64 item.link]? with            -- `.get(link_index as usize)?`
      | none => .fail
      | some next =>
        if next.sibling == sentinel then .fail
        else walk h to (h.links.size + 1) item next 0

/-- the composite entry point the correspondence runs -/
def pbdDeform (b : Bytes) (frm to : Nat) : Res Unit := do
  let h ← pbd b
  getDeformMatrices h frm to

/-- the loop at the pinned commit: plain indexing, no step bound (so the model needs fuel from
outside: on cyclic links every amount of fuel is used up) -/
def walkUnfixed (h : Header) (to : Nat) : Nat → Item → Link → Res Unit
  | 0, _, _ => .panic .fuel
  | fuel + 1, item, next =>
    match bonesLoop item.deformer item.deformer.boneCount 0 with
    | ⟨.ok _, _⟩ =>
      if next.parent == sentinel then .ok ()
      else
        match h.links[i16AsU64 next.parent]? with
        | none => .panic .index
        | some next' =>
          match h.items[next'.deformerIndex]? with
          | none => .panic .index
          | some item' =>
            if item'.body = to then .ok () else walkUnfixed h to fuel item' next'
    | ⟨.fail e, k⟩ => ⟨.fail e, k⟩
    | ⟨.fault x, k⟩ => ⟨.fault x, k⟩

def getDeformMatricesUnfixed (fuel : Nat) (h : Header) (frm to : Nat) : Res Unit :=
  if frm = to then .fail
  else
    match h.items.find? (fun x => x.body == frm) with
    | none => .fail
    | some item =>
      match h.links[i16AsU64 item.link]? with
      | none => .panic .index
      | some next =>
        if next.sibling == sentinel then .fail
        else walkUnfixed h to fuel item next

/-! ## pbd: decoded size (class predicate of the recorded finding `pbd.shared-blocks`)

Items reach their deformer block through an absolute offset (`seek_before` + `restore_position`) and
bone names through offsets relative to the block, so several items / bones may point at the *same*
bytes; every reference is decoded into its own `Vec` / `String`.  The decoded size is therefore not
bounded by the work of a single pass over the input (`c` items sharing one block of `L` bytes decode
to `c·L` bytes out of `20·c + L`), and `get_deform_matrices` clones one item per round of a walk of
up to `links.len()` rounds.  This is outside what `Res.peak` records (explicit input-sized requests);
the estimate below is what the driver uses to tag the cases of that class. -/

def nameLenGo : Bytes → Nat → Nat
  | [], n => n
  | x :: r, n => if x == 0 then n else nameLenGo r (n + 1)

/-- the bone name offsets of the deformer block under the cursor -/
def deformerOffsets : P (List UInt16) := do
  let bc ← P.u32le
  let n ← i32Count bc
  P.count n P.u16le

/-- bytes held by one decoded deformer: per bone 2 (offset) + 24 (`String`) + 48 (matrix) + its name -/
def deformerDecoded (w : Bytes) (base : Nat) : Nat :=
  match (P.runAt deformerOffsets w base).out with
  | .ok (offs, _) => offs.foldl (fun acc o => acc + 74 + nameLenGo (w.drop (base + o.toNat)) 0) 0
  | _ => 0

/-- `data_offset` of item `i` (items start at byte 4, 12 bytes each) -/
def itemOffset (w : Bytes) (i : Nat) : Nat :=
  match (P.runAt P.u32le w (8 + 12 * i)).out with
  | .ok (v, _) => v.toNat
  | _ => 0

/-- upper estimate of the bytes materialised by `from_existing` (every item) and, with `walk`, by
`get_deform_matrices` (at most `links.len()` rounds, each cloning one item) -/
def pbdDecodedEstimate (w : Bytes) (walk : Bool) : Nat :=
  match (pbd w).out with
  | .ok h =>
    let ds := (List.range h.items.size).map (fun i => deformerDecoded w (itemOffset w i))
    ds.sum + (if walk then h.links.size * ds.foldl max 0 else 0)
  | _ => 0

/-- the class of the finding: the decoded size may exceed the allocation budget of the input -/
def pbdOutOfProportion (w : Bytes) (walk : Bool) : Bool :=
  decide (3 * pbdDecodedEstimate w walk > budget w.length)

/-! ## tera -/

structure TerrainHeader where
  plateCount : Nat
  positions : Array (UInt16 × UInt16)

def platePosition : P (UInt16 × UInt16) := do
  let x ← P.u16le
  let y ← P.u16le
  pure (x, y)

def terrainHeader : P TerrainHeader := do
  let _ ← P.u32le                                  -- version
  let plateCount ← u32leNat
  let _ ← P.u32le                                  -- plate_size
  let _ ← P.f32le                                  -- clip_distance
  let _ ← P.f32le                                  -- unknown
  P.skip 32                                        -- pad_before = 32
  let positions ← P.count plateCount platePosition
  pure ⟨plateCount, positions.toArray⟩

/-- `for i in 0..plate_count { … positions[i as usize].x … positions[i as usize].y … push }`
(the float arithmetic and `format!` cannot fail; `plates` grows element by element) -/
def platesLoop (pos : Array (UInt16 × UInt16)) : Nat → Nat → Res Unit
  | 0, _ => .ok ()
  | n + 1, i =>
    match pos[i]? with
    | some _ => platesLoop pos n (i + 1)
    | none => .panic .index

/-- `Terrain::from_existing`; the value is the number of plates -/
def tera (b : Bytes) : Res Nat := do
  let h ← P.run terrainHeader b
  platesLoop h.positions h.plateCount 0
  pure h.plateCount

end Physis.C18Skel
