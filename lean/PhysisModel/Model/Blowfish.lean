import PhysisModel.Base.Bytes
import PhysisModel.Generated.BlowfishTables
import PhysisModel.Generated.BlowfishParams
/-!
Model of `src/blowfish/mod.rs` (`Blowfish::new`, `encrypt`, `pad_buffer`, `decrypt`, `f`,
`encrypt_pair`, `decrypt_pair`), written to read like the Rust.

* `State` is `struct Blowfish { p: [u32; 18], s: [[u32; 256]; 4] }`; the fixed array sizes are in
  the types, every index carries its in-bounds proof (the Rust indexing cannot panic there either).
* The initial tables are `Generated/BlowfishTables.lean` (T1, re-extracted from `constants.rs` on
  every run); `KEYBITS` is `Generated.blowfishKeyBytes`.
* `Option`: `none` stands for "the Rust panics or returns `None`".  `key[j]` in `Blowfish::new`
  panics for keys shorter than `KEYBITS` bytes — `new` is `none` there.
-/
namespace Physis.Blowfish
open Physis.Generated

/-- `struct Blowfish` -/
structure State where
  p : Vector UInt32 18
  s : Vector (Vector UInt32 256) 4

/-- `Self { p: BLOWFISH_P, s: BLOWFISH_S }` -/
def initial : State := ⟨blowfishP, blowfishS⟩

theorem shr24_lt (x : UInt32) : (x >>> 24).toNat < 256 := by
  have : x.toNat < 2 ^ 32 := x.toNat_lt
  simp only [UInt32.toNat_shiftRight, UInt32.reduceToNat, Nat.reduceMod, Nat.shiftRight_eq_div_pow]
  omega

theorem and255_lt (x : UInt32) : (x &&& 0xFF).toNat < 256 := by
  simp only [UInt32.toNat_and, UInt32.reduceToNat]
  exact Nat.lt_of_le_of_lt Nat.and_le_right (by decide)

/-- `fn f(&self, x: u32) -> u32` -/
def f (st : State) (x : UInt32) : UInt32 :=
  let a := (st.s[0])[(x >>> 24).toNat]'(shr24_lt x)
  let b := (st.s[1])[((x >>> 16) &&& 0xFF).toNat]'(and255_lt _)
  let c := (st.s[2])[((x >>> 8) &&& 0xFF).toNat]'(and255_lt _)
  let d := (st.s[3])[(x &&& 0xFF).toNat]'(and255_lt _)
  ((a + b) ^^^ c) + d

/-- body of the loop in `encrypt_pair` for `i`: two unrolled Feistel rounds with `p[i]`, `p[i+1]` -/
def encStep (st : State) (lr : UInt32 × UInt32) (i : Fin 17) : UInt32 × UInt32 :=
  let l := lr.1 ^^^ st.p[i.val]
  let r := lr.2 ^^^ f st l
  let r := r ^^^ st.p[i.val + 1]
  let l := l ^^^ f st r
  (l, r)

/-- `fn encrypt_pair`: `for i in (0..ROUNDS).step_by(2)`, then `(r ^ p[17], l ^ p[16])` -/
def encryptPair (st : State) (l r : UInt32) : UInt32 × UInt32 :=
  let lr := ([0, 2, 4, 6, 8, 10, 12, 14] : List (Fin 17)).foldl (encStep st) (l, r)
  (lr.2 ^^^ st.p[17], lr.1 ^^^ st.p[16])

/-- body of the loop in `decrypt_pair` for `i`: rounds with `p[i+1]`, `p[i]` -/
def decStep (st : State) (lr : UInt32 × UInt32) (i : Fin 17) : UInt32 × UInt32 :=
  let l := lr.1 ^^^ st.p[i.val + 1]
  let r := lr.2 ^^^ f st l
  let r := r ^^^ st.p[i.val]
  let l := l ^^^ f st r
  (l, r)

/-- `fn decrypt_pair`: `for i in (2..ROUNDS + 1).step_by(2).rev()`, then `(r ^ p[0], l ^ p[1])` -/
def decryptPair (st : State) (l r : UInt32) : UInt32 × UInt32 :=
  let lr := ([16, 14, 12, 10, 8, 6, 4, 2] : List (Fin 17)).foldl (decStep st) (l, r)
  (lr.2 ^^^ st.p[0], lr.1 ^^^ st.p[1])

/-- inner `for _ in 0..4` of `Blowfish::new`: shifts four key bytes into `data`, `j` wraps at
`KEYBITS`; `key[j]` out of range is a panic (`none`) -/
def keyWord (key : Bytes) : Nat → UInt32 → Nat → Option (UInt32 × Nat)
  | 0, data, j => some (data, j)
  | n + 1, data, j =>
    match key[j]? with
    | none => none
    | some b =>
      let data := (data <<< 8) ||| b.toUInt32
      let j := j + 1
      let j := if j ≥ blowfishKeyBytes then 0 else j
      keyWord key n data j

/-- first loop of `Blowfish::new`: `for i in 0..ROUNDS + 2 { …; s.p[i] ^= data }` -/
def xorKey (key : Bytes) : List (Fin 18) → State → Nat → Option State
  | [], st, _ => some st
  | i :: rest, st, j =>
    match keyWord key 4 0 j with
    | none => none
    | some (data, j) => xorKey key rest { st with p := st.p.set i.val (st.p[i.val] ^^^ data) } j

/-- second loop: `for i in (0..18).step_by(2)` (`k = i / 2`) -/
def fillP : List (Fin 9) → State × (UInt32 × UInt32) → State × (UInt32 × UInt32)
  | [], sx => sx
  | k :: rest, (st, (l, r)) =>
    let y := encryptPair st l r
    fillP rest ({ st with p := (st.p.set (2 * k.val) y.1).set (2 * k.val + 1) y.2 }, y)

/-- inner loop of the third: `for j in (0..256).step_by(2)` (`k = j / 2`) for S-box `i` -/
def fillBox (i : Fin 4) : List (Fin 128) → State × (UInt32 × UInt32) → State × (UInt32 × UInt32)
  | [], sx => sx
  | k :: rest, (st, (l, r)) =>
    let y := encryptPair st l r
    fillBox i rest
      ({ st with s := st.s.set i.val (((st.s[i.val]).set (2 * k.val) y.1).set (2 * k.val + 1) y.2) }, y)

/-- third loop: `for i in 0..4` -/
def fillS : List (Fin 4) → State × (UInt32 × UInt32) → State × (UInt32 × UInt32)
  | [], sx => sx
  | i :: rest, sx => fillS rest (fillBox i (List.finRange 128) sx)

/-- `Blowfish::new(key)` -/
def new (key : Bytes) : Option State :=
  match xorKey key (List.finRange 18) initial 0 with
  | none => none
  | some st => some (fillS (List.finRange 4) (fillP (List.finRange 9) (st, (0, 0)))).1

/-- `fn pad_buffer`: `vec![0; padded_length]` with the data copied to the front -/
def padBuffer (data : Bytes) : Bytes :=
  let paddedLength :=
    if data.length % 8 != 0 then data.length + (8 - data.length % 8) else data.length
  data ++ List.replicate (paddedLength - data.length) 0

/-- `u32::from_le_bytes` -/
def fromLe (a b c d : UInt8) : UInt32 :=
  a.toUInt32 ||| (b.toUInt32 <<< 8) ||| (c.toUInt32 <<< 16) ||| (d.toUInt32 <<< 24)

/-- the block loop of `encrypt` / `decrypt` (`for i in (0..len).step_by(8)`) on the not yet
consumed suffix `padded[i..]`; slicing `[i..i+4]`, `[i+4..i+8]` past the end would panic (`none`) -/
def blockLoop (pair : UInt32 → UInt32 → UInt32 × UInt32) : Bytes → Option Bytes
  | [] => some []
  | b0 :: b1 :: b2 :: b3 :: b4 :: b5 :: b6 :: b7 :: rest =>
    let y := pair (fromLe b0 b1 b2 b3) (fromLe b4 b5 b6 b7)
    match blockLoop pair rest with
    | none => none
    | some out => some (putU32le y.1 ++ putU32le y.2 ++ out)
  | _ => none

/-- `Blowfish::encrypt(&self, data)` -/
def encrypt (st : State) (data : Bytes) : Option Bytes := blockLoop (encryptPair st) (padBuffer data)

/-- `Blowfish::decrypt(&self, data)` -/
def decrypt (st : State) (data : Bytes) : Option Bytes := blockLoop (decryptPair st) (padBuffer data)

/-- `Blowfish::new(key).encrypt(data)` -/
def encryptWith (key data : Bytes) : Option Bytes := (new key).bind (encrypt · data)

/-- `Blowfish::new(key).decrypt(data)` -/
def decryptWith (key data : Bytes) : Option Bytes := (new key).bind (decrypt · data)

end Physis.Blowfish
