import PhysisModel.Base.Bytes
/-!
Sequential little-endian reads from the front of a byte list — the binrw primitives used by
`src/chardat.rs`, `src/dat.rs`, `src/gearsets.rs` (`u8`, `u32`, `u64`, `count = n` byte vectors,
relative seeks of `pad_before` / `pad_after`).  `none` = the read fails (binrw `Err`, EOF).
-/
namespace Physis.LeRead

def takeU8 : Bytes → Option (UInt8 × Bytes)
  | a :: rest => some (a, rest)
  | _ => none

def takeU16 : Bytes → Option (UInt16 × Bytes)
  | a :: b :: rest => some (a.toUInt16 ||| (b.toUInt16 <<< 8), rest)
  | _ => none

def takeU32 : Bytes → Option (UInt32 × Bytes)
  | a :: b :: c :: d :: rest =>
    some (a.toUInt32 ||| (b.toUInt32 <<< 8) ||| (c.toUInt32 <<< 16) ||| (d.toUInt32 <<< 24), rest)
  | _ => none

def takeU64 : Bytes → Option (UInt64 × Bytes)
  | a :: b :: c :: d :: e :: f :: g :: h :: rest =>
    some (a.toUInt64 ||| (b.toUInt64 <<< 8) ||| (c.toUInt64 <<< 16) ||| (d.toUInt64 <<< 24) |||
      (e.toUInt64 <<< 32) ||| (f.toUInt64 <<< 40) ||| (g.toUInt64 <<< 48) ||| (h.toUInt64 <<< 56), rest)
  | _ => none

/-- `count = n` on `Vec<u8>` / `read_exact` -/
def takeN (n : Nat) (b : Bytes) : Option (Bytes × Bytes) :=
  if n ≤ b.length then some (b.take n, b.drop n) else none

/-- a relative seek forward on a `Cursor` never fails by itself; reads after the end do -/
def skip (n : Nat) (b : Bytes) : Bytes := b.drop n

end Physis.LeRead
