import PhysisModel.Model.Extract
import PhysisModel.Model.Exd
import PhysisModel.Model.ExcelRootList
/-!
Model of the Excel glue in `src/gamedata.rs` on a real handle: `GameData::get_all_sheet_names`,
`GameData::read_excel_sheet_header`, `GameData::read_excel_sheet` — each is a composition of
`GameData::extract` (`extractFull`: C01's lookup + C02's dat reader, threading the handle with its
index-file cache), `EXL::from_existing`, `EXH::from_existing`, `EXD::from_existing` and the name
building of `Model/Exd.lean` (`sheetHeaderPath`, `calculateFilename`).

Results are `Option (Option α)`: outer `none` = panic (inside `extract`, or `exh.pages[page]` out
of range), inner `none` = the function returns `None`.  The second component is the handle
afterwards.
-/
namespace Physis.GameData
open Physis

/-- "exd/root.exl" -/
def rootListPath : Bytes := [101, 120, 100, 47, 114, 111, 111, 116, 46, 101, 120, 108]

/-- `GameData::get_all_sheet_names` -/
def getAllSheetNames (inflate : Dat.Inflate) (disk : Disk) (g : GameData) :
    Option (Option (List Bytes)) × GameData :=
  -- let root_exl_file = self.extract("exd/root.exl")?;
  match extractFull inflate disk g rootListPath with
  | (none, g) => (none, g)
  | (some none, g) => (some none, g)
  | (some (some rootExlFile), g) =>
    -- let root_exl = EXL::from_existing(&root_exl_file)?;   (always `Some`)
    let rootExl := ExcelRootList.fromExisting rootExlFile
    (some (some (Exd.allSheetNames rootExl.entries)), g)

/-- `GameData::read_excel_sheet_header` -/
def readExcelSheetHeader (inflate : Dat.Inflate) (disk : Disk) (g : GameData) (name : Bytes) :
    Option (Option Exh.EXH) × GameData :=
  match extractFull inflate disk g rootListPath with
  | (none, g) => (none, g)
  | (some none, g) => (some none, g)
  | (some (some rootExlFile), g) =>
    let rootExl := ExcelRootList.fromExisting rootExlFile
    -- `for (row, _) in root_exl.entries { if row == name { … return … } }`: the first hit returns
    match rootExl.entries.find? (fun e => e.1 == name) with
    | none => (some none, g)
    | some _ =>
      -- format!("exd/{new_filename}.exh") with new_filename = name.to_lowercase()
      match extractFull inflate disk g (Exd.sheetHeaderPath name) with
      | (none, g) => (none, g)
      | (some none, g) => (some none, g)
      | (some (some buf), g) => (some (Exh.fromExisting buf), g)

/-- path asked by `GameData::read_excel_sheet`: `format!("exd/{}", EXD::calculate_filename(..))` —
the sheet name is used as given (not lower-cased; the archive lookup is case-insensitive) -/
def sheetPagePath (name : Bytes) (language : Exh.Language) (pg : Exh.ExcelDataPagination) : Bytes :=
  [0x65, 0x78, 0x64, 0x2f] ++ Exd.calculateFilename name language pg

/-- `GameData::read_excel_sheet` -/
def readExcelSheet (inflate : Dat.Inflate) (disk : Disk) (g : GameData) (name : Bytes)
    (exh : Exh.EXH) (language : Exh.Language) (page : Nat) : Option (Option Exd.EXD) × GameData :=
  -- `&exh.pages[page]` panics when out of range
  match exh.pages[page]? with
  | none => (none, g)
  | some pg =>
    match extractFull inflate disk g (sheetPagePath name language pg) with
    | (none, g) => (none, g)
    | (some none, g) => (some none, g)
    | (some (some buf), g) => (some (Exd.fromExisting buf), g)

/-- one call on a handle: a plain archive query or one of the three Excel entry points -/
inductive Call
  | query (q : Query)
  | names
  | header (name : Bytes)
  | sheet (name : Bytes) (exh : Exh.EXH) (language : Exh.Language) (page : Nat)

/-- the handle after a call -/
def callHandle (inflate : Dat.Inflate) (disk : Disk) (g : GameData) : Call → GameData
  | .query q => (step disk g q).2
  | .names => (getAllSheetNames inflate disk g).2
  | .header name => (readExcelSheetHeader inflate disk g name).2
  | .sheet name exh language page => (readExcelSheet inflate disk g name exh language page).2

/-- the handle after a history of calls -/
def runCalls (inflate : Dat.Inflate) (disk : Disk) (g : GameData) : List Call → GameData
  | [] => g
  | c :: cs => runCalls inflate disk (callHandle inflate disk g c) cs

end Physis.GameData
