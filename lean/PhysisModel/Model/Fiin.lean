import PhysisModel.Base.Bytes
import PhysisModel.Base.WireText
import PhysisModel.Spec.Fiin
import PhysisModel.Model.Sha1
import PhysisModel.Model.Utf8Lossy
/-!
Model of `src/fiin.rs`: the binrw-derived writer and reader of `FileInfo` / `FIINEntry`
(`write_to_buffer`, `from_existing`) and `FileInfo::new`.
The entry type is shared with `Spec/Fiin.lean` (plain data); everything else is written from the
Rust attributes: `magic`, `pad_before`, `calc`, `count`, `pad_size_to`, the `map` closures.
-/
namespace Physis.Fiin
open Physis.Spec.Fiin (Entry)

/-- outcome of a reader: a value, `None`, or a panic -/
inductive Res (α : Type) where
  | ok (a : α)
  | none
  | panic
deriving DecidableEq, Repr

def zeros (n : Nat) : Bytes := List.replicate n 0

/-- `#[bw(pad_size_to = n)]`: zero bytes are appended while fewer than `n` bytes were written -/
def padSizeTo (n : Nat) (written : Bytes) : Bytes := written ++ zeros (n - written.length)

/-- `FIINEntry::write` -/
def writeEntry (e : Entry) : Bytes :=
  putU32le e.fileSize ++          -- file_size: i32
  (zeros 4 ++                     -- #[brw(pad_before = 4)]
  (padSizeTo 64 e.fileName ++     -- #[bw(pad_size_to = 64)] x.as_bytes()
  padSizeTo 24 e.sha1))           -- #[bw(pad_size_to = 24)] sha1: Vec<u8>

/-- `FileInfo::write_to_buffer` (writing into a `Cursor<&mut Vec<u8>>` cannot fail) -/
def write (entries : List Entry) : Bytes :=
  [0x46, 0x69, 0x6c, 0x65, 0x49, 0x6e, 0x66, 0x6f] ++   -- magic = b"FileInfo"
  (zeros 16 ++                                            -- pad_before = 16
  (putU32le 1024 ++                                       -- #[bw(calc = 1024)] _unknown: i32
  (putU32le (UInt32.ofNat (entries.length * 96)) ++       -- (entries.len() * 96) as i32
  (zeros 992 ++                                           -- pad_before = 992
  (entries.map writeEntry).flatten))))

/-- read exactly `n` bytes or fail (`UnexpectedEof`) -/
def takeN (n : Nat) (bs : Bytes) : Option (Bytes × Bytes) :=
  if n ≤ bs.length then some (bs.take n, bs.drop n) else none

/-- `str::trim_matches('\0')` on UTF-8 bytes -/
def trimNul (bs : Bytes) : Bytes :=
  ((bs.dropWhile (· == 0)).reverse.dropWhile (· == 0)).reverse

/-- `FIINEntry::read` -/
def readEntry (bs : Bytes) : Res (Entry × Bytes) :=
  match takeN 4 bs with
  | none => .none
  | some (sz, bs) =>
    match getU32le sz with
    | none => .none
    | some fileSize =>
      let bs := bs.drop 4                                  -- pad_before = 4 (a seek)
      match takeN 64 bs with                               -- count = 64
      | none => .none
      | some (raw, bs) =>
        -- String::from_utf8_lossy(&x).trim_matches(char::from(0)).to_string()   (fix d91cecd; it
        -- used to unwrap `String::from_utf8`): every maximal invalid part becomes U+FFFD
        let name := trimNul (Utf8Lossy.fromUtf8Lossy raw)
        match takeN 24 bs with                             -- count = 24
        | none => .none
        | some (sha, bs) => .ok (⟨fileSize, name, sha⟩, bs)

/-- `Vec<FIINEntry>` with `count = n` -/
def readEntries : Nat → Bytes → Res (List Entry)
  | 0, _ => .ok []
  | n + 1, bs =>
    match readEntry bs with
    | .none => .none
    | .panic => .panic
    | .ok (e, bs) =>
      match readEntries n bs with
      | .ok es => .ok (e :: es)
      | r => r

/-- `FileInfo::from_existing` -/
def parse (buffer : Bytes) : Res (List Entry) :=
  match takeN 8 buffer with
  | none => .none
  | some (m, bs) =>
    if m ≠ [0x46, 0x69, 0x6c, 0x65, 0x49, 0x6e, 0x66, 0x6f] then .none else
    let bs := bs.drop 16
    match takeN 4 bs with                                  -- _unknown (any value)
    | none => .none
    | some (_, bs) =>
      match takeN 4 bs with
      | none => .none
      | some (szb, bs) =>
        match getU32le szb with
        | none => .none
        | some entriesSize =>
          let bs := bs.drop 992
          -- count = entries_size / 96 (i32 division, towards zero), converted with usize::try_from
          let count : Int := Int.tdiv entriesSize.toInt32.toInt 96
          if count < 0 then .none else readEntries count.toNat bs

/-- `Path::new(path).file_name()` as bytes (`None` when the path has no final normal component) -/
def fileName (path : Bytes) : Option Bytes :=
  match (WireText.splitByte 0x2f path).reverse.find? (fun c => c != [] && c != [0x2e]) with
  | none => none
  | some c => if c == [0x2e, 0x2e] then none else some c

/-- `FileInfo::new(files)`, given for each path the bytes `std::fs::read` returned.
(`read(path).expect(..)` panics for an unreadable path; that is outside C10's quantifier and the
model takes the contents as given.)  The name must also be valid UTF-8 (`to_str()?`): paths come
from `&str`, so it is. -/
def newEntries (sha1 : Bytes → Bytes) : List (Bytes × Bytes) → Option (List Entry)
  | [] => some []
  | (path, content) :: rest =>
    match fileName path with
    | none => none
    | some name =>
      match newEntries sha1 rest with
      | none => none
      | some es => some (⟨UInt32.ofNat content.length, name, sha1 content⟩ :: es)

/-- `FileInfo::new` with the real digest -/
def new (files : List (Bytes × Bytes)) : Option (List Entry) := newEntries Sha1.sha1 files

end Physis.Fiin
