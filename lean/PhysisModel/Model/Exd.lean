import PhysisModel.Base.ParserBE
import PhysisModel.Model.Exh
/-!
Model of `src/exd.rs`: `EXDHeader`, `ExcelDataOffset`, `EXD` (index table + whole-file data view),
`EXD::read_row`, `read_column` for the 19 column types, `EXD::calculate_filename`; and of the
name building in `GameData::read_excel_sheet_header` / `read_excel_sheet` (`src/gamedata.rs`).

The model mirrors the code **with fixes C05-01..03 applied** (Bool = one byte, packed bools test
the byte at the column offset, sub-row stride computed in u32) and, deliberately, the *open*
defect `exd.single-subrow`: the sheet kind is inferred from `row_count > 1`.

`Err.none` is a Rust `None`; `Err.panic` is a panic (`unwrap` on a failed read, or `u32`
overflow — the harness is built with overflow checks, like the repository's tests).
-/
namespace Physis.Exd
open Physis Physis.ParserBE Physis.Exh

inductive Err | none | panic
  deriving DecidableEq, Repr

abbrev R := Except Err

/-- `Option::unwrap` -/
def unwrap {α} : Option α → R α
  | some a => .ok a
  | Option.none => .error .panic

/-- `u32 + u32` with overflow check -/
def addU32 (a b : UInt32) : R UInt32 :=
  if a.toNat + b.toNat < 4294967296 then .ok (a + b) else .error .panic

structure ExcelDataOffset where
  rowId : UInt32
  offset : UInt32
  deriving DecidableEq, Repr

structure EXD where
  version : UInt16
  indexSize : UInt32
  dataOffsets : List ExcelDataOffset
  /-- `#[br(seek_before = SeekFrom::Start(0), parse_with = until_eof)]`: the whole file -/
  data : Bytes
  deriving DecidableEq, Repr

def exdMagic : Bytes := [0x45, 0x58, 0x44, 0x46]   -- b"EXDF"

def pDataOffset : P ExcelDataOffset := do
  let rowId ← u32be
  let offset ← u32be
  pure { rowId, offset }

def pExdHead : P (UInt16 × UInt32 × List ExcelDataOffset) := do
  magic exdMagic
  let version ← u16be
  skip 2                      -- pad_before = 2
  let indexSize ← u32be
  skip 20                     -- pad_after = 20
  -- count = header.index_size / size_of::<ExcelDataOffset>() as u32
  let offs ← count pDataOffset (indexSize / 8).toNat
  pure (version, indexSize, offs)

/-- `EXD::from_existing` -/
def fromExisting (buffer : Bytes) : Option EXD :=
  match pExdHead buffer with
  | some ((version, indexSize, dataOffsets), _) => some { version, indexSize, dataOffsets, data := buffer }
  | Option.none => Option.none

/-- `ColumnData`; a `String` is kept as the list of its chars' code points (each `< 256`, the
code pushes `byte as char`) -/
inductive ColumnData
  | string (s : Bytes) | bool (b : Bool)
  | int8 (v : UInt8) | uint8 (v : UInt8) | int16 (v : UInt16) | uint16 (v : UInt16)
  | int32 (v : UInt32) | uint32 (v : UInt32) | float32 (bits : UInt32)
  | int64 (v : UInt64) | uint64 (v : UInt64)
  deriving DecidableEq, Repr

/-- a read of exactly `n` bytes at cursor position `pos` (`None` at EOF) -/
def readAt (data : Bytes) (pos n : Nat) : Option Bytes :=
  let s := (data.drop pos).take n
  if s.length = n then some s else Option.none

def rawU8 (data : Bytes) (pos : Nat) : Option UInt8 :=
  match readAt data pos 1 with
  | some [b] => some b
  | _ => Option.none
def rawU16 (data : Bytes) (pos : Nat) : Option UInt16 := (readAt data pos 2).bind getU16be
def rawU32 (data : Bytes) (pos : Nat) : Option UInt32 := (readAt data pos 4).bind getU32be
def rawU64 (data : Bytes) (pos : Nat) : Option UInt64 := (readAt data pos 8).bind getU64be

/-- the `while byte != 0` loop: bytes up to the first NUL; running off the end is an `unwrap` panic -/
def readCStr : Bytes → R Bytes
  | [] => .error .panic
  | b :: r => if b = 0 then .ok [] else
    match readCStr r with
    | .ok s => .ok (b :: s)
    | .error e => .error e

/-- `read_packed_bool(shift)` (after fix C05-02): one byte, `unwrap_or(0)` at EOF -/
def readPackedBool (data : Bytes) (pos : Nat) (shift : UInt8) : Bool :=
  let bit : UInt8 := 1 <<< shift
  let boolData : UInt8 := (rawU8 data pos).getD 0
  (boolData &&& bit) == bit

/-- `EXD::read_column`, the cursor being at `pos` -/
def readColumn (data : Bytes) (dataOffset : UInt16) (rowOffset : UInt32) (pos : Nat)
    (column : ExcelColumnDefinition) : R ColumnData :=
  match column.dataType with
  | .string => do
    let stringOffset ← unwrap (rawU32 data pos)
    let p ← addU32 rowOffset dataOffset.toUInt32
    let p ← addU32 p stringOffset
    let s ← readCStr (data.drop p.toNat)
    pure (.string s)
  | .bool => do
    let b ← unwrap (rawU8 data pos)          -- after fix C05-01: a single byte
    pure (.bool (b != 0))
  | .int8 => do let v ← unwrap (rawU8 data pos); pure (.int8 v)
  | .uint8 => do let v ← unwrap (rawU8 data pos); pure (.uint8 v)
  | .int16 => do let v ← unwrap (rawU16 data pos); pure (.int16 v)
  | .uint16 => do let v ← unwrap (rawU16 data pos); pure (.uint16 v)
  | .int32 => do let v ← unwrap (rawU32 data pos); pure (.int32 v)
  | .uint32 => do let v ← unwrap (rawU32 data pos); pure (.uint32 v)
  | .float32 => do let v ← unwrap (rawU32 data pos); pure (.float32 v)
  | .int64 => do let v ← unwrap (rawU64 data pos); pure (.int64 v)
  | .uint64 => do let v ← unwrap (rawU64 data pos); pure (.uint64 v)
  | .packedBool0 => pure (.bool (readPackedBool data pos 0))
  | .packedBool1 => pure (.bool (readPackedBool data pos 1))
  | .packedBool2 => pure (.bool (readPackedBool data pos 2))
  | .packedBool3 => pure (.bool (readPackedBool data pos 3))
  | .packedBool4 => pure (.bool (readPackedBool data pos 4))
  | .packedBool5 => pure (.bool (readPackedBool data pos 5))
  | .packedBool6 => pure (.bool (readPackedBool data pos 6))
  | .packedBool7 => pure (.bool (readPackedBool data pos 7))

/-- the `read_row` closure: one record, column by column (seek, then `read_column`) -/
def readCols (data : Bytes) (dataOffset : UInt16) (rowOffset : UInt32) :
    List ExcelColumnDefinition → R (List ColumnData)
  | [] => pure []
  | column :: rest => do
    let pos ← addU32 rowOffset column.offset.toUInt32
    let v ← readColumn data dataOffset rowOffset pos.toNat column
    let vs ← readCols data dataOffset rowOffset rest
    pure (v :: vs)

/-- sub-row offset relative to the end of the row header (after fix C05-03: in `u32`; cannot
overflow for `i < 65535`) -/
def subrowRel (dataOffset : UInt16) (i : Nat) : UInt32 :=
  UInt32.ofNat i * dataOffset.toUInt32 + 2 * (UInt32.ofNat i + 1)

/-- `for i in 0..row_header.row_count`, from index `i`, `n` iterations left -/
def readSubRows (data : Bytes) (exh : EXH) (headerOffset : UInt32) : Nat → Nat → R (List (List ColumnData))
  | 0, _ => pure []
  | n + 1, i => do
    let subrowOffset ← addU32 headerOffset (subrowRel exh.header.dataOffset i)
    let r ← readCols data exh.header.dataOffset subrowOffset exh.columnDefinitions
    let rs ← readSubRows data exh headerOffset n (i + 1)
    pure (r :: rs)

/-- body of the `if offset.row_id == id` branch -/
def readRowAt (data : Bytes) (exh : EXH) (offset : UInt32) : R (List (List ColumnData)) :=
  -- ExcelDataRowHeader::read(&mut cursor).ok()?   (data_size u32, row_count u16)
  match rawU32 data offset.toNat, rawU16 data (offset.toNat + 4) with
  | some _dataSize, some rowCount => do
    let headerOffset ← addU32 offset 6
    if rowCount > 1 then
      readSubRows data exh headerOffset rowCount.toNat 0
    else do
      let r ← readCols data exh.header.dataOffset headerOffset exh.columnDefinitions
      pure [r]
  | _, _ => .error .none

/-- `EXD::read_row` -/
def readRow (exd : EXD) (exh : EXH) (id : UInt32) : R (List (List ColumnData)) :=
  match exd.dataOffsets.find? (fun o => o.rowId == id) with
  | some o => readRowAt exd.data exh o.offset
  | Option.none => .error .none

/-! ### names -/

/-- `format!("{}", n)` for an unsigned integer, ASCII -/
def fmtNat (n : Nat) : Bytes := (Nat.repr n).toList.map (fun c => UInt8.ofNat c.toNat)

/-- `EXD::calculate_filename` -/
def calculateFilename (name : Bytes) (language : Language) (page : ExcelDataPagination) : Bytes :=
  match language with
  | .None => name ++ [0x5f] ++ fmtNat page.startId.toNat ++ [0x2e, 0x65, 0x78, 0x64]
  | lang => name ++ [0x5f] ++ fmtNat page.startId.toNat ++ [0x5f] ++ getLanguageCode lang
      ++ [0x2e, 0x65, 0x78, 0x64]

/-- path asked of the archive by `GameData::read_excel_sheet_header(name)` once `name` was found
in the root list: `format!("exd/{}.exh", name.to_lowercase())` (ASCII names) -/
def sheetHeaderPath (name : Bytes) : Bytes :=
  [0x65, 0x78, 0x64, 0x2f] ++ name.map asciiLower ++ [0x2e, 0x65, 0x78, 0x68]

/-- `GameData::read_excel_sheet_header`, the archive being `extract` and the parsed root list
`entries` (names with their ids, in file order) -/
def readExcelSheetHeader (extract : Bytes → Option Bytes) (entries : List (Bytes × Int))
    (name : Bytes) : Option EXH :=
  match entries.find? (fun e => e.1 == name) with
  | some _ => (extract (sheetHeaderPath name)).bind Exh.fromExisting
  | Option.none => Option.none

/-- `GameData::get_all_sheet_names` on the parsed root list -/
def allSheetNames (entries : List (Bytes × Int)) : List Bytes := entries.map (·.1)

/-- `GameData::read_excel_sheet`: `exh.pages[page]` panics when out of range -/
def readExcelSheet (extract : Bytes → Option Bytes) (name : Bytes) (exh : EXH) (language : Language)
    (page : Nat) : R EXD :=
  match exh.pages[page]? with
  | Option.none => .error .panic
  | some pg =>
    match (extract ([0x65, 0x78, 0x64, 0x2f] ++ calculateFilename name language pg)).bind fromExisting with
    | some exd => .ok exd
    | Option.none => .error .none

end Physis.Exd
