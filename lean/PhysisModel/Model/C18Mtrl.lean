import PhysisModel.Base.ParserA
/-!
Fault-tracking model of `Material::from_existing` (`src/mtrl.rs`) — C18 part `mat`.

Stage 1 is the binrw struct `MaterialData`, field by field in declaration order.  Stage 2 is the
hand-written code after it: the string-table scans for the texture paths and the shader package
name, and the constant slicing.

The model takes a flag `fx`:

* `fx = true`  — the code with `fixes/C18-30…32` applied (the model the theorems are about): the
  three panic sites return `None` / a parse error;
* `fx = false` — the code at the pinned commit: `x[0..4]` on a short additional-data block
  (`mtrl.rs:429`), `strings[offset]` past the string table (`mtrl.rs:502/506/519/523`),
  `values[i]` with `i ≥ 4` and `shader_values[..]` out of range (`mtrl.rs:533`) panic.  Used only by
  the `…_pinned_witness` theorems.
-/
namespace Physis.C18Mtrl
open Physis Physis.A

/-- an out-of-range access: `None` / `Err` in the repaired code, a panic at the pinned commit -/
@[inline] def oob {α : Type} (fx : Bool) (f : Fault) : Res α := if fx then .fail else .panic f

/-- `MaterialFileHeader` (16 bytes); only the fields that steer the reader are kept -/
structure FileHeader where
  stringTableSize : UInt16
  shaderPackageNameOffset : UInt16
  textureCount : UInt8
  uvSetCount : UInt8
  colorSetCount : UInt8
  additionalDataSize : UInt8
  deriving Repr, Inhabited

def fileHeader : P FileHeader := do
  let _ ← P.u32le                 -- version
  let _ ← P.u16le                 -- file_size
  let _ ← P.u16le                 -- data_set_size
  let sts ← P.u16le
  let spo ← P.u16le
  let tc ← P.u8
  let uv ← P.u8
  let cs ← P.u8
  let ad ← P.u8
  pure ⟨sts, spo, tc, uv, cs, ad⟩

/-- `ColorSet { name_offset: u16, index: u16 }` -/
def colorSet : P Unit := do let _ ← P.u16le; let _ ← P.u16le; pure ()

/-- `u32::from_le_bytes(x[0..4])` when `x` has at least four bytes -/
def flagsOf : Bytes → Option UInt32
  | a :: b :: c :: d :: _ =>
    some (a.toUInt32 ||| (b.toUInt32 <<< 8) ||| (c.toUInt32 <<< 16) ||| (d.toUInt32 <<< 24))
  | _ => none

/-- `#[br(count = additional_data_size)] #[br(pad_size_to = 4)]` and the closure:
repaired `try_map = <[u8; 4]>::try_from(x.get(0..4).unwrap_or_default()).map(u32::from_le_bytes)`,
pinned `map = u32::from_le_bytes(x[0..4].try_into().unwrap())` (the slice panics). -/
def tableFlags (fx : Bool) (n : UInt8) : P UInt32 :=
  P.padSizeTo 4 (P.mapRes (fun x => match flagsOf x with
    | some v => .ok v
    | none => oob fx .slice) (P.countBytes n.toNat))

/-- `n` consecutive `u16` reads (the `Half1/2/3` fields are `[u16; k]` arrays read in order) -/
def halfs (n : Nat) : P Unit := do let _ ← P.count n P.u16le; pure ()

/-- `LegacyColorTableRow`: Half3 Half1 Half3 Half1 Half3 u16 Half2 Half2 = 16 × u16 -/
def legacyRow : P Unit := halfs 16
/-- `DawntrailColorTableRow`: 3 × (Half3 Half1), 12 × Half1, u16 u16 Half1 u16, Half2 Half2 = 32 × u16 -/
def dawntrailRow : P Unit := halfs 32

/-- `parse_color_table(table_dimension_logs)` -/
def colorTable (dims : UInt8) : P Unit :=
  if dims == 0 || dims == 0x42 then do let _ ← P.count 16 legacyRow; pure ()
  else if dims == 0x53 then do let _ ← P.count 32 dawntrailRow; pure ()
  else pure ()                    -- OpaqueColorTableData reads nothing

/-- `parse_color_dye_table(table_dimension_logs)` -/
def dyeTable (dims : UInt8) : P Unit :=
  if dims == 0 then do let _ ← P.count 16 P.u16le; pure ()
  else if 0x50 ≤ dims && dims ≤ 0x5F then do let _ ← P.count 32 P.u32le; pure ()
  else pure ()

/-- `ShaderKey { category: u32, value: u32 }` -/
def shaderKey : P Unit := do let _ ← P.u32le; let _ ← P.u32le; pure ()

/-- `ConstantStruct { constant_id: u32, value_offset: u16, value_size: u16 }` → (offset, size) -/
def constantStruct : P (UInt16 × UInt16) := do
  let _ ← P.u32le
  let o ← P.u16le
  let z ← P.u16le
  pure (o, z)

/-- the `#[brw(magic = …u32)]` values of `TextureUsage` -/
def textureUsages : List Nat :=
  [0x88408C04, 0x213CB439, 0x563B84AF, 0xFEA0F3D2, 0x1E6FEF9C, 0x6968DF0A, 0x115306BE, 0xF8D7957A,
   0x8A4E82B6, 0x0C5EC1F1, 0xAAB4D9E9, 0xDDB3E97F, 0x87F6474D, 0x2B99E025, 0x1BBC2F12, 0x6CBB1F84,
   0xE6321AFC, 0x574E22D6, 0x20491240, 0x95E1F64D, 0x565f8fd8, 0xe5338c17]

def u32Nat : P Nat := P.map UInt32.toNat P.u32le

/-- `Sampler { texture_usage, flags: u32, texture_index: u8, unknown1..3: u8 }` -/
def sampler : P Unit := do
  let _ ← P.reprEnum u32Nat textureUsages
  let _ ← P.u32le
  let _ ← P.u8; let _ ← P.u8; let _ ← P.u8; let _ ← P.u8
  pure ()

/-- what stage 2 needs from `MaterialData` -/
structure MatData where
  textureCount : UInt8
  shaderPackageNameOffset : UInt16
  strings : Bytes
  constants : List (UInt16 × UInt16)
  shaderValues : Nat              -- `shader_values.len()`
  deriving Repr, Inhabited

/-- `MaterialData::read` (`#[br(little)]`) -/
def materialData (fx : Bool) : P MatData := do
  let h ← fileHeader
  let _ ← P.countInts h.textureCount.toNat 4                 -- offsets: Vec<u32>
  let _ ← P.count h.uvSetCount.toNat colorSet
  let _ ← P.count h.colorSetCount.toNat colorSet
  let strings ← P.countBytes h.stringTableSize.toNat         -- Vec<u8>, count from a u16
  let flags ← tableFlags fx h.additionalDataSize
  let hasTable := (flags &&& 0x4) != 0
  let hasDye := (flags &&& 0x8) != 0
  let dims := (flags >>> 4).toUInt8
  P.ifCond hasTable (colorTable dims) ()
  P.ifCond hasDye (dyeTable dims) ()
  -- MaterialHeader
  let svls ← P.u16le
  let keyCount ← P.u16le
  let constCount ← P.u16le
  let samplerCount ← P.u16le
  let _ ← P.u32le
  let _ ← P.count keyCount.toNat shaderKey
  let cs ← P.count constCount.toNat constantStruct
  let _ ← P.count samplerCount.toNat sampler
  let vals ← P.count (svls / 4).toNat P.f32le
  pure ⟨h.textureCount, h.shaderPackageNameOffset, strings, cs, vals.length⟩

/-! ### stage 2 -/

/-- `next_char = strings[offset]; while next_char != '\0' { push; offset += 1; next_char =
strings[offset] }` on `strings[offset..]`; the result is what follows the terminator.  Reaching
the end of the table is `strings.get(offset)?` (repaired) / an index panic (pinned). -/
def scanNul (fx : Bool) : Bytes → Res Bytes
  | [] => oob fx .index
  | b :: r => if b == 0 then .ok r else scanNul fx r

/-- `for _ in 0..texture_count { scan; offset += 1 }` -/
def textureLoop (fx : Bool) : Nat → Bytes → Res Unit
  | 0, _ => .ok ()
  | n + 1, rest => do
    let r ← scanNul fx rest
    textureLoop fx n r

/-- `for i in 0..num_floats { values[i] = shader_values[base + i] }`: are all accesses in range?
(`k` iterations left, at index `i`) -/
def constInRange (nvals base : Nat) : Nat → Nat → Bool
  | 0, _ => true
  | k + 1, i => if i < 4 && base + i < nvals then constInRange nvals base k (i + 1) else false

/-- `for constant in mat_data.constants` -/
def constantsLoop (fx : Bool) (nvals : Nat) : List (UInt16 × UInt16) → Res Unit
  | [] => .ok ()
  | c :: r =>
    if constInRange nvals (c.1.toNat / 4) (c.2 / 4).toNat 0 then constantsLoop fx nvals r
    else oob fx .index

def stage2 (fx : Bool) (d : MatData) : Res Unit := do
  textureLoop fx d.textureCount.toNat d.strings
  let _ ← scanNul fx (d.strings.drop d.shaderPackageNameOffset.toNat)
  constantsLoop fx d.shaderValues d.constants

def mtrlAt (fx : Bool) (b : Bytes) : Res Unit := do
  let d ← P.run (materialData fx) b
  stage2 fx d

/-- `Material::from_existing` with `fixes/C18-30…32` -/
def mtrl (b : Bytes) : Res Unit := mtrlAt true b
/-- `Material::from_existing` at the pinned commit -/
def mtrlPinned (b : Bytes) : Res Unit := mtrlAt false b

end Physis.C18Mtrl
