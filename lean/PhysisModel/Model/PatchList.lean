import PhysisModel.Base.Bytes
import PhysisModel.Base.WireText
import PhysisModel.Spec.PatchList
/-!
Model of `src/patchlist.rs` (`PatchList::to_string`, `PatchList::from_string`) over UTF-8 byte
strings, **after** fix `C10-01` (the number after `X-Patch-Length: ` is parsed, not the whole
header line) and, for `from_string`, after fix aa3523f (rows with missing columns or non-numeric
sizes are skipped, a text with fewer than two lines has no rows: the function cannot panic any
more and the model always answers `some`).  In `to_string`, `none` stands for a panic (index out
of range, arithmetic overflow in a build with overflow checks); those inputs are C17's subject.
Data types are shared with `Spec/PatchList.lean`.
-/
namespace Physis.PatchList
open Physis.WireText
open Physis.Spec.PatchList (Kind PatchEntry PatchList)

/-! string literals of the Rust source, as UTF-8 bytes -/
def litDashes : Bytes := [0x2d, 0x2d]  -- "--"
def litContentType : Bytes := [0x43, 0x6f, 0x6e, 0x74, 0x65, 0x6e, 0x74, 0x2d, 0x54, 0x79, 0x70, 0x65, 0x3a, 0x20, 0x61, 0x70, 0x70, 0x6c, 0x69, 0x63, 0x61, 0x74, 0x69, 0x6f, 0x6e, 0x2f, 0x6f, 0x63, 0x74, 0x65, 0x74, 0x2d, 0x73, 0x74, 0x72, 0x65, 0x61, 0x6d, 0x0d, 0x0a]  -- "Content-Type: application/octet-stream\r\n"
def litContentLocation : Bytes := [0x43, 0x6f, 0x6e, 0x74, 0x65, 0x6e, 0x74, 0x2d, 0x4c, 0x6f, 0x63, 0x61, 0x74, 0x69, 0x6f, 0x6e, 0x3a, 0x20]  -- "Content-Location: "
def litPatchLength : Bytes := [0x58, 0x2d, 0x50, 0x61, 0x74, 0x63, 0x68, 0x2d, 0x4c, 0x65, 0x6e, 0x67, 0x74, 0x68, 0x3a, 0x20]  -- "X-Patch-Length: "
def litSha1 : Bytes := [0x73, 0x68, 0x61, 0x31]  -- "sha1"
def litDashesCrlf : Bytes := [0x2d, 0x2d, 0x0d, 0x0a]  -- "--\r\n"

/-- `total_patch_size += patch.length` in `i64` with overflow checks -/
def sumLengths : Int → List PatchEntry → Option Int
  | acc, [] => some acc
  | acc, p :: rest =>
    let v := acc + p.length
    if -(2 ^ 63 : Int) ≤ v ∧ v < 2 ^ 63 then sumLengths v rest else none

/-- the hash column: `hashes[0]` then `,` + hash for `hashes[1..]` -/
def pushHashes : List Bytes → Option Bytes
  | [] => none                                   -- `patch.hashes[0]` panics
  | h :: rest => some (h ++ (rest.map (fun x => (0x2c : UInt8) :: x)).flatten)

/-- body of the second `for patch in &self.patches` loop -/
def rowToString (kind : Kind) (p : PatchEntry) : Option Bytes :=
  let s := showInt p.length ++ [9]
  let s := s ++ showInt p.sizeOnDisk ++ [9]
  let s := s ++ showInt p.unknownA ++ [9]
  let s := s ++ showInt p.unknownB ++ [9]
  let s := s ++ p.version ++ [9]
  let s? : Option Bytes :=
    match kind with
    | .game =>
      let s := s ++ litSha1 ++ [9]
      let s := s ++ showInt p.hashBlockSize ++ [9]
      match pushHashes p.hashes with
      | none => none
      | some hs => some (s ++ hs ++ [9])
    | .boot => some s
  match s? with
  | none => none
  | some s => some (s ++ p.url ++ [13, 10])

def rowsToString (kind : Kind) : List PatchEntry → Option Bytes
  | [] => some []
  | p :: rest =>
    match rowToString kind p, rowsToString kind rest with
    | some a, some b => some (a ++ b)
    | _, _ => none

/-- `PatchList::to_string` -/
def toString (kind : Kind) (pl : PatchList) : Option Bytes :=
  let s := litDashes ++ pl.id ++ [13, 10]
  let s := s ++ litContentType
  let s := s ++ litContentLocation ++ pl.contentLocation ++ [13, 10]
  match sumLengths 0 pl.patches with
  | none => none
  | some total =>
    let s := s ++ litPatchLength ++ showInt total ++ [13, 10]
    let s := s ++ [13, 10]
    match rowsToString kind pl.patches with
    | none => none
    | some rows =>
      some (s ++ rows ++ litDashes ++ pl.id ++ litDashesCrlf)

/-- the `X-Patch-Length` lookup at the top of `from_string` (with fix C10-01) -/
def parsePatchLength (encoded : Bytes) : Nat :=
  match findSub litPatchLength encoded with
  | none => 0
  | some idx =>
    let rest := encoded.drop (idx + litPatchLength.length)
    match findSub [13, 10] rest with
    | none => 0
    | some e =>
      match parseU64 (rest.take e) with
      | some p => p
      | none => 0

/-- `PatchList::parse_entry` on the tab-separated columns of a row; `none` = `None`: the row is
skipped (a missing column, a size that is not an `i64`) -/
def parseRow (kind : Kind) (row : Bytes) : Option PatchEntry :=
  let parts := splitByte 9 row
  match kind with
  | .boot =>
    match parts[5]?, parts[4]?, parts[0]?, parts[1]? with
    | some url, some version, some len, some size =>
      match parseI64 len, parseI64 size with
      | some len, some size => some ⟨url, version, 0, len, size, [], 0, 0⟩
      | _, _ => none
    | _, _, _, _ => none
  | .game =>
    match parts[8]?, parts[4]?, parts[6]?, parts[0]?, parts[1]?, parts[7]? with
    | some url, some version, some hbs, some len, some size, some hashes =>
      match parseI64 hbs, parseI64 len, parseI64 size with
      | some hbs, some len, some size => some ⟨url, version, hbs, len, size, splitByte 0x2c hashes, 0, 0⟩
      | _, _, _ => none
    | _, _, _, _, _, _ => none

/-- the row loop: `if let Some(entry) = Self::parse_entry(..) { patches.push(entry) }` -/
def parseRows (kind : Kind) (rows : List Bytes) : List PatchEntry := rows.filterMap (parseRow kind)

/-- `PatchList::from_string` (total: always `some`) -/
def fromString (kind : Kind) (encoded : Bytes) : Option PatchList :=
  let patchLength := parsePatchLength encoded
  let parts := splitCRLF encoded
  -- for i in 5..parts.len().saturating_sub(2)
  let rows := (parts.take (parts.length - 2)).drop 5
  some ⟨[], patchLength, [], [], parseRows kind rows⟩

end Physis.PatchList
