import PhysisModel.Base.MdlTypes
import PhysisModel.Base.SoftFloat
/-!
# Model of `MDL::from_existing` (`src/model.rs`, `src/model_vertex_declarations.rs`,
typed readers of `src/model_file_operations.rs`)

Same read order and arithmetic width as the Rust.  Outcomes: `.ok v` (`Some(v)`),
`.error .fail` (the function returns `None`: a binrw read error or a `.ok()?`),
`.error .panic` (index out of bounds, `unwrap` on a failed typed read, overflow in checked
arithmetic — the harness builds with overflow checks on, like the repository's tests).
The sequential grammar consumes a byte list; the random-access part (vertex, index and stream
reads after `seek`) works on an array copy of the whole file.
-/
namespace Physis.Mdl
open Physis Physis.SoftFloat

inductive Err | fail | panic
deriving DecidableEq, Repr, Inhabited

abbrev R := Except Err

/-! ## the binrw primitives used by the grammar -/

def P (α : Type) := Bytes → R (α × Bytes)

@[inline] def P.pure (a : α) : P α := fun s => .ok (a, s)
@[inline] def P.bind (p : P α) (f : α → P β) : P β := fun s =>
  match p s with
  | .ok (a, s') => f a s'
  | .error e => .error e

instance : Monad P where
  pure := P.pure
  bind := P.bind

def P.failWith (e : Err) : P α := fun _ => .error e

def u8 : P UInt8 := fun s =>
  match s with
  | a :: rest => .ok (a, rest)
  | _ => .error .fail

def u16 : P UInt16 := fun s =>
  match s with
  | a :: b :: rest => .ok (a.toUInt16 ||| (b.toUInt16 <<< 8), rest)
  | _ => .error .fail

def u32 : P UInt32 := fun s =>
  match s with
  | a :: b :: c :: d :: rest =>
    .ok (a.toUInt32 ||| (b.toUInt32 <<< 8) ||| (c.toUInt32 <<< 16) ||| (d.toUInt32 <<< 24), rest)
  | _ => .error .fail

/-- `count = n` bytes (`Vec<u8>` / a fixed-size block of plain fields): all or error -/
def takeN (n : Nat) : P Bytes := fun s =>
  if n ≤ s.length then .ok (s.take n, s.drop n) else .error .fail

/-- `pad_after` / `SeekFrom::Current`: seeking past the end of a cursor is not an error -/
def skip (n : Nat) : P Unit := fun s => .ok ((), s.drop n)

/-- `#[br(count = n)]` for a vector of records -/
def count (p : P α) : Nat → P (List α)
  | 0 => pure []
  | n + 1 => do
    let a ← p
    let rest ← count p n
    pure (a :: rest)

def arr3 (p : P α) : P (Arr3 α) := do
  let a ← p
  let b ← p
  let c ← p
  pure ⟨a, b, c⟩

/-- binrw's `#[br(if(c))]`: read the field when `c` holds, else take the default -/
def condP (c : Bool) (p : P α) (dflt : α) : P α := if c then p else pure dflt

/-- `read_bool_from::<u8>` -/
def bool8 : P Bool := do
  let x ← u8
  pure (x == 1)

/-! ## grammar -/

def parseFileHeader : P FileHeader := do
  let version ← u32
  let stackSize ← u32
  let runtimeSize ← u32
  let vertexDeclarationCount ← u16
  let materialCount ← u16
  let vertexOffsets ← arr3 u32
  let indexOffsets ← arr3 u32
  let vertexBufferSize ← arr3 u32
  let indexBufferSize ← arr3 u32
  let lodCount ← u8
  let streaming ← bool8
  let edge ← bool8
  skip 1
  pure { version, stackSize, runtimeSize, vertexDeclarationCount, materialCount, vertexOffsets,
         indexOffsets, vertexBufferSize, indexBufferSize, lodCount,
         indexBufferStreamingEnabled := streaming, hasEdgeGeometry := edge }

/-- `VertexElement::read`: an unknown `VertexType` / `VertexUsage` discriminant is a read error -/
def parseElement : P VertexElement := do
  let stream ← u8
  let offset ← u8
  let vertexType ← u8
  if !validType vertexType then P.failWith .fail else
  let vertexUsage ← u8
  if !validUsage vertexUsage then P.failWith .fail else
  let usageIndex ← u8
  skip 3
  pure { stream, offset, vertexType, vertexUsage, usageIndex }

/-- the `loop` of `vertex_element_parser`: push, read the next slot, stop on stream 0xFF.
Fuel: every round consumes 8 bytes, so `input length` rounds always suffice. -/
def declLoop : Nat → VertexElement → List VertexElement → P (List VertexElement)
  | 0, _, _ => P.failWith .fail
  | fuel + 1, e, acc => do
    let acc := acc ++ [e]
    let e' ← parseElement
    if e'.stream == 0xFF then pure acc else declLoop fuel e' acc

/-- one declaration: the first slot is taken unconditionally; afterwards
`to_seek = 17·8 − (len+1)·8` in `usize` (underflow panics) -/
def parseDecl : P (List VertexElement) := fun s =>
  (do
    let e ← parseElement
    let elems ← declLoop (s.length / 8 + 1) e []
    if (elems.length + 1) * 8 > 17 * 8 then P.failWith .panic else
    skip (17 * 8 - (elems.length + 1) * 8)
    pure elems : P (List VertexElement)) s

def parseModelHeader : P ModelHeader := do
  let stringCount ← u16
  skip 2
  let stringSize ← u32
  let strings ← takeN stringSize.toNat
  let radius ← u32
  let meshCount ← u16
  let attributeCount ← u16
  let submeshCount ← u16
  let materialCount ← u16
  let boneCount ← u16
  let boneTableCount ← u16
  let shapeCount ← u16
  let shapeMeshCount ← u16
  let shapeValueCount ← u16
  let lodCount ← u8
  let flags1 ← u8
  if !validFlags1 flags1 then P.failWith .fail else
  let elementIdCount ← u16
  let terrainShadowMeshCount ← u8
  let flags2 ← u8
  if !validFlags2 flags2 then P.failWith .fail else
  let modelClipOutOfDistance ← u32
  let shadowClipOutOfDistance ← u32
  let unknown4 ← u16
  let terrainShadowSubmeshCount ← u16
  let unknown5 ← u8
  let bgChangeMaterialIndex ← u8
  let bgCrestChangeMaterialIndex ← u8
  let unknown6 ← u8
  let unknown7 ← u16
  let unknown8 ← u16
  let unknown9 ← u16
  skip 6
  pure { stringCount, stringSize, strings, radius, meshCount, attributeCount, submeshCount,
         materialCount, boneCount, boneTableCount, shapeCount, shapeMeshCount, shapeValueCount,
         lodCount, flags1, elementIdCount, terrainShadowMeshCount, flags2,
         modelClipOutOfDistance, shadowClipOutOfDistance, unknown4, terrainShadowSubmeshCount,
         unknown5, bgChangeMaterialIndex, bgCrestChangeMaterialIndex, unknown6, unknown7,
         unknown8, unknown9 }

def parseMeshLod : P MeshLod := do
  let meshIndex ← u16
  let meshCount ← u16
  let mid ← takeN 28
  let edgeGeometryDataOffset ← u32
  let polygonCount ← u32
  skip 4
  let vertexBufferSize ← u32
  let indexBufferSize ← u32
  let vertexDataOffset ← u32
  let indexDataOffset ← u32
  pure { meshIndex, meshCount, mid, edgeGeometryDataOffset, polygonCount, vertexBufferSize,
         indexBufferSize, vertexDataOffset, indexDataOffset }

def parseMesh : P Mesh := do
  let vertexCount ← u16
  skip 2
  let indexCount ← u32
  let materialIndex ← u16
  let submeshIndex ← u16
  let submeshCount ← u16
  let boneTableIndex ← u16
  let startIndex ← u32
  let vertexBufferOffsets ← arr3 u32
  let vertexBufferStrides ← arr3 u8
  let vertexStreamCount ← u8
  pure { vertexCount, indexCount, materialIndex, submeshIndex, submeshCount, boneTableIndex,
         startIndex, vertexBufferOffsets, vertexBufferStrides, vertexStreamCount }

def parseSubmesh : P Submesh := do
  let indexOffset ← u32
  let indexCount ← u32
  let attributeIndexMask ← u32
  let boneStartIndex ← u16
  let boneCount ← u16
  pure { indexOffset, indexCount, attributeIndexMask, boneStartIndex, boneCount }

def parseBoneTable : P BoneTable := do
  let boneIndices ← count u16 64
  let boneCount ← u8
  skip 3
  pure { boneIndices, boneCount }

def parseBoneTableV2 : P BoneTableV2 := do
  skip 2
  let boneCount ← u16
  let boneIndices ← count u16 boneCount.toNat
  let padding ← condP (boneCount % 2 == 0) u16 0
  pure { boneCount, boneIndices, padding }

def parseShape : P ShapeStruct := do
  let stringOffset ← u32
  let shapeMeshStartIndex ← arr3 u16
  let shapeMeshCount ← arr3 u16
  pure { stringOffset, shapeMeshStartIndex, shapeMeshCount }

def parseShapeMesh : P ShapeMesh := do
  let meshIndexOffset ← u32
  let shapeValueCount ← u32
  let shapeValueOffset ← u32
  pure { meshIndexOffset, shapeValueCount, shapeValueOffset }

def parseShapeValue : P ShapeValue := do
  let baseIndicesIndex ← u16
  let replacingVertexIndex ← u16
  pure { baseIndicesIndex, replacingVertexIndex }

def v5 (version : UInt32) : Bool := version ≤ 0x1000005
def v6 (version : UInt32) : Bool := version ≥ 0x1000006

/-- `ModelData::read_args` -/
def parseModelData (fh : FileHeader) : P ModelData := do
  let decls ← count parseDecl fh.vertexDeclarationCount.toNat
  let header ← parseModelHeader
  let elementIds ← count (takeN 32) header.elementIdCount.toNat
  let lods ← count parseMeshLod 3
  let meshes ← count parseMesh header.meshCount.toNat
  let attributeNameOffsets ← count u32 header.attributeCount.toNat
  let terrainShadowMeshes ← count (takeN 20) header.terrainShadowMeshCount.toNat
  let submeshes ← count parseSubmesh header.submeshCount.toNat
  let terrainShadowSubmeshes ← count (takeN 12) header.terrainShadowSubmeshCount.toNat
  let materialNameOffsets ← count u32 header.materialCount.toNat
  let boneNameOffsets ← count u32 header.boneCount.toNat
  let boneTables ← condP (v5 fh.version) (count parseBoneTable header.boneTableCount.toNat) []
  let boneTablesV2 ← condP (v6 fh.version) (count parseBoneTableV2 header.boneTableCount.toNat) []
  let shapes ← count parseShape header.shapeCount.toNat
  let shapeMeshes ← count parseShapeMesh header.shapeMeshCount.toNat
  let shapeValues ← count parseShapeValue header.shapeValueCount.toNat
  let submeshBoneMapSize ← condP (v5 fh.version) u32 0
  let submeshBoneMapSizeV2 ← condP (v6 fh.version) u16 0
  let mapCount : Nat :=
    if v6 fh.version then (submeshBoneMapSizeV2 / 2).toNat else (submeshBoneMapSize / 2).toNat
  let submeshBoneMap ← count u16 mapCount
  let paddingAmount ← u8
  let unknownPadding ← takeN paddingAmount.toNat
  let boundingBoxes ← takeN 128
  let boneBoundingBoxes ← count (takeN 32) header.boneCount.toNat
  pure { decls, header, elementIds, lods, meshes, attributeNameOffsets, terrainShadowMeshes,
         submeshes, terrainShadowSubmeshes, materialNameOffsets, boneNameOffsets, boneTables,
         boneTablesV2, shapes, shapeMeshes, shapeValues, submeshBoneMapSize,
         submeshBoneMapSizeV2, submeshBoneMap, paddingAmount, unknownPadding, boundingBoxes,
         boneBoundingBoxes }

/-! ## after the grammar: names, vertices, indices, sub-meshes, shapes, streams -/

/-- the `while next_char != '\0'` loop: indexing past the table panics -/
def nameAt (strings : Bytes) (off : UInt32) : R Bytes :=
  let t := strings.drop off.toNat
  let name := t.takeWhile (· != 0)
  if name.length < t.length then .ok (name.flatMap latin1Utf8) else .error .panic

def idx (l : List α) (i : Nat) : R α :=
  match l[i]? with
  | some a => .ok a
  | none => .error .panic

def idx3 (a : Arr3 α) (i : Nat) : R α :=
  match a.get? i with
  | some v => .ok v
  | none => .error .panic

/-- `u32 + u32` with the overflow check of a debug build -/
def addU32 (a b : UInt32) : R UInt32 :=
  if a.toNat + b.toNat < 4294967296 then .ok (a + b) else .error .panic
def mulU32 (a b : UInt32) : R UInt32 :=
  if a.toNat * b.toNat < 4294967296 then .ok (a * b) else .error .panic
def addU16 (a b : UInt16) : R UInt16 :=
  if a.toNat + b.toNat < 65536 then .ok (a + b) else .error .panic

/-- bytes `[off, off+n)` of the file after a `seek(Start(off))`; `none` = short read (reading
nothing never fails, wherever the cursor is) -/
def readAt (file : Array UInt8) (off n : Nat) : Option Bytes :=
  if n = 0 then some []
  else if off + n ≤ file.size then some (file.extract off (off + n)).toList else none

def leU32s : Bytes → List UInt32
  | a :: b :: c :: d :: rest =>
    (a.toUInt32 ||| (b.toUInt32 <<< 8) ||| (c.toUInt32 <<< 16) ||| (d.toUInt32 <<< 24)) :: leU32s rest
  | _ => []

def leU16s : Bytes → List UInt16
  | a :: b :: rest => (a.toUInt16 ||| (b.toUInt16 <<< 8)) :: leU16s rest
  | _ => []

/-- typed reader followed by `.unwrap()` -/
def readOrPanic (file : Array UInt8) (off n : Nat) : R Bytes :=
  match readAt file off n with
  | some b => .ok b
  | none => .error .panic

def readSingle4 (file : Array UInt8) (off : Nat) : R (List UInt32) := do
  let b ← readOrPanic file off 16; pure (leU32s b)
def readSingle3 (file : Array UInt8) (off : Nat) : R (List UInt32) := do
  let b ← readOrPanic file off 12; pure (leU32s b)
def readHalf4 (file : Array UInt8) (off : Nat) : R (List UInt32) := do
  let b ← readOrPanic file off 8; pure ((leU16s b).map halfToF32)
def readHalf2 (file : Array UInt8) (off : Nat) : R (List UInt32) := do
  let b ← readOrPanic file off 4; pure ((leU16s b).map halfToF32)
def readByteFloat4 (file : Array UInt8) (off : Nat) : R (List UInt32) := do
  let b ← readOrPanic file off 4; pure (b.map readByteFloat)
def readByte4 (file : Array UInt8) (off : Nat) : R Bytes := readOrPanic file off 4
def readUShort4 (file : Array UInt8) (off : Nat) : R (List UInt16) := do
  let b ← readOrPanic file off 8; pure (leU16s b)
def readTangent (file : Array UInt8) (off : Nat) : R (List UInt32) := do
  let b ← readOrPanic file off 4
  pure ((b.take 3).map readTangentXYZ ++ (b.drop 3).map readTangentW)

/-- the `match element.vertex_usage { … match element.vertex_type { … } }` switch -/
def decodeElement (file : Array UInt8) (off : Nat) (usage type : UInt8) (v : Vertex) : R Vertex :=
  if usage == VU.position then
    if type == VT.single4 then do
      let x ← readSingle4 file off; pure { v with position := x.take 3 }
    else if type == VT.half4 then do
      let x ← readHalf4 file off; pure { v with position := x.take 3 }
    else if type == VT.single3 then do
      let x ← readSingle3 file off; pure { v with position := x }
    else .error .panic
  else if usage == VU.blendWeights then
    if type == VT.byteFloat4 then do
      let x ← readByteFloat4 file off; pure { v with boneWeight := x }
    else if type == VT.byte4 then do
      let x ← readTangent file off; pure { v with boneWeight := x }
    else if type == VT.ushort4 then do
      let x ← readUShort4 file off; pure { v with boneWeight := x.map u16ToF32 }
    else .error .panic
  else if usage == VU.blendIndices then
    if type == VT.byte4 then do
      let x ← readByte4 file off; pure { v with boneId := x }
    else if type == VT.ushort4 then do
      let x ← readUShort4 file off; pure { v with boneId := x.map UInt16.toUInt8 }
    else .error .panic
  else if usage == VU.normal then
    if type == VT.half4 then do
      let x ← readHalf4 file off; pure { v with normal := x.take 3 }
    else if type == VT.single3 then do
      let x ← readSingle3 file off; pure { v with normal := x }
    else .error .panic
  else if usage == VU.uv then
    if type == VT.byteFloat4 then do
      let x ← readByteFloat4 file off; pure { v with uv0 := x.take 2, uv1 := x.drop 2 }
    else if type == VT.half4 then do
      let x ← readHalf4 file off; pure { v with uv0 := x.take 2, uv1 := x.drop 2 }
    else if type == VT.single4 then do
      let x ← readSingle4 file off; pure { v with uv0 := x.take 2, uv1 := x.drop 2 }
    else if type == VT.half2 then do
      let x ← readHalf2 file off; pure { v with uv0 := x }
    else .error .panic
  else if usage == VU.biTangent then
    if type == VT.byteFloat4 then do
      let x ← readTangent file off; pure { v with bitangent := x }
    else .error .panic
  else if usage == VU.tangent then
    if type == VT.byteFloat4 then pure v else .error .panic
  else if usage == VU.color then
    if type == VT.byteFloat4 then do
      let x ← readByteFloat4 file off; pure { v with color := x }
    else .error .panic
  else .error .panic

/-- `lod.vertex_data_offset + mesh.vertex_buffer_offsets[stream] + element.offset as u32 +
mesh.vertex_buffer_strides[stream] as u32 * k as u32`, all in `u32` -/
def elementAddress (lod : MeshLod) (mesh : Mesh) (e : VertexElement) (k : UInt16) : R UInt32 := do
  let off ← idx3 mesh.vertexBufferOffsets e.stream.toNat
  let a ← addU32 lod.vertexDataOffset off
  let b ← addU32 a e.offset.toUInt32
  let stride ← idx3 mesh.vertexBufferStrides e.stream.toNat
  let c ← mulU32 stride.toUInt32 k.toUInt32
  addU32 b c

def readVertex (file : Array UInt8) (lod : MeshLod) (mesh : Mesh) (decl : List VertexElement)
    (k : UInt16) : R Vertex :=
  decl.foldlM (fun v e => do
    let addr ← elementAddress lod mesh e k
    decodeElement file addr.toNat e.vertexUsage e.vertexType v) Vertex.default

def readVertices (file : Array UInt8) (lod : MeshLod) (mesh : Mesh) (decl : List VertexElement) :
    R (List Vertex) :=
  (List.range mesh.vertexCount.toNat).mapM fun k => readVertex file lod mesh decl k.toUInt16

def readSubmeshes (md : ModelData) (mesh : Mesh) : R (List SubMeshView) :=
  (List.range mesh.submeshCount.toNat).mapM fun i => do
    let s ← idx md.submeshes (mesh.submeshIndex.toNat + i)
    pure ⟨mesh.submeshIndex.toNat + i, s.indexCount, s.indexOffset⟩

/-- the filter on shape values: `b >= start as u16 && b < (start + count) as u16` (the sum is
only evaluated when the first comparison holds) -/
def shapeValueInMesh (mesh : Mesh) (sv : ShapeValue) : R Bool :=
  if sv.baseIndicesIndex ≥ mesh.startIndex.toUInt16 then do
    let e ← addU32 mesh.startIndex mesh.indexCount
    pure (sv.baseIndicesIndex < e.toUInt16)
  else pure false

def morph (verts : List Vertex) (indices : List UInt16) (vals : List ShapeValue) : R (List Vertex) :=
  vals.foldlM (fun (acc : List Vertex) sv => do
    let ix ← idx indices sv.baseIndicesIndex.toNat
    let old ← idx verts ix.toNat
    let new ← idx verts sv.replacingVertexIndex.toNat
    let cur ← idx acc ix.toNat
    pure (acc.set ix.toNat { cur with position := List.zipWith f32Sub new.position old.position }))
    (verts.map fun _ => Vertex.default)

def readShapes (md : ModelData) (lodIx : Nat) (mesh : Mesh) (verts : List Vertex)
    (indices : List UInt16) : R (List Shape) :=
  md.shapes.foldlM (fun (acc : List Shape) sh => do
    let s0 ← idx3 sh.shapeMeshStartIndex lodIx
    let c0 ← idx3 sh.shapeMeshCount lodIx
    let sms := ((md.shapeMeshes.drop s0.toNat).take c0.toNat).filter
      (fun sm => sm.meshIndexOffset == mesh.startIndex)
    let cand := sms.flatMap fun sm =>
      (md.shapeValues.drop sm.shapeValueOffset.toNat).take sm.shapeValueCount.toNat
    let vals ← cand.filterM (shapeValueInMesh mesh)
    if vals.isEmpty then pure acc else do
      let d ← morph verts indices vals
      let name ← nameAt md.header.strings sh.stringOffset
      pure (acc ++ [{ name := name, morphedVertices := d }])) []

def readStreams (file : Array UInt8) (lod : MeshLod) (mesh : Mesh) : R (List Bytes × List Nat) :=
  (List.range mesh.vertexStreamCount.toNat).foldlM (fun (acc : List Bytes × List Nat) s => do
    let stride ← idx3 mesh.vertexBufferStrides s
    let chunks ← (List.range mesh.vertexCount.toNat).mapM fun z => do
      let off ← idx3 mesh.vertexBufferOffsets s
      let a ← addU32 lod.vertexDataOffset off
      let b ← mulU32 z.toUInt32 stride.toUInt32
      let c ← addU32 a b
      match readAt file c.toNat stride.toNat with
      | some d => pure d
      | none => .error .fail
    pure (acc.1 ++ [chunks.flatten], acc.2 ++ [stride.toNat])) ([], [])

def readPart (file : Array UInt8) (fh : FileHeader) (md : ModelData) (lodIx : Nat) (lod : MeshLod)
    (j : Nat) : R Part := do
  let decl ← idx md.decls j
  let mesh ← idx md.meshes j
  let vertices ← readVertices file lod mesh decl
  let ioff ← idx3 fh.indexOffsets lodIx
  -- `index_offsets[i] as u64 + start_index as u64 * 2`: 64-bit since the fix "compute model vertex
  -- and index buffer addresses in 64 bits" — the sum of two `u32`-sized terms cannot overflow, and a
  -- seek behind the end of the buffer succeeds (an empty index list is then read as empty)
  -- `for _ in 0..index_count { indices.push(cursor.read_le::<u16>().ok()?) }`
  let indices ←
    match readAt file (ioff.toNat + mesh.startIndex.toNat * 2) (2 * mesh.indexCount.toNat) with
    | some b => pure (leU16s b)
    | none => (.error .fail : R (List UInt16))
  let submeshes ← readSubmeshes md mesh
  let shapes ← readShapes md lodIx mesh vertices indices
  let (streams, strides) ← readStreams file lod mesh
  pure { meshIndex := j.toUInt16, vertices, vertexStreams := streams,
         vertexStreamStrides := strides, indices, materialIndex := mesh.materialIndex,
         submeshes, shapes }

def readLod (file : Array UInt8) (fh : FileHeader) (md : ModelData) (i : Nat) : R (List Part) := do
  let lod ← idx md.lods i
  let hi ← addU16 lod.meshIndex lod.meshCount
  (List.range (hi.toNat - lod.meshIndex.toNat)).mapM fun d =>
    readPart file fh md i lod (lod.meshIndex.toNat + d)

/-- `MDL::from_existing` -/
def fromExisting (bytes : Bytes) : R MDL := do
  let (fh, rest) ← parseFileHeader bytes
  let (md, _) ← parseModelData fh rest
  let affectedBoneNames ← md.boneNameOffsets.mapM (nameAt md.header.strings)
  let materialNames ← md.materialNameOffsets.mapM (nameAt md.header.strings)
  let file := bytes.toArray
  let lods ← (List.range md.header.lodCount.toNat).mapM (readLod file fh md)
  pure { fileHeader := fh, modelData := md, lods, affectedBoneNames, materialNames }

end Physis.Mdl
