import PhysisModel.Base.ParserA
import PhysisModel.Generated.C18Enums
/-!
Fault-tracking models of the grammar-only / header-only asset readers (C18 step 1):
`src/{uld,sgb,scd,hwc,iwc,tmb,skp,schd,phyb,pap}.rs`, `src/sqpack/db.rs`, `src/exh.rs`,
`src/exd.rs` (`EXD::from_existing`), and the shared `SqPackHeader` of `src/sqpack/mod.rs`.

Each reader is the binrw struct, field by field, in declaration order.  The identifier closures
are the **repaired** ones (`try_map = String::from_utf8(x)…` instead of `map = … .unwrap()`);
`identUnfixed` keeps the closure as it is at the pinned commit for the witness theorem.
The discriminant tables of the `repr` / magic enums come from `Generated/C18Enums.lean`, which the
check regenerates on every run from the **compiled** parsers (T2, exhaustive over the field's domain).
-/
namespace Physis.C18Hdr
open Physis Physis.A

/-- `#[br(count = n)] #[br(try_map = |x: Vec<u8>| String::from_utf8(x).map(..trim..))]` -/
def ident (n : Nat) : P Unit := do
  let x ← P.countBytes n
  P.lift (utf8Check x)

/-- the closure at the pinned commit: `String::from_utf8(x).unwrap()` -/
def identUnfixed (n : Nat) : P Unit := do
  let x ← P.countBytes n
  P.lift (utf8Unwrap x)

/-! ### uld -/
def uldHeader : P Unit := do
  ident 4; ident 4
  let _ ← P.u32le; let _ ← P.u32le
  pure ()
def uld (b : Bytes) : Res Unit := P.run uldHeader b

def uldHeaderUnfixed : P Unit := do
  identUnfixed 4; identUnfixed 4
  let _ ← P.u32le; let _ ← P.u32le
  pure ()
def uldUnfixed (b : Bytes) : Res Unit := P.run uldHeaderUnfixed b

/-! ### sgb -/
def sgbHeader : P Unit := do
  ident 4
  let _ ← P.u32le; let _ ← P.u32le
  pure ()
def sgb (b : Bytes) : Res Unit := P.run sgbHeader b

/-! ### scd -/
def scdHeader : P Unit := do
  ident 4; ident 4
  let _ ← P.u32le; let _ ← P.u32le      -- version, endian_type
  let _ ← P.u8                            -- alignment_bits
  let _ ← P.u16le                         -- offset
  let _ ← P.u64le                         -- datetime
  P.skip 4                                -- pad_before = 4
  let _ ← P.u16le; let _ ← P.u16le; let _ ← P.u16le; let _ ← P.u16le
  let _ ← P.u32le; let _ ← P.u32le; let _ ← P.u32le; let _ ← P.u32le; let _ ← P.u32le
  let _ ← P.u16le
  P.skip 2                                -- pad_after = 2
def scd (b : Bytes) : Res Unit := P.run scdHeader b

/-! ### hwc: `vec![0; 64*64*4]`, `read_exact` -/
def hwcBody : P Unit := do
  P.lift (Res.alloc 16384)
  let _ ← P.bytes 16384
  pure ()
def hwc (b : Bytes) : Res Unit := P.run hwcBody b

/-! ### iwc, tmb -/
def iwcHeader : P Unit := do let _ ← P.u16le; let _ ← P.u16le; pure ()
def iwc (b : Bytes) : Res Unit := P.run iwcHeader b

def tmbHeader : P Unit := do let _ ← P.u32le; let _ ← P.u32le; let _ ← P.u32le; pure ()
def tmb (b : Bytes) : Res Unit := P.run tmbHeader b

/-! ### skp -/
def skpHeader : P Unit := do let _ ← P.u32le; ident 4
def skp (b : Bytes) : Res Unit := P.run skpHeader b

/-! ### schd -/
def u8Nat : P Nat := P.map UInt8.toNat P.u8
def u16leNat : P Nat := P.map UInt16.toNat P.u16le
def u16beNat : P Nat := P.map UInt16.toNat P.u16be
def u32leNat : P Nat := P.map UInt32.toNat P.u32le
def u32beNat : P Nat := P.map UInt32.toNat P.u32be

def schdHeader : P Unit := do
  let _ ← P.u32le
  ident 3
  let _ ← P.reprEnum u8Nat Generated.C18.shaderStages   -- ShaderStage (unit variants with u8 magics)
  let _ ← P.u32le; let _ ← P.u32le; let _ ← P.u32le; let _ ← P.u32le
  pure ()
def schd (b : Bytes) : Res Unit := P.run schdHeader b

/-! ### phyb -/
def phybHeader : P Unit := do
  let v ← P.bytes 4
  let _ ← P.ifCond (decide (v.headD 0 > 0)) P.u32le 0
  let _ ← P.u32le; let _ ← P.u32le
  pure ()
def phyb (b : Bytes) : Res Unit := P.run phybHeader b

/-! ### pap -/
def papHeader : P Unit := do
  let _ ← P.u32le; let _ ← P.u32le
  let _ ← P.u16le; let _ ← P.u16le
  let _ ← P.reprEnum u8Nat Generated.C18.skeletonTypes  -- SkeletonType
  let _ ← P.u32le
  let _ ← P.u32le; let _ ← P.u32le; let _ ← P.u32le
  pure ()
def pap (b : Bytes) : Res Unit := P.run papHeader b

/-! ### `SqPackHeader` (`src/sqpack/mod.rs`), little endian -/
def sqpackMagic : Bytes := [0x53, 0x71, 0x50, 0x61, 0x63, 0x6b, 0, 0]

/-- returns `size` -/
def sqpackHeader : P Nat := do
  P.magic sqpackMagic
  let _ ← P.padSizeTo 4 (P.reprEnum u8Nat Generated.C18.platformIds)   -- Platform
  let size ← u32leNat
  let _ ← P.u32le                                             -- version
  let _ ← P.padSizeTo 4 (P.reprEnum u8Nat Generated.C18.sqpackFileTypes)          -- SqPackFileType
  let _ ← P.u32le; let _ ← P.u32le                            -- unk1, unk2
  let _ ← P.padSizeTo 4 (P.reprEnum u16leNat Generated.C18.regionIds)      -- Region (repr i16: -1, 1)
  P.skip 924
  let _ ← P.bytes 20
  P.skip 44
  pure size

/-! ### sqdb.  `read_string` is modelled as repaired by C17's patch (`from_utf8_lossy`): it
accepts every byte string.  At the pinned commit it is `String::from_utf8(x).unwrap()`; that site
is recorded as an open finding of C18 until C17's patch is merged. -/
def sqdbEntry : P Unit := do
  P.skip 4
  let _ ← P.u32le
  let _ ← P.u32le
  P.skip 4
  let _ ← P.u32le; let _ ← P.u32le
  let _ ← P.countBytes 240
  pure ()

def sqdbFile : P Nat := do
  let _ ← sqpackHeader
  let _ ← P.u32le            -- SQDBHeader.size
  let _ ← P.u32le            -- unk, pad_after = 1016
  P.skip 1016
  let es ← P.untilEof sqdbEntry
  pure es.length
def sqdb (b : Bytes) : Res Nat := P.run sqdbFile b

/-- the same reader with `read_string` as at the pinned commit -/
def sqdbEntryUnfixed : P Unit := do
  P.skip 4
  let _ ← P.u32le
  let _ ← P.u32le
  P.skip 4
  let _ ← P.u32le; let _ ← P.u32le
  let x ← P.countBytes 240
  P.lift (utf8Unwrap x)

/-! ### exh (big endian) -/
def exhMagic : Bytes := [0x45, 0x58, 0x48, 0x46]

structure ExhHeader where
  dataOffset : Nat
  columnCount : Nat
  pageCount : Nat
  languageCount : Nat
  rowCount : Nat
  deriving Repr, Inhabited

def exhHeader : P ExhHeader := do
  P.magic exhMagic
  let _ ← P.u16be
  let dataOffset ← u16beNat
  let columnCount ← u16beNat
  let pageCount ← u16beNat
  let languageCount ← u16beNat
  P.skip 6
  let rowCount ← u32beNat
  P.skip 8
  pure ⟨dataOffset, columnCount, pageCount, languageCount, rowCount⟩

/-- `ColumnDataType` discriminants -/
def columnTypes : List Nat := Generated.C18.columnTypes

structure Column where
  dataType : Nat
  offset : Nat
  deriving Repr, Inhabited

def columnDef : P Column := do
  let t ← P.reprEnum u16beNat columnTypes
  let o ← u16beNat
  pure ⟨t, o⟩

def pageDef : P Unit := do let _ ← P.u32be; let _ ← P.u32be; pure ()

structure Exh where
  header : ExhHeader
  columns : List Column
  deriving Repr, Inhabited

def exhFile : P Exh := do
  let h ← exhHeader
  let cols ← P.count h.columnCount columnDef
  let _ ← P.count h.pageCount pageDef
  let _ ← P.count h.languageCount (P.reprEnum u8Nat Generated.C18.languageIds)
  pure ⟨h, cols⟩
def exh (b : Bytes) : Res Exh := P.run exhFile b

/-! ### exd: `EXD::from_existing` -/
def exdMagic : Bytes := [0x45, 0x58, 0x44, 0x46]

structure Exd where
  offsets : List (Nat × Nat)      -- (row_id, offset)
  data : Bytes                    -- `until_eof` from position 0: the whole file
  deriving Repr, Inhabited

def exdOffset : P (Nat × Nat) := do
  let r ← u32beNat
  let o ← u32beNat
  pure (r, o)

def exdFile : P Exd := do
  P.magic exdMagic
  let _ ← P.u16be
  P.skip 2
  let indexSize ← u32beNat
  P.skip 20
  let offs ← P.count (indexSize / 8) exdOffset
  P.seekStart 0
  let data ← P.untilEof P.u8
  pure ⟨offs, data⟩
def exd (b : Bytes) : Res Exd := P.run exdFile b

end Physis.C18Hdr
