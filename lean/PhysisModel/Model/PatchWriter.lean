import PhysisModel.Model.Patch
/-!
# `ZiPatch::create` on its `BufWriter<Cursor<&mut Vec<u8>>>`, seek by seek

`Patch.create` states the bytes of a created patch as a concatenation.  This file models the writer
the way the code drives it — `write`, `seek(Current(-4))`, the `restore_position` field of
`BlockHeader`, `seek(Current(4))` — and `Proofs/PatchWriter.lean` proves that the buffer it ends
with is `Patch.create`.  (`BufWriter` flushes before every seek, so buffering is not observable; a
`Cursor<Vec<u8>>` zero-fills when it writes past the end, like a file: `Fs.writeAt`.)
-/
namespace Physis.Patch
open Physis Physis.Fs

structure Cursor where
  buf : Bytes
  pos : Nat
  deriving Repr

/-- `write_all` -/
def Cursor.write (c : Cursor) (bs : Bytes) : Cursor :=
  if bs.isEmpty then c else { buf := writeAt c.buf c.pos bs, pos := c.pos + bs.length }

/-- `seek(SeekFrom::Current(-4))`; an error (position would be negative) makes `create` return `None` -/
def Cursor.back4 (c : Cursor) : Option Cursor :=
  if 4 ≤ c.pos then some { c with pos := c.pos - 4 } else none

/-- `seek(SeekFrom::Current(4))` -/
def Cursor.fwd4 (c : Cursor) : Cursor := { c with pos := c.pos + 4 }

/-- `write_data_block_patch`: `BlockHeader::write` — size, 4 bytes of padding, 32000, the length,
then the `compression` field (the length again) written and the position restored — and the data -/
def Cursor.writeBlock (c : Cursor) (d : Bytes) : Cursor :=
  let len := UInt64.ofNat d.length
  let c := c.write (putU32le (pad128 len - len).toUInt32)
  let c := c.write (putU32le 0)
  let c := c.write (putU32le 32000)
  let c := c.write (putU32le len.toUInt32)
  let p := c.pos
  let c := c.write (putU32le len.toUInt32)
  let c : Cursor := { c with pos := p }
  c.write d

/-- one added file: the chunk with its zero crc, back over the crc, the block, forward again -/
def Cursor.addFile (c : Cursor) (e : Path × Bytes) : Option Cursor := do
  let c := c.write (fileOpChunk 0x41 e.2.length (joinSlash e.1) ++ [0, 0, 0, 0])
  let c ← c.back4
  let c := c.writeBlock e.2
  pure c.fwd4

def Cursor.addFiles : Cursor → List (Path × Bytes) → Option Cursor
  | c, [] => some c
  | c, e :: r => (c.addFile e).bind fun c' => Cursor.addFiles c' r

def Cursor.delFiles : Cursor → List (Path × Bytes) → Cursor
  | c, [] => c
  | c, e :: r => Cursor.delFiles (c.write (fileOpChunk 0x44 0 (joinSlash e.1) ++ [0, 0, 0, 0])) r

/-- `ZiPatch::create`, as the code drives its writer -/
def createSeek (base new : List (Path × Bytes)) : Option Bytes := do
  let c : Cursor := { buf := [], pos := 0 }
  let c := c.write patchHeader
  let c ← Cursor.addFiles c (addedFiles base new)
  let c := Cursor.delFiles c (removedFiles base new)
  let c := c.write eofChunk
  pure c.buf

end Physis.Patch
