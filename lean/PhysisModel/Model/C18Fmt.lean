import PhysisModel.Base.ParserA
import PhysisModel.Model.C18Hdr
/-!
Fault-tracking models (C18 step 2, asset side) of

* `src/cmp.rs`  `CMP::from_existing`              (`len − 0x2A800`),
* `src/tex.rs`  `Texture::from_existing`          (size arithmetic, payload indexing, allocation of
                                                   `w·h·d·4` — after the repair: *after* the length check),
* `src/exd.rs`  `EXD::read_row` / `read_column`   (offsets, strides, heap scans).

They mirror the **repaired** code (`fixes/C18-02…04`); the `…Unfixed` variants keep the arithmetic
of the pinned commit for the witness theorems.  The texture model includes the block decoders of
`src/bcn` (`block_decoder!`, `copy_block_buffer`) with every slice / index check they make.
-/
namespace Physis.C18Fmt
open Physis Physis.A Physis.C18Hdr

/-! ## cmp -/

/-- `RacialScalingParameters`: 14 × f32 -/
def racialParams : P Unit := do
  let _ ← P.bytes 56
  pure ()

def cmpTableOffset : Nat := 0x2a800

/-- `CMP::from_existing` (repaired: `buffer.len().checked_sub(pos)?`) -/
def cmp (b : Bytes) : Res Nat := do
  let rem ← subQ b.length cmpTableOffset
  let entries := rem / 56
  let ps ← P.run (do P.seekStart cmpTableOffset; P.count entries racialParams) b
  pure ps.length

/-- pinned commit: `buffer.len() - cursor.position()` underflows (debug panic) on a short buffer -/
def cmpUnfixed (b : Bytes) : Res Nat := do
  let rem ← subC b.length cmpTableOffset
  let entries := rem / 56
  let ps ← P.run (do P.seekStart cmpTableOffset; P.count entries racialParams) b
  pure ps.length

/-! ## tex -/

structure TexHeader where
  format : Nat
  width : Nat
  height : Nat
  depth : Nat
  deriving Repr, Inhabited

/-- `TextureFormat` discriminants (T2: `Generated/C18Enums.lean`; 0x1440, 0x1450, 0x3420, 0x3431, 0x6230) -/
def texFormats : List Nat := Generated.C18.texFormats

/-- `TexHeader` (80 bytes on the wire; `size_of::<TexHeader>()` is 80 as well) -/
def texHeader : P TexHeader := do
  let _ ← P.u32le                                -- attribute (bitflags: any bits)
  let format ← P.reprEnum u32leNat texFormats
  let width ← u16leNat
  let height ← u16leNat
  let depth ← u16leNat
  let _ ← P.u16le                                -- mip_levels
  let _ ← P.bytes 12                             -- lod_offsets: [u32; 3]
  let _ ← P.bytes 52                             -- offset_to_surface: [u32; 13]
  pure ⟨format, width, height, depth⟩

def texHeaderSize : Nat := 80

/-- the B4G4R4A4 loop: `src[offset]`, `src[offset+1]`, `dst[dst_offset .. dst_offset+3]` -/
def loop4444 (srcLen dstLen : Nat) : Nat → Nat → Nat → Res Unit
  | 0, _, _ => .ok ()
  | n + 1, off, doff =>
    if off + 1 < srcLen ∧ doff + 3 < dstLen then loop4444 srcLen dstLen n (off + 2) (doff + 4)
    else .panic .index

/-- the B8G8R8A8 loop: `src[offset .. offset+3]`, `dst[offset .. offset+3]` -/
def loop8888 (srcLen dstLen : Nat) : Nat → Nat → Res Unit
  | 0, _ => .ok ()
  | n + 1, off =>
    if off + 3 < srcLen ∧ off + 3 < dstLen then loop8888 srcLen dstLen n (off + 4)
    else .panic .index

/-! ### the block decoders of `src/bcn` (`block_decoder!`, `copy_block_buffer`) -/

/-- the row loop of `copy_block_buffer`: `image[image_offset .. image_offset + copy_width]` and
`buffer[buffer_offset .. buffer_offset + copy_width]` (the block buffer has 16 entries) -/
def copyRows (w imgLen x cw : Nat) : Nat → Nat → Nat → Res Unit
  | 0, _, _ => .ok ()
  | r + 1, y, bo =>
    if y * w + x + cw ≤ imgLen ∧ bo + cw ≤ 16 then copyRows w imgLen x cw r (y + 1) (bo + 4)
    else .panic .slice

/-- `copy_width = if bw * (bx + 1) > w { w - bw * bx } else { bw }` (the subtraction panics on underflow) -/
def copyWidth (bx w : Nat) : Res Nat := if 4 * (bx + 1) > w then subC w (4 * bx) else .ok 4
/-- `copy_height = if bh * (by + 1) > h { h - y_0 } else { bh }` -/
def copyHeight (byy h : Nat) : Res Nat := if 4 * (byy + 1) > h then subC h (byy * 4) else .ok 4

/-- `copy_block_buffer(bx, by, w, h, 4, 4, buffer, image)` -/
def copyBlock (bx byy w h imgLen : Nat) : Res Unit :=
  copyWidth bx w >>= fun cw =>
  copyHeight byy h >>= fun ch =>
  copyRows w imgLen (4 * bx) cw ch (byy * 4) 0

/-- one row of blocks: `&data[data_offset..]` must hold the `bs` bytes the block decoder indexes
(`decode_bc1_block`: `data[0..8]`; `decode_bc3_block` / `decode_bc5_block`: `data[0..16]`);
the value is the next `data_offset` -/
def blockRow (dataLen bs w h imgLen byy : Nat) : Nat → Nat → Nat → Res Nat
  | 0, _, off => .ok off
  | k + 1, bx, off =>
    if off + bs ≤ dataLen then
      match (copyBlock bx byy w h imgLen).out with
      | .ok _ => blockRow dataLen bs w h imgLen byy k (bx + 1) (off + bs)
      | .fail e => ⟨.fail e, 0⟩
      | .fault f => ⟨.fault f, 0⟩
    else .panic .index

def blockRows (dataLen bs w h imgLen nbx : Nat) : Nat → Nat → Nat → Res Unit
  | 0, _, _ => .ok ()
  | j + 1, byy, off =>
    match (blockRow dataLen bs w h imgLen byy nbx 0 off).out with
    | .ok off' => blockRows dataLen bs w h imgLen nbx j (byy + 1) off'
    | .fail e => ⟨.fail e, 0⟩
    | .fault f => ⟨.fault f, 0⟩

/-- `decode_bc1` / `decode_bc3` / `decode_bc5` (`block_decoder!`): `Err` when the data or the image
buffer is too small, otherwise every block is decoded and copied -/
def bcDecode (dataLen w h imgLen bs : Nat) : Res Unit := do
  let nbx := (w + 3) / 4
  let nby := (h + 3) / 4
  let t ← mulC USIZEMAX nbx nby
  let need ← mulC USIZEMAX t bs
  if dataLen < need then .fail
  else do
    let px ← mulC USIZEMAX w h
    if imgLen < px then .fail
    else blockRows dataLen bs w h imgLen nbx nby 0 0

/-- `Texture::decode` (repaired): the payload must hold every 4×4 block before the image is
allocated; then the block decoder runs (`.ok()?`) and the pixels are collected. -/
def texDecode (srcLen w hgt bs : Nat) : Res Unit := do
  let blocks ← mulQ USIZEMAX ((w + 3) / 4) ((hgt + 3) / 4)
  let need ← mulQ USIZEMAX blocks bs
  Res.guard (decide (need ≤ srcLen))
  let n ← mulQ USIZEMAX w hgt
  vecAlloc n 4                                   -- `vec![0u32; w*h]`
  bcDecode srcLen w hgt n bs                     -- `decode_func(src, width, height, &mut image).ok()?`
  vecAlloc n 4                                   -- the collected RGBA bytes

def texBody (srcLen : Nat) (h : TexHeader) : Res Unit :=
  if h.format = 0x1440 then do
    let pixels ← mulC USIZEMAX h.width h.height
    let t ← mulC USIZEMAX pixels h.depth
    let dstLen ← mulC USIZEMAX t 4
    let t2 ← mulC USIZEMAX pixels 2
    let t4 ← mulC USIZEMAX pixels 4
    Res.guard (!(decide (srcLen < dstLen / 2) || decide (srcLen < t2) || decide (dstLen < t4)))
    vecAlloc dstLen 1
    loop4444 srcLen dstLen pixels 0 0
  else if h.format = 0x1450 then do
    let t ← mulC USIZEMAX h.width h.height
    let t' ← mulC USIZEMAX t h.depth
    let dstLen ← mulC USIZEMAX t' 4
    Res.guard (!(decide (srcLen < dstLen)))
    vecAlloc dstLen 1
    loop8888 srcLen dstLen t' 0
  else do
    let hgt ← mulC USIZEMAX h.height h.depth
    texDecode srcLen h.width hgt (if h.format = 0x3420 then 8 else 16)

/-- `Texture::from_existing` (repaired) -/
def tex (b : Bytes) : Res Unit := do
  let h ← P.run texHeader b
  let srcLen ← subC b.length texHeaderSize        -- `buffer.len() - size_of::<TexHeader>()`
  -- `vec![0u8; …]`, then `read_exact` from offset 80 (no capacity check: the size is bounded by the
  -- length of an existing slice, which the language keeps ≤ isize::MAX)
  Res.alloc srcLen
  texBody srcLen h

/-- pinned commit: allocation before any length check, unchecked payload indexing -/
def texBodyUnfixed (srcLen : Nat) (h : TexHeader) : Res Unit :=
  if h.format = 0x1440 then do
    let pixels ← mulC USIZEMAX h.width h.height
    let t ← mulC USIZEMAX pixels h.depth
    let dstLen ← mulC USIZEMAX t 4
    vecAlloc dstLen 1
    loop4444 srcLen dstLen pixels 0 0
  else if h.format = 0x1450 then do
    let t ← mulC USIZEMAX h.width h.height
    let t' ← mulC USIZEMAX t h.depth
    let dstLen ← mulC USIZEMAX t' 4
    vecAlloc dstLen 1
    loop8888 srcLen dstLen t' 0
  else do
    let hgt ← mulC USIZEMAX h.height h.depth
    let n ← mulC USIZEMAX h.width hgt
    vecAlloc n 4
    -- `decode_func(..).unwrap()`
    let bs := if h.format = 0x3420 then 8 else 16
    Res.require (decide (((h.width + 3) / 4) * ((hgt + 3) / 4) * bs ≤ srcLen)) .unwrap
    bcDecode srcLen h.width hgt n bs

def texUnfixed (b : Bytes) : Res Unit := do
  let h ← P.run texHeader b
  let srcLen ← subC b.length texHeaderSize
  Res.alloc srcLen
  texBodyUnfixed srcLen h

/-! ## exd: `EXD::read_row` -/

/-- `ExcelDataRowHeader` (big endian): `data_size: u32`, `row_count: u16`; returns `row_count` -/
def rowHeader : P Nat := do
  let _ ← P.u32be
  let rc ← u16beNat
  pure rc

/-- the `while byte != 0` scan of a String cell: `true` iff a NUL is found before the end -/
def scanNul : Bytes → Bool
  | [] => false
  | x :: r => if x == 0 then true else scanNul r

/-- number of bytes `read_data_raw::<T>` needs for the fixed-width column types -/
def cellWidth (ty : Nat) : Nat :=
  if ty = 1 ∨ ty = 2 ∨ ty = 3 then 1        -- Bool (1 byte after C05-01), Int8, UInt8
  else if ty = 4 ∨ ty = 5 then 2            -- Int16, UInt16
  else if ty = 6 ∨ ty = 7 ∨ ty = 9 then 4   -- Int32, UInt32, Float32
  else 8                                    -- Int64, UInt64

/-- `read_column` with the cursor already at `pos = row_offset + column.offset` -/
def readColumn (data : Bytes) (dataOffset rowOffset pos : Nat) (c : Column) : Res Unit :=
  if c.dataType = 0 then do
    -- String: u32 offset, seek to row_offset + data_offset + string_offset, scan to the NUL
    let (so, _) ← P.runAt u32beNat data pos
    let a ← addQ U32MAX rowOffset dataOffset
    let p ← addQ U32MAX a so
    Res.guard (scanNul (data.drop p))
  else if c.dataType ≥ 0x19 then
    .ok ()                                   -- packed bools: `unwrap_or(0)`
  else do
    let _ ← P.runAt (P.bytes (cellWidth c.dataType)) data pos
    pure ()

/-- the inner `read_row` closure: one (sub)row -/
def readSubrowCols (data : Bytes) (dataOffset rowOffset : Nat) : List Column → Res Unit
  | [] => .ok ()
  | c :: cs => do
    let pos ← addQ U32MAX rowOffset c.offset
    readColumn data dataOffset rowOffset pos c
    readSubrowCols data dataOffset rowOffset cs

def readSubrow (exh : Exh) (data : Bytes) (rowOffset : Nat) : Res Unit := do
  vecAlloc exh.columns.length 32               -- `Vec::with_capacity(columns.len())` of `ColumnData`
  readSubrowCols data exh.header.dataOffset rowOffset exh.columns

/-- `for i in 0..row_count` over the sub-rows, `i` counting up -/
def readSubrows (exh : Exh) (data : Bytes) (headerOffset : Nat) : Nat → Nat → Res Unit
  | 0, _ => .ok ()
  | n + 1, i => do
    let so ← addQ U32MAX headerOffset (i * exh.header.dataOffset + 2 * (i + 1))
    readSubrow exh data so
    readSubrows exh data headerOffset n (i + 1)

/-- `EXD::read_row` (repaired); the value is the number of (sub)rows returned -/
def readRow (exh : Exh) (exd : Exd) (id : Nat) : Res Nat :=
  match exd.offsets.find? (fun o => o.1 == id) with
  | none => .fail
  | some (_, off) => do
    let (rc, _) ← P.runAt rowHeader exd.data off
    let headerOffset ← addQ U32MAX off 6
    if rc > 1 then do
      readSubrows exh exd.data headerOffset rc 0
      pure rc
    else do
      readSubrow exh exd.data headerOffset
      pure 1

/-- the composite entry point the correspondence runs: parse the header, parse the page, read a row -/
def exdRow (exhBytes exdBytes : Bytes) (id : Nat) : Res Nat := do
  let h ← C18Hdr.exh exhBytes
  let d ← C18Hdr.exd exdBytes
  readRow h d id

end Physis.C18Fmt
