import PhysisModel.Base.ParserA
import PhysisModel.Model.C18Hdr
/-!
Fault-tracking model of the dat reader (C18 step 2, archive side):
`src/sqpack/data.rs` `SqPackData::read_from_offset` (standard / model / texture entries) and
`src/sqpack/mod.rs` `read_data_block`, as **repaired** by `fixes/C18-06` and `fixes/C18-07`.

The dat file is the byte string `w`; the cursor is that of `std::fs::File`: a seek to a position
beyond the end succeeds (the next read reports end-of-input), a seek to a position above
`i64::MAX` fails.  `inflate` is a parameter (`infl compressed outLen = true` iff zlib's `inflate`
reaches `Z_STREAM_END` with `outLen` bytes of output space); every theorem holds for all `infl`.
-/
namespace Physis.C18Dat
open Physis Physis.A Physis.C18Hdr

def I64MAX : Nat := 9223372036854775807

/-- `file.seek(SeekFrom::Start(n)).ok()?` -/
def seekFile (n : Nat) : P Unit := if n ≤ I64MAX then P.seekStart n else P.failP
/-- `file.seek(SeekFrom::Start(n)).ok();` — a failure is ignored and leaves the position alone -/
def seekFileIgnore (n : Nat) : P Unit := if n ≤ I64MAX then P.seekStart n else pure ()

/-- `u64::try_from(i32)` / `usize::try_from(i32)`: negative values are rejected -/
def nonNeg32 (v : Nat) : P Nat := if v < 2147483648 then pure v else P.failP
def nonNeg16 (v : Nat) : P Nat := if v < 32768 then pure v else P.failP
/-- `a.checked_add(b)?` in `u64` -/
def addU64 (a b : Nat) : P Nat := if a + b ≤ U64MAX then pure (a + b) else P.failP

/-- `MAX_DECOMPRESSED_BLOCK_SIZE` of the repaired `read_data_block` -/
def maxBlock : Nat := 1048576

/-- `read_data_block(file, pos)`; the value is the length of the returned data -/
def readDataBlock (infl : Bytes → Nat → Bool) (pos : Nat) : P Nat := do
  seekFile pos
  let _ ← P.u32le                       -- BlockHeader.size
  P.skip 4                              -- pad_after = 4
  let x ← u32leNat                      -- temp x: i32
  let y ← u32leNat                      -- temp y: i32
  let _ ← P.restorePosition P.u32le     -- `compression`: an i32 is read and mapped away, position restored
  -- `x < 32000` on the signed value
  if x < 32000 ∨ 2147483648 ≤ x then
    -- `usize::try_from(compressed_length).ok()?`, `usize::try_from(decompressed_length).ok()?`
    if 2147483648 ≤ x then P.failP else
    if 2147483648 ≤ y then P.failP else
    if y > maxBlock then P.failP else do
    P.lift (vecAlloc x 1)
    let comp ← P.bytes x                -- `read_exact`
    P.lift (vecAlloc y 1)
    if infl comp y then pure y else P.failP
  else
    -- `u64::try_from(file_size).ok()?`
    if 2147483648 ≤ y then P.failP else do
    let _ ← P.bytes y                   -- `take(fs).read_to_end`, then the length check
    pure y

structure Sizes where
  stack : Nat
  runtime : Nat
  vertex : List Nat
  edge : List Nat
  index : List Nat
  deriving Repr, Inhabited

/-- `ModelMemorySizes<T>` with `rd` the reader of `T` -/
def memSizes (rd : P Nat) : P Sizes := do
  let stack ← rd
  let runtime ← rd
  let vertex ← P.count 3 rd
  let edge ← P.count 3 rd
  let index ← P.count 3 rd
  pure ⟨stack, runtime, vertex, edge, index⟩

structure ModelInfo where
  offset : Sizes
  num : Sizes
  deriving Repr, Inhabited

def modelFileBlock : P ModelInfo := do
  let _ ← P.u32le; let _ ← P.u32le; let _ ← P.u32le     -- num_blocks, num_used_blocks, version
  let _ ← memSizes u32leNat                              -- uncompressed_size
  let _ ← memSizes u32leNat                              -- compressed_size
  let offset ← memSizes u32leNat
  let _ ← memSizes u16leNat                              -- index
  let num ← memSizes u16leNat
  let _ ← P.u16le; let _ ← P.u16le                       -- vertex_declaration_num, material_num
  let _ ← P.u8; let _ ← P.u8; let _ ← P.u8               -- num_lods, two bools
  P.skip 1
  pure ⟨offset, num⟩

structure Lod where
  compressedOffset : Nat
  compressedSize : Nat
  blockCount : Nat
  deriving Repr, Inhabited

def lodBlock : P Lod := do
  let co ← u32leNat
  let cs ← u32leNat
  let _ ← P.u32le
  let _ ← P.u32le
  let bc ← u32leNat
  pure ⟨co, cs, bc⟩

inductive Info
  | empty
  | standard (numBlocks : Nat)
  | model (m : ModelInfo)
  | texture (lods : List Lod)
  deriving Repr, Inhabited

structure FileInfo where
  size : Nat
  fileSize : Nat
  info : Info
  deriving Repr, Inhabited

def fileInfo : P FileInfo := do
  let size ← u32leNat
  let ft ← P.reprEnum u32leNat [1, 2, 3, 4]
  let fileSize ← u32leNat
  if ft = 2 then do
    P.skip 8
    let nb ← u32leNat
    pure ⟨size, fileSize, .standard nb⟩
  else if ft = 3 then do
    let m ← modelFileBlock
    pure ⟨size, fileSize, .model m⟩
  else if ft = 4 then do
    P.skip 8
    let nb ← u32leNat
    let lods ← P.count nb lodBlock
    pure ⟨size, fileSize, .texture lods⟩
  else pure ⟨size, fileSize, .empty⟩

/-! ### standard files -/

/-- `Block { #[br(pad_after = 4)] offset: i32 }` -/
def blockEntry : P Nat := do
  let o ← u32leNat
  P.skip 4
  pure o

def standardBlocks (infl : Bytes → Nat → Bool) (start : Nat) : List Nat → P Unit
  | [] => pure ()
  | o :: rest => do
    let bo ← nonNeg32 o
    let pos ← addU64 start bo
    let _ ← readDataBlock infl pos
    standardBlocks infl start rest

def readStandard (infl : Bytes → Nat → Bool) (offset : Nat) (fi : FileInfo) (numBlocks : Nat) : P Unit := do
  let blocks ← P.count numBlocks blockEntry
  let start ← addU64 offset fi.size
  standardBlocks infl start blocks

/-! ### model files -/

/-- the loop shared by `read_model_blocks` and `process_model_data`: `n` blocks, each followed by a
seek to `last_pos + compressed_block_sizes[current_block]`; returns the unused block sizes.
`sizes[current_block]` out of range is the index panic.  With `strict` (process_model_data) the
block lengths are summed into a `u32` with `checked_add(..)?`. -/
def modelBlocks (infl : Bytes → Nat → Bool) (strict : Bool) : Nat → List Nat → Nat → P (List Nat)
  | 0, sizes, _ => pure sizes
  | n + 1, sizes, acc => do
    let lastPos ← P.getPos
    let len ← readDataBlock infl lastPos
    if strict ∧ acc + len > U32MAX then P.failP else
    match sizes with
    | [] => P.lift (.panic .index)
    | sz :: rest => do
      -- `last_pos + size` cannot overflow u64 (a file position is at most i64::MAX); the seek can fail
      seekFile (lastPos + sz)
      modelBlocks infl strict n rest (acc + len)

/-- decode the `u16` block-size table read by `read_exact` into the `Vec<u16>` (little endian host) -/
def u16Table : Bytes → List Nat
  | a :: b :: r => (a.toNat + 256 * b.toNat) :: u16Table r
  | _ => []

def sizesTotal (s : Sizes) : Nat := s.stack + s.runtime + s.vertex.sum + s.edge.sum + s.index.sum

/-- one call of `process_model_data` for LOD `i` -/
def processModelData (infl : Bytes → Nat → Bool) (base : Nat) (num offset : Nat) (sizes : List Nat) :
    P (List Nat) :=
  if num ≠ 0 then do
    let p ← addU64 base offset
    seekFileIgnore p
    modelBlocks infl true num sizes 0
  else pure sizes

def lodLoop (infl : Bytes → Nat → Bool) (base : Nat) :
    List (Nat × Nat) → List (Nat × Nat) → List (Nat × Nat) → List Nat → P Unit
  | (vn, vo) :: vs, (en, eo) :: es, (inum, io) :: is, sizes => do
    let s1 ← processModelData infl base vn vo sizes      -- vertices
    let s2 ← processModelData infl base en eo s1         -- edge geometry
    let s3 ← processModelData infl base inum io s2       -- indices
    lodLoop infl base vs es is s3
  | _, _, _, _ => pure ()

def readModel (infl : Bytes → Nat → Bool) (offset : Nat) (fi : FileInfo) (m : ModelInfo) : P Unit := do
  let base ← addU64 offset fi.size
  let total := sizesTotal m.num
  P.lift (vecAlloc total 2)                       -- `vec![0u16; total_blocks]`
  let raw ← P.bytes (total * 2)                   -- `read_exact` into the u16 table
  let sizes := u16Table raw
  let p ← addU64 base m.offset.stack
  seekFile p
  -- read_model_blocks (stack)
  let p1 ← addU64 base m.offset.stack
  seekFile p1
  let s1 ← modelBlocks infl false m.num.stack sizes 0
  -- read_model_blocks (runtime)
  let p2 ← addU64 base m.offset.runtime
  seekFile p2
  let s2 ← modelBlocks infl false m.num.runtime s1 0
  lodLoop infl base (m.num.vertex.zip m.offset.vertex) (m.num.edge.zip m.offset.edge)
    (m.num.index.zip m.offset.index) s2

/-! ### texture files -/

/-- the `for _ in 0..block_count` loop of one LOD -/
def textureBlocks (infl : Bytes → Nat → Bool) : Nat → Nat → P Unit
  | 0, _ => pure ()
  | n + 1, running => do
    let original ← P.getPos
    let _ ← readDataBlock infl running
    seekFile original
    let step ← u16leNat                           -- `read_le::<i16>()`
    let st ← nonNeg16 step
    let next ← addU64 running st
    textureBlocks infl n next

def textureLods (infl : Bytes → Nat → Bool) (offset size : Nat) : List Lod → P Unit
  | [] => pure ()
  | l :: rest => do
    let a ← addU64 l.compressedOffset offset
    let running ← addU64 a size
    textureBlocks infl l.blockCount running
    textureLods infl offset size rest

def readTexture (infl : Bytes → Nat → Bool) (offset : Nat) (fi : FileInfo) (lods : List Lod) : P Unit :=
  match lods with
  | [] => P.failP                                  -- `lods.first()?`
  | first :: _ => do
    if first.compressedSize ≠ 0 then do
      let original ← P.getPos
      let p ← addU64 offset fi.size
      seekFile p
      let _ ← P.bytes first.compressedOffset       -- `take(n).read_to_end`, then the length check
      seekFile original
    else pure ()
    textureLods infl offset fi.size lods

/-- `SqPackData::read_from_offset(offset)` on the dat file `w` -/
def readFromOffsetP (infl : Bytes → Nat → Bool) (offset : Nat) : P Unit := do
  seekFile offset
  let fi ← fileInfo
  match fi.info with
  | .empty => P.failP
  | .standard nb => readStandard infl offset fi nb
  | .model m => readModel infl offset fi m
  | .texture lods => readTexture infl offset fi lods

def readFromOffset (infl : Bytes → Nat → Bool) (w : Bytes) (offset : Nat) : Res Unit :=
  P.run (readFromOffsetP infl offset) w

/-! ### the inflate life-cycle (`src/compression.rs`) -/

inductive ZCall | init | inflate | end_
  deriving Repr, DecidableEq

/-- the trace of zlib calls made by `no_header_decompress` (repaired): `initOk` / `streamEnd` are the
results of `inflateInit2_` and `inflate` -/
def decompressTrace (initOk streamEnd : Bool) : List ZCall × Bool :=
  if !initOk then ([.init], false)
  else ([.init, .inflate, .end_], streamEnd)

/-- the pinned commit: the failure path returns without `inflateEnd` -/
def decompressTraceUnfixed (initOk streamEnd : Bool) : List ZCall × Bool :=
  if !initOk then ([.init], false)
  else if !streamEnd then ([.init, .inflate], false)
  else ([.init, .inflate, .end_], true)

end Physis.C18Dat
