import PhysisModel.Model.Mdl
/-!
# Model of the MDL writer and the edit operations (`src/model.rs` 832-1230,
typed encoders of `src/model_file_operations.rs`, `vertex_element_writer`)

`writeToBuffer` mirrors `MDL::write_to_buffer`: the file header and the runtime block **as binrw
writes them** (every vector in full whatever the count fields say; fields that carry only a
read-side `if` are written unconditionally — except the two bone-map sizes, which are emitted
only for their version since fix C07-01), then vertex and index data by `seek` + typed write into
a growing zero-filled buffer (`Cursor<&mut Vec<u8>>`).  `replaceVertices`, `removeShapeMeshes`,
`addShapeMesh`, `updateHeaders`, `calculateStackSize`, `calculateRuntimeSize` mirror the edit
API with the arithmetic width of the Rust (checked `u32`/`u16` arithmetic panics on overflow).
-/
namespace Physis.Mdl
open Physis Physis.SoftFloat

/-! ## record writers (binrw `BinWrite`, little endian) -/

def wZeros (n : Nat) : Bytes := List.replicate n 0
def wBool (b : Bool) : Bytes := [if b then 1 else 0]
def wArr3U32 (x : Arr3 UInt32) : Bytes := putU32le x.a ++ (putU32le x.b ++ putU32le x.c)
def wArr3U16 (x : Arr3 UInt16) : Bytes := putU16le x.a ++ (putU16le x.b ++ putU16le x.c)

def wFileHeader (h : FileHeader) : Bytes :=
  putU32le h.version ++ (putU32le h.stackSize ++ (putU32le h.runtimeSize ++
  (putU16le h.vertexDeclarationCount ++ (putU16le h.materialCount ++
  (wArr3U32 h.vertexOffsets ++ (wArr3U32 h.indexOffsets ++
  (wArr3U32 h.vertexBufferSize ++ (wArr3U32 h.indexBufferSize ++
  ([h.lodCount] ++ (wBool h.indexBufferStreamingEnabled ++
  (wBool h.hasEdgeGeometry ++ [0])))))))))))

def wElement (e : VertexElement) : Bytes :=
  [e.stream, e.offset, e.vertexType, e.vertexUsage, e.usageIndex, 0, 0, 0]

/-- `vertex_element_writer` for one declaration: elements, the 0xFF slot, then
`seek(Current((17 − 1 − len)·8))` (zero fill; `usize` underflow panics for more than 16 elements) -/
def wDecl (d : List VertexElement) : R Bytes :=
  if d.length > 16 then .error .panic
  else .ok (d.flatMap wElement ++ ([0xFF, 0, 0, 0, 0, 0, 0, 0] ++ wZeros ((17 - 1 - d.length) * 8)))

def wModelHeader (h : ModelHeader) : Bytes :=
  putU16le h.stringCount ++ ([0, 0] ++ (putU32le h.stringSize ++ (h.strings ++
  (putU32le h.radius ++
  (putU16le h.meshCount ++ (putU16le h.attributeCount ++ (putU16le h.submeshCount ++
  (putU16le h.materialCount ++ (putU16le h.boneCount ++ (putU16le h.boneTableCount ++
  (putU16le h.shapeCount ++ (putU16le h.shapeMeshCount ++ (putU16le h.shapeValueCount ++
  ([h.lodCount] ++ ([h.flags1] ++ (putU16le h.elementIdCount ++
  ([h.terrainShadowMeshCount] ++ ([h.flags2] ++
  (putU32le h.modelClipOutOfDistance ++ (putU32le h.shadowClipOutOfDistance ++
  (putU16le h.unknown4 ++ (putU16le h.terrainShadowSubmeshCount ++
  ([h.unknown5] ++ ([h.bgChangeMaterialIndex] ++ ([h.bgCrestChangeMaterialIndex] ++
  ([h.unknown6] ++ (putU16le h.unknown7 ++ (putU16le h.unknown8 ++ (putU16le h.unknown9 ++
  wZeros 6)))))))))))))))))))))))))))))

def wMeshLod (l : MeshLod) : Bytes :=
  putU16le l.meshIndex ++ (putU16le l.meshCount ++ (l.mid ++
  (putU32le l.edgeGeometryDataOffset ++ (putU32le l.polygonCount ++ (wZeros 4 ++
  (putU32le l.vertexBufferSize ++ (putU32le l.indexBufferSize ++
  (putU32le l.vertexDataOffset ++ putU32le l.indexDataOffset))))))))

def wMesh (m : Mesh) : Bytes :=
  putU16le m.vertexCount ++ ([0, 0] ++ (putU32le m.indexCount ++ (putU16le m.materialIndex ++
  (putU16le m.submeshIndex ++ (putU16le m.submeshCount ++ (putU16le m.boneTableIndex ++
  (putU32le m.startIndex ++ (wArr3U32 m.vertexBufferOffsets ++
  ([m.vertexBufferStrides.a, m.vertexBufferStrides.b, m.vertexBufferStrides.c] ++
  [m.vertexStreamCount])))))))))

def wSubmesh (s : Submesh) : Bytes :=
  putU32le s.indexOffset ++ (putU32le s.indexCount ++ (putU32le s.attributeIndexMask ++
  (putU16le s.boneStartIndex ++ putU16le s.boneCount)))

def wBoneTable (t : BoneTable) : Bytes :=
  t.boneIndices.flatMap putU16le ++ ([t.boneCount] ++ wZeros 3)

/-- `BoneTableV2` has only read-side directives: no leading pad, `padding` always written -/
def wBoneTableV2 (t : BoneTableV2) : Bytes :=
  putU16le t.boneCount ++ (t.boneIndices.flatMap putU16le ++ putU16le t.padding)

def wShape (s : ShapeStruct) : Bytes :=
  putU32le s.stringOffset ++ (wArr3U16 s.shapeMeshStartIndex ++ wArr3U16 s.shapeMeshCount)

def wShapeMesh (s : ShapeMesh) : Bytes :=
  putU32le s.meshIndexOffset ++ (putU32le s.shapeValueCount ++ putU32le s.shapeValueOffset)

def wShapeValue (s : ShapeValue) : Bytes :=
  putU16le s.baseIndicesIndex ++ putU16le s.replacingVertexIndex

def wDecls : List (List VertexElement) → R Bytes
  | [] => .ok []
  | d :: rest => do
    let a ← wDecl d
    let b ← wDecls rest
    pure (a ++ b)

/-- `ModelData::write_args` -/
def wModelData (version : UInt32) (d : ModelData) : R Bytes := do
  let decls ← wDecls d.decls
  pure (decls ++ (wModelHeader d.header ++ (d.elementIds.flatten ++
    (d.lods.flatMap wMeshLod ++ (d.meshes.flatMap wMesh ++
    (d.attributeNameOffsets.flatMap putU32le ++ (d.terrainShadowMeshes.flatten ++
    (d.submeshes.flatMap wSubmesh ++ (d.terrainShadowSubmeshes.flatten ++
    (d.materialNameOffsets.flatMap putU32le ++ (d.boneNameOffsets.flatMap putU32le ++
    (d.boneTables.flatMap wBoneTable ++ (d.boneTablesV2.flatMap wBoneTableV2 ++
    (d.shapes.flatMap wShape ++ (d.shapeMeshes.flatMap wShapeMesh ++
    (d.shapeValues.flatMap wShapeValue ++
    ((if v5 version then putU32le d.submeshBoneMapSize else []) ++
    ((if v6 version then putU16le d.submeshBoneMapSizeV2 else []) ++
    (d.submeshBoneMap.flatMap putU16le ++ ([d.paddingAmount] ++ (d.unknownPadding ++
    (d.boundingBoxes ++ d.boneBoundingBoxes.flatten))))))))))))))))))))))

/-! ## typed encoders -/

def padSlice (xs : List UInt32) (fill : UInt32) : List UInt32 :=
  xs ++ List.replicate (4 - xs.length) fill

def wSingles (xs : List UInt32) : Bytes := xs.flatMap putU32le
def wHalf4 (xs : List UInt32) : Bytes := xs.flatMap fun x => putU16le (f32ToHalf x)
def wByteFloat4 (xs : List UInt32) : Bytes := xs.map writeByteFloat
def wByteFloat42 (xs : List UInt32) : Bytes := xs.map writeByteFloat42
def wTangent (xs : List UInt32) : Bytes :=
  (xs.take 3).map writeTangentXYZ ++ (xs.drop 3).map writeTangentW

def f32OneBits : UInt32 := 0x3F800000

/-- the `match element.vertex_usage { … }` switch of `write_to_buffer` -/
def encodeElement (usage type : UInt8) (v : Vertex) : R Bytes :=
  if usage == VU.position then
    if type == VT.single4 then .ok (wSingles (padSlice v.position f32OneBits))
    else if type == VT.half4 then .ok (wHalf4 (padSlice v.position f32OneBits))
    else if type == VT.single3 then .ok (wSingles v.position)
    else .error .panic
  else if usage == VU.blendWeights then
    if type == VT.byteFloat4 then .ok (wByteFloat4 v.boneWeight)
    else if type == VT.byte4 then .ok (wByteFloat42 v.boneWeight)
    else .error .panic
  else if usage == VU.blendIndices then
    if type == VT.byte4 then .ok v.boneId else .error .panic
  else if usage == VU.normal then
    if type == VT.half4 then .ok (wHalf4 (padSlice v.normal 0))
    else if type == VT.single3 then .ok (wSingles v.normal)
    else .error .panic
  else if usage == VU.uv then
    if type == VT.half4 then .ok (wHalf4 (v.uv0 ++ v.uv1))
    else if type == VT.single4 then .ok (wSingles (v.uv0 ++ v.uv1))
    else .error .panic
  else if usage == VU.biTangent then
    if type == VT.byteFloat4 then .ok (wTangent v.bitangent) else .error .panic
  else if usage == VU.color then
    if type == VT.byteFloat4 then .ok (wByteFloat4 v.color) else .error .panic
  else .error .panic

/-! ## `Cursor<&mut Vec<u8>>` -/

/-- `seek(Start(pos))` followed by a write of `data`: the vector is zero-extended up to `pos`
when the write starts past its end; nothing happens for an empty write -/
def writeAt (buf : Array UInt8) (pos : Nat) (data : Bytes) : Array UInt8 :=
  if data.isEmpty then buf else
  let buf := if buf.size < pos then buf ++ Array.replicate (pos - buf.size) 0 else buf
  (data.foldl (fun (acc : Array UInt8 × Nat) x =>
    (if acc.2 < acc.1.size then acc.1.setIfInBounds acc.2 x else acc.1.push x, acc.2 + 1))
    (buf, pos)).1

def zipIdx' (l : List α) : List (Nat × α) := List.zip (List.range l.length) l

/-- one vertex: for every element `seek` to `lod.vertex_data_offset + offsets[stream] + offset +
stride as u32 * k as u32` (checked `u32`), then the typed write -/
def writeVertex (lod : MeshLod) (mesh : Mesh) (decl : List VertexElement)
    (buf : Array UInt8) (k : Nat) (v : Vertex) : R (Array UInt8) :=
  decl.foldlM (fun buf e => do
    let off ← idx3 mesh.vertexBufferOffsets e.stream.toNat
    let a ← addU32 lod.vertexDataOffset off
    let b ← addU32 a e.offset.toUInt32
    let stride ← idx3 mesh.vertexBufferStrides e.stream.toNat
    let c ← mulU32 stride.toUInt32 k.toUInt32
    let addr ← addU32 b c
    let bytes ← encodeElement e.vertexUsage e.vertexType v
    pure (writeAt buf addr.toNat bytes)) buf

def writePart (fh : FileHeader) (md : ModelData) (l : Nat) (buf : Array UInt8) (part : Part) :
    R (Array UInt8) := do
  let decl ← idx md.decls part.meshIndex.toNat
  let buf ← (zipIdx' part.vertices).foldlM (fun buf (k, v) => do
    let lod ← idx md.lods l
    let mesh ← idx md.meshes part.meshIndex.toNat
    writeVertex lod mesh decl buf k v) buf
  let ioff ← idx3 fh.indexOffsets l
  let mesh ← idx md.meshes part.meshIndex.toNat
  let s2 ← mulU32 mesh.startIndex 2
  let ia ← addU32 ioff s2
  pure (writeAt buf ia.toNat (part.indices.flatMap putU16le))

/-- `MDL::write_to_buffer` -/
def writeToBuffer (m : MDL) : R Bytes := do
  let md ← wModelData m.fileHeader.version m.modelData
  let buf := (wFileHeader m.fileHeader ++ md).toArray
  let buf ← (zipIdx' m.lods).foldlM (fun buf (l, parts) =>
    parts.foldlM (writePart m.fileHeader m.modelData l) buf) buf
  -- fix C07-02: every section the header declares lies inside the file (`u64` arithmetic)
  let fh := m.fileHeader
  let ends := List.zipWith (fun (o s : UInt32) => o.toNat + s.toNat)
    (fh.vertexOffsets.toList ++ fh.indexOffsets.toList)
    (fh.vertexBufferSize.toList ++ fh.indexBufferSize.toList)
  let stop := ends.foldl max buf.size
  pure (buf.toList ++ wZeros (stop - buf.size))

/-! ## header recomputation and the edit operations -/

def addU32s (l : List UInt32) : R UInt32 := l.foldlM addU32 0

/-- `ModelFileHeader::calculate_stack_size` -/
def calculateStackSize (fh : FileHeader) : R UInt32 := do
  let a ← mulU32 fh.vertexDeclarationCount.toUInt32 17
  mulU32 a 8

/-- `ModelData::calculate_runtime_size` (all terms `u32`, checked) -/
def calculateRuntimeSize (d : ModelData) : R UInt32 := do
  let len (n : Nat) (k : UInt32) : R UInt32 := mulU32 n.toUInt32 k
  let cnt (c : UInt16) (k : UInt32) : R UInt32 := mulU32 c.toUInt32 k
  let terms : List (R UInt32) := [
    pure 2, pure 2, pure 4, pure d.header.stringSize, pure 56,
    len d.elementIds.length 32, pure 180,
    len d.meshes.length 36,
    len d.attributeNameOffsets.length 4,
    mulU32 d.header.terrainShadowMeshCount.toUInt32 20,
    cnt d.header.submeshCount 16,
    cnt d.header.terrainShadowSubmeshCount 10,
    len d.materialNameOffsets.length 4,
    len d.boneNameOffsets.length 4,
    len d.boneTables.length 132,
    cnt d.header.shapeCount 16,
    cnt d.header.shapeMeshCount 12,
    cnt d.header.shapeValueCount 4,
    pure 4,
    len d.submeshBoneMap.length 2,
    pure d.paddingAmount.toUInt32, pure 1,
    pure 128,
    cnt d.header.boneCount 32]
  terms.foldlM (fun acc t => do let x ← t; addU32 acc x) 0

def setAt (l : List α) (i : Nat) (f : α → α) : R (List α) :=
  match l[i]? with
  | some a => .ok (l.set i (f a))
  | none => .error .panic

/-- first loop of `update_headers`: per used LOD, mesh start index and stream offsets -/
def updateMeshOffsets (md : ModelData) (lodCount : Nat) : R (List Mesh) :=
  (List.range lodCount).foldlM (fun (meshes : List Mesh) i => do
    let lod ← idx md.lods i
    let hi ← addU16 lod.meshIndex lod.meshCount
    let r ← (List.range (hi.toNat - lod.meshIndex.toNat)).foldlM
      (fun (st : List Mesh × UInt32) dj => do
        let j := lod.meshIndex.toNat + dj
        let mesh ← idx st.1 j
        let sub ← idx md.submeshes mesh.submeshIndex.toNat
        let mesh := { mesh with startIndex := sub.indexOffset }
        let r ← (List.range mesh.vertexStreamCount.toNat).foldlM
          (fun (ms : Mesh × UInt32) s => do
            if s ≥ 3 then .error .panic else
            let stride ← idx3 ms.1.vertexBufferStrides s
            let p ← mulU32 ms.1.vertexCount.toUInt32 stride.toUInt32
            let nv ← addU32 ms.2 p
            pure ({ ms.1 with vertexBufferOffsets := ms.1.vertexBufferOffsets.set s ms.2 }, nv))
          (mesh, st.2)
        pure (st.1.set j r.1, r.2)) (meshes, 0)
    pure r.1) md.meshes

/-- second loop: per LOD record, total vertex / index sizes and the index padding -/
def updateLodSizes (meshes : List Mesh) (lod : MeshLod) : R MeshLod := do
  let hi ← addU16 lod.meshIndex lod.meshCount
  let (tv, ti) ← (List.range (hi.toNat - lod.meshIndex.toNat)).foldlM
    (fun (acc : UInt32 × UInt32) dj => do
      let mesh ← idx meshes (lod.meshIndex.toNat + dj)
      let stride ← (List.range mesh.vertexStreamCount.toNat).foldlM (fun (t : UInt32) s => do
        let st ← idx3 mesh.vertexBufferStrides s
        addU32 t st.toUInt32) 0
      let a ← mulU32 mesh.vertexCount.toUInt32 stride
      let tv ← addU32 acc.1 a
      -- fix C07-05: the index section reaches the end of the last mesh's own index range
      let e ← addU32 mesh.startIndex mesh.indexCount
      let b ← mulU32 e 2
      let ti := if acc.2 < b then b else acc.2
      pure (tv, ti)) (0, 0)
  let pad : UInt32 := if ti % 16 == 0 then 16 else 16 - ti % 16
  pure { lod with vertexBufferSize := tv, indexBufferSize := ti + pad }

/-- third loop: section offsets, running over all three LOD records -/
def assignOffsets (dataOffset : UInt32) : List MeshLod → UInt32 → R (List MeshLod)
  | [], _ => .ok []
  | lod :: rest, overall => do
    let vo ← addU32 dataOffset overall
    let o1 ← addU32 overall lod.vertexBufferSize
    let io ← addU32 dataOffset o1
    let o2 ← addU32 o1 lod.indexBufferSize
    let tail ← assignOffsets dataOffset rest o2
    pure ({ lod with vertexDataOffset := vo, indexDataOffset := io, edgeGeometryDataOffset := io } :: tail)

def copy3 (n : Nat) (dst : Arr3 UInt32) (src : List UInt32) : R (Arr3 UInt32) :=
  (List.range n).foldlM (fun (a : Arr3 UInt32) i => do
    if i ≥ 3 then .error .panic else
    let v ← idx src i
    pure (a.set i v)) dst

/-- `MDL::update_headers` (with the shape counts refreshed before the runtime size is computed,
fix C07-03; the first loop runs over the parsed LODs, fix C07-06) -/
def updateHeaders (m : MDL) : R MDL := do
  -- fix C07-06: the parsed LODs (`self.lods.len()`), not the file header's stored count
  let meshes ← updateMeshOffsets m.modelData m.lods.length
  let lods ← m.modelData.lods.mapM (updateLodSizes meshes)
  let header : ModelHeader := { m.modelData.header with
    shapeCount := m.modelData.shapes.length.toUInt16,
    shapeMeshCount := m.modelData.shapeMeshes.length.toUInt16,
    shapeValueCount := m.modelData.shapeValues.length.toUInt16 }
  let md := { m.modelData with meshes := meshes, lods := lods, header := header }
  let stack ← calculateStackSize m.fileHeader
  let runtime ← calculateRuntimeSize md
  let d0 ← addU32 runtime 68
  let dataOffset ← addU32 d0 stack
  let lods ← assignOffsets dataOffset md.lods 0
  let n := m.lods.length
  let vbs ← copy3 n m.fileHeader.vertexBufferSize (lods.map (·.vertexBufferSize))
  let vo ← copy3 n m.fileHeader.vertexOffsets (lods.map (·.vertexDataOffset))
  let ibs ← copy3 n m.fileHeader.indexBufferSize (lods.map (·.indexBufferSize))
  let io ← copy3 n m.fileHeader.indexOffsets (lods.map (·.indexDataOffset))
  let fh : FileHeader := { m.fileHeader with
    stackSize := stack, runtimeSize := runtime, vertexBufferSize := vbs, vertexOffsets := vo,
    indexBufferSize := ibs, indexOffsets := io }
  pure { m with fileHeader := fh, modelData := { md with lods := lods } }

/-- `MDL::replace_vertices`; `subs` = the `(index_offset, index_count)` of the supplied sub-meshes -/
def replaceVertices (m : MDL) (lodIndex partIndex : Nat) (vertices : List Vertex)
    (indices : List UInt16) (subs : List (UInt32 × UInt32)) : R MDL := do
  let parts ← idx m.lods lodIndex
  let part ← idx parts partIndex
  let part' := { part with vertices := vertices, indices := indices }
  let submeshes ← (zipIdx' part.submeshes).foldlM (fun (tbl : List Submesh) (i, sv) =>
    match subs[i]? with
    | some (off, cnt) => setAt tbl sv.submeshIndex (fun s => { s with indexOffset := off, indexCount := cnt })
    | none => pure tbl) m.modelData.submeshes
  let meshes ← setAt m.modelData.meshes part.meshIndex.toNat (fun mesh =>
    { mesh with vertexCount := vertices.length.toUInt16, indexCount := indices.length.toUInt32 })
  updateHeaders { m with
    lods := m.lods.set lodIndex (parts.set partIndex part'),
    modelData := { m.modelData with submeshes := submeshes, meshes := meshes } }

/-- `MDL::remove_shape_meshes` -/
def removeShapeMeshes (m : MDL) : R MDL :=
  let shapes := m.modelData.shapes.map fun s =>
    { s with shapeMeshCount := Arr3.rep 0, shapeMeshStartIndex := Arr3.rep 0 }
  updateHeaders { m with
    modelData := { m.modelData with shapeMeshes := [], shapeValues := [], shapes := shapes } }

/-- `MDL::add_shape_mesh`; a new shape value is `(base_index, replacing_vertex)`.  The mesh's
vertex count follows the appended replacement vertices (fix C07-04). -/
def addShapeMesh (m : MDL) (lodIndex shapeIndex shapeMeshIndex partIndex : Nat)
    (vals : List (UInt32 × Vertex)) : R MDL := do
  let parts ← idx m.lods lodIndex
  let part ← idx parts partIndex
  let shapes ←
    if shapeMeshIndex == 0 then do
      if lodIndex ≥ 3 then .error .panic else
      setAt m.modelData.shapes shapeIndex (fun s =>
        { s with shapeMeshStartIndex := s.shapeMeshStartIndex.set lodIndex m.modelData.shapeMeshes.length.toUInt16 })
    else pure m.modelData.shapes
  let mesh ← idx m.modelData.meshes part.meshIndex.toNat
  let shapeMeshes := m.modelData.shapeMeshes ++
    [{ meshIndexOffset := mesh.startIndex, shapeValueCount := vals.length.toUInt32,
       shapeValueOffset := m.modelData.shapeValues.length.toUInt32 }]
  let (verts, svals) ← vals.foldlM (fun (acc : List Vertex × List ShapeValue) (b, v) => do
    let verts := acc.1 ++ [v]
    let bi ← addU16 mesh.startIndex.toUInt16 b.toUInt16
    let ri ← addU16 mesh.startIndex.toUInt16 (verts.length - 1).toUInt16
    pure (verts, acc.2 ++ [{ baseIndicesIndex := bi, replacingVertexIndex := ri }]))
    (part.vertices, m.modelData.shapeValues)
  let sh ← idx shapes shapeIndex
  if lodIndex ≥ 3 then .error .panic else
  let c ← idx3 sh.shapeMeshCount lodIndex
  let c' ← addU16 c 1
  let shapes := shapes.set shapeIndex { sh with shapeMeshCount := sh.shapeMeshCount.set lodIndex c' }
  let meshes ← setAt m.modelData.meshes part.meshIndex.toNat (fun mesh =>
    { mesh with vertexCount := verts.length.toUInt16 })
  let md : ModelData := { m.modelData with
    shapes := shapes, shapeMeshes := shapeMeshes, shapeValues := svals, meshes := meshes }
  updateHeaders { m with
    lods := m.lods.set lodIndex (parts.set partIndex { part with vertices := verts }),
    modelData := md }

end Physis.Mdl
