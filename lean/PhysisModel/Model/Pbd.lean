import PhysisModel.Base.ReaderC16
/-!
Model of `src/pbd.rs` (`PreBoneDeformer::from_existing`, `get_deform_matrices`) and of
`strings_parser` in `src/common_file_operations.rs`.
i16 fields are kept as u16 bit patterns; `x as usize` of a negative i16 / i32 is a huge index (never in
range), exactly as the sign-extending cast behaves.
`get_deform_matrices` mirrors the code with the fixes "returns None for link, parent and deformer indices
outside the tables instead of panicking" and "returns None on cyclic parent links instead of looping
forever" (the step counter).
-/
namespace Physis.Pbd

structure Bone where
  name : Bytes
  deform : List UInt32
  deriving DecidableEq, Repr

structure Item where
  bodyId : UInt16
  linkIndex : UInt16
  bones : List Bone
  deriving DecidableEq, Repr

structure Link where
  parent : UInt16
  firstChild : UInt16
  nextSibling : UInt16
  deformerIndex : UInt16
  deriving DecidableEq, Repr

structure Header where
  items : List Item
  links : List Link
  deriving DecidableEq, Repr

/-- `i16 as usize` -/
def i16AsUsize (x : UInt16) : Nat := if x < 0x8000 then x.toNat else 2 ^ 64 - 65536 + x.toNat
/-- `i32 as u64` -/
def i32AsU64 (x : UInt32) : Nat := if x < 0x80000000 then x.toNat else 2 ^ 64 - 2 ^ 32 + x.toNat

/-- `strings_parser`: for each offset seek to `base + offset` and read bytes up to NUL
(`read_le::<u8>().unwrap()`: running off the end panics).  Bytes become `char`s (Latin-1). -/
def stringsParser (file : Bytes) (base : Nat) : List UInt16 → Outcome (List Bytes)
  | [] => .ok []
  | o :: r =>
    match Rd.cstr (Rd.seekTo file (base + o.toNat)) with
    | none => .panic
    | some s =>
      match stringsParser file base r with
      | .ok ss => .ok (s :: ss)
      | e => e

def readMatrices : Nat → Bytes → Option (List (List UInt32))
  | 0, _ => some []
  | n + 1, b =>
    match Rd.u32s 12 b with
    | some (m, r) => (readMatrices n r).map (m :: ·)
    | none => none

def zipBones : List Bytes → List (List UInt32) → List Bone
  | n :: ns, m :: ms => ⟨n, m⟩ :: zipBones ns ms
  | _, _ => []

/-- `RacialDeformer::read` at `data_offset` -/
def readDeformer (file : Bytes) (dataOffset : UInt32) : Outcome (List Bone) :=
  let base := i32AsU64 dataOffset
  match Rd.u32le (Rd.seekTo file base) with
  | none => .none
  | some (boneCount, r) =>
  -- `count = bone_count` with a negative i32: conversion error
  if boneCount ≥ 0x80000000 then .none else
  match Rd.u16s boneCount.toNat r with
  | none => .none
  | some (offsets, r) =>
  -- bone_names: strings_parser, restore_position
  match stringsParser file base offsets with
  | .ok names =>
    -- `#[br(if((bone_count & 1) != 0))] _padding: u16` is read (and must be present)
    match (if boneCount &&& 1 != 0 then (Rd.u16le r).map (·.2) else some r) with
    | none => .none
    | some r =>
    match readMatrices boneCount.toNat r with
    | none => .none
    | some ms => .ok (zipBones names ms)
  | .none => .none
  | .panic => .panic
  | .diverges => .diverges
  | .unmodelled => .unmodelled

/-- `count` items, each followed by its out-of-line deformer (`seek_before`, `restore_position`) -/
def readItems (file : Bytes) : Nat → Bytes → Outcome (List Item × Bytes)
  | 0, b => .ok ([], b)
  | n + 1, b =>
    match Rd.u16le b with
    | none => .none
    | some (bodyId, r) =>
    match Rd.u16le r with
    | none => .none
    | some (linkIndex, r) =>
    match Rd.u32le r with
    | none => .none
    | some (dataOffset, r) =>
    let r := Rd.skip 4 r
    match readDeformer file dataOffset with
    | .ok bones =>
      match readItems file n r with
      | .ok (its, r') => .ok (⟨bodyId, linkIndex, bones⟩ :: its, r')
      | e => e
    | .none => .none
    | .panic => .panic
    | .diverges => .diverges
    | .unmodelled => .unmodelled

def readLinks : Nat → Bytes → Option (List Link)
  | 0, _ => some []
  | n + 1, b =>
    match Rd.u16s 4 b with
    | some ([p, f, s, d], r) => (readLinks n r).map (⟨p, f, s, d⟩ :: ·)
    | _ => none

/-- `PreBoneDeformer::from_existing` -/
def fromExisting (buffer : Bytes) : Outcome Header :=
  match Rd.u32le buffer with
  | none => .none
  | some (count, r) =>
  if count ≥ 0x80000000 then .none else
  match readItems buffer count.toNat r with
  | .ok (items, r) =>
    match readLinks count.toNat r with
    | some links => .ok ⟨items, links⟩
    | none => .none
  | .none => .none
  | .panic => .panic
  | .diverges => .diverges
  | .unmodelled => .unmodelled

/-- the `loop` of `get_deform_matrices`.  `fuel` = how many more parent steps the code allows:
`steps += 1; if steps >= self.header.links.len() { return None }` — with `links.len() − 1` at the
start, the `k`-th iteration may step to a parent iff `k < links.len()` ("a chain of parents visits
every link at most once; a longer walk means the links are cyclic").  A link or item index outside
its table is `None` (`.get(..)?`). -/
def walk (h : Header) (to : UInt16) : Nat → Item → Link → List Bone → Outcome (List Bone)
  | 0, item, next, bones =>
    let bones := bones ++ item.bones
    if next.parent = 0xFFFF then .ok bones else .none
  | fuel + 1, item, next, bones =>
    -- for i in 0..item.deformer.bone_count { bones.push(..) }
    let bones := bones ++ item.bones
    if next.parent = 0xFFFF then .ok bones else
    match h.links[i16AsUsize next.parent]? with
    | none => .none
    | some next' =>
    match h.items[next'.deformerIndex.toNat]? with
    | none => .none
    | some item' =>
    if item'.bodyId = to then .ok bones else walk h to fuel item' next' bones

/-- `get_deform_matrices(from_body_id, to_body_id)` -/
def getDeformMatrices (h : Header) (fromId to : UInt16) : Outcome (List Bone) :=
  if fromId = to then .none else
  match h.items.find? (·.bodyId == fromId) with
  | none => .none
  | some item =>
  match h.links[i16AsUsize item.linkIndex]? with
  | none => .none
  | some next =>
  if next.nextSibling = 0xFFFF then .none else
  walk h to (h.links.length - 1) item next []

end Physis.Pbd
