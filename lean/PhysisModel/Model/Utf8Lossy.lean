import PhysisModel.Spec.Fiin
/-!
Model of `String::from_utf8_lossy` (`core::str::lossy::Utf8Chunks`), the decoder behind
`read_string` (`src/common_file_operations.rs`, since fix a103be4: chardat comments, patch names),
the FIIN file-name reader (`src/fiin.rs`, since fix d91cecd) and `NullString → String`
(`binrw::NullString: Display`, gear-set names): the valid parts are kept, every *maximal invalid
part* becomes one U+FFFD (`EF BF BD`).

`Utf8Chunks::next` walks the bytes with the table of Unicode 3-7 (the second byte of a sequence is
checked against the lead byte's range, the others are continuation bytes); when a byte does not
fit, the bytes of the sequence accepted so far (at least the lead byte) are one invalid chunk and
the byte that did not fit is looked at again as the start of the next character; a lead byte of
width 0 (`80..C1`, `F5..FF`) is an invalid chunk on its own; at the end of the input an unfinished
sequence is one invalid chunk.  This is the byte automaton of `Spec/Fiin.lean` (`utf8Step`) run
with the bytes of the unfinished character kept aside (`pend`, reversed).

`Proofs/Utf8Lossy.lean`: on well-formed UTF-8 the function is the identity.
-/
namespace Physis.Utf8Lossy
open Physis.Spec.Fiin (U8State utf8Step)

/-- U+FFFD REPLACEMENT CHARACTER -/
def fffd : Bytes := [0xEF, 0xBF, 0xBD]

/-- `st`: automaton state, `pend`: the bytes of the character being read, reversed
(`st = .start` ↔ `pend = []`) -/
def go : U8State → Bytes → Bytes → Bytes
  | st, _, [] => if st = .start then [] else fffd
  | st, pend, b :: bs =>
    match utf8Step st b with
    | some st' =>
      if st' = .start then pend.reverse ++ b :: go .start [] bs     -- the character is complete
      else go st' (b :: pend) bs
    | none =>
      if st = .start then fffd ++ go .start [] bs                   -- a byte that cannot start a character
      else
        -- the unfinished sequence is one invalid chunk; `b` starts the next character
        fffd ++ (match utf8Step .start b with
          | some st' => if st' = .start then b :: go .start [] bs else go st' [b] bs
          | none => fffd ++ go .start [] bs)

/-- `String::from_utf8_lossy(bytes)` as UTF-8 bytes -/
def fromUtf8Lossy (bs : Bytes) : Bytes := go .start [] bs

end Physis.Utf8Lossy
