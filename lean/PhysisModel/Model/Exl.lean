import PhysisModel.Model.StrLines
import PhysisModel.Base.Decimal
/-!
Model of `src/exl.rs` (`EXL::from_existing`, `write_to_buffer`, `contains`).  `version` and the
ids are Rust `i32`; here they are `Int`s that `parseI32` only ever produces inside the i32 range.
`format!("{}", i32)` is `Decimal.showInt`.
-/
namespace Physis.Exl
open Physis.StrLines Physis.Decimal

structure EXL where
  version : Int
  entries : List (Bytes × Int)
deriving Repr, DecidableEq

/-- body of `for line in reader.lines()` -/
def step (exl : EXL) (line : Bytes) : EXL :=
  match splitOnce 44 line with
  | some (name, value) =>
    match parseI32 value with
    | some parsedValue =>
      if name = [69, 88, 76, 84] then { exl with version := parsedValue }
      else if !startsWith 35 name then { exl with entries := exl.entries ++ [(name, parsedValue)] }
      else exl
    | none => exl
  | none => exl

/-- `EXL::from_existing` (always `Some`) -/
def parseExl (b : Bytes) : EXL := (lines b).foldl step ⟨0, []⟩

/-- `EXL::write_to_buffer` (always `Some`) -/
def writeExl (exl : EXL) : Bytes :=
  [69, 88, 76, 84, 44] ++ showInt exl.version ++
    exl.entries.flatMap fun e => [10] ++ e.1 ++ [44] ++ showInt e.2

/-- `EXL::contains` -/
def contains (exl : EXL) (key : Bytes) : Bool := exl.entries.any fun t => t.1 == key

end Physis.Exl
