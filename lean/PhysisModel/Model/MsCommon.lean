import PhysisModel.Base.Bytes
import PhysisModel.Base.Half
/-!
Reader primitives shared by the material (`src/mtrl.rs`) and shader-package (`src/shpk.rs`) models:
a sequential cursor over the *remaining* bytes (binrw reads on a `Cursor<&[u8]>`), the three outcomes
of a Rust reader (`Ok`, `Err`/`None`, panic), UTF-8 validation (`String::from_utf8`), NUL trimming
(`trim_matches(char::from(0))`) and the `Half1/Half2/Half3` readers of
`src/common_file_operations.rs`.
-/
namespace Physis.MsCommon

/-- how a Rust reader can end without a value: `fail` = `Err(..)` / `None`; `panic` = unwinding
(`unwrap` on invalid UTF-8, index out of range).  Crash-freedom itself is property C18. -/
inductive Err | fail | panic
  deriving DecidableEq, Repr

/-- a sequential reader: remaining bytes in, value and remaining bytes out -/
abbrev P (α : Type) := Bytes → Except Err (α × Bytes)

@[inline] def P.pure (a : α) : P α := fun s => .ok (a, s)
@[inline] def P.bind (p : P α) (f : α → P β) : P β := fun s =>
  match p s with
  | .ok (a, s') => f a s'
  | .error e => .error e

instance : Monad P where
  pure := P.pure
  bind := P.bind

def failP : P α := fun _ => .error .fail
def panicP : P α := fun _ => .error .panic

/-- lift a position-independent computation (out-of-line read with `restore_position`) -/
def liftE (e : Except Err α) : P α := fun s =>
  match e with
  | .ok a => .ok (a, s)
  | .error e => .error e

def u8 : P UInt8 := fun s =>
  match s with
  | a :: r => .ok (a, r)
  | _ => .error .fail

def u16 : P UInt16 := fun s =>
  match s with
  | a :: b :: r => .ok (a.toUInt16 ||| (b.toUInt16 <<< 8), r)
  | _ => .error .fail

def u32 : P UInt32 := fun s =>
  match s with
  | a :: b :: c :: d :: r =>
    .ok (a.toUInt32 ||| (b.toUInt32 <<< 8) ||| (c.toUInt32 <<< 16) ||| (d.toUInt32 <<< 24), r)
  | _ => .error .fail

/-- `Vec<u8>` with `count = n`: exactly `n` bytes or an error -/
def take (n : Nat) : P Bytes := fun s =>
  if n ≤ s.length then .ok (s.take n, s.drop n) else .error .fail

/-- binrw `count = n` on a vector of records -/
def count (p : P α) : Nat → P (List α)
  | 0 => pure []
  | n + 1 => do
    let a ← p
    let r ← count p n
    pure (a :: r)

/-- the `n` bytes at absolute offset `off` of the whole file (`seek_before = SeekFrom::Start(off)`,
`count = n`, `restore_position`): seeking past the end is allowed, a short read is an error -/
def slice (whole : Bytes) (off n : Nat) : Except Err Bytes :=
  let s := (whole.drop off).take n
  if s.length = n then .ok s else .error .fail

/-! ### `String::from_utf8` and `trim_matches('\0')` -/

/-- UTF-8 validity as a byte-at-a-time automaton (`need` continuation bytes outstanding, the next
one restricted to `lo..=hi`) — the well-formedness table of the Unicode standard, which
`core::str::from_utf8` implements. -/
def utf8Go : Nat → UInt8 → UInt8 → Bytes → Bool
  | 0, _, _, [] => true
  | _ + 1, _, _, [] => false
  | 0, _, _, b :: r =>
    if b < 0x80 then utf8Go 0 0x80 0xBF r
    else if 0xC2 ≤ b && b ≤ 0xDF then utf8Go 1 0x80 0xBF r
    else if b == 0xE0 then utf8Go 2 0xA0 0xBF r
    else if (0xE1 ≤ b && b ≤ 0xEC) || b == 0xEE || b == 0xEF then utf8Go 2 0x80 0xBF r
    else if b == 0xED then utf8Go 2 0x80 0x9F r
    else if b == 0xF0 then utf8Go 3 0x90 0xBF r
    else if 0xF1 ≤ b && b ≤ 0xF3 then utf8Go 3 0x80 0xBF r
    else if b == 0xF4 then utf8Go 3 0x80 0x8F r
    else false
  | n + 1, lo, hi, b :: r => if lo ≤ b && b ≤ hi then utf8Go n 0x80 0xBF r else false

def utf8Valid (bs : Bytes) : Bool := utf8Go 0 0x80 0xBF bs

/-- `s.trim_matches(char::from(0))` on the UTF-8 bytes of `s` (NUL is the single byte 0 and never
part of a multi-byte sequence) -/
def trimNul (bs : Bytes) : Bytes :=
  ((bs.dropWhile (· == 0)).reverse.dropWhile (· == 0)).reverse

/-- `String::from_utf8(x).unwrap().trim_matches(char::from(0)).to_string()` -/
def nulTrimmedString (x : Bytes) : Except Err Bytes :=
  if utf8Valid x then .ok (trimNul x) else .error .panic

/-- `byte as char` pushed onto a `String`: the Latin-1 code point, UTF-8 encoded -/
def latin1Push (b : UInt8) : Bytes :=
  if b < 0x80 then [b] else [(0xC0 : UInt8) ||| (b >>> 6), (0x80 : UInt8) ||| (b &&& 0x3F)]

/-! ### `Half1` / `Half2` / `Half3` (`src/common_file_operations.rs`), composed with `.to_f32()` -/

/-- `Half1` then `x.value.to_f32()` (f32 as bit pattern) -/
def half1 : P UInt32 := do
  let d0 ← u16
  pure (halfToF32 d0)

/-- `Half2` then `[x.x.to_f32(), x.y.to_f32()]` — `read_half2` takes `x` from element 0 and `y` from
element 1 of the `[u16; 2]` (this is the code after fix C14-01) -/
def half2 : P (List UInt32) := do
  let d0 ← u16
  let d1 ← u16
  pure [halfToF32 d0, halfToF32 d1]

/-- `Half3` then `[r, g, b]` each `.to_f32()` -/
def half3 : P (List UInt32) := do
  let d0 ← u16
  let d1 ← u16
  let d2 ← u16
  pure [halfToF32 d0, halfToF32 d1, halfToF32 d2]

end Physis.MsCommon
