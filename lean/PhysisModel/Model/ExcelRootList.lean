import PhysisModel.Base.StrF
/-!
Model of `EXL::from_existing` (`src/exl.rs`) as used by `GameData::read_excel_sheet_header` and
`GameData::get_all_sheet_names` to read `exd/root.exl`: `BufRead::lines` (split at `\n`, a `\r`
just before the `\n` is dropped, a final line without `\n` counts when non-empty),
`str::split_once(',')`, `i32::from_str`, the `EXLT` version row and the `#` comment rule.
`lines()` yields `Err` for a line that is not UTF-8 and `map_while(Result::ok)` ends the loop
there: the lines before it count, the rest of the file is ignored (`utf8Lines`).
(The C05 copy, in its own namespace; the read/write round trip of EXL files is C08's subject.)
-/
namespace Physis.ExcelRootList
open Physis

structure EXL where
  version : Int
  entries : List (Bytes × Int)
  deriving DecidableEq, Repr

/-- a line ended by `\n`, given reversed: drop one `\r` before the `\n` -/
def finishLine : Bytes → Bytes
  | 13 :: c => c.reverse
  | c => c.reverse

/-- `BufRead::lines`; `cur` is the current line, reversed -/
def linesAux : Bytes → Bytes → List Bytes
  | [], cur => if cur.isEmpty then [] else [cur.reverse]
  | b :: r, cur => if b = 10 then finishLine cur :: linesAux r [] else linesAux r (b :: cur)

def lines (bs : Bytes) : List Bytes := linesAux bs []

/-- `str::split_once(sep)` for a one-byte separator -/
def splitOnce (sep : UInt8) : Bytes → Option (Bytes × Bytes)
  | [] => none
  | b :: r => if b = sep then some ([], r) else
    match splitOnce sep r with
    | some (x, y) => some (b :: x, y)
    | none => none

def isDigit (b : UInt8) : Bool := 48 ≤ b && b ≤ 57

def digitsVal (ds : Bytes) : Nat := ds.foldl (fun acc b => 10 * acc + (b.toNat - 48)) 0

/-- the digits of an `i32` literal after the optional sign -/
def parseDigits (neg : Bool) (ds : Bytes) : Option Int :=
  if ds.isEmpty || !ds.all isDigit then none
  else
    let n := digitsVal ds
    if neg then (if n ≤ 2147483648 then some (-(n : Int)) else none)
    else (if n ≤ 2147483647 then some (n : Int) else none)

/-- `i32::from_str`: optional `+`/`-`, at least one digit, only digits, value in range -/
def parseI32 : Bytes → Option Int
  | 0x2d :: r => parseDigits true r
  | 0x2b :: r => parseDigits false r
  | r => parseDigits false r

def exlt : Bytes := [0x45, 0x58, 0x4c, 0x54]

/-- body of the `for line in …` loop -/
def step (exl : EXL) (line : Bytes) : EXL :=
  match splitOnce 0x2c line with
  | some (name, value) =>
    match parseI32 value with
    | some v =>
      if name = exlt then { exl with version := v }
      else if name.head? ≠ some 0x23 then { exl with entries := exl.entries ++ [(name, v)] }
      else exl
    | none => exl
  | none => exl

/-- `reader.lines().map_while(Result::ok)`: the lines up to the first one that is not valid UTF-8
(`read_line` validates the line it has read — `\r`, `\n` are ASCII, so the stripped line is valid
exactly when the raw one is) -/
def utf8Lines (buffer : Bytes) : List Bytes := (lines buffer).takeWhile StrF.validUtf8

/-- `EXL::from_existing` (always `Some`) -/
def fromExisting (buffer : Bytes) : EXL := (utf8Lines buffer).foldl step ⟨0, []⟩

end Physis.ExcelRootList
