import PhysisModel.Base.ParserA
import PhysisModel.Base.ParserAPbc
/-!
# `StainingTemplate::from_existing` (`src/stm.rs`, as repaired by `fixes/C18-60`)

```
StmHeader { #[br(pad_before = 4)] entry_count: i32,
            #[br(count = entry_count)] keys: Vec<u16>, #[br(count = entry_count)] offsets: Vec<u16> }
for entry_offset in header.offsets {
    let offset = entry_offset as u64 * 2 + 8 + 4 * header.entry_count as u64;   // < 2^34: no overflow
    cursor.seek(Start(offset)).ok()?;
    for end in &mut ends { *end = cursor.read_le::<u16>().ok()? as u32 * 2; }   // < 2^17: no overflow
}
```
`count = entry_count` converts with `usize::try_from`: a negative count is an `AssertFail` error.
At the pinned commit the header read and the five entry reads were `unwrap()`ed, the offset was
computed in `i32` and the doubling in `u16` (`stmUnfixed`).
-/
namespace Physis.C18Stm
open Physis Physis.A

/-- little-endian u16 values of a raw `countInts _ 2` result -/
def u16s : Bytes → List Nat
  | a :: b :: r => (a.toNat + 256 * b.toNat) :: u16s r
  | _ => []

/-- (entry_count, offsets) -/
def header : P (Nat × List Nat) := do
  P.skip 4
  let c ← P.u32le
  if c.toNat ≥ 2147483648 then P.failP else do
  let _ ← P.countInts c.toNat 2
  let offs ← P.countInts c.toNat 2
  pure (c.toNat, u16s offs)

def entry (count : Nat) (off : Nat) : P Unit := do
  P.seekStart (off * 2 + 8 + 4 * count)
  let _ ← P.u16le
  let _ ← P.u16le
  let _ ← P.u16le
  let _ ← P.u16le
  let _ ← P.u16le
  pure ()

def reader : P Unit := do
  let h ← header
  P.each h.2 (entry h.1)

def fromExisting (b : Bytes) : Res Unit := P.run reader b

/-! the pinned commit, for the witness theorem -/

def entryUnfixed (count : Nat) (off : Nat) : P Unit := do
  -- `entry_offset as i32 * 2 + 8 + 4 * header.entry_count` in i32 (debug build: overflow panics)
  let o ← P.lift (addC 2147483647 (off * 2 + 8) (4 * count))
  P.seekStart o
  P.each [0, 1, 2, 3, 4] (fun (_ : Nat) => fun w s =>
    match P.u16le w s with
    | ⟨.ok (v, s'), k⟩ => if v.toNat * 2 ≤ 65535 then ⟨.ok ((), s'), k⟩ else ⟨.fault .overflow, k⟩
    | ⟨.fail _, k⟩ => ⟨.fault .unwrap, k⟩
    | ⟨.fault x, k⟩ => ⟨.fault x, k⟩)

def fromExistingUnfixed (b : Bytes) : Res Unit :=
  match P.run header b with
  | ⟨.ok h, _⟩ => P.run (do let _ ← header; P.each h.2 (entryUnfixed h.1)) b
  | ⟨.fail _, k⟩ => ⟨.fault .unwrap, k⟩
  | ⟨.fault x, k⟩ => ⟨.fault x, k⟩

end Physis.C18Stm
