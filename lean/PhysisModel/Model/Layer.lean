import PhysisModel.Base.ReaderC16
/-!
Model of `src/layer/mod.rs` `LayerGroup::from_existing` / `LayerGroup::write_to_buffer`, restricted to
groups whose single chunk has **no layers** (C16's quantifier).  The reader answers `unmodelled` as soon
as a `layer_count ≠ 0` passes the reader's own plausibility check; the writer is modelled for `chunks.len() = 1`, `chunks[0].layers = []`.
`StringHeap::read_string` pushes every byte as a `char` (Latin-1), so the returned `String` is the
UTF-8 encoding of those code points.
-/
namespace Physis.Layer

structure Group where
  fileId : UInt32
  chunkId : UInt32
  layerGroupId : UInt32
  name : Bytes
  deriving DecidableEq, Repr

/-- `string.push(byte as char)` for every byte, as UTF-8 -/
def latin1ToUtf8 : Bytes → Bytes
  | [] => []
  | c :: r => if c < 128 then c :: latin1ToUtf8 r else ((0xC0 : UInt8) ||| (c >>> 6)) :: ((0x80 : UInt8) ||| (c &&& 0x3F)) :: latin1ToUtf8 r

/-- signed view of an i32 bit pattern: `x <= 0` -/
def i32NonPos (x : UInt32) : Bool := x == 0 || x ≥ 0x80000000

/-- `file` is the whole buffer (target of absolute seeks), `cur` the bytes at the cursor -/
def fromExistingAt (file cur : Bytes) : Outcome Group :=
  -- LgbHeader::read(&mut cursor).unwrap()
  match Rd.u32le cur with
  | none => .panic
  | some (fileId, r) =>
  match Rd.u32le r with
  | none => .panic
  | some (fileSize, r) =>
  match Rd.u32le r with
  | none => .panic
  | some (totalChunkCount, r) =>
  if i32NonPos fileSize || i32NonPos totalChunkCount then .none else
  -- StringHeap::from(cursor.position() + 8)
  let heapPos := 12 + 8
  -- LayerChunkHeader::read_le_args(..).unwrap()
  match Rd.u32le r with
  | none => .panic
  | some (chunkId, r) =>
  match Rd.u32le r with
  | none => .panic
  | some (chunkSize, r) =>
  match Rd.u32le r with
  | none => .panic
  | some (layerGroupId, r) =>
  match Rd.u32le r with
  | none => .panic
  | some (nameOffset, r) =>
  -- HeapString: read_string seeks to heap.pos + offset and reads bytes up to NUL (unwrap on each read)
  match Rd.cstr (Rd.seekTo file (heapPos + nameOffset.toNat)) with
  | none => .panic
  | some name =>
  match Rd.u32le r with
  | none => .panic
  | some (_layerOffset, r) =>
  match Rd.u32le r with
  | none => .panic
  | some (layerCount, _r) =>
  if i32NonPos chunkSize then .none else
  if layerCount != 0 then
    -- "the offsets follow: a count that does not fit in the rest of the buffer is corrupt":
    -- `layer_count < 0 || layer_count as u64 * 4 > remaining` (36 bytes have been read) is `None`;
    -- any other non-zero count enters the layer parser, which is outside this model
    if layerCount ≥ 0x80000000 ∨ layerCount.toNat * 4 > file.length - 36 then .none else .unmodelled
  else
  .ok ⟨fileId, chunkId, layerGroupId, latin1ToUtf8 name⟩

def fromExisting (buffer : Bytes) : Outcome Group := fromExistingAt buffer buffer

/-- `write_to_buffer` for one chunk without layers.  The cursor movements of the Rust code are kept:
the chunk header is written at 12 into the still empty buffer (zero-filling 0..12), the (empty) data heap
and the string heap follow at 36, the file header goes to 0 last.  `CString::new(name).unwrap()` panics on
an interior NUL. -/
def writeToBuffer (g : Group) : Outcome Bytes :=
  if g.name.contains 0 then .panic else
  let dataBase := 12                       -- size_of::<LgbHeader>()
  let layerChunkHeaderPos := dataBase
  let layerDataOffset := layerChunkHeaderPos + 24   -- no layer offsets to skip
  -- second-pass heap: pos = free_pos = data_base + 4 + chunk_data_heap.bytes.len() (= 0)
  let freePos := dataBase + 4 + 0
  let nameOffset := UInt32.ofNat freePos    -- get_free_offset_string(..) as i32 as u32
  let stringHeap := g.name ++ [0]
  let chunkHeader := putU32le g.chunkId ++ putU32le 24 ++ putU32le g.layerGroupId ++ putU32le nameOffset ++
    putU32le 16 ++ putU32le 0
  let buf := writeAt [] layerChunkHeaderPos chunkHeader
  -- chunk_data_heap (empty) then chunk_string_heap at layer_data_offset
  let buf := writeAt buf layerDataOffset stringHeap
  let fileSize := UInt32.ofNat buf.length   -- buffer.len() as i32
  let header := putU32le g.fileId ++ putU32le fileSize ++ putU32le 1
  .ok (writeAt buf 0 header)

end Physis.Layer
