import PhysisModel.Base.ParserA
import PhysisModel.Model.C18Hdr
import PhysisModel.Model.Crc
/-!
Fault-tracking models (C18 step 2, archive side) of

* `src/sqpack/index.rs` `SqPackIndex::from_existing` (the binrw grammar, read from a `File`) and the
  slicing inside `calculate_hash` (repaired by `fixes/C18-08`: no `panic!` for a path without `/`);
* `src/repository.rs` `Repository::from_existing_expansion` / `src/gamedata.rs`
  `reload_repositories`: which directory names under `sqpack` are repositories (repaired by
  `fixes/C18-09`: `name.get(2..3)?`, non-UTF-8 names skipped).
-/
namespace Physis.C18Arc
open Physis Physis.A Physis.C18Hdr

/-! ## index -/

structure Seg where
  offset : Nat
  size : Nat
  deriving Repr, Inhabited

/-- `SegementDescriptor`: count, offset, size, sha1, `pad_after = 40` -/
def segment : P Seg := do
  let _ ← P.u32le
  let offset ← u32leNat
  let size ← u32leNat
  let _ ← P.bytes 20
  P.skip 40
  pure ⟨offset, size⟩

structure IndexHeader where
  file : Seg
  data : Seg
  folder : Seg
  indexType : Nat
  deriving Repr, Inhabited

def indexHeader : P IndexHeader := do
  let _ ← P.u32le
  let file ← segment
  P.skip 4
  let data ← segment
  let _ ← segment
  let folder ← segment
  let ty ← P.padSizeTo 4 (P.reprEnum u8Nat Generated.C18.indexTypes)
  P.skip 656
  let _ ← P.bytes 20
  P.skip 44
  pure ⟨file, data, folder, ty⟩

/-- `FileEntry`: `Hash` (SplitPath: two u32 / FullPath: one u32, chosen by `pre_assert` on the index
type), `FileEntryData` (u32), and a u32 of padding for index1; the value is the stored hash
(`(name, path)` for index1, `(full, 0)` for index2) -/
def fileEntry (indexType : Nat) : P (UInt32 × UInt32) :=
  if indexType = 0 then do
    let name ← P.u32le; let path ← P.u32le
    let _ ← P.u32le
    let _ ← P.u32le
    pure (name, path)
  else do
    let full ← P.u32le
    let _ ← P.u32le
    pure (full, 0)

def dataEntry : P Unit := do let _ ← P.bytes 256; pure ()

def folderEntry : P Unit := do
  let _ ← P.u32le; let _ ← P.u32le; let _ ← P.u32le
  P.skip 4

structure Index where
  indexType : Nat
  entries : List (UInt32 × UInt32)
  deriving Inhabited

/-- `SqPackIndex::read` -/
def indexFile : P Index := do
  let size ← sqpackHeader
  P.seekStart size
  let h ← indexHeader
  P.seekStart h.file.offset
  -- index1 records are 16 bytes, index2 records 8 (C01's fix 1708419)
  let es ← P.count (h.file.size / (if h.indexType = 0 then 16 else 8)) (fileEntry h.indexType)
  P.seekStart h.data.offset
  let _ ← P.count (h.data.size / 256) dataEntry
  P.seekStart h.folder.offset
  let _ ← P.count (h.folder.size / 16) folderEntry
  pure ⟨h.indexType, es⟩

def index (w : Bytes) : Res Index := P.run indexFile w

/-- position of the last `/` (0x2F) -/
def rfindSlash (l : Bytes) : Option Nat :=
  let rec go (l : Bytes) (i : Nat) (last : Option Nat) : Option Nat :=
    match l with
    | [] => last
    | x :: r => go r (i + 1) (if x == 0x2F then some i else last)
  go l 0 none

/-- the slicing of `calculate_hash` for an index1 file on the lower-cased path `l`:
`split_at(pos)`, `filename[1..filename.len()]`.  (`/` is a one-byte character, so both cuts are on
character boundaries.)  Repaired: no `/` ⇒ the directory is the empty string. -/
def hashSplit (l : Bytes) : Res (Bytes × Bytes) :=
  match rfindSlash l with
  | some pos => do
    let dir ← sliceF l 0 pos
    let file ← sliceFromF l pos
    let name ← sliceF file 1 file.length
    pure (dir, name)
  | none => .ok ([], l)

/-- `SqPackIndex::exists` (= `find_entry(..).is_some()`) for an ASCII path: `calculate_hash` on the
lower-cased path, then a scan of the entries -/
def existsAscii (ix : Index) (path : Bytes) : Res Bool :=
  let l := path.map asciiLower
  if ix.indexType = 0 then do
    let (dir, name) ← hashSplit l
    let h : UInt32 × UInt32 := (Crc.checksum name, Crc.checksum dir)
    pure (ix.entries.any (fun e => e == h))
  else
    let h : UInt32 × UInt32 := (Crc.checksum l, 0)
    .ok (ix.entries.any (fun e => e == h))

/-- pinned commit: `panic!("This is unexpected…")` -/
def hashSplitUnfixed (l : Bytes) : Res (Bytes × Bytes) :=
  match rfindSlash l with
  | some pos => do
    let dir ← sliceF l 0 pos
    let file ← sliceFromF l pos
    let name ← sliceF file 1 file.length
    pure (dir, name)
  | none => .panic .explicit

/-! ## the control flow of `GameData::extract` -/

/-- `GameData::extract(path)`: `find_entry` first needs `get_index_filenames(path)?`, i.e.
`parse_repository_category(path)?`; only then `get_dat_file` calls
`parse_repository_category(path).unwrap()` — the same pure function of `(&self.repositories, path)`
(`find_entry` only fills the index cache).  `parse` is the result of that call, `findEntry` the scan of
the index files, `openDat` = `SqPackData::from_existing(dat_path.to_str()?)`, `read` =
`read_from_offset`. -/
def extractFlow {R E D : Type} (parse : Option R) (findEntry : R → Option E)
    (openDat : R → E → Option D) (read : D → E → Res Unit) : Res Unit := do
  let r ← Res.ofOption parse
  let e ← Res.ofOption (findEntry r)
  let r' ← Res.unwrap parse
  let d ← Res.ofOption (openDat r' e)
  read d e

/-! ## repository discovery -/

/-- `Path::file_stem` on a single file name (not `.` / `..`) -/
def lastDot (l : Bytes) : Option Nat :=
  let rec go (l : Bytes) (i : Nat) (last : Option Nat) : Option Nat :=
    match l with
    | [] => last
    | x :: r => go r (i + 1) (if x == 0x2E then some i else last)
  go l 0 none

def fileStem (n : Bytes) : Bytes :=
  match lastDot n with
  | none => n
  | some i => if i = 0 then n else n.take i

/-- `i` is a character boundary of the (valid UTF-8) string `s` -/
def isBoundary (s : Bytes) (i : Nat) : Bool :=
  match s[i]? with
  | none => i == s.length
  | some b => !(Utf8.cont b)

/-- `reload_repositories` + `from_existing_expansion` on a directory called `name` under `sqpack`:
the expansion number, or the ordinary failure when the directory is no repository -/
def expansionNumber (name : Bytes) : Res Nat := do
  Res.guard (Utf8.valid name)                                   -- `path.to_str()` else `continue`
  let st := fileStem name
  -- `name.get(2..3)?`
  Res.guard (decide (3 ≤ st.length) && isBoundary st 2 && isBoundary st 3)
  let c ← indexF st 2
  -- `.parse::<i32>().ok()?` of a one-character string
  Res.guard (decide (48 ≤ c.toNat) && decide (c.toNat ≤ 57))
  pure (c.toNat - 48)

/-- pinned commit: `name[2..3]` -/
def expansionNumberUnfixed (name : Bytes) : Res Nat := do
  Res.require (Utf8.valid name) .unwrap                         -- `path.to_str().unwrap()`
  let st := fileStem name
  Res.require (decide (3 ≤ st.length) && isBoundary st 2 && isBoundary st 3) .slice
  let c ← indexF st 2
  Res.guard (decide (48 ≤ c.toNat) && decide (c.toNat ≤ 57))
  pure (c.toNat - 48)

end Physis.C18Arc
