import PhysisModel.Base.Fs
import PhysisModel.Model.Utf8Lossy
/-!
# Model of `src/patch.rs` (`ZiPatch::apply`, `ZiPatch::create`) and of
`read_data_block_patch` / `write_data_block_patch` in `src/sqpack/mod.rs`

Written to read like the Rust: the reader functions consume the *unread rest* of the patch file in
the order binrw reads the fields (`pad_before/after` = seeking forward, which never fails on a
file: `List.drop`), magics select enum variants, a failed read makes `PatchChunk::read` fail
(`?` → `Err(ParseError)`), the two `unwrap`s of the loop are `panic` outcomes.  The install is an
`Fs.Tree` below `data_dir`.  zlib's raw inflate is the parameter `inflate compressed outLen`
(`none` = `no_header_decompress` returns `false`).

The model mirrors the code *with the fixes* `fixes/C04-01…` (relative-path and content comparison
in `create`) `fixes/C03-01…` (big-endian ADIR/DELD name length) and `fixes/C03-02…` (MakeDirTree makes the whole
path).
-/
namespace Physis.Patch
open Physis Physis.Fs

inductive Outcome where
  | ok | parseError | ioError | panic
  deriving DecidableEq, Repr

/-! ## primitive readers (`none` = short read) -/

def rdU8 : Bytes → Option (UInt8 × Bytes)
  | a :: r => some (a, r)
  | _ => none
def rdU16be : Bytes → Option (UInt16 × Bytes)
  | a :: b :: r => (getU16be [a, b]).map (·, r)
  | _ => none
def rdU32be : Bytes → Option (UInt32 × Bytes)
  | a :: b :: c :: d :: r => (getU32be [a, b, c, d]).map (·, r)
  | _ => none
def rdU32le : Bytes → Option (UInt32 × Bytes)
  | a :: b :: c :: d :: r => (getU32le [a, b, c, d]).map (·, r)
  | _ => none
def rdU64be : Bytes → Option (UInt64 × Bytes)
  | a :: b :: c :: d :: e :: f :: g :: h :: r => (getU64be [a, b, c, d, e, f, g, h]).map (·, r)
  | _ => none
def rdU64le : Bytes → Option (UInt64 × Bytes)
  | a :: b :: c :: d :: e :: f :: g :: h :: r => (getU64le [a, b, c, d, e, f, g, h]).map (·, r)
  | _ => none
/-- `count = n` bytes (`read_exact`) -/
def rdN (n : Nat) (s : Bytes) : Option (Bytes × Bytes) :=
  if n ≤ s.length then some (s.take n, s.drop n) else none
/-- a magic: the bytes must be there and equal -/
def rdMagic (m : Bytes) (s : Bytes) : Option Bytes :=
  if s.take m.length = m then some (s.drop m.length) else none

/-- `read_string`: `String::from_utf8_lossy(..)` then `trim_matches('\0')` (both ends) — lossy
since fix a103be4 (an invalid sequence becomes U+FFFD; it was `from_utf8(..).unwrap()`).  The ASCII
branch (C03/C04 quantify over ASCII names) is kept apart so that the theorems about ASCII names
read as before; on ASCII the lossy decoding is the identity (`Utf8Lossy.fromUtf8Lossy_valid`). -/
def trimNul (s : Bytes) : Bytes :=
  ((s.dropWhile (· = 0)).reverse.dropWhile (· = 0)).reverse
def readString (s : Bytes) : Option Bytes :=
  if s.all (· < 128) then some (trimNul s) else some (trimNul (Utf8Lossy.fromUtf8Lossy s))

/-! ## chunks, as far as `apply` looks at them -/

inductive FileOp where
  | addFile | removeAll | deleteFile | makeDirTree
  deriving DecidableEq, Repr

inductive Chunk where
  | fileHeader (version : UInt8)
  | applyOption (opt val : UInt32)
  | addDirectory (name : Bytes)
  | deleteDirectory (name : Bytes)
  | patchInfo
  | index
  | targetInfo (platform : UInt8)
  | addData (main sub : UInt16) (file : UInt32) (off del : UInt64) (data : Bytes)
  | deleteData (main sub : UInt16) (file : UInt32) (off : UInt64) (num : UInt32)
  | expandData (main sub : UInt16) (file : UInt32) (off : UInt64) (num : UInt32)
  | headerUpdate (isIndex : Bool) (kind : UInt8) (main sub : UInt16) (file : UInt32) (data : Bytes)
  | fileOp (op : FileOp) (off size : UInt64) (exp : UInt16) (path : Bytes)
  | eof
  deriving DecidableEq, Repr

/-- result of reading: `fail` = binrw error (→ `ParseError`), `panic` = an `unwrap` fired -/
inductive Rd (α : Type) where
  | ok (a : α) (rest : Bytes)
  | fail
  | panic
  deriving Repr

def tagFHDR : Bytes := [0x46, 0x48, 0x44, 0x52]
def tagAPLY : Bytes := [0x41, 0x50, 0x4c, 0x59]
def tagADIR : Bytes := [0x41, 0x44, 0x49, 0x52]
def tagDELD : Bytes := [0x44, 0x45, 0x4c, 0x44]
def tagSQPK : Bytes := [0x53, 0x51, 0x50, 0x4b]
def tagEOF : Bytes := [0x45, 0x4f, 0x46, 0x5f]

/-- main_id, sub_id, file_id (big-endian) -/
def rdIds (s : Bytes) : Option ((UInt16 × UInt16 × UInt32) × Bytes) := do
  let (m, s) ← rdU16be s
  let (sub, s) ← rdU16be s
  let (f, s) ← rdU32be s
  pure ((m, sub, f), s)

/-- a counted string field: `count` bytes, then `read_string` -/
def rdString (n : Nat) (s : Bytes) : Rd Bytes :=
  match rdN n s with
  | none => .fail
  | some (raw, s) =>
    match readString raw with
    | none => .panic
    | some str => .ok str s

/-- `FileHeaderChunk` after the `FHDR` magic: `pad_before = 2`, version magic, the version's
struct, `pad_after = 1`.  (The name is read one byte early compared with the reference layout;
nothing uses it.) -/
def rdFileHeader (s : Bytes) : Rd Chunk :=
  match rdU8 (s.drop 2) with
  | none => .fail
  | some (v, s) =>
    if v = 2 then
      match rdString 4 s with
      | .ok _ s =>
        match rdU32be (s.drop 8) with
        | some (_, s) => .ok (.fileHeader 2) (s.drop 1)
        | none => .fail
      | .fail => .fail
      | .panic => .panic
    else if v = 3 then
      match rdString 4 s with
      | .ok _ s =>
        -- 13 big-endian u32 fields, pad_after = 0xB8
        match rdN 52 s with
        | some (_, s) => .ok (.fileHeader 3) ((s.drop 0xB8).drop 1)
        | none => .fail
      | .fail => .fail
      | .panic => .panic
    else .fail

/-- `DirectoryChunk` (ADIR / DELD): `name_length` then the name.  (The length is big-endian on
the wire — fix C03-01.) -/
def rdDirectory (mk : Bytes → Chunk) (s : Bytes) : Rd Chunk :=
  match rdU32be s with
  | none => .fail
  | some (n, s) =>
    match rdString n.toNat s with
    | .ok name s => .ok (mk name) s
    | .fail => .fail
    | .panic => .panic

def fileOpOf (b : UInt8) : Option FileOp :=
  if b = 0x41 then some .addFile
  else if b = 0x52 then some .removeAll
  else if b = 0x44 then some .deleteFile
  else if b = 0x4d then some .makeDirTree
  else none

/-- `SqpkChunk` after the `SQPK` magic: `size` (ignored), command letter, command struct -/
def rdSqpk (s : Bytes) : Rd Chunk :=
  match rdU32be s with
  | none => .fail
  | some (_, s) =>
  match rdU8 s with
  | none => .fail
  | some (op, s) =>
    if op = 0x41 then       -- 'A' SqpkAddData
      match (do
        let (ids, s) ← rdIds (s.drop 3)
        let (off, s) ← rdU32be s
        let (num, s) ← rdU32be s
        let (del, s) ← rdU32be s
        let (data, s) ← rdN (num.toUInt64 <<< 7).toNat s
        pure (Chunk.addData ids.1 ids.2.1 ids.2.2 (off.toUInt64 <<< 7) (del.toUInt64 <<< 7) data, s)) with
      | some (c, s) => .ok c s
      | none => .fail
    else if op = 0x44 ∨ op = 0x45 then     -- 'D' / 'E' SqpkDeleteData
      match (do
        let (ids, s) ← rdIds (s.drop 3)
        let (off, s) ← rdU32be s
        let (num, s) ← rdU32be s
        pure ((ids, off, num), s.drop 4)) with
      | some ((ids, off, num), s) =>
        .ok ((if op = 0x44 then Chunk.deleteData else Chunk.expandData)
          ids.1 ids.2.1 ids.2.2 (off.toUInt64 <<< 7) num) s
      | none => .fail
    else if op = 0x46 then     -- 'F' SqpkFileOperationData
      match (do
        let (o, s) ← rdU8 s
        let fo ← fileOpOf o
        let (off, s) ← rdU64be (s.drop 2)
        let (size, s) ← rdU64be s
        let (plen, s) ← rdU32be s
        let (exp, s) ← rdU16be s
        pure ((fo, off, size, plen, exp), s.drop 2)) with
      | some ((fo, off, size, plen, exp), s) =>
        match rdString plen.toNat s with
        | .ok path s => .ok (.fileOp fo off size exp path) s
        | .fail => .fail
        | .panic => .panic
      | none => .fail
    else if op = 0x48 then     -- 'H' SqpkHeaderUpdateData
      match (do
        let (fk, s) ← rdU8 s
        let isIdx ← (if fk = 0x44 then some false else if fk = 0x49 then some true else none)
        let (hk, s) ← rdU8 s
        if hk = 0x56 ∨ hk = 0x49 ∨ hk = 0x44 then pure () else none
        let (ids, s) ← rdIds (s.drop 1)
        let (data, s) ← rdN 1024 s
        pure (Chunk.headerUpdate isIdx hk ids.1 ids.2.1 ids.2.2 data, s)) with
      | some (c, s) => .ok c s
      | none => .fail
    else if op = 0x58 then     -- 'X' SqpkPatchInfo: status, version, pad, install_size
      match rdU64be (s.drop 3) with
      | some (_, s) => .ok .patchInfo s
      | none => .fail
    else if op = 0x54 then     -- 'T' SqpkTargetInfo
      match (do
        -- pad_before = 4: the platform is a big-endian u16, the enum is its low byte
        let (pl, s) ← rdU8 (s.drop 4)
        if pl ≤ 4 then pure () else none
        let (rg, s) ← rdU16be s
        if rg = 0xFFFF ∨ rg = 1 then pure () else none
        let (_, s) ← rdU16be s
        let (_, s) ← rdU16be s
        let (_, s) ← rdU64le s
        let (_, s) ← rdU64le s
        pure (Chunk.targetInfo pl, s.drop 96)) with
      | some (c, s) => .ok c s
      | none => .fail
    else if op = 0x49 then     -- 'I' SqpkIndex
      match (do
        let (c, s) ← rdU8 s
        if c = 0x41 ∨ c = 0x44 then pure () else none
        let (_, s) ← rdU8 s
        let (_, s) ← rdU64be (s.drop 1)
        let (_, s) ← rdU32be s
        let (_, s) ← rdU32be s
        pure (Chunk.index, s.drop 8)) with
      | some (c, s) => .ok c s
      | none => .fail
    else .fail

/-- `PatchChunk::read` up to (not including) the trailing `crc32`: big-endian `size` (ignored) and
the chunk type selected by its 4-byte magic.  The crc (absent after `EOF_`) is read by the caller
(`applyLoop`, `rdChunk`), because AddFile un-reads it. -/
def rdChunkBody (s : Bytes) : Rd Chunk :=
  match rdU32be s with
  | none => .fail
  | some (_, s) =>
    let tag := s.take 4
    let body := s.drop 4
    if tag = tagFHDR then rdFileHeader body
    else if tag = tagAPLY then
      match rdU32be body with
      | some (opt, s) =>
        if opt = 1 ∨ opt = 2 then
          match rdU32be (s.drop 4) with
          | some (v, s) => .ok (.applyOption opt v) s
          | none => .fail
        else .fail
      | none => .fail
    else if tag = tagADIR then rdDirectory .addDirectory body
    else if tag = tagDELD then rdDirectory .deleteDirectory body
    else if tag = tagSQPK then rdSqpk body
    else if tag = tagEOF then .ok .eof body
    else .fail

/-! ## `read_data_block_patch` / `write_data_block_patch` -/

/-- `(n + 143) & 0xFFFFFF80` on `usize` -/
def pad128 (n : UInt64) : UInt64 := (n + 143) &&& 0xFFFFFF80

/-- One block: `BlockHeader` (16 bytes, plus a 4-byte look-ahead that is un-read), then either
`file_size` raw bytes followed by a forward seek, or the compressed bytes up to the padded
length.  `none` = the function panics or returns `None` (the caller unwraps). -/
def readDataBlockPatch (inflate : Bytes → Nat → Option Bytes) (s : Bytes) : Option (Bytes × Bytes) := do
  let (size, s1) ← rdU32le s
  let (x, s2) ← rdU32le (s1.drop 4)
  let (y, body) ← rdU32le s2
  -- `compression` is mapped from an i32 that is read and un-read (`restore_position`)
  let _ ← rdU32le body
  -- negative i32 lengths: `as usize` sign-extends, the allocation aborts
  if 2 ^ 31 ≤ x.toNat ∨ 2 ^ 31 ≤ y.toNat then none
  if x.toNat < 32000 then
    -- `decompressed_length > MAX_DECOMPRESSED_BLOCK_SIZE` (1 MiB) is refused (fix C17-13)
    if 2 ^ 20 < y.toNat then none
    let padded := pad128 x.toUInt64
    if padded < size.toUInt64 then none      -- usize subtraction overflows
    let (c, rest) ← rdN (padded - size.toUInt64).toNat body
    let d ← inflate c y.toNat
    pure (d, rest)
  else
    let new := pad128 y.toUInt64
    let (d, rest) ← rdN y.toNat body
    if new < size.toUInt64 + y.toUInt64 then none      -- usize subtraction overflows
    pure (d, rest.drop (new - size.toUInt64 - y.toUInt64).toNat)

/-- header (`size = padded − len`, 0, 32000, `len`) and the data, no padding -/
def writeDataBlockPatch (d : Bytes) : Bytes :=
  let len := UInt64.ofNat d.length
  putU32le (pad128 len - len).toUInt32 ++ putU32le 0 ++ putU32le 32000 ++ putU32le len.toUInt32 ++ d

/-- the blocks of one AddFile, decompressed and concatenated: reads blocks until `size` bytes are
there (the loop `apply` ran before fix C17-13; now the *reading* half of `streamBlocks`, used by
`parseChunks` and, through `streamBlocks_of_readBlocks`, by the proofs) -/
def readBlocks (inflate : Bytes → Nat → Option Bytes) : Nat → Bytes → Nat → Bytes → Option (Bytes × Bytes)
  | 0, _, _, _ => none
  | fuel + 1, s, size, acc =>
    if acc.length < size then
      match readDataBlockPatch inflate s with
      | none => none
      | some (d, s') => readBlocks inflate fuel s' size (acc ++ d)
    else some (acc, s)

/-- the content of the file at `p` (must be a regular file) replaced by `f old` -/
def modifyFile (t : Tree) (p : Path) (f : Bytes → Bytes) : Tree :=
  match get t p with
  | some (.file old) => set t p (.file (f old))
  | _ => t

/-- The AddFile block loop (fix C17-13: a block is written as soon as it is read, nothing is
accumulated): `let mut remaining = file_size; while remaining > 0 { let block =
read_data_block_patch(..)?; if let Some(f) = new_file.as_mut() { f.write_all(&block)? };
remaining = remaining.saturating_sub(block.len()) }`.  `opened` = the target `full` could be opened,
`pos` = its cursor.  Returns the tree and the rest of the patch; `none` = a block failed to parse —
the tree then holds what was written up to that block. -/
def streamBlocks (inflate : Bytes → Nat → Option Bytes) (full : Path) (opened : Bool) :
    Nat → Bytes → Nat → Nat → Tree → Tree × Option Bytes
  | 0, _, _, _, t => (t, none)
  | fuel + 1, s, remaining, pos, t =>
    if 0 < remaining then
      match readDataBlockPatch inflate s with
      | none => (t, none)
      | some (d, s') =>
        streamBlocks inflate full opened fuel s' (remaining - d.length) (pos + d.length)
          (if opened then modifyFile t full (fun old => writeAt old pos d) else t)
    else (t, some s)

/-- the AddFile arm of `apply` after `create_dir_all(parent)` (tree `t1`): the target is opened
(`None`: "does not exist, skipping" — the blocks are still read, and dropped), truncated when the
offset is 0, the cursor is set to the offset; then the block loop runs. -/
def addFileBlocks (inflate : Bytes → Nat → Option Bytes) (t1 : Tree) (full : Path) (off : UInt64)
    (size fuel : Nat) (sb : Bytes) : Tree × Option Bytes :=
  match openCreate t1 full with
  | none => streamBlocks inflate full false fuel sb size off.toNat t1
  | some t2 =>
    streamBlocks inflate full true fuel sb size off.toNat
      (modifyFile t2 full (fun old => if off = 0 then [] else old))

/-! ## target names -/

def nibble (n : UInt16) : UInt8 :=
  let d := (n &&& 15).toUInt8
  if d < 10 then 48 + d else 87 + d

/-- `{:02x}` of a u16 -/
def fmt02x (n : UInt16) : Bytes :=
  if n < 0x100 then [nibble (n >>> 4), nibble n]
  else if n < 0x1000 then [nibble (n >>> 8), nibble (n >>> 4), nibble n]
  else [nibble (n >>> 12), nibble (n >>> 8), nibble (n >>> 4), nibble n]

/-- `{:04x}` of a u16 -/
def fmt04x (n : UInt16) : Bytes := [nibble (n >>> 12), nibble (n >>> 8), nibble (n >>> 4), nibble n]

def fmtDec (n : Nat) : Bytes := (Nat.toDigits 10 n).map (fun c => c.toNat.toUInt8)

/-- `get_platform_string` of `Platform` (repr u8 0..4) -/
def platformString (p : UInt8) : Bytes :=
  if p = 0 then [0x77, 0x69, 0x6e, 0x33, 0x32]
  else if p = 1 then [0x70, 0x73, 0x33]
  else if p = 2 then [0x70, 0x73, 0x34]
  else if p = 3 then [0x70, 0x73, 0x35]
  else [0x6c, 0x79, 0x73]

/-- `get_expansion_folder` -/
def expansionFolder (id : UInt16) : Name :=
  if id = 0 then [0x66, 0x66, 0x78, 0x69, 0x76] else [0x65, 0x78] ++ fmtDec id.toNat

def sqpackName : Name := [0x73, 0x71, 0x70, 0x61, 0x63, 0x6b]

def datFile (pl : UInt8) (main sub : UInt16) (file : UInt32) : Name :=
  fmt02x main ++ fmt04x sub ++ [0x2e] ++ platformString pl ++ [0x2e, 0x64, 0x61, 0x74] ++ fmtDec file.toNat

def indexFile (pl : UInt8) (main sub : UInt16) (file : UInt32) : Name :=
  fmt02x main ++ fmt04x sub ++ [0x2e] ++ platformString pl ++ [0x2e, 0x69, 0x6e, 0x64, 0x65, 0x78] ++
    (if file ≠ 0 then fmtDec file.toNat else [])

/-- directory part of `get_dat_path` / `get_index_path` (what `rsplit_once('/')` leaves) -/
def repoDir (sub : UInt16) : Path := [sqpackName, expansionFolder (sub >>> 8)]

/-- components of `format!("{}/{}", data_dir, path)` below `data_dir`, as the OS resolves them:
empty components and `.` vanish (`..` is outside what is modelled) -/
def pathComps (p : Bytes) : Path × Path :=
  let cs := splitSlash p
  let norm : Path → Path := fun l => l.filter (fun c => !c.isEmpty && c ≠ [0x2e])
  (norm cs.dropLast, norm cs)

/-! ## `ZiPatch::apply` -/

/-- `write_empty_file_block_at`: wipe `n << 7` bytes from `off`, seek back, five `i32`
(128, 0, 0, `n − 1`, 0).  `none` = the block count is rejected (`n − 1` does not fit an `i32`):
`ParseError` before the file is touched (fix C17-10; outside C03's quantifier). -/
def emptyBlockWrite (old : Bytes) (off : Nat) (n : UInt32) : Option Bytes :=
  if n = 0 ∨ 2 ^ 31 < n.toNat then none
  else
    let wiped := writeAt old off (zeros (n.toUInt64 <<< 7).toNat)
    let w1 := writeAt wiped off (putU32le 128)
    let w2 := writeAt w1 (off + 4) (putU32le 0)
    let w3 := writeAt w2 (off + 8) (putU32le 0)
    let w4 := writeAt w3 (off + 12) (putU32le (n - 1))
    some (writeAt w4 (off + 16) (putU32le 0))

/-- the effect of one chunk (everything except `EOF_`); returns the outcome that ends the loop
early, if any, together with the tree at that moment.  `data` is the payload pulled from the
patch for an AddFile. -/
def applyChunk (ti : Option UInt8) (t : Tree) (data : Bytes) : Chunk → Option UInt8 × Tree × Option Outcome
  | .targetInfo pl => (some pl, t, none)
  | .addData m sub f off del d =>
    match ti with
    | none => (ti, t, some .parseError)   -- `target_info.ok_or(ParseError)?` (fix C17-08)
    | some pl =>
      match mkdirAll t [] (repoDir sub) with
      | none => (ti, t, some .ioError)
      | some t1 =>
        let p := repoDir sub ++ [datFile pl m sub f]
        match openCreate t1 p with
        | none => (ti, t1, some .ioError)
        | some t2 =>
          -- seek(block_offset); write_all(block_data); wipe(block_delete_number)
          (ti, modifyFile t2 p (fun old =>
            writeAt (writeAt old off.toNat d) (off.toNat + d.length) (zeros del.toNat)), none)
  | .deleteData m sub f off n =>
    match ti with
    | none => (ti, t, some .parseError)   -- `target_info.ok_or(ParseError)?` (fix C17-08)
    | some pl =>
      let p := repoDir sub ++ [datFile pl m sub f]
      -- no create_dir_all here
      match openCreate t p with
      | none => (ti, t, some .ioError)
      | some t2 =>
        match get t2 p with
        | some (.file old) =>
          match emptyBlockWrite old off.toNat n with
          | some new => (ti, set t2 p (.file new), none)
          | none => (ti, t2, some .parseError)   -- block count validated before the file is touched (fix C17-10)
        | _ => (ti, t2, some .ioError)
  | .expandData m sub f off n =>
    match ti with
    | none => (ti, t, some .parseError)   -- `target_info.ok_or(ParseError)?` (fix C17-08)
    | some pl =>
      match mkdirAll t [] (repoDir sub) with
      | none => (ti, t, some .ioError)
      | some t1 =>
        let p := repoDir sub ++ [datFile pl m sub f]
        match openCreate t1 p with
        | none => (ti, t1, some .ioError)
        | some t2 =>
          match get t2 p with
          | some (.file old) =>
            match emptyBlockWrite old off.toNat n with
            | some new => (ti, set t2 p (.file new), none)
            | none => (ti, t2, some .parseError)   -- block count validated before the file is touched (fix C17-10)
          | _ => (ti, t2, some .ioError)
  | .headerUpdate isIdx hk m sub f d =>
    match ti with
    | none => (ti, t, some .parseError)   -- `target_info.ok_or(ParseError)?` (fix C17-08)
    | some pl =>
      match mkdirAll t [] (repoDir sub) with
      | none => (ti, t, some .ioError)
      | some t1 =>
        let p := repoDir sub ++ [if isIdx then indexFile pl m sub f else datFile pl m sub f]
        match openCreate t1 p with
        | none => (ti, t1, some .ioError)
        | some t2 =>
          (ti, modifyFile t2 p (fun old => writeAt old (if hk ≠ 0x56 then 1024 else 0) d), none)
  | .fileOp op off _ exp path =>
    let (parent, full) := pathComps path
    match op with
    | .addFile =>
      match mkdirAll t [] parent with
      | none => (ti, t, some .ioError)
      | some t1 =>
        match openCreate t1 full with
        | none => (ti, t1, none)       -- `warn!(… does not exist, skipping.)`
        | some t2 =>
          (ti, modifyFile t2 full (fun old =>
            writeAt (if off = 0 then [] else old) off.toNat data), none)
    | .deleteFile =>
      -- errors of `remove_file` are only logged
      (ti, if isFile t full then erase t full else t, none)
    | .removeAll =>
      let d : Path := [sqpackName, expansionFolder exp]
      (ti, if isDir t d then eraseUnder t d else t, none)
    | .makeDirTree =>
      -- `create_dir_all(&file_path)` (fix C03-02: the whole path, not `parent_directory`)
      match mkdirAll t [] full with
      | none => (ti, t, some .ioError)
      | some t1 => (ti, t1, none)
  | _ => (ti, t, none)

/-- the chunk loop; `fuel` bounds the number of chunks (every chunk consumes at least 8 bytes, so
the length of the file is enough) -/
def applyLoop (inflate : Bytes → Nat → Option Bytes) :
    Nat → Bytes → Option UInt8 → Tree → Outcome × Tree
  | 0, _, _, t => (.parseError, t)
  | fuel + 1, s, ti, t =>
    match rdChunkBody s with
    | .fail => (.parseError, t)
    | .panic => (.panic, t)
    | .ok .eof _ => (.ok, t)
    | .ok c sb =>
      if sb.length < 4 then (.parseError, t)      -- `crc32` cannot be read
      else
        match c with
        | .fileOp .addFile off size _ path =>
          -- `create_dir_all` comes first; then un-read the crc, open the target (truncate it for
          -- offset 0, seek), pull the blocks and write each one at once (fix C17-13), skip the crc
          -- again.  (For a patch whose blocks all parse this is `applyChunk` on the concatenated
          -- blocks: `applyLoop_encodeCmd`.)
          match mkdirAll t [] (pathComps path).1 with
          | none => (.ioError, t)
          | some t1 =>
            match addFileBlocks inflate t1 (pathComps path).2 off size.toNat (sb.length + 1) sb with
            | (t3, none) => (.parseError, t3)   -- a bad data block is a parse error (fix C17-09)
            | (t3, some s') => applyLoop inflate fuel (s'.drop 4) ti t3
        | c =>
          match applyChunk ti t [] c with
          | (ti', t', none) => applyLoop inflate fuel (sb.drop 4) ti' t'
          | (_, t', some o) => (o, t')

/-- `PatchHeader`: one byte skipped, `ZIPATCH`, four bytes skipped -/
def rdPatchHeader (s : Bytes) : Option Bytes :=
  if (s.drop 1).take 7 = [0x5a, 0x49, 0x50, 0x41, 0x54, 0x43, 0x48] then some (s.drop 12) else none

def apply (inflate : Bytes → Nat → Option Bytes) (patch : Bytes) (t : Tree) : Outcome × Tree :=
  match rdPatchHeader patch with
  | none => (.parseError, t)
  | some s => applyLoop inflate patch.length s none t

/-- several patches applied one after another to the same directory (separate calls of
`ZiPatch::apply`: nothing but the directory carries over); stops at the first failure -/
def applyAll (inflate : Bytes → Nat → Option Bytes) : List Bytes → Tree → Outcome × Tree
  | [], t => (.ok, t)
  | p :: ps, t =>
    match apply inflate p t with
    | (.ok, t') => applyAll inflate ps t'
    | r => r

/-- The chunks of a patch in reading order up to and including `EOF_`, each with the payload the
loop pulls for it (AddFile blocks, decompressed and concatenated) — the reading half of `applyLoop`
without the effects.  `none` = parse error or panic on the way. -/
def parseChunks (inflate : Bytes → Nat → Option Bytes) : Nat → Bytes → Option (List (Chunk × Bytes))
  | 0, _ => none
  | fuel + 1, s =>
    match rdChunkBody s with
    | .fail => none
    | .panic => none
    | .ok .eof _ => some [(.eof, [])]
    | .ok c sb =>
      if sb.length < 4 then none
      else
        match c with
        | .fileOp .addFile _ size _ _ =>
          match readBlocks inflate (sb.length + 1) sb size.toNat [] with
          | none => none
          | some (data, s') => (parseChunks inflate fuel (s'.drop 4)).map ((c, data) :: ·)
        | c => (parseChunks inflate fuel (sb.drop 4)).map ((c, []) :: ·)

def parsePatch (inflate : Bytes → Nat → Option Bytes) (patch : Bytes) : Option (List (Chunk × Bytes)) :=
  (rdPatchHeader patch).bind (parseChunks inflate patch.length)

/-! ## `ZiPatch::create` -/

def lookupFile (l : List (Path × Bytes)) (p : Path) : Option Bytes :=
  match l with
  | [] => none
  | (q, d) :: r => if q = p then some d else lookupFile r p

def hasPath (l : List (Path × Bytes)) (p : Path) : Bool := l.any (fun e => e.1 = p)

/-- files of `new` that are not in `base` with the same content, zero-byte files filtered out -/
def addedFiles (base new : List (Path × Bytes)) : List (Path × Bytes) :=
  new.filter (fun e => !(hasPath base e.1 && lookupFile base e.1 == some e.2) && e.2.length > 0)

/-- files of `base` whose relative path is not in `new` -/
def removedFiles (base new : List (Path × Bytes)) : List (Path × Bytes) :=
  base.filter (fun e => !hasPath new e.1)

/-- a `PatchChunk` holding an SQPK file operation as `create` fills it in: both sizes 0,
offset 0, expansion 0, path with its NUL; without the trailing crc -/
def fileOpChunk (op : UInt8) (size : Nat) (path : Bytes) : Bytes :=
  putU32be 0 ++ tagSQPK ++ putU32be 0 ++ [0x46, op, 0, 0] ++ putU64be 0 ++ putU64be (UInt64.ofNat size) ++
    putU32be (UInt32.ofNat (path.length + 1)) ++ putU16be 0 ++ [0, 0] ++ path ++ [0]

/-- what is left between the end of the block and the next chunk after `seek(Current(4))`: the
tail of the `file_size` that `BlockHeader`'s `restore_position` field wrote and the data did not
cover, then zero fill -/
def blockGap (d : Bytes) : Bytes :=
  (putU32le (UInt64.ofNat d.length).toUInt32).drop d.length ++ zeros (min d.length 4)

def eofChunk : Bytes := putU32be 0 ++ tagEOF

def patchHeader : Bytes := [0, 0x5a, 0x49, 0x50, 0x41, 0x54, 0x43, 0x48, 0, 0, 0, 0]

/-- The bytes `ZiPatch::create` produces, given the two recursive listings (relative path
components and content, in the order `read_dir` happened to return them). -/
def create (base new : List (Path × Bytes)) : Bytes :=
  patchHeader ++
  ((addedFiles base new).map fun e =>
    fileOpChunk 0x41 e.2.length (joinSlash e.1) ++ writeDataBlockPatch e.2 ++ blockGap e.2).flatten ++
  ((removedFiles base new).map fun e => fileOpChunk 0x44 0 (joinSlash e.1) ++ [0, 0, 0, 0]).flatten ++
  eofChunk

end Physis.Patch
