import PhysisModel.Model.MsCommon
import PhysisModel.Model.Crc
import PhysisModel.Spec.Shpk
/-!
Model of `src/shpk.rs`: the binrw grammar of `ShaderPackage` (read order and widths as in the
Rust; out-of-line reads are `seek_before = SeekFrom::Start(..)` + `restore_position`, i.e. pure
functions of the whole file), `from_existing` (selector table = nodes then aliases), `find_node`,
`build_selector*`, `crc`.  The result types are the decoded structures of `Spec/Shpk.lean`
(plain data, shared so that `parse (encode f) = view f` type-checks).
-/
namespace Physis.Shpk
open Physis.MsCommon
open Physis.Spec.Shpk (ResourceParameter Shader MaterialParameter Key Pass NodeAlias Node ShaderPackage)

/-- `ResourceParameter::read` with `strings_offset` imported -/
def resourceParameter (whole : Bytes) (stringsOffset : UInt32) : P ResourceParameter := do
  let id ← u32
  let localStringOffset ← u32
  let stringLength ← u16
  let unknown ← u16
  let slot ← u16
  let size ← u16
  -- seek_before Start(strings_offset as u64 + local_string_offset as u64), count = string_length,
  -- map String::from_utf8(x).unwrap().trim_matches('\0'), restore_position
  let raw ← liftE (slice whole (stringsOffset.toNat + localStringOffset.toNat) stringLength.toNat)
  let name ← liftE (nulTrimmedString raw)
  pure { id, unknown, slot, size, name }

/-- `Shader::read`; a vertex shader has an 8-byte additional header in front of its bytecode
(after fix C14-02; the unfixed code read `shader_data_offset` bytes there) -/
def shader (whole : Bytes) (shaderDataOffset stringsOffset : UInt32) (isVertex : Bool) : P Shader := do
  let dataOffset ← u32
  let dataSize ← u32
  let scalarParameterCount ← u16
  let resourceParameterCount ← u16
  let uavParameterCount ← u16
  let textureCount ← u16
  let scalarParameters ← count (resourceParameter whole stringsOffset) scalarParameterCount.toNat
  let resourceParameters ← count (resourceParameter whole stringsOffset) resourceParameterCount.toNat
  let uavParameters ← count (resourceParameter whole stringsOffset) uavParameterCount.toNat
  let textureParameters ← count (resourceParameter whole stringsOffset) textureCount.toNat
  let additionalData ← liftE (slice whole (shaderDataOffset.toNat + dataOffset.toNat)
    (if isVertex then 8 else 0))
  let bytecode ← liftE (slice whole
    (shaderDataOffset.toNat + dataOffset.toNat + (if isVertex then 8 else 0)) dataSize.toNat)
  pure { dataOffset, dataSize, scalarParameterCount, resourceParameterCount, uavParameterCount,
         textureCount, scalarParameters, resourceParameters, uavParameters, textureParameters,
         additionalData, bytecode }

def materialParameter : P MaterialParameter := do
  let id ← u32
  let byteOffset ← u16
  let byteSize ← u16
  pure { id, byteOffset, byteSize }

def key : P Key := do
  let id ← u32
  let defaultValue ← u32
  pure { id, defaultValue }

def pass : P Pass := do
  let id ← u32
  let vertexShader ← u32
  let pixelShader ← u32
  pure { id, vertexShader, pixelShader }

def nodeAlias : P NodeAlias := do
  let selector ← u32
  let node ← u32
  pure { selector, node }

def node (systemKeyCount sceneKeyCount materialKeyCount subviewKeyCount : UInt32) : P Node := do
  let selector ← u32
  let passCount ← u32
  let passIndices ← take 16
  let systemKeys ← count u32 systemKeyCount.toNat
  let sceneKeys ← count u32 sceneKeyCount.toNat
  let materialKeys ← count u32 materialKeyCount.toNat
  let subviewKeys ← count u32 subviewKeyCount.toNat
  let passes ← count pass passCount.toNat
  pure { selector, passCount, passIndices, systemKeys, sceneKeys, materialKeys, subviewKeys, passes }

/-- `count = if has_mat_param_defaults == 0x1 { (material_parameters_size as i32) >> 2i32 } else { 0 }`;
a negative count is rejected by binrw (`usize::try_from` fails) -/
def defaultsCountP (hasMatParamDefaults : UInt16) (materialParametersSize : UInt32) : P Nat :=
  if hasMatParamDefaults == 1 then
    (if materialParametersSize.toNat < 2147483648 then pure (materialParametersSize.toNat / 4) else failP)
  else pure 0

/-- `b"ShPk"` -/
def magic : P Unit := do
  let m ← take 4
  if m = [0x53, 0x68, 0x50, 0x6B] then pure () else failP

/-- `ShaderPackage::read` (`node_selectors` is `#[br(ignore)]`: left empty) -/
def shaderPackage (whole : Bytes) : P ShaderPackage := do
  magic
  let version ← u32
  let formatRaw ← take 4
  let format ← liftE (nulTrimmedString formatRaw)
  let fileLength ← u32
  let shaderDataOffset ← u32
  let stringsOffset ← u32
  let vertexShaderCount ← u32
  let pixelShaderCount ← u32
  let materialParametersSize ← u32
  let materialParameterCount ← u16
  let hasMatParamDefaults ← u16
  let scalarParameterCount ← u16
  let _unknown1 ← u16
  let samplerCount ← u16
  let textureCount ← u16
  let uavCount ← u16
  let _unknown2 ← u16
  let systemKeyCount ← u32
  let sceneKeyCount ← u32
  let materialKeyCount ← u32
  let nodeCount ← u32
  let nodeAliasCount ← u32
  let vertexShaders ← count (shader whole shaderDataOffset stringsOffset true) vertexShaderCount.toNat
  let pixelShaders ← count (shader whole shaderDataOffset stringsOffset false) pixelShaderCount.toNat
  let materialParameters ← count materialParameter materialParameterCount.toNat
  let defaultsCount ← defaultsCountP hasMatParamDefaults materialParametersSize
  let matParamDefaults ← count u32 defaultsCount
  let scalarParameters ← count (resourceParameter whole stringsOffset) scalarParameterCount.toNat
  let samplerParameters ← count (resourceParameter whole stringsOffset) samplerCount.toNat
  let textureParameters ← count (resourceParameter whole stringsOffset) textureCount.toNat
  let uavParameters ← count (resourceParameter whole stringsOffset) uavCount.toNat
  let systemKeys ← count key systemKeyCount.toNat
  let sceneKeys ← count key sceneKeyCount.toNat
  let materialKeys ← count key materialKeyCount.toNat
  let subViewKey1Default ← u32
  let subViewKey2Default ← u32
  let nodes ← count (node systemKeyCount sceneKeyCount materialKeyCount 2) nodeCount.toNat
  let nodeAliases ← count nodeAlias nodeAliasCount.toNat
  pure { version, format, fileLength, shaderDataOffset, stringsOffset, vertexShaderCount,
         pixelShaderCount, materialParametersSize, materialParameterCount, hasMatParamDefaults,
         scalarParameterCount, samplerCount, textureCount, uavCount, systemKeyCount, sceneKeyCount,
         materialKeyCount, nodeCount, nodeAliasCount, vertexShaders, pixelShaders,
         materialParameters, matParamDefaults, scalarParameters, samplerParameters,
         textureParameters, uavParameters, systemKeys, sceneKeys, materialKeys,
         subViewKey1Default, subViewKey2Default, nodes, nodeSelectors := [], nodeAliases }

/-- `for (i, node) in package.nodes.iter().enumerate() { push((node.selector, i as u32)) }` -/
def pushNodes : List Node → Nat → List (UInt32 × UInt32)
  | [], _ => []
  | n :: r, i => (n.selector, UInt32.ofNat i) :: pushNodes r (i + 1)

/-- `ShaderPackage::from_existing` -/
def fromExisting (buffer : Bytes) : Except Err ShaderPackage :=
  match shaderPackage buffer buffer with
  | .error e => .error e
  | .ok (package, _) =>
    let sel := pushNodes package.nodes 0
    let sel := sel ++ package.nodeAliases.map (fun alias => (alias.selector, alias.node))
    .ok { package with nodeSelectors := sel }

/-- the loop of `find_node`: index (into `nodes`) stored with the first matching selector -/
def findEntry (selector : UInt32) : List (UInt32 × UInt32) → Option UInt32
  | [] => none
  | (sel, node) :: r => if sel == selector then some node else findEntry selector r

/-- `ShaderPackage::find_node`, as the index of the returned node in `nodes`
(`&self.nodes[*node as usize]` panics when out of range) -/
def findNodeIdx (p : ShaderPackage) (selector : UInt32) : Except Err (Option Nat) :=
  match findEntry selector p.nodeSelectors with
  | none => .ok none
  | some node => if node.toNat < p.nodes.length then .ok (some node.toNat) else .error .panic

/-- `ShaderPackage::find_node` -/
def findNode (p : ShaderPackage) (selector : UInt32) : Except Err (Option Node) :=
  match findNodeIdx p selector with
  | .error e => .error e
  | .ok none => .ok none
  | .ok (some i) => .ok p.nodes[i]?

def selectorMultiplier : UInt32 := 31

/-- the loop of `build_selector` with its two accumulators -/
def buildSelectorLoop : List UInt32 → UInt32 → UInt32 → UInt32
  | [], selector, _ => selector
  | key :: r, selector, multiplier =>
    buildSelectorLoop r (selector + key * multiplier) (multiplier * selectorMultiplier)

/-- `ShaderPackage::build_selector` (wrapping arithmetic) -/
def buildSelector (keys : List UInt32) : UInt32 := buildSelectorLoop keys 0 1

/-- `ShaderPackage::build_selector_from_keys` -/
def buildSelectorFromKeys (systemKey sceneKey materialKey subviewKey : UInt32) : UInt32 :=
  buildSelector [systemKey, sceneKey, materialKey, subviewKey]

/-- `ShaderPackage::build_selector_from_all_keys` -/
def buildSelectorFromAllKeys (systemKeys sceneKeys materialKeys subviewKeys : List UInt32) : UInt32 :=
  buildSelectorFromKeys (buildSelector systemKeys) (buildSelector sceneKeys)
    (buildSelector materialKeys) (buildSelector subviewKeys)

/-- `ShaderPackage::crc` -/
def crc (zlibCrc32 : UInt32 → Bytes → UInt32) (s : Bytes) : UInt32 := Crc.xivCrc zlibCrc32 s

end Physis.Shpk
