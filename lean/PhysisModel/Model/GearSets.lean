import PhysisModel.Model.LeRead
import PhysisModel.Model.Utf8Lossy
/-!
Model of `src/dat.rs` (`DatHeader`) and `src/gearsets.rs` (`GearSets::from_existing`,
`write_to_buffer`, the binrw readers / writers of `GearSets`, `GearSet`, `GearSlot` and the
`convert_*` maps), written to read like the Rust.

`HashMap<GearSlotType, GearSlot>` is a finite map over the 14-variant key enum; it is represented
positionally: entry `i` of `slots` is the value stored under the variant with discriminant `i`
(`None` = no entry).  `convert_to_slots` (`result[idx as usize] = slot` for every entry) and
`convert_from_slots` (`(i.try_into().ok()?, x)` for every kept element) are then position-wise
maps, and the iteration order of the map cannot matter.  That `usize → GearSlotType → usize` is
the identity on 0..13 with the documented variant names is dumped from the compiled code (T2,
`Generated/GearSlotCodes.lean`).

Strings: `NullString → String` (`to_string()`, i.e. binrw's `Display`) is lossy UTF-8 decoding:
every maximal invalid part becomes U+FFFD (`Model/Utf8Lossy.lean`); a name is the UTF-8 bytes of
the resulting `String`.
-/
namespace Physis.GearSets
open Physis.LeRead

/-- outcome of `from_existing`: a value, `None`, or a panic -/
inductive Res (α : Type) where
  | ok (a : α)
  | none
  | panic
deriving Repr, DecidableEq

/-! ### `src/dat.rs` -/

structure DatHeader where
  maxSize : UInt32
  contentSize : UInt32
deriving Repr, DecidableEq

/-- `DatHeader::read`: magic of `DatFileType::Gearset`, two sizes, 4 pad bytes, one ignored byte -/
def readDatHeader (b : Bytes) : Option (DatHeader × Bytes) :=
  match takeU32 b with
  | none => none
  | some (magic, b) =>
    if magic ≠ 0x006d0005 then none else
    match takeU32 b with
    | none => none
    | some (maxSize, b) =>
      match takeU32 b with
      | none => none
      | some (contentSize, b) =>
        match takeU8 (skip 4 b) with     -- `end_of_header`: read, `temp`, not checked
        | none => none
        | some (_, b) => some (⟨maxSize, contentSize⟩, b)

/-- `DatHeader::write_le` with `file_type = Gearset` -/
def writeDatHeader (h : DatHeader) : Bytes :=
  [0x05, 0x00, 0x6d, 0x00] ++ putU32le h.maxSize ++ putU32le h.contentSize ++ [0, 0, 0, 0] ++ [0xFF]

/-! ### `src/gearsets.rs` -/

def UNKNOWN_FLAG : UInt32 := 1000000
def convertFromGearId (id : UInt32) : UInt32 := id &&& ~~~UNKNOWN_FLAG
def convertToGearId (id : UInt32) : UInt32 := id ||| UNKNOWN_FLAG
def convertIdOpt (id : UInt32) : Option UInt32 := if id = 0 then none else some id
def convertOptId : Option UInt32 → UInt32
  | some id => id
  | none => 0

structure GearSlot where
  id : UInt32 := 0
  glamourId : Option UInt32 := none
  unknown1 : UInt32 := 0
  unknown2 : UInt32 := 0
  unknown3 : UInt32 := 0
  unknown4 : UInt32 := 0
  unknown5 : UInt32 := 0
deriving Repr, DecidableEq

def NUMBER_OF_GEARSLOTS : Nat := 14
def NUMBER_OF_GEARSETS : Nat := 100

structure GearSet where
  index : UInt8 := 0
  name : Bytes := []
  unknown1 : UInt64 := 0
  /-- `HashMap<GearSlotType, GearSlot>`, positionally (see the header) -/
  slots : List (Option GearSlot) := List.replicate 14 none
  facewear : Option UInt32 := none
deriving Repr, DecidableEq

structure GearSets where
  unknown1 : UInt8
  currentGearset : UInt8
  unknown3 : UInt16
  gearsets : List (Option GearSet)
deriving Repr, DecidableEq

def writeSlot (s : GearSlot) : Bytes :=
  putU32le (convertToGearId s.id) ++ putU32le (convertOptId s.glamourId) ++ putU32le s.unknown1 ++
    putU32le s.unknown2 ++ putU32le s.unknown3 ++ putU32le s.unknown4 ++ putU32le s.unknown5

def readSlot (b : Bytes) : Option (GearSlot × Bytes) :=
  match takeU32 b with
  | none => none
  | some (id, b) =>
  match takeU32 b with
  | none => none
  | some (glamour, b) =>
  match takeU32 b with
  | none => none
  | some (u1, b) =>
  match takeU32 b with
  | none => none
  | some (u2, b) =>
  match takeU32 b with
  | none => none
  | some (u3, b) =>
  match takeU32 b with
  | none => none
  | some (u4, b) =>
  match takeU32 b with
  | none => none
  | some (u5, b) => some (⟨convertFromGearId id, convertIdOpt glamour, u1, u2, u3, u4, u5⟩, b)

/-- the element of `vec![Default::default(); n]` after the copy loop: the entry if there is one -/
def entryOrDefault {α : Type} (dflt : α) : Option (Option α) → α
  | some (some x) => x
  | _ => dflt

/-- `convert_to_slots`: 14 default slots, overwritten by the entries of the map -/
def convertToSlots (slots : List (Option GearSlot)) : List GearSlot :=
  (List.range NUMBER_OF_GEARSLOTS).map fun i => entryOrDefault {} slots[i]?

/-- `convert_from_slots`: elements with `id == 0` are dropped -/
def convertFromSlots (slots : List GearSlot) : List (Option GearSlot) :=
  slots.map fun x => if x.id = 0 then none else some x

/-- `count`-style repetition of a reader -/
def readN {α : Type} (f : Bytes → Option (α × Bytes)) : Nat → Bytes → Option (List α × Bytes)
  | 0, b => some ([], b)
  | n + 1, b =>
    match f b with
    | none => none
    | some (a, b) =>
      match readN f n b with
      | none => none
      | some (as, b) => some (a :: as, b)

/-- `NullString::read`: bytes up to the first NUL (consumed); EOF before a NUL is an error -/
def readNullString : Bytes → Option (Bytes × Bytes)
  | [] => none
  | c :: rest =>
    if c = 0 then some ([], rest)
    else match readNullString rest with
      | some (s, r) => some (c :: s, r)
      | none => none

/-- `NullString::write` + `pad_size_to = 47` -/
def writeName (name : Bytes) : Bytes :=
  name ++ [0] ++ List.replicate (47 - (name.length + 1)) 0

def writeSet (g : GearSet) : Bytes :=
  [g.index] ++ writeName g.name ++ putU64le g.unknown1 ++
    (convertToSlots g.slots).flatMap writeSlot ++ putU32le (convertOptId g.facewear)

def readSet (b : Bytes) : Option (GearSet × Bytes) :=
  match takeU8 b with
  | none => none
  | some (index, b) =>
  match readNullString b with
  | none => none
  | some (raw, b) =>
  let name := Utf8Lossy.fromUtf8Lossy raw          -- `convert_to_string`: `NullString::to_string()`
  -- `pad_size_to = 47`: seek forward when fewer than 47 bytes were consumed
  match takeU64 (skip (47 - (raw.length + 1)) b) with
  | none => none
  | some (unknown1, b) =>
  match readN readSlot NUMBER_OF_GEARSLOTS b with
  | none => none
  | some (slots, b) =>
  match takeU32 b with
  | none => none
  | some (facewear, b) =>
    some (⟨index, name, unknown1, convertFromSlots slots, convertIdOpt facewear⟩, b)

/-- `convert_to_gearsets`: 100 default sets, the first 100 `Some` entries copied over -/
def convertToGearsets (gearsets : List (Option GearSet)) : List GearSet :=
  (List.range NUMBER_OF_GEARSETS).map fun i => entryOrDefault {} gearsets[i]?

/-- `convert_from_gearsets`: a set without a name is `None` -/
def convertFromGearsets (gearsets : List GearSet) : List (Option GearSet) :=
  gearsets.map fun x => if x.name ≠ [] then some x else none

/-- `GearSets::write_le` -/
def writeGearSets (g : GearSets) : Bytes :=
  [g.unknown1, g.currentGearset] ++ putU16le g.unknown3 ++ (convertToGearsets g.gearsets).flatMap writeSet

/-- `GearSets::read` (little endian) -/
def readGearSets (b : Bytes) : Option GearSets :=
  match takeU8 b with
  | none => none
  | some (unknown1, b) =>
  match takeU8 b with
  | none => none
  | some (currentGearset, b) =>
  match takeU16 b with
  | none => none
  | some (unknown3, b) =>
  match readN readSet NUMBER_OF_GEARSETS b with
  | none => none
  | some (sets, _) => some ⟨unknown1, currentGearset, unknown3, convertFromGearsets sets⟩

def GEARSET_KEY : UInt8 := 0x73

/-- `GearSets::from_existing` -/
def parseGear (buffer : Bytes) : Res GearSets :=
  match readDatHeader buffer with
  | none => .none
  | some (header, rest) =>
    -- `(header.content_size as usize).checked_sub(1)?` (fix 08813b0; it used to panic)
    if header.contentSize = 0 then .none else
    match takeN (header.contentSize.toNat - 1) rest with      -- `buffer.get(start..start + n)?`
    | none => .none
    | some (buf, _) =>
      match readGearSets (buf.map (· ^^^ GEARSET_KEY)) with
      | some g => .ok g
      | none => .none

/-- `GearSets::write_to_buffer` (always `Some`) -/
def writeGear (g : GearSets) : Bytes :=
  writeDatHeader ⟨45205, 45205⟩ ++ (writeGearSets g).map (· ^^^ GEARSET_KEY)

end Physis.GearSets
