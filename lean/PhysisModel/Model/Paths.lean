import PhysisModel.Base.Bytes
import PhysisModel.Model.Race
/-!
Models of the path / file-name builders: `src/equipment.rs` (`build_equipment_path`,
`deconstruct_equipment_path`, `build_character_path`), `src/race.rs` (`build_skeleton_path`),
`src/repository.rs` (`Ord for Repository`, `index_filename`, `index2_filename`, `dat_filename`),
`src/common.rs` (`get_platform_string`) and the naming closures of `ZiPatch::apply`
(`src/patch.rs` `get_dat_path`, `get_index_path`, `get_expansion_folder_sub`).
Strings are ASCII byte lists.
-/
namespace Physis.Paths

def digit (n : Nat) : UInt8 := UInt8.ofNat (48 + n % 10)

/-- decimal digits of `n`, most significant first (Rust `{}` for a non-negative integer) -/
def decimal (n : Nat) : Bytes := (Nat.toDigits 10 n).map (fun c => UInt8.ofNat c.toNat)

/-- Rust `{:04}` for a non-negative integer -/
def fmt04 (n : Nat) : Bytes :=
  if n < 10000 then [digit (n / 1000), digit (n / 100), digit (n / 10), digit n] else decimal n

/-- Rust `{:02}` for a non-negative integer -/
def fmt02 (n : Nat) : Bytes :=
  if n < 100 then [digit (n / 10), digit n] else decimal n

def hexDigit (n : Nat) : UInt8 :=
  let d := n % 16
  if d < 10 then UInt8.ofNat (48 + d) else UInt8.ofNat (87 + d)

def hexDigits : Nat → Nat → Bytes
  | 0, _ => []
  | fuel + 1, n => if n < 16 then [hexDigit n] else hexDigits fuel (n / 16) ++ [hexDigit n]

/-- Rust `{:02x}` -/
def fmt02x (n : Nat) : Bytes :=
  if n < 256 then [hexDigit (n / 16), hexDigit n] else hexDigits 16 n

/-- Rust `{:04x}` -/
def fmt04x (n : Nat) : Bytes :=
  if n < 65536 then [hexDigit (n / 4096), hexDigit (n / 256), hexDigit (n / 16), hexDigit n]
  else hexDigits 16 n

def str (s : String) : Bytes := s.toUTF8.toList

/-! ### equipment.rs -/

/-- `get_slot_abbreviation` (slots numbered in declaration order: Head=0 … RingRight=9) -/
def slotAbbrev : Nat → Option Bytes
  | 0 => some [0x6d,0x65,0x74]  -- met
  | 1 => some [0x67,0x6c,0x76]  -- glv
  | 2 => some [0x64,0x77,0x6e]  -- dwn
  | 3 => some [0x73,0x68,0x6f]  -- sho
  | 4 => some [0x74,0x6f,0x70]  -- top
  | 5 => some [0x65,0x61,0x72]  -- ear
  | 6 => some [0x6e,0x65,0x6b]  -- nek
  | 7 => some [0x77,0x72,0x73]  -- wrs
  | 8 => some [0x72,0x69,0x6c]  -- ril
  | 9 => some [0x72,0x69,0x72]  -- rir
  | _ => none

/-- `get_slot_from_abbreviation` -/
def slotFromAbbrev (a : Bytes) : Option Nat :=
  if a = [0x6d,0x65,0x74] then some 0 else
  if a = [0x67,0x6c,0x76] then some 1 else
  if a = [0x64,0x77,0x6e] then some 2 else
  if a = [0x73,0x68,0x6f] then some 3 else
  if a = [0x74,0x6f,0x70] then some 4 else
  if a = [0x65,0x61,0x72] then some 5 else
  if a = [0x6e,0x65,0x6b] then some 6 else
  if a = [0x77,0x72,0x73] then some 7 else
  if a = [0x72,0x69,0x6c] then some 8 else
  if a = [0x72,0x69,0x72] then some 9 else none

/-- file-name part of `build_equipment_path`: `c{race:04}e{id:04}_{slot}.mdl` -/
def equipmentFile (id code : Nat) (abbr : Bytes) : Bytes :=
  [0x63] ++ fmt04 code ++ [0x65] ++ fmt04 id ++ [0x5f] ++ abbr ++ [0x2e,0x6d,0x64,0x6c]

/-- `build_equipment_path`: `chara/equipment/e{id:04}/model/` ++ file -/
def equipmentPath (id code : Nat) (abbr : Bytes) : Bytes :=
  [0x63,0x68,0x61,0x72,0x61,0x2f,0x65,0x71,0x75,0x69,0x70,0x6d,0x65,0x6e,0x74,0x2f,0x65] ++ fmt04 id ++
  [0x2f,0x6d,0x6f,0x64,0x65,0x6c,0x2f] ++ equipmentFile id code abbr

/-- Rust `str::parse::<i32>()` restricted to what can occur in positions 6..10: optional sign is
not modelled — a leading `+`/`-` cannot be produced by `{:04}` of a non-negative id. -/
def parseDigits (bs : Bytes) : Option Nat :=
  if bs.isEmpty then none else
  bs.foldl (fun acc b => match acc with
    | none => none
    | some v => if 48 ≤ b.toNat ∧ b.toNat ≤ 57 then some (v * 10 + (b.toNat - 48)) else none) (some 0)

/-- `deconstruct_equipment_path`: bytes 6..10 are the id, bytes 11..14 the slot -/
def deconstruct (file : Bytes) : Option (Nat × Nat) :=
  if file.length < 14 then none   -- (the Rust slice would panic: C18's concern)
  else
    match parseDigits ((file.drop 6).take 4), slotFromAbbrev ((file.drop 11).take 3) with
    | some id, some s => some (id, s)
    | _, _ => none

/-- `get_character_category_path / _abbreviation / _prefix` (Body=0, Hair, Face, Tail, Ear) -/
def charCategory : Nat → Option (Bytes × Bytes × Bytes)
  | 0 => some ([0x62,0x6f,0x64,0x79], [0x74,0x6f,0x70], [0x62])        -- body top b
  | 1 => some ([0x68,0x61,0x69,0x72], [0x68,0x69,0x72], [0x68])        -- hair hir h
  | 2 => some ([0x66,0x61,0x63,0x65], [0x66,0x61,0x63], [0x66])        -- face fac f
  | 3 => some ([0x74,0x61,0x69,0x6c], [0x74,0x69,0x6c], [0x74])        -- tail til t
  | 4 => some ([0x7a,0x65,0x61,0x72], [0x7a,0x65,0x72], [0x7a])        -- zear zer z
  | _ => none

/-- `build_character_path` -/
def characterPath (cat : Bytes × Bytes × Bytes) (ver code : Nat) : Bytes :=
  let (path, abbr, prefix_) := cat
  [0x63,0x68,0x61,0x72,0x61,0x2f,0x68,0x75,0x6d,0x61,0x6e,0x2f,0x63] ++ fmt04 code ++
  [0x2f,0x6f,0x62,0x6a,0x2f] ++ path ++ [0x2f] ++ prefix_ ++ fmt04 ver ++
  [0x2f,0x6d,0x6f,0x64,0x65,0x6c,0x2f,0x63] ++ fmt04 code ++ prefix_ ++ fmt04 ver ++ [0x5f] ++ abbr ++
  [0x2e,0x6d,0x64,0x6c]

/-- `build_skeleton_path`: `chara/human/c{0:04}/skeleton/base/b0001/skl_c{0:04}b0001.sklb` -/
def skeletonPath (code : Nat) : Bytes :=
  [0x63,0x68,0x61,0x72,0x61,0x2f,0x68,0x75,0x6d,0x61,0x6e,0x2f,0x63] ++ fmt04 code ++
  [0x2f,0x73,0x6b,0x65,0x6c,0x65,0x74,0x6f,0x6e,0x2f,0x62,0x61,0x73,0x65,0x2f,0x62,0x30,0x30,0x30,0x31,
   0x2f,0x73,0x6b,0x6c,0x5f,0x63] ++ fmt04 code ++
  [0x62,0x30,0x30,0x30,0x31,0x2e,0x73,0x6b,0x6c,0x62]

/-! ### repository.rs / common.rs -/

/-- `get_platform_string` (Win32=0, PS3, PS4, PS5, Xbox) -/
def platformString : Nat → Option Bytes
  | 0 => some [0x77,0x69,0x6e,0x33,0x32]  -- win32
  | 1 => some [0x70,0x73,0x33]            -- ps3
  | 2 => some [0x70,0x73,0x34]            -- ps4
  | 3 => some [0x70,0x73,0x35]            -- ps5
  | 4 => some [0x6c,0x79,0x73]            -- lys
  | _ => none

/-- `Repository::index_filename`: `{category:02x}{expansion:02}{chunk:02}.{platform}.index` -/
def indexFilename (cat ex chunk : Nat) (plat : Bytes) : Bytes :=
  fmt02x cat ++ fmt02 ex ++ fmt02 chunk ++ [0x2e] ++ plat ++ [0x2e,0x69,0x6e,0x64,0x65,0x78]

def index2Filename (cat ex chunk : Nat) (plat : Bytes) : Bytes :=
  indexFilename cat ex chunk plat ++ [0x32]

/-- `Repository::dat_filename` -/
def datFilename (cat ex chunk : Nat) (plat : Bytes) (dat : Nat) : Bytes :=
  fmt02x cat ++ fmt02 ex ++ fmt02 chunk ++ [0x2e] ++ plat ++ [0x2e,0x64,0x61,0x74] ++ decimal dat

/-- repository folder name: `ffxiv` / `ex{n}` -/
def repoName (ex : Nat) : Bytes :=
  if ex = 0 then [0x66,0x66,0x78,0x69,0x76] else [0x65,0x78] ++ decimal ex

/-! ### patch.rs naming closures -/

/-- `get_dat_path` file name: `{main:02x}{sub:04x}.{platform}.dat{file}` -/
def patchDatFilename (main sub : Nat) (plat : Bytes) (file : Nat) : Bytes :=
  fmt02x main ++ fmt04x sub ++ [0x2e] ++ plat ++ [0x2e,0x64,0x61,0x74] ++ decimal file

/-- `get_index_path` file name: `.index` then the file id unless it is 0 -/
def patchIndexFilename (main sub : Nat) (plat : Bytes) (file : Nat) : Bytes :=
  fmt02x main ++ fmt04x sub ++ [0x2e] ++ plat ++ [0x2e,0x69,0x6e,0x64,0x65,0x78] ++
  (if file ≠ 0 then decimal file else [])

/-- `get_expansion_folder_sub` -/
def patchFolder (sub : Nat) : Bytes := repoName (sub / 256)

/-! ### `Ord for Repository` -/

/-- a repository as far as ordering is concerned: `none` = Base, `some n` = Expansion n -/
abbrev Repo := Option Nat

/-- `Repository::cmp` -/
def repoCmp (a b : Repo) : Ordering :=
  match a with
  | none => .lt
  | some n =>
    match b with
    | none => .gt
    | some m => compare n m

end Physis.Paths
