import PhysisModel.Base.Str
/-!
Model of `src/repository.rs` and the platform strings of `src/common.rs`: repository discovery
from a directory name, the `Ord` instance, `string_to_category`, and the file-name builders.
`Vec::sort` is modelled by a stable insertion sort with the code's comparator.
-/
namespace Physis.Repository
open Physis Physis.Str

inductive Platform | win32 | ps3 | ps4 | ps5 | xbox
deriving DecidableEq, Repr

/-- `get_platform_string` -/
def platformString : Platform → Bytes
  | .win32 => [119,105,110,51,50]   -- "win32"
  | .ps3 => [112,115,51]            -- "ps3"
  | .ps4 => [112,115,52]            -- "ps4"
  | .ps5 => [112,115,53]            -- "ps5"
  | .xbox => [108,121,115]          -- "lys"

inductive RepositoryType
  | base
  | expansion (number : Nat)   -- i32 in the code; always parsed from one decimal digit
deriving DecidableEq, Repr

structure Repository where
  name : Bytes
  platform : Platform
  repoType : RepositoryType
deriving DecidableEq, Repr

/-- `impl Ord for Repository` -/
def cmp (a b : Repository) : Ordering :=
  match a.repoType with
  | .base => .lt
  | .expansion superNumber =>
    match b.repoType with
    | .base => .gt
    | .expansion number => compare superNumber number

/-- insert into a sorted list after every element that is not greater (stable) -/
def insertSorted (r : Repository) : List Repository → List Repository
  | [] => [r]
  | x :: xs => if cmp r x == .lt then r :: x :: xs else x :: insertSorted r xs

/-- `Vec::sort` (stable): elements are inserted back to front -/
def sort : List Repository → List Repository
  | [] => []
  | x :: xs => insertSorted x (sort xs)

/-- `string_to_category` followed by the `category as i32` cast every caller applies -/
def stringToCategory (s : Bytes) : Option Nat :=
  if s = [99,111,109,109,111,110] then some 0x00                          -- "common"
  else if s = [98,103,99,111,109,109,111,110] then some 0x01              -- "bgcommon"
  else if s = [98,103] then some 0x02                                     -- "bg"
  else if s = [99,117,116] then some 0x03                                 -- "cut"
  else if s = [99,104,97,114,97] then some 0x04                           -- "chara"
  else if s = [115,104,97,100,101,114] then some 0x05                     -- "shader"
  else if s = [117,105] then some 0x06                                    -- "ui"
  else if s = [115,111,117,110,100] then some 0x07                        -- "sound"
  else if s = [118,102,120] then some 0x08                                -- "vfx"
  else if s = [117,105,95,115,99,114,105,112,116] then some 0x09          -- "ui_script"
  else if s = [101,120,100] then some 0x0A                                -- "exd"
  else if s = [103,97,109,101,95,115,99,114,105,112,116] then some 0x0B   -- "game_script"
  else if s = [109,117,115,105,99] then some 0x0C                         -- "music"
  else if s = [115,113,112,97,99,107,95,116,101,115,116] then some 0x12   -- "sqpack_test"
  else if s = [100,101,98,117,103] then some 0x13                         -- "debug"
  else none

/-- `Path::file_stem` of a single normal component -/
def fileStem (name : Bytes) : Bytes :=
  match rsplitOnce 46 name with
  | none => name
  | some (before, _after) => if before = [] then name else before

/-- `Repository::from_existing_base` (the game directory exists) -/
def fromExistingBase (platform : Platform) : Repository :=
  { name := [102,102,120,105,118], platform := platform, repoType := .base }

/-- `Repository::from_existing_expansion` on an existing directory `<game>/sqpack/<dirName>`.
Outer `none` = panic (`name[2..3]` on a name shorter than 3), inner `none` = `None`. -/
def fromExistingExpansion (platform : Platform) (dirName : Bytes) : Option (Option Repository) :=
  let name := fileStem dirName
  match name with
  | _ :: _ :: c :: _ =>
    -- `name[2..3].parse::<i32>()` succeeds exactly on one ASCII digit
    if 48 ≤ c ∧ c ≤ 57 then
      some (some { name := name, platform := platform, repoType := .expansion (c.toNat - 48) })
    else some none
  | _ => none

def expansion (r : Repository) : Nat :=
  match r.repoType with
  | .base => 0
  | .expansion number => number

/-- `index_filename`: `"{:02x}{:02}{:02}.{}.index"` -/
def indexFilename (r : Repository) (chunk : UInt8) (category : Nat) : Bytes :=
  hex2 category ++ dec2 (expansion r) ++ dec2 chunk.toNat ++ [46] ++ platformString r.platform ++
    [46,105,110,100,101,120]

/-- `index2_filename` -/
def index2Filename (r : Repository) (chunk : UInt8) (category : Nat) : Bytes :=
  indexFilename r chunk category ++ [50]

/-- `dat_filename`: `"{:02x}{expansion:02}{chunk:02}.{platform}.dat{data_file_id}"` -/
def datFilename (r : Repository) (chunk : UInt8) (category : Nat) (dataFileId : UInt32) : Bytes :=
  hex2 category ++ dec2 (expansion r) ++ dec2 chunk.toNat ++ [46] ++ platformString r.platform ++
    [46,100,97,116] ++ dec dataFileId.toNat

end Physis.Repository
