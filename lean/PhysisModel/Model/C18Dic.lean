import PhysisModel.Base.ParserA
/-!
# `Dictionary::from_existing` (`src/dic.rs`, with the bounds checks of `fixes/C18-67`) — the node
walk, for the input class of the recorded finding `dic.walk-unbounded`

`from_existing` reads the header at 0x8124, five tables (`begin_node`, `inner_node`, `chara`, `word`:
u16; `entries`: 4×u32) and then walks the trie with the recursive `dump_dict_node`:

```
fn dump_dict_node(&self, vec, entry_id, prev) {
    let Some(node) = self.header.entries.get(entry_id) else { return };
    for i in 0..node.sibling {
        let Some(current) = self.get_string(entry_id, i) else { return };
        if node.child == 0 { vec.push(prev + current); continue; }
        let Some(value) = node.child.checked_add(i).and_then(|x| inner_node.get(x)) else { return };
        if value == 0 { vec.push(prev + current); continue; }
        self.dump_dict_node(vec, value, prev + current);           // no depth or visited check
    }
}
```
Nothing bounds the recursion depth (a node that reaches itself overflows the stack), and for a word
entry (`flag != 0`) `get_string` ignores the sibling index, so `sibling` = 2^32-1 pushes the same
word four billion times.  (The index / overflow panics of the pinned commit are repaired by
`fixes/C18-67`: out-of-range node, child, character and word indices end the node.)

This file is **not** a fault model of the reader (no theorem is stated about `dic`); it replays the
walk on the parsed tables as an explicit-stack machine and decides the class

  `walkUnbounded b`  :=  the walk reaches a recursion depth above `maxDepth` = 200 or makes more
                         than `maxSteps` = 100 000 loop iterations.

Cases in the class are tagged `kf:dic.walk-unbounded` by the driver (`abort:SIGABRT` from the stack
overflow, `timeout`, or an allocation out of proportion are expected there).
-/
namespace Physis.C18Dic
open Physis Physis.A

def maxDepth : Nat := 200
def maxSteps : Nat := 100000

structure Entry where
  flag : Nat
  sibling : Nat
  child : Nat
  offset : Nat
  deriving Repr, Inhabited

structure Tables where
  beginNode : Array Nat
  innerNode : Array Nat
  chara : Array Nat
  word : Array Nat
  entries : Array Entry
  deriving Inhabited

def u16At (a : ByteArray) (i : Nat) : Nat := (a.get! i).toNat + 256 * (a.get! (i + 1)).toNat
def u32At (a : ByteArray) (i : Nat) : Nat := u16At a i + 65536 * u16At a (i + 2)

/-- the table `k` (offset field at `0x8724 + 4k`, length field at `0x8738 + 4k`): `none` when the
Rust loop returns `None` (u32 overflow of the offset, a read past the end) -/
def table (a : ByteArray) (k elem : Nat) : Option (Nat × Nat) :=
  let off := u32At a (0x8724 + 4 * k) + 0x8750 + 0x200
  let n := u32At a (0x8738 + 4 * k) / elem
  if off > U32MAX then none
  else if n = 0 then some (off, 0)
  else if off + (n - 1) * elem > U32MAX then none
  else if off + n * elem > a.size then none
  else some (off, n)

def parse (b : Bytes) : Option Tables :=
  let a := ByteArray.mk b.toArray
  -- the binrw header ends at 0x8B50
  if a.size < 0x8B50 then none else do
  let (o0, n0) ← table a 0 2
  let (o1, n1) ← table a 1 2
  let (o2, n2) ← table a 2 2
  let (o3, n3) ← table a 3 2
  let (o4, n4) ← table a 4 16
  let u16t := fun (o n : Nat) => Array.ofFn (n := n) (fun i => u16At a (o + 2 * i.val))
  some {
    beginNode := u16t o0 n0, innerNode := u16t o1 n1, chara := u16t o2 n2, word := u16t o3 n3,
    entries := Array.ofFn (n := n4) (fun i =>
      let p := o4 + 16 * i.val
      { flag := u32At a p, sibling := u32At a (p + 4), child := u32At a (p + 8), offset := u32At a (p + 12) }) }

/-- `String::from_utf16` accepts: no unpaired surrogate -/
def utf16Valid : List Nat → Bool
  | [] => true
  | u :: r =>
    if 0xD800 ≤ u && u ≤ 0xDBFF then
      match r with
      | v :: r' => (0xDC00 ≤ v && v ≤ 0xDFFF) && utf16Valid r'
      | [] => false
    else if 0xDC00 ≤ u && u ≤ 0xDFFF then false
    else utf16Valid r

inductive Str
  | some    -- `Some(string)`
  | none    -- `None`: the caller returns

/-- end of the zero-terminated word that starts at `begin` (scan from `begin + 1`) -/
def wordEnd (word : Array Nat) : Nat → Nat → Nat
  | 0, e => e
  | f + 1, e => if e < word.size && word[e]! != 0 then wordEnd word f (e + 1) else e

def getString (t : Tables) (e : Entry) (i : Nat) : Str :=
  if e.flag == 0 then
    let pos := e.offset / 2 + i
    if pos ≥ t.chara.size then .none
    else if t.chara[pos]! == 0 then .none
    else if utf16Valid [t.chara[pos]!] then .some else .none
  else
    let b := e.offset / 2
    let en := wordEnd t.word t.word.size (b + 1)
    if en > t.word.size then .none   -- `word.get(begin..end)?`
    else if utf16Valid ((t.word.extract b en).toList) then .some else .none

inductive Walk
  | finished (fuel : Nat)   -- the walk returned
  | unbounded               -- depth or step limit exceeded

/-- the recursion of `dump_dict_node` with an explicit stack of (entry id, next sibling index) -/
def walk (t : Tables) : Nat → List (Nat × Nat) → Walk
  | 0, _ => .unbounded
  | fuel + 1, [] => .finished (fuel + 1)
  | fuel + 1, (id, i) :: rest =>
    if rest.length ≥ maxDepth then .unbounded else
    match t.entries[id]? with
    | none => walk t fuel rest
    | some e =>
      if i ≥ e.sibling then walk t fuel rest
      else
        match getString t e i with
        | .none => walk t fuel rest
        | .some =>
          if e.child == 0 then walk t fuel ((id, i + 1) :: rest)
          else if e.child + i > U32MAX then walk t fuel rest
          else
            match t.innerNode[e.child + i]? with
            | none => walk t fuel rest
            | some v =>
              if v == 0 then walk t fuel ((id, i + 1) :: rest)
              else walk t fuel ((v, 0) :: (id, i + 1) :: rest)

/-- `list_words`: every non-zero begin node in order -/
def walkAll (t : Tables) : List Nat → Nat → Bool
  | [], _ => false
  | v :: r, fuel =>
    if v == 0 then walkAll t r fuel
    else
      match walk t fuel [(v, 0)] with
      | .finished f => walkAll t r f
      | .unbounded => true

def walkUnbounded (b : Bytes) : Bool :=
  match parse b with
  | none => false
  | some t => walkAll t t.beginNode.toList maxSteps

end Physis.C18Dic
