import PhysisModel.Base.Bytes
/-!
Model of `src/race.rs`: `get_supported_tribes`, `get_race_id`.  Races, tribes and genders are
their `repr(u8)` discriminants (`Race::Hyur = 1 … Viera = 8`, `Tribe::Midlander = 1 … Veena = 16`,
`Gender::Male = 0, Female = 1`), as in `Generated/RaceTable.lean`.
-/
namespace Physis.Race

/-- `get_supported_tribes` (for the 8 race discriminants; anything else is not a `Race`) -/
def supportedTribes (race : Nat) : Option (Nat × Nat) :=
  match race with
  | 1 => some (1, 2)      -- Hyur: Midlander, Highlander
  | 2 => some (3, 4)      -- Elezen: Wildwood, Duskwight
  | 3 => some (5, 6)      -- Lalafell: Plainsfolk, Dunesfolk
  | 4 => some (7, 8)      -- Miqote: Seeker, Keeper
  | 5 => some (9, 10)     -- Roegadyn: SeaWolf, Hellsguard
  | 6 => some (11, 12)    -- AuRa: Raen, Xaela
  | 7 => some (13, 14)    -- Hrothgar: Hellion, Lost
  | 8 => some (15, 16)    -- Viera: Rava, Veena
  | _ => none

def genderPick (gender male female : Nat) : Option Nat :=
  match gender with
  | 0 => some male
  | 1 => some female
  | _ => none

/-- `get_race_id` -/
def raceId (race tribe gender : Nat) : Option Nat :=
  match supportedTribes race with
  | none => none
  | some (a, b) =>
    if tribe ≠ a ∧ tribe ≠ b then none else
    match race with
    | 1 => (match tribe with
            | 1 => genderPick gender 101 201
            | 2 => genderPick gender 301 401
            | _ => none)
    | 2 => genderPick gender 501 601
    | 3 => genderPick gender 1101 1201
    | 4 => genderPick gender 701 801
    | 5 => genderPick gender 901 1001
    | 6 => genderPick gender 1301 1401
    | 7 => genderPick gender 1501 1601
    | 8 => genderPick gender 1701 1801
    | _ => none

end Physis.Race
