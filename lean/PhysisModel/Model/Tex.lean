import PhysisModel.Model.Bcn
/-!
Model of `src/tex.rs`: `TexHeader` (80 bytes, little endian), `Texture::from_existing`,
`Texture::decode`.

`Except.error .panic` = the Rust code panics; `.ok none` = it returns `None`.
Mirrors the code with the fix "Texture::from_existing checks the payload length before allocating
and decoding": a payload shorter than the header's dimensions need is `None` (it was an index panic /
an `unwrap` of the block decoder's `Err`).
`TextureAttribute` is a bitflags-1.x struct read by binrw as a plain `u32` (unknown bits are kept);
`TextureFormat` is `#[brw(repr = u32)]`: any other value is a parse error (→ `None`).
-/
namespace Physis.Tex
open Physis.Bcn

inductive TextureFormat | B4G4R4A4 | B8G8R8A8 | BC1 | BC3 | BC5
  deriving DecidableEq, Repr

def TextureFormat.ofU32 (v : UInt32) : Option TextureFormat :=
  if v = 0x1440 then some .B4G4R4A4
  else if v = 0x1450 then some .B8G8R8A8
  else if v = 0x3420 then some .BC1
  else if v = 0x3431 then some .BC3
  else if v = 0x6230 then some .BC5
  else none

structure TexHeader where
  attrs : UInt32
  format : TextureFormat
  width : UInt16
  height : UInt16
  depth : UInt16
  mipLevels : UInt16
  lodOffsets : List UInt32        -- [u32; 3]
  offsetToSurface : List UInt32   -- [u32; 13]
  deriving DecidableEq, Repr

def u16le (a b : UInt8) : UInt16 := a.toUInt16 ||| (b.toUInt16 <<< 8)
def u32le (a b c d : UInt8) : UInt32 :=
  a.toUInt32 ||| (b.toUInt32 <<< 8) ||| (c.toUInt32 <<< 16) ||| (d.toUInt32 <<< 24)

/-- `count` little-endian `u32`s; `none` = unexpected end of input -/
def readU32s : Nat → Bytes → Option (List UInt32 × Bytes)
  | 0, bs => some ([], bs)
  | n + 1, a :: b :: c :: d :: bs =>
    match readU32s n bs with
    | some (vs, r) => some (u32le a b c d :: vs, r)
    | none => none
  | _ + 1, _ => none

/-- `TexHeader::read(&mut cursor)` : fields in declaration order; returns the header and the rest -/
def readHeader (buffer : Bytes) : Option (TexHeader × Bytes) :=
  match buffer with
  | a0 :: a1 :: a2 :: a3 :: f0 :: f1 :: f2 :: f3 :: w0 :: w1 :: h0 :: h1 :: d0 :: d1 :: m0 :: m1 :: rest =>
    match TextureFormat.ofU32 (u32le f0 f1 f2 f3) with
    | none => none
    | some fmt =>
      match readU32s 3 rest with
      | none => none
      | some (lods, rest) =>
        match readU32s 13 rest with
        | none => none
        | some (surf, rest) =>
          some (⟨u32le a0 a1 a2 a3, fmt, u16le w0 w1, u16le h0 h1, u16le d0 d1, u16le m0 m1, lods, surf⟩, rest)
  | _ => none

inductive TextureType | TwoDimensional | ThreeDimensional
  deriving DecidableEq, Repr

structure Texture where
  textureType : TextureType
  width : UInt32
  height : UInt32
  depth : UInt32
  rgba : Bytes
  deriving DecidableEq, Repr

def TEXTURE_TYPE3_D : UInt32 := 0x1000000

/-- `x.to_le_bytes()` then `[v[2], v[1], v[0], v[3]]` -/
def shuffle (x : UInt32) : Bytes :=
  [(x >>> 16).toUInt8, (x >>> 8).toUInt8, x.toUInt8, (x >>> 24).toUInt8]

/-- `Texture::decode(src, width, height, block_size, decode_func)`: the payload must hold every
4x4 block (`None` otherwise, before the image is allocated); `decode_func(..).ok()?` turns the two
`Err` results of the block decoder into `None`.  The `checked_mul`s cannot overflow a 64-bit `usize`
(`width`, `height / depth` come from `u16` header fields), so they are `Nat` products. -/
def decode (src : Bytes) (width height blockSize : Nat)
    (decodeFunc : Bytes → Nat → Nat → Array UInt32 → Except Err (Array UInt32)) : Except Err (Option Bytes) :=
  let blocks := (width + 4 - 1) / 4 * ((height + 4 - 1) / 4)     -- `div_ceil(4)`
  if src.length < blocks * blockSize then .ok none else
  let image : Array UInt32 := Array.replicate (width * height) 0
  match decodeFunc src width height image with
  | .error .panic => .error .panic
  | .error _ => .ok none                           -- `.ok()?`
  | .ok image => .ok (some (image.toList.flatMap shuffle))

/-- the `B8G8R8A8` loop: `n` pixels left, `src` is `src[offset..]`; the output is built in order
(`dst[offset+k]` is written exactly once, at the same offset as the read) -/
def bgraLoop : Nat → Bytes → Except Err Bytes
  | 0, _ => .ok []
  | n + 1, b :: g :: r :: a :: rest =>
    match bgraLoop n rest with
    | .ok out => .ok (r :: g :: b :: a :: out)
    | .error e => .error e
  | _ + 1, _ => .error .panic                      -- `src[offset + k]`

/-- the `B4G4R4A4` loop (outside C13's quantifier; modelled for completeness of the dispatch):
iterates `width*height` pixels only, the remaining `dst` bytes stay 0 -/
def b4g4r4a4Loop : Nat → Bytes → Except Err Bytes
  | 0, _ => .ok []
  | n + 1, hi :: lo :: rest =>
    let short : UInt16 := (hi.toUInt16 <<< 8) ||| lo.toUInt16
    let b := short &&& 0xF
    let g := (short >>> 4) &&& 0xF
    let r := (short >>> 8) &&& 0xF
    let a := (short >>> 12) &&& 0xF
    match b4g4r4a4Loop n rest with
    | .ok out => .ok ((17 * r).toUInt8 :: (17 * g).toUInt8 :: (17 * b).toUInt8 :: (17 * a).toUInt8 :: out)
    | .error e => .error e
  | _ + 1, _ => .error .panic

/-- `Texture::from_existing(buffer)` -/
def fromExisting (buffer : Bytes) : Except Err (Option Texture) :=
  match readHeader buffer with
  | none => .ok none
  | some (header, _) =>
    -- seek to 80, `vec![0; buffer.len() - 80]`, `read_exact`: the header read succeeded, so
    -- `buffer.len() ≥ 80` and `src = buffer[80..]`
    let src := buffer.drop 80
    let w := header.width.toNat
    let h := header.height.toNat
    let d := header.depth.toNat
    let dst : Except Err (Option Bytes) :=
      match header.format with
      | .B4G4R4A4 =>
        let pixels := w * h
        let dstLen := pixels * d * 4
        -- "reject a payload that is too short (or a zero depth) before allocating the output"
        if src.length < dstLen / 2 ∨ src.length < pixels * 2 ∨ dstLen < pixels * 4 then .ok none else
        match b4g4r4a4Loop pixels src with
        | .ok out => .ok (some (out ++ List.replicate (dstLen - out.length) 0))
        | .error e => .error e
      | .B8G8R8A8 =>
        -- "reject a payload that is too short before allocating the output"
        if src.length < w * h * d * 4 then .ok none else
        match bgraLoop (w * h * d) src with
        | .ok out => .ok (some out)
        | .error e => .error e
      | .BC1 => decode src w (h * d) 8 decodeBc1
      | .BC3 => decode src w (h * d) 16 decodeBc3
      | .BC5 => decode src w (h * d) 16 decodeBc5
    match dst with
    | .error e => .error e
    | .ok none => .ok none
    | .ok (some rgba) =>
      .ok (some {
        textureType := if header.attrs &&& TEXTURE_TYPE3_D = TEXTURE_TYPE3_D
                       then .ThreeDimensional else .TwoDimensional
        width := header.width.toUInt32
        height := header.height.toUInt32
        depth := header.depth.toUInt32
        rgba := rgba })

end Physis.Tex
