import PhysisModel.Base.Bytes
/-!
Model of `src/bcn/{color,bc1,bc3,bc5,macros}.rs` (block-compressed texture decoding).

Written to read like the Rust: same integer widths (`u8`/`u16`/`u32`/`usize` = `UInt8/16/32/64`),
same order of operations, the shared 16-pixel buffer that is *reused across blocks*, the row-wise
clipped copy.  A Rust panic (index / slice out of range, `unwrap` on `Err`, `usize` underflow) is
`Except.error .panic`; the two `Err(&str)` results of `block_decoder` are separate error values.

Rendering choices (each is an equivalence, not a simplification of behaviour):
* `&data[data_offset..]` is carried as the remaining byte list `rest` (`data.drop data_offset`);
  `data_offset += N` is `rest.drop N`.  The slice expression itself cannot panic after the
  "Not enough data" check (`data_offset ≤ data.len()` then holds on every iteration).
* a `[u32; 4]` / `[u16; 8]` palette indexed by `d & 3` / `d & 7` is a 4-way / 8-way `if` (`pick4`/`pick8`).
* `usize` products of `u16` header fields cannot overflow on a 64-bit target
  (`65535³·4 < 2⁶⁴`); they are `Nat`.
-/
namespace Physis.Bcn

inductive Err | panic | notEnoughData | imageTooSmall
  deriving DecidableEq, Repr

/-- `color(r,g,b,a) = u32::from_le_bytes([b,g,r,a])` -/
def color (r g b a : UInt8) : UInt32 :=
  b.toUInt32 ||| (g.toUInt32 <<< 8) ||| (r.toUInt32 <<< 16) ||| (a.toUInt32 <<< 24)

/-- `rgb565_le` (little-endian target) -/
def rgb565le (d : UInt16) : UInt8 × UInt8 × UInt8 :=
  ( ((d >>> 8) &&& 0xf8).toUInt8 ||| (d >>> 13).toUInt8,
    ((d >>> 3) &&& 0xfc).toUInt8 ||| ((d >>> 9) &&& 3).toUInt8,
    (d <<< 3).toUInt8 ||| ((d >>> 2) &&& 7).toUInt8 )

/-- `c[d & 3]` for `c : [u32; 4]` -/
def pick4 (c0 c1 c2 c3 : UInt32) (d : UInt64) : UInt32 :=
  if d &&& 3 = 0 then c0 else if d &&& 3 = 1 then c1 else if d &&& 3 = 2 then c2 else c3

/-- `a[d & 7]` for `a : [u16; 8]` -/
def pick8 (a0 a1 a2 a3 a4 a5 a6 a7 : UInt16) (d : UInt64) : UInt16 :=
  if d &&& 7 = 0 then a0 else if d &&& 7 = 1 then a1 else if d &&& 7 = 2 then a2
  else if d &&& 7 = 3 then a3 else if d &&& 7 = 4 then a4 else if d &&& 7 = 5 then a5
  else if d &&& 7 = 6 then a6 else a7

/-- `(0..16).for_each(|i| { outbuf[i] = c[d & 3]; d >>= 2; })` — `n` iterations left, `out` is
`outbuf[i..]`.  (`outbuf` has 16 entries at every call site; a shorter one is an index panic,
checked by the caller `decodeBc1Block`.) -/
def bc1Fill (c : UInt64 → UInt32) : Nat → UInt64 → List UInt32 → List UInt32
  | 0, _, out => out
  | _ + 1, _, [] => []
  | n + 1, d, _ :: ps => c d :: bc1Fill c n (d >>> 2) ps

/-- the palette `c : [u32; 4]` that `decode_bc1_block` builds from the two endpoints -/
def bc1Palette (q0 q1 : UInt16) : UInt32 × UInt32 × UInt32 × UInt32 :=
  let (r0, g0, b0) := rgb565le q0
  let (r1, g1, b1) := rgb565le q1
  let c0 := color r0 g0 b0 255
  let c1 := color r1 g1 b1 255
  -- "C insanity": the channels are widened to u16 for the interpolation
  let r0 := r0.toUInt16; let g0 := g0.toUInt16; let b0 := b0.toUInt16
  let r1 := r1.toUInt16; let g1 := g1.toUInt16; let b1 := b1.toUInt16
  if q0 > q1 then
    (c0, c1,
     color ((r0 * 2 + r1) / 3).toUInt8 ((g0 * 2 + g1) / 3).toUInt8 ((b0 * 2 + b1) / 3).toUInt8 255,
     color ((r0 + r1 * 2) / 3).toUInt8 ((g0 + g1 * 2) / 3).toUInt8 ((b0 + b1 * 2) / 3).toUInt8 255)
  else
    (c0, c1,
     color ((r0 + r1) / 2).toUInt8 ((g0 + g1) / 2).toUInt8 ((b0 + b1) / 2).toUInt8 255,
     color 0 0 0 255)

/-- `decode_bc1_block(data, outbuf)` -/
def decodeBc1Block (data : Bytes) (outbuf : List UInt32) : Except Err (List UInt32) :=
  match data with
  | d0 :: d1 :: d2 :: d3 :: d4 :: d5 :: d6 :: d7 :: _ =>
    let q0 : UInt16 := d0.toUInt16 ||| (d1.toUInt16 <<< 8)
    let q1 : UInt16 := d2.toUInt16 ||| (d3.toUInt16 <<< 8)
    let c := bc1Palette q0 q1
    let d : UInt64 :=
      (d4.toUInt32 ||| (d5.toUInt32 <<< 8) ||| (d6.toUInt32 <<< 16) ||| (d7.toUInt32 <<< 24)).toUInt64
    if outbuf.length < 16 then .error .panic   -- `outbuf[i]`, i < 16
    else .ok (bc1Fill (pick4 c.1 c.2.1 c.2.2.1 c.2.2.2) 16 d outbuf)
  | _ => .error .panic                          -- `data[k]`, k < 8

/-- `outbuf.iter_mut().for_each(|p| { *p = (*p & mask) | ((a[d & 7] as u32) << shift); d >>= 3; })` -/
def alphaFill (a : UInt64 → UInt16) (mask shift : UInt32) : UInt64 → List UInt32 → List UInt32
  | _, [] => []
  | d, p :: ps => ((p &&& mask) ||| ((a d).toUInt32 <<< shift)) :: alphaFill a mask shift (d >>> 3) ps

/-- the palette `a : [u16; 8]` of `decode_bc3_alpha`, indexed by `d & 7` -/
def bc3AlphaPalette (a0 a1 : UInt16) : UInt64 → UInt16 :=
  if a0 > a1 then
    pick8 a0 a1 ((a0 * 6 + a1) / 7) ((a0 * 5 + a1 * 2) / 7) ((a0 * 4 + a1 * 3) / 7)
      ((a0 * 3 + a1 * 4) / 7) ((a0 * 2 + a1 * 5) / 7) ((a0 + a1 * 6) / 7)
  else
    pick8 a0 a1 ((a0 * 4 + a1) / 5) ((a0 * 3 + a1 * 2) / 5) ((a0 * 2 + a1 * 3) / 5)
      ((a0 + a1 * 4) / 5) 0 255

/-- `decode_bc3_alpha(data, outbuf, channel)` (`channel` ∈ {1,2,3} at the call sites) -/
def decodeBc3Alpha (data : Bytes) (outbuf : List UInt32) (channel : UInt32) : Except Err (List UInt32) :=
  match data with
  | d0 :: d1 :: d2 :: d3 :: d4 :: d5 :: d6 :: d7 :: _ =>
    let a := bc3AlphaPalette d0.toUInt16 d1.toUInt16
    let d : UInt64 :=
      (d0.toUInt64 ||| (d1.toUInt64 <<< 8) ||| (d2.toUInt64 <<< 16) ||| (d3.toUInt64 <<< 24) |||
       (d4.toUInt64 <<< 32) ||| (d5.toUInt64 <<< 40) ||| (d6.toUInt64 <<< 48) ||| (d7.toUInt64 <<< 56)) >>> 16
    let channelShift : UInt32 := channel * 8
    let channelMask : UInt32 := (0xFFFFFFFF : UInt32) ^^^ ((0xFF : UInt32) <<< channelShift)
    .ok (alphaFill a channelMask channelShift d outbuf)
  | _ => .error .panic                          -- `data[..8]`

/-- `decode_bc3_block` : colour block at `data[8..]`, then alpha into channel 3 -/
def decodeBc3Block (data : Bytes) (outbuf : List UInt32) : Except Err (List UInt32) :=
  if data.length < 8 then .error .panic else     -- `&data[8..]`
  match decodeBc1Block (data.drop 8) outbuf with
  | .ok out => decodeBc3Alpha data out 3
  | .error e => .error e

/-- `decode_bc5_block` : first alpha block into channel 2 (red), second into channel 1 (green) -/
def decodeBc5Block (data : Bytes) (outbuf : List UInt32) : Except Err (List UInt32) :=
  match decodeBc3Alpha data outbuf 2 with
  | .ok out => if data.length < 8 then .error .panic else decodeBc3Alpha (data.drop 8) out 1
  | .error e => .error e

/-- `image[off..off+src.len()].copy_from_slice(src)` once the range check has passed -/
def copyFromSlice (image : Array UInt32) (off : Nat) : List UInt32 → Array UInt32
  | [] => image
  | v :: vs => copyFromSlice (image.setIfInBounds off v) (off + 1) vs

/-- the row loop of `copy_block_buffer`: `n` rows left, current row `y`, `buffer_offset = bo` -/
def copyRows (w x cw bw : Nat) (buffer : List UInt32) :
    Nat → Nat → Nat → Array UInt32 → Except Err (Array UInt32)
  | 0, _, _, image => .ok image
  | n + 1, y, bo, image =>
    let imageOffset := y * w + x
    if imageOffset + cw > image.size then .error .panic        -- `image[off..off+cw]`
    else if bo + cw > buffer.length then .error .panic         -- `buffer[bo..bo+cw]`
    else copyRows w x cw bw buffer n (y + 1) (bo + bw)
           (copyFromSlice image imageOffset ((buffer.drop bo).take cw))

/-- `copy_block_buffer(bx, by, w, h, bw, bh, buffer, image)` -/
def copyBlockBuffer (bx by_ w h bw bh : Nat) (buffer : List UInt32) (image : Array UInt32) :
    Except Err (Array UInt32) :=
  let x := bw * bx
  if bw * (bx + 1) > w ∧ w < bw * bx then .error .panic else    -- `w - bw * bx` underflow
  let copyWidth := if bw * (bx + 1) > w then w - bw * bx else bw
  let y0 := by_ * bh
  if bh * (by_ + 1) > h ∧ h < y0 then .error .panic else        -- `h - y_0` underflow
  let copyHeight := if bh * (by_ + 1) > h then h - y0 else bh
  copyRows w x copyWidth bw buffer copyHeight y0 0 image

/-- loop state of `block_decoder`: the shared block buffer, the image, `&data[data_offset..]` -/
structure St where
  buffer : List UInt32
  image : Array UInt32
  rest : Bytes

/-- body of the inner closure of `block_decoder` -/
def blockStep (rawBlockSize : Nat) (blockFn : Bytes → List UInt32 → Except Err (List UInt32))
    (w h by_ : Nat) (st : St) (bx : Nat) : Except Err St :=
  match blockFn st.rest st.buffer with
  | .error e => .error e
  | .ok buffer =>
    match copyBlockBuffer bx by_ w h 4 4 buffer st.image with
    | .error e => .error e
    | .ok image => .ok ⟨buffer, image, st.rest.drop rawBlockSize⟩

/-- `for i in 0..n` over a fallible body (`List.foldlM` spelled out so that it unfolds in proofs) -/
def forRange (f : St → Nat → Except Err St) : Nat → Nat → St → Except Err St
  | 0, _, st => .ok st
  | n + 1, i, st =>
    match f st i with
    | .error e => .error e
    | .ok st' => forRange f n (i + 1) st'

/-- the function generated by `block_decoder!(name, 4, 4, rawBlockSize, blockFn)` -/
def blockDecoder (rawBlockSize : Nat) (blockFn : Bytes → List UInt32 → Except Err (List UInt32))
    (data : Bytes) (width height : Nat) (image : Array UInt32) : Except Err (Array UInt32) :=
  let numBlocksX := (width + 4 - 1) / 4
  let numBlocksY := (height + 4 - 1) / 4
  let buffer : List UInt32 := List.replicate 16 (color 0 0 0 255)
  if data.length < numBlocksX * numBlocksY * rawBlockSize then .error .notEnoughData
  else if image.size < width * height then .error .imageTooSmall
  else
    match forRange (fun st by_ => forRange (blockStep rawBlockSize blockFn width height by_) numBlocksX 0 st)
        numBlocksY 0 ⟨buffer, image, data⟩ with
    | .error e => .error e
    | .ok st => .ok st.image

def decodeBc1 := blockDecoder 8 decodeBc1Block
def decodeBc3 := blockDecoder 16 decodeBc3Block
def decodeBc5 := blockDecoder 16 decodeBc5Block

end Physis.Bcn
