import PhysisModel.Model.Repository
import PhysisModel.Model.Index
/-!
Model of `src/gamedata.rs`: `from_existing` / `reload_repositories`, `parse_repository_category`,
`get_index_filenames`, the per-handle cache `index_files` with `cache_index_file`, `find_entry`,
and the three query entry points `exists`, `find_offset`, `extract` (up to the point where the
dat file is opened and `read_from_offset(entry.offset)` is called — the rest is C02's model).

The file system is a parameter `disk : dir → file → Option content` for the files below
`<game>/sqpack/<dir>/`; a cache key is the pair (dir, file) (the code joins them into one path
string, which is injective for names without `/`).  The model mirrors the code **with fixes
C01-01..03 applied**.
-/
namespace Physis.GameData
open Physis Physis.Str Physis.Repository Physis.Index

abbrev Disk := Bytes → Bytes → Option Bytes
abbrev Key := Bytes × Bytes

structure GameData where
  repositories : List Repository
  indexFiles : List (Key × SqPackIndex)
deriving Repr

/-- the `for repository_path in repository_paths` loop; `none` = panic inside
`from_existing_expansion` -/
def discover (platform : Platform) : List Bytes → Option (List Repository)
  | [] => some []
  | d :: ds =>
    match fromExistingExpansion platform d with
    | none => none
    | some r? =>
      match discover platform ds with
      | none => none
      | some rs => some (match r? with | some r => r :: rs | none => rs)

/-- `GameData::from_existing` on an existing game directory whose `sqpack` sub-directory lists
the directories `dirs` (in OS order); `none` = panic -/
def fromExisting (platform : Platform) (dirs : List Bytes) : Option GameData :=
  match discover platform dirs with
  | none => none
  | some exps => some { repositories := sort (fromExistingBase platform :: exps), indexFiles := [] }

/-- `parse_repository_category`; outer `none` = panic (`repositories[0]` on an empty list) -/
def parseRepositoryCategory (g : GameData) (path : Bytes) : Option (Option (Repository × Nat)) :=
  match splitOnce slash (lower path) with
  | none => some none
  | some (tok0, tok1) =>
    let repositoryToken := firstToken slash tok1
    match g.repositories.find? (fun r => r.name == repositoryToken) with
    | some repository =>
      some (match stringToCategory tok0 with | some c => some (repository, c) | none => none)
    | none =>
      match g.repositories with
      | [] => none
      | r0 :: _ =>
        some (match stringToCategory tok0 with | some c => some (r0, c) | none => none)

/-- the 510 candidates of `get_index_filenames`, in order -/
def indexFilenamesOf (repository : Repository) (category : Nat) : List (Key × UInt8) :=
  (List.range 255).flatMap (fun chunk =>
    [((repository.name, indexFilename repository chunk.toUInt8 category), chunk.toUInt8),
     ((repository.name, index2Filename repository chunk.toUInt8 category), chunk.toUInt8)])

/-- `get_index_filenames` -/
def getIndexFilenames (g : GameData) (path : Bytes) : Option (Option (List (Key × UInt8))) :=
  match parseRepositoryCategory g path with
  | none => none
  | some none => some none
  | some (some (repository, category)) => some (some (indexFilenamesOf repository category))

/-- `HashMap::get` on the association list -/
def getIndexFile (cache : List (Key × SqPackIndex)) (k : Key) : Option SqPackIndex :=
  cache.lookup k

/-- `cache_index_file` -/
def cacheIndexFile (disk : Disk) (cache : List (Key × SqPackIndex)) (k : Key) : List (Key × SqPackIndex) :=
  if (cache.lookup k).isSome then cache
  else
    -- `SqPackIndex::from_existing`: open + read
    match disk k.1 k.2 with
    | none => cache
    | some content =>
      match Index.parse content with
      | some indexFile => (k, indexFile) :: cache
      | none => cache

inductive Found
  | panic
  | notFound
  | found (entry : IndexEntry) (chunk : UInt8)
deriving DecidableEq, Repr

/-- the loop of `find_entry` -/
def findEntryLoop (disk : Disk) (path : Bytes) :
    List (Key × UInt8) → List (Key × SqPackIndex) → Found × List (Key × SqPackIndex)
  | [], cache => (.notFound, cache)
  | (indexPath, chunk) :: rest, cache =>
    let cache := cacheIndexFile disk cache indexPath
    match getIndexFile cache indexPath with
    | some indexFile =>
      match Index.findEntry indexFile path with
      | none => (.panic, cache)
      | some (some entry) => (.found entry chunk, cache)
      | some none => findEntryLoop disk path rest cache
    | none => findEntryLoop disk path rest cache

/-- `find_entry` -/
def findEntry (disk : Disk) (g : GameData) (path : Bytes) : Found × GameData :=
  match getIndexFilenames g path with
  | none => (.panic, g)
  | some none => (.notFound, g)
  | some (some indexPaths) =>
    let (r, cache) := findEntryLoop disk path indexPaths g.indexFiles
    (r, { g with indexFiles := cache })

inductive Query
  | exists (path : Bytes)
  | findOffset (path : Bytes)
  | extract (path : Bytes)
deriving DecidableEq, Repr

inductive Answer
  | bool (b : Bool)
  | offset (o : Option UInt64)
  /-- `extract`: `none` = returns `None` without opening a dat file; `some ((dir, file), off)` =
  opens that dat file (→ `None` if it does not exist) and returns `read_from_offset(off)` -/
  | dat (l : Option (Key × UInt64))
  | panic
deriving DecidableEq, Repr

/-- `GameData::exists` -/
def existsQ (disk : Disk) (g : GameData) (path : Bytes) : Answer × GameData :=
  match getIndexFilenames g path with
  | none => (.panic, g)
  | some none => (.bool false, g)
  | some (some _) =>
    match findEntry disk g path with
    | (.panic, g) => (.panic, g)
    | (.notFound, g) => (.bool false, g)
    | (.found _ _, g) => (.bool true, g)

/-- `GameData::find_offset` -/
def findOffsetQ (disk : Disk) (g : GameData) (path : Bytes) : Answer × GameData :=
  match findEntry disk g path with
  | (.panic, g) => (.panic, g)
  | (.notFound, g) => (.offset none, g)
  | (.found entry _, g) => (.offset (some entry.offset), g)

/-- `GameData::extract` up to `dat_file.read_from_offset(entry.offset)`; `get_dat_file` unwraps
`parse_repository_category(path)` -/
def extractQ (disk : Disk) (g : GameData) (path : Bytes) : Answer × GameData :=
  match findEntry disk g path with
  | (.panic, g) => (.panic, g)
  | (.notFound, g) => (.dat none, g)
  | (.found entry chunk, g) =>
    match parseRepositoryCategory g path with
    | none => (.panic, g)
    | some none => (.panic, g)
    | some (some (repository, category)) =>
      (.dat (some ((repository.name, datFilename repository chunk category entry.dataFileId.toUInt32),
                   entry.offset)), g)

def step (disk : Disk) (g : GameData) : Query → Answer × GameData
  | .exists p => existsQ disk g p
  | .findOffset p => findOffsetQ disk g p
  | .extract p => extractQ disk g p

/-- run a history of queries on one handle; returns the handle afterwards -/
def run (disk : Disk) (g : GameData) : List Query → GameData
  | [] => g
  | q :: qs => run disk (step disk g q).2 qs

/-- answers of a whole history on one handle -/
def answers (disk : Disk) (g : GameData) : List Query → List Answer
  | [] => []
  | q :: qs => let (a, g) := step disk g q; a :: answers disk g qs

end Physis.GameData
