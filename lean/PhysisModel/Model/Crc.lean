import PhysisModel.Base.Bytes
import PhysisModel.Generated.CrcParams
/-!
Model of `src/crc.rs` (`Jamcrc::new`, `Jamcrc::checksum`, `XivCrc32::from`) and of the hash entry
points in `src/sqpack/index.rs` (`calculate_partial_hash`) / `src/shpk.rs` (`ShaderPackage::crc`).
Written to read like the Rust: a 256-entry table built by 8 shift/xor steps, a table-driven
update, `!(c ^ 0xFFFFFFFF)` at the end.  Constants come from `Generated/CrcParams.lean` (T1).
-/
namespace Physis.Crc
open Physis.Generated

/-- inner `while j < 8` body of `Jamcrc::new` -/
def tableStep (c : UInt32) : UInt32 :=
  if (c &&& 1) == 1 then jamcrcPolynomial ^^^ (c >>> 1) else c >>> 1

def tableEntry (i : UInt32) : UInt32 :=
  tableStep (tableStep (tableStep (tableStep (tableStep (tableStep (tableStep (tableStep i)))))))

/-- `Jamcrc::new().table` -/
def table : Array UInt32 := Array.ofFn (n := 256) (fun i => tableEntry i.val.toUInt32)

def update (c : UInt32) (byte : UInt8) : UInt32 :=
  table[((c ^^^ byte.toUInt32) &&& 0xFF).toNat]! ^^^ (c >>> 8)

/-- `Jamcrc::checksum` -/
def checksum (bytes : Bytes) : UInt32 :=
  let c := bytes.foldl update jamcrcInit
  ~~~(c ^^^ jamcrcFinalXor)

/-- `SqPackIndex::calculate_partial_hash` on ASCII input -/
def partialHash (path : Bytes) : UInt32 := checksum (path.map asciiLower)

/-- `XivCrc32::from(s).crc = !crc32(0xFFFFFFFF, s)`, with zlib's `crc32` as a parameter. -/
def xivCrc (zlibCrc32 : UInt32 → Bytes → UInt32) (s : Bytes) : UInt32 :=
  ~~~(zlibCrc32 xivCrcInit s)

end Physis.Crc
