import PhysisModel.Base.Fault
import PhysisModel.Base.StrF
/-!
# Fault models of `execlookup::extract_frontier_url` (src/execlookup.rs) and
`BootData::from_existing` (src/bootdata.rs)

After `fixes/C17-12-execlookup.patch`: `fs::read(..).ok()?` and `installer_file.get(..)?` instead
of `unwrap` / unchecked indexing.  `guarded := false` is the pinned commit.
A path is modelled by what is there: `none` (missing, or a directory: `fs::read` fails either way)
or the file's bytes.
-/
namespace Physis.F.Exec
open Physis StrF

def utf16be (s : String) : Bytes := s.toList.flatMap (fun c => [0, UInt8.ofNat c.toNat])

/-- UTF-8 of a BMP scalar value (what `String::push(char)` appends) -/
def utf8Of (u : Nat) : Bytes :=
  if u < 0x80 then [UInt8.ofNat u]
  else if u < 0x800 then [UInt8.ofNat (0xC0 + u / 64), UInt8.ofNat (0x80 + u % 64)]
  else [UInt8.ofNat (0xE0 + u / 4096), UInt8.ofNat (0x80 + u / 64 % 64), UInt8.ofNat (0x80 + u % 64)]

/-- `parse_char_at_position`: `none` = past the end (fixed) — at the pinned commit that is an index
panic; `some none` = unpaired surrogate -/
def charAt (guarded : Bool) (file : Bytes) (pos : Nat) : M (Option (Option Nat)) :=
  if guarded then
    match file[pos]?, file[pos + 1]? with
    | some hi, some lo =>
      let u := hi.toNat * 256 + lo.toNat
      pure (some (if 0xD800 ≤ u ∧ u ≤ 0xDFFF then none else some u))
    | _, _ => pure none
  else do
    let hi ← Sl.index file pos
    let lo ← Sl.index file (pos + 1)
    let u := hi.toNat * 256 + lo.toNat
    pure (some (if 0xD800 ≤ u ∧ u ≤ 0xDFFF then none else some u))

/-- the `while` loop: stops at NUL, at a surrogate, or (fixed) at the end of the file -/
def collect (guarded : Bool) (file : Bytes) : Nat → Nat → Bytes → M Bytes
  | 0, _, acc => pure acc
  | fuel + 1, pos, acc => do
    match ← charAt guarded file pos with
    | some (some u) => if u = 0 then pure acc else collect guarded file fuel (pos + 2) (acc ++ utf8Of u)
    | _ => pure acc

def findNeedle (guarded : Bool) (file : Bytes) (needle : String) : M (Option Bytes) :=
  match find (utf16be needle) file with
  | none => pure none
  | some pos => do
    -- at most `|file| / 2` characters can be read; with the guard the loop ends there at the latest
    let s ← collect guarded file (file.length + 1) pos []
    pure (some s)

def extractFrontierUrl (guarded : Bool) (file : Option Bytes) : M Bytes := do
  let file ← if guarded then M.ofOption file else M.unwrap file
  M.alloc file.length
  match ← findNeedle guarded file "https://launcher.finalfantasyxiv.com" with
  | some u => pure u
  | none =>
    match ← findNeedle guarded file "https://frontier.ffxiv.com" with
    | some u => pure u
    | none => M.fail

/-- `BootData::from_existing`: the directory must exist and `ffxivboot.ver` must be readable UTF-8 -/
def bootData (dirExists : Bool) (ver : Option Bytes) : M Bytes :=
  if dirExists then
    match ver with
    | some v => if validUtf8 v then do M.alloc v.length; pure v else M.fail
    | none => M.fail
  else M.fail

end Physis.F.Exec
