import PhysisModel.Base.ParserF
import PhysisModel.Base.StrF
import PhysisModel.Model.Fault.Fiin
import PhysisModel.Model.Fault.Fs
/-!
# Fault model of `ZiPatch::apply` (src/patch.rs) with `read_data_block_patch` (src/sqpack/mod.rs)

Mirrors the code after `fixes/C17-08 … C17-11` and `C17-13`:
* a command before the target-info chunk is `Err(ParseError)` (was `unwrap`);
* `read_data_block_patch` returns `None` → `Err` on a truncated / corrupt block (was `unwrap`,
  sign-extending casts, unchecked subtraction, `vec![0; file_size]`);
* `write_empty_file_block_at` validates `block_number − 1` first (was underflow / `unwrap`);
* byte and string fields with a length from the file are read incrementally (`vecU8Bounded`; was
  binrw's `Vec<u8>` `reserve_exact(count)`), `Vec::with_capacity(file_size)` is gone;
* C17-13: a *compressed* block whose header declares more than `MAX_DECOMPRESSED_BLOCK_SIZE` (1 MiB)
  decompressed bytes is `None` before the output buffer is allocated (`capped := true`; was: allocate
  up to 2 GiB, zero-filled), and the AddFile loop opens the target first and writes every block as
  soon as it is read (`streamBlocks`; was: append every block to one `Vec` and write it at the end —
  `readBlocksAccum`, kept for the witness that the cap alone would not do).

The patch file is the cursor's input; the file system is a pure value (`Fs.FS`), an I/O error is the
ordinary failure.  `inflate` (libz-rs) is a parameter: `inflate compressed n = true` when the raw-deflate stream ends
within `n` output bytes (the result is then the zero-initialised `n`-byte buffer, filled from the
front); only the *length* of block data matters for what `apply` does next, so blocks are
represented by their lengths.
The chunk loop takes fuel `|patch| + 1`; running out is the fault `.fuel`, proved unreachable
(every chunk consumes at least its size field).
-/
namespace Physis.F.Patch
open Physis StrF Fs

inductive FileOp | addFile | removeAll | deleteFile | makeDirTree
  deriving DecidableEq, Repr

/-- what the chunk loop does with a parsed chunk -/
inductive Cmd where
  | addData (main sub : UInt16) (file : UInt32) (offset dataLen deleteLen : Nat)
  | deleteData (main sub : UInt16) (file : UInt32) (offset : Nat) (blockNumber : UInt32)
  | expandData (main sub : UInt16) (file : UInt32) (offset : Nat) (blockNumber : UInt32)
  | headerUpdate (isIndex : Bool) (main sub : UInt16) (file : UInt32)
  | fileOp (op : FileOp) (offset fileSize : UInt64) (expansion : UInt16) (path : Bytes)
  | targetInfo (platform : UInt8)
  | nop
  | eof
  deriving Repr

/-- enum tables regenerated from the compiled code would be overkill here: the discriminants are
read off `common.rs` (`Platform` 0..4, `Region` −1 / 1) and `patch.rs` (`ApplyOption` 1 / 2) and
checked by the correspondence on every value of the field -/
def platformValid (b : UInt8) : Bool := b ≤ 4
def regionValid (v : UInt16) : Bool := v == 0xFFFF || v == 1
def applyOptionValid (v : UInt32) : Bool := v == 1 || v == 2

def ascii (s : String) : Bytes := s.toUTF8.toList

/-- `FileHeaderChunk` with its `pad_before = 2`, `pad_after = 1` -/
def fileHeader : P Cmd := do
  P.skip 2
  let ver ← P.u8
  let raw ← P.vecU8 4
  let _name ← readString true raw
  if ver == 2 then do
    P.skip 8
    let _ ← P.u32be
    P.skip 1
    pure .nop
  else if ver == 3 then do
    let _ ← P.take (13 * 4)
    P.skip 0xB8
    P.skip 1
    pure .nop
  else P.fail

def applyOption : P Cmd := do
  let o ← P.u32be
  P.guard (applyOptionValid o)
  P.skip 4
  let _ ← P.u32be
  pure .nop

/-- `DirectoryChunk` (`#[brw(big)]` since the C03-01 fix: the name length is big-endian) -/
def directory : P Cmd := do
  let n ← P.u32be
  let raw ← P.vecU8Bounded n.toNat
  let _name ← readString true raw
  pure .nop

def sqpkAddData : P Cmd := do
  P.skip 3
  let main ← P.u16be
  let sub ← P.u16be
  let file ← P.u32be
  let blockOffset ← P.u32be
  let blockNumber ← P.u32be
  let blockDelete ← P.u32be
  -- `(x as u64) << 7` bytes, read incrementally (`read_bytes_bounded`)
  let _data ← P.vecU8Bounded (blockNumber.toNat * 128)
  pure (.addData main sub file (blockOffset.toNat * 128) (blockNumber.toNat * 128) (blockDelete.toNat * 128))

def sqpkDeleteData (expand : Bool) : P Cmd := do
  P.skip 3
  let main ← P.u16be
  let sub ← P.u16be
  let file ← P.u32be
  let blockOffset ← P.u32be
  let blockNumber ← P.u32be
  P.skip 4
  pure (if expand then .expandData main sub file (blockOffset.toNat * 128) blockNumber
    else .deleteData main sub file (blockOffset.toNat * 128) blockNumber)

def sqpkFileOperation : P Cmd := do
  let o ← P.u8
  let op ← P.ofOption (if o == 0x41 then some FileOp.addFile else if o == 0x52 then some .removeAll
    else if o == 0x44 then some .deleteFile else if o == 0x4D then some .makeDirTree else none)
  P.skip 2
  let offset ← P.u64be
  let fileSize ← P.u64be
  let pathLength ← P.u32be
  let expansion ← P.u16be
  P.skip 2
  let raw ← P.vecU8Bounded pathLength.toNat
  let path ← readString true raw
  pure (.fileOp op offset fileSize expansion path)

def sqpkHeaderUpdate : P Cmd := do
  let fk ← P.u8
  P.guard (fk == 0x44 || fk == 0x49)           -- 'D' | 'I'
  let hk ← P.u8
  P.guard (hk == 0x56 || hk == 0x49 || hk == 0x44)   -- 'V' | 'I' | 'D'
  P.skip 1
  let main ← P.u16be
  let sub ← P.u16be
  let file ← P.u32be
  let _ ← P.vecU8 1024
  pure (.headerUpdate (fk == 0x49) main sub file)

def sqpkPatchInfo : P Cmd := do
  let _ ← P.u8
  let _ ← P.u8
  P.skip 1
  let _ ← P.u64be
  pure .nop

/-- `platform` is read as one byte and padded to two (`pad_size_to = 2`) -/
def platformField : P UInt8 := P.padSizeTo 2 (do
  let p ← P.u8
  P.guard (platformValid p)
  pure p)

def sqpkTargetInfo : P Cmd := do
  P.skip 3
  let platform ← platformField
  let region ← P.u16be
  P.guard (regionValid region)
  let _isDebug ← P.u16be
  let _version ← P.u16be
  let _ ← P.u64le
  let _ ← P.u64le
  P.skip 96
  pure (.targetInfo platform)

def sqpkIndex : P Cmd := do
  let cmd ← P.u8
  P.guard (cmd == 0x41 || cmd == 0x44)
  let _ ← P.u8
  P.skip 1
  let _ ← P.u64be
  let _ ← P.u32be
  let _ ← P.u32be
  P.skip 8
  pure .nop

def sqpk : P Cmd := do
  let _size ← P.u32be
  let op ← P.u8
  if op == 0x41 then sqpkAddData
  else if op == 0x44 then sqpkDeleteData false
  else if op == 0x45 then sqpkDeleteData true
  else if op == 0x46 then sqpkFileOperation
  else if op == 0x48 then sqpkHeaderUpdate
  else if op == 0x58 then sqpkPatchInfo
  else if op == 0x54 then sqpkTargetInfo
  else if op == 0x49 then sqpkIndex
  else P.fail

/-- `ChunkType` after its 4-byte magic -/
def chunkBody (magic : Bytes) : P Cmd :=
  if magic == ([0x46, 0x48, 0x44, 0x52] : Bytes) /- "FHDR" -/ then fileHeader
  else if magic == ([0x41, 0x50, 0x4C, 0x59] : Bytes) /- "APLY" -/ then applyOption
  else if magic == ([0x41, 0x44, 0x49, 0x52] : Bytes) /- "ADIR" -/ then directory
  else if magic == ([0x44, 0x45, 0x4C, 0x44] : Bytes) /- "DELD" -/ then directory
  else if magic == ([0x53, 0x51, 0x50, 0x4B] : Bytes) /- "SQPK" -/ then sqpk
  else if magic == ([0x45, 0x4F, 0x46, 0x5F] : Bytes) /- "EOF_" -/ then pure .eof
  else P.fail

/-- the crc32 that follows every chunk but the end-of-file chunk.  For an AddFile command the
loop immediately does `file.seek(Current(-4))`: read-then-un-read is modelled as a peek (the four
bytes must exist, the position stays), which keeps every parser here forward-only. -/
def crc (c : Cmd) : P Unit :=
  match c with
  | .eof => pure ()
  | .fileOp .addFile _ _ _ _ => do let _ ← P.restorePosition P.u32le; pure ()
  | _ => do let _ ← P.u32le; pure ()

/-- `PatchChunk`: size, chunk type, crc32 -/
def chunk : P Cmd := do
  let _size ← P.u32be
  let magic ← P.take 4
  let c ← chunkBody magic
  crc c
  pure c

/-! ### `read_data_block_patch` -/

def u32AsI32 (v : UInt32) : Int := i32OfU32 v

/-- `MAX_DECOMPRESSED_BLOCK_SIZE` (src/sqpack/mod.rs): 1 MiB; the game writes blocks of at most 16000 bytes -/
def maxDecompressedBlockSize : Nat := 2 ^ 20

/-- one block (its length); `inflate` is libz-rs' raw inflate into a zeroed buffer of the declared size.
`capped := true` is the code with fix C17-13; `false` the code before it (the declared
`decompressed_length` is allocated whatever it is). -/
def readDataBlock (capped : Bool) (inflate : Bytes → Nat → Bool) : P Nat := do
  -- `BlockHeader`
  let size ← P.u32le
  P.skip 4
  let x ← P.u32le
  let y ← P.u32le
  let _ ← P.restorePosition (P.take 4)          -- `CompressionMode` maps an i32 it reads and un-reads
  if u32AsI32 x < 32000 then do
    -- Compressed
    P.guard (decide (0 ≤ u32AsI32 x))           -- usize::try_from(compressed_length).ok()?
    P.guard (decide (0 ≤ u32AsI32 y))           -- usize::try_from(decompressed_length).ok()?
    P.guard (!capped || decide (y.toNat ≤ maxDecompressedBlockSize))   -- `> MAX_DECOMPRESSED_BLOCK_SIZE` → None
    let padded := (x.toNat + 143) &&& 0xFFFFFF80
    P.guard (decide (size.toNat ≤ padded))      -- checked_sub(block_header.size)?
    let n := padded - size.toNat
    P.alloc n                                   -- vec![0; compressed_length]
    let comp ← P.take n
    P.alloc y.toNat                             -- vec![0; decompressed_length]
    P.guard (inflate comp y.toNat)              -- `if !no_header_decompress(..) { return None }`
    pure y.toNat
  else do
    -- Uncompressed
    P.guard (decide (0 ≤ u32AsI32 y))           -- usize::try_from(file_size).ok()?
    let fileSize := y.toNat
    let newFileSize := (fileSize + 143) &&& 0xFFFFFF80
    let data ← P.vecU8Bounded fileSize
    P.guard (decide (size.toNat + fileSize ≤ newFileSize))    -- the two checked_subs
    P.skip (newFileSize - size.toNat - fileSize)
    pure data.length

/-- `write_all` of `len` bytes at `offset` into a file the file system lets grow to `limit` bytes
(quota / `RLIMIT_FSIZE` / disk size): an empty write always succeeds, anything ending beyond the
limit is an I/O error.  The harness runs with `RLIMIT_FSIZE = limit`. -/
def writeOk (limit offset len : Nat) : Bool := len == 0 || offset + len ≤ limit

/-- `if let Some(f) = new_file.as_mut() { f.write_all(&block)? }` with the target's cursor at `out` -/
def writeBlock (limit : Nat) (out : Option Nat) (blk : Nat) : P Unit :=
  match out with
  | some pos => P.guard (writeOk limit pos blk)
  | none => pure ()

/-- The AddFile block loop (fix C17-13):
`let mut remaining = fop.file_size; while remaining > 0 { let block = read_data_block_patch(..)?;
if let Some(f) = new_file.as_mut() { f.write_all(&block)? }; remaining = remaining.saturating_sub(block.len()) }`.
`out` is the position of the target's cursor when the target could be opened (`None` = "does not
exist, skipping": the blocks are read and dropped).  Nothing is kept between iterations, so the
only requests are those of one block. -/
def streamBlocks (inflate : Bytes → Nat → Bool) (limit : Nat) : Nat → Option Nat → Nat → P Unit
  | 0, _, _ => P.fault .fuel
  | fuel + 1, out, remaining =>
    if 0 < remaining then do
      let blk ← readDataBlock true inflate
      writeBlock limit out blk
      streamBlocks inflate limit fuel (out.map (· + blk)) (remaining - blk)
    else pure ()

/-- the loop before C17-13: `while data.len() < fop.file_size { data.append(read_data_block_patch(..)?) }`;
only the length of `data` matters.  Not used by `apply` any more; `c17_apply_accumulate_unfixed_witness`
shows on it that capping the block size alone leaves the accumulated `Vec` out of proportion. -/
def readBlocksAccum (capped : Bool) (inflate : Bytes → Nat → Bool) (fileSize : Nat) : Nat → Nat → P Nat
  | 0, _ => P.fault .fuel
  | fuel + 1, have_ =>
    if have_ < fileSize then do
      let blk ← readDataBlock capped inflate
      P.alloc (2 * (have_ + blk))              -- `Vec::append` growth
      readBlocksAccum capped inflate fileSize fuel (have_ + blk)
    else pure have_

/-! ### the effect of a chunk on the file system -/

def platformString (p : UInt8) : String :=
  if p == 0 then "win32" else if p == 1 then "ps3" else if p == 2 then "ps4" else if p == 3 then "ps5" else "lys"

def hexPad (n width : Nat) : String :=
  let s := String.ofList (Nat.toDigits 16 n)
  String.ofList (List.replicate (width - s.length) '0') ++ s

def expansionFolder (id : Nat) : String := if id == 0 then "ffxiv" else s!"ex{id}"

/-- `sqpack/<expansion>` below the data directory, as a string relative to it -/
def sqpackDir (sub : UInt16) : String := "sqpack/" ++ expansionFolder (sub.toNat >>> 8)

def datName (platform : UInt8) (main sub : UInt16) (file : UInt32) : String :=
  hexPad main.toNat 2 ++ hexPad sub.toNat 4 ++ "." ++ platformString platform ++ ".dat" ++ toString file.toNat

def indexName (platform : UInt8) (main sub : UInt16) (file : UInt32) : String :=
  hexPad main.toNat 2 ++ hexPad sub.toNat 4 ++ "." ++ platformString platform ++ ".index" ++
    (if file.toNat != 0 then toString file.toNat else "")

/-- `?` on an I/O result -/
def io (o : Option α) : P α := P.ofOption o

/-- `write_empty_file_block_at`: only its validation can fail here -/
def emptyBlockOk (blockNumber : UInt32) : Bool := 1 ≤ blockNumber.toNat && blockNumber.toNat - 1 < 2 ^ 31

def exec (inflate : Bytes → Nat → Bool) (limit : Nat) (fs : FS) (ti : Option UInt8) (c : Cmd) : P (FS × Option UInt8) :=
  match c with
  | .addData main sub file offset dataLen deleteLen => do
    let p ← P.ofOption ti                                         -- `.ok_or(ParseError)?`
    let fs ← io (fs.createDirAll (ascii (sqpackDir sub)))
    let fs ← io (fs.openCreate (ascii (sqpackDir sub ++ "/" ++ datName p main sub file)))
    P.guard (writeOk limit offset dataLen)                        -- `write_all(&add.block_data)?`
    P.guard (writeOk limit (offset + dataLen) deleteLen)          -- `wipe(..)?`
    pure (fs, ti)
  | .deleteData main sub file offset bn => do
    let p ← P.ofOption ti
    let fs ← io (fs.openCreate (ascii (sqpackDir sub ++ "/" ++ datName p main sub file)))   -- no create_dir_all here
    P.guard (emptyBlockOk bn)
    P.guard (writeOk limit offset (bn.toNat * 128))               -- `wipe_from_offset(..)?` (covers the 20 header bytes)
    pure (fs, ti)
  | .expandData main sub file offset bn => do
    let p ← P.ofOption ti
    let fs ← io (fs.createDirAll (ascii (sqpackDir sub)))
    let fs ← io (fs.openCreate (ascii (sqpackDir sub ++ "/" ++ datName p main sub file)))
    P.guard (emptyBlockOk bn)
    P.guard (writeOk limit offset (bn.toNat * 128))
    pure (fs, ti)
  | .headerUpdate isIndex main sub file => do
    let p ← P.ofOption ti
    let name := if isIndex then indexName p main sub file else datName p main sub file
    let fs ← io (fs.createDirAll (ascii (sqpackDir sub)))
    let fs ← io (fs.openCreate (ascii (sqpackDir sub ++ "/" ++ name)))
    pure (fs, ti)
  | .fileOp op offset fileSize expansion path =>
    -- `file_path = format!("{}/{}", data_dir, fop.path)`; the parent is everything before the last '/'
    let parent : Bytes := match (splitChar 0x2F path).toList.dropLast with
      | [] => []
      | ps => ps.foldl (fun acc p => if acc.isEmpty then p else acc ++ [0x2F] ++ p) []
    let parent : Bytes := if (splitChar 0x2F path).size ≥ 2 && parent.isEmpty then [0x2F] else parent
    match op with
    | .addFile => do
      let fs ← io (fs.createDirAll parent)
      -- (the crc was only peeked, see `crc`)
      let patch ← P.input
      -- the target is opened before the first block is read (fix C17-13)
      match fs.openCreate path with
      | some fs' =>
        -- `file.seek(SeekFrom::Start(fop.offset))?` fails for offsets ≥ 2^63
        P.guard (decide (offset.toNat < 2 ^ 63))
        streamBlocks inflate limit (patch.length + 1) (some offset.toNat) fileSize.toNat
        P.skip 4
        pure (fs', ti)
      | none =>                                                   -- "does not exist, skipping"
        streamBlocks inflate limit (patch.length + 1) none fileSize.toNat
        P.skip 4
        pure (fs, ti)
    | .deleteFile => pure (fs.removeFile path, ti)
    | .removeAll => pure (fs.removeDirAll (ascii ("sqpack/" ++ expansionFolder expansion.toNat)), ti)
    | .makeDirTree => do
      let fs ← io (fs.createDirAll path)        -- the whole path it names (fix C03-02)
      pure (fs, ti)
  | .targetInfo p => pure (fs, some p)
  | .nop => pure (fs, ti)
  | .eof => pure (fs, ti)

/-- the chunk loop: returns the last chunk it processed — `Ok(())` is returned from the
`EndOfFile` arm only -/
def loop (inflate : Bytes → Nat → Bool) (limit : Nat) : Nat → FS → Option UInt8 → P (Cmd × FS)
  | 0, _, _ => P.fault .fuel
  | fuel + 1, fs, ti => do
    let c ← chunk
    match c with
    | .eof => pure (c, fs)
    | _ => do
      let st ← exec inflate limit fs ti c
      loop inflate limit fuel st.1 st.2

/-- `PatchHeader`: pad 1, "ZIPATCH", pad 4 -/
def header : P Unit := do
  P.skip 1
  let m ← P.take 7
  P.guard (m == ([0x5A, 0x49, 0x50, 0x41, 0x54, 0x43, 0x48] : Bytes))   -- "ZIPATCH"
  P.skip 4

/-- `ZiPatch::apply(data_dir, patch_path)` with the patch file's bytes `b` (a missing / unreadable
patch file is `Err` before anything is read) -/
def apply (inflate : Bytes → Nat → Bool) (limit : Nat) (fs : FS) (b : Bytes) : M (Cmd × FS) :=
  (do header; loop inflate limit (b.length + 1) fs none : P _).run b

end Physis.F.Patch
