import PhysisModel.Base.ParserF
import PhysisModel.Base.StrF
/-!
# Fault models of `FileInfo::from_existing` (src/fiin.rs) and `CharacterData::from_existing`
(src/chardat.rs, with `read_string` of src/common_file_operations.rs)

After `fixes/C17-02-read-string-utf8.patch` and `fixes/C17-03-fiin-name-utf8.patch` the string
closures decode lossily; `guarded := false` is the pinned commit (`from_utf8(x).unwrap()`).
-/
namespace Physis.F
open Physis StrF

/-- `String::from_utf8(x).unwrap()` (pinned commit) vs `String::from_utf8_lossy(&x)` (fixed);
the value is kept as raw bytes, digests go through `dLossy` -/
def decodeString (guarded : Bool) (x : Bytes) : P Bytes :=
  if guarded then pure x
  else if validUtf8 x then pure x else P.fault .utf8

/-- `read_string` (common_file_operations.rs) -/
def readString (guarded : Bool) (x : Bytes) : P Bytes := do
  let s ← decodeString guarded x
  pure (trimNul s)

@[inline] def i32OfU32 (v : UInt32) : Int := if v.toNat < 2 ^ 31 then v.toNat else (v.toNat : Int) - 2 ^ 32

namespace Fiin

structure Entry where
  fileSize : Int
  fileName : Bytes
  sha1 : Bytes

def entry (guarded : Bool) : P Entry := do
  let fileSize ← P.u32le
  P.skip 4
  let raw ← P.vecU8 64
  let name ← readString guarded raw
  let sha1 ← P.vecU8 24
  pure ⟨i32OfU32 fileSize, name, sha1⟩

def fileInfo (guarded : Bool) : P (List Entry) := do
  P.magic [0x46, 0x69, 0x6C, 0x65, 0x49, 0x6E, 0x66, 0x6F]   -- "FileInfo"
  P.skip 16
  let _unknown ← P.u32le
  let entriesSize ← P.u32le
  P.skip 992
  -- `count = entries_size / 96` (i32, truncating), then `usize::try_from`
  let n := Int.tdiv (i32OfU32 entriesSize) 96
  P.guard (decide (0 ≤ n))
  P.count n.toNat (entry guarded)

def fromExisting (guarded : Bool) (b : Bytes) : M (List Entry) := (fileInfo guarded).run b

def digest (es : List Entry) : Bytes :=
  dNat es.length ++ es.flatMap (fun e => dInt e.fileSize ++ dLossy e.fileName ++ dBytes e.sha1)

end Fiin

namespace Chardat

/-- valid discriminants of the `repr = u8` enums (regenerated from the compiled code, T2) -/
structure Enums where
  race : UInt8 → Bool
  gender : UInt8 → Bool
  tribe : UInt8 → Bool

structure CharacterData where
  version : UInt32
  customize : List UInt8     -- 27 bytes in file order, `enable_highlights` already mapped to 0/1
  timestamp : UInt32
  comment : Bytes

def reprU8 (valid : UInt8 → Bool) : P UInt8 := do
  let v ← P.u8
  P.guard (valid v)
  pure v

def customize (en : Enums) : P (List UInt8) := do
  let race ← reprU8 en.race
  let gender ← reprU8 en.gender
  let age ← P.u8
  let height ← P.u8
  let tribe ← reprU8 en.tribe
  let face ← P.u8
  let hair ← P.u8
  let hl ← P.u8
  let rest ← P.take 19
  pure ([race, gender, age, height, tribe, face, hair, if hl == 1 then 1 else 0] ++ rest)

def characterData (guarded : Bool) (en : Enums) : P CharacterData := do
  P.magic [0x14, 0xFF, 0x13, 0x20]          -- 0x2013FF14 little endian
  let version ← P.u32le
  let _checksum ← P.u32le
  P.skip 4
  let c ← customize en
  P.skip 1
  let timestamp ← P.u32le
  let raw ← P.vecU8 164
  let comment ← readString guarded raw
  pure ⟨version, c, timestamp, comment⟩

def fromExisting (guarded : Bool) (en : Enums) (b : Bytes) : M CharacterData :=
  (characterData guarded en).run b

def digest (c : CharacterData) : Bytes :=
  dNat c.version.toNat ++ c.customize.flatMap (fun x => dNat x.toNat) ++ dNat c.timestamp.toNat ++ dLossy c.comment

end Chardat
end Physis.F
