import PhysisModel.Base.Fault
import PhysisModel.Base.StrF
/-!
# Fault model of `PatchList::from_string` / `to_string` (src/patchlist.rs)

After `fixes/C17-06-patchlist-parse.patch` (rows are parsed by `parse_entry`, which returns
`None` for a short or non-numeric row; `parts.len().saturating_sub(2)`) and
`fixes/C17-07-patchlist-write.patch` (`hashes.join(",")`, `saturating_add`).
`guarded := false` is the pinned commit.  `patch_length` (the `X-Patch-Length` header) is not part
of this model: its parsing has no panic site (`find` returns char boundaries) and its value is
C10's subject.
-/
namespace Physis.F.Patchlist
open Physis StrF

structure PatchEntry where
  url : Bytes
  version : Bytes
  hashBlockSize : Int
  length : Int
  sizeOnDisk : Int
  hashes : List Bytes

inductive Kind | boot | game
  deriving DecidableEq

/-- `patch_parts[i]` (pinned) -/
def col (pp : Array Bytes) (i : Nat) : M Bytes :=
  match pp[i]? with
  | some s => pure s
  | none => M.fault .index

/-- `.parse().unwrap()` (pinned) -/
def num (s : Bytes) : M Int :=
  match parseI64 s with
  | some v => pure v
  | none => M.fault .unwrap

/-- the row → entry step at the pinned commit, in the struct literal's evaluation order -/
def entryUnguarded (k : Kind) (pp : Array Bytes) : M PatchEntry :=
  match k with
  | .boot => do
    let url ← col pp 5
    let version ← col pp 4
    let length ← col pp 0 >>= num
    let size ← col pp 1 >>= num
    pure ⟨url, version, 0, length, size, []⟩
  | .game => do
    let url ← col pp 8
    let version ← col pp 4
    let hbs ← col pp 6 >>= num
    let length ← col pp 0 >>= num
    let size ← col pp 1 >>= num
    let hs ← col pp 7
    pure ⟨url, version, hbs, length, size, (splitChar 0x2C hs).toList⟩

/-- `parse_entry` (fixed) -/
def parseEntry (k : Kind) (pp : Array Bytes) : Option PatchEntry :=
  match k with
  | .boot => do
    let url ← pp[5]?
    let version ← pp[4]?
    let length ← pp[0]? >>= parseI64
    let size ← pp[1]? >>= parseI64
    pure ⟨url, version, 0, length, size, []⟩
  | .game => do
    let url ← pp[8]?
    let version ← pp[4]?
    let hbs ← pp[6]? >>= parseI64
    let length ← pp[0]? >>= parseI64
    let size ← pp[1]? >>= parseI64
    let hs ← pp[7]?
    pure ⟨url, version, hbs, length, size, (splitChar 0x2C hs).toList⟩

/-- `for i in 5..hi` over `parts`, `hi ≤ parts.size` -/
def rows (guarded : Bool) (k : Kind) (parts : Array Bytes) : Nat → Nat → M (List PatchEntry)
  | 0, _ => pure []
  | n + 1, i => do
    let row ← Sl.index parts.toList i                   -- `parts[i]`
    let pp := splitChar 0x09 row
    M.alloc (32 * pp.size)
    if guarded then
      match parseEntry k pp with
      | some e => do let r ← rows guarded k parts n (i + 1); pure (e :: r)
      | none => rows guarded k parts n (i + 1)
    else do
      let e ← entryUnguarded k pp
      let r ← rows guarded k parts n (i + 1)
      pure (e :: r)

def crlf : Bytes := [0x0D, 0x0A]

/-- upper end of the row range: `parts.len() - 2` (pinned) / `parts.len().saturating_sub(2)` (fixed) -/
def rowsEnd (guarded : Bool) (n : Nat) : M Nat :=
  if guarded then pure (n - 2) else Arith.subUsize n 2

def fromParts (guarded : Bool) (k : Kind) (parts : Array Bytes) : M (List PatchEntry) := do
  M.alloc (32 * parts.size)
  let hi ← rowsEnd guarded parts.size
  rows guarded k parts (hi - 5) 5                       -- `for i in 5..hi`

def fromString (guarded : Bool) (k : Kind) (encoded : Bytes) : M (List PatchEntry) :=
  fromParts guarded k (splitStr crlf encoded)           -- `encoded.split("\r\n").collect()`

def digest (ps : List PatchEntry) : Bytes :=
  dNat ps.length ++ ps.flatMap (fun p => dBytes p.url ++ dBytes p.version ++ dInt p.hashBlockSize ++
    dInt p.length ++ dInt p.sizeOnDisk ++ dNat p.hashes.length ++ p.hashes.flatMap dBytes)

/-! ### `to_string` -/

def i64Max : Int := 2 ^ 63 - 1
def i64Min : Int := -(2 ^ 63)
def satAddI64 (a b : Int) : Int :=
  let s := a + b
  if s > i64Max then i64Max else if s < i64Min then i64Min else s

def total (guarded : Bool) : List PatchEntry → Int → M Int
  | [], t => pure t
  | p :: r, t =>
    if guarded then total guarded r (satAddI64 t p.length)
    else do let t' ← Arith.addI64 t p.length; total guarded r t'

def str (s : String) : Bytes := s.toUTF8.toList
def tab : Bytes := [0x09]

def joinComma : List Bytes → Bytes
  | [] => []
  | [h] => h
  | h :: r => h ++ [0x2C] ++ joinComma r

/-- the `if patch_type == PatchListType::Game { .. }` part of a row -/
def hashPart (guarded : Bool) (k : Kind) (p : PatchEntry) : M Bytes :=
  match k with
  | .boot => pure []
  | .game =>
    if guarded then pure (str "sha1" ++ tab ++ intDec p.hashBlockSize ++ tab ++ joinComma p.hashes ++ tab)
    else do
      let h0 ← Sl.index p.hashes 0                     -- `patch.hashes[0]`
      let rest := (p.hashes.drop 1).flatMap (fun h => [0x2C] ++ h)
      pure (str "sha1" ++ tab ++ intDec p.hashBlockSize ++ tab ++ h0 ++ rest ++ tab)

def entryLine (guarded : Bool) (k : Kind) (p : PatchEntry) : M Bytes := do
  let hp ← hashPart guarded k p
  pure (intDec p.length ++ tab ++ intDec p.sizeOnDisk ++ tab ++ str "0" ++ tab ++ str "0" ++ tab ++
    p.version ++ tab ++ hp ++ p.url ++ crlf)

def entryLines (guarded : Bool) (k : Kind) : List PatchEntry → M Bytes
  | [] => pure []
  | p :: r => do
    let l ← entryLine guarded k p
    let ls ← entryLines guarded k r
    pure (l ++ ls)

/-- `unknown_a` / `unknown_b` are 0 for every list built by `from_string`; the abstract cases of the
driver keep them 0 -/
def toString (guarded : Bool) (k : Kind) (id contentLocation : Bytes) (ps : List PatchEntry) : M Bytes := do
  let t ← total guarded ps 0
  let body ← entryLines guarded k ps
  pure (str "--" ++ id ++ crlf ++ str "Content-Type: application/octet-stream\r\n" ++
    str "Content-Location: " ++ contentLocation ++ crlf ++
    str "X-Patch-Length: " ++ intDec t ++ crlf ++ crlf ++ body ++ str "--" ++ id ++ str "--\r\n")

end Physis.F.Patchlist
