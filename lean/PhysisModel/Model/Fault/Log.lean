import PhysisModel.Base.ParserF
import PhysisModel.Base.StrF
/-!
# Fault model of `ChatLog::from_existing` (src/log.rs)

After `fixes/C17-05-log-untrusted.patch`: both `expect`s are `.ok()?`, the content offset is
computed in `u64`, the message is taken with `buffer.get(..)?`.  `guarded := false` is the pinned
commit: `expect` on the header and on every entry, `8 + file_size * 4` in `u32`, and
`&buffer[pos..next]`.
-/
namespace Physis.F.Log
open Physis StrF

/-- `repr = u8` enums: byte ↦ discriminant (`none` = no variant).  Regenerated from the compiled
code (T2): `EventFilter::Unknown4 = 581` is matched by the byte `581 as u8 = 69`. -/
structure Enums where
  filter : UInt8 → Option Nat
  channel : UInt8 → Option Nat

structure Entry where
  filter : Nat
  channel : Nat
  message : Bytes

/-- `ChatLogHeader` -/
def header : P (UInt32 × UInt32 × Array UInt32) := do
  let contentSize ← P.u32le
  let fileSize ← P.u32le
  -- `count = file_size.saturating_sub(content_size)`
  let n := if fileSize.toNat ≥ contentSize.toNat then fileSize.toNat - contentSize.toNat else 0
  let offs ← P.vecU32le n
  pure (contentSize, fileSize, offs)

/-- `ChatLogEntry` (the message is `#[brw(ignore)]`) -/
def entry (en : Enums) : P (Nat × Nat) := do
  let _timestamp ← P.u32le
  let f ← P.u8
  let filter ← P.ofOption (en.filter f)
  let c ← P.u8
  let channel ← P.ofOption (en.channel c)
  let _garbage ← P.u32le
  pure (filter, channel)

/-- `.expect(..)` (pinned commit) or `.ok()?` (fixed) on a binrw read -/
def expectOr (guarded : Bool) (p : P α) : P α :=
  if guarded then p else do
    match ← P.try? p with
    | some a => pure a
    | none => P.fault .unwrap

/-- `next_offset`: the buffer length for the last entry, else `content_offset + offset_entries[i + 1]`
(`rest` is `offset_entries[i + 1 ..]`, so the index is in range exactly when `i + 1 != len`) -/
def nextOffset (contentOffset : UInt64) (bufLen : Nat) : List UInt32 → P Nat
  | [] => pure bufLen
  | o2 :: _ => do
    let v ← P.lift (Arith.addU64 contentOffset o2.toUInt64)
    pure v.toNat

/-- `buffer.get(pos..next)?` (fixed) / `&buffer[pos..next]` (pinned) -/
def message (guarded : Bool) (b : Bytes) (pos next : Nat) : P Bytes :=
  if guarded then P.ofOption (Sl.get? b pos next) else P.lift (Sl.slice b pos next)

/-- the `for (i, offset) in header.offset_entries.iter().enumerate()` loop; `offs` is the part of
`offset_entries` from index `i` on -/
def loop (guarded : Bool) (en : Enums) (contentOffset : UInt64) : List UInt32 → P (List Entry)
  | [] => pure []
  | off :: rest => do
    let b ← P.input
    -- `content_offset + *offset as u64`
    let newLast ← P.lift (Arith.addU64 contentOffset off.toUInt64)
    P.seekStart newLast.toNat
    let fc ← expectOr guarded (entry en)
    let next ← nextOffset contentOffset b.length rest
    let pos ← P.getPos
    let msg ← message guarded b pos next
    P.alloc (3 * msg.length)                                           -- `from_utf8_lossy(..).to_string()`
    let r ← loop guarded en contentOffset rest
    pure (⟨fc.1, fc.2, msg⟩ :: r)

/-- `8 + header.file_size as u64 * 4` (fixed) / `(8 + header.file_size * 4) as u64` (pinned) -/
def contentOffsetOf (guarded : Bool) (fileSize : UInt32) : P UInt64 :=
  if guarded then do
    let m ← P.lift (Arith.mulU64 fileSize.toUInt64 4)
    P.lift (Arith.addU64 8 m)
  else do
    let m ← P.lift (Arith.mulU32 fileSize 4)
    let s ← P.lift (Arith.addU32 8 m)
    pure s.toUInt64

def chatLog (guarded : Bool) (en : Enums) : P (List Entry) := do
  let b ← P.input
  let hdr ← expectOr guarded header
  -- "Dumb check for obviously wrong values"
  P.guard (!(hdr.1.toNat > b.length || hdr.2.1.toNat > b.length))
  let contentOffset ← contentOffsetOf guarded hdr.2.1
  loop guarded en contentOffset hdr.2.2.toList

def fromExisting (guarded : Bool) (en : Enums) (b : Bytes) : M (List Entry) := (chatLog guarded en).run b

def digest (es : List Entry) : Bytes :=
  dNat es.length ++ es.flatMap (fun e => dNat e.filter ++ dNat e.channel ++ dLossy e.message)

end Physis.F.Log
