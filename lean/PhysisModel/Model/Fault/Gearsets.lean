import PhysisModel.Base.ParserF
import PhysisModel.Base.StrF
/-!
# Fault model of `GearSets::from_existing` (src/gearsets.rs, src/dat.rs)

After `fixes/C17-04-gearsets-content-size.patch`: `content_size - 1` is `checked_sub`, and the
payload is taken with `buffer.get(start..start + n)` instead of `vec![0; n]` + `read_exact`.
`guarded := false` is the pinned commit (underflow for `content_size = 0`, up to 4 GiB requested
before a single byte is read).
-/
namespace Physis.F.Gearsets
open Physis StrF

structure Slot where
  idx : Nat
  id : UInt32
  glamour : UInt32

structure GearSet where
  index : UInt8
  name : Bytes
  slots : List Slot
  facewear : UInt32

/-- `DatHeader` -/
def header : P UInt32 := do
  P.magic [0x05, 0x00, 0x6D, 0x00]          -- DatFileType::Gearset = 0x006d0005 little endian
  let _maxSize ← P.u32le
  let contentSize ← P.u32le
  P.skip 4
  let _endOfHeader ← P.u8
  pure contentSize

/-- `GearSlot` (7 × u32); `id & !1_000_000` -/
def slot (idx : Nat) : P Slot := do
  let id ← P.u32le
  let glamour ← P.u32le
  let _ ← P.take 20
  pure ⟨idx, id &&& ~~~(1000000 : UInt32), glamour⟩

def slots : Nat → Nat → P (List Slot)
  | 0, _ => pure []
  | k + 1, idx => do
    let s ← slot idx
    let r ← slots k (idx + 1)
    pure (s :: r)

def gearSet : P GearSet := do
  let index ← P.u8
  let name ← P.padSizeTo 47 P.nullString
  let _unknown1 ← P.u64le
  let ss ← slots 14 0
  let facewear ← P.u32le
  -- `convert_from_slots`: slots with id 0 are dropped
  pure ⟨index, name, ss.filter (fun s => s.id != 0), facewear⟩

structure GearSets where
  current : UInt8
  gearsets : List GearSet    -- all 100; `convert_from_gearsets` maps an empty name to `None`

def gearSets : P GearSets := do
  let _unknown1 ← P.u8
  let current ← P.u8
  let _unknown3 ← P.u16le
  let gs ← P.count 100 gearSet
  pure ⟨current, gs⟩

def key : UInt8 := 0x73

/-- the encoded payload: `buffer.get(start..start + (content_size - 1))` with checked arithmetic
(fixed) / `vec![0; content_size as usize - 1]` + `read_exact` (pinned) -/
def payload (guarded : Bool) (b : Bytes) (contentSize : UInt32) (start : Nat) : M Bytes :=
  if guarded then do
    let n ← M.ofOption (if contentSize.toNat ≥ 1 then some (contentSize.toNat - 1) else none)  -- checked_sub(1)?
    M.ofOption (Sl.get? b start (start + n))                                                   -- buffer.get(..)?
  else do
    let n ← Arith.subUsize contentSize.toNat 1                 -- `content_size as usize - 1`
    M.alloc n                                                  -- `vec![0; n]`
    M.ofOption (Sl.get? b start (start + n))                   -- `read_exact(..).ok()?`

def headerAndPos : P (UInt32 × Nat) := do
  let h ← header
  let p ← P.getPos
  pure (h, p)

def fromExisting (guarded : Bool) (b : Bytes) : M GearSets := do
  let hp ← headerAndPos.run b
  let encoded ← payload guarded b hp.1 hp.2
  M.alloc encoded.length                                         -- `decoded`
  gearSets.run (encoded.map (· ^^^ key))

def digest (g : GearSets) : Bytes :=
  dNat g.current.toNat ++ dNat g.gearsets.length ++ g.gearsets.flatMap (fun s =>
    if s.name.isEmpty then [0x4E, 0xFF] else
      dNat s.index.toNat ++ dLossy s.name ++ dNat s.slots.length ++
      s.slots.flatMap (fun x => dNat x.idx ++ dNat x.id.toNat ++ dNat x.glamour.toNat) ++ dNat s.facewear.toNat)

end Physis.F.Gearsets
