import PhysisModel.Base.Fault
import PhysisModel.Base.StrF
/-!
# Fault model of `ConfigFile::from_existing` (src/cfg.rs) and `EXL::from_existing` (src/exl.rs)

Mirrors the code **after** `fixes/C17-01-cfg-category-slice.patch`.  `guarded := false` is the
code at the pinned commit (`&line[1..line.len() - 1]`), kept so that the necessity of the guard is
a theorem (`c17_cfg_unguarded_witness`).

Both readers copy parts of the input into `String`s; the model requests one buffer of the input's
size for them (every `String` built is a copy of a sub-range of one line).
-/
namespace Physis.F.Cfg
open Physis StrF

structure ConfigFile where
  categories : Array Bytes := #[]
  /-- `HashMap<String, ConfigMap>` as an association list (first insertion order) -/
  settings : List (Bytes × Array (Bytes × Bytes)) := []
  current : Option Bytes := none

def pushSetting (cat k v : Bytes) : List (Bytes × Array (Bytes × Bytes)) → List (Bytes × Array (Bytes × Bytes))
  | [] => [(cat, #[(k, v)])]
  | (c, ks) :: r => if c = cat then (c, ks.push (k, v)) :: r else (c, ks) :: pushSetting cat k v r

/-- one iteration of the `for line in reader.lines()` loop -/
def step (guarded : Bool) (cfg : ConfigFile) (line : Bytes) : M ConfigFile :=
  if !line.isEmpty && line != [0] then
    if contains line 0x3C || contains line 0x3E then
      -- Category
      if guarded then
        match StrF.get? line 1 (line.length - 1) with
        | none => pure cfg                                   -- `else { continue }`
        | some name => pure { cfg with current := some name, categories := cfg.categories.push name }
      else do
        let name ← StrF.slice line 1 (line.length - 1)      -- `&line[1..line.len() - 1]`
        pure { cfg with current := some name, categories := cfg.categories.push name }
    else
      match cfg.current, splitOnce 0x09 line with
      | some cat, some (k, v) => pure { cfg with settings := pushSetting cat k v cfg.settings }
      | _, _ => pure cfg
  else pure cfg

def loop (guarded : Bool) : List Bytes → ConfigFile → M ConfigFile
  | [], cfg => pure cfg
  | l :: r, cfg => step guarded cfg l >>= loop guarded r

def fromExisting (guarded : Bool) (b : Bytes) : M ConfigFile := do
  M.alloc b.length
  loop guarded (lines b) {}

/-- canonical digest (see `harness/src/c17.rs` `digest_cfg`) -/
def digest (c : ConfigFile) : Bytes :=
  let cats := c.categories.toList
  let rec go (cs : List Bytes) (seen : List Bytes) (acc : Bytes) : Bytes :=
    match cs with
    | [] => acc
    | n :: r =>
      let acc := acc ++ dBytes n
      if seen.contains n then go r seen acc else
      match c.settings.lookup n with
      | none => go r (n :: seen) (acc ++ dNat 0)
      | some ks => go r (n :: seen)
          (acc ++ dNat (ks.size + 1) ++ ks.toList.flatMap (fun kv => dBytes kv.1 ++ dBytes kv.2))
  go cats [] (dNat cats.length)

end Physis.F.Cfg

namespace Physis.F.Exl
open Physis StrF

structure EXL where
  version : Int := 0
  entries : Array (Bytes × Int) := #[]

def step (e : EXL) (line : Bytes) : EXL :=
  match splitOnce 0x2C line with
  | some (name, value) =>
    match parseI32 value with
    | some v =>
      if name = [0x45, 0x58, 0x4C, 0x54] then { e with version := v }     -- "EXLT"
      else if name.head? != some 0x23 then { e with entries := e.entries.push (name, v) }
      else e
    | none => e
  | none => e

def fromExisting (b : Bytes) : M EXL := do
  M.alloc b.length
  pure ((lines b).foldl step {})

def digest (e : EXL) : Bytes :=
  dInt e.version ++ dNat e.entries.size ++ e.entries.toList.flatMap (fun x => dBytes x.1 ++ dInt x.2)

end Physis.F.Exl
