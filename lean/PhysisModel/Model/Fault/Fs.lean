import PhysisModel.Base.Fault
import PhysisModel.Base.StrF
/-!
# A small file-system model for the path-taking entry points (C17)

Only what decides `Ok` / `Err` of `ZiPatch::apply` is modelled: which directories and files exist
below the data directory.  Paths are the Rust strings (bytes); they are normalised the way the
kernel resolves them (`//` and `/./` collapse).  A path with a NUL byte, a component longer than
255 bytes, or a `..` component is an I/O error in this model (the generator never produces `..`;
NUL and over-long names are errors of `std::fs` / the kernel as well).  File contents and sizes are
C03's subject and are not tracked.
-/
namespace Physis.F.Fs
open Physis StrF

abbrev Path := List Bytes

/-- how the data directory itself looks when `apply` starts -/
inductive Root | dir | missing | file
  deriving DecidableEq, Repr

structure FS where
  root : Root
  dirs : List Path      -- below the root, non-empty paths
  files : List Path

def components (s : Bytes) : Path :=
  (splitChar 0x2F s).toList.filter (fun c => !c.isEmpty && c != [0x2E])

def validName (c : Bytes) : Bool := !contains c 0 && c.length ≤ 255 && c != [0x2E, 0x2E]
def validPath (p : Path) : Bool := p.all validName

def FS.isDir (fs : FS) (p : Path) : Bool := if p.isEmpty then fs.root == .dir else fs.dirs.contains p
def FS.isFile (fs : FS) (p : Path) : Bool := if p.isEmpty then fs.root == .file else fs.files.contains p

def prefixes (p : Path) : List Path := (List.range (p.length + 1)).map (fun n => p.take n)

/-- `fs::create_dir_all`: every prefix becomes a directory; a prefix that is a file is an error -/
def FS.createDirAll (fs : FS) (s : Bytes) : Option FS :=
  let p := components s
  if !validPath p || contains s 0 then none else
  if (prefixes p).any fs.isFile then none else
  some { root := if fs.root == .missing then .dir else fs.root,
         dirs := (prefixes p).foldl (fun ds q => if q.isEmpty || ds.contains q then ds else ds ++ [q]) fs.dirs,
         files := fs.files }

/-- `OpenOptions::new().write(true).create(true).open(path)`: the parent must be a directory and the
path must not be one; a trailing `/` (or an empty file name) is an error -/
def FS.openCreate (fs : FS) (s : Bytes) : Option FS :=
  let p := components s
  if !validPath p || contains s 0 then none else
  if p.isEmpty || s.getLast? == some 0x2F || (splitChar 0x2F s).toList.getLast? == some [0x2E] then none else
  if !fs.isDir p.dropLast then none else
  if fs.isDir p then none else
  some { fs with files := if fs.files.contains p then fs.files else fs.files ++ [p] }

def FS.removeFile (fs : FS) (s : Bytes) : FS :=
  let p := components s
  { fs with files := fs.files.filter (· != p) }

def isPrefixPath (p q : Path) : Bool := q.take p.length == p

/-- `if fs::read_dir(&path).is_ok() { fs::remove_dir_all(&path)?; }` -/
def FS.removeDirAll (fs : FS) (s : Bytes) : FS :=
  let p := components s
  if p.isEmpty || !fs.isDir p then fs else
  { fs with dirs := fs.dirs.filter (fun q => !isPrefixPath p q), files := fs.files.filter (fun q => !isPrefixPath p q) }

end Physis.F.Fs
