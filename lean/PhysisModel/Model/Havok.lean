import PhysisModel.Base.Bytes
import PhysisModel.Base.StrF
/-!
Model of the Havok binary tag-file reader `src/havok/binary_tag_file_reader.rs`, of the value / type
model `src/havok/object.rs` and of the skeleton extraction `src/havok/{animation_container,skeleton,
transform}.rs`.

Every failure of this reader is `None` (since the fixes `C18-70..76`: a read beyond the end, an index
out of range, an integer that does not fit, a tag or member kind without code, a struct array nested
deeper than `maxArrayDepth`; before them each of these was a panic); the model returns `none`.
The reader is sequential: every function takes the rest of the input and returns the value, the new
reader state and the new rest.  `Arc<RefCell<HavokObject>>` sharing is modelled by value: the
elements of a STRUCT array are stored in line (`Value.obj`), a reference to a remembered object stays
an index (`Value.ref i` = `ObjectReference(i)`, after the fix-up `Object(remembered_objects[i])`); the
fix-up pass, which only fails when an index is out of range, is modelled by recording the largest
index that was read (`St.refBound`) and comparing it with the number of remembered objects at the end.

Mirrors the code *with* `fixes/C16-01-havok-struct-member-count.patch` and
`fixes/C16-02-havok-default-values.patch` applied (see `notes/C16.md`), on top of the C18 fixes of the same
file (length guards for arrays and member counts, non-recursive vector defaults, `C18-70..78`: the
Option-returning reader with bounded struct arrays).
-/
namespace Physis.Havok

/-! ### packed integers -/

/-- `x as i32` for a `u32` -/
def asI32 (r : UInt32) : Int := if r.toNat < 2 ^ 31 then (r.toNat : Int) else (r.toNat : Int) - 2 ^ 32

/-- the `while byte & 0x80 != 0` loop of `read_packed_int`, entered after a byte with the
continuation bit: read a byte (`None` at the end of the data), `result |= (byte & 0xffffff7f)
.checked_shl(shift)?` (`None` for a shift of 32 or more: the sixth byte), `shift += 7` -/
def packedLoop (result : UInt32) (shift : Nat) : Bytes → Option (UInt32 × Bytes)
  | [] => none
  | b :: r =>
    if 32 ≤ shift then none
    else
      let result := result ||| ((b.toUInt32 &&& 0xFFFFFF7F) <<< shift.toUInt32)
      if b &&& 0x80 != 0 then packedLoop result (shift + 7) r else some (result, r)

/-- the end of `read_packed_int`: `(result as i32).checked_neg()` when bit 0 of the first byte is set
(`None` for `i32::MIN`), `result as i32` otherwise -/
def packedFinish (b : UInt8) (result : UInt32) : Option Int :=
  if b &&& 1 == 1 then
    (if result == 0x80000000 then none else some (-(asI32 result)))
  else some (asI32 result)

/-- `read_packed_int`: bit 0 of the first byte is the sign, bits 1..6 the low six bits of the
magnitude, bit 7 of every byte the continuation flag -/
def readPackedInt : Bytes → Option (Int × Bytes)
  | [] => none
  | b :: r =>
    let first : UInt32 := ((b &&& 0x7f) >>> 1).toUInt32
    match (if b &&& 0x80 != 0 then packedLoop first 6 r else some (first, r)) with
    | none => none
    | some (result, r) => (packedFinish b result).map (·, r)

/-- `x as usize` used as an index / length: a negative value is a huge index and never in range -/
def asIndex (n : Int) : Option Nat := if n < 0 then none else some n.toNat

/-! ### bit fields -/

/-- `((count + 7) & 0xffff_fff8) / 8` on `usize` -/
def bitFieldBytes (count : Nat) : Nat := ((count + 7) &&& 0xFFFFFFF8) / 8

/-- the inner `for _ in 0..8` loop: push the low bit, shift, `break` when `result.len() == count` -/
def pushBits (count : Nat) : Nat → UInt8 → List Bool → List Bool
  | 0, _, acc => acc
  | k + 1, byte, acc =>
    let acc := acc ++ [(byte &&& 1) == 1]
    if acc.length == count then acc else pushBits count k (byte >>> 1) acc

/-- `read_bit_field` -/
def readBitField (count : Nat) (b : Bytes) : Option (List Bool × Bytes) :=
  let n := bitFieldBytes count
  if b.length < n then none
  else some ((b.take n).foldl (fun acc byte => pushBits count 8 byte acc) [], b.drop n)

/-! ### types and values -/

/-- `HavokObjectTypeMember`; `ty` = `HavokValueType` bits (any subset of 0x3f is accepted by
`from_bits`), `cls` is read when the base type is OBJECT (8) or STRUCT (9) -/
structure Member where
  name : Bytes
  ty : Nat
  tuple : Int
  cls : Option Bytes
  deriving DecidableEq, Repr, Inhabited

/-- `HavokObjectType`; `all` is what `members()` returns: the parent's `members()` followed by the
type's own members (the parent `Arc` itself is not needed for anything else) -/
structure HType where
  name : Bytes
  own : List Member
  all : List Member
  deriving DecidableEq, Repr, Inhabited

def isTuple (ty : Nat) : Bool := ty &&& 0x20 != 0
def isArray (ty : Nat) : Bool := ty &&& 0x10 != 0
def baseType (ty : Nat) : Nat := ty &&& 0x0f
def isVecBase (b : Nat) : Bool := b == 4 || b == 5 || b == 6 || b == 7
/-- `vec_size` (only called on VEC4..VEC16) -/
def vecSize (b : Nat) : Nat := 4 * (b - 3)

/-- `HavokValue`; f32 as bit patterns -/
inductive Value where
  | int (v : Int)
  | real (v : UInt32)
  | str (s : Bytes)
  | vec (v : List UInt32)
  | arr (l : List Value)
  /-- `Object(..)` owning an element of a STRUCT array: its type and its `data` map -/
  | obj (ty : HType) (data : List (Nat × Value))
  /-- `ObjectReference(i)`, resolved against the remembered objects -/
  | ref (i : Nat)
  deriving Repr, Inhabited

/-- a remembered object: type and `data: HashMap<usize, HavokValue>` (keys are unique) -/
structure Obj where
  ty : HType
  data : List (Nat × Value)
  deriving Repr, Inhabited

structure St where
  /-- `file_version` -/
  ver : Nat
  strings : List Bytes
  types : List HType
  /-- `remembered_objects` (entry 0 is the empty object pushed by the FileInfo tag) -/
  objs : List Obj
  /-- one more than the largest object index stored in an `ObjectReference` so far -/
  refBound : Nat
  deriving Repr, Inhabited

/-- the built-in type `object` -/
def objectType : HType := ⟨[111, 98, 106, 101, 99, 116], [], []⟩

/-- `HavokBinaryTagFileReader::new` -/
def St.init : St := ⟨0, [[115, 116, 114, 105, 110, 103], []], [objectType], [], 0⟩

def St.noteRef (st : St) (i : Nat) : St := { st with refBound := max st.refBound (i + 1) }

/-! ### primitive reads -/

def readU8 : Bytes → Option (UInt8 × Bytes)
  | a :: r => some (a, r)
  | [] => none

def readF32 : Bytes → Option (UInt32 × Bytes)
  | a :: b :: c :: d :: r =>
    some (a.toUInt32 ||| (b.toUInt32 <<< 8) ||| (c.toUInt32 <<< 16) ||| (d.toUInt32 <<< 24), r)
  | _ => none

def readF32s : Nat → Bytes → Option (List UInt32 × Bytes)
  | 0, b => some ([], b)
  | n + 1, b =>
    match readF32 b with
    | none => none
    | some (v, b) =>
      match readF32s n b with
      | none => none
      | some (vs, b) => some (v :: vs, b)

/-- `read_string`: a negative length refers to a remembered string, otherwise the bytes follow, must
be UTF-8 (`from_utf8(..).unwrap()`) and are remembered -/
def readString (st : St) (b : Bytes) : Option (Bytes × St × Bytes) :=
  match readPackedInt b with
  | none => none
  | some (len, b) =>
    if len < 0 then
      match st.strings[(-len).toNat]? with
      | some s => some (s, st, b)
      | none => none
    else
      let n := len.toNat
      if b.length < n then none
      else
        let s := b.take n
        if StrF.validUtf8 s then some (s, { st with strings := st.strings ++ [s] }, b.drop n) else none

/-- `n` × `f st` threading state and input -/
def readMany {α : Type} (f : St → Bytes → Option (α × St × Bytes)) : Nat → St → Bytes → Option (List α × St × Bytes)
  | 0, st, b => some ([], st, b)
  | n + 1, st, b =>
    match f st b with
    | none => none
    | some (v, st, b) =>
      match readMany f n st b with
      | none => none
      | some (vs, st, b) => some (v :: vs, st, b)

def readStringV (st : St) (b : Bytes) : Option (Value × St × Bytes) :=
  (readString st b).map fun (s, st, b) => (.str s, st, b)

def readIntV (st : St) (b : Bytes) : Option (Value × St × Bytes) :=
  (readPackedInt b).map fun (v, b) => (.int v, st, b)

def readByteV (st : St) (b : Bytes) : Option (Value × St × Bytes) :=
  (readU8 b).map fun (v, b) => (.int v.toNat, st, b)

def readRealV (st : St) (b : Bytes) : Option (Value × St × Bytes) :=
  (readF32 b).map fun (v, b) => (.real v, st, b)

/-- `ObjectReference(self.read_packed_int() as usize)` -/
def readRefV (st : St) (b : Bytes) : Option (Value × St × Bytes) :=
  match readPackedInt b with
  | none => none
  | some (v, b) =>
    -- a negative index becomes a huge usize: the fix-up pass panics on it
    match asIndex v with
    | none => none
    | some i => some (.ref i, st.noteRef i, b)

def readVecV (size : Nat) (st : St) (b : Bytes) : Option (Value × St × Bytes) :=
  (readF32s size b).map fun (v, b) => (.vec v, st, b)

/-! ### type declarations -/

def readMember (st : St) (b : Bytes) : Option (Member × St × Bytes) :=
  match readString st b with
  | none => none
  | some (name, st, b) =>
    match readPackedInt b with
    | none => none
    | some (tyv, b) =>
      -- `HavokValueType::from_bits(x as u32).unwrap()`: only bits of 0x3f may be set
      if tyv < 0 ∨ 64 ≤ tyv then none
      else
        let ty := tyv.toNat
        match (if isTuple ty then readPackedInt b else some (0, b)) with
        | none => none
        | some (tuple, b) =>
          if baseType ty == 8 || baseType ty == 9 then
            match readString st b with
            | none => none
            | some (cls, st, b) => some (⟨name, ty, tuple, some cls⟩, st, b)
          else some (⟨name, ty, tuple, none⟩, st, b)

/-- `read_type` -/
def readType (st : St) (b : Bytes) : Option (HType × St × Bytes) :=
  match readString st b with
  | none => none
  | some (name, st, b) =>
    match readPackedInt b with
    | none => none
    | some (_version, b) =>
      match readPackedInt b with
      | none => none
      | some (parent, b) =>
        match readPackedInt b with
        | none => none
        | some (memberCount, b) =>
          -- `member_count as i64 > self.reader.raw().len() as i64` is rejected (panic)
          if (b.length : Int) < memberCount then none
          else
          match (asIndex parent).bind (st.types[·]?) with
          | none => none
          | some p =>
            -- `(0..member_count)` is empty for a negative count
            match readMany readMember memberCount.toNat st b with
            | none => none
            | some (ms, st, b) => some (⟨name, ms, p.all ++ ms⟩, st, b)

/-- `find_type`: the first remembered type of that name -/
def findType (st : St) (name : Bytes) : Option HType := st.types.find? (·.name == name)

/-- `HavokObjectType::member_count()` (fixed: all inherited members, as `members()`) -/
def memberCount (t : HType) : Nat := t.all.length

/-! ### values -/

/-- `default_value` (fixed): arrays and tuples are empty arrays, vectors are zero vectors, scalars
zero / empty / reference to object 0; STRUCT scalars stay unimplemented -/
def defaultValue (st : St) (ty : Nat) : Option (Value × St) :=
  if isArray ty || isTuple ty then some (.arr [], st)
  else if isVecBase (baseType ty) then some (.vec (List.replicate (vecSize (baseType ty)) 0), st)
  else if ty == 0 || ty == 1 || ty == 2 then some (.int 0, st)
  else if ty == 3 then some (.real 0, st)
  else if ty == 10 then some (.str [], st)
  else if ty == 8 then some (.ref 0, st.noteRef 0)
  else none

/-- the `data` of element `i` of a STRUCT array from its columns -/
def rowOf (cols : List (Nat × List Value)) (i : Nat) : List (Nat × Value) :=
  cols.filterMap fun (k, col) => col[i]?.map fun v => (k, v)

/-- the struct-of-arrays loop over `target_type.members()`: `ex` = the rest of `data_existence`
(indexing past its end panics), `idx` = `member_index`, `ra` = `read_array` -/
def readColumnsWith (ra : St → Member → Nat → Bytes → Option (List Value × St × Bytes)) :
    St → List Member → List Bool → Nat → Nat → Bytes → Option (List (Nat × List Value) × St × Bytes)
  | st, [], _, _, _, b => some ([], st, b)
  | _, _ :: _, [], _, _, _ => none
  | st, m :: ms, e :: es, idx, len, b =>
    if e then
      if isTuple m.ty then none
      else
        match ra st m len b with
        | none => none
        | some (col, st, b) =>
          match readColumnsWith ra st ms es (idx + 1) len b with
          | none => none
          | some (cols, st, b) => some ((idx, col) :: cols, st, b)
    else readColumnsWith ra st ms es (idx + 1) len b

/-- the deepest nesting of STRUCT arrays the reader accepts (`MAX_ARRAY_DEPTH`) -/
def maxArrayDepth : Nat := 32

/-- `read_array`; the fuel is `MAX_ARRAY_DEPTH + 1 - depth`: the reader returns `None` at
`depth > MAX_ARRAY_DEPTH` -/
def readArray : Nat → St → Member → Nat → Bytes → Option (List Value × St × Bytes)
  | 0, _, _, _, _ => none
  | fuel + 1, st, m, len, b =>
    let base := baseType m.ty
    if base == 10 then readMany readStringV len st b
    else if base == 9 then
      match m.cls.bind (findType st) with
      | none => none
      | some t =>
        match readBitField (memberCount t) b with
        | none => none
        | some (ex, b) =>
          match readColumnsWith (readArray fuel) st t.all ex 0 len b with
          | none => none
          | some (cols, st, b) =>
            some ((List.range len).map (fun i => Value.obj t (rowOf cols i)), st, b)
    else if base == 8 then readMany readRefV len st b
    else if base == 1 then readMany readByteV len st b
    else if base == 2 then
      match (if 3 ≤ st.ver then (readPackedInt b).map (·.2) else some b) with
      | none => none
      | some b => readMany readIntV len st b
    else if base == 3 then readMany readRealV len st b
    else if isVecBase base then readMany (readVecV (vecSize base)) len st b
    else none

/-- `read_object_member_value` -/
def readMemberValue (fuel : Nat) (st : St) (m : Member) (b : Bytes) : Option (Value × St × Bytes) :=
  if isArray m.ty then
    match readPackedInt b with
    | none => none
    | some (len, b) =>
      -- `array_len < 0 || array_len as usize > self.reader.raw().len()` is rejected (panic)
      match asIndex len with
      | none => none
      | some len =>
        if b.length < len then none
        else (readArray fuel st m len b).map fun (l, st, b) => (.arr l, st, b)
  else if m.ty == 1 then readByteV st b
  else if m.ty == 2 then readIntV st b
  else if m.ty == 3 then readRealV st b
  else if m.ty == 10 then readStringV st b
  else if m.ty == 8 then readRefV st b
  else none

/-- the `members.into_iter().enumerate().map(..)` of `read_object` -/
def readMembers (fuel : Nat) : St → List Member → List Bool → Nat → Bytes →
    Option (List (Nat × Value) × St × Bytes)
  | st, [], _, _, b => some ([], st, b)
  | _, _ :: _, [], _, _ => none
  | st, m :: ms, e :: es, idx, b =>
    match (if e then readMemberValue fuel st m b
           else (defaultValue st m.ty).map fun (v, st) => (v, st, b)) with
    | none => none
    | some (v, st, b) =>
      match readMembers fuel st ms es (idx + 1) b with
      | none => none
      | some (vs, st, b) => some ((idx, v) :: vs, st, b)

/-- `read_object` -/
def readObject (fuel : Nat) (st : St) (b : Bytes) : Option (Obj × St × Bytes) :=
  match readPackedInt b with
  | none => none
  | some (ti, b) =>
    match (asIndex ti).bind (st.types[·]?) with
    | none => none
    | some t =>
      match readBitField t.all.length b with
      | none => none
      | some (ex, b) =>
        match readMembers fuel st t.all ex 0 b with
        | none => none
        | some (data, st, b) => some (⟨t, data⟩, st, b)

/-- the tag loop of `do_read`; every iteration consumes at least one byte -/
def tagLoop : Nat → St → Bytes → Option St
  | 0, _, _ => none
  | fuel + 1, st, b =>
    match readPackedInt b with
    | none => none
    | some (tag, b) =>
      -- `read_packed_int() as u8`
      let t := (tag % 256).toNat
      if t == 1 then
        match readPackedInt b with
        | none => none
        | some (v, b) =>
          let ver := (v % 256).toNat
          if ver != 3 then none
          else
            match st.types with
            | [] => none
            | t0 :: _ => tagLoop fuel { st with ver := ver, objs := st.objs ++ [⟨t0, []⟩] } b
      else if t == 2 then
        match readType st b with
        | none => none
        | some (ty, st, b) => tagLoop fuel { st with types := st.types ++ [ty] } b
      else if t == 4 then
        match readObject (maxArrayDepth + 1) st b with
        | none => none
        | some (o, st, b) => tagLoop fuel { st with objs := st.objs ++ [o] } b
      else if t == 7 then some st
      else none

/-- `HavokBinaryTagFileReader::read`: signature, tag loop, reference fix-up (every object index that
was read must be remembered); the result is the table of remembered objects, the root is entry 1 -/
def read (data : Bytes) : Option (List Obj) :=
  match readF32 data with
  | none => none
  | some (s1, b) =>
    match readF32 b with
    | none => none
    | some (s2, b) =>
      if s1 != 0xCAB00D1E || s2 != 0xD011FACE then none
      else
        match tagLoop (b.length + 1) St.init b with
        | none => none
        | some st =>
          if st.refBound ≤ st.objs.length ∧ 1 < st.objs.length then some st.objs else none

/-! ### the bound on the number of struct-array elements (`struct_elements_left`)

Not part of `read` (see `props/C16.json`, assumptions): the reader starts with one element per byte of
the tag file and does `struct_elements_left.checked_sub(array_len)?` for every STRUCT array it reads,
nested ones included.  The counter only ever decreases and nothing else depends on it, so the bounded
reader returns what `read` returns when the struct elements of the whole file (every `Value.obj`: the
elements are stored in line) number at most `data.length`, and `None` otherwise.  `readBounded` is
used for damaged files (correspondence family `mut`), where the bound can trip. -/

mutual
/-- the struct-array elements stored in a value, nested ones included -/
def Value.structElems : Value → Nat
  | .arr l => structElemsList l
  | .obj _ data => 1 + structElemsData data
  | _ => 0
def structElemsList : List Value → Nat
  | [] => 0
  | v :: r => v.structElems + structElemsList r
def structElemsData : List (Nat × Value) → Nat
  | [] => 0
  | (_, v) :: r => v.structElems + structElemsData r
end

def structElemsObjs : List Obj → Nat
  | [] => 0
  | o :: r => structElemsData o.data + structElemsObjs r

/-- `HavokBinaryTagFileReader::read` with the bound `struct_elements_left` -/
def readBounded (data : Bytes) : Option (List Obj) :=
  match read data with
  | none => none
  | some objs => if structElemsObjs objs ≤ data.length then some objs else none

/-! ### object access and the skeleton extraction -/

/-- `HavokObject::get`: position of the first member of that name in `members()`, then the map entry -/
def getMember (ty : HType) (data : List (Nat × Value)) (name : Bytes) : Option Value :=
  match ty.all.findIdx? (·.name == name) with
  | none => none
  | some i => (data.find? (·.1 == i)).map (·.2)

/-- `as_object().borrow()` on a value of the fixed-up graph -/
def asObject (objs : List Obj) : Value → Option Obj
  | .obj ty data => some ⟨ty, data⟩
  | .ref i => objs[i]?
  | _ => none

def asArray : Value → Option (List Value)
  | .arr l => some l
  | _ => none

def asString : Value → Option Bytes
  | .str s => some s
  | _ => none

def asInt : Value → Option Int
  | .int v => some v
  | _ => none

def asVec : Value → Option (List UInt32)
  | .vec v => some v
  | _ => none

def Obj.get (o : Obj) (name : Bytes) : Option Value := getMember o.ty o.data name

/-! member and class names the extraction looks up (explicit bytes: string literals do not reduce) -/
def n_namedVariants : Bytes := [110, 97, 109, 101, 100, 86, 97, 114, 105, 97, 110, 116, 115]
def n_className : Bytes := [99, 108, 97, 115, 115, 78, 97, 109, 101]
def n_variant : Bytes := [118, 97, 114, 105, 97, 110, 116]
def n_hkaAnimationContainer : Bytes := [104, 107, 97, 65, 110, 105, 109, 97, 116, 105, 111, 110, 67, 111, 110, 116, 97, 105, 110, 101, 114]
def n_skeletons : Bytes := [115, 107, 101, 108, 101, 116, 111, 110, 115]
def n_bindings : Bytes := [98, 105, 110, 100, 105, 110, 103, 115]
def n_bones : Bytes := [98, 111, 110, 101, 115]
def n_name : Bytes := [110, 97, 109, 101]
def n_parentIndices : Bytes := [112, 97, 114, 101, 110, 116, 73, 110, 100, 105, 99, 101, 115]
def n_referencePose : Bytes := [114, 101, 102, 101, 114, 101, 110, 99, 101, 80, 111, 115, 101]

/-- `HavokRootObject::find_object_by_type` -/
def findVariant (objs : List Obj) (cls : Bytes) : List Value → Option Obj
  | [] => none
  | v :: rest =>
    match asObject objs v with
    | none => none
    | some vo =>
      match (vo.get n_className).bind asString with
      | none => none
      | some c =>
        if c == cls then (vo.get n_variant).bind (asObject objs)
        else findVariant objs cls rest

structure Bone where
  name : Bytes
  /-- `parent_indices[i] as i32` -/
  parent : Int
  position : UInt32 × UInt32 × UInt32
  rotation : UInt32 × UInt32 × UInt32 × UInt32
  scale : UInt32 × UInt32 × UInt32
  deriving DecidableEq, Repr

/-- `HavokTransform`: translation, rotation, scale (four floats each) -/
structure Transform where
  t : UInt32 × UInt32 × UInt32 × UInt32
  r : UInt32 × UInt32 × UInt32 × UInt32
  s : UInt32 × UInt32 × UInt32 × UInt32
  deriving DecidableEq, Repr

/-- `HavokTransform::new`: `vec[0]` .. `vec[11]` are indexed (a shorter vector panics) -/
def transformOf : List UInt32 → Option Transform
  | t0 :: t1 :: t2 :: t3 :: r0 :: r1 :: r2 :: r3 :: s0 :: s1 :: s2 :: s3 :: _ =>
    some ⟨(t0, t1, t2, t3), (r0, r1, r2, r3), (s0, s1, s2, s3)⟩
  | _ => none

/-- `HavokSkeleton::new`: bone names, parent indices, reference pose -/
def skeletonOf (objs : List Obj) (o : Obj) : Option (List Bytes × List Int × List Transform) :=
  match (o.get n_bones).bind asArray with
  | none => none
  | some bones =>
    match bones.mapM (fun x => (asObject objs x).bind fun bo => (bo.get n_name).bind asString) with
    | none => none
    | some names =>
      match (o.get n_parentIndices).bind asArray with
      | none => none
      | some pis =>
        match pis.mapM asInt with
        | none => none
        | some parents =>
          match (o.get n_referencePose).bind asArray with
          | none => none
          | some poses =>
            match poses.mapM (fun x => (asVec x).bind transformOf) with
            | none => none
            | some ts => some (names, parents, ts)

/-- the loop of `Skeleton::from_existing` over `bone_names` -/
def bonesOf (parents : List Int) (poses : List Transform) : List Bytes → Nat → Option (List Bone)
  | [], _ => some []
  | n :: ns, i =>
    match parents[i]?, poses[i]? with
    | some p, some t =>
      (bonesOf parents poses ns (i + 1)).map fun r =>
        ⟨n, p, (t.t.1, t.t.2.1, t.t.2.2.1), t.r, (t.s.1, t.s.2.1, t.s.2.2.1)⟩ :: r
    | _, _ => none

inductive Extract where
  | bones (l : List Bone)
  /-- `None` (an object of another shape than expected) -/
  | reject
  /-- the container has animation bindings: outside the modelled part (skeleton files have none) -/
  | unmodelled
  deriving DecidableEq, Repr

/-- `find_object_by_type("hkaAnimationContainer")`, `HavokAnimationContainer::new`, `skeletons[0]`
and the bone loop -/
def extract (objs : List Obj) : Extract :=
  match objs[1]? with
  | none => .reject
  | some root =>
    match ((root.get n_namedVariants).bind asArray).bind
        (findVariant objs n_hkaAnimationContainer) with
    | none => .reject
    | some container =>
      match (container.get n_skeletons).bind asArray with
      | none => .reject
      | some sks =>
        match sks.mapM (fun x => (asObject objs x).bind (skeletonOf objs)) with
        | none => .reject
        | some skeletons =>
          match (container.get n_bindings).bind asArray with
          | none => .reject
          | some bindings =>
            if !bindings.isEmpty then .unmodelled
            else
              match skeletons with
              | [] => .reject
              | (names, parents, poses) :: _ =>
                match bonesOf parents poses names 0 with
                | none => .reject
                | some l => .bones l

end Physis.Havok
