/-!
Bit-level IEEE-754 binary32 arithmetic (round to nearest, ties to even) for the few operations
`src/tera.rs` performs: `u32 as f32`, `i16 as f32`, `+`, `-`, `*`, division by a power of two and the
saturating cast `f32 as i16`.  Values are u32 bit patterns.  A finite value is a dyadic
`(-1)^neg · m · 2^e`; every operation computes the exact dyadic result and rounds once.
Lean's `Float32` is opaque to the kernel, hence this software model; it is compared with the
hardware on every run by the C16 correspondence (random bit patterns and all 65 536 plate coordinates).
-/
namespace Physis.F32Arith

inductive Val where
  | nan
  | inf (neg : Bool)
  | fin (neg : Bool) (m : Nat) (e : Int)
  deriving Repr, DecidableEq

/-! The arithmetic is written on `Nat` bit patterns (`< 2^32`) so that the kernel can evaluate it with
its built-in natural-number arithmetic; the `UInt32` entry points below only wrap. -/

def decodeN (b : Nat) : Val :=
  let neg := b / 2 ^ 31 % 2 == 1
  let ex : Nat := b / 2 ^ 23 % 256
  let fr : Nat := b % 2 ^ 23
  if ex == 255 then (if fr == 0 then .inf neg else .nan)
  else if ex == 0 then .fin neg fr (-149)
  else .fin neg (fr + 2 ^ 23) ((ex : Int) - 150)

def signBitN (neg : Bool) : Nat := if neg then 2 ^ 31 else 0

/-- `m / 2^s` rounded to nearest, ties to even -/
def rne (m s : Nat) : Nat :=
  if s == 0 then m else
  let fl := m >>> s
  let rem := m % 2 ^ s
  let half := 2 ^ (s - 1)
  if rem > half || (rem == half && fl % 2 == 1) then fl + 1 else fl

/-- the binary32 nearest to `(-1)^neg · m · 2^e` (overflow gives infinity) -/
def roundN (neg : Bool) (m : Nat) (e : Int) : Nat :=
  if m == 0 then signBitN neg else
  let l : Int := Nat.log2 m
  -- exponent of the unit in the last place: 24 significant bits, not below 2^-149
  let q : Int := max (l + e - 23) (-149)
  let mant := if e ≥ q then m <<< (e - q).toNat else rne m (q - e).toNat
  let (mant, q) := if mant == 2 ^ 24 then (2 ^ 23, q + 1) else (mant, q)
  if mant < 2 ^ 23 then signBitN neg + mant
  else
    let ex := q + 150
    if ex ≥ 255 then signBitN neg + 0x7F800000
    else signBitN neg + ex.toNat * 2 ^ 23 + (mant - 2 ^ 23)

def canonicalNaN : Nat := 0x7FC00000

def encodeN : Val → Nat
  | .nan => canonicalNaN
  | .inf neg => signBitN neg + 0x7F800000
  | .fin neg m e => roundN neg m e

def mulV : Val → Val → Val
  | .nan, _ => .nan
  | _, .nan => .nan
  | .inf a, .inf b => .inf (a != b)
  | .inf a, .fin b m _ => if m == 0 then .nan else .inf (a != b)
  | .fin a m _, .inf b => if m == 0 then .nan else .inf (a != b)
  | .fin a m e, .fin b n f => .fin (a != b) (m * n) (e + f)

def negV : Val → Val
  | .nan => .nan
  | .inf a => .inf (!a)
  | .fin a m e => .fin (!a) m e

def addV : Val → Val → Val
  | .nan, _ => .nan
  | _, .nan => .nan
  | .inf a, .inf b => if a == b then .inf a else .nan
  | .inf a, .fin .. => .inf a
  | .fin .., .inf b => .inf b
  | .fin a m e, .fin b n f =>
    let g := min e f
    let x : Nat := m <<< (e - g).toNat
    let y : Nat := n <<< (f - g).toNat
    if a == b then .fin a (x + y) g
    else if x == y then .fin false 0 g
    else if x > y then .fin a (x - y) g
    else .fin b (y - x) g

def mulN (a b : Nat) : Nat := encodeN (mulV (decodeN a) (decodeN b))
def addN (a b : Nat) : Nat := encodeN (addV (decodeN a) (decodeN b))
def subN (a b : Nat) : Nat := encodeN (addV (decodeN a) (negV (decodeN b)))

/-- `a / 2^k` (IEEE division is correctly rounded, and the divisor is an exact power of two) -/
def divPow2N (a : Nat) (k : Nat) : Nat :=
  match decodeN a with
  | .fin neg m e => roundN neg m (e - k)
  | v => encodeN v

/-- `n as f32` for `n : u32` -/
def ofU32N (n : Nat) : Nat := roundN false n 0
/-- `x as f32` for `x : i16` given as its u16 bit pattern -/
def ofI16N (x : Nat) : Nat :=
  if x < 32768 then roundN false x 0 else roundN true (65536 - x) 0

/-- `a as i16`: truncation toward zero, saturating, NaN ↦ 0; result as u16 bit pattern -/
def toI16N (a : Nat) : Nat :=
  match decodeN a with
  | .nan => 0
  | .inf neg => if neg then 0x8000 else 0x7FFF
  | .fin neg m e =>
    let t : Nat := if e ≥ 0 then m <<< e.toNat else m >>> (-e).toNat
    if neg then (if t ≥ 32768 then 0x8000 else (65536 - t) % 65536)
    else (if t ≥ 32767 then 0x7FFF else t)

def halfN : Nat := 0x3F000000

def mul (a b : UInt32) : UInt32 := UInt32.ofNat (mulN a.toNat b.toNat)
def add (a b : UInt32) : UInt32 := UInt32.ofNat (addN a.toNat b.toNat)
def sub (a b : UInt32) : UInt32 := UInt32.ofNat (subN a.toNat b.toNat)
def divPow2 (a : UInt32) (k : Nat) : UInt32 := UInt32.ofNat (divPow2N a.toNat k)
def ofU32 (n : UInt32) : UInt32 := UInt32.ofNat (ofU32N n.toNat)
def ofI16 (x : UInt16) : UInt32 := UInt32.ofNat (ofI16N x.toNat)
def toI16 (a : UInt32) : UInt16 := UInt16.ofNat (toI16N a.toNat)

def half : UInt32 := 0x3F000000
def one : UInt32 := 0x3F800000

end Physis.F32Arith
