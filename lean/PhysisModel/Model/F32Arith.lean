/-!
Bit-level IEEE-754 binary32 arithmetic (round to nearest, ties to even) for the few operations
`src/tera.rs` performs: `u32 as f32`, `i16 as f32`, `+`, `-`, `*`, division by a power of two and the
saturating cast `f32 as i16`.  Values are u32 bit patterns.

Every finite binary32 is an integer multiple of 2^-149 below 2^128, and a product of two of them an
integer multiple of 2^-298 below 2^256; so the magnitude of every exact intermediate result fits a
**576-bit fixed-point number in units of 2^-298** (`Fix`).  Each operation computes the exact result
in `Fix` and rounds once (`round`).  Only fixed-width bit-vector operations are used, so that facts
about all 65 536 plate coordinates can be discharged by `bv_decide (timeout := 300)` (Lean's `Float32` is opaque to the
kernel).  The model is compared with the hardware on every run by the C16 correspondence (random bit
patterns through the terrain writer, all 65 536 coordinates through reader and writer).
-/
namespace Physis.F32Arith

notation "Fix" => BitVec 576

def isNaN (b : UInt32) : Bool := (b &&& 0x7FFFFFFF) > 0x7F800000
def isInf (b : UInt32) : Bool := (b &&& 0x7FFFFFFF) == 0x7F800000
def isNeg (b : UInt32) : Bool := b ≥ 0x80000000
def expField (b : UInt32) : UInt32 := (b >>> 23) &&& 0xFF
/-- significand with the implicit bit (absent for subnormals) -/
def mant (b : UInt32) : UInt32 :=
  if expField b == 0 then b &&& 0x7FFFFF else (b &&& 0x7FFFFF) ||| 0x800000
/-- a finite `b` has magnitude `mant b · 2^(sh b − 150)` -/
def sh (b : UInt32) : UInt32 := if expField b == 0 then 1 else expField b

/-- magnitude of a finite `b` in units of 2^-298 -/
def magFix (b : UInt32) : Fix :=
  (BitVec.setWidth 576 (mant b).toBitVec) <<< (BitVec.setWidth 16 (sh b).toBitVec + 148)

/-- index of the most significant set bit (0 for 0), by binary search -/
def msb (x : Fix) : BitVec 16 :=
  let p9 : BitVec 16 := if x >>> 512 ≠ 0 then 512 else 0
  let p8 := p9 + (if x >>> (p9 + 256) ≠ 0 then 256 else 0)
  let p7 := p8 + (if x >>> (p8 + 128) ≠ 0 then 128 else 0)
  let p6 := p7 + (if x >>> (p7 + 64) ≠ 0 then 64 else 0)
  let p5 := p6 + (if x >>> (p6 + 32) ≠ 0 then 32 else 0)
  let p4 := p5 + (if x >>> (p5 + 16) ≠ 0 then 16 else 0)
  let p3 := p4 + (if x >>> (p4 + 8) ≠ 0 then 8 else 0)
  let p2 := p3 + (if x >>> (p3 + 4) ≠ 0 then 4 else 0)
  let p1 := p2 + (if x >>> (p2 + 2) ≠ 0 then 2 else 0)
  p1 + (if x >>> (p1 + 1) ≠ 0 then 1 else 0)

def signBit (neg : Bool) : UInt32 := if neg then 0x80000000 else 0

/-- exponent and significand fields of the binary32 nearest to `x · 2^-298` (ties to even).
`s` low bits do not fit the significand: a normal result (leading bit at 172 = 2^-126 or above) keeps
24 significant bits, a subnormal one has the fixed unit 2^-149.  `e` is the exponent field minus one
(the leading significand bit adds the one; so does a carry out of the rounded significand).
Overflow gives infinity. -/
def roundMag (x : Fix) : UInt32 :=
  let p := msb x
  let s : BitVec 16 := if p ≥ 172 then p - 23 else 149
  let e : BitVec 16 := if p ≥ 172 then p - 172 else 0
  -- `t` keeps one bit more than the result: the guard bit; `sticky` = some lower bit is set
  let t := x >>> (s - 1)
  let fl := t >>> 1
  let guard := t &&& 1 = 1
  let sticky := (t <<< (s - 1)) ≠ x
  -- above the midpoint, or exactly at it and the truncated significand is odd
  let m := if guard ∧ (sticky ∨ fl &&& 1 = 1) then fl + 1 else fl
  let r : BitVec 32 := (BitVec.setWidth 32 e <<< 23) + BitVec.setWidth 32 m
  if r ≥ 0x7F800000 then 0x7F800000 else ⟨r⟩

def round (neg : Bool) (x : Fix) : UInt32 := signBit neg ||| roundMag x

def canonicalNaN : UInt32 := 0x7FC00000

def mul (a b : UInt32) : UInt32 :=
  if isNaN a ∨ isNaN b then canonicalNaN
  else if isInf a ∨ isInf b then
    (if (a &&& 0x7FFFFFFF) == 0 ∨ (b &&& 0x7FFFFFFF) == 0 then canonicalNaN
     else signBit (isNeg a != isNeg b) ||| 0x7F800000)
  else
    round (isNeg a != isNeg b)
      ((BitVec.setWidth 576 ((BitVec.setWidth 64 (mant a).toBitVec) * (BitVec.setWidth 64 (mant b).toBitVec))) <<<
        (BitVec.setWidth 16 (sh a).toBitVec + BitVec.setWidth 16 (sh b).toBitVec - 2))

def add (a b : UInt32) : UInt32 :=
  if isNaN a ∨ isNaN b then canonicalNaN
  else if isInf a then (if isInf b ∧ isNeg a != isNeg b then canonicalNaN else a)
  else if isInf b then b
  else if isNeg a == isNeg b then round (isNeg a) (magFix a + magFix b)
  else if magFix a = magFix b then 0
  else if magFix a > magFix b then round (isNeg a) (magFix a - magFix b)
  else round (isNeg b) (magFix b - magFix a)

def neg (a : UInt32) : UInt32 := a ^^^ 0x80000000

def sub (a b : UInt32) : UInt32 := add a (neg b)

/-- `a / 2^k` for `k ≤ 149` (IEEE division is correctly rounded; the divisor is an exact power of two,
and every `magFix` is a multiple of 2^149, so the shift is exact) -/
def divPow2 (a : UInt32) (k : Nat) : UInt32 :=
  if isNaN a then canonicalNaN
  else if isInf a then a
  else round (isNeg a) (magFix a >>> k)

/-- `n as f32` for `n : u32` -/
def ofU32 (n : UInt32) : UInt32 := round false ((BitVec.setWidth 576 n.toBitVec) <<< 298)

/-- `x as f32` for `x : i16` given as its u16 bit pattern -/
def ofI16 (x : UInt16) : UInt32 :=
  if x ≥ 0x8000 then round true ((BitVec.setWidth 576 (0 - x).toBitVec) <<< 298)
  else round false ((BitVec.setWidth 576 x.toBitVec) <<< 298)

/-- `a as i16`: truncation toward zero, saturating, NaN ↦ 0; result as u16 bit pattern -/
def toI16 (a : UInt32) : UInt16 :=
  if isNaN a then 0
  else if isInf a then (if isNeg a then 0x8000 else 0x7FFF)
  else if isNeg a then
    (if (magFix a >>> 298) ≥ 32768 then 0x8000 else 0 - ⟨BitVec.setWidth 16 (magFix a >>> 298)⟩)
  else (if (magFix a >>> 298) ≥ 32767 then 0x7FFF else ⟨BitVec.setWidth 16 (magFix a >>> 298)⟩)

def half : UInt32 := 0x3F000000
def one : UInt32 := 0x3F800000

end Physis.F32Arith
