import PhysisModel.Base.Bytes
/-!
Models of the Rust standard-library text operations used by `src/cfg.rs` and `src/exl.rs`, on the
UTF-8 bytes of the text (`String` = valid UTF-8; the structural characters are ASCII, and an ASCII
byte never occurs inside a multi-byte sequence, so byte-wise search equals `char` search):

* `BufRead::lines()` — `read_until(b'\n')` repeatedly; a final `\n` is removed and then one `\r`
  before it; a last piece without `\n` is a line as it stands (its `\r` stays); no piece ⇒ end.
* `str::split_once(char)`, `str::contains(char)`, `&s[a..b]` (panics off a char boundary or when
  `a > b` / `b > len`), `i32::from_str` (optional single sign, ≥ 1 ASCII digits, overflow ⇒ `Err`).

Assumption (listed in props/C08.json): the input is valid UTF-8 (on invalid UTF-8 `lines()`
yields `Err` and `map_while(Result::ok)` stops there — outside C08's quantifier, C17's concern).
-/
namespace Physis.StrLines

/-- pieces produced by repeated `read_until(b'\n')`: content without the LF, and whether an LF ended it -/
def rawLines : Bytes → List (Bytes × Bool)
  | [] => []
  | b :: rest =>
    if b = 10 then ([], true) :: rawLines rest
    else match rawLines rest with
      | [] => [([b], false)]
      | (l, t) :: more => (b :: l, t) :: more

/-- `if buf.ends_with('\n') { buf.pop(); if buf.ends_with('\r') { buf.pop(); } }` -/
def stripEol (p : Bytes × Bool) : Bytes :=
  if p.2 then (if p.1.getLast? = some 13 then p.1.dropLast else p.1) else p.1

/-- `BufReader::new(Cursor::new(buffer)).lines()` on valid UTF-8 -/
def lines (b : Bytes) : List Bytes := (rawLines b).map stripEol

/-- `str::split_once(d)` for an ASCII delimiter -/
def splitOnce (d : UInt8) : Bytes → Option (Bytes × Bytes)
  | [] => none
  | b :: rest =>
    if b = d then some ([], rest)
    else match splitOnce d rest with
      | some (k, v) => some (b :: k, v)
      | none => none

/-- UTF-8 continuation byte `10xxxxxx` -/
def isCont (b : UInt8) : Bool := b &&& 0xC0 == 0x80

/-- `str::is_char_boundary(i)` on valid UTF-8 -/
def isBoundary (l : Bytes) (i : Nat) : Bool :=
  match l[i]? with
  | none => i == l.length
  | some b => !isCont b

/-- `&s[a..e]`; `none` stands for the panic (`a > e`, `e > len`, or not on a char boundary) -/
def slice (l : Bytes) (a e : Nat) : Option Bytes :=
  if a ≤ e ∧ e ≤ l.length ∧ isBoundary l a ∧ isBoundary l e then some ((l.drop a).take (e - a)) else none

def isDigit (b : UInt8) : Bool := 48 ≤ b && b ≤ 57

/-- value of a non-empty all-digit string (unbounded); `none` = `InvalidDigit` / `Empty` -/
def parseDigits (s : Bytes) : Option Nat :=
  if s = [] then none
  else s.foldl (fun acc b => match acc with
      | some n => if isDigit b then some (n * 10 + (b.toNat - 48)) else none
      | none => none) (some 0)

/-- `str::parse::<i32>()`.  Rust accumulates with checked arithmetic; as the running value never
decreases, an intermediate overflow happens iff the final value is out of range, so the range
test on the unbounded value gives the same answer. -/
def parseI32 (s : Bytes) : Option Int :=
  match s with
  | [] => none
  | c :: rest =>
    if c = 45 then
      match parseDigits rest with
      | some n => if n ≤ 2147483648 then some (-(n : Int)) else none
      | none => none
    else if c = 43 then
      match parseDigits rest with
      | some n => if n ≤ 2147483647 then some (n : Int) else none
      | none => none
    else
      match parseDigits s with
      | some n => if n ≤ 2147483647 then some (n : Int) else none
      | none => none

/-- `str::starts_with(c)` for an ASCII `c` -/
def startsWith (c : UInt8) (s : Bytes) : Bool := s.head? == some c

end Physis.StrLines
