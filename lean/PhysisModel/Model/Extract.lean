import PhysisModel.Model.GameData
import PhysisModel.Model.Dat
/-!
`GameData::extract` in full: `find_entry`, `get_dat_file` (open `<game>/sqpack/<repo>/<dat name>`),
`SqPackData::read_from_offset(entry.offset)` — the composition of the C01 and C02 models.
Outer `none` = panic, inner `none` = `None`.
-/
namespace Physis.GameData
open Physis

def extractFull (inflate : Dat.Inflate) (disk : Disk) (g : GameData) (path : Bytes) :
    Option (Option Bytes) × GameData :=
  match extractQ disk g path with
  | (.dat none, g) => (some none, g)
  | (.dat (some (k, off)), g) =>
    -- `SqPackData::from_existing(dat_path)?`
    match disk k.1 k.2 with
    | none => (some none, g)
    | some content => (Dat.readFromOffset inflate content off.toNat, g)
  | (_, g) => (none, g)

end Physis.GameData
