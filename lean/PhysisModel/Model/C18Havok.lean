import PhysisModel.Base.ParserA
/-!
# `Skeleton::from_existing` (`src/skeleton.rs`, `src/havok/*.rs`) as repaired by `fixes/C18-70..78`

Fault-tracking model (C18) of the SKLB container header (binrw, `fixes/C18-64`) and of the Havok binary
tag-file reader behind it.  Since the fixes every failure of that reader is an ordinary `None`
(`P.failP` / an end-of-input error of a primitive): reads go through `ByteReader::try_read*`, every
table access is `.get(..)?`, `read_packed_int` uses `checked_shl` / `checked_neg`, unknown tags and
member kinds `return None`.  What is left to *prove* about the code is therefore

* **termination**: the tag loop (`loop { match read tag .. }`) has no bound of its own - the model gives
  it the fuel `remaining + 1` and reports the fault `fuel` when it runs out; `tagStep_consumes` shows
  that every iteration consumes input.  `read_packed_int` reads at most six bytes (the shift sequence
  6, 13, 20, 27 is fixed: `packedTail` recurses over it).  `read_array` recurses through struct columns:
  the code stops at `depth > MAX_ARRAY_DEPTH`, the model recurses on `MAX_ARRAY_DEPTH + 1 - depth`.
  Everything else is a `for` over a collection already in memory or over a count checked against the
  remaining input (structural recursion);
* **allocation**: the requests whose size is *read from the file* are the string literals
  (`try_read_bytes(length)?.to_owned()`, made after the bytes were found to be there:
  `P.countBytesChecked`).  Arrays, member lists and struct elements grow element by element
  (`collect::<Option<Vec<_>>>()` has no size hint, `push`); their number is bounded by the checks
  `array_len <= remaining input`, `member_count <= remaining input` and the total number of struct
  elements by `struct_elements_left` (one per byte of the tag file) - all three are in the model.
  Allocations sized by a collection that is already in memory (the `Vec<bool>` of `read_bit_field`
  for `members().len()`, `members()` itself) are not requests read from the input.

`raw_data` (`until_eof` into a `Vec<u8>`) is the rest of the file from `havok_offset`; the model runs
the tag-file reader directly on the cursor at that offset instead of copying it.
`Arc<RefCell<HavokObject>>` sharing is modelled by value as in `Model/Havok.lean` (C16): struct elements
in line, references as indices resolved against the remembered objects; the fix-up pass, which only
fails when an index is out of range, is the comparison of `refBound` with the number of objects.
Tables are `Array`s and the parent of a type is held by value (shared, as the `Arc` is), so that the
driver runs the 1 MiB witnesses (150 000 objects, 120 000 chained types) in linear time.

Not modelled (outside what a cursor model can say, repaired and exercised by witnesses only): the
recursion of drop glue (`fixes/C18-77`, `C18-78`).
-/
namespace Physis.C18Havok
open Physis Physis.A

/-! ### state-threading loops (lemmas in `Proofs/C18Havok.lean`) -/

section Loops
variable {α β σ : Type}

def iterGo (f : σ → P (α × σ)) (w : Bytes) : Nat → σ → St → Nat → List α → Res ((List α × σ) × St)
  | 0, a, s, pk, acc => ⟨.ok ((acc.reverse, a), s), pk⟩
  | n + 1, a, s, pk, acc =>
    match f a w s with
    | ⟨.ok ((x, a'), s'), k⟩ => iterGo f w n a' s' (max pk k) (x :: acc)
    | ⟨.fail e, k⟩ => ⟨.fail e, max pk k⟩
    | ⟨.fault x, k⟩ => ⟨.fault x, max pk k⟩

/-- `(0..n).map(|_| f(&mut self)).collect::<Option<Vec<_>>>()`: `n` reads that thread the reader
state, stopping at the first failure -/
@[inline] def iterN (n : Nat) (f : σ → P (α × σ)) (a : σ) : P (List α × σ) :=
  fun w s => iterGo f w n a s 0 []

def loopGo (step : σ → P (Sum σ β)) (w : Bytes) : Nat → σ → St → Nat → Res (β × St)
  | 0, _, _, pk => ⟨.fault .fuel, pk⟩
  | f + 1, a, s, pk =>
    match step a w s with
    | ⟨.ok (.inl a', s'), k⟩ => loopGo step w f a' s' (max pk k)
    | ⟨.ok (.inr b, s'), k⟩ => ⟨.ok (b, s'), max pk k⟩
    | ⟨.fail e, k⟩ => ⟨.fail e, max pk k⟩
    | ⟨.fault x, k⟩ => ⟨.fault x, max pk k⟩

/-- `loop { .. break .. }` over the cursor with fuel `remaining + 1`: a step that continues without
consuming input would make the Rust loop spin for ever, which the model reports as the fault `fuel` -/
@[inline] def loopSt (step : σ → P (Sum σ β)) (a : σ) : P β :=
  fun w s => loopGo step w (s.rest.length + 1) a s 0

end Loops

/-- `n ≤ l.length` in `min n l.length` steps -/
def lengthGe {α : Type} : List α → Nat → Bool
  | _, 0 => true
  | [], _ + 1 => false
  | _ :: r, n + 1 => lengthGe r n

/-- `n <= self.reader.raw().len()` (the checks of a count against the remaining input; `P.remaining`
would walk the whole rest of a 1 MiB input at every array and type) -/
@[inline] def atLeast (n : Nat) : P Bool := fun _ s => .ok (lengthGe s.rest n, s)

/-! ### packed integers -/

/-- `x as i32` for a `u32` -/
def asI32 (r : UInt32) : Int := if r.toNat < 2 ^ 31 then (r.toNat : Int) else (r.toNat : Int) - 2 ^ 32

/-- the `while byte & 0x80 != 0` loop of `read_packed_int` over the shifts still available: read a
byte, `result |= (byte & 0xffffff7f).checked_shl(shift)?`; after the shifts 6, 13, 20, 27 the next one
is 34 and `checked_shl` answers `None` -/
def packedTail : List Nat → UInt32 → P UInt32
  | [], _ => do
    let _ ← P.u8
    P.failP
  | sh :: rest, result => do
    let b ← P.u8
    let result := result ||| ((b.toUInt32 &&& 0xFFFFFF7F) <<< sh.toUInt32)
    if b &&& 0x80 != 0 then packedTail rest result else pure result

/-- `read_packed_int`: bit 0 of the first byte is the sign, bits 1..6 the low six bits of the
magnitude, bit 7 of every byte the continuation flag; `checked_neg` refuses `i32::MIN` -/
def packedInt : P Int := do
  let b ← P.u8
  let first : UInt32 := ((b &&& 0x7f) >>> 1).toUInt32
  let result ← (if b &&& 0x80 != 0 then packedTail [6, 13, 20, 27] first else pure first)
  if b &&& 1 == 1 then
    (if result == 0x80000000 then P.failP else pure (-(asI32 result)))
  else pure (asI32 result)

/-- `x as usize` used as an index / length: a negative value is a huge index and never in range -/
def asIndex (n : Int) : Option Nat := if n < 0 then none else some n.toNat

/-! ### bit fields -/

/-- `((count + 7) & 0xffff_fff8) / 8` on `usize` -/
def bitFieldBytes (count : Nat) : Nat := ((count + 7) &&& 0xFFFFFFF8) / 8

/-- the inner `for _ in 0..8` loop: push the low bit, shift, `break` when `result.len() == count`
(`acc` is kept in reverse) -/
def pushBits (count : Nat) : Nat → UInt8 → Nat → List Bool → Nat × List Bool
  | 0, _, n, acc => (n, acc)
  | k + 1, byte, n, acc =>
    let acc := ((byte &&& 1) == 1) :: acc
    if n + 1 == count then (n + 1, acc) else pushBits count k (byte >>> 1) (n + 1) acc

/-- `read_bit_field` -/
def readBitField (count : Nat) : P (List Bool) := do
  let bs ← P.bytes (bitFieldBytes count)
  pure (bs.foldl (fun (st : Nat × List Bool) byte => pushBits count 8 byte st.1 st.2) (0, [])).2.reverse

/-! ### types and values -/

/-- `HavokObjectTypeMember` (the tuple size is read and never used) -/
structure Member where
  name : Bytes
  ty : Nat
  cls : Option Bytes
  deriving Repr, Inhabited

/-- `HavokObjectType`: the built-in `object` has no parent, every declared type has one (held by
value: the `Arc` of the code) -/
inductive HType where
  | root (name : Bytes) (own : List Member)
  | child (name : Bytes) (own : List Member) (parent : HType)
  deriving Repr, Inhabited

def HType.name : HType → Bytes
  | .root n _ => n
  | .child n _ _ => n

def HType.membersAcc : HType → List Member → List Member
  | .root _ own, acc => own ++ acc
  | .child _ own p, acc => p.membersAcc (own ++ acc)

/-- `members()`: the ancestors' members, oldest ancestor first, then the type's own (`C18-77`: a loop) -/
def HType.members (t : HType) : List Member := t.membersAcc []

def isTuple (ty : Nat) : Bool := ty &&& 0x20 != 0
def isArray (ty : Nat) : Bool := ty &&& 0x10 != 0
def baseType (ty : Nat) : Nat := ty &&& 0x0f
def isVecBase (b : Nat) : Bool := b == 4 || b == 5 || b == 6 || b == 7
def vecSize (b : Nat) : Nat := 4 * (b - 3)

/-- `HavokValue`; f32 as bit patterns -/
inductive Value where
  | int (v : Int)
  | real (v : UInt32)
  | str (s : Bytes)
  | vec (v : List UInt32)
  | arr (l : List Value)
  /-- `Object(..)` owning an element of a STRUCT array: its type and its `data` map -/
  | obj (ty : HType) (data : List (Nat × Value))
  /-- `ObjectReference(i)`, resolved against the remembered objects -/
  | ref (i : Nat)
  deriving Repr, Inhabited

structure Obj where
  ty : HType
  data : List (Nat × Value)
  deriving Repr, Inhabited

/-- the reader: `file_version`, the remembered strings / types / objects, one more than the largest
object index read so far, `struct_elements_left`; `cost` is not part of the code: a generous estimate
of the heap the values created so far take (bytes), from which the driver decides membership in the
class of the recorded finding `sklb.object-heap-amplification` -/
structure HSt where
  ver : Nat
  strings : Array Bytes
  types : Array HType
  objs : Array Obj
  refBound : Nat
  left : Nat
  cost : Nat
  deriving Repr, Inhabited

/-- ghost: `n` more bytes of estimated heap -/
def HSt.pay (st : HSt) (n : Nat) : HSt := { st with cost := st.cost + n }

def objectType : HType := .root [111, 98, 106, 101, 99, 116] []

/-- `HavokBinaryTagFileReader::new` on `len` bytes -/
def HSt.init (len : Nat) : HSt := ⟨0, #[[115, 116, 114, 105, 110, 103], []], #[objectType], #[], 0, len, 0⟩

def HSt.noteRef (st : HSt) (i : Nat) : HSt := { st with refBound := max st.refBound (i + 1) }

/-- `MAX_ARRAY_DEPTH` -/
def maxArrayDepth : Nat := 32

/-! ### strings and scalar values -/

/-- `read_string`: a negative length refers to a remembered string (`checked_neg`, `.get(..)?`),
otherwise the bytes follow (`try_read_bytes`), must be UTF-8 (`.ok()?`) and are remembered -/
def readString (hs : HSt) : P (Bytes × HSt) := do
  let len ← packedInt
  if len < 0 then
    (if len == -2147483648 then P.failP
     else
      match hs.strings[(-len).toNat]? with
      | some s => pure (s, hs)
      | none => P.failP)
  else do
    let s ← P.countBytesChecked len.toNat
    if Utf8.valid s then pure (s, { hs with strings := hs.strings.push s, cost := hs.cost + 2 * s.length + 64 })
    else P.failP

def readStringV (hs : HSt) : P (Value × HSt) := do
  let r ← readString hs
  pure (.str r.1, r.2)

def readIntV (hs : HSt) : P (Value × HSt) := do
  let v ← packedInt
  pure (.int v, hs)

def readByteV (hs : HSt) : P (Value × HSt) := do
  let v ← P.u8
  pure (.int v.toNat, hs)

def readRealV (hs : HSt) : P (Value × HSt) := do
  let v ← P.u32le
  pure (.real v, hs)

/-- `ObjectReference(self.read_packed_int()? as usize)`: a negative index becomes a huge `usize`, on
which the fix-up pass returns `None` -/
def readRefV (hs : HSt) : P (Value × HSt) := do
  let v ← packedInt
  match asIndex v with
  | none => P.failP
  | some i => pure (.ref i, hs.noteRef i)

def readVecV (size : Nat) (hs : HSt) : P (Value × HSt) := do
  let v ← iterN size (fun (u : Unit) => do let x ← P.u32le; pure (x, u)) ()
  pure (.vec v.1, hs)

/-! ### type declarations -/

def readMember (hs : HSt) : P (Member × HSt) := do
  let r ← readString hs
  let tyv ← packedInt
  -- `HavokValueType::from_bits(x as u32)?`: only bits of 0x3f may be set
  if tyv < 0 ∨ 64 ≤ tyv then P.failP
  else do
    let ty := tyv.toNat
    let _ ← (if isTuple ty then packedInt else pure 0)
    if baseType ty == 8 || baseType ty == 9 then do
      let c ← readString r.2
      pure (⟨r.1, ty, some c.1⟩, c.2)
    else pure (⟨r.1, ty, none⟩, r.2)

/-- `read_type` -/
def readType (hs : HSt) : P (HType × HSt) := do
  let r ← readString hs
  let _ ← packedInt
  let parent ← packedInt
  let memberCount ← packedInt
  -- `member_count as i64 > self.reader.raw().len() as i64` is rejected (never for a negative count)
  let enough ← atLeast memberCount.toNat
  if !enough then P.failP
  else
    match (asIndex parent).bind (r.2.types[·]?) with
    | none => P.failP
    | some p => do
      -- `(0..member_count)` is empty for a negative count
      let ms ← iterN memberCount.toNat readMember r.2
      pure (.child r.1 ms.1 p, ms.2)

/-- `find_type`: the first remembered type of that name -/
def findType (hs : HSt) (name : Bytes) : Option HType := hs.types.find? (·.name == name)

/-! ### values -/

/-- `default_value`: arrays and tuples are empty arrays, vectors zero vectors, scalars zero / empty /
a reference to object 0; structs and the undefined base types have no default -/
def defaultValue (hs : HSt) (ty : Nat) : Option (Value × HSt) :=
  if isArray ty || isTuple ty then some (.arr [], hs)
  else if isVecBase (baseType ty) then some (.vec (List.replicate (vecSize (baseType ty)) 0), hs)
  else if ty == 0 || ty == 1 || ty == 2 then some (.int 0, hs)
  else if ty == 3 then some (.real 0, hs)
  else if ty == 10 then some (.str [], hs)
  else if ty == 8 then some (.ref 0, hs.noteRef 0)
  else none

/-- the `data` of element `i` of a STRUCT array from its columns -/
def rowOf (cols : List (Nat × Array Value)) (i : Nat) : List (Nat × Value) :=
  cols.filterMap fun (k, col) => col[i]?.map fun v => (k, v)

/-- the struct-of-arrays loop over `target_type.members()`: `ex` = the rest of `data_existence`
(`.get(member_index)?`), `idx` = `member_index`, `ra` = `read_array` one level deeper -/
def readColumns (ra : HSt → Member → Nat → P (List Value × HSt)) :
    List Member → List Bool → Nat → Nat → HSt → P (List (Nat × Array Value) × HSt)
  | [], _, _, _, hs => pure ([], hs)
  | _ :: _, [], _, _, _ => P.failP
  | m :: ms, e :: es, idx, len, hs =>
    if e then
      (if isTuple m.ty then P.failP
       else do
        -- (ghost: one map entry per element for the column)
        let col ← ra (hs.pay (100 * len)) m len
        let rest ← readColumns ra ms es (idx + 1) len col.2
        pure ((idx, col.1.toArray) :: rest.1, rest.2))
    else readColumns ra ms es (idx + 1) len hs

/-- `read_array(member, array_len, depth)` with fuel `MAX_ARRAY_DEPTH + 1 - depth` -/
def readArray : Nat → HSt → Member → Nat → P (List Value × HSt)
  | 0, _, _, _ => P.failP
  | fuel + 1, hs, m, len =>
    let base := baseType m.ty
    if base == 10 then iterN len readStringV hs
    else if base == 9 then
      match m.cls.bind (findType hs) with
      | none => P.failP
      | some t => do
        let ex ← readBitField t.members.length
        -- `self.struct_elements_left = self.struct_elements_left.checked_sub(array_len)?`
        if hs.left < len then P.failP
        else do
          let cols ← readColumns (readArray fuel) t.members ex 0 len
            { hs with left := hs.left - len, cost := hs.cost + 400 * len }
          pure ((List.range len).map (fun i => Value.obj t (rowOf cols.1 i)), cols.2)
    else if base == 8 then iterN len readRefV hs
    else if base == 1 then iterN len readByteV hs
    else if base == 2 then do
      let _ ← (if 3 ≤ hs.ver then packedInt else pure 0)
      iterN len readIntV hs
    else if base == 3 then iterN len readRealV hs
    else if isVecBase base then iterN len (readVecV (vecSize base)) hs
    else P.failP

/-- `read_object_member_value` -/
def readMemberValue (hs : HSt) (m : Member) : P (Value × HSt) :=
  if isArray m.ty then do
    let len ← packedInt
    -- `array_len < 0 || array_len as usize > self.reader.raw().len()` is rejected
    let enough ← atLeast len.toNat
    if len < 0 ∨ !enough then P.failP
    else if baseType m.ty == 8 && m.cls.isNone then P.failP
    else do
      -- (ghost: a `HavokValue` per element, a `Vec<f32>` per vector)
      let l ← readArray (maxArrayDepth + 1) (hs.pay (192 * len.toNat)) m len.toNat
      pure (.arr l.1, l.2)
  else if m.ty == 1 then readByteV hs
  else if m.ty == 2 then readIntV hs
  else if m.ty == 3 then readRealV hs
  else if m.ty == 10 then readStringV hs
  else if m.ty == 8 then readRefV hs
  else P.failP

/-- the loop over `members.into_iter().enumerate()` of `read_object` -/
def readMembers : List Member → List Bool → Nat → HSt → P (List (Nat × Value) × HSt)
  | [], _, _, hs => pure ([], hs)
  | _ :: _, [], _, _ => P.failP
  | m :: ms, e :: es, idx, hs => do
    let v ← (if e then readMemberValue hs m
             else
              match defaultValue hs m.ty with
              | some r => pure r
              | none => P.failP)
    let rest ← readMembers ms es (idx + 1) v.2
    pure ((idx, v.1) :: rest.1, rest.2)

/-- `read_object` -/
def readObject (hs : HSt) : P (Obj × HSt) := do
  let ti ← packedInt
  match (asIndex ti).bind (hs.types[·]?) with
  | none => P.failP
  | some t => do
    let ms := t.members
    let ex ← readBitField ms.length
    -- (ghost: the object and one map entry per member, present or defaulted)
    let data ← readMembers ms ex 0 (hs.pay (256 + 100 * ms.length))
    pure (⟨t, data.1⟩, data.2)

/-- one iteration of the tag loop of `do_read`: `inl` = go on, `inr` = `FileEnd` -/
def tagStep (hs : HSt) : P (Sum HSt HSt) := do
  let tag ← packedInt
  -- `read_packed_int()? as u8`
  let t := (tag % 256).toNat
  if t == 1 then do
    let v ← packedInt
    let ver := (v % 256).toNat
    if ver != 3 then P.failP
    else
      match hs.types[0]? with
      | none => P.failP
      | some t0 => pure (.inl { hs with ver := ver, objs := hs.objs.push ⟨t0, []⟩ })
  else if t == 2 then do
    let r ← readType hs
    pure (.inl { r.2 with types := r.2.types.push r.1 })
  else if t == 4 then do
    let r ← readObject hs
    pure (.inl { r.2 with objs := r.2.objs.push r.1 })
  else if t == 7 then pure (.inr hs)
  else P.failP

/-- `HavokBinaryTagFileReader::read` on the bytes from the cursor on: signature, tag loop, reference
fix-up (every object index that was read must be remembered), the root is entry 1 -/
def havokRead : P (Array Obj × Nat) := do
  let len ← P.remaining
  let s1 ← P.u32le
  let s2 ← P.u32le
  if s1 != 0xCAB00D1E || s2 != 0xD011FACE then P.failP
  else do
    let hs ← loopSt tagStep (HSt.init len)
    if hs.refBound ≤ hs.objs.size ∧ 1 < hs.objs.size then pure (hs.objs, hs.cost) else P.failP

/-! ### the SKLB container -/

/-- the binrw `SKLB` header up to `raw_data`: the offset of the Havok data -/
def header : P Nat := do
  P.magic [0x62, 0x6C, 0x6B, 0x73]
  let version ← P.u32le
  P.assertP (version == 0x31323030 || version == 0x31333030 || version == 0x31333031)
  if version == 0x31323030 then do
    let _ ← P.u16le
    let off ← P.u16le
    let _ ← P.u32le
    let _ ← P.u32le
    let _ ← P.u32le
    let _ ← P.u32le
    pure off.toNat
  else do
    let _ ← P.u32le
    let off ← P.u32le
    let _ ← P.u32le
    let _ ← P.u32le
    let _ ← P.u32le
    let _ ← P.u32le
    let _ ← P.u32le
    pure off.toNat

def reader : P (Array Obj × Nat) := do
  let off ← header
  P.seekStart off
  havokRead

/-! ### the extraction (no cursor, nothing that can fail other than by `None`) -/

def getMember (ty : HType) (data : List (Nat × Value)) (name : Bytes) : Option Value :=
  match ty.members.findIdx? (·.name == name) with
  | none => none
  | some i => (data.find? (·.1 == i)).map (·.2)

def Obj.get (o : Obj) (name : Bytes) : Option Value := getMember o.ty o.data name

/-- `as_object().borrow()` on a value of the fixed-up graph -/
def asObject (objs : Array Obj) : Value → Option Obj
  | .obj ty data => some ⟨ty, data⟩
  | .ref i => objs[i]?
  | _ => none

def asArray : Value → Option (List Value)
  | .arr l => some l
  | _ => none
def asString : Value → Option Bytes
  | .str s => some s
  | _ => none
def asInt : Value → Option Int
  | .int v => some v
  | _ => none
def asVec : Value → Option (List UInt32)
  | .vec v => some v
  | _ => none
def asReal : Value → Option UInt32
  | .real v => some v
  | _ => none

def n_namedVariants : Bytes := [110, 97, 109, 101, 100, 86, 97, 114, 105, 97, 110, 116, 115]
def n_className : Bytes := [99, 108, 97, 115, 115, 78, 97, 109, 101]
def n_variant : Bytes := [118, 97, 114, 105, 97, 110, 116]
def n_hkaAnimationContainer : Bytes :=
  [104, 107, 97, 65, 110, 105, 109, 97, 116, 105, 111, 110, 67, 111, 110, 116, 97, 105, 110, 101, 114]
def n_skeletons : Bytes := [115, 107, 101, 108, 101, 116, 111, 110, 115]
def n_bindings : Bytes := [98, 105, 110, 100, 105, 110, 103, 115]
def n_bones : Bytes := [98, 111, 110, 101, 115]
def n_name : Bytes := [110, 97, 109, 101]
def n_parentIndices : Bytes := [112, 97, 114, 101, 110, 116, 73, 110, 100, 105, 99, 101, 115]
def n_referencePose : Bytes := [114, 101, 102, 101, 114, 101, 110, 99, 101, 80, 111, 115, 101]
def n_transformTrackToBoneIndices : Bytes :=
  [116, 114, 97, 110, 115, 102, 111, 114, 109, 84, 114, 97, 99, 107, 84, 111, 66, 111, 110, 101, 73, 110, 100,
    105, 99, 101, 115]
def n_blendHint : Bytes := [98, 108, 101, 110, 100, 72, 105, 110, 116]
def n_animation : Bytes := [97, 110, 105, 109, 97, 116, 105, 111, 110]
def n_hkaSplineCompressedAnimation : Bytes :=
  [104, 107, 97, 83, 112, 108, 105, 110, 101, 67, 111, 109, 112, 114, 101, 115, 115, 101, 100, 65, 110, 105, 109,
    97, 116, 105, 111, 110]
def n_duration : Bytes := [100, 117, 114, 97, 116, 105, 111, 110]
def n_numberOfTransformTracks : Bytes :=
  [110, 117, 109, 98, 101, 114, 79, 102, 84, 114, 97, 110, 115, 102, 111, 114, 109, 84, 114, 97, 99, 107, 115]
def n_numFrames : Bytes := [110, 117, 109, 70, 114, 97, 109, 101, 115]
def n_numBlocks : Bytes := [110, 117, 109, 66, 108, 111, 99, 107, 115]
def n_maxFramesPerBlock : Bytes :=
  [109, 97, 120, 70, 114, 97, 109, 101, 115, 80, 101, 114, 66, 108, 111, 99, 107]
def n_maskAndQuantizationSize : Bytes :=
  [109, 97, 115, 107, 65, 110, 100, 81, 117, 97, 110, 116, 105, 122, 97, 116, 105, 111, 110, 83, 105, 122, 101]
def n_blockInverseDuration : Bytes :=
  [98, 108, 111, 99, 107, 73, 110, 118, 101, 114, 115, 101, 68, 117, 114, 97, 116, 105, 111, 110]
def n_frameDuration : Bytes := [102, 114, 97, 109, 101, 68, 117, 114, 97, 116, 105, 111, 110]
def n_blockOffsets : Bytes := [98, 108, 111, 99, 107, 79, 102, 102, 115, 101, 116, 115]
def n_data : Bytes := [100, 97, 116, 97]

/-- `HavokRootObject::find_object_by_type` -/
def findVariant (objs : Array Obj) (cls : Bytes) : List Value → Option Obj
  | [] => none
  | v :: rest =>
    match asObject objs v with
    | none => none
    | some vo =>
      match (vo.get n_className).bind asString with
      | none => none
      | some c =>
        if c == cls then (vo.get n_variant).bind (asObject objs)
        else findVariant objs cls rest

/-- `HavokTransform::new`: `vec.get(..12)?` -/
def transformOk (v : List UInt32) : Bool := 12 ≤ v.length

/-- `HavokSkeleton::new`: number of bone names, of parent indices and of poses -/
def skeletonOf (objs : Array Obj) (o : Obj) : Option (Nat × Nat × Nat) :=
  match (o.get n_bones).bind asArray with
  | none => none
  | some bones =>
    match bones.mapM (fun x => (asObject objs x).bind fun bo => (bo.get n_name).bind asString) with
    | none => none
    | some names =>
      match (o.get n_parentIndices).bind asArray with
      | none => none
      | some pis =>
        match pis.mapM asInt with
        | none => none
        | some parents =>
          match (o.get n_referencePose).bind asArray with
          | none => none
          | some poses =>
            match poses.mapM (fun x => (asVec x).bind fun v => if transformOk v then some () else none) with
            | none => none
            | some ts => some (names.length, parents.length, ts.length)

/-- `HavokSplineCompressedAnimation::new`: ten members of the right kinds -/
def splineOf (o : Obj) : Option Unit := do
  let _ ← (o.get n_duration).bind asReal
  let _ ← (o.get n_numberOfTransformTracks).bind asInt
  let _ ← (o.get n_numFrames).bind asInt
  let _ ← (o.get n_numBlocks).bind asInt
  let _ ← (o.get n_maxFramesPerBlock).bind asInt
  let _ ← (o.get n_maskAndQuantizationSize).bind asInt
  let _ ← (o.get n_blockInverseDuration).bind asReal
  let _ ← (o.get n_frameDuration).bind asReal
  let offs ← (o.get n_blockOffsets).bind asArray
  let _ ← offs.mapM asInt
  let data ← (o.get n_data).bind asArray
  let _ ← data.mapM asInt
  pure ()

/-- `HavokAnimationBinding::new` -/
def bindingOf (objs : Array Obj) (o : Obj) : Option Unit := do
  let tracks ← (o.get n_transformTrackToBoneIndices).bind asArray
  let _ ← tracks.mapM asInt
  let hint ← (o.get n_blendHint).bind asInt
  -- `HavokAnimationBlendHint::from_raw(x as u8)?`
  let h := (hint % 256).toNat
  if h != 0 && h != 1 then none
  let anim ← (o.get n_animation).bind (asObject objs)
  if anim.ty.name == n_hkaSplineCompressedAnimation then splineOf anim else none

/-- `find_object_by_type("hkaAnimationContainer")`, `HavokAnimationContainer::new` (every skeleton and
every binding is built), `skeletons.first()?` and the bone loop (`parent_indices.get(i)?`,
`reference_pose.get(i)?`): the number of bones of the result -/
def extract (objs : Array Obj) : Option Nat :=
  match objs[1]? with
  | none => none
  | some root =>
    match ((root.get n_namedVariants).bind asArray).bind (findVariant objs n_hkaAnimationContainer) with
    | none => none
    | some container =>
      match (container.get n_skeletons).bind asArray with
      | none => none
      | some sks =>
        match sks.mapM (fun x => (asObject objs x).bind (skeletonOf objs)) with
        | none => none
        | some skeletons =>
          match (container.get n_bindings).bind asArray with
          | none => none
          | some bindings =>
            match bindings.mapM (fun x => (asObject objs x).bind (bindingOf objs)) with
            | none => none
            | some _ =>
              match skeletons with
              | [] => none
              | (names, parents, poses) :: _ =>
                if names ≤ parents ∧ names ≤ poses then some names else none

/-- `Skeleton::from_existing`: the number of bones (and the ghost estimate of the heap) -/
def fromExisting (b : Bytes) : Res (Nat × Nat) := do
  let r ← P.run reader b
  Res.ofOption ((extract r.1).map fun n => (n, r.2))

/-- the input class of the recorded finding `sklb.object-heap-amplification`: the file parses and the
objects it describes take (by the generous estimate `cost`) more than half of the budget -/
def heapOutOfProportion (b : Bytes) : Bool :=
  match (fromExisting b).out with
  | .ok (_, cost) => decide (budget b.length < 2 * cost)
  | _ => false

/-! ### the pinned commit, for the witness theorem: `read_packed_int` over a panicking `ByteReader` -/

/-- `ByteReader::read`: `self.data[self.cursor]` -/
def readUnfixed : P UInt8 := fun _ s =>
  match s.rest with
  | a :: r => .ok (a, ⟨s.pos + 1, r⟩)
  | _ => .panic .index

/-- the loop with `<< shift` (overflow panic at 32 and more in the test profile) -/
def packedTailUnfixed : Nat → Nat → UInt32 → P UInt32
  | 0, _, _ => P.lift (.panic .fuel)
  | k + 1, shift, result => do
    let b ← readUnfixed
    if 32 ≤ shift then P.lift (.panic .overflow)
    else
      let result := result ||| ((b.toUInt32 &&& 0xFFFFFF7F) <<< shift.toUInt32)
      if b &&& 0x80 != 0 then packedTailUnfixed k (shift + 7) result else pure result

def packedIntUnfixed : P Int := do
  let b ← readUnfixed
  let first : UInt32 := ((b &&& 0x7f) >>> 1).toUInt32
  let result ← (if b &&& 0x80 != 0 then packedTailUnfixed 8 6 first else pure first)
  if b &&& 1 == 1 then
    (if result == 0x80000000 then P.lift (.panic .overflow) else pure (-(asI32 result)))
  else pure (asI32 result)

end Physis.C18Havok
